(* ListenLink.v — the shape of ListenAndServe extracted from /repo's source by `listentrans`
   (gen/Listen_gen.v) is the shape the hand-written accept-loop model assumes (server/ListenShape.v
   listen_model). When the source changes — l1 / l2 (or remote) declared outside the loop, an error
   branch that closes something else or does not `continue`, another order of Accept / Configure /
   h1 / h2, other closers for abort or for the server, other handlers for the orchestrator, EOF
   treated differently from other CanParse errors, a goroutine that captures differently —
   Listen_gen.v changes with it and listen_src_link stops compiling.

   The rest transports the lemmas of server/ListenShapeProofs.v from listen_model to listen_src:
   Listen.v's transition system IS the loop driven by the extracted shape, so the theorems of
   props/C14b.v and props/C15b.v hold of the loop extracted from source. *)
From Coq Require Import String.
From Rend Require Import base.Bytes server.Listen server.ListenProofs server.ListenShape server.ListenShapeProofs
  gen.Listen_gen.
From Rend Require proto.LoopShape gen.Loop_gen gen.LoopLink.
Open Scope N_scope.

Lemma listen_src_link : listen_src = listen_model.
Proof. reflexivity. Qed.

(* ---- Listen.step is the transition function the extracted shape prescribes ---- *)
Lemma src_step : forall s e, sh_step listen_src s e = Some (step s e).
Proof. rewrite listen_src_link. exact model_step. Qed.

Lemma src_analyse : sh_analyse listen_src = Some (mkAn true RdOwn RdOwn [RConn; RL1; RL2] [RConn; RL1; RL2] (RL1, RL2)).
Proof. rewrite listen_src_link. exact model_analyse. Qed.

(* the source declares l1 and l2 per iteration; the same source with the two declarations moved
   before the loop (what seeds C14-2 / C15-2 do) is Listen.step_shared *)
Lemma src_is_per_iteration : listen_src = listen_with InLoop InLoop.
Proof. exact listen_src_link. Qed.

Lemma src_hoisted_is_shared : forall s e, sh_step (listen_with Hoisted Hoisted) s e = Some (step_shared s e).
Proof. exact hoisted_step. Qed.

(* ---- C14 / C15 for the loop extracted from source ---- *)
Lemma c14_src_own_handlers_lemma :
  exists stp, (forall s e, sh_step listen_src s e = Some (stp s e)) /\ own_handlers stp /\ pairs_disjoint stp.
Proof.
  destruct (shape_step_props listen_src src_step) as (stp & H & A & B & _). exists stp. auto.
Qed.

Lemma c15_src_close_releases_own_lemma :
  exists stp, (forall s e, sh_step listen_src s e = Some (stp s e)) /\ close_releases_own stp /\ all_closed_none_open stp.
Proof.
  destruct (shape_step_props listen_src src_step) as (stp & H & _ & _ & A & B). exists stp. auto.
Qed.

Lemma src_hoisted_refuted_lemma :
  forall stp, (forall s e, sh_step (listen_with Hoisted Hoisted) s e = Some (stp s e)) ->
  ~ own_handlers stp /\ ~ close_releases_own stp.
Proof. exact (shape_shared_props listen_hoisted hoisted_step). Qed.

(* ---- the error branches before the goroutine ---- *)
Lemma c15_src_error_paths_close_lemma :
  sh_error_paths listen_src = Some [
    mkEPath (SAccept InLoop) [] [RRemote] [(RRemote, true)] BContinue;
    mkEPath SConfigure [RRemote] [] [(RRemote, false)] BContinue;
    mkEPath (SMake RL1 InLoop) [RRemote] [] [(RRemote, false)] BContinue;
    mkEPath (SMake RL2 InLoop) [RRemote; RL1] [] [(RL1, false); (RRemote, false)] BContinue] /\
  sh_error_paths_close listen_src [RRemote; RL1; RL2] /\
  (forall p ps, sh_error_paths listen_src = Some ps -> In p ps ->
     ep_exit p = BContinue /\
     (forall r, In r (ep_sure p ++ ep_maybe p) -> count r (map fst (ep_closes p)) = 1%nat) /\
     (forall c, In c (ep_closes p) -> res_in (fst c) (ep_sure p ++ ep_maybe p) = true) /\
     (forall c, In c (ep_closes p) -> res_in (fst c) (ep_maybe p) = true -> snd c = true)) /\
  Forall (fun c => snd c = true) (lsh_configure listen_src).
Proof.
  rewrite listen_src_link. split; [reflexivity|]. split; [exact model_error_paths|]. split.
  - intros p ps H Hin. unfold listen_model in H. rewrite with_error_paths_eq in H. inversion H; subst ps; clear H.
    assert (O : epath_ok p = true).
    { assert (F : forallb epath_ok (model_epaths InLoop InLoop) = true) by reflexivity.
      rewrite forallb_forall in F. now apply F. }
    unfold epath_ok in O. apply andb_true_iff in O. destruct O as [O1 O2].
    split; [destruct (ep_exit p); try discriminate; reflexivity|]. now apply releases_spec.
  - repeat constructor.
Qed.

(* ---- CanParse fails (io.EOF before the first byte, or any other error) ---- *)
Lemma c15_src_eof_before_first_byte_aborts_lemma :
  (forall eof, sh_detect_err listen_src eof = Some [RConn; RL1; RL2]) /\
  (forall evs, wf evs = true ->
   forall pre post c, evs = pre ++ EEOF0 c :: post ->
   exists h1 h2, In (EAccept c, OMade h1 h2) (trace pre) /\
     sh_step listen_src (st pre) (EEOF0 c) = Some (st (pre ++ [EEOF0 c]), OClosed [h1; h2]) /\
     In h1 (open (st pre)) /\ In h2 (open (st pre)) /\
     ~ In h1 (open (st (pre ++ [EEOF0 c]))) /\ ~ In h2 (open (st (pre ++ [EEOF0 c])))).
Proof. rewrite listen_src_link. split; [exact model_detect_err|exact model_eof_closes_own]. Qed.

(* ---- the closers the server is constructed with are what DefaultServer.Loop's abort (as extracted
   by looptrans) closes at the end of the connection: Listen.v's EClose ---- *)
Lemma src_server_closers_loop_abort : forall s c r hs,
  LoopShape.sh_abort_open Loop_gen.loop_src (hs_of [RConn; RL1; RL2] hs) (open s) = Some (open (fst (abort s c r hs))).
Proof. intros s c r hs. exact (proj1 (LoopLink.src_abort_listen s c r hs)). Qed.
