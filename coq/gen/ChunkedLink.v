(* ChunkedLink.v — the chunked handler's methods translated from /repo's source by `chunktrans`
   (gen/Chunked_gen.v) are equivalent, request by request and for every well-shaped reply, to the
   hand-written programs of handlers/Chunked.v that C04/C05/C09/C10/C16 are stated about. *)
From Coq Require Import String.
From Rend Require Import base.Bytes gen.Consts_gen spec.MapSpec orca.Types orca.OrcaSem handlers.ChunkFmt
  handlers.Chunked handlers.ChunkedSpec handlers.ChunkedProofs handlers.ChunkSem handlers.ChunkSemLemmas gen.Chunked_gen.
Open Scope N_scope.
Open Scope list_scope.

Definition clean : cst := mkCS [] None [] [].

Ltac prims := cbv beta iota zeta delta [c_flush c_read_hdr c_reset c_write_meta c_copy_clr c_read_meta c_deref c_finish
  cs_buf cs_cur cs_sent cs_body next_reply fst snd err_nil negb hdr_err hdr_total body_of herr_res readResponseHeader_src]; cbn [app].

(* the chunk-writing loop of handleSetCommon *)
Lemma set_loop tok cnow k d f ttl rt exp expired nch mk md cond K :
  len tok = tokenSize -> tokenSize < chunk_full (len k) ->
  (forall r h e c, cond (r, h, e, c) = clr_more r) ->
  (forall s, K s clean = BRet (SVal HDone)) ->
  forall m i h e cn0 r0 h0 e0,
  m = N.to_nat (num_chunks (len d) (chunk_data (len k)) - i) ->
  beq_on shape_w
    (c_while m cond
       (handleSetCommon_loop1 tok cnow k d f ttl rt exp expired (chunk_data (len k)) (chunk_full (len k)) r0 nch tok mk md h0 e0 cn0
                (fun e_ st_ => c_finish (herr_res e_) st_))
       (mkCLR d (chunk_data (len k)) (num_chunks (len d) (chunk_data (len k))) i false, h, e, i) clean K)
    (blift (write_chunks (map (fun j => QSet MSet (chunk_key k j) f ttl (tok ++ chunk_i (chunk_data (len k)) d j)) (nrange i m)))).
Proof.
  intros Htok Hfull Hcond HK. induction m as [|m IH]; intros i h e cn0 r0 h0 e0 Hm.
  - cbn [c_while nrange map write_chunks blift]. rewrite Hcond. unfold clr_more; cbn [clr_done clr_n].
    destruct (N.ltb_spec i (num_chunks (len d) (chunk_data (len k)))); [lia|]. rewrite HK. constructor.
  - cbn [c_while nrange map write_chunks blift]. rewrite Hcond. unfold clr_more at 1; cbn [clr_done clr_n].
    destruct (N.ltb_spec i (num_chunks (len d) (chunk_data (len k)))) as [Hlt|]; [|lia].
    unfold handleSetCommon_loop1 at 1. unfold clean.
    rewrite c_cmd_body by lia. prims.
    rewrite c_data_part by lia. prims.
    assert (Hcur : clr_cur (mkCLR d (chunk_data (len k)) (num_chunks (len d) (chunk_data (len k))) i false) = chunk_i (chunk_data (len k)) d i).
    { unfold clr_cur, clr_more; cbn [clr_used clr_done clr_n clr_cs clr_d orb].
      destruct (N.ltb_spec i (num_chunks (len d) (chunk_data (len k)))); [reflexivity|lia]. }
    rewrite Hcur. rewrite c_data_fin by (rewrite chunk_i_len; unfold chunk_data; lia). prims.
    apply BeReq. intros x Hx. destruct x as [|st|]; try contradiction. prims.
    destruct (err_of_status st) as [er|] eqn:Est.
    + prims. rewrite c_discard_all. prims. constructor.
    + prims.
      unfold clr_next; cbn [clr_used clr_done clr_n clr_cs clr_d].
      destruct (N.ltb_spec i (num_chunks (len d) (chunk_data (len k)))); [|lia].
      apply IH. lia.
Qed.

Lemma map_nrange {B} (g : N -> B) n a : map (fun i => g (N.of_nat i)) (seq a n) = map g (nrange (N.of_nat a) n).
Proof. rewrite nrange_seq, map_map. reflexivity. Qed.

Definition rt_of (m : smode) : N := match m with MSet => RtSet | MAdd => RtAdd | MReplace => RtReplace end.

Lemma meta_len_tok tok a b c d e f : len tok = tokenSize -> len (enc_meta (mkMeta a b c d e f tok)) = metadataSize.
Proof. intros H. rewrite enc_meta_len by exact H. rewrite tokenSize_val, metadataSize_val. reflexivity. Qed.

(* handleSetCommon = chunked_set, for the three request types *)
Lemma handleSetCommon_link tok cnow m k d f ttl :
  len tok = tokenSize -> tokenSize < chunk_full (len k) ->
  beq_on shape_w
    (handleSetCommon_src tok cnow k d f ttl (rt_of m) cs0 (fun e_ st_ => c_finish (herr_res e_) st_))
    (blift (chunked_set tok cnow m k d f ttl)).
Proof.
  intros Htok Hfull. unfold handleSetCommon_src, chunked_set.
  destruct (c_exptime cnow ttl) as [exp expired]. destruct expired.
  { prims. unfold cs0. cbn. constructor. }
  cbv beta iota zeta delta [chunk_size]. unfold cs0.
  assert (Hms : metadataSize <> 0) by (rewrite metadataSize_val; lia).
  destruct m; cbn [rt_of]; cbv beta iota zeta delta [RtSet RtAdd RtReplace N.eqb Pos.eqb];
    (rewrite c_cmd_body by exact Hms); prims;
    (rewrite c_data_fin by (apply meta_len_tok, Htok)); prims;
    (cbn [blift]; apply BeReq; intros x Hx; destruct x as [|st|]; try contradiction; prims;
     destruct (err_of_status st) as [er|] eqn:Est;
     [ prims; rewrite c_discard_all; prims; apply BeRet
     | prims; unfold chunk_sets, clr_new, clr_fuel; cbn [clr_n clr_done];
       rewrite take_all;
       match goal with |- beq_on _ _ (blift (write_chunks ?l)) =>
         replace l with (map (fun j => QSet MSet (chunk_key k j) f ttl (tok ++ chunk_i (chunk_data (len k)) d j))
                             (nrange 0 (N.to_nat (num_chunks (len d) (chunk_data (len k)) - 0))))
           by (rewrite N.sub_0_r; symmetry; apply (map_nrange (fun j => QSet MSet (chunk_key k j) f ttl (tok ++ chunk_i (chunk_data (len k)) d j)) _ 0%nat)) end;
       apply set_loop; [exact Htok | exact Hfull | intros; reflexivity | intros [[[? ?] ?] ?]; reflexivity | reflexivity] ]).
Qed.

Lemma c04_src_set_link tok cnow k d f ttl : len tok = tokenSize -> tokenSize < chunk_full (len k) ->
  beq_on shape_w (chunked_Set_src tok cnow k d f ttl) (blift (chunked_set tok cnow MSet k d f ttl)).
Proof. intros. unfold chunked_Set_src, Set_src. apply (handleSetCommon_link tok cnow MSet); assumption. Qed.
Lemma c04_src_add_link tok cnow k d f ttl : len tok = tokenSize -> tokenSize < chunk_full (len k) ->
  beq_on shape_w (chunked_Add_src tok cnow k d f ttl) (blift (chunked_set tok cnow MAdd k d f ttl)).
Proof. intros. unfold chunked_Add_src, Add_src. apply (handleSetCommon_link tok cnow MAdd); assumption. Qed.
Lemma c04_src_replace_link tok cnow k d f ttl : len tok = tokenSize -> tokenSize < chunk_full (len k) ->
  beq_on shape_w (chunked_Replace_src tok cnow k d f ttl) (blift (chunked_set tok cnow MReplace k d f ttl)).
Proof. intros. unfold chunked_Replace_src, Replace_src. apply (handleSetCommon_link tok cnow MReplace); assumption. Qed.

Lemma chunk_full_big (k : bytes) : len k <= 250 -> tokenSize < chunk_full (len k).
Proof. intros H. unfold chunk_full. rewrite tokenSize_val, chunkMaxSize_val, chunkOverhead_val. lia. Qed.

(* the translated Set runs exactly like the model's, on every store *)
Lemma src_set_run s now tok cnow k d f ttl : len tok = tokenSize -> len k <= 250 ->
  brun (chunked_Set_src tok cnow k d f ttl) s now =
  (fst (brun (chunked_set tok cnow MSet k d f ttl) s now), SVal (snd (brun (chunked_set tok cnow MSet k d f ttl) s now))).
Proof.
  intros Ht Hk. rewrite (beq_on_brun _ _ (c04_src_set_link tok cnow k d f ttl Ht (chunk_full_big k Hk))). apply brun_blift.
Qed.
Lemma src_set_roundtrip : forall s now tok cnow k d f ttl opq q,
  1 <= len k <= 250 -> len tok = tokenSize -> len d < 4294967296 -> f < 4294967296 ->
  cnow < 4294967296 -> ttl < 4294967296 -> cnow + ttl < 4294967296 ->
  snd (c_exptime cnow ttl) = false ->
  alive now (mkE [] 0 (norm now ttl)) = true ->
  let '(s1, r1) := brun (chunked_Set_src tok cnow k d f ttl) s now in
  r1 = SVal HDone /\
  brun (chunked_get [mkGI k opq q] []) s1 now = (s1, HVals [mkGR k d f 0 opq q false] None).
Proof.
  intros s now tok cnow k d f ttl opq q Hk Ht Hd Hf Hcn Httl Hsum Hexp Halive.
  rewrite src_set_run by (try exact Ht; lia).
  pose proof (ChunkedProofs.set_get_roundtrip s now tok cnow k d f ttl opq q Hk Ht Hd Hf Hcn Httl Hsum Hexp Halive) as H.
  destruct (brun (chunked_set tok cnow MSet k d f ttl) s now) as [s1 r1]. cbn [fst snd].
  destruct H as [-> H]. split; [reflexivity|exact H].
Qed.
Lemma src_set_trace s now tok cnow k d f ttl : len tok = tokenSize -> len k <= 250 ->
  btrace (chunked_Set_src tok cnow k d f ttl) s now = btrace (chunked_set tok cnow MSet k d f ttl) s now.
Proof.
  intros Ht Hk. rewrite (beq_on_btrace _ _ (c04_src_set_link tok cnow k d f ttl Ht (chunk_full_big k Hk))). apply btrace_blift.
Qed.

(* ---------------- Delete ---------------- *)
Ltac prims2 := cbv beta iota zeta delta [c_flush c_read_hdr c_reset c_write_meta c_read_meta c_deref c_finish
  cs_buf cs_cur cs_sent cs_body next_reply fst snd err_nil negb hdr_err hdr_total body_of herr_res readResponseHeader_src
  simpleCmdLocal_src getMetadata_src getMetadataCommon_src andb err_is]; cbn [app].

(* the loops that queue one command per chunk *)
Lemma del_loop1 tok cnow k mk md e0 ret K sent body : forall n i buf,
  c_for_n n i (Delete_loop1 tok cnow k mk md e0 ret) tt (mkCS buf None sent body) K =
  K tt (mkCS (buf ++ map (fun j => QDelete (chunk_key k j)) (nrange i n)) None sent body).
Proof.
  induction n as [|n IH]; intros i buf; cbn [c_for_n nrange map].
  - rewrite app_nil_r. reflexivity.
  - unfold Delete_loop1 at 1. rewrite c_cmd_0. prims2. rewrite IH, <- app_assoc. reflexivity.
Qed.

(* the loops that read one reply per chunk *)
Lemma del_loop2 tok cnow k mk md e0 m0 ret K (kmod : list bres -> bprog hres) :
  (forall rs, beq_on shape_ok (K (any_notfound rs) clean) (blift (kmod rs))) ->
  forall ks i acc miss, miss = any_notfound (rev acc) ->
  beq_on shape_ok
    (c_for_n (length ks) i (Delete_loop2 tok cnow k mk md e0 m0 ret) miss (mkCS [] None (map QDelete ks) []) K)
    (blift (breqs (map QDelete ks) acc kmod)).
Proof.
  intros HK. induction ks as [|ck ks IH]; intros i acc miss Hmiss; cbn [length c_for_n map breqs].
  - subst miss. apply HK.
  - unfold Delete_loop2 at 1. prims2. cbn [blift]. apply BeReq. intros x [Hx _]. destruct x as [|st|]; try contradiction.
    prims2. rewrite c_discard_all. prims2. subst miss.
    destruct (err_of_status st) as [er|] eqn:Est; prims2; [destruct (er =? EKeyNotFound) eqn:Ee|];
      destruct (any_notfound (rev acc)) eqn:Ea; prims2; apply IH; cbn [rev]; rewrite any_notfound_snoc, Ea;
      unfold any_notfound; cbn [existsb]; rewrite Est; try rewrite Ee; reflexivity.
Qed.

Lemma nrange_length n : forall i, length (nrange i n) = n.
Proof. induction n; intros; cbn [nrange length]; [reflexivity|]. f_equal. apply IHn. Qed.

Lemma c04_src_delete_link tok cnow k :
  beq_on shape_ok (chunked_Delete_src tok cnow k) (blift (chunked_delete k)).
Proof.
  unfold chunked_Delete_src, Delete_src, chunked_delete, with_meta, cs0. prims2. rewrite c_cmd_0. prims2.
  cbn [blift]. apply BeReq. intros x [Hx Hl]. destruct x as [|st|f v]; try contradiction.
  - cbn in Hx. prims2. destruct (err_of_status st) as [e|] eqn:Est; [|contradiction].
    prims2. rewrite c_discard_all. prims2. destruct (e =? EKeyNotFound) eqn:Ee; [apply N.eqb_eq in Ee; subst e|]; constructor.
  - prims2. rewrite c_discard_flags. prims2. rewrite c_cmd_0. prims2.
    cbn [blift]. apply BeReq. intros x [Hx2 _]. destruct x as [|st|]; try contradiction.
    prims2. rewrite c_discard_all. prims2. destruct (err_of_status st) as [e|] eqn:Est; prims2; [constructor|].
    unfold c_for. rewrite del_loop1. prims2. rewrite N.sub_0_r, chunk_keys_nrange.
    rewrite <- (map_map (chunk_key k) QDelete).
    rewrite <- (nrange_length (N.to_nat (m_nchunks (dec_meta v))) 0) at 1.
    rewrite <- (map_length (chunk_key k)).
    apply del_loop2; [|reflexivity].
    intros rs. destruct (any_notfound rs); unfold clean; prims2; constructor.
Qed.

(* ---------------- Touch ---------------- *)
Lemma touch_loop1 tok cnow k ttl mk md e0 ret K sent body : forall n i buf,
  c_for_n n i (Touch_loop1 tok cnow k ttl mk md e0 ret) tt (mkCS buf None sent body) K =
  K tt (mkCS (buf ++ map (fun j => QTouch (chunk_key k j) ttl) (nrange i n)) None sent body).
Proof.
  induction n as [|n IH]; intros i buf; cbn [c_for_n nrange map].
  - rewrite app_nil_r. reflexivity.
  - unfold Touch_loop1 at 1. rewrite c_cmd_0. prims2. rewrite IH, <- app_assoc. reflexivity.
Qed.

Lemma touch_loop2 tok cnow k ttl mk md e0 m0 ret K (kmod : list bres -> bprog hres) :
  (forall rs, beq_on shape_ok (K (any_notfound rs) clean) (blift (kmod rs))) ->
  forall ks i acc miss, miss = any_notfound (rev acc) ->
  beq_on shape_ok
    (c_for_n (length ks) i (Touch_loop2 tok cnow k ttl mk md e0 m0 ret) miss
       (mkCS [] None (map (fun ck => QTouch ck ttl) ks) []) K)
    (blift (breqs (map (fun ck => QTouch ck ttl) ks) acc kmod)).
Proof.
  intros HK. induction ks as [|ck ks IH]; intros i acc miss Hmiss; cbn [length c_for_n map breqs].
  - subst miss. apply HK.
  - unfold Touch_loop2 at 1. prims2. cbn [blift]. apply BeReq. intros x [Hx _]. destruct x as [|st|]; try contradiction.
    prims2. rewrite c_discard_all. prims2. subst miss.
    destruct (err_of_status st) as [er|] eqn:Est; prims2; [destruct (er =? EKeyNotFound) eqn:Ee|];
      destruct (any_notfound (rev acc)) eqn:Ea; prims2; apply IH; cbn [rev]; rewrite any_notfound_snoc, Ea;
      unfold any_notfound; cbn [existsb]; rewrite Est; try rewrite Ee; reflexivity.
Qed.

Lemma dec_meta_token_len (v : bytes) : len v = metadataSize -> len (m_token (dec_meta v)) = tokenSize.
Proof.
  intros H. unfold dec_meta. cbn [m_token]. rewrite take_len, drop_len, H, metadataSize_val, tokenSize_val. reflexivity.
Qed.

Lemma c04_src_touch_link tok cnow k ttl :
  beq_on shape_ok (chunked_Touch_src tok cnow k ttl) (blift (chunked_touch cnow k ttl)).
Proof.
  unfold chunked_Touch_src, Touch_src, chunked_touch, with_meta, cs0. prims2. rewrite c_cmd_0. prims2.
  cbn [blift]. apply BeReq. intros x [Hx Hl]. destruct x as [|st|f v]; try contradiction.
  - cbn in Hx. prims2. destruct (err_of_status st) as [e|] eqn:Est; [|contradiction].
    prims2. rewrite c_discard_all. prims2. destruct (e =? EKeyNotFound) eqn:Ee; [apply N.eqb_eq in Ee; subst e|]; constructor.
  - prims2. rewrite c_discard_flags. prims2.
    unfold c_for. rewrite touch_loop1. prims2. rewrite N.sub_0_r, chunk_keys_nrange.
    rewrite <- (map_map (chunk_key k) (fun ck => QTouch ck ttl)).
    rewrite <- (nrange_length (N.to_nat (m_nchunks (dec_meta v))) 0) at 1.
    rewrite <- (map_length (chunk_key k)).
    apply touch_loop2; [|reflexivity].
    intros rs. destruct (any_notfound rs); unfold clean; prims2; [constructor|].
    destruct (c_exptime cnow ttl) as [t1 x1]. prims2.
    assert (Hms : metadataSize <> 0) by (rewrite metadataSize_val; lia).
    rewrite c_cmd_body by exact Hms. prims2.
    rewrite c_data_fin by (apply meta_len_tok, dec_meta_token_len, Hl). prims2.
    cbn [blift]. apply BeReq. intros x [Hx2 _]. destruct x as [|st|]; try contradiction.
    prims2. destruct (err_of_status st) as [e|] eqn:Est; prims2; [rewrite c_discard_all; prims2|]; constructor.
Qed.
