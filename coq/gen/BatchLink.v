(* BatchLink.v — the function gen/Batch_gen.v translates from the SOURCE of conn.batchIntoBuffer
   (meaning of its constructs: handlers/BatchSem.v) computes what Batched.batch_entries, the function
   props/C06.v is about, computes. Hand-written; stops compiling when the source changes what is
   written, how opaques advance, what the routing table holds or what the channel counts are.

   The abstraction (definitions below, no proofs in them):
   * [abs_req]: a source request (reqtype, dynamic common.*Request value, response channel) as the
     model's [qreq]; defined only when the dynamic type fits the request type (what
     Handler.{Set,Add,..,GetE} build) and the three slices of a GetRequest have the same length.
     The model's [hreq] carries no opaque/quiet for non-get requests.
   * [wire_of]: the buffer log (Write*Cmd headers, each data command followed by its data, data length
     field = uint32(len data)) read back as the model's wire requests with their opaques.
   * [abs_table]: the log of the `responses` map zipped with the wire requests: the model's routing
     table. [abs_handle] forgets the fields the model does not carry (opaque/quiet of a non-get
     request: conn.reader only uses them in get-type replies; quiet of a gat). *)
From Coq Require Import String.
From Rend Require Import base.Bytes gen.Consts_gen spec.MapSpec orca.Types handlers.Std handlers.Batched
  handlers.BatchedSpec handlers.BatchedProofs handlers.BatchSem gen.Batch_gen.
Open Scope N_scope.

(* ---- abstraction ---- *)
Fixpoint zip_items (ks : list bytes) (os : list N) (qs : list bool) : option (list gitem) :=
  match ks, os, qs with
  | [], [], [] => Some []
  | k :: ks', o :: os', q :: qs' =>
      match zip_items ks' os' qs' with Some r => Some (mkGI k o q :: r) | None => None end
  | _, _, _ => None
  end.

Definition abs_hreq (rt : N) (p : Request) : option hreq :=
  match p with
  | Dyn_SetRequest c =>
      let k := SetRequest_Key c in let d := SetRequest_Data c in
      let f := SetRequest_Flags c in let e := SetRequest_Exptime c in
      if rt =? RtSet then Some (HSet MSet k d f e)
      else if rt =? RtAdd then Some (HSet MAdd k d f e)
      else if rt =? RtReplace then Some (HSet MReplace k d f e)
      else if rt =? RtAppend then Some (HCat false k d)
      else if rt =? RtPrepend then Some (HCat true k d)
      else None
  | Dyn_DeleteRequest c => if rt =? RtDelete then Some (HDelete (DeleteRequest_Key c)) else None
  | Dyn_TouchRequest c =>
      if rt =? RtTouch then Some (HTouch (TouchRequest_Key c) (TouchRequest_Exptime c)) else None
  | Dyn_GATRequest c =>
      if rt =? RtGat then Some (HGat (GATRequest_Key c) (GATRequest_Exptime c) (GATRequest_Opaque c)) else None
  | Dyn_GetRequest c =>
      match zip_items (GetRequest_Keys c) (GetRequest_Opaques c) (GetRequest_Quiet c) with
      | Some items => if rt =? RtGet then Some (HGet items) else if rt =? RtGetE then Some (HGetE items) else None
      | None => None
      end
  | Dyn_other => None
  end.

Definition abs_req (r : request) : option qreq :=
  match abs_hreq (request_reqtype r) (request_req r) with
  | Some h => Some (mkQ (request_reschan r) h)
  | None => None
  end.

Fixpoint abs_reqs (rs : list request) : option (list qreq) :=
  match rs with
  | [] => Some []
  | r :: rest => match abs_req r, abs_reqs rest with Some q, Some qs => Some (q :: qs) | _, _ => None end
  end.

(* the buffer log read back: (decoded so far, a data-command header waiting for its data) *)
Definition dstate : Type := list (N * wreq) * option bufop.
Definition dec_step (st : option dstate) (b : bufop) : option dstate :=
  match st with
  | None => None
  | Some (acc, None) =>
      match b with
      | BDataCmd _ _ _ _ _ _ | BCatCmd _ _ _ _ _ _ => Some (acc, Some b)
      | BKeyCmd op k o =>
          if op =? opGet then Some (acc ++ [(o, WGet k)], None)
          else if op =? opGetE then Some (acc ++ [(o, WGetE k)], None)
          else if op =? opDelete then Some (acc ++ [(o, WDelete k)], None)
          else None
      | BKeyExpCmd op k e o =>
          if op =? opTouch then Some (acc ++ [(o, WTouch k e)], None)
          else if op =? opGat then Some (acc ++ [(o, WGat k e)], None)
          else None
      | _ => None
      end
  | Some (acc, Some (BDataCmd op k f e dl o)) =>
      match b with
      | BData d =>
          if dl =? bs_u32 (len d) then
            if op =? opSet then Some (acc ++ [(o, WSet MSet k d f e)], None)
            else if op =? opAdd then Some (acc ++ [(o, WSet MAdd k d f e)], None)
            else if op =? opReplace then Some (acc ++ [(o, WSet MReplace k d f e)], None)
            else None
          else None
      | _ => None
      end
  | Some (acc, Some (BCatCmd op k f e dl o)) =>
      match b with
      | BData d =>
          if dl =? bs_u32 (len d) then
            if op =? opAppend then Some (acc ++ [(o, WCat false k d)], None)
            else if op =? opPrepend then Some (acc ++ [(o, WCat true k d)], None)
            else None
          else None
      | _ => None
      end
  | Some (_, Some _) => None
  end.

Definition wire_of (b : gobuf) : option (list (N * wreq)) :=
  match fold_left dec_step b (Some ([], None)) with
  | Some (acc, None) => Some acc
  | _ => None
  end.

Definition abs_handle (w : wreq) (h : reshandle) : handle :=
  match w with
  | WGet _ | WGetE _ => mkHd (reshandle_key h) (reshandle_opaque h) (reshandle_quiet h) (reshandle_reschan h)
  | WGat _ _ => mkHd (reshandle_key h) (reshandle_opaque h) false (reshandle_reschan h)
  | _ => mkHd (reshandle_key h) 0 false (reshandle_reschan h)
  end.

Definition abs_table (W : list (N * wreq)) (m : gomap N reshandle) : list (N * wreq * handle) :=
  map (fun p => (fst (fst p), snd (fst p), abs_handle (snd (fst p)) (snd (snd p)))) (combine W m).

Definition model_chans (qs : list qreq) : gomap nat Z :=
  map (fun q => (q_chan q, Z.of_nat (expected (q_req q)))) qs.

(* run a routing table (what run_batch does with batch_entries base reqs when nothing is cut) *)
Definition run_table (tab : list (N * wreq * handle)) (s : store) (now : N) : store * list (nat * resp) :=
  let '(s', ds, lft) := run_entries tab tab s now None in
  (s', ds ++ map (fun c => (c, RErr RETRY)) (chans_of lft [])).

(* ---- proofs ---- *)
Definition proj_w (es : list (N * wreq * handle)) : list (N * wreq) := map (fun e => (fst (fst e), snd (fst e))) es.

Definition sem_ok (ops : gobuf) (hs : gomap N reshandle) (es : list (N * wreq * handle)) : Prop :=
  (forall acc, fold_left dec_step ops (Some (acc, None)) = Some (acc ++ proj_w es, None)) /\
  map fst hs = map fst (proj_w es) /\
  abs_table (proj_w es) hs = es.

Lemma sem_ok_nil : sem_ok [] [] [].
Proof. repeat split. intros; cbn. now rewrite app_nil_r. Qed.

Lemma combine_app' {A B} : forall (l1 l2 : list A) (m1 m2 : list B),
  length l1 = length m1 -> combine (l1 ++ l2) (m1 ++ m2) = combine l1 m1 ++ combine l2 m2.
Proof.
  induction l1; destruct m1; intros; try discriminate; cbn; [reflexivity|].
  f_equal. apply IHl1. cbn in H. lia.
Qed.

Lemma sem_ok_app ops1 hs1 es1 ops2 hs2 es2 :
  sem_ok ops1 hs1 es1 -> sem_ok ops2 hs2 es2 -> sem_ok (ops1 ++ ops2) (hs1 ++ hs2) (es1 ++ es2).
Proof.
  intros (A1 & B1 & C1) (A2 & B2 & C2). repeat split.
  - intros acc. rewrite fold_left_app, A1, A2. unfold proj_w. now rewrite map_app, app_assoc.
  - unfold proj_w in *. now rewrite !map_app, B1, B2.
  - unfold abs_table, proj_w in *. rewrite map_app.
    assert (L : length (map (fun e : N * wreq * handle => (fst (fst e), snd (fst e))) es1) = length hs1).
    { apply (f_equal (@length N)) in B1. rewrite !map_length in B1. rewrite map_length. now symmetry. }
    rewrite combine_app' by exact L.
    now rewrite map_app, C1, C2.
Qed.

(* one request of the model *)
Definition req_entries (o : N) (q : qreq) : list (N * wreq * handle) * N :=
  let o1 := u32 (o + 1) in
  let ch := q_chan q in
  match q_req q with
  | HSet m k d f ttl => ([(o1, WSet m k d f ttl, mkHd k 0 false ch)], o1)
  | HCat fr k d => ([(o1, WCat fr k d, mkHd k 0 false ch)], o1)
  | HDelete k => ([(o1, WDelete k, mkHd k 0 false ch)], o1)
  | HTouch k ttl => ([(o1, WTouch k ttl, mkHd k 0 false ch)], o1)
  | HGat k ttl opq' => ([(o1, WGat k ttl, mkHd k opq' false ch)], o1)
  | HGet items => get_entries false o1 ch items
  | HGetE items => get_entries true o1 ch items
  end.

Lemma batch_entries_cons o q rest :
  batch_entries o (q :: rest) = fst (req_entries o q) ++ batch_entries (snd (req_entries o q)) rest.
Proof.
  unfold req_entries. cbn [batch_entries]. destruct (q_req q); try reflexivity;
    destruct (get_entries _ _ _ _); reflexivity.
Qed.

Lemma zip_items_length : forall ks os qs items, zip_items ks os qs = Some items -> length items = length ks.
Proof.
  induction ks; intros os qs; destruct os as [|o os], qs as [|q qs]; intros items H; try discriminate.
  - now injection H as <-.
  - cbn [zip_items] in H. destruct (zip_items ks os qs) eqn:E; [|discriminate]. injection H as <-. cbn. f_equal. eauto.
Qed.

(* the key loop of a get *)
Lemma get_loop_ok (F : N -> N * gobuf * gomap N reshandle -> res (N * gobuf * gomap N reshandle))
      (gete : bool) (ch : nat) :
  forall ks os qs items i,
  zip_items ks os qs = Some items ->
  (forall j k o q, nth_error ks j = Some k -> nth_error os j = Some o -> nth_error qs j = Some q ->
     forall opq b m, F (N.of_nat (i + j)) (opq, b, m) =
       Ok (bs_inc32 opq, b ++ [BKeyCmd (if gete then opGetE else opGet) k opq], m ++ [(opq, mk_reshandle k o q ch)])) ->
  forall opq b m, exists ops hs,
    bs_for_upto (length ks) (N.of_nat i) F (opq, b, m) = Ok (snd (get_entries gete opq ch items), b ++ ops, m ++ hs) /\
    sem_ok ops hs (fst (get_entries gete opq ch items)).
Proof.
  induction ks as [|k ks IH]; intros os qs items i Hz HF opq b m.
  - destruct os, qs; try discriminate. injection Hz as <-. exists [], []. cbn. rewrite !app_nil_r. split; [reflexivity|apply sem_ok_nil].
  - destruct os as [|o os], qs as [|q qs]; try discriminate. cbn [zip_items] in Hz.
    destruct (zip_items ks os qs) as [r|] eqn:Hr; [|discriminate]. injection Hz as <-.
    cbn [length bs_for_upto].
    pose proof (HF 0%nat k o q eq_refl eq_refl eq_refl opq b m) as H0. rewrite Nat.add_0_r in H0. rewrite H0.
    cbn [bs_bind].
    assert (HF' : forall j k0 o0 q0, nth_error ks j = Some k0 -> nth_error os j = Some o0 -> nth_error qs j = Some q0 ->
       forall opq b m, F (N.of_nat (S i + j)) (opq, b, m) =
       Ok (bs_inc32 opq, b ++ [BKeyCmd (if gete then opGetE else opGet) k0 opq], m ++ [(opq, mk_reshandle k0 o0 q0 ch)])).
    { intros j k0 o0 q0 A B C. replace (S i + j)%nat with (i + S j)%nat by lia. apply HF; assumption. }
    replace (N.of_nat i + 1) with (N.of_nat (S i)) by lia.
    destruct (IH os qs r (S i) Hr HF' (bs_inc32 opq) (b ++ [BKeyCmd (if gete then opGetE else opGet) k opq])
                 (m ++ [(opq, mk_reshandle k o q ch)])) as (ops & hs & E & S').
    cbn [get_entries gi_key gi_opaque gi_quiet].
    change (u32 (opq + 1)) with (bs_inc32 opq).
    destruct (get_entries gete (bs_inc32 opq) ch r) as [es o'] eqn:Hg. cbn [fst snd] in *.
    exists (BKeyCmd (if gete then opGetE else opGet) k opq :: ops), ((opq, mk_reshandle k o q ch) :: hs).
    split.
    + etransitivity; [exact E|]. now rewrite <- !app_assoc.
    + change (BKeyCmd (if gete then opGetE else opGet) k opq :: ops) with ([BKeyCmd (if gete then opGetE else opGet) k opq] ++ ops).
      change ((opq, mk_reshandle k o q ch) :: hs) with ([(opq, mk_reshandle k o q ch)] ++ hs).
      change ((opq, if gete then WGetE k else WGet k, mkHd k o q ch) :: es)
        with ([(opq, (if gete then WGetE k else WGet k), mkHd k o q ch)] ++ es).
      apply sem_ok_app; [|exact S'].
      repeat split; destruct gete; reflexivity.
Qed.

(* the translated loop body, taken out of the generated term *)
Definition loop_body : request -> N * gobuf * gomap N reshandle * gomap nat Z -> res (N * gobuf * gomap N reshandle * gomap nat Z) :=
  ltac:(let t := eval unfold batchIntoBuffer in batchIntoBuffer in
        match t with context [bs_for_range _ ?f _] => exact f end).

Lemma batchIntoBuffer_unfold r p reqs :
  batchIntoBuffer r p reqs =
  bs_bind (bs_for_range reqs loop_body (bs_u32 r, [], [], []))
          (fun '(opaque, buf, responses, channels) => Ok (buf, responses, channels)).
Proof. reflexivity. Qed.

Ltac eqb_cases H :=
  repeat match type of H with
         | context [?a =? ?b] => destruct (N.eqb_spec a b); [subst|]
         end.

Ltac run_body :=
  cbv [loop_body bs_bind bs_switch bs_assert as_SetRequest as_DeleteRequest as_TouchRequest as_GATRequest
       as_GetRequest request_reqtype request_req request_reschan
       RtSet RtAdd RtReplace RtAppend RtPrepend RtDelete RtTouch RtGat RtGet RtGetE N.eqb Pos.eqb
       bs_map_set bs_buf_write WriteSetCmd WriteAddCmd WriteReplaceCmd WriteAppendCmd WritePrependCmd
       WriteDeleteCmd WriteTouchCmd WriteGATCmd WriteGetCmd WriteGetECmd].

Ltac solve_data :=
  eexists [_; _], [_]; split; [run_body; rewrite <- ?app_assoc; reflexivity|];
  repeat split; intros acc; cbn [fold_left dec_step]; rewrite N.eqb_refl; reflexivity.
Ltac solve_single :=
  eexists [_], [_]; split; [run_body; rewrite <- ?app_assoc; reflexivity|]; repeat split.
Ltac solve_get gete :=
  match goal with Hz : zip_items (GetRequest_Keys ?g) _ _ = Some ?items |- context [loop_body _ (?o, ?b, ?m, _)] =>
  match goal with |- context [get_entries _ _ ?ch items] =>
    pose proof (zip_items_length _ _ _ _ Hz) as HL; run_body;
    match goal with |- context [bs_for_index ?l ?F ?s] =>
      assert (HF : forall j k o0 q, nth_error l j = Some k -> nth_error (GetRequest_Opaques g) j = Some o0 ->
                nth_error (GetRequest_Quiet g) j = Some q -> forall opq b m,
                F (N.of_nat (0 + j)) (opq, b, m) =
                Ok (bs_inc32 opq, b ++ [BKeyCmd (if gete then opGetE else opGet) k opq], m ++ [(opq, mk_reshandle k o0 q ch)]));
      [ let A := fresh in let B := fresh in let C := fresh in
        intros ? ? ? ? A B C ? ? ?; cbv beta iota; unfold bs_index; cbn [Nat.add];
        rewrite Nat2N.id, A, B, C; reflexivity | ];
      let ops := fresh "ops" in let hs := fresh "hs" in let E := fresh "E" in let S' := fresh "S'" in
      destruct (get_loop_ok F gete ch l _ _ items 0%nat Hz HF (bs_inc32 o) b m) as (ops & hs & E & S');
      let X := fresh "X" in
      set (X := bs_for_index l F s);
      assert (EX : X = Ok (snd (get_entries gete (bs_inc32 o) ch items), b ++ ops, m ++ hs)) by exact E;
      exists ops, hs; split; [|exact S'];
      rewrite EX; cbv beta iota; unfold bs_len_int, len; cbn [expected]; rewrite HL, nat_N_Z; reflexivity
    end
  end end.

Lemma body_ok req q :
  abs_req req = Some q ->
  forall o b m c, exists ops hs,
    loop_body req (o, b, m, c) =
      Ok (snd (req_entries o q), b ++ ops, m ++ hs, c ++ [(q_chan q, Z.of_nat (expected (q_req q)))]) /\
    sem_ok ops hs (fst (req_entries o q)).
Proof.
  destruct req as [rt p ch]. unfold abs_req. cbn [request_reqtype request_req request_reschan].
  intros H o b m c.
  destruct (abs_hreq rt p) as [h|] eqn:Hh; [|discriminate]. injection H as <-.
  unfold req_entries. cbn [q_chan q_req].
  change (u32 (o + 1)) with (bs_inc32 o).
  destruct p; cbn [abs_hreq] in Hh; try discriminate;
    try match type of Hh with context [zip_items ?x ?y ?z] =>
          destruct (zip_items x y z) as [items|] eqn:Hz; [|discriminate] end;
    eqb_cases Hh; try discriminate; injection Hh as <-;
    first [ solve_data | solve_single | solve_get false | solve_get true ].
Qed.

Lemma loop_ok : forall reqs qs, abs_reqs reqs = Some qs ->
  forall o b m c, exists o' ops hs,
    bs_for_range reqs loop_body (o, b, m, c) = Ok (o', b ++ ops, m ++ hs, c ++ model_chans qs) /\
    sem_ok ops hs (batch_entries o qs).
Proof.
  induction reqs as [|r reqs IH]; intros qs H o b m c.
  - injection H as <-. exists o, [], []. cbn. rewrite !app_nil_r. split; [reflexivity|apply sem_ok_nil].
  - cbn [abs_reqs] in H. destruct (abs_req r) as [q|] eqn:Hq; [|discriminate].
    destruct (abs_reqs reqs) as [qs'|] eqn:Hqs; [|discriminate]. injection H as <-.
    destruct (body_ok r q Hq o b m c) as (ops1 & hs1 & E1 & S1).
    destruct (IH qs' eq_refl (snd (req_entries o q)) (b ++ ops1) (m ++ hs1)
                 (c ++ [(q_chan q, Z.of_nat (expected (q_req q)))])) as (o' & ops2 & hs2 & E2 & S2).
    exists o', (ops1 ++ ops2), (hs1 ++ hs2). split.
    + cbn [bs_for_range]. etransitivity; [apply (f_equal (fun x => bs_bind x _) E1)|]. cbn [bs_bind].
      etransitivity; [exact E2|]. cbn [model_chans map]. now rewrite <- !app_assoc.
    + rewrite batch_entries_cons. apply sem_ok_app; assumption.
Qed.

(* conn.batchIntoBuffer, as translated from the source, for every random base, every pooled buffer
   and every list of well-typed requests: it does not panic; the buffer holds exactly the model's
   wire requests with the model's opaques, in order; the `responses` map was assigned exactly the
   model's routing table (same opaques, in order); `channels` was assigned, per request, its
   channel and the number of replies the model expects. *)
Theorem src_batchIntoBuffer : forall r pooled reqs qs,
  abs_reqs reqs = Some qs ->
  exists buf resp chans,
    batchIntoBuffer r pooled reqs = Ok (buf, resp, chans) /\
    wire_of buf = Some (map (fun e => (fst (fst e), snd (fst e))) (batch_entries (bs_u32 r) qs)) /\
    map fst resp = map (fun e => fst (fst e)) (batch_entries (bs_u32 r) qs) /\
    abs_table (map (fun e => (fst (fst e), snd (fst e))) (batch_entries (bs_u32 r) qs)) resp
      = batch_entries (bs_u32 r) qs /\
    chans = model_chans qs.
Proof.
  intros r pooled reqs qs H.
  destruct (loop_ok reqs qs H (bs_u32 r) [] [] []) as (o' & ops & hs & E & (A & B & C)).
  exists ops, hs, (model_chans qs). rewrite batchIntoBuffer_unfold.
  split; [|split; [|split; [|split]]].
  - etransitivity; [apply (f_equal (fun x => bs_bind x _) E)|]. reflexivity.
  - unfold wire_of. rewrite (A []). reflexivity.
  - rewrite B. unfold proj_w. rewrite map_map. reflexivity.
  - exact C.
  - reflexivity.
Qed.

Lemma bs_u32_small r : r < 2147483648 -> bs_u32 r = r.
Proof. intros H. unfold bs_u32. apply N.mod_small. lia. Qed.

Lemma src_result r pooled reqs qs buf resp chans W :
  abs_reqs reqs = Some qs -> r < 2147483648 ->
  batchIntoBuffer r pooled reqs = Ok (buf, resp, chans) -> wire_of buf = Some W ->
  map fst resp = map (fun e => fst (fst e)) (batch_entries r qs) /\
  abs_table W resp = batch_entries r qs /\ chans = model_chans qs.
Proof.
  intros H Hr E HW.
  destruct (src_batchIntoBuffer r pooled reqs qs H) as (buf' & resp' & chans' & E' & A & B & C & D).
  rewrite E in E'. injection E' as <- <- <-. rewrite A in HW. injection HW as <-.
  rewrite (bs_u32_small r Hr) in *. auto.
Qed.

(* the opaques under which batchIntoBuffer files the handles are pairwise distinct: no assignment to
   `responses` overwrites another *)
Theorem src_opaques_distinct : forall r pooled reqs qs buf resp chans,
  abs_reqs reqs = Some qs -> wf_batch r qs ->
  batchIntoBuffer r pooled reqs = Ok (buf, resp, chans) ->
  NoDup (map fst resp).
Proof.
  intros r pooled reqs qs buf resp chans H Hwf E.
  destruct (src_batchIntoBuffer r pooled reqs qs H) as (buf' & resp' & chans' & E' & A & B & C & D).
  rewrite E in E'. injection E' as <- <- <-.
  rewrite (bs_u32_small r (proj1 Hwf)) in *. rewrite B. exact (opaques_distinct r qs Hwf).
Qed.

Lemma run_table_batch base qs s now : run_table (batch_entries base qs) s now = run_batch base qs s now None.
Proof. unfold run_table, run_batch. destruct (run_entries _ _ s now None) as [[s' ds] lft]. reflexivity. Qed.

Theorem src_routing : forall r pooled reqs qs buf resp chans W s now,
  abs_reqs reqs = Some qs -> wf_batch r qs ->
  batchIntoBuffer r pooled reqs = Ok (buf, resp, chans) -> wire_of buf = Some W ->
  let '(_, ds) := run_table (abs_table W resp) s now in
  (forall c, of_chan ds c <> [] -> exists q, In q qs /\ q_chan q = c) /\
  (forall q, In q qs -> length (of_chan ds (q_chan q)) = expected (q_req q)).
Proof.
  intros r pooled reqs qs buf resp chans W s now H Hwf E HW.
  destruct (src_result r pooled reqs qs buf resp chans W H (proj1 Hwf) E HW) as (_ & T & _).
  rewrite T, run_table_batch. exact (routing r qs s now Hwf).
Qed.

Theorem src_batched_eq_direct : forall r pooled reqs qs buf resp chans W s now,
  abs_reqs reqs = Some qs -> wf_batch r qs ->
  batchIntoBuffer r pooled reqs = Ok (buf, resp, chans) -> wire_of buf = Some W ->
  let '(s', ds) := run_table (abs_table W resp) s now in
  let '(s0, hs) := direct qs s now in
  store_eq s' s0 /\
  forall q, In q qs -> assoc_chan hs (q_chan q) = Some (call_result (q_req q) (of_chan ds (q_chan q))).
Proof.
  intros r pooled reqs qs buf resp chans W s now H Hwf E HW.
  destruct (src_result r pooled reqs qs buf resp chans W H (proj1 Hwf) E HW) as (_ & T & _).
  rewrite T, run_table_batch. exact (batched_eq_direct r qs s now Hwf).
Qed.
