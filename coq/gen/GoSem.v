(* GoSem.v — meaning of the operators that harness `gotrans` emits (gen/Funcs_gen.v).
   HAND-WRITTEN (the only file under gen/ that is): part of the trusted reading of Go.

   Values are natural numbers. An unsigned w-bit value is the number itself; a signed 64-bit value
   (int, int64) is its two's complement in [0, 2^64). Go's arithmetic wraps at the operand width;
   a shift count of at least the width yields 0; comparison and division of signed values go
   through the signed reading. Division by zero panics in Go and is [N.div]/[Z.quot] by zero
   here (0): the link lemmas are stated where the divisor is non-zero.
   The 64-bit unsigned operators are those of metrics/Lzcnt.v (wrap64, add64, sub64, shl64,
   shr64), so that generated code and hand-written model share them. *)
From Coq Require Import ZArith.
From Rend Require Import base.Bytes.
From Rend Require Export metrics.Lzcnt.
Open Scope N_scope.

Definition mul64 (a b : N) : N := wrap64 (a * b).
Definition conv64 (x : N) : N := wrap64 x.

Definition two63 : N := 9223372036854775808.
Definition toZ64 (a : N) : Z := if a <? two63 then Z.of_N a else (Z.of_N a - Z.of_N two64)%Z.
Definition ofZ64 (z : Z) : N := Z.to_N (z mod Z.of_N two64)%Z.
Definition lts64 (a b : N) : bool := (toZ64 a <? toZ64 b)%Z.
Definition les64 (a b : N) : bool := (toZ64 a <=? toZ64 b)%Z.
Definition mins64 (a b : N) : N := if les64 a b then a else b.
Definition divs64 (a b : N) : N := ofZ64 (Z.quot (toZ64 a) (toZ64 b)).
Definition rems64 (a b : N) : N := ofZ64 (Z.rem (toZ64 a) (toZ64 b)).
Definition shrs64 (a s : N) : N := ofZ64 (Z.shiftr (toZ64 a) (Z.of_N s)).

Definition maxu32 : N := 4294967295.
Definition two32 : N := 4294967296.
Definition wrap32 (x : N) : N := N.land x maxu32.
Definition conv32 (x : N) : N := wrap32 x.
Definition add32 (a b : N) : N := wrap32 (a + b).
Definition sub32 (a b : N) : N := wrap32 (a + two32 - wrap32 b).
Definition mul32 (a b : N) : N := wrap32 (a * b).
Definition shl32 (x k : N) : N := wrap32 (N.shiftl x k).

Definition wrap16 (x : N) : N := N.land x 65535.
Definition conv16 (x : N) : N := wrap16 x.
Definition add16 (a b : N) : N := wrap16 (a + b).
Definition sub16 (a b : N) : N := wrap16 (a + 65536 - wrap16 b).
Definition wrap8 (x : N) : N := N.land x 255.
Definition conv8 (x : N) : N := wrap8 x.
Definition add8 (a b : N) : N := wrap8 (a + b).
Definition sub8 (a b : N) : N := wrap8 (a + 256 - wrap8 b).

(* indexing of a generated table (out of range: 0; the link lemmas are stated in range) *)
Definition tab (l : list N) (i : N) : N := nth (N.to_nat i) l 0.
