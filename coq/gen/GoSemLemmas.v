(* GoSemLemmas.v — the wrapping operators of gen/GoSem.v are the plain operations when nothing
   overflows. *)
From Coq Require Import ZArith Lia.
From Rend Require Import base.Bytes gen.GoSem metrics.LzcntProofs.
Open Scope N_scope.

Lemma add64_small a b : a + b < two64 -> add64 a b = a + b.
Proof. intro H. unfold add64. apply wrap64_small. exact H. Qed.

Lemma mul64_small a b : a * b < two64 -> mul64 a b = a * b.
Proof. intro H. unfold mul64. apply wrap64_small. exact H. Qed.

Lemma wrap32_mod x : wrap32 x = x mod two32.
Proof. unfold wrap32. change maxu32 with (N.ones 32). rewrite N.land_ones. reflexivity. Qed.

Lemma wrap32_small x : x < two32 -> wrap32 x = x.
Proof. intro H. rewrite wrap32_mod. apply N.mod_small. exact H. Qed.

Lemma conv32_small x : x < two32 -> conv32 x = x.
Proof. exact (wrap32_small x). Qed.

Lemma add32_small a b : a + b < two32 -> add32 a b = a + b.
Proof. intro H. unfold add32. apply wrap32_small. exact H. Qed.

Lemma sub32_small a b : b <= a -> a < two32 -> sub32 a b = a - b.
Proof.
  intros Hb Ha. unfold sub32. rewrite (wrap32_small b) by lia.
  rewrite wrap32_mod. replace (a + two32 - b) with ((a - b) + 1 * two32) by lia.
  rewrite N.mod_add by (unfold two32; lia). apply N.mod_small. lia.
Qed.

Lemma toZ64_small a : a < two63 -> toZ64 a = Z.of_N a.
Proof. intro H. unfold toZ64. destruct (N.ltb_spec a two63); [reflexivity|lia]. Qed.

Lemma les64_small a b : a < two63 -> b < two63 -> les64 a b = (a <=? b).
Proof.
  intros Ha Hb. unfold les64. rewrite !toZ64_small by assumption.
  destruct (N.leb_spec a b); [apply Z.leb_le|apply Z.leb_gt]; lia.
Qed.

Lemma lts64_small a b : a < two63 -> b < two63 -> lts64 a b = (a <? b).
Proof.
  intros Ha Hb. unfold lts64. rewrite !toZ64_small by assumption.
  destruct (N.ltb_spec a b); [apply Z.ltb_lt|apply Z.ltb_ge]; lia.
Qed.

Lemma mins64_small a b : a < two63 -> b < two63 -> mins64 a b = N.min a b.
Proof.
  intros Ha Hb. unfold mins64. rewrite les64_small by assumption.
  destruct (N.leb_spec a b); [rewrite N.min_l|rewrite N.min_r]; lia.
Qed.
