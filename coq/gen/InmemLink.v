(* InmemLink.v — HAND-WRITTEN link between gen/Inmem_gen.v (translated by `rendharness inmemtrans` from the
   source of /repo/handlers/inmem/inmem.go) and the model handlers/Inmem.v that property C17 is proved
   about: every translated method of *Handler, run in the semantics of handlers/InmemSem.v on ANY
   concrete map, IS the model's [step] (same lock mode, same MPut/MDel statements in the same order, same
   result) and leaves the map the model says; and every translated method keeps the lock discipline.
   A change of the source that changes which lock is taken, what is written under it, the order, the
   result or the release of the lock on some path changes the generated term and these proofs stop
   compiling. *)
From Coq Require Import String.
From Rend Require Import base.Bytes gen.Consts_gen spec.MapSpec orca.Types handlers.Std gen.GoSem
  gen.GoSemLemmas handlers.Inmem handlers.InmemSem gen.Inmem_gen.
Open Scope N_scope.
Open Scope list_scope.

(* ---------------- pure pieces ---------------- *)
Lemma entry_isExpired_link now e : entry_isExpired_src now e = expired now e.
Proof. unfold entry_isExpired_src, expired, conv32, u32. rewrite wrap32_mod. reflexivity. Qed.

Lemma new_exp_eq now ttl : new_exp now ttl = if 0 <? ttl then add32 (conv32 now) ttl else 0.
Proof. unfold new_exp, add32, conv32, u32. rewrite !wrap32_mod. reflexivity. Qed.

Lemma sl_make_0 c : sl_make 0 c = [].
Proof. reflexivity. Qed.

(* ---------------- evaluation of the monad ---------------- *)
Ltac mon :=
  cbv beta iota zeta delta
    [run_err run_gat run_get m_bind m_ret m_lock m_unlock m_rlock m_runlock m_map_get m_map_put m_map_del
     add_ev do_op is0 is_map is_ev is_out is_dch is_ech observe res_map res_bind hres_of_err hres_of_gat
     fst snd raw_set_exptime raw_set_flags raw_set_data raw_zero step_of acquires ops_of app
     m_make_data m_make_err m_close close_ch set_dch set_ech ch0 ch_made ch_cap ch_closed chans_done
     andb negb orb obs_step obs_trace model_call inmem_step im_store im_cat im_delete im_touch im_gat im_get
     apply_ops fold_left s_ops s_lock s_res disciplined disc_from r_exp r_flags r_data].

Definition call_ok {A} (m : M A) (st : cstate) : bool :=
  let '(s, r) := m (is0 st) in
  disciplined (is_ev s) && match r with Val _ => true | _ => false end.

Ltac look st k now :=
  unfold lookup; destruct (st k) as [e|]; mon;
  [ rewrite ?entry_isExpired_link; destruct (expired now e); mon | ].

(* ---------------- the methods returning error ---------------- *)
Section Methods.
Variables (st : cstate) (now : N).

Lemma Set_link k d f ttl xo xq :
  run_err (Handler_Set_src now k d f ttl xo xq) st =
  Some (inmem_step st now (HSet MSet k d f ttl), apply_ops st (s_ops (inmem_step st now (HSet MSet k d f ttl))),
        [EvLock; EvOp (MPut k (mkRaw (new_exp now ttl) f d)); EvUnlock]).
Proof. unfold Handler_Set_src. mon. rewrite new_exp_eq. reflexivity. Qed.

Lemma Add_link k d f ttl xo xq :
  obs_step (run_err (Handler_Add_src now k d f ttl xo xq) st) = Some (model_call st now (HSet MAdd k d f ttl)).
Proof. unfold Handler_Add_src. mon. look st k now; rewrite ?new_exp_eq; reflexivity. Qed.

Lemma Replace_link k d f ttl xo xq :
  obs_step (run_err (Handler_Replace_src now k d f ttl xo xq) st) = Some (model_call st now (HSet MReplace k d f ttl)).
Proof. unfold Handler_Replace_src. mon. look st k now; rewrite ?new_exp_eq; reflexivity. Qed.

Lemma Append_link k d xf xt xo xq :
  obs_step (run_err (Handler_Append_src now k d xf xt xo xq) st) = Some (model_call st now (HCat false k d)).
Proof. unfold Handler_Append_src. mon. look st k now; rewrite ?sl_make_0; reflexivity. Qed.

Lemma Prepend_link k d xf xt xo xq :
  obs_step (run_err (Handler_Prepend_src now k d xf xt xo xq) st) = Some (model_call st now (HCat true k d)).
Proof. unfold Handler_Prepend_src. mon. look st k now; rewrite ?sl_make_0; reflexivity. Qed.

Lemma Delete_link k xo xq :
  obs_step (run_err (Handler_Delete_src now k xo xq) st) = Some (model_call st now (HDelete k)).
Proof. unfold Handler_Delete_src. mon. look st k now; reflexivity. Qed.

Lemma Touch_link k ttl xo xq :
  obs_step (run_err (Handler_Touch_src now k ttl xo xq) st) = Some (model_call st now (HTouch k ttl)).
Proof.
  unfold Handler_Touch_src. mon. look st k now; rewrite ?new_exp_eq; try reflexivity.
  all: destruct (0 <? ttl); reflexivity.
Qed.

Lemma GAT_link k ttl opq xq :
  obs_step (run_gat (Handler_GAT_src now k ttl opq xq) st) = Some (model_call st now (HGat k ttl opq)).
Proof.
  unfold Handler_GAT_src. mon. look st k now; rewrite ?new_exp_eq; try reflexivity.
  all: destruct (0 <? ttl); reflexivity.
Qed.

(* Close does nothing at all: no lock call, no map access, nil *)
Lemma Close_link : forall s, Handler_Close_src now s = (s, Val None).
Proof. reflexivity. Qed.
End Methods.

(* ---------------- Get / GetE: the loop over the keys ---------------- *)
Lemma nth_error_map_mid {A B} (f : A -> B) pre x suf :
  nth_error (List.map f (pre ++ x :: suf)) (N.to_nat (len pre)) = Some (f x).
Proof.
  unfold len. rewrite Nnat.Nat2N.id, map_app. rewrite nth_error_app2 by (rewrite map_length; lia).
  rewrite map_length, Nat.sub_diag. reflexivity.
Qed.

Lemma len_snoc {A} (l : list A) x : len (l ++ [x]) = len l + 1.
Proof. unfold len. rewrite app_length. cbn [length]. lia. Qed.
Lemma len_cons {A} (l : list A) x : len (x :: l) = len l + 1.
Proof. unfold len. cbn [length]. lia. Qed.

Definition get_post (now : N) (withexp : bool) (s : ist) (its : list gitem) : ist :=
  mkIS (is_map s) (is_ev s ++ List.map (fun it => EvRead (gi_key it)) its)
       (is_out s ++ List.map (im_get1 (is_map s) now withexp) its) (is_dch s) (is_ech s).

Definition chan_open (s : ist) : Prop := ch_made (is_dch s) = true /\ ch_closed (is_dch s) = false.

(* a loop body that, for the item at position [len pre], reads its key and sends its response *)
Definition body_ok (now : N) (withexp : bool) (all : list gitem) (body : N -> bytes -> M unit) : Prop :=
  forall pre it suf s, all = pre ++ it :: suf -> chan_open s -> len (is_out s) < ch_cap (is_dch s) ->
    body (len pre) (gi_key it) s = (get_post now withexp s [it], Val tt).

Lemma range_get now withexp all body : body_ok now withexp all body ->
  forall suf pre s, all = pre ++ suf -> chan_open s -> len (is_out s) + len suf <= ch_cap (is_dch s) ->
    m_range_from (len pre) (List.map gi_key suf) body s = (get_post now withexp s suf, Val tt).
Proof.
  intros Hb suf. induction suf as [|it suf IH]; intros pre s Hall Ho Hc.
  - cbn [List.map m_range_from]. unfold m_ret, get_post. cbn [List.map]. rewrite !app_nil_r. destruct s; reflexivity.
  - cbn [List.map m_range_from]. unfold m_bind. rewrite (Hb pre it suf s Hall Ho) by (rewrite len_cons in Hc; lia).
    rewrite <- (len_snoc pre it). rewrite (IH (pre ++ [it])).
    + unfold get_post. cbn [is_map is_ev is_out is_dch is_ech List.map]. rewrite <- !app_assoc. reflexivity.
    + rewrite <- app_assoc. exact Hall.
    + exact Ho.
    + unfold get_post. cbn [is_map is_ev is_out is_dch is_ech List.map]. rewrite len_snoc. rewrite len_cons in Hc. lia.
Qed.

Lemma range_get0 now withexp items body s : body_ok now withexp items body ->
  chan_open s -> len (is_out s) + len items <= ch_cap (is_dch s) ->
  m_range (List.map gi_key items) body s = (get_post now withexp s items, Val tt).
Proof. intros Hb Ho Hc. exact (range_get now withexp items body Hb items [] s eq_refl Ho Hc). Qed.

Lemma acquires_reads (its : list gitem) : acquires (List.map (fun it => EvRead (gi_key it)) its) = [].
Proof. induction its; [reflexivity | exact IHits]. Qed.
Lemma ops_reads (its : list gitem) : ops_of (List.map (fun it => EvRead (gi_key it)) its) = [].
Proof. induction its; [reflexivity | exact IHits]. Qed.
Lemma acquires_app a b : acquires (a ++ b) = acquires a ++ acquires b.
Proof. induction a as [|[] a IH]; cbn [app acquires]; rewrite ?IH; reflexivity. Qed.
Lemma ops_app a b : ops_of (a ++ b) = ops_of a ++ ops_of b.
Proof. induction a as [|[] a IH]; cbn [app ops_of]; rewrite ?IH; reflexivity. Qed.
Lemma disc_reads (its : list gitem) t :
  disc_from HRead (List.map (fun it => EvRead (gi_key it)) its ++ t) = disc_from HRead t.
Proof. induction its; [reflexivity | exact IHits]. Qed.

Ltac body_tac now :=
  let mp := fresh "mp" in let evs := fresh "evs" in let out := fresh "out" in
  let dch := fresh "dch" in let ech := fresh "ech" in let e := fresh "e" in
  intros pre it suf [mp evs out dch ech] Hall [Hm Hcl] Hcap; subst;
  cbn [is_map is_ev is_out is_dch is_ech] in Hm, Hcl, Hcap;
  cbv beta iota zeta delta [m_bind m_map_get add_ev is_map is_ev is_out is_dch is_ech];
  unfold m_index; rewrite !nth_error_map_mid;
  unfold get_post, im_get1, lookup; cbn [is_map is_ev is_out is_dch is_ech List.map];
  destruct (mp (gi_key it)) as [e|];
  [ rewrite entry_isExpired_link; destruct (expired now e) | ];
  cbv beta iota zeta delta [negb orb m_bind m_send m_ret is_map is_ev is_out is_dch is_ech];
  rewrite Hm, Hcl; cbv beta iota delta [negb];
  (destruct (N.ltb_spec (len out) (ch_cap dch)); [|lia]); reflexivity.

Section Gets.
Variables (st : cstate) (now : N).

Lemma Get_run items xo xq :
  run_get (Handler_Get_src now (List.map gi_key items) (List.map gi_opaque items) (List.map gi_quiet items) xo xq) st =
  Some (inmem_step st now (HGet items), st,
        EvRLock :: List.map (fun it => EvRead (gi_key it)) items ++ [EvRUnlock]).
Proof.
  unfold Handler_Get_src, run_get.
  cbv beta iota zeta delta [m_bind m_make_data m_make_err m_rlock add_ev is0 ch0 is_map is_ev is_out is_dch is_ech
    set_dch set_ech ch_made app].
  erewrite (range_get0 now false items).
  2: { body_tac now. }
  2: { split; reflexivity. }
  2: { cbn [is_out is_dch ch_cap]. unfold len. rewrite map_length. cbn [length]. lia. }
  unfold get_post. cbn [is_map is_ev is_out is_dch is_ech].
  cbv beta iota zeta delta [m_bind m_runlock m_close close_ch m_ret add_ev set_dch set_ech is_map is_ev is_out is_dch
    is_ech ch_made ch_closed ch_cap andb negb chans_done res_bind observe].
  unfold step_of. change ([EvRLock] ++ ?a) with (EvRLock :: a).
  rewrite !acquires_app, !ops_app. cbn [acquires ops_of app].
  rewrite acquires_reads, ops_reads. cbn [app]. reflexivity.
Qed.

Lemma GetE_run items xo xq :
  run_get (Handler_GetE_src now (List.map gi_key items) (List.map gi_opaque items) (List.map gi_quiet items) xo xq) st =
  Some (inmem_step st now (HGetE items), st,
        EvRLock :: List.map (fun it => EvRead (gi_key it)) items ++ [EvRUnlock]).
Proof.
  unfold Handler_GetE_src, run_get.
  cbv beta iota zeta delta [m_bind m_make_data m_make_err m_rlock add_ev is0 ch0 is_map is_ev is_out is_dch is_ech
    set_dch set_ech ch_made app].
  erewrite (range_get0 now true items).
  2: { body_tac now. }
  2: { split; reflexivity. }
  2: { cbn [is_out is_dch ch_cap]. unfold len. rewrite map_length. cbn [length]. lia. }
  unfold get_post. cbn [is_map is_ev is_out is_dch is_ech].
  cbv beta iota zeta delta [m_bind m_runlock m_close close_ch m_ret add_ev set_dch set_ech is_map is_ev is_out is_dch
    is_ech ch_made ch_closed ch_cap andb negb chans_done res_bind observe].
  unfold step_of. change ([EvRLock] ++ ?a) with (EvRLock :: a).
  rewrite !acquires_app, !ops_app. cbn [acquires ops_of app].
  rewrite acquires_reads, ops_reads. cbn [app]. reflexivity.
Qed.
End Gets.

(* ---------------- the handler interface ---------------- *)
Theorem inmem_src_link xo xq xf xt st now q :
  obs_step (inmem_src_gen xo xq xf xt st now q) = Some (model_call st now q).
Proof.
  destruct q as [[| |] k d f ttl | [|] k d | k | k ttl | items | items | k ttl opq]; cbn [inmem_src_gen].
  - rewrite Set_link. reflexivity.
  - apply Add_link.
  - apply Replace_link.
  - apply Prepend_link.
  - apply Append_link.
  - apply Delete_link.
  - apply Touch_link.
  - rewrite Get_run. reflexivity.
  - rewrite GetE_run. reflexivity.
  - apply GAT_link.
Qed.

(* the translated handler as a sequential step function, in the shape of [inmem_exec] *)
Definition inmem_src_exec (st : cstate) (now : N) (q : hreq) : option (cstate * hres) :=
  match inmem_src st now q with Some (sp, m, _) => Some (m, s_res sp) | None => None end.

Lemma inmem_src_exec_link st now q : inmem_src_exec st now q = Some (inmem_exec st now q).
Proof.
  unfold inmem_src_exec, inmem_src. pose proof (inmem_src_link 0 false 0 0 st now q) as H.
  destruct (inmem_src_gen 0 false 0 0 st now q) as [[[sp m] t]|]; cbn [obs_step] in H; [|discriminate].
  injection H as -> ->. reflexivity.
Qed.

Fixpoint inmem_src_run (st : cstate) (h : list (N * hreq)) : option (cstate * list hres) :=
  match h with
  | [] => Some (st, [])
  | (now, q) :: r =>
      match inmem_src_exec st now q with
      | Some (st1, o) => match inmem_src_run st1 r with Some (st2, os) => Some (st2, o :: os) | None => None end
      | None => None
      end
  end.

Lemma inmem_src_run_link h : forall st, inmem_src_run st h = Some (inmem_run st h).
Proof.
  induction h as [|[now q] r IH]; intro st; cbn [inmem_src_run inmem_run]; [reflexivity|].
  rewrite inmem_src_exec_link. destruct (inmem_exec st now q) as [st1 o]. rewrite IH.
  destruct (inmem_run st1 r). reflexivity.
Qed.

(* ---------------- the lock discipline on the translated terms ---------------- *)
Section Discipline.
Variables (st : cstate) (now : N).

Lemma Set_disc k d f ttl xo xq : disciplined (obs_trace (run_err (Handler_Set_src now k d f ttl xo xq) st)) = true.
Proof. unfold Handler_Set_src. mon. reflexivity. Qed.
Lemma Add_disc k d f ttl xo xq : disciplined (obs_trace (run_err (Handler_Add_src now k d f ttl xo xq) st)) = true.
Proof. unfold Handler_Add_src. mon. look st k now; reflexivity. Qed.
Lemma Replace_disc k d f ttl xo xq : disciplined (obs_trace (run_err (Handler_Replace_src now k d f ttl xo xq) st)) = true.
Proof. unfold Handler_Replace_src. mon. look st k now; reflexivity. Qed.
Lemma Append_disc k d xf xt xo xq : disciplined (obs_trace (run_err (Handler_Append_src now k d xf xt xo xq) st)) = true.
Proof. unfold Handler_Append_src. mon. look st k now; reflexivity. Qed.
Lemma Prepend_disc k d xf xt xo xq : disciplined (obs_trace (run_err (Handler_Prepend_src now k d xf xt xo xq) st)) = true.
Proof. unfold Handler_Prepend_src. mon. look st k now; reflexivity. Qed.
Lemma Delete_disc k xo xq : disciplined (obs_trace (run_err (Handler_Delete_src now k xo xq) st)) = true.
Proof. unfold Handler_Delete_src. mon. look st k now; reflexivity. Qed.
Lemma Touch_disc k ttl xo xq : disciplined (obs_trace (run_err (Handler_Touch_src now k ttl xo xq) st)) = true.
Proof. unfold Handler_Touch_src. mon. look st k now; reflexivity. Qed.
Lemma GAT_disc k ttl opq xq : disciplined (obs_trace (run_gat (Handler_GAT_src now k ttl opq xq) st)) = true.
Proof. unfold Handler_GAT_src. mon. look st k now; reflexivity. Qed.
Lemma reads_disc (items : list gitem) :
  disciplined (EvRLock :: List.map (fun it => EvRead (gi_key it)) items ++ [EvRUnlock]) = true.
Proof. unfold disciplined. cbn [disc_from]. rewrite disc_reads. reflexivity. Qed.
Lemma Get_disc items xo xq :
  disciplined (obs_trace (run_get (Handler_Get_src now (List.map gi_key items) (List.map gi_opaque items) (List.map gi_quiet items) xo xq) st)) = true.
Proof. rewrite Get_run. apply reads_disc. Qed.
Lemma GetE_disc items xo xq :
  disciplined (obs_trace (run_get (Handler_GetE_src now (List.map gi_key items) (List.map gi_opaque items) (List.map gi_quiet items) xo xq) st)) = true.
Proof. rewrite GetE_run. apply reads_disc. Qed.
End Discipline.

(* every call of the translated handler, on every map, at every second, for every request: it returns
   (no panic, nothing outside the semantics, one critical section) and its trace is disciplined: the
   mutex is taken once and released on every path, every map read happens under a lock, every map
   write under the write lock *)
Lemma observe_inv s r sp m t : observe s r = Some (sp, m, t) ->
  acquires t = [s_lock sp] /\ ops_of t = s_ops sp.
Proof.
  unfold observe, step_of. destruct r as [h| |]; try discriminate.
  destruct (acquires (is_ev s)) as [|l [|l2 r2]] eqn:E; try discriminate.
  intro H. injection H as <- <- <-. cbn [s_lock s_ops]. split; [exact E|reflexivity].
Qed.

Theorem inmem_src_lock_discipline xo xq xf xt st now q :
  exists sp m t, inmem_src_gen xo xq xf xt st now q = Some (sp, m, t) /\ disciplined t = true
    /\ acquires t = [s_lock sp] /\ ops_of t = s_ops sp.
Proof.
  pose proof (inmem_src_link xo xq xf xt st now q) as H.
  assert (D : disciplined (obs_trace (inmem_src_gen xo xq xf xt st now q)) = true).
  { destruct q as [[| |] k d f ttl | [|] k d | k | k ttl | items | items | k ttl opq]; cbn [inmem_src_gen].
    - apply Set_disc. - apply Add_disc. - apply Replace_disc. - apply Prepend_disc. - apply Append_disc.
    - apply Delete_disc. - apply Touch_disc. - apply Get_disc. - apply GetE_disc. - apply GAT_disc. }
  assert (O : forall sp m t, inmem_src_gen xo xq xf xt st now q = Some (sp, m, t) ->
              acquires t = [s_lock sp] /\ ops_of t = s_ops sp).
  { intros sp m t. destruct q as [[| |] k d f ttl | [|] k d | k | k ttl | items | items | k ttl opq]; cbn [inmem_src_gen];
      unfold run_err, run_gat, run_get;
      match goal with |- context [let '(_, _) := ?m ?s0 in _] => destruct (m s0) as [s1 r1] end;
      intro E; apply observe_inv in E; exact E. }
  destruct (inmem_src_gen xo xq xf xt st now q) as [[[sp m] t]|] eqn:E; cbn [obs_step obs_trace] in *; [|discriminate].
  exists sp, m, t. split; [reflexivity|]. split; [exact D|]. exact (O sp m t eq_refl).
Qed.

(* Close takes no lock and touches nothing *)
Lemma Close_disc st now : call_ok (Handler_Close_src now) st = true.
Proof. reflexivity. Qed.

(* ---------------- the declarations ---------------- *)
(* entry is the struct [raw] stands for; Handler is one map and a POINTER to one RWMutex; New returns the
   one package-level *Handler on every call, whose map and mutex are created once: every connection
   shares the map AND the mutex that guards it *)
Open Scope string_scope.
Definition inmem_decl_model : handler_decl :=
  mkHD [("exptime", "uint32"); ("flags", "uint32"); ("data", "[]byte")]
       [("data", "map[string]entry"); ("mutex", "*sync.RWMutex")]
       "singleton" [("data", "make(map[string]entry)"); ("mutex", "new(sync.RWMutex)")]
       (NewReturnsVar "singleton").
Lemma inmem_decl_link : inmem_decl_src = inmem_decl_model.
Proof. reflexivity. Qed.

(* ---------------- uniform per-method statements ---------------- *)
Lemma Set_step st now k d f ttl xo xq :
  obs_step (run_err (Handler_Set_src now k d f ttl xo xq) st) = Some (model_call st now (HSet MSet k d f ttl)).
Proof. rewrite Set_link. reflexivity. Qed.
Lemma Get_step st now items xo xq :
  obs_step (run_get (Handler_Get_src now (List.map gi_key items) (List.map gi_opaque items) (List.map gi_quiet items) xo xq) st)
  = Some (model_call st now (HGet items)).
Proof. rewrite Get_run. reflexivity. Qed.
Lemma GetE_step st now items xo xq :
  obs_step (run_get (Handler_GetE_src now (List.map gi_key items) (List.map gi_opaque items) (List.map gi_quiet items) xo xq) st)
  = Some (model_call st now (HGetE items)).
Proof. rewrite GetE_run. reflexivity. Qed.

(* ---------------- transfer of the C17 theorems to the translated handler ---------------- *)
From Rend Require Import handlers.InmemProofs.

Theorem inmem_src_refines_spec : forall h : list (N * hreq),
  hist_ok 0 h ->
  exists stf outs, inmem_src_run cempty h = Some (stf, outs)
    /\ List.map outcome_of outs = snd (gspec_run inmem_norm empty_store (hist_cmds h))
    /\ outs = snd (ref_run empty_store h)
    /\ live_eq (last_now 0 h) (abs stf) (fst (gspec_run inmem_norm empty_store (hist_cmds h))).
Proof.
  intros h Hh. rewrite inmem_src_run_link. destruct (inmem_refines_spec h Hh) as [A [B C]].
  destruct (inmem_run cempty h) as [stf outs]. exists stf, outs. cbn [fst snd] in *. repeat split; assumption.
Qed.

Theorem inmem_src_step_simulation : forall st s now q,
  now + ttl_of q < Inmem.two32 -> live_eq now (abs st) s ->
  exists st' r, inmem_src_exec st now q = Some (st', r)
    /\ live_eq now (abs st') (fst (gspec_step inmem_norm s now (cmd_of q)))
    /\ r = ref_result s now q
    /\ outcome_of r = snd (gspec_step inmem_norm s now (cmd_of q)).
Proof.
  intros st s now q H1 H2. rewrite inmem_src_exec_link. destruct (sim_step st s now q H1 H2) as [A [B C]].
  destruct (inmem_exec st now q) as [st' r]. exists st', r. cbn [fst snd] in *. repeat split; assumption.
Qed.
