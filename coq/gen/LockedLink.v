(* LockedLink.v — the lock discipline extracted from the SOURCE of /repo/orcas/locked.go by
   `rendharness locktrans` (gen/Locked_gen.v) is the discipline the hand-written models assume
   (conc/LockShape.v [locked_model], [getlock_model], ...). One lemma per method / function: when
   the source of one changes its discipline, its extracted value changes (possibly to an `...Other`
   constructor) and exactly its lemma stops compiling. The consequences for conc/LockInst.v
   [sections_of] and orca/Orcas.v [locked] are then read off the SOURCE shapes. *)
From Coq Require Import String.
From Rend Require Import base.Bytes gen.Consts_gen spec.MapSpec orca.Types handlers.Std orca.Orcas
  proto.Resp orca.OrcaSpec conc.LockLTS conc.LockExec conc.LockInst conc.LockShape conc.LockShapeProofs
  gen.Locked_gen.
Open Scope N_scope.

(* ---------------- orcas/locked.go: the request methods of *LockedOrca ---------------- *)
Lemma locked_Set_link : locked_Set_src = locked_model LMSet.
Proof. reflexivity. Qed.
Lemma locked_Add_link : locked_Add_src = locked_model LMAdd.
Proof. reflexivity. Qed.
Lemma locked_Replace_link : locked_Replace_src = locked_model LMReplace.
Proof. reflexivity. Qed.
Lemma locked_Append_link : locked_Append_src = locked_model LMAppend.
Proof. reflexivity. Qed.
Lemma locked_Prepend_link : locked_Prepend_src = locked_model LMPrepend.
Proof. reflexivity. Qed.
Lemma locked_Delete_link : locked_Delete_src = locked_model LMDelete.
Proof. reflexivity. Qed.
Lemma locked_Touch_link : locked_Touch_src = locked_model LMTouch.
Proof. reflexivity. Qed.
Lemma locked_Gat_link : locked_Gat_src = locked_model LMGat.
Proof. reflexivity. Qed.
Lemma locked_Get_link : locked_Get_src = locked_model LMGet.
Proof. reflexivity. Qed.
Lemma locked_GetE_link : locked_GetE_src = locked_model LMGetE.
Proof. reflexivity. Qed.
Lemma locked_Noop_link : locked_Noop_src = locked_model LMNoop.
Proof. reflexivity. Qed.
Lemma locked_Quit_link : locked_Quit_src = locked_model LMQuit.
Proof. reflexivity. Qed.
Lemma locked_Version_link : locked_Version_src = locked_model LMVersion.
Proof. reflexivity. Qed.
Lemma locked_Stat_link : locked_Stat_src = locked_model LMStat.
Proof. reflexivity. Qed.
Lemma locked_Unknown_link : locked_Unknown_src = locked_model LMUnknown.
Proof. reflexivity. Qed.

(* ---------------- getlock, Locked, LockedWithExisting, getNewLocks ---------------- *)
Lemma getlock_link : getlock_src = getlock_model.
Proof. reflexivity. Qed.
Lemma ctor_Locked_link : ctor_Locked_src = ctor_new_model.
Proof. reflexivity. Qed.
Lemma ctor_LockedWithExisting_link : ctor_LockedWithExisting_src = ctor_existing_model.
Proof. reflexivity. Qed.
Lemma getNewLocks_link : getNewLocks_src = newlocks_model.
Proof. reflexivity. Qed.

(* the extracted table *)
Definition locked_src (m : lmethod) : lock_shape :=
  match m with
  | LMSet => locked_Set_src
  | LMAdd => locked_Add_src
  | LMReplace => locked_Replace_src
  | LMAppend => locked_Append_src
  | LMPrepend => locked_Prepend_src
  | LMDelete => locked_Delete_src
  | LMTouch => locked_Touch_src
  | LMGat => locked_Gat_src
  | LMGet => locked_Get_src
  | LMGetE => locked_GetE_src
  | LMNoop => locked_Noop_src
  | LMQuit => locked_Quit_src
  | LMVersion => locked_Version_src
  | LMStat => locked_Stat_src
  | LMUnknown => locked_Unknown_src
  end.

Lemma locked_src_link : forall m, locked_src m = locked_model m.
Proof.
  intros m; destruct m; cbn [locked_src].
  - exact locked_Set_link.
  - exact locked_Add_link.
  - exact locked_Replace_link.
  - exact locked_Append_link.
  - exact locked_Prepend_link.
  - exact locked_Delete_link.
  - exact locked_Touch_link.
  - exact locked_Gat_link.
  - exact locked_Get_link.
  - exact locked_GetE_link.
  - exact locked_Noop_link.
  - exact locked_Quit_link.
  - exact locked_Version_link.
  - exact locked_Stat_link.
  - exact locked_Unknown_link.
Qed.

Lemma lockset_src_link :
  getlock_src = getlock_model /\ ctor_Locked_src = ctor_new_model /\
  ctor_LockedWithExisting_src = ctor_existing_model /\ getNewLocks_src = newlocks_model.
Proof. exact (conj getlock_link (conj ctor_Locked_link (conj ctor_LockedWithExisting_link getNewLocks_link))). Qed.

(* ---------------- consequences, stated on the SOURCE shapes ---------------- *)
(* the sections of the lock LTS (C03/C12/C14) are the plan of the source shape *)
Lemma src_sections_follow_plan : forall now k r,
  option_map (plan_sections now k) (shape_plan (locked_src (method_of r)) r) = Some (sections_of now k r).
Proof. intros. rewrite locked_src_link. apply sections_follow_plan. Qed.

(* the sequential model of the wrapper (C01/C02/...) is the plan of the source shape, in sequence *)
Lemma src_locked_follows_shape : forall w r,
  shape_prog w (locked_src (method_of r)) r = Some (locked w r).
Proof. intros. rewrite locked_src_link. apply locked_follows_shape. Qed.

Lemma src_write_sections : forall now k c multi_reader r key,
  req_key r = Some key ->
  locked_src (method_of r) = LSingle KeyOfReq ModeWrite AcquireBeforeCall ReleaseDeferred CallSame /\
  sections_of now k r = [mkSec key true (to_cprog_gen now (is_one k) key (base_orca k r) [])] /\
  sec_locks (lock_slot c) multi_reader (sections_of now k r) = [(lock_slot c key, true)] /\
  locked (base_orca k) r = base_orca k r.
Proof. intros now k c mr r key E. rewrite locked_src_link. exact (write_sections now k c mr r key E). Qed.

Lemma src_get_sections : forall now k c multi_reader (gete : bool) items no ne,
  let r := if gete then RGetE items no ne else RGet items no ne in
  locked_src (method_of r) =
    LPerKey KeyOfLoop ModeRead AcquireBeforeCall ReleaseBeforeErrCheck CallPerKeySub (PanicHandler true true) StopOnError /\
  sec_locks (lock_slot c) multi_reader (sections_of now k r) =
    map (fun it => (lock_slot c (gi_key it), negb multi_reader)) items /\
  map (fun s => (s_key s, s_write s)) (sections_of now k r) = map (fun it => (gi_key it, false)) items /\
  map (@s_prog cell sres) (sections_of now k r) =
    map (fun kq => to_cprog_gen now (is_one k) (fst kq) (base_orca k (snd kq)) []) (sub_gets gete items no ne).
Proof. intros now k c mr gete items no ne r. rewrite locked_src_link. exact (get_sections_shape now k c mr gete items no ne). Qed.

Lemma src_passthrough : forall now k r,
  req_key r = None -> req_gets r = None ->
  locked_src (method_of r) = LNone CallSame /\ sections_of now k r = [] /\ forall w, locked w r = w r.
Proof. intros now k r E1 E2. rewrite locked_src_link. exact (passthrough_sections now k r E1 E2). Qed.

(* the lock set the source builds gives the LTS's [exclusive] and [lock_slot] *)
Lemma src_lockset : forall (C R : Type) multi_reader (s : section C R),
  acq_exclusive getNewLocks_src ctor_Locked_src getlock_src multi_reader (if s_write s then ModeWrite else ModeRead)
    = Some (exclusive C R multi_reader s) /\
  acq_exclusive getNewLocks_src ctor_LockedWithExisting_src getlock_src multi_reader (if s_write s then ModeWrite else ModeRead)
    = Some (exclusive C R multi_reader s) /\
  shape_slot getNewLocks_src ctor_Locked_src getlock_src = Some lock_slot /\
  shape_slot getNewLocks_src ctor_LockedWithExisting_src getlock_src = Some lock_slot.
Proof.
  intros C R mr s. rewrite getlock_link, ctor_Locked_link, ctor_LockedWithExisting_link, getNewLocks_link.
  destruct (lockset_exclusive C R mr s) as [A B]. destruct lockset_slot as [D E].
  exact (conj A (conj B (conj D E))).
Qed.
