(* TextParserLink.v — TextParser.Parse as translated from /repo's SOURCE by `texttrans`
   (gen/TextParser_gen.v, semantics of the library calls: proto/TextSem.v) is the hand-written
   model parse_text of proto/TextReq.v: same outcome (request / client error / close, and the
   bytes left unread) and same allocation/demand trace, for every byte stream. When the control
   or data flow of parser.go changes — another token for a field, another order of the checks,
   another error, another number of bytes read, another struct or request type — the generated
   term changes and these lemmas stop compiling. *)
From Coq Require Import String.
From Rend Require Import base.Bytes base.BytesProofs gen.Consts_gen gen.GoSem gen.GoSemLemmas
  spec.MapSpec orca.Types orca.OrcaSem proto.Resp proto.ReqCommon proto.TextReq proto.TextReqProofs
  proto.TextSem proto.TextSemLemmas orca.Orcas proto.LoopShape gen.Loop_gen gen.LoopLink gen.TextParser_gen.
Open Scope N_scope.

(* ---- what the loop makes of the requests the text parser builds ---- *)
Lemma as_req_set k d f t : as_req (GSetRequest k d f t 0 false) RtSet = Some (RSet MSet k d f t 0 false).
Proof. reflexivity. Qed.
Lemma as_req_add k d f t : as_req (GSetRequest k d f t 0 false) RtAdd = Some (RSet MAdd k d f t 0 false).
Proof. reflexivity. Qed.
Lemma as_req_replace k d f t : as_req (GSetRequest k d f t 0 false) RtReplace = Some (RSet MReplace k d f t 0 false).
Proof. reflexivity. Qed.
Lemma as_req_append k d f t : as_req (GSetRequest k d f t 0 false) RtAppend = Some (RCat false k d 0 false).
Proof. reflexivity. Qed.
Lemma as_req_prepend k d f t : as_req (GSetRequest k d f t 0 false) RtPrepend = Some (RCat true k d 0 false).
Proof. reflexivity. Qed.
Lemma as_req_get ks os qs no ne : as_req (GGetRequest ks os qs no ne) RtGet = Some (RGet (gitems ks os qs) no ne).
Proof. reflexivity. Qed.

(* ---- tactics: the length tests and index checks on a list with a known spine ---- *)
Ltac len_dec :=
  rewrite ?len_succ, ?len_nil;
  repeat match goal with
  | |- context [N.ltb ?a ?b] => destruct (N.ltb_spec a b); try lia
  | |- context [N.leb ?a ?b] => destruct (N.leb_spec a b); try lia
  | |- context [N.eqb ?a ?b] => destruct (N.eqb_spec a b); try lia
  end.

Ltac get_idx :=
  repeat match goal with
  | |- context [idx ?l ?i] => let v := eval cbv in (idx l i) in change (idx l i) with v
  | |- context [slice_from ?l ?i] => let v := eval cbv in (slice_from l i) in change (slice_from l i) with v
  end.

(* ---- setRequest ---- *)
Lemma setRequest_link rt mk st :
  (forall k d f t, as_req (GSetRequest k d f t 0 false) rt = Some (mk k d f t)) ->
  forall parts s, setRequest_src parts rt st s = Some (text_store mk parts s).
Proof.
  intros Hmk parts s. unfold setRequest_src. cbv zeta.
  destruct parts as [|c0 [|k [|f [|t [|l [|x r]]]]]];
    try (len_dec; cbn [negb]; reflexivity).
  (* exactly five parts *)
  replace (negb (len [c0; k; f; t; l] =? 5)) with false by (len_dec; reflexivity).
  unfold chk_index.
  replace (1 <? len [c0; k; f; t; l]) with true by (len_dec; reflexivity).
  replace (2 <? len [c0; k; f; t; l]) with true by (len_dec; reflexivity).
  replace (3 <? len [c0; k; f; t; l]) with true by (len_dec; reflexivity).
  replace (4 <? len [c0; k; f; t; l]) with true by (len_dec; reflexivity).
  get_idx.
  unfold text_store, field_u32, str_ParseUint, str_TrimSpace.
  change ((10 =? 10) && (32 =? 32)) with true. cbv iota.
  destruct (parse_u32 (trim_space f)) as [flags|] eqn:Ef; [|reflexivity].
  cbn [err_nonnil err_nil negb].
  destruct (parse_u32 (trim_space t)) as [ttl|] eqn:Et; [|reflexivity].
  cbn [err_nonnil err_nil negb].
  destruct (parse_u32 (trim_space l)) as [n|] eqn:El; [|reflexivity].
  cbn [err_nonnil err_nil negb].
  apply parse_u32_lt in Ef. apply parse_u32_lt in Et. apply parse_u32_lt in El.
  unfold mk_buf.
  destruct (N.leb_spec two63 n) as [Hbig|_]; [unfold two63 in Hbig; lia|].
  unfold rd_ReadAtLeast. rewrite len_zeros, (conv64_u32 n El).
  destruct (N.leb_spec two63 n) as [Hbig|_]; [unfold two63 in Hbig; lia|].
  rewrite N.ltb_irrefl.
  destruct (read_n s n) as [[d s1]|]; [|reflexivity].
  cbn [err_nonnil err_nil negb].
  change (conv8 10) with 10. unfold rd_ReadString. rewrite read_until_line.
  change (conv32 0) with 0. rewrite (conv32_u32 flags Ef), (conv32_u32 ttl Et).
  unfold go_return. rewrite Hmk.
  destruct (read_line s1) as [[tl s2]|]; reflexivity.
Qed.

(* ---- Parse ---- *)
Lemma parse_text_src_link : forall s, parse_text_src s = Some (parse_text s).
Proof.
  intros s. unfold parse_text_src, Parse_src, parse_text, rd_ReadString. cbv zeta.
  rewrite read_until_line.
  destruct (read_line s) as [[line s1]|]; [|reflexivity].
  cbn [err_nonnil err_nil negb].
  unfold str_TrimSpace. rewrite str_Split1_sp.
  destruct (split_sp_cons (trim_space line)) as [c [args E]]. rewrite E. clear E.
  unfold chk_index at 1.
  replace (0 <? len (c :: args)) with true by (len_dec; reflexivity).
  change (idx (c :: args) 0) with c.
  unfold text_dispatch, is_cmd, str_eqb, time_now.
  destruct (bytes_eqb c (asc "set")).
  { rewrite (setRequest_link RtSet _ 0 as_req_set). reflexivity. }
  destruct (bytes_eqb c (asc "add")).
  { rewrite (setRequest_link RtAdd _ 0 as_req_add). reflexivity. }
  destruct (bytes_eqb c (asc "replace")).
  { rewrite (setRequest_link RtReplace _ 0 as_req_replace). reflexivity. }
  destruct (bytes_eqb c (asc "append")).
  { rewrite (setRequest_link RtAppend (fun k d _ _ => RCat false k d 0 false) 0 as_req_append). reflexivity. }
  destruct (bytes_eqb c (asc "prepend")).
  { rewrite (setRequest_link RtPrepend (fun k d _ _ => RCat true k d 0 false) 0 as_req_prepend). reflexivity. }
  destruct (bytes_eqb c (asc "get")).
  { destruct args as [|a args'].
    - replace (len [c] <? 2) with true by (len_dec; reflexivity). reflexivity.
    - replace (len (c :: a :: args') <? 2) with false by (len_dec; reflexivity).
      unfold chk_slice_from.
      replace (1 <=? len (c :: a :: args')) with true by (len_dec; reflexivity).
      change (slice_from (c :: a :: args') 1) with (a :: args').
      rewrite (range_fold_snoc (a :: args') []). rewrite app_nil_l.
      unfold go_return. rewrite as_req_get, gitems_fresh. reflexivity. }
  destruct (bytes_eqb c (asc "delete")).
  { destruct args as [|k [|x r]]; len_dec; cbn [negb]; reflexivity. }
  destruct (bytes_eqb c (asc "touch")).
  { destruct args as [|k [|t [|x r]]]; try (len_dec; cbn [negb]; reflexivity).
    replace (negb (len [c; k; t] =? 3)) with false by (len_dec; reflexivity).
    unfold chk_index.
    replace (1 <? len [c; k; t]) with true by (len_dec; reflexivity).
    replace (2 <? len [c; k; t]) with true by (len_dec; reflexivity).
    get_idx. unfold field_u32, str_ParseUint, str_TrimSpace.
    change ((10 =? 10) && (32 =? 32)) with true. cbv iota.
    destruct (parse_u32 (trim_space t)) as [ttl|] eqn:Et; [|reflexivity].
    cbn [err_nonnil err_nil negb]. apply parse_u32_lt in Et.
    change (conv32 0) with 0. rewrite (conv32_u32 ttl Et). reflexivity. }
  destruct (bytes_eqb c (asc "noop")).
  { destruct args as [|x r]; len_dec; cbn [negb]; reflexivity. }
  destruct (bytes_eqb c (asc "quit")).
  { destruct args as [|x r]; len_dec; cbn [negb]; reflexivity. }
  destruct (bytes_eqb c (asc "version")).
  { destruct args as [|x r]; len_dec; cbn [negb]; reflexivity. }
  destruct (bytes_eqb c (asc "stats")).
  { destruct args as [|x r]; len_dec; cbn [negb]; reflexivity. }
  reflexivity.
Qed.

(* ---- the theorems about parse_text, about the translated parser ---- *)
Lemma src_text_fst s : option_map fst (parse_text_src s) = Some (fst (parse_text s)).
Proof. rewrite parse_text_src_link. reflexivity. Qed.

Lemma src_text_roundtrip : forall (r : req) (rest : bytes),
  wf_text r = true -> option_map fst (parse_text_src (enc_text r ++ rest)) = Some (PDone r rest).
Proof. intros r rest H. rewrite src_text_fst, (text_roundtrip r rest H). reflexivity. Qed.

Lemma src_text_alloc : forall s : bytes,
  exists o, parse_text_src s = Some o /\ Forall (text_ev_ok s) (snd o).
Proof.
  intros s. exists (parse_text s). split; [apply parse_text_src_link|].
  exact (text_alloc s).
Qed.

Lemma src_text_progress : forall s : bytes,
  exists o, parse_text_src s = Some o /\
    match fst o with
    | PDone _ rest | PClientErr _ rest => (length rest < length s)%nat
    | PClose => True
    end.
Proof. intros s. exists (parse_text s). split; [apply parse_text_src_link | exact (text_progress s)]. Qed.

(* the client errors of TextSem.go_return are those after which the translated loop goes on *)
Lemma is_client_err_loop e :
  is_client_err e = true <-> exists cs, sh_on_parse_error loop_src e = Some (cs, Open).
Proof.
  rewrite src_continues_iff. unfold is_client_err. rewrite existsb_exists. split.
  - intros [x [Hin Hx]]. apply N.eqb_eq in Hx. subst x. exact Hin.
  - intros Hin. exists e. split; [exact Hin | apply N.eqb_refl].
Qed.

