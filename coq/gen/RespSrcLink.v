(* RespSrcLink.v — HAND-WRITTEN link between the SOURCE of the reply renderers and the model the
   theorems of C01 / C08 are about.

   gen/Resp_gen.v is what harness `resptrans` reads off protocol/binprot/respond.go, writeResponseHeader of
   protocol/binprot/headers.go and protocol/textprot/respond.go, statement by statement, as programs over
   the writer monad of proto/WriterSem.v. Here: running the program of ANY Responder call, from any
   writer state, whatever stale contents the sync.Pool objects (header struct, 24-byte buffer) carry,
   appends exactly proto/Resp.v [render_bin c] / [render_text c] to the connection, stays inside the
   modelled fragment (no untranslated statement is reached), panics exactly for the text GAT / GetE, and
   leaves nothing unflushed if it wrote anything.

   A change of respond.go / headers.go changes Resp_gen.v and one of these lemmas stops compiling. *)
From Coq Require Import String.
From Rend Require Import base.Bytes gen.Consts_gen gen.GoSem spec.MapSpec orca.Types proto.Resp
  proto.WriterSem gen.Resp_gen.
Open Scope N_scope.

(* the translator met nothing outside its fragment and no inconsistency between the sources *)
Lemma resp_src_complete : resp_untranslated = [] /\ resp_problems = [].
Proof. split; reflexivity. Qed.

(* ---------------- integer conversions ---------------- *)
Lemma conv8_mod x : conv8 x = x mod 256.
Proof. unfold conv8, wrap8. change 255 with (N.ones 8). rewrite N.land_ones. reflexivity. Qed.
Lemma conv16_mod x : conv16 x = x mod 65536.
Proof. unfold conv16, wrap16. change 65535 with (N.ones 16). rewrite N.land_ones. reflexivity. Qed.
Lemma conv32_mod x : conv32 x = x mod 4294967296.
Proof. unfold conv32, wrap32, maxu32. change 4294967295 with (N.ones 32). rewrite N.land_ones. reflexivity. Qed.
Lemma wrap64_mod x : wrap64 x = x mod 18446744073709551616.
Proof. unfold wrap64, maxu64. change 18446744073709551615 with (N.ones 64). rewrite N.land_ones. reflexivity. Qed.
Lemma u16be_mod x : u16be (x mod 65536) = u16be x.
Proof. unfold u16be. f_equal; [|f_equal]; lia. Qed.
Lemma add64_mod32 a b : (add64 a b) mod 4294967296 = (a + b) mod 4294967296.
Proof. unfold add64. rewrite wrap64_mod. lia. Qed.

(* ---------------- binary: the 24-byte header ---------------- *)
(* what writeResponseHeader puts on the wire for a header struct: every one of the 24 pooled bytes is
   overwritten, whatever the pool handed out *)
Definition hdr_bytes (rh : gstruct) : bytes :=
  [fget rh "Magic"; fget rh "Opcode"] ++ u16be (fget rh "KeyLength") ++ [fget rh "ExtraLength"; 0] ++
  u16be (fget rh "Status") ++ u32be (fget rh "TotalBodyLength") ++ u32be (fget rh "OpaqueToken") ++ zeros 8.

Lemma wrh_spec rh out pend oh ob t :
  bin_writeResponseHeader_src rh (mkW out pend WRunning oh ob t) =
  (None, mkW (out ++ hdr_bytes rh) true WRunning oh ob (t + 1)).
Proof. reflexivity. Qed.

Ltac wsimp :=
  repeat (progress (unfold bind, ret, w_write_string, w_write, w_flush, w_binary_write, w_panic, guarded, live, tick,
                      set_status, pool_get_struct;
                    cbn [w_status w_out w_pend w_oh w_ob w_tick fst snd err_nonnil negb is_nil orb])).

(* writeSuccessResponseHeader: every field of the pooled struct that reaches the wire is assigned *)
Lemma wsrh_spec opcode kl el tbl opaque fl out pend oh ob t :
  bin_writeSuccessResponseHeader_src opcode kl el tbl opaque fl (mkW out pend WRunning oh ob t) =
  (None, mkW (out ++ bin_hdr opcode kl el statusSuccess tbl opaque) (negb fl) WRunning oh ob (t + 1 + 1)).
Proof.
  unfold bin_writeSuccessResponseHeader_src. wsimp. rewrite wrh_spec. wsimp.
  replace (hdr_bytes _) with (bin_hdr opcode kl el statusSuccess tbl opaque).
  - destruct fl; reflexivity.
  - unfold hdr_bytes, bin_hdr, fget, fset. cbn [String.eqb Ascii.eqb Bool.eqb].
    rewrite conv16_mod, conv8_mod, conv32_mod, u16be_mod. reflexivity.
Qed.

Lemma werh_spec opcode status opaque out pend oh ob t :
  bin_writeErrorResponseHeader_src opcode status opaque (mkW out pend WRunning oh ob t) =
  (None, mkW (out ++ bin_hdr opcode 0 0 status 0 opaque) false WRunning oh ob (t + 1 + 1)).
Proof.
  unfold bin_writeErrorResponseHeader_src. wsimp. rewrite wrh_spec. wsimp.
  replace (hdr_bytes _) with (bin_hdr opcode 0 0 status 0 opaque); [reflexivity|].
  unfold hdr_bytes, bin_hdr, fget, fset. cbn [String.eqb Ascii.eqb Bool.eqb]. reflexivity.
Qed.

Lemma bin_hdr_add64 op k e st a b o : bin_hdr op k e st (add64 a b) o = bin_hdr op k e st (a + b) o.
Proof. unfold bin_hdr. rewrite add64_mod32. reflexivity. Qed.

Lemma bin_error_spec o rt e q out pend oh ob t :
  bin_Error_src o rt (Some e) q (mkW out pend WRunning oh ob t) =
  (None, mkW (out ++ bin_error o rt e q) false WRunning oh ob (t + 1 + 1)).
Proof. unfold bin_Error_src. rewrite werh_spec. reflexivity. Qed.

(* buf := make([]byte, 4); binary.BigEndian.PutUint32(buf, v) *)
Lemma buf_put4_fresh v out pend oh ob t :
  buf_put 4 (zeros 4) 0 (len (zeros 4)) v (mkW out pend WRunning oh ob t) = (u32be v, mkW out pend WRunning oh ob t).
Proof. reflexivity. Qed.

Lemma bin_getCommon_spec g op out pend oh ob t :
  bin_getCommon_src g op (mkW out pend WRunning oh ob t) =
  (None, mkW (out ++ bin_get_common g op) false WRunning oh ob (t + 1 + 1)).
Proof.
  unfold bin_getCommon_src, bin_get_common. wsimp. rewrite wsrh_spec. wsimp.
  rewrite bin_hdr_add64. rewrite buf_put4_fresh. wsimp. rewrite <- !app_assoc.
  try (match goal with |- context [bin_hdr op 0 4 statusSuccess ?x (g_opaque g)] =>
         progress replace x with (len (g_data g) + 4) by lia end).
  reflexivity.
Qed.

Lemma bin_GetE_hit_spec g out pend oh ob t :
  g_miss g = false ->
  bin_GetE_src g (mkW out pend WRunning oh ob t) =
  (None, mkW (out ++ bin_hdr opGetE 0 8 statusSuccess (len (g_data g) + 8) (g_opaque g) ++
              u32be (g_flags g) ++ u32be (g_exp g) ++ g_data g) false WRunning oh ob (t + 1 + 1)).
Proof.
  intros M. unfold bin_GetE_src. rewrite M. wsimp. rewrite wsrh_spec. wsimp. rewrite bin_hdr_add64.
  rewrite <- !app_assoc.
  try (match goal with |- context [bin_hdr opGetE 0 8 statusSuccess ?x (g_opaque g)] =>
         progress replace x with (len (g_data g) + 8) by lia end).
  reflexivity.
Qed.

(* state after a Responder call: the rendered bytes appended; flushed if anything was written *)
Definition after (s : wst) (b : bytes) (st : wstatus) (t' : N) : wst :=
  mkW (w_out s ++ b) (if is_nil b then w_pend s else false) st (w_oh s) (w_ob s) t'.

Lemma bin_hdr_cons op k e st tot o : exists x r, bin_hdr op k e st tot o = x :: r.
Proof. unfold bin_hdr. eexists. eexists. reflexivity. Qed.

Lemma after_hdr out pend oh ob t op k e st tot o r t' :
  mkW (out ++ bin_hdr op k e st tot o ++ r) false WRunning oh ob t' =
  after (mkW out pend WRunning oh ob t) (bin_hdr op k e st tot o ++ r) WRunning t'.
Proof. unfold after. cbn [w_out w_pend w_oh w_ob]. reflexivity. Qed.

Lemma after_nil out pend oh ob t :
  mkW out pend WRunning oh ob t = after (mkW out pend WRunning oh ob t) [] WRunning t.
Proof. unfold after. cbn [w_out w_pend w_oh w_ob is_nil]. rewrite app_nil_r. reflexivity. Qed.

Lemma bin_call_spec c out pend oh ob t :
  exists r t', bin_call_src c (mkW out pend WRunning oh ob t) =
               (r, after (mkW out pend WRunning oh ob t) (render_bin c) WRunning t').
Proof.
  assert (H0 : forall op k e st tot o t',
             mkW (out ++ bin_hdr op k e st tot o) false WRunning oh ob t' =
             after (mkW out pend WRunning oh ob t) (bin_hdr op k e st tot o) WRunning t').
  { intros. rewrite <- (app_nil_r (bin_hdr op k e st tot o)). apply after_hdr. }
  destruct c as [rt o q|g|g|g|o ne|o|o|o|o q|o|o|o rt e q]; cbn [bin_call_src render_bin].
  - (* Set / Add / Replace / Append / Prepend *)
    unfold stored_opcode.
    destruct (rt =? RtSet); [|destruct (rt =? RtAdd); [|destruct (rt =? RtReplace); [|destruct (rt =? RtAppend)]]];
      unfold bin_Set_src, bin_Add_src, bin_Replace_src, bin_Append_src, bin_Prepend_src;
      destruct q; cbn [negb]; try rewrite wsrh_spec; cbn [negb]; eexists; eexists;
      solve [rewrite H0; reflexivity | unfold ret; rewrite after_nil at 1; reflexivity].
  - (* Get *)
    unfold bin_Get_src. destruct (g_miss g); [destruct (g_quiet g); cbn [negb]|].
    + eexists; eexists. unfold ret. rewrite after_nil at 1. reflexivity.
    + rewrite bin_error_spec. unfold bin_error. rewrite H0. eexists; eexists; reflexivity.
    + rewrite bin_getCommon_spec. unfold bin_get_common. rewrite after_hdr with (pend := pend) (t := t).
      eexists; eexists; reflexivity.
  - (* GetE *)
    destruct (g_miss g) eqn:M; [unfold bin_GetE_src; rewrite M; destruct (g_quiet g); cbn [negb]|].
    + eexists; eexists. unfold ret. rewrite after_nil at 1. reflexivity.
    + rewrite bin_error_spec. unfold bin_error. rewrite H0. eexists; eexists; reflexivity.
    + rewrite bin_GetE_hit_spec by exact M. rewrite after_hdr with (pend := pend) (t := t).
      eexists; eexists; reflexivity.
  - (* GAT *)
    unfold bin_GAT_src. destruct (g_miss g); [destruct (g_quiet g); cbn [negb]|].
    + eexists; eexists. unfold ret. rewrite after_nil at 1. reflexivity.
    + rewrite bin_error_spec. unfold bin_error. rewrite H0. eexists; eexists; reflexivity.
    + rewrite bin_getCommon_spec. unfold bin_get_common. rewrite after_hdr with (pend := pend) (t := t).
      eexists; eexists; reflexivity.
  - (* GetEnd *)
    unfold bin_GetEnd_src. destruct ne.
    + rewrite wsrh_spec. cbn [negb]. rewrite H0. eexists; eexists; reflexivity.
    + eexists; eexists. unfold ret. rewrite after_nil at 1. reflexivity.
  - unfold bin_Delete_src. rewrite wsrh_spec. cbn [negb]. rewrite H0. eexists; eexists; reflexivity.
  - unfold bin_Touch_src. rewrite wsrh_spec. cbn [negb]. rewrite H0. eexists; eexists; reflexivity.
  - unfold bin_Noop_src. rewrite wsrh_spec. cbn [negb]. rewrite H0. eexists; eexists; reflexivity.
  - (* Quit *)
    unfold bin_Quit_src. destruct q; cbn [negb].
    + eexists; eexists. unfold ret. rewrite after_nil at 1. reflexivity.
    + rewrite wsrh_spec. cbn [negb]. rewrite H0. eexists; eexists; reflexivity.
  - (* Version *)
    unfold bin_Version_src. wsimp. rewrite wsrh_spec. wsimp. rewrite <- app_assoc.
    rewrite after_hdr with (pend := pend) (t := t). eexists; eexists; reflexivity.
  - (* Stat *)
    unfold bin_Stat_src. wsimp. rewrite wsrh_spec. wsimp. rewrite wsrh_spec. wsimp.
    rewrite bin_hdr_add64.
    replace ((out ++ bin_hdr opStat 7 0 statusSuccess (7 + len versionNum) o) ++ asc "version" ++ versionNum)
      with (out ++ bin_hdr opStat 7 0 statusSuccess (7 + len versionNum) o ++ (asc "version" ++ versionNum))
      by (rewrite <- !app_assoc; reflexivity).
    rewrite <- app_assoc. rewrite <- app_assoc.
    rewrite after_hdr with (pend := pend) (t := t). eexists; eexists.
    rewrite <- !app_assoc. reflexivity.
  - (* Error *)
    rewrite bin_error_spec. unfold bin_error. rewrite H0. eexists; eexists; reflexivity.
Qed.

Lemma render_bin_src_eq oh ob c : render_bin_src oh ob c = WBytes (render_bin c).
Proof.
  unfold render_bin_src, w_run, w_init. destruct (bin_call_spec c [] false oh ob 0) as (r & t' & E).
  rewrite E. reflexivity.
Qed.

Lemma flushed_bin_src_true oh ob c : flushed_bin_src oh ob c = true.
Proof.
  unfold flushed_bin_src, w_run_flushed, w_init. destruct (bin_call_spec c [] false oh ob 0) as (r & t' & E).
  rewrite E. unfold after. cbn [snd w_pend]. destruct (is_nil (render_bin c)); reflexivity.
Qed.

(* ---------------- text ---------------- *)
Definition no_pct (l : bytes) : bool := forallb (fun c => negb (c =? 37)) l.

(* a format string without '%' and without operands prints itself *)
Lemma go_fmt_plain l : no_pct l = true -> go_fmt l [] = Some l.
Proof.
  induction l as [|c r IH]; [reflexivity|]. unfold no_pct. cbn [forallb]. intros H.
  apply andb_true_iff in H. destruct H as [H1 H2]. cbn [go_fmt].
  destruct (c =? 37); [discriminate|]. rewrite (IH H2). reflexivity.
Qed.

Lemma no_pct_app a b : no_pct (a ++ b) = no_pct a && no_pct b.
Proof. unfold no_pct. apply forallb_app. Qed.

(* TextResponder.resp uses its argument as the FORMAT: it prints the line as it is because no reply
   line of rend contains '%' *)
Lemma text_resp_spec s out pend oh ob t :
  no_pct s = true ->
  text_resp_src s (mkW out pend WRunning oh ob t) =
  (None, mkW (out ++ s ++ crlf) false WRunning oh ob t).
Proof.
  intros H. unfold text_resp_src, w_fprintf. rewrite go_fmt_plain.
  - wsimp. reflexivity.
  - rewrite no_pct_app, H. reflexivity.
Qed.

(* no error text of the compiled table contains '%' *)
Lemma errText_no_pct : forallb (fun p : N * list N => no_pct (snd p)) errText_tab = true.
Proof. vm_compute. reflexivity. Qed.

Lemma err_text_no_pct e : no_pct (err_text e) = true.
Proof.
  unfold err_text. pose proof errText_no_pct as H. induction errText_tab as [|[a b] r IH]; [reflexivity|].
  cbn [forallb snd] in H. apply andb_true_iff in H. destruct H as [H1 H2].
  cbn [assocN]. destruct (a =? e); [exact H1 | exact (IH H2)].
Qed.

Definition text_panics (c : rcall) : bool := match c with PGat _ | PGetE _ => true | _ => false end.

Lemma after_line out pend oh ob t x r :
  mkW (out ++ (x :: r) ++ crlf) false WRunning oh ob t =
  after (mkW out pend WRunning oh ob t) ((x :: r) ++ crlf) WRunning t.
Proof. reflexivity. Qed.

Lemma fmt_value k f n :
  go_fmt [86; 65; 76; 85; 69; 32; 37; 115; 32; 37; 100; 32; 37; 100; 13; 10] [FBytes k; FNum f; FNum n] =
  Some (asc "VALUE " ++ k ++ [32] ++ dec f ++ [32] ++ dec n ++ crlf).
Proof. reflexivity. Qed.

Lemma text_call_spec c out pend oh ob t :
  exists r, text_call_src c (mkW out pend WRunning oh ob t) =
            (r, if text_panics c then mkW out pend WPanicked oh ob t
                else after (mkW out pend WRunning oh ob t) (render_text c) WRunning t).
Proof.
  assert (L : forall x r, no_pct (x :: r) = true ->
              text_resp_src (x :: r) (mkW out pend WRunning oh ob t) =
              (None, after (mkW out pend WRunning oh ob t) ((x :: r) ++ crlf) WRunning t)).
  { intros x r H. rewrite text_resp_spec by exact H. reflexivity. }
  destruct c as [rt o q|g|g|g|o ne|o|o|o|o q|o|o|o rt e q]; cbn [text_call_src render_text text_panics].
  - destruct (rt =? RtSet); [|destruct (rt =? RtAdd); [|destruct (rt =? RtReplace); [|destruct (rt =? RtAppend)]]];
      unfold text_Set_src, text_Add_src, text_Replace_src, text_Append_src, text_Prepend_src;
      eexists; rewrite text_resp_spec; reflexivity.
  - (* Get *)
    unfold text_Get_src. destruct (g_miss g).
    + eexists. unfold ret. rewrite after_nil at 1. reflexivity.
    + unfold w_fprintf. rewrite fmt_value. wsimp. eexists. unfold after. cbn [w_out w_pend w_oh w_ob].
      f_equal. f_equal.
      * rewrite <- !app_assoc. reflexivity.
  - eexists. reflexivity.
  - eexists. reflexivity.
  - unfold text_GetEnd_src. eexists. rewrite text_resp_spec by reflexivity. reflexivity.
  - unfold text_Delete_src. eexists. rewrite text_resp_spec by reflexivity. reflexivity.
  - unfold text_Touch_src. eexists. rewrite text_resp_spec by reflexivity. reflexivity.
  - unfold text_Noop_src. eexists. rewrite text_resp_spec by reflexivity. reflexivity.
  - unfold text_Quit_src. destruct q; cbn [negb].
    + eexists. unfold ret. rewrite after_nil at 1. reflexivity.
    + eexists. rewrite text_resp_spec by reflexivity. reflexivity.
  - unfold text_Version_src. eexists. rewrite text_resp_spec by reflexivity. reflexivity.
  - unfold text_Stat_src. eexists. rewrite text_resp_spec by reflexivity. reflexivity.
  - (* Error: case analysis on the error value, independent of how the switch is written *)
    exists None.
    destruct (N.eqb_spec e EKeyNotFound) as [->|n1]; [reflexivity|].
    destruct (N.eqb_spec e EKeyExists) as [->|n2]; [reflexivity|].
    destruct (N.eqb_spec e EItemNotStored) as [->|n3]; [reflexivity|].
    destruct (N.eqb_spec e EValueTooBig) as [->|n4]; [reflexivity|].
    destruct (N.eqb_spec e EInvalidArgs) as [->|n5]; [reflexivity|].
    destruct (N.eqb_spec e EBadIncDecValue) as [->|n6]; [reflexivity|].
    destruct (N.eqb_spec e EAuth) as [->|n7]; [reflexivity|].
    apply N.eqb_neq in n1, n2, n3, n4, n5, n6, n7.
    unfold text_Error_src, text_error, err_is, w_err_Error. rewrite ?n1, ?n2, ?n3, ?n4, ?n5, ?n6, ?n7.
    cbn [orb bind ret].
    assert (D : text_resp_src (err_text e) (mkW out pend WRunning oh ob t) =
                (None, after (mkW out pend WRunning oh ob t) (err_text e ++ crlf) WRunning t)).
    { rewrite text_resp_spec by apply err_text_no_pct. unfold after. cbn [w_out w_pend w_oh w_ob].
      destruct (err_text e); reflexivity. }
    repeat match goal with |- context [e =? ?X] => destruct (e =? X) end; exact D.
Qed.

Lemma render_text_src_eq oh ob c :
  render_text_src oh ob c = if text_panics c then WPanic else WBytes (render_text c).
Proof.
  unfold render_text_src, w_run, w_init. destruct (text_call_spec c [] false oh ob 0) as (r & E).
  rewrite E. destruct (text_panics c); reflexivity.
Qed.

Lemma flushed_text_src_true oh ob c : flushed_text_src oh ob c = true.
Proof.
  unfold flushed_text_src, w_run_flushed, w_init. destruct (text_call_spec c [] false oh ob 0) as (r & E).
  rewrite E. destruct (text_panics c); [reflexivity|].
  unfold after. cbn [snd w_pend]. destruct (is_nil (render_text c)); reflexivity.
Qed.

Lemma flush_discipline_src oh ob c : flushed_bin_src oh ob c = true /\ flushed_text_src oh ob c = true.
Proof. split; [apply flushed_bin_src_true | apply flushed_text_src_true]. Qed.

(* a sequence of Responder calls on one connection: the bytes are the concatenation (render_all) *)
Fixpoint bin_calls_src (cs : list rcall) : W unit :=
  match cs with [] => ret tt | c :: r => bind (bin_call_src c) (fun _ => bin_calls_src r) end.

Lemma bin_calls_spec cs : forall out pend oh ob t,
  exists t' pend', bin_calls_src cs (mkW out pend WRunning oh ob t) =
                   (tt, mkW (out ++ render_all Bin cs) pend' WRunning oh ob t').
Proof.
  induction cs as [|c r IH]; intros.
  - exists t, pend. unfold render_all. cbn [bin_calls_src ret map concat]. rewrite app_nil_r. reflexivity.
  - cbn [bin_calls_src]. unfold bind. destruct (bin_call_spec c out pend oh ob t) as (x & t1 & E). rewrite E.
    unfold after. cbn [w_out w_pend w_oh w_ob].
    destruct (IH (out ++ render_bin c) (if is_nil (render_bin c) then pend else false) oh ob t1) as (t' & p' & E2).
    rewrite E2. exists t', p'. unfold render_all. cbn [map concat render]. rewrite app_assoc. reflexivity.
Qed.
