(* LoopLink.v — the shape of DefaultServer.Loop and abort extracted from /repo's source by
   `looptrans` (gen/Loop_gen.v) is the shape the hand-written models assume (proto/LoopShape.v
   loop_model). When one of the loop's decisions changes in the source — which errors let the loop
   continue, what a case of the switch calls, what happens after an orchestrator error, whether
   every way through the recover handler reaches abort, whether abort closes everything —
   Loop_gen.v changes with it and loop_src_link stops compiling.

   The rest transports the lemmas of proto/LoopShapeProofs.v from loop_model to loop_src: the
   models of the loop ARE the loop driven by the extracted shape. *)
From Coq Require Import String.
From Rend Require Import base.Bytes gen.Consts_gen spec.MapSpec orca.Types handlers.Std orca.Orcas orca.Faults
  proto.Resp proto.ReqCommon proto.Stream proto.BinReq proto.TextReq proto.LoopShape proto.LoopShapeProofs
  gen.Loop_gen gen.Orcas_gen gen.OrcasLink.
From Rend Require server.Listen.
Open Scope N_scope.

Lemma loop_src_link : loop_src = loop_model.
Proof. reflexivity. Qed.

(* ---- the models are the loop driven by the extracted shape ---- *)
Lemma src_serve1 : forall h1 h2 orca r l1 l2 now,
  sh_serve1 loop_src h1 h2 orca r l1 l2 now = Some (serve1 h1 h2 orca r l1 l2 now).
Proof. rewrite loop_src_link. exact model_serve1. Qed.

Lemma src_serve1_f : forall pl orca r st now,
  sh_serve1_f loop_src pl orca r st now = Some (serve1_f pl orca r st now).
Proof. rewrite loop_src_link. exact model_serve1_f. Qed.

Lemma src_serve_stream_text : forall orca fuel s l1 l2 now,
  sh_serve_stream loop_src Text parse_text orca fuel s l1 l2 now = Some (serve_stream Text parse_text orca fuel s l1 l2 now).
Proof. rewrite loop_src_link. intros orca. exact (model_serve_stream Text parse_text orca text_client_errs). Qed.

Lemma src_serve_stream_bin : forall orca fuel s l1 l2 now,
  sh_serve_stream loop_src Bin parse_bin orca fuel s l1 l2 now = Some (serve_stream Bin parse_bin orca fuel s l1 l2 now).
Proof. rewrite loop_src_link. intros orca. exact (model_serve_stream Bin parse_bin orca bin_client_errs). Qed.

Lemma src_serve_stream : forall p parse orca, client_errs_only loop_src parse ->
  forall fuel s l1 l2 now,
    sh_serve_stream loop_src p parse orca fuel s l1 l2 now = Some (serve_stream p parse orca fuel s l1 l2 now).
Proof. rewrite loop_src_link. exact model_serve_stream. Qed.

Lemma src_serve_loop : forall p, client_errs_only loop_src p ->
  forall fuel s, sh_serve_loop loop_src p fuel s = Some (serve_loop p fuel s).
Proof. rewrite loop_src_link. exact model_serve_loop. Qed.

Lemma src_client_errs : client_errs_only loop_src parse_text /\ client_errs_only loop_src parse_bin.
Proof. rewrite loop_src_link. exact (conj text_client_errs bin_client_errs). Qed.

(* ---- the single decisions ---- *)
Lemma src_parse_error : forall e,
  sh_on_parse_error loop_src e =
  if existsb (N.eqb e) [EBadRequest; EBadLength; EBadFlags; EBadExptime]
  then Some ([PError 0 RtUnknown e false], Open) else Some ([], Closed).
Proof. rewrite loop_src_link. exact model_parse_error. Qed.

Lemma src_continues_iff : forall e,
  (exists cs, sh_on_parse_error loop_src e = Some (cs, Open)) <->
  In e [EBadRequest; EBadLength; EBadFlags; EBadExptime].
Proof. rewrite loop_src_link. exact model_continues_iff. Qed.

Lemma src_parse_other : sh_on_parse_other loop_src = Some Closed.
Proof. rewrite loop_src_link. exact model_parse_other. Qed.

Lemma src_after : forall r e,
  sh_after loop_src r e =
  Some (match r with
        | RQuit _ _ => ([], Closed)
        | _ => match e with
               | None => ([], Open)
               | Some err => if is_app_error err
                             then ([PError (req_opaque r) (rtype r) err (req_quiet r)], Open)
                             else ([], Closed)
               end
        end).
Proof. rewrite loop_src_link. exact model_after. Qed.

Lemma src_on_panic : sh_on_panic loop_src = Some Closed.
Proof. rewrite loop_src_link. exact model_on_panic. Qed.

Lemma src_panic_closes : forall pl orca r st now,
  snd (run_f pl (orca r) st now) = FPanicked ->
  sh_on_panic loop_src = Some (snd (serve1_f pl orca r st now)).
Proof. intros. rewrite (serve1_f_panic_closes _ _ _ _ _ H). exact src_on_panic. Qed.

Lemma src_abort_closes_all : forall closers opened,
  exists rest, sh_abort_open loop_src closers opened = Some rest /\
    (forall h, In h closers -> ~ In h rest) /\
    (forall h, In h rest <-> In h opened /\ ~ In h closers).
Proof.
  rewrite loop_src_link. intros closers opened. eexists. split; [apply model_abort_open|].
  apply (model_abort_closes_all closers opened). apply model_abort_open.
Qed.

Lemma src_abort_listen : forall s c r hs,
  sh_abort_open loop_src [fst hs; snd hs] (Listen.open s) = Some (Listen.open (fst (Listen.abort s c r hs))) /\
  Listen.lookup c (Listen.conns (fst (Listen.abort s c r hs))) =
    Some (Listen.mkConn Listen.Closed (Listen.c_made r) (Listen.c_srv r)) /\
  ~ In (fst hs) (Listen.open (fst (Listen.abort s c r hs))) /\
  ~ In (snd hs) (Listen.open (fst (Listen.abort s c r hs))).
Proof.
  rewrite loop_src_link. intros s c r hs.
  destruct (model_abort_listen s c r hs) as [A B]. destruct (listen_abort_closes_both s c r hs) as [C D].
  repeat split; assumption.
Qed.

(* ---- the dispatch of the source over the methods `orctrans` translated IS the dispatcher that
   gen/OrcasLink.v wrote by hand (l1only_src, l1l2_src, l1l2batch_src) ---- *)
Definition l1only_ms : methods :=
  mkMethods l1only_Set_src l1only_Add_src l1only_Replace_src l1only_Append_src l1only_Prepend_src
            l1only_Delete_src l1only_Touch_src l1only_Gat_src l1only.
Definition l1l2_ms : methods :=
  mkMethods l1l2_Set_src l1l2_Add_src l1l2_Replace_src l1l2_Append_src l1l2_Prepend_src
            l1l2_Delete_src l1l2_Touch_src l1l2_Gat_src l1l2.
Definition l1l2batch_ms : methods :=
  mkMethods l1l2batch_Set_src l1l2batch_Add_src l1l2batch_Replace_src l1l2batch_Append_src l1l2batch_Prepend_src
            l1l2batch_Delete_src l1l2batch_Touch_src l1l2batch_Gat_src l1l2batch.

Lemma src_dispatch : forall r,
  sh_dispatch loop_src l1only_ms r = Some (l1only_src r) /\
  sh_dispatch loop_src l1l2_ms r = Some (l1l2_src r) /\
  sh_dispatch loop_src l1l2batch_ms r = Some (l1l2batch_src r).
Proof.
  rewrite loop_src_link. intros r.
  destruct r as [[| |] k d f t o q | [|] k d o q | k o | k t o | k t o | i n x | i n x | o | o q | o | o |];
    repeat split; reflexivity.
Qed.
