(* OrcasLink.v — the orchestrator methods translated from /repo's source by `orctrans`
   (gen/Orcas_gen.v) are equivalent to the hand-written model of orca/Orcas.v that the theorems of
   C01/C02/C10/... are stated about. When the source of a method changes, Orcas_gen.v changes with
   it and the method's lemma here stops compiling (or still compiles: then the rewrite does not
   change which handler and responder calls the method makes, in which order, with which
   arguments, or what it returns).

   Every lemma is proved in the strong form first (<orca>_<Method>_link_all: agreement on EVERY
   handler result, also the ill-typed ones — the generated code reads a result of the wrong shape
   as an I/O error, and so, it turns out, does the hand model everywhere); the form relative to
   well-typed results (<orca>_<Method>_link, ProgEq.peq) follows. One tactic proves all 24. *)
From Rend Require Import base.Bytes gen.Consts_gen spec.MapSpec orca.Types handlers.Std orca.Orcas orca.Faults
  orca.OrcaSem orca.ProgEq gen.Orcas_gen.
Open Scope N_scope.

(* peel equal heads; case-split a handler result (a variable) wherever a match looks at one, and
   otherwise whatever else is still being matched on (e =? EKeyNotFound, g_miss g) *)
Ltac link_step :=
  match goal with
  | |- peq_on _ (Ret _) (Ret _) => apply PeRet
  | |- peq_on _ (Emit _ _) (Emit _ _) => apply PeEmit
  | |- peq_on _ (Call _ _ _) (Call _ _ _) => apply PeCall; intros ? _
  | |- context [match ?x with _ => _ end] => is_var x; destruct x; cbn
  | |- context [match ?x with _ => _ end] => destruct x eqn:?; cbn
  end.
Ltac link := intros; unfold peq_all; cbv [call_err call_gat emit_err]; cbn; repeat link_step.

(* ---------------- orcas/l1only.go: L1OnlyOrca ---------------- *)
Lemma l1only_Set_link_all : forall k d f ttl o q, peq_all (l1only_Set_src k d f ttl o q) (l1only (RSet MSet k d f ttl o q)).
Proof. unfold l1only_Set_src. link. Qed.
Lemma l1only_Set_link : forall k d f ttl o q, peq (l1only_Set_src k d f ttl o q) (l1only (RSet MSet k d f ttl o q)).
Proof. intros. apply peq_all_peq, l1only_Set_link_all. Qed.
Lemma l1only_Add_link_all : forall k d f ttl o q, peq_all (l1only_Add_src k d f ttl o q) (l1only (RSet MAdd k d f ttl o q)).
Proof. unfold l1only_Add_src. link. Qed.
Lemma l1only_Add_link : forall k d f ttl o q, peq (l1only_Add_src k d f ttl o q) (l1only (RSet MAdd k d f ttl o q)).
Proof. intros. apply peq_all_peq, l1only_Add_link_all. Qed.
Lemma l1only_Replace_link_all : forall k d f ttl o q, peq_all (l1only_Replace_src k d f ttl o q) (l1only (RSet MReplace k d f ttl o q)).
Proof. unfold l1only_Replace_src. link. Qed.
Lemma l1only_Replace_link : forall k d f ttl o q, peq (l1only_Replace_src k d f ttl o q) (l1only (RSet MReplace k d f ttl o q)).
Proof. intros. apply peq_all_peq, l1only_Replace_link_all. Qed.
Lemma l1only_Append_link_all : forall k d o q, peq_all (l1only_Append_src k d o q) (l1only (RCat false k d o q)).
Proof. unfold l1only_Append_src. link. Qed.
Lemma l1only_Append_link : forall k d o q, peq (l1only_Append_src k d o q) (l1only (RCat false k d o q)).
Proof. intros. apply peq_all_peq, l1only_Append_link_all. Qed.
Lemma l1only_Prepend_link_all : forall k d o q, peq_all (l1only_Prepend_src k d o q) (l1only (RCat true k d o q)).
Proof. unfold l1only_Prepend_src. link. Qed.
Lemma l1only_Prepend_link : forall k d o q, peq (l1only_Prepend_src k d o q) (l1only (RCat true k d o q)).
Proof. intros. apply peq_all_peq, l1only_Prepend_link_all. Qed.
Lemma l1only_Delete_link_all : forall k o, peq_all (l1only_Delete_src k o) (l1only (RDelete k o)).
Proof. unfold l1only_Delete_src. link. Qed.
Lemma l1only_Delete_link : forall k o, peq (l1only_Delete_src k o) (l1only (RDelete k o)).
Proof. intros. apply peq_all_peq, l1only_Delete_link_all. Qed.
Lemma l1only_Touch_link_all : forall k ttl o, peq_all (l1only_Touch_src k ttl o) (l1only (RTouch k ttl o)).
Proof. unfold l1only_Touch_src. link. Qed.
Lemma l1only_Touch_link : forall k ttl o, peq (l1only_Touch_src k ttl o) (l1only (RTouch k ttl o)).
Proof. intros. apply peq_all_peq, l1only_Touch_link_all. Qed.
Lemma l1only_Gat_link_all : forall k ttl o, peq_all (l1only_Gat_src k ttl o) (l1only (RGat k ttl o)).
Proof. unfold l1only_Gat_src. link. Qed.
Lemma l1only_Gat_link : forall k ttl o, peq (l1only_Gat_src k ttl o) (l1only (RGat k ttl o)).
Proof. intros. apply peq_all_peq, l1only_Gat_link_all. Qed.

(* ---------------- orcas/l1l2.go: L1L2Orca ---------------- *)
Lemma l1l2_Set_link_all : forall k d f ttl o q, peq_all (l1l2_Set_src k d f ttl o q) (l1l2 (RSet MSet k d f ttl o q)).
Proof. unfold l1l2_Set_src. link. Qed.
Lemma l1l2_Set_link : forall k d f ttl o q, peq (l1l2_Set_src k d f ttl o q) (l1l2 (RSet MSet k d f ttl o q)).
Proof. intros. apply peq_all_peq, l1l2_Set_link_all. Qed.
Lemma l1l2_Add_link_all : forall k d f ttl o q, peq_all (l1l2_Add_src k d f ttl o q) (l1l2 (RSet MAdd k d f ttl o q)).
Proof. unfold l1l2_Add_src. link. Qed.
Lemma l1l2_Add_link : forall k d f ttl o q, peq (l1l2_Add_src k d f ttl o q) (l1l2 (RSet MAdd k d f ttl o q)).
Proof. intros. apply peq_all_peq, l1l2_Add_link_all. Qed.
Lemma l1l2_Replace_link_all : forall k d f ttl o q, peq_all (l1l2_Replace_src k d f ttl o q) (l1l2 (RSet MReplace k d f ttl o q)).
Proof. unfold l1l2_Replace_src. link. Qed.
Lemma l1l2_Replace_link : forall k d f ttl o q, peq (l1l2_Replace_src k d f ttl o q) (l1l2 (RSet MReplace k d f ttl o q)).
Proof. intros. apply peq_all_peq, l1l2_Replace_link_all. Qed.
Lemma l1l2_Append_link_all : forall k d o q, peq_all (l1l2_Append_src k d o q) (l1l2 (RCat false k d o q)).
Proof. unfold l1l2_Append_src. link. Qed.
Lemma l1l2_Append_link : forall k d o q, peq (l1l2_Append_src k d o q) (l1l2 (RCat false k d o q)).
Proof. intros. apply peq_all_peq, l1l2_Append_link_all. Qed.
Lemma l1l2_Prepend_link_all : forall k d o q, peq_all (l1l2_Prepend_src k d o q) (l1l2 (RCat true k d o q)).
Proof. unfold l1l2_Prepend_src. link. Qed.
Lemma l1l2_Prepend_link : forall k d o q, peq (l1l2_Prepend_src k d o q) (l1l2 (RCat true k d o q)).
Proof. intros. apply peq_all_peq, l1l2_Prepend_link_all. Qed.
Lemma l1l2_Delete_link_all : forall k o, peq_all (l1l2_Delete_src k o) (l1l2 (RDelete k o)).
Proof. unfold l1l2_Delete_src. link. Qed.
Lemma l1l2_Delete_link : forall k o, peq (l1l2_Delete_src k o) (l1l2 (RDelete k o)).
Proof. intros. apply peq_all_peq, l1l2_Delete_link_all. Qed.
Lemma l1l2_Touch_link_all : forall k ttl o, peq_all (l1l2_Touch_src k ttl o) (l1l2 (RTouch k ttl o)).
Proof. unfold l1l2_Touch_src. link. Qed.
Lemma l1l2_Touch_link : forall k ttl o, peq (l1l2_Touch_src k ttl o) (l1l2 (RTouch k ttl o)).
Proof. intros. apply peq_all_peq, l1l2_Touch_link_all. Qed.
Lemma l1l2_Gat_link_all : forall k ttl o, peq_all (l1l2_Gat_src k ttl o) (l1l2 (RGat k ttl o)).
Proof. unfold l1l2_Gat_src. link. Qed.
Lemma l1l2_Gat_link : forall k ttl o, peq (l1l2_Gat_src k ttl o) (l1l2 (RGat k ttl o)).
Proof. intros. apply peq_all_peq, l1l2_Gat_link_all. Qed.

(* ---------------- orcas/l1l2batch.go: L1L2BatchOrca ---------------- *)
Lemma l1l2batch_Set_link_all : forall k d f ttl o q, peq_all (l1l2batch_Set_src k d f ttl o q) (l1l2batch (RSet MSet k d f ttl o q)).
Proof. unfold l1l2batch_Set_src. link. Qed.
Lemma l1l2batch_Set_link : forall k d f ttl o q, peq (l1l2batch_Set_src k d f ttl o q) (l1l2batch (RSet MSet k d f ttl o q)).
Proof. intros. apply peq_all_peq, l1l2batch_Set_link_all. Qed.
Lemma l1l2batch_Add_link_all : forall k d f ttl o q, peq_all (l1l2batch_Add_src k d f ttl o q) (l1l2batch (RSet MAdd k d f ttl o q)).
Proof. unfold l1l2batch_Add_src. link. Qed.
Lemma l1l2batch_Add_link : forall k d f ttl o q, peq (l1l2batch_Add_src k d f ttl o q) (l1l2batch (RSet MAdd k d f ttl o q)).
Proof. intros. apply peq_all_peq, l1l2batch_Add_link_all. Qed.
Lemma l1l2batch_Replace_link_all : forall k d f ttl o q, peq_all (l1l2batch_Replace_src k d f ttl o q) (l1l2batch (RSet MReplace k d f ttl o q)).
Proof. unfold l1l2batch_Replace_src. link. Qed.
Lemma l1l2batch_Replace_link : forall k d f ttl o q, peq (l1l2batch_Replace_src k d f ttl o q) (l1l2batch (RSet MReplace k d f ttl o q)).
Proof. intros. apply peq_all_peq, l1l2batch_Replace_link_all. Qed.
Lemma l1l2batch_Append_link_all : forall k d o q, peq_all (l1l2batch_Append_src k d o q) (l1l2batch (RCat false k d o q)).
Proof. unfold l1l2batch_Append_src. link. Qed.
Lemma l1l2batch_Append_link : forall k d o q, peq (l1l2batch_Append_src k d o q) (l1l2batch (RCat false k d o q)).
Proof. intros. apply peq_all_peq, l1l2batch_Append_link_all. Qed.
Lemma l1l2batch_Prepend_link_all : forall k d o q, peq_all (l1l2batch_Prepend_src k d o q) (l1l2batch (RCat true k d o q)).
Proof. unfold l1l2batch_Prepend_src. link. Qed.
Lemma l1l2batch_Prepend_link : forall k d o q, peq (l1l2batch_Prepend_src k d o q) (l1l2batch (RCat true k d o q)).
Proof. intros. apply peq_all_peq, l1l2batch_Prepend_link_all. Qed.
Lemma l1l2batch_Delete_link_all : forall k o, peq_all (l1l2batch_Delete_src k o) (l1l2batch (RDelete k o)).
Proof. unfold l1l2batch_Delete_src. link. Qed.
Lemma l1l2batch_Delete_link : forall k o, peq (l1l2batch_Delete_src k o) (l1l2batch (RDelete k o)).
Proof. intros. apply peq_all_peq, l1l2batch_Delete_link_all. Qed.
Lemma l1l2batch_Touch_link_all : forall k ttl o, peq_all (l1l2batch_Touch_src k ttl o) (l1l2batch (RTouch k ttl o)).
Proof. unfold l1l2batch_Touch_src. link. Qed.
Lemma l1l2batch_Touch_link : forall k ttl o, peq (l1l2batch_Touch_src k ttl o) (l1l2batch (RTouch k ttl o)).
Proof. intros. apply peq_all_peq, l1l2batch_Touch_link_all. Qed.
Lemma l1l2batch_Gat_link_all : forall k ttl o, peq_all (l1l2batch_Gat_src k ttl o) (l1l2batch (RGat k ttl o)).
Proof. unfold l1l2batch_Gat_src. link. Qed.
Lemma l1l2batch_Gat_link : forall k ttl o, peq (l1l2batch_Gat_src k ttl o) (l1l2batch (RGat k ttl o)).
Proof. intros. apply peq_all_peq, l1l2batch_Gat_link_all. Qed.

(* ---------------- the orchestrators with the translated methods plugged in ---------------- *)
(* the requests whose methods are translated: everything that writes to a backend *)
Definition src_covered (r : req) : bool :=
  match r with
  | RSet _ _ _ _ _ _ _ | RCat _ _ _ _ _ | RDelete _ _ | RTouch _ _ _ | RGat _ _ _ => true
  | _ => false
  end.

(* L1OnlyOrca: the server's dispatch (request type -> method) over the generated methods; Get, GetE and
   the requests that touch no backend stay with the hand model *)
Definition l1only_src (r : req) : prog :=
  match r with
  | RSet MSet k d f ttl o q => l1only_Set_src k d f ttl o q
  | RSet MAdd k d f ttl o q => l1only_Add_src k d f ttl o q
  | RSet MReplace k d f ttl o q => l1only_Replace_src k d f ttl o q
  | RCat false k d o q => l1only_Append_src k d o q
  | RCat true k d o q => l1only_Prepend_src k d o q
  | RDelete k o => l1only_Delete_src k o
  | RTouch k ttl o => l1only_Touch_src k ttl o
  | RGat k ttl o => l1only_Gat_src k ttl o
  | _ => l1only r
  end.

(* L1L2Orca: the server's dispatch (request type -> method) over the generated methods; Get, GetE and
   the requests that touch no backend stay with the hand model *)
Definition l1l2_src (r : req) : prog :=
  match r with
  | RSet MSet k d f ttl o q => l1l2_Set_src k d f ttl o q
  | RSet MAdd k d f ttl o q => l1l2_Add_src k d f ttl o q
  | RSet MReplace k d f ttl o q => l1l2_Replace_src k d f ttl o q
  | RCat false k d o q => l1l2_Append_src k d o q
  | RCat true k d o q => l1l2_Prepend_src k d o q
  | RDelete k o => l1l2_Delete_src k o
  | RTouch k ttl o => l1l2_Touch_src k ttl o
  | RGat k ttl o => l1l2_Gat_src k ttl o
  | _ => l1l2 r
  end.

(* L1L2BatchOrca: the server's dispatch (request type -> method) over the generated methods; Get, GetE and
   the requests that touch no backend stay with the hand model *)
Definition l1l2batch_src (r : req) : prog :=
  match r with
  | RSet MSet k d f ttl o q => l1l2batch_Set_src k d f ttl o q
  | RSet MAdd k d f ttl o q => l1l2batch_Add_src k d f ttl o q
  | RSet MReplace k d f ttl o q => l1l2batch_Replace_src k d f ttl o q
  | RCat false k d o q => l1l2batch_Append_src k d o q
  | RCat true k d o q => l1l2batch_Prepend_src k d o q
  | RDelete k o => l1l2batch_Delete_src k o
  | RTouch k ttl o => l1l2batch_Touch_src k ttl o
  | RGat k ttl o => l1l2batch_Gat_src k ttl o
  | _ => l1l2batch r
  end.

Lemma l1only_src_link_all : forall r, peq_all (l1only_src r) (l1only r).
Proof.
  intros [[| |] k d f ttl o q | [|] k d o q | k o | k ttl o | k ttl o | | | | | | |]; cbn [l1only_src];
    first [ apply l1only_Set_link_all | apply l1only_Add_link_all | apply l1only_Replace_link_all
          | apply l1only_Append_link_all | apply l1only_Prepend_link_all | apply l1only_Delete_link_all
          | apply l1only_Touch_link_all | apply l1only_Gat_link_all | apply peq_all_refl ].
Qed.
Lemma l1only_src_link : forall r, src_covered r = true -> peq (l1only_src r) (l1only r).
Proof. intros r _. apply peq_all_peq, l1only_src_link_all. Qed.

Lemma l1l2_src_link_all : forall r, peq_all (l1l2_src r) (l1l2 r).
Proof.
  intros [[| |] k d f ttl o q | [|] k d o q | k o | k ttl o | k ttl o | | | | | | |]; cbn [l1l2_src];
    first [ apply l1l2_Set_link_all | apply l1l2_Add_link_all | apply l1l2_Replace_link_all
          | apply l1l2_Append_link_all | apply l1l2_Prepend_link_all | apply l1l2_Delete_link_all
          | apply l1l2_Touch_link_all | apply l1l2_Gat_link_all | apply peq_all_refl ].
Qed.
Lemma l1l2_src_link : forall r, src_covered r = true -> peq (l1l2_src r) (l1l2 r).
Proof. intros r _. apply peq_all_peq, l1l2_src_link_all. Qed.

Lemma l1l2batch_src_link_all : forall r, peq_all (l1l2batch_src r) (l1l2batch r).
Proof.
  intros [[| |] k d f ttl o q | [|] k d o q | k o | k ttl o | k ttl o | | | | | | |]; cbn [l1l2batch_src];
    first [ apply l1l2batch_Set_link_all | apply l1l2batch_Add_link_all | apply l1l2batch_Replace_link_all
          | apply l1l2batch_Append_link_all | apply l1l2batch_Prepend_link_all | apply l1l2batch_Delete_link_all
          | apply l1l2batch_Touch_link_all | apply l1l2batch_Gat_link_all | apply peq_all_refl ].
Qed.
Lemma l1l2batch_src_link : forall r, src_covered r = true -> peq (l1l2batch_src r) (l1l2batch r).
Proof. intros r _. apply peq_all_peq, l1l2batch_src_link_all. Qed.

(* equivalent programs run identically on the direct handlers *)
Lemma orcas_src_run : forall r l1 l2 now, src_covered r = true ->
  run std_exec std_exec (l1only_src r) l1 l2 now = run std_exec std_exec (l1only r) l1 l2 now /\
  run std_exec std_exec (l1l2_src r) l1 l2 now = run std_exec std_exec (l1l2 r) l1 l2 now /\
  run std_exec std_exec (l1l2batch_src r) l1 l2 now = run std_exec std_exec (l1l2batch r) l1 l2 now.
Proof.
  intros r l1 l2 now H. repeat split; apply peq_run_std.
  - apply l1only_src_link, H.
  - apply l1l2_src_link, H.
  - apply l1l2batch_src_link, H.
Qed.

(* ... and under every fault plan of orca/Faults.v (this needs the strong form: the faulty handler
   semantics is not well-typed, see ProgEq.res_ok_f) *)
Lemma orcas_src_run_f : forall r pl st now,
  run_f pl (l1only_src r) st now = run_f pl (l1only r) st now /\
  run_f pl (l1l2_src r) st now = run_f pl (l1l2 r) st now /\
  run_f pl (l1l2batch_src r) st now = run_f pl (l1l2batch r) st now.
Proof.
  intros r pl st now. repeat split; apply peq_all_run_f.
  - apply l1only_src_link_all.
  - apply l1l2_src_link_all.
  - apply l1l2batch_src_link_all.
Qed.
