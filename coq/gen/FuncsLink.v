(* FuncsLink.v — the functions translated from /repo's source by `gotrans` (gen/Funcs_gen.v) equal
   the model functions that the theorems of C04/C09/C16/C18 are stated about. When the source of
   one of these functions changes, Funcs_gen.v changes with it and the lemma here stops compiling
   (or still compiles: then the rewrite was harmless for every input in the stated range). *)
From Coq Require Import ZArith Lia.
From Rend Require Import base.Bytes gen.Consts_gen gen.Tables_gen gen.GoSem gen.Funcs_gen
  metrics.Lzcnt metrics.Bucket handlers.ChunkFmt handlers.Chunked.
Open Scope N_scope.

(* metrics/lzcnt.go (build tag !amd64) = Lzcnt.lzcnt_portable, for every x (no range needed) *)
Lemma lzcnt_src_eq : forall x, lzcnt_src x = lzcnt_portable x.
Proof.
  intro x. unfold lzcnt_src, lzcnt_portable, lzcnt_portable_body, lz_step.
  destruct (x =? 0); [reflexivity|].
  repeat match goal with |- context [if ?c then _ else _] => destruct c end; reflexivity.
Qed.

From Rend Require Import gen.GoSemLemmas metrics.LzcntProofs.

(* handlers/memcached/chunked/handler.go chunkSize = (ChunkFmt.chunk_data, ChunkFmt.chunk_full),
   for every key length for which a chunk has room for its token (memcached keys: <= 250) *)
Lemma chunkSize_src_eq : forall klen,
  klen + tokenSize <= chunkMaxSize - chunkOverhead ->
  chunkSize_src klen = (chunk_data klen, chunk_full klen).
Proof.
  intros klen H. unfold chunkSize_src, chunk_data, chunk_full.
  rewrite chunkMaxSize_val, chunkOverhead_val, tokenSize_val in *.
  rewrite sub64_small by (unfold two64; lia).
  rewrite conv32_small by (unfold two32; lia).
  rewrite sub32_small by (unfold two32; lia).
  reflexivity.
Qed.

(* chunked exptime(ttl) with the clock reading [now] = Chunked.c_exptime, for 32-bit values whose
   sum does not wrap (a uint32 unix time: until 2106) *)
Lemma exptime_src_eq : forall now ttl,
  now < two32 -> ttl < two32 -> now + ttl < two32 ->
  exptime_src now ttl = c_exptime now ttl.
Proof.
  intros now ttl Hn Ht Hs. unfold exptime_src, c_exptime.
  rewrite conv32_small by exact Hn. rewrite add32_small by exact Hs. reflexivity.
Qed.

(* the wrap is real: without the third hypothesis the code's deadline wraps around *)
Example exptime_src_wraps : exptime_src 4294967295 10 = (9, false).
Proof. vm_compute. reflexivity. Qed.

(* chunked/keys.go chunkSliceIndices = (ChunkFmt.slice_start, ChunkFmt.slice_end) for sizes below
   2^62 (the translator's rule for int(math.Min(float64 a, float64 b)) is the signed minimum) *)
Lemma chunkSliceIndices_src_eq : forall cs i total,
  cs * i + cs < 2 ^ 62 -> total < 2 ^ 62 ->
  chunkSliceIndices_src cs i total = (slice_start cs i, slice_end cs i total).
Proof.
  intros cs i total H1 H2. unfold chunkSliceIndices_src, slice_start, slice_end.
  assert (Hp : 2 ^ 62 < two63) by (vm_compute; reflexivity).
  assert (Hq : two63 < two64) by (vm_compute; reflexivity).
  rewrite mul64_small by lia. rewrite add64_small by lia.
  rewrite mins64_small by lia. reflexivity.
Qed.

(* ---- metrics/histograms.go getBucket ---- *)
From Rend Require Import metrics.BucketProofs.

Lemma tab_p4_small : forall i, tab powerOf4Index i < 1000.
Proof.
  intro i. unfold tab.
  assert (H : forallb (fun v => v <? 1000) powerOf4Index = true) by (vm_compute; reflexivity).
  rewrite forallb_forall in H.
  destruct (Nat.lt_ge_cases (N.to_nat i) (length powerOf4Index)) as [Hlt|Hge].
  - apply N.ltb_lt. apply H. apply nth_In. exact Hlt.
  - rewrite nth_overflow by exact Hge. lia.
Qed.

(* the translated routine, with either lzcnt, is BucketProofs.getBucket_log2 (as the model is) *)
Lemma getBucket_src_log2 lz n :
  n < two64 -> (15 < n -> lz n = 63 - N.log2 n) -> getBucket_src lz n = getBucket_log2 n.
Proof.
  intros H64 Hlz. unfold getBucket_src, getBucket_log2.
  destruct (N.leb_spec n 15) as [|Hn]; [reflexivity|].
  rewrite (Hlz Hn). destruct (log2_bounds n ltac:(lia) H64) as (Hr4 & Hr64 & Hr).
  destruct (bucket_safe n Hn H64) as (Hd & _ & Hoff & _).
  set (r := N.log2 n) in *.
  assert (Hrs : sub64 (sub64 64 (63 - r)) 1 = r).
  { rewrite (sub64_small 64) by (unfold two64; lia). rewrite sub64_small by (unfold two64; lia). lia. }
  rewrite Hrs.
  assert (Hls : (if N.land r 1 =? 1 then sub64 r 1 else r) = lsh r).
  { unfold lsh. change 1 with (N.ones 1) at 1. rewrite N.land_ones. change (2 ^ 1) with 2.
    rewrite <- N.bit0_eqb, N.bit0_odd. destruct (N.odd r) eqn:Ho; [|reflexivity].
    apply lsh_odd_pos in Ho. apply sub64_small; unfold two64; lia. }
  rewrite Hls.
  assert (Hprev : shl64 (shr64 n r) (lsh r) = prev r).
  { unfold shr64, shl64. rewrite (shiftr_log2 n r Hr). rewrite N.shiftl_1_l. apply wrap64_small.
    rewrite two64_pow. apply N.pow_lt_mono_r; [lia|]. pose proof (lsh_le r). lia. }
  rewrite Hprev.
  pose proof (prev_le r).
  rewrite (sub64_small n (prev r)) by lia.
  fold (delta r). fold (off r n). unfold bucket_of_offset.
  pose proof (tab_p4_small (lsh r / 2)) as Ht.
  destruct tables_checked as (_ & _ & H15).
  assert (Hna : numAtlasBuckets = 276) by reflexivity.
  assert (H63 : two63 = 9223372036854775808) by reflexivity.
  assert (H64' : two64 = 18446744073709551616) by reflexivity.
  rewrite add64_small by lia.
  rewrite les64_small by lia.
  destruct (N.leb_spec (numAtlasBuckets - 1) (off r n + tab powerOf4Index (lsh r / 2))); [reflexivity|].
  apply add64_small. lia.
Qed.

(* amd64 build (assembly lzcnt) and other builds (portable lzcnt): the source is the model *)
Lemma getBucket_src_eq : forall n, n < two64 -> getBucket_src lzcnt_asm n = getBucket n.
Proof.
  intros n H. rewrite getBucket_is_log2 by exact H. apply getBucket_src_log2; [exact H|].
  intros Hn. rewrite lzcnt_asm_spec by exact H.
  unfold lzcnt_spec. destruct (N.eqb_spec n 0); [lia|reflexivity].
Qed.

Lemma getBucket_src_portable_eq : forall n, n < two64 -> getBucket_src lzcnt_src n = getBucket_portable n.
Proof.
  intros n H. rewrite getBucket_portable_same by exact H. rewrite getBucket_is_log2 by exact H.
  apply getBucket_src_log2; [exact H|].
  intros Hn. rewrite lzcnt_src_eq. rewrite lzcnt_portable_spec by exact H.
  unfold lzcnt_spec. destruct (N.eqb_spec n 0); [lia|reflexivity].
Qed.

(* ---- handlers/inmem/inmem.go entry.isExpired ---- *)
From Rend Require Import handlers.Inmem.
Lemma isExpired_src_eq : forall now e, isExpired_src now (r_exp e) (r_flags e) = expired now e.
Proof.
  intros now e. unfold isExpired_src, expired, conv32, u32. rewrite wrap32_mod. reflexivity.
Qed.
