(* LoopGetLink.v — continues gen/LoopLink.v: the dispatch of DefaultServer.Loop (translated from
   source, gen/Loop_gen.v) over ALL the orchestrator methods `orctrans` translates — Get and GetE
   included — is the full dispatcher of gen/OrcasGetLink.v ([l1only_srcg], [l1l2_srcg],
   [l1l2batch_srcg]). The loop hands Get/GetE the request itself ([m_rest]); what is left to the
   hand model there is Noop/Quit/Version/Stat/Unknown. *)
From Rend Require Import base.Bytes gen.Consts_gen spec.MapSpec orca.Types handlers.Std orca.Orcas orca.Faults
  orca.OrcaSem orca.ProgEq proto.Resp proto.LoopShape
  gen.Loop_gen gen.Orcas_gen gen.OrcasLink gen.OrcasGetLink gen.LoopLink.
Open Scope N_scope.

Definition l1only_msg : methods :=
  mkMethods l1only_Set_src l1only_Add_src l1only_Replace_src l1only_Append_src l1only_Prepend_src
            l1only_Delete_src l1only_Touch_src l1only_Gat_src l1only_srcg.
Definition l1l2_msg : methods :=
  mkMethods l1l2_Set_src l1l2_Add_src l1l2_Replace_src l1l2_Append_src l1l2_Prepend_src
            l1l2_Delete_src l1l2_Touch_src l1l2_Gat_src l1l2_srcg.
Definition l1l2batch_msg : methods :=
  mkMethods l1l2batch_Set_src l1l2batch_Add_src l1l2batch_Replace_src l1l2batch_Append_src l1l2batch_Prepend_src
            l1l2batch_Delete_src l1l2batch_Touch_src l1l2batch_Gat_src l1l2batch_srcg.

Lemma src_dispatch_full : forall r,
  sh_dispatch loop_src l1only_msg r = Some (l1only_srcg r) /\
  sh_dispatch loop_src l1l2_msg r = Some (l1l2_srcg r) /\
  sh_dispatch loop_src l1l2batch_msg r = Some (l1l2batch_srcg r).
Proof.
  rewrite loop_src_link. intros r.
  destruct r as [[| |] k d f t o q | [|] k d o q | k o | k t o | k t o | i n x | i n x | o | o q | o | o |];
    repeat split; reflexivity.
Qed.
