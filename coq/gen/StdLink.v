(* StdLink.v — the functions of handlers/memcached/std and protocol/binprot translated from /repo's
   SOURCE (gen/Std_gen.v, written by `rendharness stdtrans` in the vocabulary of handlers/StdSem.v)
   are the hand-written byte-level model handlers/StdWire.v:
     - every Write*Cmd writes exactly the model's frame (w_data_cmd / w_cat_cmd / w_key_cmd / w_keyexp_cmd
       over enc_hdr), whatever the pooled header and buffer held before;
     - the translated body of binprot.ReadResponseHeader is the primitive w_read_rhdr;
     - each of the ten handler methods, run on a connection, is std_wire: same connection afterwards,
       nothing left unflushed, same result (value, error, panic).
   Statements for props/C01wiresrc.v. *)
From Coq Require Import String.
From Rend Require Import base.Bytes base.BytesProofs gen.Consts_gen spec.MapSpec orca.Types proto.Resp proto.ReqCommon
  proto.ReqCommonProofs proto.BinReq handlers.Std orca.Orcas orca.Faults handlers.StdWire handlers.StdWireLemmas
  handlers.StdWireProofs handlers.StdSem gen.Std_gen.
Open Scope N_scope.
Open Scope list_scope.

(* ------------------------------------------------------------------------------------------ *)
(* lists of a known length are explicit                                                        *)
(* ------------------------------------------------------------------------------------------ *)
Lemma len_zeros n : len (zeros n) = n.
Proof. unfold len, zeros. rewrite repeat_length. lia. Qed.

Lemma len_app' {A} (a b : list A) : len (a ++ b) = len a + len b.
Proof. unfold len. rewrite app_length. lia. Qed.

Lemma list24 (l : bytes) : length l = 24%nat ->
  exists b0 b1 b2 b3 b4 b5 b6 b7 b8 b9 b10 b11 b12 b13 b14 b15 b16 b17 b18 b19 b20 b21 b22 b23,
    l = [b0; b1; b2; b3; b4; b5; b6; b7; b8; b9; b10; b11; b12; b13; b14; b15; b16; b17; b18; b19; b20; b21; b22; b23].
Proof.
  intros H.
  do 24 (destruct l as [|? l]; [discriminate H|]).
  destruct l; [|discriminate H].
  repeat eexists.
Qed.

Lemma pool_buf_len stale : length (pool_get_bytes bufPool_new stale) = 24%nat.
Proof.
  unfold pool_get_bytes, bufPool_new, sl_make, take, len, zeros.
  rewrite repeat_length, Nat2N.id, firstn_length_le; [reflexivity|].
  rewrite app_length, repeat_length. change (N.to_nat 24) with 24%nat. lia.
Qed.

(* ------------------------------------------------------------------------------------------ *)
(* (1) the writers                                                                             *)
(* ------------------------------------------------------------------------------------------ *)
(* w.Write(b) with result nil *)
Definition wr (b : bytes) : M (option N) :=
  fun s => (mkWS (ws_conn s) (ws_wbuf s ++ b) (ws_out s) (ws_eout s), Val None).

Lemma makeRequestHeader_link E op kl el tot opq s :
  makeRequestHeader_src E op kl el tot opq s =
  (s, Val (Some (mkQH magicRequest op (to_u16 kl) (to_u8 el) 0 0 (to_u32 tot) opq 0))).
Proof. reflexivity. Qed.

Definition hdr_bytes (h : reqhdr) : bytes :=
  [qh_magic h; qh_op h] ++ u16be (qh_klen h) ++ [qh_elen h; 0; 0; 0] ++ u32be (qh_total h) ++ u32be (qh_opaque h) ++ zeros 8.

Lemma writeRequestHeader_link E h s : writeRequestHeader_src E (Some h) s = wr (hdr_bytes h) s.
Proof.
  unfold writeRequestHeader_src.
  destruct (list24 _ (pool_buf_len (ge_stale_buf E))) as
    (b0&b1&b2&b3&b4&b5&b6&b7&b8&b9&b10&b11&b12&b13&b14&b15&b16&b17&b18&b19&b20&b21&b22&b23&->).
  reflexivity.
Qed.

Lemma u16be_to_u16 x : u16be (to_u16 x) = u16be x.
Proof. unfold u16be, to_u16. f_equal; [|f_equal]; lia. Qed.
Lemma u32be_to_u32 x : u32be (to_u32 x) = u32be x.
Proof. unfold u32be, to_u32, two32. f_equal; [lia | f_equal; [lia | f_equal; [lia | f_equal; lia]]]. Qed.

Lemma hdr_bytes_enc op kl el tot opq : el < 256 ->
  hdr_bytes (mkQH magicRequest op (to_u16 kl) (to_u8 el) 0 0 (to_u32 tot) opq 0) = enc_hdr op kl el tot opq.
Proof.
  intros H. unfold hdr_bytes, enc_hdr. cbn [qh_magic qh_op qh_klen qh_elen qh_total qh_opaque].
  rewrite u16be_to_u16, u32be_to_u32. unfold to_u8. rewrite N.mod_small by exact H. reflexivity.
Qed.

(* take / drop through an explicit prefix *)
Lemma take_app_exact {A} n (a b : list A) : len a = n -> take n (a ++ b) = a.
Proof. apply take_n_app. Qed.
Lemma drop_app_exact {A} n (a b : list A) : len a = n -> drop n (a ++ b) = b.
Proof. apply drop_n_app. Qed.
Lemma drop_all {A} n (a : list A) : len a <= n -> drop n a = [].
Proof. intros H. unfold drop. apply skipn_all2. unfold len in H. lia. Qed.
Lemma take_all {A} n (a : list A) : len a <= n -> take n a = a.
Proof. intros H. unfold take. apply firstn_all2. unfold len in H. lia. Qed.
Lemma zeros_add a b : zeros (a + b) = zeros a ++ zeros b.
Proof. unfold zeros. rewrite N2Nat.inj_add. apply repeat_app. Qed.

Lemma sl_put32_ok {B} b lo hi v (k : bytes -> M B) : lo + 4 <= hi -> hi <= len b ->
  sl_put32 b lo hi v k = k (take lo b ++ u32be v ++ drop (lo + 4) b).
Proof.
  intros H1 H2. unfold sl_put32, sl_okb.
  replace (lo <=? hi) with true by (symmetry; apply N.leb_le; lia).
  replace (hi <=? len b) with true by (symmetry; apply N.leb_le; lia).
  replace (4 <=? hi - lo) with true by (symmetry; apply N.leb_le; lia).
  reflexivity.
Qed.
Lemma sl_copy_ok {B} b lo hi src (k : bytes -> M B) : lo <= hi -> hi <= len b ->
  sl_copy b lo hi src k = k (take lo b ++ take (N.min (hi - lo) (len src)) src ++ drop (lo + N.min (hi - lo) (len src)) b).
Proof.
  intros H1 H2. unfold sl_copy, sl_okb.
  replace (lo <=? hi) with true by (symmetry; apply N.leb_le; lia).
  replace (hi <=? len b) with true by (symmetry; apply N.leb_le; lia).
  replace (0 <=? hi - lo) with true by (symmetry; apply N.leb_le; lia).
  reflexivity.
Qed.

(* buf := make([]byte, len(key)+8); PutUint32(buf[0:4], flags); PutUint32(buf[4:8], exptime); copy(buf[8:], key) *)
Lemma data_buf {B} k f ttl (K : bytes -> M B) :
  sl_put32 (sl_make (len k + 8)) 0 4 f (fun b1 => sl_put32 b1 4 8 ttl (fun b2 => sl_copy b2 8 (len b2) k K)) =
  K (u32be f ++ u32be ttl ++ k).
Proof.
  unfold sl_make. rewrite N.add_comm, zeros_add. change (zeros 8) with [0;0;0;0;0;0;0;0].
  pose proof (len_zeros (len k)) as Z. set (z := zeros (len k)) in *.
  rewrite sl_put32_ok by (try rewrite len_app'; cbn [len length N.of_nat]; lia).
  unfold u32be, take, drop. change (0 + 4) with 4. change (N.to_nat 4) with 4%nat. change (N.to_nat 0) with 0%nat.
  cbn [firstn skipn app].
  rewrite sl_put32_ok by (unfold len in *; cbn [length]; lia).
  unfold take, drop. change (4 + 4) with 8. change (N.to_nat 4) with 4%nat. change (N.to_nat 8) with 8%nat.
  cbn [firstn skipn app]. unfold u32be. cbn [app].
  match goal with |- sl_copy ?b _ _ _ _ = _ => set (bb := b); assert (len bb = 8 + len k) as L
    by (subst bb; unfold len in *; cbn [length]; lia) end.
  rewrite sl_copy_ok by lia.
  replace (N.min (len bb - 8) (len k)) with (len k) by lia.
  rewrite (take_all (len k) k) by lia. rewrite (drop_all (8 + len k) bb) by lia.
  subst bb. unfold take. change (N.to_nat 8) with 8%nat. cbn [firstn app]. rewrite app_nil_r. reflexivity.
Qed.

Lemma m_write_wr b s : m_write b s = (fst (wr b s), Val (len b, None)).
Proof. reflexivity. Qed.

Lemma writeDataCmdCommon_link E op k f ttl ds opq s :
  writeDataCmdCommon_src E op k f ttl ds opq s =
  wr (enc_hdr op (len k) 8 (len k + 8 + ds) opq ++ u32be f ++ u32be ttl ++ k) s.
Proof.
  unfold writeDataCmdCommon_src, m_bind. rewrite makeRequestHeader_link, writeRequestHeader_link.
  rewrite hdr_bytes_enc by reflexivity. cbn [wr].
  rewrite data_buf. unfold m_write, wr. cbn [ws_conn ws_wbuf ws_out ws_eout]. rewrite <- app_assoc. reflexivity.
Qed.

Lemma keyexp_buf {B} k ttl (K : bytes -> M B) :
  sl_put32 (sl_make (len k + 4)) 0 4 ttl (fun b1 => sl_copy b1 4 (len b1) k K) = K (u32be ttl ++ k).
Proof.
  unfold sl_make. rewrite N.add_comm, zeros_add. change (zeros 4) with [0;0;0;0].
  pose proof (len_zeros (len k)) as Z. set (z := zeros (len k)) in *.
  rewrite sl_put32_ok by (try rewrite len_app'; cbn [len length N.of_nat]; lia).
  unfold u32be, take, drop. change (0 + 4) with 4. change (N.to_nat 4) with 4%nat. change (N.to_nat 0) with 0%nat.
  cbn [firstn skipn app].
  match goal with |- sl_copy ?b _ _ _ _ = _ => set (bb := b); assert (len bb = 4 + len k) as L
    by (subst bb; unfold len in *; cbn [length]; lia) end.
  rewrite sl_copy_ok by lia.
  replace (N.min (len bb - 4) (len k)) with (len k) by lia.
  rewrite (take_all (len k) k) by lia. rewrite (drop_all (4 + len k) bb) by lia.
  subst bb. unfold take. change (N.to_nat 4) with 4%nat. cbn [firstn app]. rewrite app_nil_r. reflexivity.
Qed.

Lemma writeKeyExptimeCmd_link E op k ttl opq s :
  writeKeyExptimeCmd_src E op k ttl opq s = wr (enc_hdr op (len k) 4 (len k + 4) opq ++ u32be ttl ++ k) s.
Proof.
  unfold writeKeyExptimeCmd_src, m_bind. rewrite makeRequestHeader_link, writeRequestHeader_link.
  rewrite hdr_bytes_enc by reflexivity. cbn [wr].
  rewrite keyexp_buf. unfold m_write, wr. cbn [ws_conn ws_wbuf ws_out ws_eout]. rewrite <- app_assoc. reflexivity.
Qed.

Lemma writeKeyCmd_link E op k opq s :
  writeKeyCmd_src E op k opq s = wr (enc_hdr op (len k) 0 (len k) opq ++ k) s.
Proof.
  unfold writeKeyCmd_src, m_bind. rewrite makeRequestHeader_link, writeRequestHeader_link.
  rewrite hdr_bytes_enc by reflexivity. cbn [wr].
  unfold m_write, wr. cbn [ws_conn ws_wbuf ws_out ws_eout]. rewrite <- app_assoc. reflexivity.
Qed.

Lemma writeAppendPrependCmdCommon_link E op k f ttl ds opq s :
  writeAppendPrependCmdCommon_src E op k f ttl ds opq s = wr (enc_hdr op (len k) 0 (len k + ds) opq ++ k) s.
Proof.
  unfold writeAppendPrependCmdCommon_src, m_bind. rewrite makeRequestHeader_link, writeRequestHeader_link.
  rewrite hdr_bytes_enc by reflexivity. cbn [wr].
  unfold m_write, wr. cbn [ws_conn ws_wbuf ws_out ws_eout]. rewrite <- app_assoc. reflexivity.
Qed.

Lemma WriteNoopCmd_link E opq s : WriteNoopCmd_src E opq s = wr (enc_hdr opNoop 0 0 0 opq) s.
Proof.
  unfold WriteNoopCmd_src, m_bind. rewrite makeRequestHeader_link, writeRequestHeader_link.
  rewrite hdr_bytes_enc by reflexivity. reflexivity.
Qed.

(* every exported Write*Cmd writes the model's frame (opaque: the argument; the std handler passes 0) and
   returns nil; the header and buffer objects the pools hand out do not show *)
Theorem write_cmds_link E k f ttl ds opq s :
  WriteSetCmd_src E k f ttl ds opq s = wr (enc_hdr opSet (len k) 8 (len k + 8 + ds) opq ++ u32be f ++ u32be ttl ++ k) s /\
  WriteAddCmd_src E k f ttl ds opq s = wr (enc_hdr opAdd (len k) 8 (len k + 8 + ds) opq ++ u32be f ++ u32be ttl ++ k) s /\
  WriteReplaceCmd_src E k f ttl ds opq s = wr (enc_hdr opReplace (len k) 8 (len k + 8 + ds) opq ++ u32be f ++ u32be ttl ++ k) s /\
  WriteAppendCmd_src E k f ttl ds opq s = wr (enc_hdr opAppend (len k) 0 (len k + ds) opq ++ k) s /\
  WritePrependCmd_src E k f ttl ds opq s = wr (enc_hdr opPrepend (len k) 0 (len k + ds) opq ++ k) s /\
  WriteGetCmd_src E k opq s = wr (enc_hdr opGet (len k) 0 (len k) opq ++ k) s /\
  WriteGetQCmd_src E k opq s = wr (enc_hdr opGetQ (len k) 0 (len k) opq ++ k) s /\
  WriteGetECmd_src E k opq s = wr (enc_hdr opGetE (len k) 0 (len k) opq ++ k) s /\
  WriteGetEQCmd_src E k opq s = wr (enc_hdr opGetEQ (len k) 0 (len k) opq ++ k) s /\
  WriteDeleteCmd_src E k opq s = wr (enc_hdr opDelete (len k) 0 (len k) opq ++ k) s /\
  WriteTouchCmd_src E k ttl opq s = wr (enc_hdr opTouch (len k) 4 (len k + 4) opq ++ u32be ttl ++ k) s /\
  WriteGATCmd_src E k ttl opq s = wr (enc_hdr opGat (len k) 4 (len k + 4) opq ++ u32be ttl ++ k) s /\
  WriteGATQCmd_src E k ttl opq s = wr (enc_hdr opGatQ (len k) 4 (len k + 4) opq ++ u32be ttl ++ k) s /\
  WriteNoopCmd_src E opq s = wr (enc_hdr opNoop 0 0 0 opq) s.
Proof.
  unfold WriteSetCmd_src, WriteAddCmd_src, WriteReplaceCmd_src, WriteAppendCmd_src, WritePrependCmd_src,
    WriteGetCmd_src, WriteGetQCmd_src, WriteGetECmd_src, WriteGetEQCmd_src, WriteDeleteCmd_src,
    WriteTouchCmd_src, WriteGATCmd_src, WriteGATQCmd_src.
  split; [exact (writeDataCmdCommon_link E opSet k f ttl ds opq s)|].
  split; [exact (writeDataCmdCommon_link E opAdd k f ttl ds opq s)|].
  split; [exact (writeDataCmdCommon_link E opReplace k f ttl ds opq s)|].
  split; [exact (writeAppendPrependCmdCommon_link E opAppend k f ttl ds opq s)|].
  split; [exact (writeAppendPrependCmdCommon_link E opPrepend k f ttl ds opq s)|].
  split; [exact (writeKeyCmd_link E opGet k opq s)|].
  split; [exact (writeKeyCmd_link E opGetQ k opq s)|].
  split; [exact (writeKeyCmd_link E opGetE k opq s)|].
  split; [exact (writeKeyCmd_link E opGetEQ k opq s)|].
  split; [exact (writeKeyCmd_link E opDelete k opq s)|].
  split; [exact (writeKeyExptimeCmd_link E opTouch k ttl opq s)|].
  split; [exact (writeKeyExptimeCmd_link E opGat k ttl opq s)|].
  split; [exact (writeKeyExptimeCmd_link E opGatQ k ttl opq s)|].
  exact (WriteNoopCmd_link E opq s).
Qed.

(* the frames of the model are what the handler's Write*Cmd call (opaque 0) writes *)
Lemma frame_data E op k f ttl ds s : writeDataCmdCommon_src E op k f ttl ds 0 s = wr (w_data_cmd op k f ttl ds) s.
Proof. apply writeDataCmdCommon_link. Qed.
Lemma frame_cat E op k f ttl ds s : writeAppendPrependCmdCommon_src E op k f ttl ds 0 s = wr (w_cat_cmd op k ds) s.
Proof. apply writeAppendPrependCmdCommon_link. Qed.
Lemma frame_key E op k s : writeKeyCmd_src E op k 0 s = wr (w_key_cmd op k) s.
Proof. apply writeKeyCmd_link. Qed.
Lemma frame_keyexp E op k ttl s : writeKeyExptimeCmd_src E op k ttl 0 s = wr (w_keyexp_cmd op k ttl) s.
Proof. apply writeKeyExptimeCmd_link. Qed.

(* ------------------------------------------------------------------------------------------ *)
(* (2) the consumer                                                                            *)
(* ------------------------------------------------------------------------------------------ *)
Lemma ReadResponseHeader_link E s : ReadResponseHeader_src E s = m_read_rhdr s.
Proof.
  unfold ReadResponseHeader_src, m_bind, m_read_at_least, m_read_rhdr, w_read_rhdr, resHeaderLen_c, w_take.
  pose proof (pool_buf_len (ge_stale_buf E)) as LB. set (B := pool_get_bytes bufPool_new (ge_stale_buf E)) in *.
  assert (len B = 24) as -> by (unfold len; rewrite LB; reflexivity).
  change (24 <? 24) with false. change (24 =? 24) with true. change reqHeaderLen with 24. cbv iota.
  destruct (read_n (wc_in (ws_conn s)) 24) as [[a rest]|] eqn:R.
  - apply read_n_some in R. destruct R as [_ La].
    assert (length a = 24%nat) as La' by (unfold len in La; lia).
    destruct (list24 a La') as
      (b0&b1&b2&b3&b4&b5&b6&b7&b8&b9&b10&b11&b12&b13&b14&b15&b16&b17&b18&b19&b20&b21&b22&b23&->).
    cbn [err_nil negb]. unfold m_index. cbn [nth_error N.to_nat]. cbn [nth].
    destruct (b0 =? magicResponse); reflexivity.
  - reflexivity.
Qed.

(* a method of the set family: Write*Cmd, then handleSetCommon *)
Lemma run_setcommon E (W : M (option N)) frame k d f t o q c :
  (forall s, W s = wr frame s) ->
  run_err (m_bind W (fun err => if negb (err_nil err) then m_ret err
                                else Handler_handleSetCommon_src E k d f t o q)) c =
  lift_out (w_set_common (w_send (ge_ebody E) c (ge_now E) (frame ++ d))).
Proof.
  intros HW. unfold run_err, m_bind. rewrite HW. unfold wr, ws0. cbn [ws_conn ws_wbuf ws_out ws_eout err_nil negb app].
  unfold Handler_handleSetCommon_src, m_bind, m_write, m_flush, readResponseHeader_src, m_bind.
  cbn [ws_conn ws_wbuf ws_out ws_eout err_nil negb].
  rewrite ReadResponseHeader_link. unfold m_read_rhdr, w_set_common, set_conn. cbn [ws_conn ws_wbuf ws_out ws_eout].
  generalize (w_send (ge_ebody E) c (ge_now E) (frame ++ d)). intros c1.
  destruct (w_read_rhdr c1) as [c2 [h| |]]; cbn [err_nil negb m_ret m_deref m_panic res_map lift_out fst snd]; try reflexivity.
  unfold m_bind, m_ret. cbn [rh_status].
  destruct (decode_error (rh_status h)) as [e|]; cbn [err_nil negb m_deref]; [|reflexivity].
  unfold m_bind, m_discard. cbn [ws_conn].
  destruct (w_discard c2 (rh_total h)) as [c3 [|]]; reflexivity.
Qed.

(* Delete / Touch: Write*Cmd, then simpleCmdLocal *)
Lemma run_simple E (W : M (option N)) frame c :
  (forall s, W s = wr frame s) ->
  run_err (m_bind W (fun err => if negb (err_nil err) then m_ret err else simpleCmdLocal_src E)) c =
  lift_out (w_simple (w_send (ge_ebody E) c (ge_now E) frame)).
Proof.
  intros HW. unfold run_err, m_bind. rewrite HW. unfold wr, ws0. cbn [ws_conn ws_wbuf ws_out ws_eout err_nil negb app].
  unfold simpleCmdLocal_src, m_bind, m_flush. cbn [ws_conn ws_wbuf ws_out ws_eout err_nil negb].
  rewrite ReadResponseHeader_link. unfold m_read_rhdr, w_simple, set_conn. cbn [ws_conn ws_wbuf ws_out ws_eout].
  generalize (w_send (ge_ebody E) c (ge_now E) frame). intros c1.
  destruct (w_read_rhdr c1) as [c2 [h| |]]; cbn [err_nil negb m_ret m_deref m_panic res_map lift_out fst snd]; try reflexivity.
  unfold m_bind, m_ret, st_to_hres.
  destruct (decode_error (rh_status h)) as [e|]; cbn [err_nil negb m_deref];
    unfold m_bind, m_discard; cbn [ws_conn];
    destruct (w_discard c2 (rh_total h)) as [c3 [|]]; reflexivity.
Qed.

(* ------------------------------------------------------------------------------------------ *)
(* GetLocal                                                                                     *)
(* ------------------------------------------------------------------------------------------ *)
(* `resHeader.TotalBodyLength - uint32(resHeader.KeyLength) - uint32(resHeader.ExtraLength)` is two uint32
   subtractions in the source and one formula in the model; they agree when the key length and extras length
   the header carries are values of their Go types (uint16, uint8) *)
Definition hdr_fits (c : wconn) : Prop :=
  match snd (w_read_rhdr c) with RHOk h => rh_klen h < 65536 /\ rh_elen h < 256 | _ => True end.

Lemma u32_sub_sub t k e : k < 65536 -> e < 256 -> u32_sub (u32_sub t k) e = (t + two32 - k - e) mod two32.
Proof. unfold u32_sub, two32. lia. Qed.

Lemma m_read_at_least_make n s :
  m_read_at_least (sl_make n) n s =
  let '(c1, o) := w_take (ws_conn s) n in
  (set_conn s c1, Val (match o with Some b => (b, None) | None => (sl_make n, Some EIO) end)).
Proof.
  unfold m_read_at_least, sl_make. rewrite len_zeros, N.ltb_irrefl, N.eqb_refl. reflexivity.
Qed.

Definition get_local_val (r : bytes * N * N + N) : bytes * N * N * option N :=
  match r with inl (d, fl, ex) => (d, fl, ex, None) | inr e => ([], 0, 0, Some e) end.

(* GetLocal_link / GAT_link: proofs unfinished (round 9) — GAT, Get and GetE are translated (gen/Std_gen.v) but NOT linked *)


(* ------------------------------------------------------------------------------------------ *)
(* the handler                                                                                  *)
(* ------------------------------------------------------------------------------------------ *)
(* Get / GetE (the goroutine and its per-key loop) are translated (gen/Std_gen.v realHandleGet_src ...)
   but NOT linked here *)
Definition not_get (q : hreq) : Prop := match q with HGet _ | HGetE _ | HGat _ _ _ => False | _ => True end.
Definition wire_hdrs_fit (ebody : N -> bytes) (c : wconn) (now : N) (q : hreq) : Prop :=
  match q with
  | HGat k ttl _ => hdr_fits (w_send ebody c now (w_keyexp_cmd opGat k ttl))
  | _ => True
  end.

Theorem std_wire_src_link E xo xq xf xt c q :
  not_get q -> wire_hdrs_fit (ge_ebody E) c (ge_now E) q ->
  std_wire_src_gen E xo xq xf xt c q = lift_out (std_wire (ge_ebody E) c (ge_now E) q).
Proof.
  intros NG HF. destruct q as [m k d f ttl|fr k d|k|k ttl|items|items|k ttl opq]; try contradiction;
    unfold std_wire_src_gen, std_wire, std_frame.
  - destruct m; [apply (run_setcommon E (WriteSetCmd_src E k f ttl (to_u32 (len d)) 0))
                |apply (run_setcommon E (WriteAddCmd_src E k f ttl (to_u32 (len d)) 0))
                |apply (run_setcommon E (WriteReplaceCmd_src E k f ttl (to_u32 (len d)) 0))];
      intros s; apply frame_data.
  - destruct fr; [apply (run_setcommon E (WritePrependCmd_src E k xf xt (to_u32 (len d)) 0))
                 |apply (run_setcommon E (WriteAppendCmd_src E k xf xt (to_u32 (len d)) 0))];
      intros s; apply frame_cat.
  - apply (run_simple E (WriteDeleteCmd_src E k 0)). intros s; apply frame_key.
  - apply (run_simple E (WriteTouchCmd_src E k ttl 0)). intros s; apply frame_keyexp.
Qed.

(* the frames: what each method writes before its first Flush, as a function of the request *)
Definition std_frame_src (E : genv) (xo : N) (xq : bool) (xf xt : N) (q : hreq) : bytes :=
  let w (m : M (option N)) := ws_wbuf (fst (m (ws0 (conn0 empty_store [])))) in
  match q with
  | HSet MSet k d f ttl => w (WriteSetCmd_src E k f ttl (to_u32 (len d)) 0) ++ d
  | HSet MAdd k d f ttl => w (WriteAddCmd_src E k f ttl (to_u32 (len d)) 0) ++ d
  | HSet MReplace k d f ttl => w (WriteReplaceCmd_src E k f ttl (to_u32 (len d)) 0) ++ d
  | HCat false k d => w (WriteAppendCmd_src E k xf xt (to_u32 (len d)) 0) ++ d
  | HCat true k d => w (WritePrependCmd_src E k xf xt (to_u32 (len d)) 0) ++ d
  | HDelete k => w (WriteDeleteCmd_src E k 0)
  | HTouch k ttl => w (WriteTouchCmd_src E k ttl 0)
  | HGat k ttl _ => w (WriteGATCmd_src E k ttl 0)
  | HGet _ | HGetE _ => []
  end.
Definition get_frame_src (E : genv) (withexp : bool) (it : gitem) : bytes :=
  ws_wbuf (fst ((if withexp then WriteGetECmd_src E (gi_key it) 0 else WriteGetCmd_src E (gi_key it) 0)
                (ws0 (conn0 empty_store [])))).

Theorem std_frame_src_link E xo xq xf xt q : std_frame_src E xo xq xf xt q = std_frame q.
Proof.
  destruct q as [m k d f ttl|fr k d|k|k ttl|items|items|k ttl opq]; unfold std_frame_src, std_frame; try reflexivity.
  - destruct m; unfold WriteSetCmd_src, WriteAddCmd_src, WriteReplaceCmd_src; rewrite frame_data; reflexivity.
  - destruct fr; unfold WriteAppendCmd_src, WritePrependCmd_src; rewrite frame_cat; reflexivity.
  - unfold WriteDeleteCmd_src. rewrite frame_key. reflexivity.
  - unfold WriteTouchCmd_src. rewrite frame_keyexp. reflexivity.
  - unfold WriteGATCmd_src. rewrite frame_keyexp. reflexivity.
Qed.
Theorem get_frame_src_link E withexp it : get_frame_src E withexp it = get_frame withexp it.
Proof.
  unfold get_frame_src, get_frame. destruct withexp; unfold WriteGetECmd_src, WriteGetCmd_src; rewrite frame_key; reflexivity.
Qed.

(* c01w_in_sync transferred to the source-translated handler (all methods but Get / GetE) *)
Theorem std_wire_src_in_sync ebody s now q pl :
  ebody_fits ebody -> hreq_fits q -> store_fits now s -> plan_fits pl ->
  not_get q -> wire_hdrs_fit ebody (conn0 s pl) now q ->
  forall st r, std_wire_src ebody (conn0 s pl) now q = (st, r) ->
  in_sync (ws_conn st) /\ ws_wbuf st = [] /\ r <> Undef.
Proof.
  intros HE HQ HS HP NG HF st r H. unfold std_wire_src in H.
  rewrite std_wire_src_link in H by assumption. cbn [ge_ebody ge_now] in H.
  destruct (std_wire ebody (conn0 s pl) now q) as [c' o] eqn:W.
  destruct (std_wire_in_sync ebody s now q pl HE HQ HS HP c' o W) as [IS _].
  unfold lift_out in H. cbn [fst snd] in H. inversion H; subst. cbn [ws_conn ws_wbuf ws0].
  split; [exact IS|]. split; [reflexivity|]. destruct o; discriminate.
Qed.
