(* OrcasGetLink.v — Get and GetE of the three orchestrators, translated from /repo's source by
   `orctrans` (gen/Orcas_gen.v), are equivalent to the hand-written model of orca/Orcas.v
   ([l1only] RGet/RGetE, [l1l2_get] with [l1l2_backfill] and [l1l2_get_tail], [l1l2batch_get]).
   Continues gen/OrcasLink.v (the other 24 methods).

   L1OnlyOrca.Get/GetE: [peq_all], like the other 24. L1L2Orca.Get / L1L2BatchOrca.Get: [peqx_all]
   (orca/ProgEqX.v) — the same calls and returned error, the same responder calls up to the Exptime
   inside a [PGet], a field the Go type common.GetResponse does not have.

   Each proof is: open the drain loop, show by case analysis (tactic [xlink]) what its body does
   for ONE response in front of an arbitrary rest, and conclude over the response list with
   orca/DrainLemmas.v. Nothing refers to the names or the order of the statements in the generated
   bodies. *)
From Rend Require Import base.Bytes gen.Consts_gen spec.MapSpec orca.Types handlers.Std orca.Orcas orca.Faults
  orca.OrcaSem orca.ProgEq orca.ProgEqX orca.DrainLemmas proto.Resp gen.Orcas_gen gen.OrcasLink.
Open Scope N_scope.

(* peel equal heads (responder calls up to [rc_erase]); case-split whatever is being matched on *)
Ltac xlink_step :=
  match goal with
  | H : peqx_on _ ?a ?b |- peqx_on _ ?a ?b => exact H
  | |- peqx_on _ (Ret _) (Ret _) => apply PxRet
  | |- peqx_on _ (Emit _ _) (Emit _ _) =>
      apply PxEmit; [first [reflexivity | unfold rc_erase, g_noexp; cbn [g_key g_data g_flags g_opaque g_quiet g_miss]; congruence]|]
  | |- peqx_on _ (Call _ _ _) (Call _ _ _) => apply PxCall; intros ? _
  | |- context [match ?x with _ => _ end] => is_var x; destruct x; cbn
  | |- context [match ?x with _ => _ end] => destruct x eqn:?; cbn
  end.
Ltac xlink := cbv [call_err call_gat emit_err drain_end]; cbn; repeat xlink_step.

(* ---------------- orcas/l1only.go ---------------- *)
(* the exact form, for the loops that hand every response to the responder unchanged *)
Ltac plink_step :=
  match goal with
  | H : peq_on _ ?a ?b |- peq_on _ ?a ?b => exact H
  | _ => link_step
  end.
Ltac plink := cbv [call_err call_gat emit_err drain_end]; cbn; repeat plink_step.

Lemma l1only_Get_link_all : forall items no ne, peq_all (l1only_Get_src items no ne) (l1only (RGet items no ne)).
Proof.
  intros items no ne. unfold peq_all, l1only_Get_src, drain. cbn [l1only]. rewrite gitems_of_items.
  apply PeCall. intros h _. destruct h as [e | | rs [e|]]; cbn [hvals fst snd drain_res]; try solve [plink];
    rewrite emits_map_fold; apply drain_res_steps; try solve [intros; plink].
Qed.
Lemma l1only_Get_link : forall items no ne, peq (l1only_Get_src items no ne) (l1only (RGet items no ne)).
Proof. intros. apply peq_all_peq, l1only_Get_link_all. Qed.

Lemma l1only_GetE_link_all : forall items no ne, peq_all (l1only_GetE_src items no ne) (l1only (RGetE items no ne)).
Proof.
  intros items no ne. unfold peq_all, l1only_GetE_src, drain. cbn [l1only]. rewrite gitems_of_items.
  apply PeCall. intros h _. destruct h as [e | | rs [e|]]; cbn [hvals fst snd drain_res]; try solve [plink];
    rewrite emits_map_fold; apply drain_res_steps; try solve [intros; plink].
Qed.
Lemma l1only_GetE_link : forall items no ne, peq (l1only_GetE_src items no ne) (l1only (RGetE items no ne)).
Proof. intros. apply peq_all_peq, l1only_GetE_link_all. Qed.

(* ---------------- orcas/l1l2.go ---------------- *)
(* the first loop of L1L2Orca.Get and L1L2BatchOrca.Get: hits go to the responder, the key, opaque
   and quiet flag of every miss are collected; then no L2 call at all when nothing missed *)
Ltac first_loop :=
  apply drain_res_part with (upd := l2_collect);
  [ intros g [[[err ks] os] qs] cont p Hg Hp; cbn [l2_collect] in Hp; rewrite Hg; exact Hp
  | intros g [[[err ks] os] qs] cont p Hg Hp; rewrite Hg; apply PxEmit; [reflexivity|exact Hp]
  | rewrite l2_collect_fold; cbn [app] ].

Lemma l1l2_Get_link_all : forall items no ne, peqx_all (l1l2_Get_src items no ne) (l1l2 (RGet items no ne)).
Proof.
  intros items no ne. cbn [l1l2].
  eapply peqx_on_trans; [|apply peqx_on_sym, peq_all_peqx_all, l1l2_get_open].
  unfold peqx_all, l1l2_Get_src, drain. rewrite gitems_of_items.
  apply PxCall. intros h _. generalize (fst (hvals h)) (snd (hvals h)). clear h. intros rs e1.
  unfold l1l2_get_l1. first_loop.
  generalize (filter g_miss rs). intro ms. rewrite <- (gitems_of_res ms).
  destruct ms as [|m ms]; [destruct e1; xlink|].
  (* the L2 GetE with the rebuilt request, the back-fill loop, the terminator *)
  unfold drain_end; destruct e1 as [e1|]; cbv beta iota; cbn [map is_empty];
    (apply PxCall; intros h2 _; generalize (fst (hvals h2)) (snd (hvals h2)); clear h2; intros rs2 e2;
     unfold l1l2_get_l2; rewrite backfill_fold; apply drain_res_steps; [intros g s cont p Hp; xlink|destruct e2; xlink]).
Qed.
Lemma l1l2_Get_link : forall items no ne, peqx (l1l2_Get_src items no ne) (l1l2 (RGet items no ne)).
Proof. intros. apply peqx_all_peqx, l1l2_Get_link_all. Qed.

Lemma l1l2_GetE_link_all : forall items no ne, peq_all (l1l2_GetE_src items no ne) (l1l2 (RGetE items no ne)).
Proof. unfold l1l2_GetE_src. link. Qed.
Lemma l1l2_GetE_link : forall items no ne, peq (l1l2_GetE_src items no ne) (l1l2 (RGetE items no ne)).
Proof. intros. apply peq_all_peq, l1l2_GetE_link_all. Qed.

(* ---------------- orcas/l1l2batch.go ---------------- *)
Lemma l1l2batch_Get_link_all : forall items no ne, peqx_all (l1l2batch_Get_src items no ne) (l1l2batch (RGet items no ne)).
Proof.
  intros items no ne. cbn [l1l2batch].
  eapply peqx_on_trans; [|apply peqx_on_sym, peq_all_peqx_all, l1l2batch_get_open].
  unfold peqx_all, l1l2batch_Get_src, drain. rewrite gitems_of_items.
  apply PxCall. intros h _. generalize (fst (hvals h)) (snd (hvals h)). clear h. intros rs e1.
  unfold l1l2batch_get_l1. first_loop.
  generalize (filter g_miss rs). intro ms. rewrite <- (gitems_of_res ms).
  destruct ms as [|m ms]; [destruct e1; xlink|].
  unfold drain_end; destruct e1 as [e1|]; cbv beta iota; cbn [map is_empty];
    (apply PxCall; intros h2 _; generalize (fst (hvals h2)) (snd (hvals h2)); clear h2; intros rs2 e2;
     unfold l1l2batch_get_l2; rewrite emits_map_fold; apply drain_res_steps; [intros g s cont p Hp; xlink|destruct e2; xlink]).
Qed.
Lemma l1l2batch_Get_link : forall items no ne, peqx (l1l2batch_Get_src items no ne) (l1l2batch (RGet items no ne)).
Proof. intros. apply peqx_all_peqx, l1l2batch_Get_link_all. Qed.

Lemma l1l2batch_GetE_link_all : forall items no ne, peq_all (l1l2batch_GetE_src items no ne) (l1l2batch (RGetE items no ne)).
Proof. unfold l1l2batch_GetE_src. link. Qed.
Lemma l1l2batch_GetE_link : forall items no ne, peq (l1l2batch_GetE_src items no ne) (l1l2batch (RGetE items no ne)).
Proof. intros. apply peq_all_peq, l1l2batch_GetE_link_all. Qed.

(* ---------------- the orchestrators with ALL translated methods plugged in ---------------- *)
(* OrcasLink's dispatchers [<orca>_src] leave Get/GetE with the hand model; these send them to the
   generated methods too. What is left with the hand model: Noop, Quit, Version, Stat, Unknown
   (one responder call each, no backend). *)
Definition src_covered_get (r : req) : bool :=
  match r with RGet _ _ _ | RGetE _ _ _ => true | _ => src_covered r end.

Definition l1only_srcg (r : req) : prog :=
  match r with
  | RGet items no ne => l1only_Get_src items no ne
  | RGetE items no ne => l1only_GetE_src items no ne
  | _ => l1only_src r
  end.
Definition l1l2_srcg (r : req) : prog :=
  match r with
  | RGet items no ne => l1l2_Get_src items no ne
  | RGetE items no ne => l1l2_GetE_src items no ne
  | _ => l1l2_src r
  end.
Definition l1l2batch_srcg (r : req) : prog :=
  match r with
  | RGet items no ne => l1l2batch_Get_src items no ne
  | RGetE items no ne => l1l2batch_GetE_src items no ne
  | _ => l1l2batch_src r
  end.

Lemma l1only_srcg_link_all : forall r, peq_all (l1only_srcg r) (l1only r).
Proof.
  intros r. destruct r; cbn [l1only_srcg];
    first [ apply l1only_Get_link_all | apply l1only_GetE_link_all | apply l1only_src_link_all ].
Qed.
Lemma l1l2_srcg_link_all : forall r, peqx_all (l1l2_srcg r) (l1l2 r).
Proof.
  intros r. destruct r; cbn [l1l2_srcg];
    first [ apply l1l2_Get_link_all | apply peq_all_peqx_all, l1l2_GetE_link_all
          | apply peq_all_peqx_all, l1l2_src_link_all ].
Qed.
Lemma l1l2batch_srcg_link_all : forall r, peqx_all (l1l2batch_srcg r) (l1l2batch r).
Proof.
  intros r. destruct r; cbn [l1l2batch_srcg];
    first [ apply l1l2batch_Get_link_all | apply peq_all_peqx_all, l1l2batch_GetE_link_all
          | apply peq_all_peqx_all, l1l2batch_src_link_all ].
Qed.

(* only a two-tier Get needs the relation up to Exptime: everything else is exact *)
Lemma l1l2_srcg_link_exact : forall r, (match r with RGet _ _ _ => False | _ => True end) ->
  peq_all (l1l2_srcg r) (l1l2 r) /\ peq_all (l1l2batch_srcg r) (l1l2batch r).
Proof.
  intros r H. destruct r; try contradiction; cbn [l1l2_srcg l1l2batch_srcg]; split;
    first [ apply l1l2_GetE_link_all | apply l1l2batch_GetE_link_all
          | apply l1l2_src_link_all | apply l1l2batch_src_link_all ].
Qed.

(* over the direct handlers: same stores, same returned error, the same responder calls (L1Only) /
   the same up to the Exptime inside PGet (two tiers) *)
Lemma orcas_srcg_run : forall r l1 l2 now,
  run std_exec std_exec (l1only_srcg r) l1 l2 now = run std_exec std_exec (l1only r) l1 l2 now /\
  obs_erase (run std_exec std_exec (l1l2_srcg r) l1 l2 now) = obs_erase (run std_exec std_exec (l1l2 r) l1 l2 now) /\
  obs_erase (run std_exec std_exec (l1l2batch_srcg r) l1 l2 now) = obs_erase (run std_exec std_exec (l1l2batch r) l1 l2 now).
Proof.
  intros r l1 l2 now. repeat split.
  - apply peq_run_std, peq_all_peq, l1only_srcg_link_all.
  - apply peqx_run_std, peqx_all_peqx, l1l2_srcg_link_all.
  - apply peqx_run_std, peqx_all_peqx, l1l2batch_srcg_link_all.
Qed.

(* ... and under every fault plan of orca/Faults.v *)
Lemma orcas_srcg_run_f : forall r pl st now,
  run_f pl (l1only_srcg r) st now = run_f pl (l1only r) st now /\
  obs_erase_f (run_f pl (l1l2_srcg r) st now) = obs_erase_f (run_f pl (l1l2 r) st now) /\
  obs_erase_f (run_f pl (l1l2batch_srcg r) st now) = obs_erase_f (run_f pl (l1l2batch r) st now).
Proof.
  intros r pl st now. repeat split.
  - apply peq_all_run_f, l1only_srcg_link_all.
  - apply peqx_all_run_f, l1l2_srcg_link_all.
  - apply peqx_all_run_f, l1l2batch_srcg_link_all.
Qed.

(* what the client and the backends see is identical: stores, returned error, and the bytes the
   responder of either protocol writes *)
Definition run_bytes (pr : proto) (x : store * store * list rcall * option N) : store * store * bytes * option N :=
  let '(a, b, cs, e) := x in (a, b, render_all pr cs, e).
Definition run_f_bytes (pr : proto) (x : fstate * list rcall * fres) : fstate * bytes * fres :=
  let '(s, cs, e) := x in (s, render_all pr cs, e).

Lemma run_bytes_erase : forall pr x y, obs_erase x = obs_erase y -> run_bytes pr x = run_bytes pr y.
Proof.
  intros pr [[[a b] cs] e] [[[a' b'] cs'] e'] H. cbn [obs_erase] in H. inversion H; subst. cbn [run_bytes].
  rewrite (erase_eq_render_all pr cs cs') by assumption. reflexivity.
Qed.
Lemma run_f_bytes_erase : forall pr x y, obs_erase_f x = obs_erase_f y -> run_f_bytes pr x = run_f_bytes pr y.
Proof.
  intros pr [[s cs] e] [[s' cs'] e'] H. cbn [obs_erase_f] in H. inversion H; subst. cbn [run_f_bytes].
  rewrite (erase_eq_render_all pr cs cs') by assumption. reflexivity.
Qed.

Lemma orcas_srcg_bytes : forall pr r l1 l2 now,
  run_bytes pr (run std_exec std_exec (l1only_srcg r) l1 l2 now) = run_bytes pr (run std_exec std_exec (l1only r) l1 l2 now) /\
  run_bytes pr (run std_exec std_exec (l1l2_srcg r) l1 l2 now) = run_bytes pr (run std_exec std_exec (l1l2 r) l1 l2 now) /\
  run_bytes pr (run std_exec std_exec (l1l2batch_srcg r) l1 l2 now) = run_bytes pr (run std_exec std_exec (l1l2batch r) l1 l2 now).
Proof.
  intros pr r l1 l2 now. destruct (orcas_srcg_run r l1 l2 now) as (A & B & C). repeat split.
  - rewrite A. reflexivity.
  - apply run_bytes_erase, B.
  - apply run_bytes_erase, C.
Qed.

Lemma orcas_srcg_bytes_f : forall pr r pl st now,
  run_f_bytes pr (run_f pl (l1only_srcg r) st now) = run_f_bytes pr (run_f pl (l1only r) st now) /\
  run_f_bytes pr (run_f pl (l1l2_srcg r) st now) = run_f_bytes pr (run_f pl (l1l2 r) st now) /\
  run_f_bytes pr (run_f pl (l1l2batch_srcg r) st now) = run_f_bytes pr (run_f pl (l1l2batch r) st now).
Proof.
  intros pr r pl st now. destruct (orcas_srcg_run_f r pl st now) as (A & B & C). repeat split.
  - rewrite A. reflexivity.
  - apply run_f_bytes_erase, B.
  - apply run_f_bytes_erase, C.
Qed.
