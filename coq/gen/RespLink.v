(* RespLink.v — what the REAL responders write (tables printed by constgen from /repo on every run:
   textErrorReply_tab, binErrorReply_tab, textFixedReply_tab in gen/Consts_gen.v) is what the
   hand-written rendering of proto/Resp.v says, for every error value, every (request type, error)
   pair and every argument-free text reply. *)
From Coq Require Import String.
From Rend Require Import base.Bytes gen.Consts_gen spec.MapSpec orca.Types proto.Resp.
Open Scope N_scope.

Lemma text_error_src :
  forallb (fun p : N * list N => bytes_eqb (text_error (fst p)) (snd p)) textErrorReply_tab = true.
Proof. vm_compute. reflexivity. Qed.

(* as a statement about every entry *)
Lemma text_error_src_all : forall e b, In (e, b) textErrorReply_tab -> text_error e = b.
Proof.
  intros e b H. pose proof text_error_src as F. rewrite forallb_forall in F.
  specialize (F _ H). cbn [fst snd] in F. apply bytes_eqb_eq. exact F.
Qed.

Lemma bin_error_src :
  forallb (fun t : N * N * list N => let '(rt, e, b) := t in bytes_eqb (bin_error 16909060 rt e false) b) binErrorReply_tab = true.
Proof. vm_compute. reflexivity. Qed.

Lemma bin_error_src_all : forall rt e b, In (rt, e, b) binErrorReply_tab -> bin_error 16909060 rt e false = b.
Proof.
  intros rt e b H. pose proof bin_error_src as F. rewrite forallb_forall in F.
  specialize (F _ H). cbn in F. apply bytes_eqb_eq. exact F.
Qed.

Lemma text_fixed_src :
  textFixedReply_tab =
  [render_text (PStored RtSet 0 false); render_text (PDelete 0); render_text (PTouch 0); render_text (PGetEnd 0 false);
   render_text (PNoop 0); render_text (PQuit 0 false); render_text (PVersion 0); render_text (PStat 0)].
Proof. vm_compute. reflexivity. Qed.

(* the tables cover every error value and every request type *)
Lemma resp_tables_complete :
  length textErrorReply_tab = length errText_tab /\
  length binErrorReply_tab = (15 * length errText_tab)%nat.
Proof. vm_compute. split; reflexivity. Qed.
