(* AppLink.v — what the extracted wiring of app/memproxy.go (gen/App_gen.v, regenerated from the
   source on every run) amounts to, for EVERY valuation of the command-line flags: hand-written,
   checked against the generated value on every run; a change of the wiring that is not
   equivalent breaks this file (C03, C12: both ports use ONE lock table). *)
From Coq Require Import String List Bool.
Import ListNotations.
From Rend Require Import server.AppWiring gen.App_gen.
Open Scope string_scope.

(* the wiring the models assume *)
Definition app_expected (f : flags) : list (option lstn * option rorca) :=
  let strict := f "chunked" || negb (f "multiReader") in
  let site := if strict then 1 else 2 in
  (Some (if f "useDomainSocket" then LUnix "sockPath" else LTcp "port"),
   Some (mkR (if f "l2enabled" then "L1L2" else "L1Only")
             (if f "locked" then OwnSet site (negb strict) else NoLock)))
  :: (if f "l2enabled"
      then [(Some (LTcp "batchPort"),
             Some (mkR "L1L2Batch" (if f "locked" then SharedSet (RSite site) else NoLock)))]
      else []).

Theorem app_wiring_src : forall f : flags, started f app_serves_src = app_expected f.
Proof.
  intros f. unfold started, app_serves_src, app_expected.
  cbn [flat_map beval sv_cond sv_listener sv_orca lseval oeval leval option_map app].
  destruct (f "locked"), (f "chunked"), (f "multiReader"), (f "l2enabled"), (f "useDomainSocket"); reflexivity.
Qed.

(* with -locked and -l2-enabled: the main port owns a lock set and the batch port uses THAT set;
   with -chunked (or -multi-reader=false) it is a single-reader set *)
Corollary app_one_lock_table : forall f : flags,
  f "locked" = true -> f "l2enabled" = true ->
  exists l site multi,
    started f app_serves_src =
      [(Some l, Some (mkR "L1L2" (OwnSet site multi)));
       (Some (LTcp "batchPort"), Some (mkR "L1L2Batch" (SharedSet (RSite site))))] /\
    (f "chunked" = true -> multi = false) /\ (f "multiReader" = false -> multi = false).
Proof.
  intros f Hl H2. rewrite app_wiring_src. unfold app_expected. rewrite Hl, H2.
  eexists _, _, _. split; [reflexivity|].
  split; intros H; rewrite H; cbn; rewrite ?orb_true_r; reflexivity.
Qed.

(* without -locked nothing is wrapped *)
Corollary app_unlocked : forall f : flags, f "locked" = false ->
  Forall (fun s => match snd s with Some r => r_lock r = NoLock | None => False end) (started f app_serves_src).
Proof.
  intros f Hl. rewrite app_wiring_src. unfold app_expected. rewrite Hl.
  destruct (f "l2enabled"); repeat constructor.
Qed.
