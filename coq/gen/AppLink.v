(* AppLink.v — what the extracted wiring of app/memproxy.go (gen/App_gen.v, regenerated from the
   source on every run) amounts to, for EVERY valuation of the command-line flags: hand-written,
   checked against the generated value on every run; a change of the wiring that is not
   equivalent breaks this file (C03, C12: both ports use ONE lock table). *)
From Coq Require Import String List Bool.
Import ListNotations.
From Rend Require Import server.AppWiring gen.App_gen proto.Resp proto.ReqCommon.
Open Scope string_scope.

(* the wiring the models assume *)
Definition app_expected (f : flags) : list (option lstn * option rorca) :=
  let strict := f "chunked" || negb (f "multiReader") in
  let site := if strict then 1 else 2 in
  (Some (if f "useDomainSocket" then LUnix "sockPath" else LTcp "port"),
   Some (mkR (if f "l2enabled" then "L1L2" else "L1Only")
             (if f "locked" then OwnSet site (negb strict) else NoLock)))
  :: (if f "l2enabled"
      then [(Some (LTcp "batchPort"),
             Some (mkR "L1L2Batch" (if f "locked" then SharedSet (RSite site) else NoLock)))]
      else []).

Theorem app_wiring_src : forall f : flags, started f app_serves_src = app_expected f.
Proof.
  intros f. unfold started, app_serves_src, app_expected.
  cbn [flat_map beval sv_cond sv_listener sv_orca lseval oeval leval option_map app].
  destruct (f "locked"), (f "chunked"), (f "multiReader"), (f "l2enabled"), (f "useDomainSocket"); reflexivity.
Qed.

(* with -locked and -l2-enabled: the main port owns a lock set and the batch port uses THAT set;
   with -chunked (or -multi-reader=false) it is a single-reader set *)
Corollary app_one_lock_table : forall f : flags,
  f "locked" = true -> f "l2enabled" = true ->
  exists l site multi,
    started f app_serves_src =
      [(Some l, Some (mkR "L1L2" (OwnSet site multi)));
       (Some (LTcp "batchPort"), Some (mkR "L1L2Batch" (SharedSet (RSite site))))] /\
    (f "chunked" = true -> multi = false) /\ (f "multiReader" = false -> multi = false).
Proof.
  intros f Hl H2. rewrite app_wiring_src. unfold app_expected. rewrite Hl, H2.
  eexists _, _, _. split; [reflexivity|].
  split; intros H; rewrite H; cbn; rewrite ?orb_true_r; reflexivity.
Qed.

(* without -locked nothing is wrapped *)
Corollary app_unlocked : forall f : flags, f "locked" = false ->
  Forall (fun s => match snd s with Some r => r_lock r = NoLock | None => False end) (started f app_serves_src).
Proof.
  intros f Hl. rewrite app_wiring_src. unfold app_expected. rewrite Hl.
  destruct (f "l2enabled"); repeat constructor.
Qed.

(* ---- protocols, server loop and handler constructors of every started server ---- *)
Definition app_expected_with (f : flags) :=
  let h1 := if f "l1inmem" then ("inmem.New", [])
            else if f "chunked" then ("memcached.Chunked", ["l1sock"])
            else if f "l1batched" then ("memcached.Batched", ["l1sock"; "batchOpts"])
            else ("memcached.Regular", ["l1sock"]) in
  let h2 := if f "l2enabled" then ("memcached.Regular", ["l2sock"]) else ("handlers.NilHandler", []) in
  let one := (Some ["binprot"; "textprot"], "server.Default", Some h1, Some h2) in
  one :: (if f "l2enabled" then [one] else []).

Theorem app_handlers_src : forall f : flags, started_with f app_serves_src = app_expected_with f.
Proof.
  intros f. unfold started_with, app_serves_src, app_expected_with.
  cbn [flat_map beval sv_cond sv_protos sv_server sv_h1 sv_h2 pseval heval app].
  destruct (f "l1inmem"), (f "chunked"), (f "l1batched"), (f "l2enabled"); reflexivity.
Qed.

(* the protocol list of both ports is the list the first-byte selection of C07 is proved for *)
Definition proto_of_pkg (s : string) : option proto :=
  if s =? "binprot" then Some Bin else if s =? "textprot" then Some Text else None.

Corollary app_protocols_src : forall f : flags,
  Forall (fun x => option_map (map proto_of_pkg) (fst (fst (fst x))) = Some (map Some default_protocols))
         (started_with f app_serves_src).
Proof.
  intros f. rewrite app_handlers_src. unfold app_expected_with.
  destruct (f "l2enabled"); repeat constructor.
Qed.
