(* BinParserLink.v — BinaryParser.Parse as translated from /repo's source by `bintrans`
   (gen/BinParser_gen.v, meaning of its operators: proto/ReaderSem.v) is the hand-written model
   proto/BinReq.v parse_bin, the function the theorems of C07 and C11 are about: for every stream
   of bytes, the same classified result (request / unread rest / close) AND the same
   allocation/demand trace.

   When the source of the parser changes, BinParser_gen.v changes with it and a lemma here stops
   compiling — or still compiles: then the rewrite was harmless for every input.

   Hypothesis of the link: [bytes_ok s], every element of the stream is a byte (< 256). The model
   is total on lists of arbitrary numbers, the Go arithmetic on header fields (uint8 / uint16 /
   uint32 with wrap-around) is not. *)
From Coq Require Import String.
From Rend Require Import base.Bytes gen.Consts_gen spec.MapSpec orca.Types proto.Resp proto.ReqCommon
  proto.ReqCommonProofs proto.BinReq proto.BinReqProofs proto.ReaderSem gen.GoSemLemmas gen.BinParser_gen.
Open Scope N_scope.

(* nothing was left untranslated, and the records of ReaderSem are the structs of the source *)
Lemma bintrans_complete : bintrans_untranslated = [].
Proof. reflexivity. Qed.

Lemma struct_decls_link : struct_decls_src = struct_decls_model.
Proof. reflexivity. Qed.

(* ---------------- vocabulary ---------------- *)
(* the header the model keeps, as the struct readRequestHeader fills in *)
Definition rh_of (h : hdr) : RequestHeader :=
  mkRequestHeader magicRequest (h_op h) (h_klen h) (h_elen h) 0 0 (h_total h) (h_opaque h) 0.
Definition rh_zero : RequestHeader := mkRequestHeader 0 0 0 0 0 0 0 0 0.

(* ReaderSem.run_parse's classification *)
Definition cls (rq : Request) (rt : N) (e : gerr) (rest : bytes) : pres :=
  match e with
  | GNil => PDone (abs_req rq rt) rest
  | GCommon c => if client_err c then PClientErr c rest else PClose
  | _ => PClose
  end.

(* a run of a translated function that returns (value, reqType, start, err) agrees with an outcome
   of the model: not stuck, same classification, same trace *)
Definition agrees {A} (wrap : A -> Request) (r : option ((A * N * N * gerr) * bytes * list aev)) (o : pout) : Prop :=
  match r with
  | None => False
  | Some ((a, rt, _, e), rest, tr) => o = (cls (wrap a) rt e rest, tr)
  end.
(* ... that returns (value, err), under request type rt *)
Definition agrees2 {A} (wrap : A -> Request) (rt : N) (r : option ((A * gerr) * bytes * list aev)) (o : pout) : Prop :=
  match r with
  | None => False
  | Some ((a, e), rest, tr) => o = (cls (wrap a) rt e rest, tr)
  end.

Lemma agrees_run m s o : agrees (fun x => x) (m s) o -> run_parse m s = o.
Proof.
  unfold agrees, run_parse. destruct (m s) as [[[[[[rq rt] st] e] rest] tr]|]; [|contradiction].
  intros ->. reflexivity.
Qed.

Lemma cls_fail rq rt e rest : is_nil e = false -> (forall c, e <> GCommon c) -> cls rq rt e rest = PClose.
Proof. intros H1 H2. destruct e; try reflexivity; [discriminate | exfalso; eapply H2; reflexivity]. Qed.

(* the errors of this parser: never nil, never one of common's *)
Definition hard (e : gerr) : Prop := is_nil e = false /\ forall c, e <> GCommon c.
Lemma hard_io s : hard (io_err s).
Proof. destruct s; split; try reflexivity; intros c H; discriminate. Qed.
Lemma hard_local n : hard (GLocal n).
Proof. split; [reflexivity | intros c H; discriminate]. Qed.
Lemma cls_hard rq rt e rest : hard e -> cls rq rt e rest = PClose.
Proof. intros [H1 H2]. apply cls_fail; assumption. Qed.

(* ---------------- the readers ---------------- *)
Lemma len_make_bytes n : len (make_bytes n) = n.
Proof. unfold len, make_bytes, zeros. rewrite repeat_length. lia. Qed.

Lemma io_ReadAtLeast_make ev n s : asize ev = n ->
  io_ReadAtLeast ev (make_bytes n) n s =
  match read_n s n with
  | Some (a, rest) => Some ((a, n, GNil), rest, [ev])
  | None => Some ((s ++ drop (len s) (make_bytes n), len s, io_err s), [], [ev])
  end.
Proof.
  intros H. unfold io_ReadAtLeast. rewrite H, N.eqb_refl, len_make_bytes, N.ltb_irrefl. reflexivity.
Qed.

Lemma readUInt32_spec s :
  readUInt32_src s =
  match read_n s 4 with
  | Some (b, s1) => Some ((rd32 b, GNil), s1, [AWord])
  | None => Some ((0, io_err s), [], [AWord])
  end.
Proof.
  unfold readUInt32_src, bind. rewrite io_ReadAtLeast_make by reflexivity.
  destruct (read_n s 4) as [[b s1]|]; [reflexivity|].
  destruct s; reflexivity.
Qed.

Lemma readString_spec l s :
  readString_src l s =
  match read_n s l with
  | Some (k, s1) => Some ((k, GNil), s1, [AKey l])
  | None => Some (([], io_err s), [], [AKey l])
  end.
Proof.
  unfold readString_src, bind. rewrite io_ReadAtLeast_make by reflexivity.
  destruct (read_n s l) as [[b s1]|]; [reflexivity|].
  destruct s; reflexivity.
Qed.

(* readRequestHeader against BinReq.read_hdr *)
Lemma readRequestHeader_spec s :
  match read_hdr s with
  | Some (h, s1) => readRequestHeader_src s = Some ((rh_of h, GNil), s1, [AHdr])
  | None => exists e s', readRequestHeader_src s = Some ((rh_zero, e), s', [AHdr]) /\ hard e
  end.
Proof.
  unfold read_hdr, readRequestHeader_src, bind.
  change (make_bytes 24) with (make_bytes reqHeaderLen).
  rewrite io_ReadAtLeast_make by reflexivity.
  destruct (read_n s reqHeaderLen) as [[b s1]|] eqn:R.
  - apply read_n_some in R. destruct R as [_ L].
    do 24 (destruct b as [|? b]; [cbn in L; discriminate|]).
    destruct b; [|unfold len in L; cbn [length] in L; exfalso; clear -L; unfold reqHeaderLen in L; lia].
    cbv beta iota. cbn [is_nil negb idx nth N.to_nat].
    destruct (n =? magicRequest) eqn:M; cbn [negb].
    + apply N.eqb_eq in M. subst n. reflexivity.
    + eexists _, _. split; [reflexivity | apply hard_local].
  - cbv beta iota. rewrite (proj1 (hard_io s)). cbn [negb].
    eexists _, _. split; [reflexivity | apply hard_io].
Qed.

(* ---------------- arithmetic of the length fields ---------------- *)
Lemma guard_set h : hdr_ok h ->
  (h_total h <? add32 (h_elen h) (h_klen h)) = (h_total h <? h_elen h + h_klen h).
Proof. intros (K & E & T). rewrite add32_small by (unfold GoSem.two32; lia). reflexivity. Qed.

Lemma len_set h : hdr_ok h -> (h_total h <? h_elen h + h_klen h) = false ->
  sub32 (sub32 (h_total h) (h_elen h)) (h_klen h) = (h_total h + BinReq.two32 - h_elen h - h_klen h) mod BinReq.two32.
Proof.
  intros (K & E & T) G. apply N.ltb_ge in G.
  rewrite (sub32_small (h_total h)) by (unfold GoSem.two32; lia).
  rewrite sub32_small by (unfold GoSem.two32; lia).
  unfold BinReq.two32.
  replace (h_total h + 4294967296 - h_elen h - h_klen h) with ((h_total h - h_elen h - h_klen h) + 1 * 4294967296) by lia.
  rewrite N.mod_add by lia. rewrite N.mod_small by lia. reflexivity.
Qed.

Lemma len_cat h : hdr_ok h -> (h_total h <? h_klen h) = false ->
  sub32 (h_total h) (h_klen h) = (h_total h + BinReq.two32 - h_klen h) mod BinReq.two32.
Proof.
  intros (K & E & T) G. apply N.ltb_ge in G.
  rewrite sub32_small by (unfold GoSem.two32; lia).
  unfold BinReq.two32.
  replace (h_total h + 4294967296 - h_klen h) with ((h_total h - h_klen h) + 1 * 4294967296) by lia.
  rewrite N.mod_add by lia. rewrite N.mod_small by lia. reflexivity.
Qed.

(* ---------------- setRequest, appendPrependRequest ---------------- *)
Ltac rh_fields := cbn [rh_of RequestHeader_Magic RequestHeader_Opcode RequestHeader_KeyLength
  RequestHeader_ExtraLength RequestHeader_DataType RequestHeader_VBucket RequestHeader_TotalBodyLength
  RequestHeader_OpaqueToken RequestHeader_CASToken].
Ltac close_hard := unfold agrees, agrees2, ret; cbn [app]; rewrite cls_hard by (first [apply hard_io | apply hard_local]); reflexivity.

Lemma setRequest_link h rt m q st s : hdr_ok h ->
  (forall k d f t o q', abs_req (Req_SetRequest (mkSetRequest k d f t o q')) rt = RSet m k d f t o q') ->
  agrees Req_SetRequest (setRequest_src (rh_of h) rt q st s) (bin_set true m q h s).
Proof.
  intros Hok Hrt. unfold setRequest_src, bin_set. rh_fields.
  rewrite guard_set by exact Hok. cbn [andb].
  destruct (h_total h <? h_elen h + h_klen h) eqn:G; [close_hard|].
  unfold bind at 1. rewrite readUInt32_spec.
  destruct (read_n s 4) as [[fb s1]|]; cbv beta iota; [|rewrite (proj1 (hard_io s)); cbn [negb]; close_hard].
  cbn [is_nil negb]. unfold bind at 1. rewrite readUInt32_spec.
  destruct (read_n s1 4) as [[eb s2]|]; cbv beta iota; [|rewrite (proj1 (hard_io s1)); cbn [negb]; close_hard].
  cbn [is_nil negb]. unfold bind at 1. rewrite readString_spec.
  destruct (read_n s2 (h_klen h)) as [[k s3]|]; cbv beta iota; [|rewrite (proj1 (hard_io s2)); cbn [negb]; close_hard].
  cbn [is_nil negb]. rewrite len_set by assumption.
  set (n := (h_total h + BinReq.two32 - h_elen h - h_klen h) mod BinReq.two32).
  unfold bind at 1. rewrite io_ReadAtLeast_make by reflexivity.
  destruct (read_n s3 n) as [[d s4]|]; cbv beta iota; [|rewrite (proj1 (hard_io s3)); cbn [negb]; close_hard].
  cbn [is_nil negb]. unfold agrees, ret. cbn [app cls]. rewrite Hrt. reflexivity.
Qed.

Lemma appendPrependRequest_link h rt fr q st s : hdr_ok h ->
  (forall k d f t o q', abs_req (Req_SetRequest (mkSetRequest k d f t o q')) rt = RCat fr k d o q') ->
  agrees Req_SetRequest (appendPrependRequest_src (rh_of h) rt q st s) (bin_cat true fr q h s).
Proof.
  intros Hok Hrt. unfold appendPrependRequest_src, bin_cat. rh_fields. cbn [andb].
  destruct (h_total h <? h_klen h) eqn:G; [close_hard|].
  unfold bind at 1. rewrite readString_spec.
  destruct (read_n s (h_klen h)) as [[k s1]|]; cbv beta iota; [|rewrite (proj1 (hard_io s)); cbn [negb]; close_hard].
  cbn [is_nil negb]. rewrite len_cat by assumption.
  set (n := (h_total h + BinReq.two32 - h_klen h) mod BinReq.two32).
  unfold bind at 1. rewrite io_ReadAtLeast_make by reflexivity.
  destruct (read_n s1 n) as [[d s2]|]; cbv beta iota; [|rewrite (proj1 (hard_io s1)); cbn [negb]; close_hard].
  cbn [is_nil negb]. unfold agrees, ret. cbn [app cls]. rewrite Hrt. reflexivity.
Qed.

(* ---------------- the quiet-get batch: readBatchGet / readBatchGetE ---------------- *)
Lemma zip3_snoc : forall ks os qs k o q, length ks = length os -> length os = length qs ->
  zip3 (ks ++ [k]) (os ++ [o]) (qs ++ [q]) = zip3 ks os qs ++ [mkGI k o q].
Proof.
  induction ks as [|k0 ks IH]; intros [|o0 os] [|q0 qs] k o q H1 H2; try discriminate; [reflexivity|].
  cbn [app zip3]. rewrite IH by (cbn [length] in *; congruence). reflexivity.
Qed.

Section Batch.
  Variables (rt : N) (mk : list gitem -> N -> bool -> req) (qop fop : N).
  Hypothesis Hmk : forall ks os qs no ne,
    abs_req (Req_GetRequest (mkGetRequest ks os qs no ne)) rt = mk (zip3 ks os qs) no ne.
  Let St := (RequestHeader * list bytes * list N * list bool * bool)%type.
  Let R := (GetRequest * gerr)%type.
  Variables (cond : St -> bool) (body : St -> rd (St + R)) (K : St + R -> rd R).
  Hypothesis Hcond : forall ks os qs f h, cond (h, ks, os, qs, f) = (RequestHeader_Opcode h =? qop).
  Hypothesis Hbody : forall ks os qs f h s,
    match read_n s (h_klen h) with
    | None => exists v e s', body (rh_of h, ks, os, qs, f) s = Some (inr (v, e), s', [AKey (h_klen h)]) /\ hard e
    | Some (k, s1) =>
        match read_hdr s1 with
        | None => exists v e s', body (rh_of h, ks, os, qs, f) s = Some (inr (v, e), s', [AKey (h_klen h); AHdr]) /\ hard e
        | Some (h', s2) => exists f',
            body (rh_of h, ks, os, qs, f) s =
            Some (inl (rh_of h', ks ++ [k], os ++ [h_opaque h], qs ++ [true], f'), s2, [AKey (h_klen h); AHdr])
        end
    end.
  Hypothesis HKr : forall v s, K (inr v) s = Some (v, s, []).
  Hypothesis HKl : forall ks os qs f h s,
    K (inl (rh_of h, ks, os, qs, f)) s =
    if h_op h =? fop then
      match read_n s (h_klen h) with
      | None => Some ((mkGetRequest [] [] [] 0 false, io_err s), [], [AKey (h_klen h)])
      | Some (k, s1) =>
          Some ((mkGetRequest (ks ++ [k]) (os ++ [h_opaque h]) (qs ++ [false]) 0 false, GNil), s1, [AKey (h_klen h)])
      end
    else if h_op h =? opNoop then Some ((mkGetRequest ks os qs (h_opaque h) true, GNil), s, [])
    else Some ((mkGetRequest ks os qs 0 false, GNil), s, []).

  Lemma batch_link : forall fuel h s acc ks os qs f,
    zip3 ks os qs = rev acc -> length ks = length os -> length os = length qs -> (length s < fuel)%nat ->
    agrees2 Req_GetRequest rt (bind (while_fuel fuel cond body (rh_of h, ks, os, qs, f)) K s)
            (bin_batch mk qop fop fuel h s acc).
  Proof.
    induction fuel as [|fuel IH]; intros h s acc ks os qs f Hz L1 L2 Hf; [lia|].
    unfold bind. cbn [while_fuel bin_batch]. rewrite Hcond. rh_fields.
    destruct (h_op h =? qop) eqn:Q.
    - pose proof (Hbody ks os qs f h s) as Hb.
      destruct (read_n s (h_klen h)) as [[k s1]|] eqn:R1.
      + destruct (read_hdr s1) as [[h' s2]|] eqn:R2.
        * destruct Hb as [f' Hb]. rewrite Hb. cbv beta iota.
          assert (Hz' : zip3 (ks ++ [k]) (os ++ [h_opaque h]) (qs ++ [true]) = rev (mkGI k (h_opaque h) true :: acc)).
          { rewrite zip3_snoc by assumption. cbn [rev]. rewrite Hz. reflexivity. }
          assert (Hf' : (length s2 < fuel)%nat).
          { apply read_n_length in R1. apply read_hdr_length in R2. lia. }
          specialize (IH h' s2 (mkGI k (h_opaque h) true :: acc) _ _ _ f' Hz'
                         ltac:(rewrite !app_length; cbn [length]; lia) ltac:(rewrite !app_length; cbn [length]; lia) Hf').
          unfold bind in IH.
          destruct (while_fuel fuel cond body _ s2) as [[[a s1'] t1']|]; [|contradiction].
          destruct (K a s1') as [[[[v e] s2'] t2']|]; [|contradiction].
          unfold agrees2 in *. rewrite IH. unfold pre. cbn [fst snd]. rewrite <- app_assoc. reflexivity.
        * destruct Hb as (v & e & s' & Hb & He). rewrite Hb. cbv beta iota. rewrite HKr.
          unfold agrees2. cbn [app]. rewrite cls_hard by exact He. reflexivity.
      + destruct Hb as (v & e & s' & Hb & He). rewrite Hb. cbv beta iota. rewrite HKr.
        unfold agrees2. cbn [app]. rewrite cls_hard by exact He. reflexivity.
    - rewrite HKl. destruct (h_op h =? fop).
      + destruct (read_n s (h_klen h)) as [[k s1]|].
        * unfold agrees2. cbn [app cls]. rewrite Hmk, zip3_snoc by assumption. cbn [rev]. rewrite Hz. reflexivity.
        * unfold agrees2. cbn [app]. rewrite cls_hard by apply hard_io. reflexivity.
      + destruct (h_op h =? opNoop); unfold agrees2; cbn [app cls]; rewrite Hmk, Hz; reflexivity.
  Qed.
End Batch.

Ltac batch_instance :=
  intros h s; cbv zeta;
  lazymatch goal with
  | |- agrees2 _ _ (bind (while_ ?c ?b ?st) ?k ?s) _ =>
      change (bind (while_ c b st) k s) with (bind (while_fuel (S (length s)) c b st) k s)
  end;
  apply batch_link with (acc := @nil gitem);
  [ reflexivity
  | intros; reflexivity
  | intros ks os qs f h0 s0; cbv beta iota; rh_fields;
    pose proof (readString_spec (h_klen h0) s0) as HS;
    destruct (read_n s0 (h_klen h0)) as [[k s1]|];
    [ pose proof (readRequestHeader_spec s1) as HH;
      destruct (read_hdr s1) as [[h' s2]|];
      [ destruct f; cbn [negb]; unfold bind; rewrite HS; cbv beta iota; cbn [is_nil negb]; rewrite HH;
        cbv beta iota; cbn [is_nil negb]; eexists; unfold ret; cbn [app]; reflexivity
      | destruct HH as (e & s' & HH & He);
        destruct f; cbn [negb]; unfold bind; rewrite HS; cbv beta iota; cbn [is_nil negb]; rewrite HH;
        cbv beta iota; rewrite (proj1 He); cbn [negb];
        eexists _, _, _; (split; [unfold ret; cbn [app]; reflexivity | exact He]) ]
    | unfold bind; rewrite HS; cbv beta iota; rewrite (proj1 (hard_io s0)); cbn [negb];
      eexists _, _, _; split; [reflexivity | apply hard_io] ]
  | intros; reflexivity
  | intros ks os qs f h0 s0; cbv beta iota; rh_fields;
    destruct (h_op h0 =? _);
    [ unfold bind; rewrite readString_spec; destruct (read_n s0 (h_klen h0)) as [[k s1]|]; cbv beta iota;
      [ reflexivity | rewrite (proj1 (hard_io s0)); reflexivity ]
    | destruct (h_op h0 =? opNoop); reflexivity ]
  | reflexivity | reflexivity | reflexivity | lia ].

Lemma readBatchGet_link : forall h s,
  agrees2 Req_GetRequest RtGet (readBatchGet_src (rh_of h) s) (bin_batch RGet opGetQ opGet (S (length s)) h s []).
Proof. unfold readBatchGet_src. batch_instance. Qed.

Lemma readBatchGetE_link : forall h s,
  agrees2 Req_GetRequest RtGetE (readBatchGetE_src (rh_of h) s) (bin_batch RGetE opGetEQ opGetE (S (length s)) h s []).
Proof. unfold readBatchGetE_src. batch_instance. Qed.

(* ---------------- Parse ---------------- *)
Lemma agrees_pre {A} (w : A -> Request) r o t : agrees w r o ->
  agrees w (match r with None => None | Some (b, s2, t2) => Some (b, s2, t ++ t2) end) (pre t o).
Proof.
  unfold agrees. destruct r as [[[[[[a rt] st] e] rest] tr]|]; [|contradiction].
  intros ->. reflexivity.
Qed.

Lemma agrees_wrap {A} (w : A -> Request) (m : rd (A * N * N * gerr)) s o : agrees w (m s) o ->
  agrees (fun x => x) (bind m (fun '(a, b, c, d) => ret (w a, b, c, d)) s) o.
Proof.
  unfold agrees, bind, ret. destruct (m s) as [[[[[[a rt] st] e] rest] tr]|]; [|contradiction].
  intros ->. rewrite app_nil_r. reflexivity.
Qed.

Lemma agrees2_lift {A} (w : A -> Request) rt st (m : rd (A * gerr)) s o : agrees2 w rt (m s) o ->
  agrees (fun x => x)
    (bind m (fun '(a, e) => if negb (is_nil e) then ret (Req_nil, rt, st, e) else ret (w a, rt, st, GNil)) s) o.
Proof.
  unfold agrees2, agrees, bind, ret. destruct (m s) as [[[[a e] rest] tr]|]; [|contradiction].
  intros ->. destruct e; cbn [is_nil negb]; rewrite app_nil_r; reflexivity.
Qed.

Lemma key_link h s (w : bytes -> Request) rt st mkr :
  (forall k, abs_req (w k) rt = mkr k) ->
  agrees (fun x => x)
    (bind (readString_src (h_klen h)) (fun '(key, e) =>
       if negb (is_nil e) then ret (Req_nil, rt, st, e) else ret (w key, rt, st, GNil)) s)
    (bin_key mkr h s).
Proof.
  intros Hw. unfold bind, bin_key. rewrite readString_spec.
  destruct (read_n s (h_klen h)) as [[k s1]|]; cbv beta iota.
  - cbn [is_nil negb]. unfold agrees, ret. cbn [app cls]. rewrite Hw. reflexivity.
  - rewrite (proj1 (hard_io s)). cbn [negb]. close_hard.
Qed.

Lemma exp_key_link h s (w : bytes -> N -> Request) rt st mkr :
  (forall k t, abs_req (w k t) rt = mkr k t) ->
  agrees (fun x => x)
    (bind readUInt32_src (fun '(exptime, e) =>
       if negb (is_nil e) then ret (Req_nil, rt, st, e)
       else bind (readString_src (h_klen h)) (fun '(key, e1) =>
              if negb (is_nil e1) then ret (Req_nil, rt, st, e1) else ret (w key exptime, rt, st, GNil))) s)
    (bin_exp_key mkr h s).
Proof.
  intros Hw. unfold bin_exp_key. unfold bind at 1. rewrite readUInt32_spec.
  destruct (read_n s 4) as [[eb s1]|]; cbv beta iota.
  - cbn [is_nil negb]. unfold bind. rewrite readString_spec.
    destruct (read_n s1 (h_klen h)) as [[k s2]|]; cbv beta iota.
    + cbn [is_nil negb]. unfold agrees, ret. cbn [app cls]. rewrite Hw. reflexivity.
    + rewrite (proj1 (hard_io s1)). cbn [negb]. close_hard.
  - rewrite (proj1 (hard_io s)). cbn [negb]. close_hard.
Qed.

Ltac parse_case :=
  first
  [ apply agrees_wrap; apply setRequest_link; [assumption | intros; reflexivity]
  | apply agrees_wrap; apply appendPrependRequest_link; [assumption | intros; reflexivity]
  | apply agrees2_lift; apply readBatchGet_link
  | apply agrees2_lift; apply readBatchGetE_link
  | apply (key_link _ _ (fun key => Req_GetRequest (mkGetRequest [key] [_] [false] 0 false))); intros; reflexivity
  | apply (key_link _ _ (fun key => Req_DeleteRequest (mkDeleteRequest key _ false))); intros; reflexivity
  | apply (exp_key_link _ _ (fun key t => Req_GATRequest (mkGATRequest key t _ false))); intros; reflexivity
  | apply (exp_key_link _ _ (fun key t => Req_TouchRequest (mkTouchRequest key t _ false))); intros; reflexivity
  | reflexivity ].

Theorem parse_bin_src_link : forall s, bytes_ok s -> parse_bin_src s = parse_bin s.
Proof.
  intros s B. unfold parse_bin_src. apply agrees_run.
  unfold parse_bin, parse_bin_gen, BinaryParser_Parse_src.
  pose proof (readRequestHeader_spec s) as HH. pose proof (read_hdr_ok s) as HO.
  destruct (read_hdr s) as [[h s1]|].
  2: { destruct HH as (e & s' & HH & He). unfold bind. rewrite HH. cbv beta iota zeta.
       rewrite (proj1 He). cbn [negb]. unfold agrees, ret. cbn [app]. rewrite cls_hard by exact He. reflexivity. }
  destruct (HO h s1 B eq_refl) as [Hh Bs1].
  unfold bind at 1. rewrite HH. cbv beta iota zeta. cbn [is_nil negb]. rh_fields.
  apply agrees_pre. unfold bin_dispatch. cbv zeta.
  repeat (match goal with |- agrees _ ((if ?c then _ else _) _) _ => destruct c end; [parse_case|]).
  (* no case: common.ErrUnknownCmd is not one of the four client errors *)
  unfold agrees, ret. reflexivity.
Qed.

(* ---------------- theorems of C07 / C11 carried over to the translated parser ---------------- *)
Lemma src_bin_roundtrip : forall (r : req) (rest : bytes),
  wf_bin r = true -> bytes_ok (enc_bin r ++ rest) -> fst (parse_bin_src (enc_bin r ++ rest)) = PDone r rest.
Proof. intros r rest W B. rewrite parse_bin_src_link by exact B. apply bin_roundtrip. exact W. Qed.

Lemma src_bin_progress : forall s : bytes, bytes_ok s ->
  match fst (parse_bin_src s) with
  | PDone _ rest | PClientErr _ rest => (length rest < length s)%nat
  | PClose => True
  end.
Proof. intros s B. rewrite parse_bin_src_link by exact B. apply (bin_progress true). Qed.

Lemma src_bin_alloc : forall s : bytes,
  bytes_ok s -> Forall (fun a => aev_consistent a /\ aev_bounded a) (snd (parse_bin_src s)).
Proof. intros s B. rewrite parse_bin_src_link by exact B. apply bin_alloc. exact B. Qed.

Lemma src_bin_alloc_sizes : forall s : bytes,
  bytes_ok s -> Forall (fun a => asize a <= adeclared a) (snd (parse_bin_src s)).
Proof. intros s B. rewrite parse_bin_src_link by exact B. apply bin_alloc_sizes. exact B. Qed.

Lemma src_bin_inconsistent : forall (s : bytes) (h : hdr) (s1 : bytes),
  bytes_ok s -> read_hdr s = Some (h, s1) ->
  (is_set_op (h_op h) = true /\ h_total h < h_elen h + h_klen h) \/
  (is_cat_op (h_op h) = true /\ h_total h < h_klen h) ->
  parse_bin_src s = (PClose, [AHdr]).
Proof. intros s h s1 B R H. rewrite parse_bin_src_link by exact B. exact (bin_inconsistent s h s1 R H). Qed.

(* the translated parser never gets stuck and never answers with a client error *)
Lemma src_bin_trace_starts : forall s, bytes_ok s -> exists tr, snd (parse_bin_src s) = AHdr :: tr.
Proof.
  intros s B. rewrite parse_bin_src_link by exact B. unfold parse_bin, parse_bin_gen.
  destruct (read_hdr s) as [[h s1]|]; eexists; reflexivity.
Qed.
