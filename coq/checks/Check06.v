(* Check06.v — the batching pool: function-level comparison of conn.batchIntoBuffer and of the
   get retry tracker with handlers/Batched.v, and handler-level runs of the real batched
   handler compared with the direct handler model (C06, C13). *)
From Coq Require Import String.
From Rend Require Import base.Bytes base.Harness gen.Consts_gen spec.MapSpec orca.Types handlers.Std
  handlers.Batched handlers.BatchedRetry checks.Check04.
Open Scope N_scope.

Inductive case06 :=
(* batchIntoBuffer(reqs) with random base [base]: the requests found in the written buffer in
   order (opaque, opcode, key), the routing table (opaque -> handle), per-channel counts *)
| K6Batch (base : N) (reqs : list qreq) (wire : list (N * N * bytes)) (tab : list (N * handle)) (counts : list (nat * nat))
(* a sequence of calls through the real batched handler (one caller at a time):
   clock, keys, per step: request, result, backend contents afterwards *)
| K6Seq (now : N) (keys : list bytes) (steps : list (hreq * hres * list (bytes * entry)))
(* several callers at once on private keys: per caller its calls and results (order across
   callers is not observable and not needed) *)
| K6Conc (now : N) (callers : list (list (hreq * hres)))
(* the retry bookkeeping of a multi-key get: requested items, results served so far, the
   request that is re-submitted *)
| K6Retry (items : list gitem) (served : list gres) (retry : list gitem)
(* Handler.doRequest: one single-key call through a pool of [tries]/2 connections on a backend
   holding [setup]; submission i is cut as [cuts] says (Some (0, 0): before the backend applied
   it, Some (0, 1): after it applied it, before the reply); the result and the backend contents *)
| K6Do (now : N) (keys : list bytes) (setup : list (bytes * entry)) (tries : nat) (cuts : list (option (nat * nat)))
       (q : hreq) (obs : hres) (dump : list (bytes * entry)).

Definition opcode_of (w : wreq) : N :=
  match w with
  | WSet MSet _ _ _ _ => opSet | WSet MAdd _ _ _ _ => opAdd | WSet MReplace _ _ _ _ => opReplace
  | WCat false _ _ => opAppend | WCat true _ _ => opPrepend
  | WDelete _ => opDelete | WTouch _ _ => opTouch | WGat _ _ => opGat | WGet _ => opGet | WGetE _ => opGetE
  end.
Definition wkey (w : wreq) : bytes :=
  match w with
  | WSet _ k _ _ _ | WCat _ k _ | WDelete k | WTouch k _ | WGat k _ | WGet k | WGetE k => k
  end.
Definition handle_eqb (a b : handle) : bool :=
  bytes_eqb (hd_key a) (hd_key b) && (hd_opaque a =? hd_opaque b) && Bool.eqb (hd_quiet a) (hd_quiet b) &&
  Nat.eqb (hd_chan a) (hd_chan b).

Fixpoint all2 {A B} (f : A -> B -> bool) (a : list A) (b : list B) : bool :=
  match a, b with
  | [], [] => true
  | x :: a', y :: b' => f x y && all2 f a' b'
  | _, _ => false
  end.

Fixpoint nodupN (l : list N) : bool :=
  match l with [] => true | x :: r => negb (existsb (N.eqb x) r) && nodupN r end.

Fixpoint count_items (x : gitem) (l : list gitem) : nat :=
  match l with [] => O | y :: r => (if same_item x y then 1 else 0) + count_items x r end.
Definition same_multiset (a b : list gitem) : bool :=
  forallb (fun x => Nat.eqb (count_items x a) (count_items x b)) (a ++ b).

Fixpoint seq_run (steps : list (hreq * hres * list (bytes * entry))) (now : N) (keys : list bytes) (s : store) : N :=
  match steps with
  | [] => 0
  | (q, obs, dump) :: rest =>
      let '(s', r) := std_exec s now q in
      if hres_eqb r obs && stores_agree now keys s' (of_dump dump) then seq_run rest now keys s' else 2
  end.

Fixpoint caller_run (calls : list (hreq * hres)) (now : N) (s : store) : bool :=
  match calls with
  | [] => true
  | (q, obs) :: rest => let '(s', r) := std_exec s now q in hres_eqb r obs && caller_run rest now s'
  end.

Definition check06 (c : case06) : N :=
  match c with
  | K6Batch base reqs wire tab counts =>
      let es := batch_entries base reqs in
      let corr :=
        all2 (fun (e : N * wreq * handle) (w : N * N * bytes) => let '(o, wr, _) := e in let '(o', opc, k) := w in
                              (o =? o') && (opcode_of wr =? opc) && bytes_eqb (wkey wr) k) es wire &&
        forallb (fun e => let '(o, _, h) := e in
                          existsb (fun t => (fst t =? o) && handle_eqb (snd t) h) tab) es &&
        (length tab =? length es)%nat &&
        forallb (fun r => existsb (fun cn => Nat.eqb (fst cn) (q_chan r) && Nat.eqb (snd cn) (expected (q_req r))) counts) reqs in
      (* routing oracle: opaques of one batch pairwise distinct; every table entry points to a
         channel that registered a request for that key; one expected reply per key *)
      let oracle :=
        nodupN (map fst tab) && nodupN (map (fun w => fst (fst w)) wire) &&
        forallb (fun t => existsb (fun r => Nat.eqb (q_chan r) (hd_chan (snd t)) &&
                                             existsb (fun k => bytes_eqb k (hd_key (snd t)))
                                                     (match q_req r with
                                                      | HGet items | HGetE items => map gi_key items
                                                      | HSet _ k _ _ _ | HCat _ k _ | HDelete k | HTouch k _ | HGat k _ _ => [k] end)) reqs) tab &&
        (length tab =? fold_right (fun r a => expected (q_req r) + a) 0 reqs)%nat in
      if negb oracle then (if corr then 3 else 2) else if negb corr then 1 else 0
  | K6Seq now keys steps => seq_run steps now keys empty_store
  | K6Conc now callers => if forallb (fun calls => caller_run calls now empty_store) callers then 0 else 2
  | K6Retry items served retry =>
      let pending := fold_left (fun p g => remove_item (item_of_res g) p) served items in
      let corr := same_multiset retry (retry_request pending) in
      (* nothing requested may be dropped from the retry: pending = requested - served *)
      let oracle := same_multiset retry pending in
      if negb oracle then (if corr then 3 else 2) else if negb corr then 1 else 0
  | K6Do now keys setup tries cuts q obs dump =>
      let s0 := of_dump setup in
      let '(s', r) := do_request false tries (repeat 0 tries) cuts q s0 now in
      let after := of_dump dump in
      let corr := hres_eqb r obs && stores_agree now keys s' after in
      (* at most once: the backend holds what it held before or what ONE application leaves;
         an acknowledged call was applied *)
      let once := fst (std_exec s0 now q) in
      let oracle := (stores_agree now keys s0 after || stores_agree now keys once after) &&
                    (match obs with HDone => stores_agree now keys once after | _ => true end) in
      if negb oracle then (if corr then 3 else 2) else if negb corr then 1 else 0
  end.
