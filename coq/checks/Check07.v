(* Check07.v — correspondence + oracle for C07, evaluated on what the real parsers decoded.
   Three-way comparison: the generator's intent, the model's decode of the bytes built by the
   harness's own encoder (harness/wire), the real parser's decode (+ bytes left unread). *)
From Rend Require Import base.Bytes base.Harness gen.Consts_gen spec.MapSpec orca.Types proto.Resp
  proto.ReqCommon proto.BinReq proto.TextReq.
Open Scope N_scope.

Inductive case07 :=
(* a pipeline: intended requests, trailing junk appended after them, the bytes on the wire,
   what Parse returned (in order), status (0 = every Parse returned a nil error, 1 = one
   failed) and the number of bytes left unread after |intent| calls *)
| KPipe (p : proto) (intent : list req) (junk wire : bytes) (seen : list req) (status unread : N)
(* one Parse on near-valid bytes: class 0 = request, 1 = client error (detail = error
   number), 2 = any other error; bytes left unread *)
| KRaw (p : proto) (wire : bytes) (class detail : N) (seen : option req) (unread : N)
(* first byte of a connection and the protocol the listener's selection loop chose *)
| KFirst (b : N) (chosen : proto).

Definition parser_of (p : proto) : bytes -> pout := match p with Bin => parse_bin | Text => parse_text end.
Definition enc_of (p : proto) : req -> bytes := match p with Bin => enc_bin | Text => enc_text end.
Definition wf_of (p : proto) : req -> bool := match p with Bin => wf_bin | Text => wf_text end.

(* For the oracle (not for the theorems) text keys may also contain bytes >= 128 (UTF-8), as
   memcached allows, as long as the key starts and ends with a printable ASCII byte: the parser
   splits the line at 0x20 only and trims white space - also Unicode white space - only at the
   ends of the line. *)
Definition keybyte_loose (b : N) : bool := ((33 <=? b) && (b <=? 126)) || ((128 <=? b) && (b <=? 255)).
Definition tkey_loose (k : bytes) : bool :=
  match k, rev k with
  | a :: _, z :: _ => keybyte_okb a && keybyte_okb z && forallb keybyte_loose k
  | _, _ => false
  end.
Definition loosen (r : req) : req :=
  (* the same request with every key replaced by a printable stand-in of the same length when it is loosely fine *)
  let fix1 := fun k : bytes => if tkey_loose k then map (fun _ => 107) k else k in
  match r with
  | RSet m k d f t o q => RSet m (fix1 k) d f t o q
  | RCat fr k d o q => RCat fr (fix1 k) d o q
  | RGet items no ne => RGet (map (fun g => mkGI (fix1 (gi_key g)) (gi_opaque g) (gi_quiet g)) items) no ne
  | RDelete k o => RDelete (fix1 k) o
  | RTouch k t o => RTouch (fix1 k) t o
  | _ => r
  end.
Definition wf_chk (p : proto) (r : req) : bool :=
  match p with Bin => wf_bin r | Text => wf_text (loosen r) end.

Fixpoint parse_n (p : bytes -> pout) (n : nat) (s : bytes) : list req * N * bytes :=
  match n with
  | O => ([], 0, s)
  | S m => match fst (p s) with
           | PDone r rest => let '(l, st, r') := parse_n p m rest in (r :: l, st, r')
           | _ => ([], 1, s)
           end
  end.

Definition proto_eqb (a b : proto) : bool :=
  match a, b with Bin, Bin | Text, Text => true | _, _ => false end.

Definition check07 (c : case07) : N :=
  match c with
  | KPipe p intent junk wire seen status unread =>
      let '(ml, mst, mrest) := parse_n (parser_of p) (length intent) wire in
      let model_ok := reqs_eqb ml seen && (mst =? status) && ((status =? 1) || (len mrest =? unread)) in
      if forallb (wf_chk p) intent then
        let oracle_ok := (status =? 0) && reqs_eqb seen intent && (unread =? len junk) in
        let enc_ok := bytes_eqb wire (concat (map (enc_of p) intent) ++ junk) in
        if negb oracle_ok then (if model_ok then 3 else 2)
        else if model_ok && enc_ok then 0 else 1
      else if model_ok then 0 else 1
  | KRaw p wire class detail seen unread =>
      match fst (parser_of p wire), seen with
      | PDone r rest, Some r' =>
          if (class =? 0) && req_eqb r r' && (len rest =? unread) then 0 else 1
      | PClientErr e rest, None =>
          if (class =? 1) && (e =? detail) && (len rest =? unread) then 0 else 1
      | PClose, None => if class =? 2 then 0 else 1
      | _, _ => 1
      end
  | KFirst b chosen =>
      let model_ok := match select_proto default_protocols b with
                      | Some m => proto_eqb m chosen
                      | None => false
                      end in
      let oracle_ok := if b =? 128 then proto_eqb chosen Bin
                       else if (97 <=? b) && (b <=? 122) then proto_eqb chosen Text else true in
      if negb oracle_ok then (if model_ok then 3 else 2) else if model_ok then 0 else 1
  end.
