(* Check19Proofs.v — what the boolean pieces of checks/Check19.v mean in terms of the model and of the
   hypotheses of the C19 theorems. *)
From Rend Require Import base.Bytes base.Harness cluster.Ketama cluster.KetamaProofs checks.Check19.
From Coq Require Import Sorting.Sorted.
Open Scope N_scope.

(* the model side of the comparison is the model's lookup at every probe *)
Lemma model_owners_eq r hs : model_owners r hs = map (fun h => obs_of (lookup r h)) hs.
Proof. unfold model_owners. rewrite lookup_all_eq, map_map. reflexivity. Qed.

Lemma model_owners_asc_eq r hs :
  model_owners_asc (ascending hs) r hs = map (fun h => obs_of (lookup r h)) hs.
Proof.
  rewrite <- model_owners_eq. unfold model_owners_asc, model_owners, lookup_all.
  destruct (ascending hs); reflexivity.
Qed.

(* sortedb decides the ring-sortedness hypothesis of is_ring *)
Lemma sortedb_sorted (r : ring) : sortedb r = true -> Sorted le_point r.
Proof.
  induction r as [|a t IH]; [constructor|].
  cbn [sortedb]. destruct t as [|b t'].
  - intros _. repeat constructor.
  - intros H. apply andb_true_iff in H. destruct H as [Hab Ht].
    constructor; [auto|]. constructor. unfold le_point. lia.
Qed.

(* on a sorted ring, no adjacent pair with equal point and different label = every point has one owner *)
Lemma collision_tail (a : N * N) t : collision (a :: t) = false -> collision t = false.
Proof. cbn [collision]. destruct t; [reflexivity|]. intros H. apply orb_false_iff in H. apply H. Qed.

Lemma head_label (t : ring) : forall a : N * N,
  StronglySorted le_point (a :: t) -> collision (a :: t) = false ->
  forall l, In (fst a, l) t -> l = snd a.
Proof.
  induction t as [|b t' IH]; intros a Hs Hc l Hin; [destruct Hin|].
  pose proof (collision_tail _ _ Hc) as Hc'.
  cbn [collision] in Hc. apply orb_false_iff in Hc. destruct Hc as [Hab _].
  apply StronglySorted_inv in Hs. destruct Hs as [Hs' Hall].
  assert (Hsame : fst b = fst a -> snd b = snd a).
  { intros E. apply andb_false_iff in Hab. destruct Hab as [Hab | Hab]; [lia|].
    apply negb_false_iff in Hab. apply N.eqb_eq in Hab. auto. }
  destruct Hin as [E | Hin].
  - subst b. cbn [fst snd] in Hsame. apply Hsame. reflexivity.
  - assert (Hb : fst b = fst a).
    { inversion Hall as [|? ? Hab' _]; subst.
      pose proof Hs' as Hs''. apply StronglySorted_inv in Hs''. destruct Hs'' as [_ Hall'].
      rewrite Forall_forall in Hall'. specialize (Hall' _ Hin).
      unfold le_point in *. cbn [fst] in *. lia. }
    rewrite <- (Hsame Hb). apply (IH b Hs' Hc'). rewrite Hb. exact Hin.
Qed.

Lemma no_collision_owner_unique (r : ring) :
  sortedb r = true -> collision r = false -> owner_unique r.
Proof.
  intros Hs Hc.
  assert (Hss : StronglySorted le_point r) by (apply sorted_strong, sortedb_sorted, Hs).
  clear Hs. induction r as [|a t IH]; intros p l1 l2 H1 H2; [destruct H1|].
  pose proof (head_label t a Hss Hc) as Hhead.
  apply StronglySorted_inv in Hss. destruct Hss as [Hst _].
  destruct H1 as [E1 | H1], H2 as [E2 | H2].
  - congruence.
  - subst a. cbn [fst snd] in Hhead. symmetry. apply Hhead. exact H2.
  - subst a. cbn [fst snd] in Hhead. apply Hhead. exact H1.
  - apply (IH (collision_tail _ _ Hc) Hst p l1 l2 H1 H2).
Qed.

(* hence: on a ring the check found sorted and collision-free, the model lookup IS the
   specification's owner, and the conclusions of the C19 theorems apply to it *)
Lemma checked_ring_lookup (r : ring) h l :
  sortedb r = true -> collision r = false ->
  (lookup r h = Some l <-> owner_spec r h l).
Proof.
  intros Hs Hc. split.
  - apply lookup_sound, sortedb_sorted, Hs.
  - apply lookup_complete; [apply sortedb_sorted, Hs | apply no_collision_owner_unique; auto].
Qed.
