(* Check19K.v — correspondence of the CONCRETE ring (cluster/KetamaConcrete.v: MD5 points, float32
   round count, (point,label) sort) with what the real Continuum (ketama.go) built; sub-command c19k.

   One case = one bucket list.  The harness lists the buckets (label bytes, weight) in the order it
   gave them to cluster.New, exports the real ring through the hook (cluster.VerifRing) as
   (point, index of the bucket's label in the list), and asks Continuum.Hash(key) for some keys.
   The check recomputes the whole ring from the labels and weights alone — every digest with the
   Coq MD5, the round count with the SpecFloat float32/float64 computation, the sort — and compares it
   entry by entry (points, order, owners; hence also the number of points per node), and recomputes
   every key lookup (MD5 of the key, first four bytes little endian, first ring entry at or above).

   check19k returns 0 = the model reproduces the ring and every lookup, and the oracle holds;
   1 = model and implementation differ, the oracle holds on the observation; 2 = the oracle fails
   (3: and the model reproduces the observation).  Oracle (the part of C19 this tie is about): every
   listed bucket of weight >= 1 owns at least one entry of the real ring (it can be chosen at all), the
   real ring is sorted by point, and every key was routed to a listed bucket. *)
From Rend Require Import base.Bytes base.Harness cluster.Ketama cluster.MD5 cluster.KetamaFloat cluster.KetamaConcrete.
Open Scope N_scope.

Definition case19k : Type :=
  (list (bytes * N)        (* buckets as listed: label, weight *)
   * bytes                 (* real ring, 5 bytes per entry: point (big endian), index of the label *)
   * list (bytes * N))%type.   (* keys: key bytes, index of the label Hash(key) returned (255 = nil) *)

Fixpoint dec_ring5 (l : bytes) : list (N * N) :=
  match l with
  | a :: b :: c :: d :: i :: r => (a * 16777216 + b * 65536 + c * 256 + d, i) :: dec_ring5 r
  | _ => []
  end.

Definition label_at (bs : list (bytes * N)) (i : N) : bytes := fst (nth (N.to_nat i) bs ([], 0)).

Definition entryb_eqb (a b : N * bytes) : bool := (fst a =? fst b) && bytes_eqb (snd a) (snd b).

Fixpoint sorted_points (r : list (N * N)) : bool :=
  match r with
  | a :: t => match t with b :: _ => (fst a <=? fst b) && sorted_points t | [] => true end
  | [] => true
  end.

(* index of the first bucket with this label (the harness numbers a label by its first occurrence) *)
Fixpoint first_idx (l : bytes) (bs : list (bytes * N)) (i : N) : N :=
  match bs with
  | [] => i
  | b :: t => if bytes_eqb (fst b) l then i else first_idx l t (i + 1)
  end.

Definition idx_mask (r : list (N * N)) : N := fold_left (fun acc e => N.lor acc (N.shiftl 1 (snd e))) r 0.

Definition check19k (c : case19k) : N :=
  let '(bs, ringb, keys) := c in
  let n := len bs in
  let real_idx := dec_ring5 ringb in
  let real := map (fun e => (fst e, label_at bs (snd e))) real_idx in
  let model := ring_of_w bs in
  let ring_ok := list_eqb entryb_eqb real model in
  let keys_ok :=
    forallb (fun ko => match lookup model (ketama_hash (fst ko)) with
                       | Some l => (snd ko <? n) && bytes_eqb l (label_at bs (snd ko))
                       | None => snd ko =? 255
                       end) keys in
  let mask := idx_mask real_idx in
  let oracle :=
    forallb (fun b => (snd b =? 0) || N.testbit mask (first_idx (fst b) bs 0)) bs
    && sorted_points real_idx
    && forallb (fun ko => snd ko <? n) keys in
  if oracle then (if ring_ok && keys_ok then 0 else 1)
  else if ring_ok && keys_ok then 3 else 2.
