(* Check15l.v — correspondence + oracle for the accept-loop model (server/Listen.v), evaluated on
   what the real server.ListenAndServe did for one random well-formed event sequence.

   The harness numbers backend connections by construction order, like the model numbers handlers:
   the k-th accepted connection (k = 0, 1, ...) gets L1 handler 2k and L2 handler 2k+1 (the accept
   loop constructs L1 then L2). In an L1-only deployment the L2 handler is the nil handler: it has
   no backend connection, its (odd) id is invisible. *)
From Rend Require Import base.Bytes base.Harness server.Listen.
Open Scope N_scope.

(* what the harness saw for one event *)
Inductive iobs :=
| INone
| IMade (l : list N)           (* backend connections opened by the accept, ascending *)
| IReq (l1 l2 : list N)        (* backend connections that received the request's key: L1, L2 *)
| IClosed (l : list N).        (* backend connections that the event closed, ascending *)

(* (two tiers?, [(event, observation, backend connections open after the event, ascending)]) *)
Definition case15l : Type := bool * list (event * iobs * list N).

Definition nl_eqb : list N -> list N -> bool := list_eqb N.eqb.
Definition iobs_eqb (a b : iobs) : bool :=
  match a, b with
  | INone, INone => true
  | IMade x, IMade y => nl_eqb x y
  | IReq x1 x2, IReq y1 y2 => nl_eqb x1 y1 && nl_eqb x2 y2
  | IClosed x, IClosed y => nl_eqb x y
  | _, _ => false
  end.

Definition vis (l2 : bool) (h : N) : bool := l2 || N.even h.

(* the model's observation, as far as the harness can see it *)
Definition proj (l2 : bool) (o : obs) : iobs :=
  match o with
  | ONone => INone
  | OMade a b => IMade (filter (vis l2) [a; b])
  | OReq a b => IReq [a] (if l2 then [b] else [])
  | OClosed hs => IClosed (filter (vis l2) hs)
  end.

Fixpoint model_agrees (l2 : bool) (s : lstate) (t : list (event * iobs * list N)) : bool :=
  match t with
  | [] => true
  | (e, io, op) :: r =>
      let so := step s e in
      iobs_eqb (proj l2 (snd so)) io && nl_eqb (filter (vis l2) (open (fst so))) op &&
      model_agrees l2 (fst so) r
  end.

(* ---- the properties on the observation alone (no model state) ---- *)
(* the position of c's accept among the accepts *)
Fixpoint accept_index (c : cid) (evs : list event) (k : N) : option N :=
  match evs with
  | [] => None
  | EAccept c' :: r => if c =? c' then Some k else accept_index c r (k + 1)
  | _ :: r => accept_index c r k
  end.

Definition own_pair (l2 : bool) (k : N) : list N := filter (vis l2) [2 * k; 2 * k + 1].
Definition remove_all (hs l : list N) : list N := filter (fun h => negb (memb h hs)) l.

Fixpoint oracle_from (l2 : bool) (all : list event) (before : list N) (t : list (event * iobs * list N)) : bool :=
  match t with
  | [] => true
  | (e, io, after) :: r =>
      (match e with
       | ERequest c =>
           (* (a) carried by exactly the pair constructed at c's accept *)
           match accept_index c all 0, io with
           | Some k, IReq l1 l2s => nl_eqb l1 [2 * k] && nl_eqb l2s (if l2 then [2 * k + 1] else [])
           | _, _ => false
           end
       | EClose c | EEOF0 c =>
           (* (b) closes exactly c's pair, which was open, and nothing else *)
           match accept_index c all 0, io with
           | Some k, IClosed l =>
               nl_eqb l (own_pair l2 k) && forallb (fun h => memb h before) (own_pair l2 k) &&
               nl_eqb after (remove_all (own_pair l2 k) before)
           | _, _ => false
           end
       | _ => true
       end) && oracle_from l2 all after r
  end.

Definition closed_in (evs : list event) (c : cid) : bool :=
  existsb (fun e => match e with EClose c' | EEOF0 c' => c =? c' | _ => false end) evs.
Definition all_closed (evs : list event) : bool :=
  forallb (fun e => match e with EAccept c => closed_in evs c | _ => true end) evs.

(* (c) every accepted connection closed -> nothing open at the end *)
Definition oracle_end (evs : list event) (t : list (event * iobs * list N)) : bool :=
  negb (all_closed evs) || match rev t with (_, _, after) :: _ => nl_eqb after [] | [] => true end.

Definition oracle15l (c : case15l) : bool :=
  let '(l2, t) := c in
  let evs := map (fun x => fst (fst x)) t in
  oracle_from l2 evs [] t && oracle_end evs t.

Definition check15l (c : case15l) : N :=
  let '(l2, t) := c in
  let agree := wf (map (fun x => fst (fst x)) t) && model_agrees l2 init t in
  if negb (oracle15l c) then (if agree then 3 else 2)
  else if agree then 0 else 1.
