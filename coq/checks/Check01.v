(* Check01.v — evaluated on full-stack runs (real parser, server loop, orchestrator, std
   handlers, two fake backends): correspondence with the model and the single-map oracle.
   Used by C01 (replies + contents), C02 (evictions, L1 subset of L2), C09 (deadlines). *)
From Coq Require Import String.
From Rend Require Import base.Bytes base.Harness gen.Consts_gen spec.MapSpec orca.Types handlers.Std
  orca.Orcas proto.Resp proto.Frames proto.FramesSpec handlers.ChunkFmt handlers.Chunked.
Open Scope N_scope.

Inductive orcakind := KL1Only | KL1L2 | KL1L2Batch.
Record cfg := mkCfg { c_orca : orcakind; c_locked : bool }.

Definition orca_of (c : cfg) : req -> prog :=
  let base := match c_orca c with KL1Only => l1only | KL1L2 => l1l2 | KL1L2Batch => l1l2batch end in
  if c_locked c then locked base else base.

Record step01 := mkStep {
  s_cfg : cfg;                       (* the orchestrator of the connection this request went to *)
  s_now : N;
  s_evict : list bytes;              (* keys removed from L1 before the request *)
  s_req : req;
  s_reply : bytes;                   (* bytes the client received for this request *)
  s_ref : bytes;                     (* reply to the same request in the eviction-free run of the same history (C02) *)
  s_closed : bool;                   (* the server closed the connection *)
  s_l1 : list (bytes * entry);       (* backend contents after the request *)
  s_l2 : list (bytes * entry) }.

Record case01 := mkCase01 {
  k_proto : proto; k_two : bool (* L2 present *); k_keys : list bytes; k_steps : list step01 }.

(* ---- the single-map oracle ---- *)
Definition cmd_of (r : req) : option cmd :=
  match r with
  | RSet m k d f ttl _ _ => Some (CSet m k d f ttl)
  | RCat fr k d _ _ => Some (CCat fr k d)
  | RDelete k _ => Some (CDelete k)
  | RTouch k ttl _ => Some (CTouch k ttl)
  | RGat k ttl _ => Some (CGat k ttl)
  | RGet items _ _ | RGetE items _ _ => Some (CGet (map gi_key items))
  | _ => None
  end.

Fixpoint is_prefix (a b : bytes) : bool :=
  match a, b with
  | [], _ => true
  | x :: a', y :: b' => (x =? y) && is_prefix a' b'
  | _ :: _, [] => false
  end.

(* remove the first non-empty frame that is a prefix of obs *)
Fixpoint take_frame (frames : list bytes) (obs : bytes) : option (list bytes * bytes) :=
  match frames with
  | [] => None
  | f :: r =>
      match f with
      | [] => match take_frame r obs with Some (r', o') => Some (r', o') | None => None end
      | _ => if is_prefix f obs then Some (r, skipn (length f) obs)
             else match take_frame r obs with Some (r', o') => Some (f :: r', o') | None => None end
      end
  end.
Fixpoint match_frames (fuel : nat) (frames : list bytes) (obs : bytes) : bool :=
  match obs with
  | [] => forallb (fun f => match f with [] => true | _ => false end) frames
  | _ => match fuel with
         | O => false
         | S fu => match take_frame frames obs with
                   | Some (fr', obs') => match_frames fu fr' obs'
                   | None => false
                   end
         end
  end.
(* obs = (frames in any order) ++ endf *)
Definition frames_then_end (frames : list bytes) (endf obs : bytes) : bool :=
  let n := (length obs - length endf)%nat in
  (length endf <=? length obs)%nat && bytes_eqb (skipn n obs) endf &&
  match_frames (S (length frames)) frames (firstn n obs).

(* a well-formed failure reply for a refused write/delete/touch *)
Definition is_fail_reply (p : proto) (r : req) (obs : bytes) : bool :=
  match p with
  | Text => bytes_eqb obs (asc "NOT_FOUND" ++ crlf) || bytes_eqb obs (asc "NOT_STORED" ++ crlf)
  | Bin => (length obs =? 24)%nat && (nth 0 obs 0 =? magicResponse) &&
           (let st := rd16 (skipn 6 obs) in (st =? statusKeyEnoent) || (st =? statusKeyExists) || (st =? statusNotStored)) &&
           (rd32 (skipn 8 obs) =? 0) && (rd32 (skipn 12 obs) =? req_opaque r)
  end.

Definition get_frame (p : proto) (gete : bool) (it : gitem) (v : option (bytes * N * N)) : bytes :=
  let g := match v with
           | Some (d, f, x) => mkGR (gi_key it) d f x (gi_opaque it) (gi_quiet it) false
           | None => mkGR (gi_key it) [] 0 0 (gi_opaque it) (gi_quiet it) true
           end in
  render p (if gete then PGetE g else PGet g).

Fixpoint zip_frames (p : proto) (gete : bool) (items : list gitem) (vs : list (option (bytes * N * N))) : list bytes :=
  match items, vs with
  | it :: ir, v :: vr => get_frame p gete it v :: zip_frames p gete ir vr
  | _, _ => []
  end.

(* the reply a single map with contents [s] (before the command) and outcome [o] warrants *)
Definition oracle_reply (p : proto) (s : store) (now : N) (r : req) (o : outcome) (obs : bytes) : bool :=
  match r, o with
  | RSet _ _ _ _ _ opq q, OOk | RCat _ _ _ opq q, OOk => bytes_eqb obs (render p (PStored (rtype r) opq q))
  | RDelete _ opq, OOk => bytes_eqb obs (render p (PDelete opq))
  | RTouch _ _ opq, OOk => bytes_eqb obs (render p (PTouch opq))
  | RSet _ _ _ _ _ _ _, _ | RCat _ _ _ _ _, _ | RDelete _ _, _ | RTouch _ _ _, _ => is_fail_reply p r obs
  | RGat k _ opq, OVals [v] =>
      bytes_eqb obs (render p (PGat (match v with
                                     | Some (d, f) => mkGR k d f 0 opq false false
                                     | None => mkGR k [] 0 0 opq false true end)))
  | RGet items no ne, OVals vs =>
      frames_then_end (zip_frames p false items (map (fun v => match v with Some (d, f) => Some (d, f, 0) | None => None end) vs))
                      (render p (PGetEnd no ne)) obs
  | RGetE items no ne, OVals _ =>
      frames_then_end (zip_frames p true items
                         (map (fun it => match live now s (gi_key it) with
                                         | Some e => Some (e_data e, e_flags e, remaining now (e_dl e))
                                         | None => None end) items))
                      (render p (PGetEnd no ne)) obs
  | RNoop opq, _ => bytes_eqb obs (render p (PNoop opq))
  | RVersion opq, _ => bytes_eqb obs (render p (PVersion opq))
  | RQuit opq q, _ => bytes_eqb obs (render p (PQuit opq q))
  | RUnknown, _ => bytes_eqb obs (render p (PError 0 RtUnknown EUnknownCmd false))
  | _, _ => true
  end.

(* every live L1 entry is live in L2 with the same value and flags (C02) *)
Definition l1_subset_l2 (now : N) (keys : list bytes) (l1 l2 : store) : bool :=
  forallb (fun k => match live now l1 k with
                    | None => true
                    | Some e1 => match live now l2 k with
                                 | Some e2 => bytes_eqb (e_data e1) (e_data e2) && (e_flags e1 =? e_flags e2)
                                 | None => false end end) keys.
(* every tier that holds a live copy holds it with the map's deadline (C09) *)
Definition deadlines_ok (now : N) (keys : list bytes) (s t : store) : bool :=
  forallb (fun k => match live now t k with
                    | None => true
                    | Some e => match live now s k with Some es => dl_eqb (e_dl e) (e_dl es) | None => false end
                    end) keys.
(* data and flags of the authoritative tier equal the map's *)
Definition contents_ok (now : N) (keys : list bytes) (s t : store) : bool :=
  forallb (fun k => match live now s k, live now t k with
                    | Some a, Some b => bytes_eqb (e_data a) (e_data b) && (e_flags a =? e_flags b)
                    | None, None => true
                    | _, _ => false end) keys.

Definition evict (l1 : store) (ks : list bytes) : store := fold_left (fun s k => upd s k None) ks l1.

(* mode: 1 = C01 (replies, contents), 2 = C02 (replies, L1 subset L2), 9 = C09 (deadlines in
   every tier, served-iff). Result: 0 ok / 1 / 2 / 3 as in base/Harness.v *)
Fixpoint run01 (mode : N) (p : proto) (two : bool) (keys : list bytes) (steps : list step01)
               (l1 l2 s : store) : N :=
  match steps with
  | [] => 0
  | st :: rest =>
      let now := s_now st in
      let r := s_req st in
      let l1e := evict l1 (s_evict st) in
      let '(l1', l2', calls, cst) := serve1 std_exec std_exec (orca_of (s_cfg st)) r l1e l2 now in
      let '(s', o) := match cmd_of r with Some c => spec_step s now c | None => (s, OOk) end in
      let d1 := of_dump (s_l1 st) in
      let d2 := of_dump (s_l2 st) in
      let auth := if two then d2 else d1 in
      let closed_ok := negb (s_closed st && negb (match r with RQuit _ _ => true | _ => false end)) in
      let oracle :=
        (* C14: the connection observes exactly the replies it observes alone (the model's solo run) *)
        if mode =? 14 then bytes_eqb (render_all p calls) (s_reply st)
        else if mode =? 1 then closed_ok && oracle_reply p s now r o (s_reply st) && contents_ok now keys s' auth
        else if mode =? 2 then
          (* evictions are invisible: same reply as the eviction-free run (byte for byte, or both
             a correct frame permutation), and L1 never disagrees with L2 *)
          closed_ok &&
          (bytes_eqb (s_reply st) (s_ref st) ||
           (oracle_reply p s now r o (s_reply st) && oracle_reply p s now r o (s_ref st))) &&
          (if two then l1_subset_l2 now keys d1 d2 else true)
        else if mode =? 8 then
          (* reply discipline: complete well-formed frames, one reply per request, one terminator per get *)
          closed_ok &&
          match decode p (s_reply st) with
          | Some fs => discipline p r (hits_of s now r) (loud_misses_of s now r) fs
          | None => false
          end
        else deadlines_ok now keys s' d1 && (if two then deadlines_ok now keys s' d2 else true) &&
             contents_ok now keys s' auth in
      let corr :=
        bytes_eqb (render_all p calls) (s_reply st) &&
        Bool.eqb (s_closed st) (match cst with Closed => true | Open => false end) &&
        (* mode 14: many connections share the backends, only this connection's replies are compared *)
        ((mode =? 14) || (stores_agree now keys l1' d1 && (if two then stores_agree now keys l2' d2 else true))) in
      if negb oracle then (if corr then 3 else 2)
      else if negb corr then
        (* model and implementation parted at this step while the oracle still holds: go on from
           the stores the implementation was OBSERVED to have and see whether the oracle fails on
           what it does later (then the history is a counterexample, not just a broken tie) *)
        (if mode =? 14 then 1
         else match run01 mode p two keys rest d1 d2 s' with 0 => 1 | 1 => 1 | _ => 2 end)
      else run01 mode p two keys rest l1' l2' s'
  end.

Definition check01 (mode : N) (c : case01) : N :=
  run01 mode (k_proto c) (k_two c) (k_keys c) (k_steps c) empty_store empty_store empty_store.

(* ---- debugging aid: the first failing step with the three behaviours side by side ---- *)
Record dbg01 := mkDbg { d_step : N; d_oracle_reply : bool; d_oracle_state : bool; d_corr_reply : bool;
                        d_corr_closed : bool; d_corr_l1 : bool; d_corr_l2 : bool;
                        d_model_reply : bytes; d_obs_reply : bytes; d_req : req;
   d_views : list (bytes * list (option (N * N * deadline))) }.
Fixpoint debug01 (mode : N) (p : proto) (two : bool) (keys : list bytes) (steps : list step01)
               (l1 l2 s : store) (i : N) : option dbg01 :=
  match steps with
  | [] => None
  | st :: rest =>
      let now := s_now st in
      let r := s_req st in
      let l1e := evict l1 (s_evict st) in
      let '(l1', l2', calls, cst) := serve1 std_exec std_exec (orca_of (s_cfg st)) r l1e l2 now in
      let '(s', o) := match cmd_of r with Some c => spec_step s now c | None => (s, OOk) end in
      let d1 := of_dump (s_l1 st) in
      let d2 := of_dump (s_l2 st) in
      let auth := if two then d2 else d1 in
      let closed_ok := negb (s_closed st && negb (match r with RQuit _ _ => true | _ => false end)) in
      let o1 := closed_ok && (if mode =? 9 then true else if mode =? 8 then
                   match decode p (s_reply st) with
                   | Some fs => discipline p r (hits_of s now r) (loud_misses_of s now r) fs
                   | None => false end
                 else if mode =? 2 then
                   (bytes_eqb (s_reply st) (s_ref st) ||
                    (oracle_reply p s now r o (s_reply st) && oracle_reply p s now r o (s_ref st)))
                 else oracle_reply p s now r o (s_reply st)) in
      let o2 := (if mode =? 1 then contents_ok now keys s' auth
         else if mode =? 2 then (if two then l1_subset_l2 now keys d1 d2 else true)
         else deadlines_ok now keys s' d1 && (if two then deadlines_ok now keys s' d2 else true) &&
              contents_ok now keys s' auth) in
      let c1 := bytes_eqb (render_all p calls) (s_reply st) in
      let c2 := Bool.eqb (s_closed st) (match cst with Closed => true | Open => false end) in
      let c3 := stores_agree now keys l1' d1 in
      let c4 := (if two then stores_agree now keys l2' d2 else true) in
      if o1 && o2 && c1 && c2 && c3 && c4 then debug01 mode p two keys rest l1' l2' s' (i + 1)
      else Some (mkDbg i o1 o2 c1 c2 c3 c4 (render_all p calls) (s_reply st) r
             (map (fun k => (k, map (fun t : store => match live now t k with Some e => Some (len (e_data e), e_flags e, e_dl e) | None => None end) [l1'; d1; l2'; d2; s'])) keys))
  end.
Definition dbg01_case (mode : N) (c : case01) :=
  debug01 mode (k_proto c) (k_two c) (k_keys c) (k_steps c) empty_store empty_store empty_store 0.

(* ---- full-stack runs with the CHUNKED handler as L1 (real clock): no step-by-step model here
   (tokens and clock readings are internal to the handler); the single-map oracle is applied to
   the replies, to L2, and to L1 seen through the chunk abstraction (abs_entry). ---- *)
Fixpoint run01c (p : proto) (two : bool) (keys : list bytes) (steps : list step01) (s : store) : N :=
  match steps with
  | [] => 0
  | st :: rest =>
      let now := s_now st in
      let r := s_req st in
      let '(s', o) := match cmd_of r with Some c => spec_step s now c | None => (s, OOk) end in
      let d1 := of_dump (s_l1 st) in
      let d2 := of_dump (s_l2 st) in
      let same := fun (a b : entry) => bytes_eqb (e_data a) (e_data b) && (e_flags a =? e_flags b) in
      let ok :=
        negb (s_closed st && negb (match r with RQuit _ _ => true | _ => false end)) &&
        oracle_reply p s now r o (s_reply st) &&
        (if two then
           contents_ok now keys s' d2 &&
           forallb (fun k => match abs_entry d1 now k with
                             | None => true
                             | Some e1 => match live now d2 k with Some e2 => same e1 e2 | None => false end
                             end) keys
         else
           forallb (fun k => match live now s' k, abs_entry d1 now k with
                             | Some a, Some b => same a b
                             | None, None => true
                             | _, _ => false end) keys) in
      if ok then run01c p two keys rest s' else 2
  end.
Definition check01c (c : case01) : N := run01c (k_proto c) (k_two c) (k_keys c) (k_steps c) empty_store.

(* per-step verdicts of run01c, for replays: (step index, not-closed, reply ok, L2 ok, L1 ok) of the first failing step *)
Fixpoint debug01c (p : proto) (two : bool) (keys : list bytes) (steps : list step01) (s : store) (i : N)
  : option (N * bool * bool * bool * bool * list (bytes * option (N * N) * option (N * N) * option (N * N))) :=
  match steps with
  | [] => None
  | st :: rest =>
      let now := s_now st in
      let r := s_req st in
      let '(s', o) := match cmd_of r with Some c => spec_step s now c | None => (s, OOk) end in
      let d1 := of_dump (s_l1 st) in
      let d2 := of_dump (s_l2 st) in
      let same := fun (a b : entry) => bytes_eqb (e_data a) (e_data b) && (e_flags a =? e_flags b) in
      let a := negb (s_closed st && negb (match r with RQuit _ _ => true | _ => false end)) in
      let b := oracle_reply p s now r o (s_reply st) in
      let c := if two then contents_ok now keys s' d2 else true in
      let d := if two then
           forallb (fun k => match abs_entry d1 now k with
                             | None => true
                             | Some e1 => match live now d2 k with Some e2 => same e1 e2 | None => false end
                             end) keys
         else
           forallb (fun k => match live now s' k, abs_entry d1 now k with
                             | Some a, Some b => same a b
                             | None, None => true
                             | _, _ => false end) keys in
      let sz := fun (e : option entry) => match e with Some e => Some (len (e_data e), e_flags e) | None => None end in
      if a && b && c && d then debug01c p two keys rest s' (i + 1)
      else Some (i, a, b, c, d, map (fun k => (k, sz (live now s' k), sz (abs_entry d1 now k), sz (live now d2 k))) keys)
  end.
Definition dbg01c_case (c : case01) := debug01c (k_proto c) (k_two c) (k_keys c) (k_steps c) empty_store 0.
