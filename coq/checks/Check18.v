(* Check18.v — correspondence + oracle for C18, evaluated on what the real metrics package did.
   Return codes (AGENT_NOTES): 0 agree; 1 model and implementation differ, the property oracle holds
   on the observation; 2 the oracle fails on the observation and the (fixed-code) model differs;
   3 the oracle fails and the model of the UNFIXED code (metrics/HistOld.v, LzcntOld.v) reproduces
   the observation exactly. *)
From Coq Require Import FMapPositive Uint63.
From Rend Require Import base.Bytes base.Harness gen.Consts_gen gen.Tables_gen.
From Rend Require Import metrics.Lzcnt metrics.LzcntOld metrics.Bucket metrics.Hist metrics.HistOld metrics.Counter.
Open Scope N_scope.

(* ---------- compact descriptions of observation lists (expanded identically by the harness) ---------- *)
Inductive obs_spec :=
| OLit (l : list N)                      (* the list itself *)
| ORep (v n : N)                         (* n times v *)
| ORamp (start n : N)                    (* start, start+1, ..., start+n-1 *)
| OGen (seed n : N) (vals : list N)      (* n picks from vals driven by a 32-bit LCG *)
| OCat (a b : obs_spec).

(* x' = (1664525 x + 1013904223) mod 2^32; the pick is bits 16.. of x' modulo the number of values *)
Definition lcg (x : N) : N := N.land (x * 1664525 + 1013904223) 4294967295.

Fixpoint gen_picks (k : nat) (x : N) (vals : list N) (nv : N) (acc : list N) : list N :=
  match k with
  | O => rev' acc
  | S k' => let x' := lcg x in
            gen_picks k' x' vals nv (nth (N.to_nat ((N.shiftr x' 16) mod nv)) vals 0 :: acc)
  end.

Fixpoint expand (s : obs_spec) : list N :=
  match s with
  | OLit l => l
  | ORep v n => repeat v (N.to_nat n)
  | ORamp st n => iota (N.to_nat n) st
  | OGen seed n vals => gen_picks (N.to_nat n) seed vals (len vals) []
  | OCat a b => expand a ++ expand b
  end.

(* ---------- cases ---------- *)
(* what was observed for one period: the report, how it was read, the bucket counter increments
   (bucket, increment) for the non-zero ones in increasing bucket order *)
Record observed := mkObs { o_rep : report; o_buckets : list (N * N) }.

Inductive case18 :=
(* value x: getBucket x, assembly lzcnt x, portable lzcnt x (compiled from /repo/metrics/lzcnt.go) *)
| CVal (x b lza lzp : N)
(* n <= m with their buckets *)
| CMono (n bn m bm : N)
(* many values at once, in increasing order, as a flat list of primitive integers (they parse two
   orders of magnitude faster than N literals): five per value — x / 2^32, x mod 2^32, getBucket x,
   assembly lzcnt x, portable lzcnt x.  Every value is judged as by CVal, every adjacent pair as
   by CMono; the worst code is returned *)
| CBatch (l : list int)
(* consecutive periods on one histogram, run by one goroutine.
   http = false: read through VerifExtractHist (count, kept, total, min, max, 23 values; whether the
                 endpoint would print them is not visible);
   http = true : read from the text served by the /metrics handler (count; and when percentile lines
                 are present: kept, the 23 values, min = percentile0, max = percentile100);
   fresh: the histogram was created for this case (so the unfixed model can be compared exactly) *)
| CHist (sampled http fresh : bool) (ps : list (obs_spec * observed))
(* several goroutines observing (the union of their observations is given) while one reader ends
   periods; reports of all periods in order, read through the hook or (http) from /metrics *)
| CConc (sampled http : bool) (all : obs_spec) (reps : list observed)
(* counter: value before, the goroutines' add sequences, value after (read from /metrics) *)
| CCounter (before : N) (adds : list (list N)) (after : N).

(* ---------- helpers ---------- *)
Definition listN_eqb := list_eqb N.eqb.
Definition inb (x : N) (l : list N) : bool := existsb (N.eqb x) l.

Definition bump (k : positive) (c : N) (m : PositiveMap.t N) : PositiveMap.t N :=
  PositiveMap.add k (match PositiveMap.find k m with Some c0 => c0 + c | None => c end) m.
(* multiplicity of every distinct value, then getBucket once per distinct value *)
Definition value_counts (obs : list N) : PositiveMap.t N :=
  fold_left (fun m v => bump (slot v) 1 m) obs (PositiveMap.empty N).
Definition bucket_counts (obs : list N) : PositiveMap.t N :=
  fold_left (fun m kc => bump (slot (getBucket (Pos.pred_N (fst kc)))) (snd kc) m)
            (PositiveMap.elements (value_counts obs)) (PositiveMap.empty N).
Definition dense_counts (m : PositiveMap.t N) : list (N * N) :=
  filter (fun bc => negb (snd bc =? 0))
         (map (fun b => (b, match PositiveMap.find (slot b) m with Some c => c | None => 0 end))
              (iota (N.to_nat numAtlasBuckets) 0)).
Definition model_buckets (obs : list N) : list (N * N) := dense_counts (bucket_counts obs).

Definition sum_snd (l : list (N * N)) : N := fold_left (fun a bc => a + snd bc) l 0.

Definition rep_eqb_hook (a b : report) : bool :=
  (r_count a =? r_count b) && (r_kept a =? r_kept b) && (r_total a =? r_total b) &&
  (r_min a =? r_min b) && (r_max a =? r_max b) && listN_eqb (r_pctls a) (r_pctls b).
Definition rep_eqb_http (a b : report) : bool :=
  (r_count a =? r_count b) && Bool.eqb (r_printed a) (r_printed b) &&
  (negb (r_printed a) || ((r_kept a =? r_kept b) && listN_eqb (r_pctls a) (r_pctls b))).
Definition rep_eqb (http : bool) := if http then rep_eqb_http else rep_eqb_hook.

(* ---------- the property, on one observed period ---------- *)
(* are the 23 values of this report shown to the reader of /metrics?  http: observed.
   hook: not visible; the hook returns hdatPercentiles' result whenever count <> 0, the values are
   judged only when something was kept (the defect "zeros printed when nothing was kept" is
   therefore only looked for on the http path). *)
Definition shown (http : bool) (r : report) : bool :=
  if http then r_printed r else negb (r_kept r =? 0).

Definition pctls_ok (obs : list N) (r : report) : bool :=
  (len (r_pctls r) =? 23) &&
  forallb (fun p => inb p obs && (nth 0 (r_pctls r) 0 <=? p) && (p <=? nth 20 (r_pctls r) 0)) (r_pctls r) &&
  forallb (fun v => (nth 0 (r_pctls r) 0 <=? v) && (v <=? nth 20 (r_pctls r) 0)) obs.

Definition oracle_period (http : bool) (obs : list N) (o : observed) : bool :=
  let r := o_rep o in
  (r_count r =? len obs) &&
  (sum_snd (o_buckets o) =? len obs) &&
  (negb (shown http r) || pctls_ok obs r).

(* ---------- sequential histogram cases ---------- *)
Section Seq.
  Variable ri : N -> N.
  Variable pr : hdat -> bool.
  Fixpoint seq_model_eq (sampled http : bool) (h : hist) (ps : list (list N * observed)) : bool :=
    match ps with
    | [] => true
    | (obs, o) :: rest =>
        let '(rep, h') := period_gen ri pr sampled h obs in
        rep_eqb http (o_rep o) rep && list_eqb pairN_eqb (o_buckets o) (model_buckets obs) &&
        seq_model_eq sampled http h' rest
    end.
End Seq.

Definition check_hist (sampled http fresh : bool) (ps0 : list (obs_spec * observed)) : N :=
  let ps := map (fun so => (expand (fst so), snd so)) ps0 in
  let orc := forallb (fun so => oracle_period http (fst so) (snd so)) ps in
  if orc then
    (if seq_model_eq ring_index prints sampled http newHist ps then 0 else 1)
  else
    (* does the model of the unfixed code (or of the code with only one of the two histogram fixes)
       reproduce the observation? *)
    (if fresh && (seq_model_eq ring_index_old prints_old sampled http newHist ps ||
                  seq_model_eq ring_index prints_old sampled http newHist ps ||
                  seq_model_eq ring_index_old prints sampled http newHist ps) then 3 else 2).

(* ---------- concurrent observers + reader ---------- *)
Definition check_conc (sampled http : bool) (all : obs_spec) (reps : list observed) : N :=
  let obs := expand all in
  let n := len obs in
  let counts_ok := fold_left (fun a o => a + r_count (o_rep o)) reps 0 =? n in
  let kept_ok := forallb (fun o => (http && negb (r_printed (o_rep o))) || (r_kept (o_rep o) =? (if sampled then r_count (o_rep o) / 4 else r_count (o_rep o)))) reps in
  let total_ok := http || ((fold_left (fun a o => a + r_total (o_rep o)) reps 0) mod two64 =? (fold_left N.add obs 0) mod two64) in
  let bsum := fold_left (fun a o => a + sum_snd (o_buckets o)) reps 0 =? n in
  (* every report: values are observations of the run, min <= p <= max *)
  let p_ok := forallb (fun o => let r := o_rep o in
                (r_kept r =? 0) ||
                ((len (r_pctls r) =? 23) &&
                 forallb (fun p => inb p obs && (r_min r <=? p) && (p <=? r_max r)) (r_pctls r) &&
                 inb (r_min r) obs && inb (r_max r) obs)) reps in
  if counts_ok && kept_ok && total_ok && bsum && p_ok then
    (* the bucket counters are order-independent: all increments of the run together *)
    (let tot := fold_left (fun m o => fold_left (fun m bc => bump (slot (fst bc)) (snd bc) m)
                    (o_buckets o) m) reps (PositiveMap.empty N) in
     if list_eqb pairN_eqb (dense_counts tot) (model_buckets obs) then 0 else 1)
  else 2.

(* ---------- values ---------- *)
Definition check_val (x b lza lzp : N) : N :=
  let spec := if x =? 0 then 64 else 63 - N.log2 x in
  let orc := (lza =? lzp) && (lza =? spec) && (b <? numAtlasBuckets) &&
             ((9223372036854775808 <=? x) || (x <=? tab bucketValues b)) in
  if orc then
    (if (b =? getBucket x) && (lza =? lzcnt_asm x) && (lzp =? lzcnt_portable x) then 0 else 1)
  else
    (if (b =? getBucket x) && (lza =? lzcnt_asm x) && (lzp =? lzcnt_portable_old x) then 3 else 2).

Definition check_mono (n bn m bm : N) : N :=
  if (n <=? m) && (bn <=? bm) then
    (if (bn =? getBucket n) && (bm =? getBucket m) then 0 else 1)
  else 2.

Definition nat_of_int (i : int) : N := Z.to_N (Uint63.to_Z i).
Fixpoint check_batch (prev : option (N * N)) (l : list int) (worst : N) : N :=
  match l with
  | hi :: lo :: b :: lza :: lzp :: r =>
      let x := nat_of_int hi * 4294967296 + nat_of_int lo in
      let b := nat_of_int b in
      let c1 := check_val x b (nat_of_int lza) (nat_of_int lzp) in
      let c2 := match prev with Some (n, bn) => check_mono n bn x b | None => 0 end in
      check_batch (Some (x, b)) r (N.max worst (N.max c1 c2))
  | [] => worst
  | _ => 1          (* malformed batch *)
  end.

Definition check_counter (before : N) (adds : list (list N)) (after : N) : N :=
  let all := concat adds in
  (* the property itself: after = before + sum, modulo 2^64 *)
  if after =? (before + fold_left N.add all 0) mod two64 then
    (if after =? run_adds before all then 0 else 1)
  else 2.

Definition check18 (c : case18) : N :=
  match c with
  | CVal x b lza lzp => check_val x b lza lzp
  | CMono n bn m bm => check_mono n bn m bm
  | CBatch l => check_batch None l 0
  | CHist sampled http fresh ps => check_hist sampled http fresh ps
  | CConc sampled http all reps => check_conc sampled http all reps
  | CCounter before adds after => check_counter before adds after
  end.

(* shorthand used by the generated case files *)
Definition Ob (count kept total mn mx : N) (printed : bool) (p : list N) (bk : list (N * N)) : observed :=
  mkObs (mkReport count kept total mn mx printed p) bk.
