(* Check19.v — correspondence + oracle for C19, evaluated on what the real Continuum (ketama.go) did.

   One case = one node set.  Labels are numbered (the harness numbers the distinct label strings in
   sorted order, so the numbering does not depend on the order nodes were listed); [none_id] stands
   for a nil bucket.  For the node set the harness built
     * the base continuum (nodes in generated order): its ring as exported by the hook, and the
       label Bucket(h) / Hash(key) returned for every probe h of [hs] (ascending; for a key,
       h = md5(key)[0:4] little endian computed by the harness, the observation is Hash(key));
     * further continuums from the same nodes (a second New of the same list = "another
       connection", then permutations of the list): ring and observed owners for the same probes;
     * for single-node removals: the removed node's label, ring, observed owners for the same probes.

   check19 returns 0 = model and implementation agree and the property holds on the observation;
   1 = they differ (ring not sorted, Bucket(h) <> model lookup, per-label points changed between
   rings, harness flag mismatch) but the property oracle holds on everything observed;
   2/3 = the property oracle fails on the observation (3: the model lookup on the exported rings
   reproduces the observed owners).

   Case files carry the numbers as primitive 63-bit integers in primitive arrays (parsing N
   literals costs ~10 us per bit in coqc, a ring has 160 points per node); [decode19] turns them
   into the N-level case first.  Only Uint63 land/lsr/eqb/sub and PArray get/length are used. *)
From Coq Require Import Uint63 PArray.
From Rend Require Import base.Bytes base.Harness cluster.Ketama.
Open Scope N_scope.

Definition ring : Type := list (N * N).          (* (point, label id), ring order *)
Definition none_id : N := 63.

Definition case19 : Type :=
  (list N                          (* hs: probes, ascending *)
   * (ring * list N)               (* base: ring, observed owner of every probe *)
   * list (ring * list N)          (* same node set built again / listed in another order *)
   * list (N * ring * list N)      (* one node removed: its label id, ring, observed owners *)
   * (bool * bool * bool))%type.   (* harness's own flags for the base ring: some point occurs
                                      twice; some point belongs to two different labels; and
                                      whether hs contains every point of the base ring (only then
                                      "every label owns a probe" is expected) *)

(* ---- model side ---- *)
Definition obs_of (o : option N) : N := match o with Some l => l | None => none_id end.
Definition model_owners (r : ring) (hs : list N) : list N := map obs_of (lookup_all r hs).
(* the same with the ascending test of [lookup_all] done once per case ([asc] = ascending hs);
   Check19Proofs.model_owners_asc_eq: both are [map (fun h => obs_of (lookup r h)) hs] *)
Definition model_owners_asc (asc : bool) (r : ring) (hs : list N) : list N :=
  if asc then map obs_of (map (wrap0 r) (sweep r hs)) else map obs_of (map (lookup r) hs).

Fixpoint sortedb (r : ring) : bool :=
  match r with
  | [] => true
  | a :: t => match t with [] => true | b :: _ => (fst a <=? fst b) && sortedb t end
  end.

(* on a sorted ring equal points are adjacent *)
Fixpoint dup_point (r : ring) : bool :=
  match r with
  | a :: t => match t with b :: _ => (fst a =? fst b) || dup_point t | [] => false end
  | [] => false
  end.
Fixpoint collision (r : ring) : bool :=
  match r with
  | a :: t => match t with
              | b :: _ => ((fst a =? fst b) && negb (snd a =? snd b)) || collision t
              | [] => false
              end
  | [] => false
  end.

Definition listN_eqb : list N -> list N -> bool := list_eqb N.eqb.

(* the points of label l in ring order, without repetitions (a sorted ring lists them ascending) *)
Fixpoint dedup_adj (l : list N) : list N :=
  match l with
  | a :: t => match t with b :: _ => if a =? b then dedup_adj t else a :: dedup_adj t | [] => [a] end
  | [] => []
  end.
Definition points_of (r : ring) (l : N) : list N :=
  dedup_adj (map fst (filter (fun e => snd e =? l) r)).

Definition label_ids : list N := map N.of_nat (seq 0 63).
Definition ring_minus (x : N) (r : ring) : ring := filter (fun e => negb (snd e =? x)) r.
Definition ring_eqb : ring -> ring -> bool := list_eqb pairN_eqb.
(* pts is a function of the label alone: every label other than [skip] has the same points in both
   rings.  (First test: r' is literally r without skip's entries, which implies the second.) *)
Definition same_pts (skip : N) (r r' : ring) : bool :=
  if ring_eqb (ring_minus skip r) r' then true   (* [if], not [||]: vm_compute is strict *)
  else forallb (fun l => (l =? skip) || listN_eqb (points_of r l) (points_of r' l)) label_ids.

(* ---- the property, on the observation ---- *)
Fixpoint unchanged_unless (x : N) (before after : list N) : bool :=
  match before, after with
  | [], [] => true
  | b :: bs, a :: as_ => ((b =? x) || (a =? b)) && unchanged_unless x bs as_
  | _, _ => false
  end.

Definition mask_of (ids : list N) : N := fold_left (fun acc i => N.lor acc (N.shiftl 1 i)) ids 0.
(* every label that has a point in the ring is the observed owner of at least one probe *)
Definition every_label_owns (r : ring) (owners : list N) : bool :=
  let present := mask_of (map snd r) in
  N.land present (mask_of owners) =? present.

Definition check19 (c : case19) : N :=
  let '(hs, (r0, o0), again, rems, (fdup, fcoll, full)) := c in
  let o_same := forallb (fun p => listN_eqb (snd p) o0) again in
  let o_rem := forallb (fun t => let '(x, _, o) := t in unchanged_unless x o0 o) rems in
  let o_arc := if full then every_label_owns r0 o0 else true in
  let o_len := (length o0 =? length hs)%nat in
  let oracle := o_same && o_rem && o_arc && o_len in
  let asc := ascending hs in
  let agree_base := listN_eqb o0 (model_owners_asc asc r0 hs) in
  let agree_again := forallb (fun p => listN_eqb (snd p) (model_owners_asc asc (fst p) hs)) again in
  let agree_rem := forallb (fun t => let '(_, r, o) := t in listN_eqb o (model_owners_asc asc r hs)) rems in
  let owners_agree := agree_base && agree_again && agree_rem in
  let rings_ok :=
    sortedb r0
    && forallb (fun p => sortedb (fst p) && same_pts none_id r0 (fst p)) again
    && forallb (fun t => let '(x, r, _) := t in sortedb r && same_pts x r0 r) rems in
  let flags_ok := Bool.eqb (dup_point r0) fdup && Bool.eqb (collision r0) fcoll in
  if oracle then (if owners_agree && rings_ok && flags_ok then 0 else 1)
  else if owners_agree then 3 else 2.

(* ---- wire format of the case files ---- *)
Fixpoint n_of_int (fuel : nat) (i : int) : N :=
  match fuel with
  | O => 0
  | S f => if Uint63.eqb i 0%uint63 then 0
           else let r := n_of_int f (Uint63.lsr i 1%uint63) in
                if Uint63.eqb (Uint63.land i 1%uint63) 0%uint63 then N.double r else N.succ_double r
  end.
Definition N_of (i : int) : N := n_of_int 63 i.

Definition arr_list (a : array int) : list int :=
  let n := PArray.length a in
  snd (N.iter (N_of n)
         (fun st => let '(i, acc) := st in
                    let i' := Uint63.sub i 1%uint63 in (i', PArray.get a i' :: acc))
         (n, [])).

(* ring entry: point * 256 + label id *)
Definition dec_entry (i : int) : N * N :=
  (N_of (Uint63.lsr i 8%uint63), N_of (Uint63.land i 255%uint63)).
Definition dec_ring (a : array int) : ring := map dec_entry (arr_list a).
Definition dec_ns (a : array int) : list N := map N_of (arr_list a).

(* owners: ten 6-bit ids per integer, first id in the low bits; [n] ids in all *)
(* table 0..63 as N, so that a 6-bit field is decoded by one array access *)
Definition tbl6 : array N := Eval vm_compute in
  fst (fold_left (fun st v => let '(a, i) := st in (PArray.set a i v, Uint63.add i 1%uint63))
                 (map N.of_nat (seq 0 64)) (PArray.make 64%uint63 0, 0%uint63)).
Fixpoint unpack6 (k : nat) (i : int) : list N :=
  match k with
  | O => []
  | S k' => PArray.get tbl6 (Uint63.land i 63%uint63) :: unpack6 k' (Uint63.lsr i 6%uint63)
  end.
Definition dec_owners (n : N) (a : array int) : list N :=
  firstn (N.to_nat n) (flat_map (unpack6 10) (arr_list a)).

(* a removal ring is written [None] when the ring the code built is, entry for entry, the base
   ring without the entries of the removed label (the harness compared them) *)
Definition case19_raw : Type :=
  (array int                                   (* hs *)
   * (array int * array int)                   (* base ring, base owners *)
   * list (array int * array int)              (* again: ring, owners *)
   * list (int * option (array int) * array int)   (* removals: label id, ring, owners *)
   * (bool * bool * bool))%type.

Definition decode19 (c : case19_raw) : case19 :=
  let '(hs, (r0, o0), again, rems, flags) := c in
  let hs' := dec_ns hs in
  let n := len hs' in
  let r0' := dec_ring r0 in
  (hs', (r0', dec_owners n o0),
   map (fun p => (dec_ring (fst p), dec_owners n (snd p))) again,
   map (fun t => let '(x, r, o) := t in
                 let x' := N_of x in
                 (x', match r with Some a => dec_ring a | None => ring_minus x' r0' end, dec_owners n o)) rems,
   flags).

Definition check19_raw (c : case19_raw) : N := check19 (decode19 c).
