(* Check10.v — full-stack runs with one injected backend fault: correspondence with the faulty
   interpreter (orca/Faults.v) and the oracles of C10. *)
From Coq Require Import String.
From Rend Require Import base.Bytes base.Harness gen.Consts_gen spec.MapSpec orca.Types handlers.Std
  orca.Orcas proto.Resp proto.Frames proto.FramesSpec orca.Faults checks.Check01.
Open Scope N_scope.

Record case10 := mkC10 {
  q_proto : proto; q_two : bool; q_cold : bool (* L1 emptied after the setup *); q_now : N; q_keys : list bytes;
  q_setup : list (cfg * req);      (* fault-free commands run first *)
  q_cfg : cfg; q_cmd : req;        (* the command during which the fault strikes *)
  q_tier : tier; q_idx : nat; q_fault : fault;   (* which backend request of that command, on which tier *)
  q_reply : bytes; q_closed : bool;
  q_l1 : list (bytes * entry); q_l2 : list (bytes * entry);
  q_reads : list (bytes * bytes) }.   (* afterwards, fault-free, from a fresh connection: (key, reply to `get key`) *)

Fixpoint run_setup (l : list (cfg * req)) (l1 l2 s : store) (now : N) : store * store * store :=
  match l with
  | [] => (l1, l2, s)
  | (c, r) :: rest =>
      let '(l1', l2', _, _) := serve1 std_exec std_exec (orca_of c) r l1 l2 now in
      let s' := match cmd_of r with Some cm => fst (spec_step s now cm) | None => s end in
      run_setup rest l1' l2' s' now
  end.

Definition plan_of (t : tier) (i : nat) (f : fault) : plan :=
  fun t' n => match t, t' with
              | L1, L1 | L2, L2 => if Nat.eqb n i then Some f else None
              | _, _ => None end.

Definition is_write (r : req) : bool :=
  match r with RSet _ _ _ _ _ _ _ | RCat _ _ _ _ _ | RDelete _ _ | RTouch _ _ _ => true | _ => false end.
Definition write_key (r : req) : bytes :=
  match r with RSet _ k _ _ _ _ _ | RCat _ k _ _ _ | RDelete k _ | RTouch k _ _ | RGat k _ _ => k | _ => [] end.

(* the reply to a plain `get k` warranted by a map in which k has value v *)
Definition read_reply (p : proto) (k : bytes) (v : option entry) : bytes :=
  render p (PGet (match v with
                  | Some e => mkGR k (e_data e) (e_flags e) 0 0 false false
                  | None => mkGR k [] 0 0 0 false true end)) ++ render p (PGetEnd 0 false).

Definition frame_is_success (f : frame) : bool :=
  match f with
  | FB b => bf_status b =? statusSuccess
  | FT (TLine l) => bytes_eqb l (asc "STORED") || bytes_eqb l (asc "DELETED") || bytes_eqb l (asc "TOUCHED")
  | FT _ => false
  end.

(* read soundness of the faulted command itself: every value frame it sent for a get / gete /
   get-and-touch carries exactly the data and flags the single map holds for that key (text: the
   key is in the VALUE line; binary: the key(s) of the request item(s) with the frame's opaque) *)
Definition value_sound (now : N) (s0 : store) (r : req) (f : frame) : bool :=
  let holds (k d : bytes) (fl : N) :=
    match live now s0 k with Some e => bytes_eqb d (e_data e) && (fl =? e_flags e) | None => false end in
  if negb (is_value f) then true
  else match f with
       | FT (TValue k fl d) => holds k d fl
       | FT (TLine _) => true
       | FB b =>
           let ks := match r with
                     | RGet items _ _ | RGetE items _ _ =>
                         map gi_key (filter (fun it => gi_opaque it =? bf_opaque b) items)
                     | RGat k _ _ => [k]
                     | _ => [] end in
           existsb (fun k => holds k (bf_value b) (rd32 (take 4 (bf_extras b)))) ks
       end.

(* the oracles of C10 on one observed run: s0 = the single map before the command, s1 = after it *)
Definition oracle10 (c : case10) (s0 s1 : store) : bool :=
  let p := q_proto c in
  let now := q_now c in
  let r := q_cmd c in
  let acked := negb (q_closed c) && is_write r &&
               match decode p (q_reply c) with Some (f :: _) => frame_is_success f | _ => false end in
    (* contained: only complete well-formed frames; unless the connection was closed, the request
       was answered: its own completion or an error reply, and every non-quiet key of a get *)
    match decode p (q_reply c) with
    | None => false
    | Some fs =>
        q_closed c ||
        (match r with
         | RGet items no ne | RGetE items no ne =>
             existsb is_error fs ||
             (match p with
              | Text => match rev fs with t :: _ => is_terminator t | [] => false end
              | Bin => forallb (fun it => gi_quiet it ||
                                 existsb (fun f => match frame_opaque f with Some o => o =? gi_opaque it | None => false end) fs) items &&
                       (negb ne || match rev fs with t :: _ => is_terminator t | [] => false end)
              end)
         | _ => req_quiet r || match fs with [] => false | _ => true end
         end)
    end &&
    (* every frame sent for a non-get request - its completion or an error reply - carries the
       request's own opaque (binary; gets report errors with opaque 0, as GetRequest.GetOpaque says) *)
    (match r, decode p (q_reply c) with
     | (RGet _ _ _ | RGetE _ _ _), _ => true
     | _, Some fs => forallb (fun f => match frame_opaque f with Some o => o =? req_opaque r | None => true end) fs
     | _, None => true
     end) &&
    (* a read hit by the fault returns the stored value or no value: never bytes nobody wrote *)
    (match r, decode p (q_reply c) with
     | (RGet _ _ _ | RGetE _ _ _ | RGat _ _ _), Some fs => forallb (value_sound now s0 r) fs
     | _, _ => true
     end) &&
    (* no stale value after an ack; reads after a fault: the value before, the value after, or a miss *)
    forallb (fun kr => let '(k, rep) := kr in
               let ok_new := bytes_eqb rep (read_reply p k (live now s1 k)) in
               let ok_old := bytes_eqb rep (read_reply p k (live now s0 k)) in
               let ok_miss := bytes_eqb rep (read_reply p k None) in
               if acked && bytes_eqb k (write_key r) then ok_new || ok_miss
               else ok_new || ok_old || ok_miss) (q_reads c).

Definition check10 (c : case10) : N :=
  let p := q_proto c in
  let now := q_now c in
  let '(l1w, l2, s0) := run_setup (q_setup c) empty_store empty_store empty_store now in
  let l1 := if q_cold c then empty_store else l1w in
  let r := q_cmd c in
  let '(st', cs, cst) := serve1_f (plan_of (q_tier c) (q_idx c) (q_fault c)) (orca_of (q_cfg c)) r
                           (mkFS (mkTS l1 false 0) (mkTS l2 false 0)) now in
  let s1 := match cmd_of r with Some cm => fst (spec_step s0 now cm) | None => s0 end in
  let d1 := of_dump (q_l1 c) in
  let d2 := of_dump (q_l2 c) in
  let corr :=
    bytes_eqb (render_all p cs) (q_reply c) &&
    Bool.eqb (q_closed c) (match cst with Closed => true | Open => false end) &&
    stores_agree now (q_keys c) (t_store (f1 st')) d1 &&
    (if q_two c then stores_agree now (q_keys c) (t_store (f2 st')) d2 else true) in
  let acked := negb (q_closed c) && is_write r &&
               match decode p (q_reply c) with Some (f :: _) => frame_is_success f | _ => false end in
  let oracle := oracle10 c s0 s1 in
  if negb oracle then (if corr then 3 else 2) else if negb corr then 1 else 0.

(* runs with the CHUNKED handler as L1: no fault model of that stack; the oracles alone (the
   single map before/after the command comes from the reference semantics) *)
Fixpoint spec_setup (l : list (cfg * req)) (s : store) (now : N) : store :=
  match l with
  | [] => s
  | (_, r) :: rest => spec_setup rest (match cmd_of r with Some cm => fst (spec_step s now cm) | None => s end) now
  end.
Definition check10c (c : case10) : N :=
  let now := q_now c in
  let s0 := spec_setup (q_setup c) empty_store now in
  let s1 := match cmd_of (q_cmd c) with Some cm => fst (spec_step s0 now cm) | None => s0 end in
  if oracle10 c s0 s1 then 0 else 2.
