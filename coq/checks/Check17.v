(* Check17.v — correspondence + oracle for C17, evaluated on what the real handlers/inmem did.
   A case is one command sequence run on a private fresh instance: for every command the clock
   reading, the request, the result the code returned and (when taken) the raw dump of the map
   right after it. check17 = 0 agree; 1 model and code differ, oracle holds; 2 oracle (reference
   map) fails on the code and the model differs too; 3 oracle fails, model reproduces the code. *)
From Rend Require Import base.Bytes base.Harness gen.Consts_gen spec.MapSpec orca.Types handlers.Std handlers.Inmem.
Open Scope N_scope.

(* dumped map: key -> (exptime, flags, data) *)
Definition dump17 : Type := list (bytes * (N * N * bytes)).
(* The harness dumps the whole map after every command and writes down the keys whose dumped
   entry differs from the previous dump ([None] = the key is gone); the full observed map is
   rebuilt here ([dump_apply]) and compared at every key of the alphabet after every command. *)
Definition delta17 : Type := list (bytes * option (N * N * bytes)).
(* one observed command: clock reading, request, result, and (when a dump was taken) the
   changes of the dumped map since the previous dump of the case *)
Record step17 := mkS17 { s17_now : N; s17_req : hreq; s17_res : hres; s17_dump : option delta17 }.
(* key alphabet of the sequence (every key the sequence uses), and the steps *)
Record case17 := mkC17 { c17_keys : list bytes; c17_steps : list step17 }.

Definition dump_remove (d : dump17) (k : bytes) : dump17 :=
  filter (fun kv => negb (bytes_eqb (fst kv) k)) d.
Definition dump_apply (d : dump17) (dl : delta17) : dump17 :=
  fold_left (fun acc kv => match snd kv with
                           | Some v => (fst kv, v) :: dump_remove acc (fst kv)
                           | None => dump_remove acc (fst kv)
                           end) dl d.

Fixpoint dump_get (d : dump17) (k : bytes) : option raw :=
  match d with
  | [] => None
  | (k', (x, f, v)) :: r => if bytes_eqb k' k then Some (mkRaw x f v) else dump_get r k
  end.
Definition dump_state (d : dump17) : cstate := dump_get d.

Definition raw_eqb (a b : raw) : bool :=
  (r_exp a =? r_exp b) && (r_flags a =? r_flags b) && bytes_eqb (r_data a) (r_data b).
Definition oraw_eqb (a b : option raw) : bool :=
  match a, b with Some x, Some y => raw_eqb x y | None, None => true | _, _ => false end.
Definition key_in (keys : list bytes) (k : bytes) : bool := existsb (bytes_eqb k) keys.

(* model state = dump, exactly (raw exptimes included), and nothing outside the alphabet *)
Definition state_matches (keys : list bytes) (st : cstate) (d : dump17) : bool :=
  forallb (fun k => oraw_eqb (st k) (dump_get d k)) keys && forallb (fun kv => key_in keys (fst kv)) d.

Definition gres_eqb (a b : gres) : bool :=
  bytes_eqb (g_key a) (g_key b) && bytes_eqb (g_data a) (g_data b) && (g_flags a =? g_flags b) &&
  (g_exp a =? g_exp b) && (g_opaque a =? g_opaque b) && Bool.eqb (g_quiet a) (g_quiet b) &&
  Bool.eqb (g_miss a) (g_miss b).
Definition hres_eqb (a b : hres) : bool :=
  match a, b with
  | HDone, HDone => true
  | HErr x, HErr y => x =? y
  | HVals xs ex, HVals ys ey => list_eqb gres_eqb xs ys && optN_eqb ex ey
  | _, _ => false
  end.

Definition view_eqb (a b : option (bytes * N)) : bool :=
  match a, b with
  | Some (d, f), Some (d', f') => bytes_eqb d d' && (f =? f')
  | None, None => true
  | _, _ => false
  end.
Definition outcome_eqb (a b : outcome) : bool :=
  match a, b with
  | OOk, OOk | OMiss, OMiss | OExists, OExists => true
  | OVals x, OVals y => list_eqb view_eqb x y
  | _, _ => false
  end.

(* what the property fixes about a result: its class against the reference map; for the get
   family additionally no trailing error and, per key, key echoed and (GetE) the exptime of the
   reference deadline *)
Definition gres_prop_eqb (a b : gres) : bool :=
  bytes_eqb (g_key a) (g_key b) && Bool.eqb (g_miss a) (g_miss b) && (g_exp a =? g_exp b).
Definition result_ok (s : store) (now : N) (q : hreq) (r : hres) : bool :=
  outcome_eqb (outcome_of r) (snd (gspec_step inmem_norm s now (cmd_of q))) &&
  match r, ref_result s now q with
  | HVals xs ex, HVals ys ey => list_eqb gres_prop_eqb xs ys && optN_eqb ex ey
  | HVals _ _, _ | _, HVals _ _ => false
  | _, _ => true
  end.

(* runs model and reference along the observed sequence;
   returns (model agreed everywhere, oracle held everywhere) *)
Section Walk.
(* the model under comparison (Inmem.inmem_exec; checks/Check17Old.v instantiates the history model) *)
Variable exec : cstate -> N -> hreq -> cstate * hres.
Fixpoint walk17 (keys : list bytes) (st : cstate) (s : store) (obs : dump17) (l : list step17) : bool * bool :=
  match l with
  | [] => (true, true)
  | mkS17 now q r od :: rest =>
      let '(st', mr) := exec st now q in
      let '(s', _) := gspec_step inmem_norm s now (cmd_of q) in
      let obs' := match od with Some dl => dump_apply obs dl | None => obs end in
      let m_ok := hres_eqb r mr && match od with Some _ => state_matches keys st' obs' | None => true end in
      let o_ok := result_ok s now q r &&
                  match od with
                  | Some _ => stores_agree now keys (abs (dump_state obs')) s' &&
                              forallb (fun kv => key_in keys (fst kv)) obs'
                  | None => true
                  end in
      let '(m, o) := walk17 keys st' s' obs' rest in
      (m_ok && m, o_ok && o)
  end.

(* every key of every request must be in the alphabet (else the dump comparison would be blind) *)
Definition req_keys (q : hreq) : list bytes :=
  match q with
  | HSet _ k _ _ _ | HCat _ k _ | HDelete k | HTouch k _ | HGat k _ _ => [k]
  | HGet items | HGetE items => map gi_key items
  end.

Definition check17_with (c : case17) : N :=
  let keys := c17_keys c in
  let steps := c17_steps c in
  if negb (forallb (fun st => forallb (key_in keys) (req_keys (s17_req st))) steps) then 1
  else
    let '(m, o) := walk17 keys cempty empty_store [] steps in
    if o then (if m then 0 else 1) else (if m then 3 else 2).
End Walk.

Definition check17 : case17 -> N := check17_with inmem_exec.
