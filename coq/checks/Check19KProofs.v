(* Check19KProofs.v — what a 0 of checks/Check19K.check19k means: the ring the code built, decoded, IS the
   model's ring of the listed buckets (so for weights 1 it is [ring_of labels], to which the concrete
   theorems of props/C19.v apply), and every observed Hash(key) is the model's lookup.  No axioms. *)
From Coq Require Import Sorting.Sorted.
From Rend Require Import base.Bytes base.Harness cluster.Ketama cluster.MD5 cluster.KetamaFloat
  cluster.KetamaConcrete cluster.KetamaConcreteProofs checks.Check19K.
Open Scope N_scope.

Lemma bytes_eqb_eq (a b : bytes) : bytes_eqb a b = true -> a = b.
Proof.
  revert b. induction a as [|x a IH]; intros [|y b]; cbn [bytes_eqb]; try discriminate; auto.
  intros H. apply andb_prop in H. destruct H as [H1 H2]. apply N.eqb_eq in H1. subst. f_equal. auto.
Qed.

Lemma list_eqb_eq {A} (eqb : A -> A -> bool) :
  (forall a b, eqb a b = true -> a = b) -> forall l l', list_eqb eqb l l' = true -> l = l'.
Proof.
  intros Heq. induction l as [|a l IH]; intros [|b l']; cbn; try discriminate; auto.
  intros H. apply andb_prop in H. destruct H as [H1 H2]. f_equal; auto.
Qed.

Lemma entryb_eqb_eq (a b : N * bytes) : entryb_eqb a b = true -> a = b.
Proof.
  unfold entryb_eqb. destruct a as [p l], b as [q m]. cbn [fst snd]. intros H.
  apply andb_prop in H. destruct H as [H1 H2]. apply N.eqb_eq in H1. apply bytes_eqb_eq in H2. congruence.
Qed.

Definition real_ring (bs : list (bytes * N)) (ringb : bytes) : list (N * bytes) :=
  map (fun e => (fst e, label_at bs (snd e))) (dec_ring5 ringb).

(* (a list of more than 255 buckets is never generated; there index 255 would be ambiguous with "nil") *)
Theorem check19k_zero (bs : list (bytes * N)) (ringb : bytes) (keys : list (bytes * N)) :
  check19k (bs, ringb, keys) = 0 ->
  real_ring bs ringb = ring_of_w bs
  /\ forall key ix, In (key, ix) keys ->
       ix < len bs /\ match lookup (ring_of_w bs) (ketama_hash key) with
                      | Some l => l = label_at bs ix
                      | None => ix = 255
                      end.
Proof.
  unfold check19k.
  set (oracle := (_ && _ && _)%bool).
  set (ring_ok := list_eqb entryb_eqb _ _).
  set (keys_ok := forallb _ keys).
  destruct oracle eqn:Eo; [|destruct (ring_ok && keys_ok)%bool; discriminate].
  destruct (ring_ok && keys_ok)%bool eqn:E; [|discriminate]. intros _.
  apply andb_prop in E. destruct E as [E1 E2].
  split; [exact (list_eqb_eq _ entryb_eqb_eq _ _ E1)|].
  intros key ix Hin. unfold keys_ok in E2. rewrite forallb_forall in E2. specialize (E2 _ Hin).
  cbn [fst snd] in E2.
  unfold oracle in Eo. apply andb_prop in Eo. destruct Eo as [_ Eo]. rewrite forallb_forall in Eo.
  specialize (Eo _ Hin). cbn [snd] in Eo. apply N.ltb_lt in Eo. split; [exact Eo|].
  destruct (lookup (ring_of_w bs) (ketama_hash key)) as [l|].
  - apply andb_prop in E2. destruct E2 as [_ E2]. apply bytes_eqb_eq in E2. exact E2.
  - apply N.eqb_eq in E2. exact E2.
Qed.

(* for rend's nodes (weight 1): the ring the code built is [ring_of labels] *)
Corollary check19k_zero_weight1 (ls : list bytes) (ringb : bytes) (keys : list (bytes * N)) :
  len ls < 4294967296 ->
  check19k (map (fun l => (l, 1)) ls, ringb, keys) = 0 ->
  real_ring (map (fun l => (l, 1)) ls) ringb = ring_of ls.
Proof.
  intros Hn H. apply check19k_zero in H. destruct H as [H _]. rewrite H. apply ring_of_w_ones. exact Hn.
Qed.
