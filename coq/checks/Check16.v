(* Check16.v — correspondence + oracle for C16, evaluated on what the real chunked handler
   sent to the backend for one Set. *)
From Rend Require Import base.Bytes base.Harness gen.Consts_gen handlers.ChunkFmt.
Open Scope N_scope.

(* (key length, data length, [(backend key length, value length)] of the set requests seen,
    in order: metadata first, then chunk 0..n-1), and chunkSize(keylen) as the code computes it *)
Definition case16 : Type := N * N * list (N * N) * (N * N).

Definition model_sizes (klen dlen : N) : list (N * N) :=
  let ds := chunk_data klen in
  (klen + 5, metadataSize) ::
  map (fun i => (klen + 1 + len (dec (N.of_nat i)), chunk_full klen))
      (seq 0 (N.to_nat (num_chunks dlen ds))).

(* the property itself, on the observation: uniform value length depending on klen only
   (chunk_full), budget, ceil, constant metadata size *)
Definition oracle16 (klen dlen : N) (obs : list (N * N)) : bool :=
  match obs with
  | [] => false
  | (mk, mv) :: cs =>
      (mv =? 40) &&
      forallb (fun kv => (snd kv =? chunkMaxSize - chunkOverhead - klen) && (fst kv + snd kv + 67 <=? 1184)) cs &&
      (let payload := chunkMaxSize - chunkOverhead - klen - tokenSize in
       let n := len cs in (dlen <=? n * payload) && ((dlen =? 0) || ((n - 1) * payload <? dlen)))
  end.

Definition check16 (c : case16) : N :=
  let '(klen, dlen, obs, (ds, fs)) := c in
  if negb (oracle16 klen dlen obs) then 2
  else if list_eqb pairN_eqb obs (model_sizes klen dlen) && (ds =? chunk_data klen) && (fs =? chunk_full klen)
       then 0 else 1.
