(* Check11.v — correspondence + oracle for C11, evaluated on what the real parse loop did with
   arbitrary bytes (followed by EOF). *)
From Rend Require Import base.Bytes base.Harness gen.Consts_gen spec.MapSpec orca.Types proto.Resp
  proto.ReqCommon proto.BinReq proto.TextReq.
Open Scope N_scope.

(* one step of the loop as observed: class 0 = request dispatched (detail = request type),
   1 = client-error reply (detail = error number), 2 = abort/close, 3 = the process died
   allocating (alloc = size of the block it asked for), 4 = panic (the loop recovers it and
   closes the connection: allowed by the property, but not what the model predicts), 5 = no
   progress / deadline; bytes still unread after the step; bytes
   allocated during the step *)
Definition step11 : Type := (N * N * N * N)%type.
Definition case11 : Type := (proto * bytes * list step11)%type.

Definition parser_of (p : proto) : bytes -> pout := match p with Bin => parse_bin | Text => parse_text end.

(* what the frame at the head of [s] declares consistently (the property's bound), computed
   from the header fields alone *)
Definition declared_bin (s : bytes) : N :=
  match read_hdr s with
  | Some (h, _) => h_klen h + (if h_elen h + h_klen h <=? h_total h then h_total h else 0)
  | None => 0
  end.
Definition declared_text (s : bytes) : N :=
  match read_line s with
  | Some (line, _) =>
      match split_sp (trim_space line) with
      | [_; _; _; _; l] => match field_u32 l with Some n => n | None => 0 end
      | _ => 0
      end
  | None => 0
  end.
Definition declared (p : proto) (s : bytes) : N :=
  match p with Bin => declared_bin s | Text => declared_text s end.

Definition slack : N := 1048576.
Definition bound (p : proto) (wire at_step : bytes) : N :=
  slack + 4 * len wire + 2 * declared p at_step.

(* a binary frame whose length fields contradict each other (c11_inconsistent's premise): the
   property wants it REJECTED — an error reply or the connection closed — never dispatched as a
   request (which would mean the parser went on to read a key / value the declared body cannot
   contain) *)
Definition inconsistent_hdr (p : proto) (s : bytes) : bool :=
  match p with
  | Text => false
  | Bin => match read_hdr s with
           | Some (h, _) => (is_set_op (h_op h) && (h_total h <? h_elen h + h_klen h))
                            || (is_cat_op (h_op h) && (h_total h <? h_klen h))
           | None => false
           end
  end.

(* the property on the observation *)
Fixpoint oracle11 (p : proto) (wire : bytes) (unread_before : N) (obs : list step11) : bool :=
  match obs with
  | [] => true
  | (class, _, unread, alloc) :: r =>
      let at_step := drop (len wire - unread_before) wire in
      (alloc <=? bound p wire at_step) && negb (class =? 5)
      && negb (inconsistent_hdr p at_step && (class =? 0))
      && oracle11 p wire unread r
  end.

(* model vs observation: same class, same detail, same number of bytes left, and the bytes
   allocated during the step fit the model's trace: at most slack + 4|input| + twice the sizes
   of the trace, and at least the largest buffer of the trace (minus slack) *)
Definition sum_sizes (tr : list aev) : N := fold_right (fun a acc => asize a + acc) 0 tr.
Definition max_size (tr : list aev) : N := fold_right (fun a acc => N.max (asize a) acc) 0 tr.
Definition alloc_fits (lw : N) (tr : list aev) (alloc : N) : bool :=
  (alloc <=? slack + 4 * lw + 2 * sum_sizes tr) && (max_size tr <=? alloc + slack).

Fixpoint agree11 (lw : N) (m : list (sstep * N * list aev)) (obs : list step11) : bool :=
  match m, obs with
  | [], [] => true
  | (st, mu, tr) :: m', (class, detail, unread, alloc) :: o' =>
      if class =? 3 then
        (* died allocating: the model's step asks for a buffer of that size (the runtime
           rounds a huge block up to a multiple of 4 MiB) *)
        existsb (fun a => (asize a <=? alloc) && (alloc <? asize a + 8 * slack)) tr
      else
        alloc_fits lw tr alloc &&
        match st with
        | SReq r => (class =? 0) && (detail =? rtype r) && (mu =? unread) && agree11 lw m' o'
        | SErr e => (class =? 1) && (detail =? e) && (mu =? unread) && agree11 lw m' o'
        | SClose => (class =? 2) && match m', o' with [], [] => true | _, _ => false end
        end
  | _, _ => false
  end.

Definition check11 (c : case11) : N :=
  let '(p, wire, obs) := c in
  let model_ok := match serve (parser_of p) wire with
                  | Some m => agree11 (len wire) m obs
                  | None => false
                  end in
  if negb (oracle11 p wire (len wire) obs) then (if model_ok then 3 else 2)
  else if model_ok then 0 else 1.
