(* Check01w.v — correspondence + oracle for the wire level of the direct backend handler
   (tier c01w of C01/C10). A case is a history of calls on ONE backend connection of the real
   std handler; per call the harness recorded the exact bytes the handler wrote, the exact bytes
   the fake memcached answered, the handler's result, what was left unread / half-sent
   afterwards and the fake's contents.

   Correspondence (code 1 when it fails alone): the model of handlers/StdWire.v run from the
   model's store — encoder bytes = written bytes, model server's reply bytes = the fake's (this
   validates the fake against the model server), consumer's result / leftover / starvation =
   observed, model store = dump.
   Oracle (codes 2 / 3), independent of the wire model: the abstract handler of handlers/Std.v
   (orca/Faults.v under injected statuses) explains result and store; nothing is left unread, no
   read wanted more than the backend sent, no half-sent frame; every written frame is a complete
   request with CAS 0. *)
From Coq Require Import String.
From Rend Require Import base.Bytes base.Harness gen.Consts_gen spec.MapSpec orca.Types proto.ReqCommon
  proto.BinReq handlers.Std orca.Orcas orca.Faults handlers.StdWire.
Open Scope N_scope.

(* harness/fakemc errBody: the texts of the fake's own error replies *)
Definition fake_ebody (st : N) : bytes :=
  if st =? statusKeyEnoent then asc "Not found"
  else if st =? statusKeyExists then asc "Data exists for key."
  else if st =? statusNotStored then asc "Not stored."
  else asc "error".

Record obs01w := mkO {
  o_now : N; o_q : hreq; o_plan : list senv;
  o_written : bytes; o_received : bytes; o_res : hout;
  o_left : bytes; o_pend : bytes; o_starved : bool;
  o_dump : list (bytes * entry) }.

(* keys that occur, calls in order; the backend starts empty *)
Definition case01w : Type := (list bytes * list obs01w).

Definition gres_eqb (a b : gres) : bool :=
  bytes_eqb (g_key a) (g_key b) && bytes_eqb (g_data a) (g_data b) && (g_flags a =? g_flags b) &&
  (g_exp a =? g_exp b) && (g_opaque a =? g_opaque b) && Bool.eqb (g_quiet a) (g_quiet b) && Bool.eqb (g_miss a) (g_miss b).
Definition hres_eqb (a b : hres) : bool :=
  match a, b with
  | HErr x, HErr y => x =? y
  | HDone, HDone => true
  | HVals r e, HVals r' e' => list_eqb gres_eqb r r' && optN_eqb e e'
  | _, _ => false
  end.
Definition hout_eqb (a b : hout) : bool :=
  match a, b with HRes x, HRes y => hres_eqb x y | HPanic, HPanic => true | _, _ => false end.

(* the written bytes are complete request frames, each unconditional (CAS 0) *)
Fixpoint frames_of (fuel : nat) (b : bytes) : option (list sframe) :=
  match b with
  | [] => Some []
  | _ => match fuel with
         | O => None
         | S f => match srv_parse b with
                  | Some (fr, rest) => match frames_of f rest with Some l => Some (fr :: l) | None => None end
                  | None => None
                  end
         end
  end.
Definition written_ok (b : bytes) : bool :=
  match frames_of (S (length b)) b with
  | Some frs => forallb (fun fr => sf_cas fr =? 0) frs
  | None => false
  end.

Definition nilb (b : bytes) : bool := match b with [] => true | _ => false end.

Fixpoint run01w (s : store) (keys : list bytes) (l : list obs01w) : N :=
  match l with
  | [] => 0
  | o :: r =>
      let now := o_now o in
      let '(c', res) := std_wire fake_ebody (conn0 s (o_plan o)) now (o_q o) in
      let '(ts, sres) := exec_f (plan_fn (o_plan o)) (mkTS s false 0) now (o_q o) in
      let after := of_dump (o_dump o) in
      let oracle :=
        nilb (o_left o) && nilb (o_pend o) && negb (o_starved o) &&
        hout_eqb (o_res o) sres && stores_agree now keys after (t_store ts) && written_ok (o_written o) in
      let agree :=
        bytes_eqb (o_written o) (wc_wlog c') && bytes_eqb (o_received o) (wc_rlog c') &&
        hout_eqb (o_res o) res && bytes_eqb (o_left o) (wc_in c') && bytes_eqb (o_pend o) (wc_pend c') &&
        Bool.eqb (o_starved o) (wc_starved c') && stores_agree now keys after (wc_store c') in
      if agree then (if oracle then run01w (wc_store c') keys r else 3)
      else if oracle then 1 else 2
  end.

Definition check01w (c : case01w) : N := let '(keys, l) := c in run01w empty_store keys l.
