(* Check17Old.v — history: the same check as Check17.v with the model of the code BEFORE
   /verif/fixes/C17-inmem.patch (handlers/InmemOld.v). Not part of the pipeline. Evaluating the
   cases the harness records on the UNFIXED code with [check17_old] validates the witnesses of
   the *_refuted lemmas against the real code: every failing case is code 3 (the oracle fails
   and the old model reproduces the code exactly), except the cases in which the unfixed
   Append/Prepend corrupted a value through slice aliasing, which no value-semantic model
   reproduces (code 2). *)
From Rend Require Import base.Bytes base.Harness spec.MapSpec orca.Types handlers.Inmem handlers.InmemOld checks.Check17.
Open Scope N_scope.

Definition check17_old : case17 -> N := check17_with inmem_old_exec.
