(* Check10h.v — the REAL chunked handler driven directly over the fake memcached with a fault plan
   armed (harness tier c10h): correspondence with the faulty interpreter of
   handlers/ChunkedFaults.v (result, backend contents afterwards, the requests the backend
   received) and the oracles = the conclusions of the theorems of props/C10chunk.v evaluated on
   what was observed. *)
From Coq Require Import String.
From Rend Require Import base.Bytes base.Harness gen.Consts_gen spec.MapSpec orca.Types
  handlers.ChunkFmt handlers.Chunked handlers.ChunkedSpec handlers.ChunkedFaults handlers.ChunkedFaultsSpec checks.Check04.
Open Scope N_scope.

Record case10h := mkC10h {
  x_key : bytes;                      (* the client key the command names *)
  x_other : bytes;                    (* a bystander client key stored beforehand, never named *)
  x_now : N;                          (* the backend's clock (constant during the case) *)
  x_bkeys : list bytes;               (* every backend key seen before / during / after *)
  x_pre : list (bytes * entry);       (* backend contents before the call *)
  x_req : hreq; x_tok : bytes; x_cnow : N;
  x_plan : list (nat * cfault);       (* (index of the backend request within the call, fault) *)
  x_res : cout;                       (* what the handler returned (CPanic: it panicked) *)
  x_post : list (bytes * entry);      (* backend contents after the call *)
  x_log : list bytes;                 (* backend keys of the requests the backend received, in order (noop: []) *)
  x_get : hres;                       (* afterwards, fault-free, fresh connection: Get [key] (opaque 7) *)
  x_gat : hres }.                     (* then GAT key ttl 0 (opaque 77) *)

Definition cfault_eqb (a b : cfault) : bool :=
  match a, b with
  | CFStatus x, CFStatus y => x =? y
  | CFBreak x, CFBreak y => Bool.eqb x y
  | _, _ => false end.
Definition cout_eqb (a b : cout) : bool :=
  match a, b with
  | CRes x, CRes y => hres_eqb x y
  | CPanic, CPanic => true
  | _, _ => false end.

Definition view_eqb (a b : option (bytes * N)) : bool :=
  match a, b with
  | Some (d, f), Some (d', f') => bytes_eqb d d' && (f =? f')
  | None, None => true
  | _, _ => false end.
Definition view_in (v : option (bytes * N)) (l : list (option (bytes * N))) : bool := existsb (view_eqb v) l.

Definition gres_isb (g : gres) (v : option (bytes * N)) : bool :=
  match v with
  | Some (d, f) => negb (g_miss g) && bytes_eqb (g_data g) d && (g_flags g =? f)
  | None => g_miss g end.

(* the reply a fault-free read of key k owes a client, given the backend contents
   (c10_chunked_read_is_abs: owed_item of handlers/ChunkedFaultsSpec.v) *)
Definition owed (st : store) (now : N) (k : bytes) (opq : N) : hres := HVals [owed_item st now k opq false] None.

Definition req_key10 (q : hreq) : bytes := match req_keys q with k :: _ => k | [] => [] end.

(* c10_chunked_read_sound (single and multi-key) on the observation: every returned item answers
   the request item at its position, and is a miss or exactly that key's value before the call *)
Fixpoint items_sound (pre : store) (now : N) (items : list gitem) (rs : list gres) : bool :=
  match rs, items with
  | [], _ => true
  | g :: r, it :: its =>
      bytes_eqb (g_key g) (gi_key it) && (g_opaque g =? gi_opaque it) &&
      (g_miss g || gres_isb g (cview pre now (gi_key it))) && items_sound pre now its r
  | _ :: _, [] => false
  end.
Definition o_read_sound (c : case10h) : bool :=
  let pre := of_dump (x_pre c) in
  match x_req c, x_res c with
  | (HGet _ | HGat _ _ _), CPanic => false
  | HGet items, CRes (HVals rs eo) =>
      items_sound pre (x_now c) items rs &&
      match eo with None => Nat.eqb (length rs) (length items) | Some _ => Nat.ltb (length rs) (length items) end
  | HGat _ _ _, CRes (HVals [g] None) =>
      bytes_eqb (g_key g) (x_key c) && (g_miss g || gres_isb g (cview pre (x_now c) (x_key c)))
  | HGat _ _ _, CRes (HErr _) => true
  | (HGet _ | HGat _ _ _), _ => false
  | _, _ => true
  end.

(* the new value a write is about to store: Some (data, flags), None when the write cannot apply *)
Definition new_view (c : case10h) : option (bytes * N) :=
  let pre := of_dump (x_pre c) in
  match x_req c with
  | HSet _ _ d f _ => Some (d, f)
  | HCat fr _ d => match cview pre (x_now c) (x_key c) with
                   | Some (old, f) => Some (if fr then d ++ old else old ++ d, f)
                   | None => None end
  | _ => None
  end.

(* c10_chunked_set_acked / cat_acked / delete_acked: what an acknowledgement promises *)
Definition o_acked (c : case10h) : bool :=
  let vpost := cview (of_dump (x_post c)) (x_now c) (x_key c) in
  match x_req c, x_res c with
  | (HSet _ _ _ _ _ | HCat _ _ _), CRes HDone => view_eqb vpost (new_view c)
  | HDelete _, CRes HDone => view_eqb vpost None
  | _, _ => true
  end.

(* c10_chunked_*_aon: whatever the call returned, the key afterwards reads as nothing, as the
   value before, or (writes) as the complete new value — never a mix *)
Definition o_all_or_nothing (c : case10h) : bool :=
  let vpre := cview (of_dump (x_pre c)) (x_now c) (x_key c) in
  let vpost := cview (of_dump (x_post c)) (x_now c) (x_key c) in
  match x_req c with
  | HSet _ _ _ _ _ | HCat _ _ _ => view_in vpost [None; vpre; new_view c]
  | _ => view_in vpost [None; vpre]
  end.

(* c10_chunked_confined_f / c10_chunked_frame_f *)
Definition o_confined (c : case10h) : bool :=
  forallb (fun bk => match bk with [] => true | _ => existsb (fun k => derived_from k bk) (req_keys (x_req c)) end) (x_log c) &&
  oentry_eqb (abs_entry (of_dump (x_post c)) (x_now c) (x_other c)) (abs_entry (of_dump (x_pre c)) (x_now c) (x_other c)).

(* c10_chunked_read_is_abs: the fault-free reads afterwards return exactly the abstraction *)
Definition o_reads_after (c : case10h) : bool :=
  let post := of_dump (x_post c) in
  hres_eqb (x_get c) (owed post (x_now c) (x_key c) 7) &&
  hres_eqb (x_gat c) (owed post (x_now c) (x_key c) 77).

Definition oracle10h (c : case10h) : bool :=
  o_read_sound c && o_acked c && o_all_or_nothing c && o_confined c && o_reads_after c.

Definition trace_keys (qs : list breq) : list bytes :=
  map (fun q => match key_of q with Some k => k | None => [] end) qs.

Definition model10h (c : case10h) : store * cout * list bytes :=
  let pl := plan_of_list (x_plan c) in
  let pre := of_dump (x_pre c) in
  let '(s', r) := chunked_exec_f pl (x_tok c) (x_cnow c) pre (x_now c) (x_req c) in
  (s', r, trace_keys (chunked_trace_f pl (x_tok c) (x_cnow c) pre (x_now c) (x_req c))).

Definition check10h (c : case10h) : N :=
  let '(s', r, tr) := model10h c in
  let corr := cout_eqb r (x_res c) && stores_agree (x_now c) (x_bkeys c) s' (of_dump (x_post c)) &&
              list_eqb bytes_eqb tr (x_log c) in
  let orc := oracle10h c in
  if orc then (if corr then 0 else 1) else (if corr then 3 else 2).

(* debugging aid: which part disagrees *)
Record dbg10h := mkD10h { d_res_model : cout; d_res_ok : bool; d_store_ok : bool; d_log_model : list bytes; d_log_ok : bool;
                          d_read_sound : bool; d_acked : bool; d_aon : bool; d_confined : bool; d_reads_after : bool;
                          d_store_diff : list (bytes * option (N * N * deadline) * option (N * N * deadline)) }.
Definition short_res (r : cout) : cout :=
  match r with
  | CRes (HVals rs e) => CRes (HVals (map (fun g => mkGR (g_key g) (firstn 8 (g_data g)) (g_flags g) (len (g_data g)) (g_opaque g) (g_quiet g) (g_miss g)) rs) e)
  | x => x end.
Definition debug10h (c : case10h) : dbg10h :=
  let '(s', r, tr) := model10h c in
  let d := of_dump (x_post c) in
  let sm := fun (t : store) k => match live (x_now c) t k with Some e => Some (len (e_data e), e_flags e, e_dl e) | None => None end in
  mkD10h (short_res r) (cout_eqb r (x_res c)) (stores_agree (x_now c) (x_bkeys c) s' d) tr (list_eqb bytes_eqb tr (x_log c))
         (o_read_sound c) (o_acked c) (o_all_or_nothing c) (o_confined c) (o_reads_after c)
         (filter (fun x => negb (oentry_eqb (live (x_now c) s' (fst (fst x))) (live (x_now c) d (fst (fst x)))))
                 (map (fun k => (k, sm s' k, sm d k)) (x_bkeys c))).
