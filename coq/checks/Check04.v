(* Check04.v — handler-level runs of the real chunked handler against the fake backend:
   correspondence with handlers/Chunked.v and the oracles of C04 (transparent, confined,
   delete leaves nothing readable), C05 (all-or-nothing reads) and C09 (per-entry deadlines). *)
From Coq Require Import String.
From Rend Require Import base.Bytes base.Harness gen.Consts_gen spec.MapSpec orca.Types
  handlers.ChunkFmt handlers.Chunked.
Open Scope N_scope.

Record step04 := mkS4 {
  t_req : hreq;
  t_tok : bytes;                 (* token the handler drew for this call (from the backend log), [] if none *)
  t_cnow : N;                    (* the handler's clock reading *)
  t_now : N;                     (* the backend's clock *)
  t_lose : list bytes;           (* backend keys removed before the call (eviction / loss) *)
  t_put : list (bytes * entry);  (* backend entries written directly before the call (requests of other writers) *)
  t_res : hres;                  (* what the handler returned *)
  t_dump : list (bytes * entry); (* backend contents after the call *)
  t_log : list bytes }.          (* backend keys of the requests the call sent *)

Record case04 := mkC4 { c4_bkeys : list bytes; c4_ckeys : list bytes;
                        c4_written : list (bytes * bytes * N);  (* (key, data, flags) of complete writes whose requests are injected with t_put *)
                        c4_steps : list step04 }.

Definition gres_eqb (a b : gres) : bool :=
  bytes_eqb (g_key a) (g_key b) && bytes_eqb (g_data a) (g_data b) && (g_flags a =? g_flags b) &&
  (g_exp a =? g_exp b) && (g_opaque a =? g_opaque b) && Bool.eqb (g_quiet a) (g_quiet b) &&
  Bool.eqb (g_miss a) (g_miss b).
Definition hres_eqb (a b : hres) : bool :=
  match a, b with
  | HDone, HDone => true
  | HErr x, HErr y => x =? y
  | HVals xs ex, HVals ys ey => list_eqb gres_eqb xs ys && optN_eqb ex ey
  | _, _ => false
  end.

Definition cmd_of_hreq (q : hreq) : option cmd :=
  match q with
  | HSet m k d f ttl => Some (CSet m k d f ttl)
  | HCat fr k d => Some (CCat fr k d)
  | HDelete k => Some (CDelete k)
  | HTouch k ttl => Some (CTouch k ttl)
  | HGet items => Some (CGet (map gi_key items))
  | HGat k ttl _ => Some (CGat k ttl)
  | HGetE _ => None
  end.

Definition is_refusal (e : N) : bool := (e =? EKeyNotFound) || (e =? EKeyExists) || (e =? EItemNotStored).

Fixpoint views_ok (rs : list gres) (vs : list (option (bytes * N))) : bool :=
  match rs, vs with
  | [], [] => true
  | g :: r, v :: w =>
      (match v with
       | Some (d, f) => negb (g_miss g) && bytes_eqb (g_data g) d && (g_flags g =? f)
       | None => g_miss g end) && views_ok r w
  | _, _ => false
  end.

(* the handler result is what the single map says *)
Definition res_matches (o : outcome) (res : hres) : bool :=
  match o, res with
  | OOk, HDone => true
  | OMiss, HErr e | OExists, HErr e => is_refusal e
  | OVals vs, HVals rs None => views_ok rs vs
  | _, _ => false
  end.

(* backend keys derived from client key k *)
Definition derived_from (k bk : bytes) : bool :=
  let pre := k ++ [45] in
  bytes_eqb (firstn (length pre) bk) pre &&
  (let suf := skipn (length pre) bk in
   bytes_eqb suf (asc "meta") ||
   match parse_u32 suf with
   | Some i => bytes_eqb (dec i) suf && (i <? 1000)
   | None => false
   end).
Definition req_keys (q : hreq) : list bytes :=
  match q with
  | HSet _ k _ _ _ | HCat _ k _ | HDelete k | HTouch k _ | HGat k _ _ => [k]
  | HGet items | HGetE items => map gi_key items
  end.
Definition confined (q : hreq) (log : list bytes) : bool :=
  forallb (fun bk => existsb (fun k => derived_from k bk) (req_keys q)) log.

(* every live backend entry of a readable key carries the map's deadline (C09, chunked) *)
Definition chunk_deadlines_ok (st : store) (now : N) (k : bytes) (dl : deadline) : bool :=
  match live now st (meta_key k) with
  | None => true
  | Some me =>
      dl_eqb (e_dl me) dl &&
      forallb (fun i => match live now st (chunk_key k (N.of_nat i)) with
                        | Some e => dl_eqb (e_dl e) dl | None => true end)
              (seq 0 (N.to_nat (m_nchunks (dec_meta (e_data me)))))
  end.

Definition lose (s : store) (ks : list bytes) : store := fold_left (fun s k => upd s k None) ks s.
Definition put_all (s : store) (ps : list (bytes * entry)) : store := fold_left (fun s p => upd s (fst p) (Some (snd p))) ps s.

(* mode 4: C04 (+C16 sizes are checked by Check16); mode 5: C05 — with losses the oracle is
   "a read returns a value written in full by one set, or a miss": [written] collects
   (key, data, flags) of every successful full write so far; mode 9: deadlines. *)
Fixpoint run04 (mode : N) (bkeys ckeys : list bytes) (steps : list step04) (s a : store)
               (written : list (bytes * bytes * N)) (differed : bool) : N :=
  match steps with
  | [] => if differed then 1 else 0
  | st :: rest =>
      let now := t_now st in
      let q := t_req st in
      let s0 := put_all (lose s (t_lose st)) (t_put st) in
      let '(s', res) := chunked_exec (t_tok st) (t_cnow st) s0 now q in
      let d := of_dump (t_dump st) in
      let '(a', o) := match cmd_of_hreq q with Some c => spec_step a now c | None => (a, OOk) end in
      let corr := hres_eqb res (t_res st) && stores_agree now bkeys s' d in
      let oracle :=
        if mode =? 5 then
          (* all-or-nothing: every hit is a value some single write stored in full *)
          match t_res st with
          | HVals rs _ => forallb (fun g => g_miss g ||
                             existsb (fun w => let '(k, dd, f) := w in
                                bytes_eqb k (g_key g) && bytes_eqb dd (g_data g) && (f =? g_flags g)) written) rs
          | _ => true
          end &&
          (* an append/prepend that succeeds extends a value some single write stored in full *)
          match q, t_res st with
          | HCat fr k dd, HDone =>
              match abs_entry d now k with
              | Some e => existsb (fun w => let '(k', wd, f) := w in
                            bytes_eqb k' k && bytes_eqb (e_data e) (if fr then dd ++ wd else wd ++ dd) && (f =? e_flags e)) written
              | None => true
              end
          | _, _ => true
          end
        else
          res_matches o (t_res st) && confined q (t_log st) &&
          forallb (fun k => match live now a' k, abs_entry d now k with
                            | Some x, Some y => bytes_eqb (e_data x) (e_data y) && (e_flags x =? e_flags y) &&
                                                (if mode =? 9 then chunk_deadlines_ok d now k (e_dl x) else true)
                            | None, None => true
                            | _, _ => false end) ckeys in
      let written' :=
        match q, t_res st with
        | HSet _ k dd f _, HDone => (k, dd, f) :: written
        | HCat fr k dd, HDone =>
            match abs_entry d now k with Some e => (k, e_data e, e_flags e) :: written | None => written end
        | _, _ => written
        end in
      (* after a model/implementation difference the run continues from the implementation's
         observed backend contents, so that a later oracle failure is still found *)
      if negb oracle then (if corr && negb differed then 3 else 2)
      else if negb corr then run04 mode bkeys ckeys rest d a' written' true
      else run04 mode bkeys ckeys rest s' a' written' differed
  end.

Definition check04 (mode : N) (c : case04) : N :=
  run04 mode (c4_bkeys c) (c4_ckeys c) (c4_steps c) empty_store empty_store (c4_written c) false.

(* debugging aid *)
Record dbg04 := mkD4 { d4_step : N; d4_res_model : hres; d4_res_obs : hres; d4_corr_res : bool; d4_corr_store : bool;
                       d4_oracle_res : bool; d4_confined : bool;
                       d4_views : list (bytes * option (N * N * deadline) * option (N * N * deadline)) }.
Fixpoint debug04 (bkeys ckeys : list bytes) (steps : list step04) (s a : store) (i : N) : option dbg04 :=
  match steps with
  | [] => None
  | st :: rest =>
      let now := t_now st in
      let q := t_req st in
      let s0 := put_all (lose s (t_lose st)) (t_put st) in
      let '(s', res) := chunked_exec (t_tok st) (t_cnow st) s0 now q in
      let d := of_dump (t_dump st) in
      let '(a', o) := match cmd_of_hreq q with Some c => spec_step a now c | None => (a, OOk) end in
      let c1 := hres_eqb res (t_res st) in
      let c2 := stores_agree now bkeys s' d in
      let o1 := res_matches o (t_res st) in
      let o2 := confined q (t_log st) in
      let sm := fun (t : store) k => match live now t k with Some e => Some (len (e_data e), e_flags e, e_dl e) | None => None end in
      let o3 := forallb (fun k => match live now a' k, abs_entry d now k with
                            | Some x, Some y => bytes_eqb (e_data x) (e_data y) && (e_flags x =? e_flags y)
                            | None, None => true
                            | _, _ => false end) ckeys in
      if c1 && c2 && o1 && o2 && o3 then debug04 bkeys ckeys rest s' a' (i + 1)
      else Some (mkD4 i (match res with HVals rs e => HVals (map (fun g => mkGR (g_key g) (firstn 8 (g_data g)) (g_flags g) (len (g_data g)) (g_opaque g) (g_quiet g) (g_miss g)) rs) e | x => x end)
                        (match t_res st with HVals rs e => HVals (map (fun g => mkGR (g_key g) (firstn 8 (g_data g)) (g_flags g) (len (g_data g)) (g_opaque g) (g_quiet g) (g_miss g)) rs) e | x => x end)
                        c1 c2 o1 o2 (map (fun k => (k, sm s' k, sm d k)) bkeys))
  end.
Definition dbg04_case (c : case04) := debug04 (c4_bkeys c) (c4_ckeys c) (c4_steps c) empty_store empty_store 0.
