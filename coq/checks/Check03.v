(* Check03.v — schedule-controlled concurrent runs of the real orchestrators (with and without
   the locking wrapper) replayed in the lock LTS. Used by C03 (linearizable), C12 (locks
   released, panics close), C14 (disjoint keys: solo results). *)
From Coq Require Import String.
From Rend Require Import base.Bytes base.Harness gen.Consts_gen spec.MapSpec orca.Types handlers.Std
  orca.Orcas proto.Resp orca.OrcaSpec conc.LockLTS conc.LockInst conc.LockExec.
Open Scope N_scope.

Record thread03 := mkT3 {
  th_kind : orcakind;
  th_reqs : list req;
  th_replies : list bytes;     (* reply bytes (binary protocol) of each COMPLETED command, in order *)
  th_closed : bool }.          (* the server loop closed the connection *)

Record case03 := mkC3 {
  k3_multi : bool; k3_locking : bool; k3_conc : N; k3_now : N;
  k3_keys : list bytes;
  k3_threads : list thread03;
  k3_sched : list (nat * bool);              (* model-level schedule: (thread, panic?) *)
  k3_grants : list (N * N * bool * bool);    (* lock events in order: thread, lock index, exclusive, release? *)
  k3_l1 : list (bytes * entry); k3_l2 : list (bytes * entry) }.

Notation st3 := (state cell sres).

Definition init03 (c : case03) : st3 :=
  mkSt cell sres (fun _ => (None, None))
       (fun t => match nth_error (k3_threads c) t with
                 | Some th => TIdle cell sres (map (sections_of (k3_now c) (th_kind th)) (th_reqs th)) []
                 | None => TIdle cell sres [] []
                 end).

(* the bytes the server loop writes for one command, from the results of its sections *)
Definition cmd_reply (now : N) (k : orcakind) (r : req) (rs : list sres) : bytes :=
  match sections_of now k r with
  | [] => let '(_, _, cs, _) := serve1 std_exec std_exec (base_orca k) r empty_store empty_store now in
          render_all Bin cs
  | _ => concat (map (fun x => fst (fst x)) rs) ++
         match last (map snd rs) None with
         | Some e => if is_app_error e then render_bin (PError (req_opaque r) (rtype r) e (req_quiet r)) else []
         | None => []
         end
  end.

Fixpoint replies_of (now : N) (k : orcakind) (reqs : list req) (done : list (list sres)) : list bytes :=
  match reqs, done with
  | r :: rr, d :: dd => cmd_reply now k r d :: replies_of now k rr dd
  | _, _ => []
  end.

(* regroup a flat list of section results by the number of sections of each command *)
Fixpoint regroup (now : N) (k : orcakind) (reqs : list req) (xs : list sres) : list (list sres) :=
  match reqs with
  | [] => []
  | r :: rr => let n := length (sections_of now k r) in
               firstn n xs :: regroup now k rr (skipn n xs)
  end.

(* lock events of an execution: every acquisition and every release, in order. A panic inside
   a section also releases (deferred Unlock): the section of the panicking thread is found in
   the state before the panic, which the label list does not carry, so a panic's release is
   reported by the harness only and dropped from the comparison on both sides. *)
Definition grants_of (slot_of : bytes -> N) (multi : bool) (ls : list (label cell sres)) : list (N * N * bool * bool) :=
  flat_map (fun l => match l with
                     | LAcquire _ _ t s => [(N.of_nat t, slot_of (s_key s), exclusive cell sres multi s, false)]
                     | LRelease _ _ t s _ => [(N.of_nat t, slot_of (s_key s), exclusive cell sres multi s, true)]
                     | _ => [] end) ls.
Definition grant_eqb (a b : N * N * bool * bool) : bool :=
  let '(t, s, e, r) := a in let '(t', s', e', r') := b in (t =? t') && (s =? s') && Bool.eqb e e' && Bool.eqb r r'.
(* threads that panicked: their last release (if any) is the deferred unlock of the panic *)
Definition panicked (ls : list (label cell sres)) : list nat :=
  flat_map (fun l => match l with LPanic _ _ t => [t] | _ => [] end) ls.
Fixpoint drop_last_release (t : N) (evs : list (N * N * bool * bool)) : list (N * N * bool * bool) :=
  match evs with
  | [] => []
  | e :: r => let '(t', _, _, rel) := e in
              if (t' =? t) && rel && negb (existsb (fun x => let '(t2, _, _, rel2) := x in (t2 =? t) && rel2) r)
              then r else e :: drop_last_release t r
  end.

Definition cell_store (st : st3) (which : bool) : store :=
  fun k => let c := cells cell sres st k in if which then snd c else fst c.

(* solo run of thread t: schedule it alone until it stops *)
Fixpoint solo_run (slot_of : bytes -> N) (multi lck : bool) (n : nat) (fuel : nat) (st : st3) (t : nat) : st3 :=
  match fuel with
  | O => st
  | S f => match tstep cell sres slot_of multi lck n st t with
           | Some (st', _) => solo_run slot_of multi lck n f st' t
           | None => st
           end
  end.

(* mode 3: C03, mode 12: C12, mode 14: C14 *)
Definition check03 (mode : N) (c : case03) : N :=
  let now := k3_now c in
  let slot_of := lock_slot (k3_conc c) in
  let n := length (k3_threads c) in
  match run_sched cell sres slot_of (k3_multi c) (k3_locking c) n (init03 c) (k3_sched c) with
  | None => 1     (* the model cannot follow the schedule the implementation took *)
  | Some (st, ls) =>
      let ths := combine (seq 0 n) (k3_threads c) in
      (* a one-tier deployment keeps its only backend in the second cell component *)
      let one := forallb (fun th => is_one (th_kind th)) (k3_threads c) in
      let corr :=
        forallb (fun x => let '(t, th) := x in
                   list_eqb bytes_eqb (replies_of now (th_kind th) (th_reqs th) (thread_done cell sres st t)) (th_replies th) &&
                   Bool.eqb (th_closed th) (match thr cell sres st t with TDead _ _ _ => true | _ => false end)) ths &&
        (if k3_locking c then
           list_eqb grant_eqb (grants_of slot_of (k3_multi c) ls)
                    (fold_left (fun evs t => drop_last_release (N.of_nat t) evs) (panicked ls) (k3_grants c))
         else true) &&
        (if one then stores_agree now (k3_keys c) (cell_store st true) (of_dump (k3_l1 c))
         else stores_agree now (k3_keys c) (cell_store st false) (of_dump (k3_l1 c)) &&
              stores_agree now (k3_keys c) (cell_store st true) (of_dump (k3_l2 c))) in
      let d1 := if one then empty_store else of_dump (k3_l1 c) in
      let d2 := if one then of_dump (k3_l1 c) else of_dump (k3_l2 c) in
      let oracle :=
        if mode =? 3 then
          (* linearizable: replies are those of the reference map replayed at the linearization
             points; afterwards L1 holds nothing that differs from L2 and L2 is the map *)
          let '(m, out) := lin_replay cell sres (option entry) (fun s v => ref_sec now s v)
                             (fun s v => snd (ref_sec now s v)) ls (fun _ => None) in
          forallb (fun x => let '(t, th) := x in
                     list_eqb bytes_eqb
                       (replies_of now (th_kind th) (th_reqs th)
                                   (regroup now (th_kind th) (th_reqs th) (predicted sres out t)))
                       (th_replies th)) ths &&
          forallb (fun k => match live now d1 k with
                            | None => true
                            | Some e1 => match live now d2 k with
                                         | Some e2 => bytes_eqb (e_data e1) (e_data e2) && (e_flags e1 =? e_flags e2)
                                         | None => false end end &&
                            oentry_eqb (live now d2 k) (m k)) (k3_keys c)
        else if mode =? 14 then
          (* each connection observes exactly what it observes alone *)
          forallb (fun x => let '(t, th) := x in
                     let solo := solo_run slot_of (k3_multi c) (k3_locking c) n 2000 (init03 c) t in
                     list_eqb bytes_eqb (replies_of now (th_kind th) (th_reqs th) (thread_done cell sres solo t))
                                        (th_replies th)) ths
        else true in
      if negb oracle then (if corr then 3 else 2) else if negb corr then 1 else 0
  end.
