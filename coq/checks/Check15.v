(* Check15.v — a client sends a prefix of a request stream and stops: what it received and
   what the backends hold afterwards, compared with the byte-level connection model. *)
From Coq Require Import String.
From Rend Require Import base.Bytes base.Harness gen.Consts_gen spec.MapSpec orca.Types handlers.Std
  orca.Orcas proto.Resp proto.ReqCommon proto.BinReq proto.TextReq proto.Stream checks.Check01.
Open Scope N_scope.

Record case15 := mkC15 {
  z_proto : proto; z_cfg : cfg; z_two : bool; z_now : N; z_keys : list bytes;
  z_sent : bytes;                 (* the bytes the client sent before it stopped *)
  z_out : bytes;                  (* everything the client received until the server closed *)
  z_l1 : list (bytes * entry); z_l2 : list (bytes * entry) }.

Definition check15 (c : case15) : N :=
  let p := z_proto c in
  let parse := match p with Bin => parse_bin | Text => parse_text end in
  let '(out, l1, l2, st) := serve_stream p parse (orca_of (z_cfg c)) (S (length (z_sent c))) (z_sent c)
                              empty_store empty_store (z_now c) in
  let corr := bytes_eqb out (z_out c) &&
              stores_agree (z_now c) (z_keys c) l1 (of_dump (z_l1 c)) &&
              (if z_two c then stores_agree (z_now c) (z_keys c) l2 (of_dump (z_l2 c)) else true) in
  (* the oracle proper (loop ended, backend connections released, locks free, server still
     accepting) is observed on the Go side; here: the model itself must end Closed *)
  let oracle := match st with Closed => true | Open => false end in
  if negb oracle then 2 else if negb corr then 1 else 0.
