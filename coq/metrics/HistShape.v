(* HistShape.v — the SEQUENCE OF SYNCHRONISATION OPERATIONS of the functions of /repo/metrics that the
   concurrent histogram / counter models are about, as DATA, and the meaning of that data.

   `histtrans` (harness/cmd/rendharness/histtrans.go, go/parser, on every run) writes the bodies of
     ObserveHist, extractHist, newHist     (metrics/histograms.go)
     IncCounter, IncCounterBy              (metrics/counters.go)
   into gen/Hist_gen.v as values of the types below; gen/HistLink.v proves the generated values
   EQUAL to the expected ones defined here ([observe_model], [inccounter_model], [inccounterby_model],
   [extract_model], [newhist_model]); metrics/HistShapeProofs.v proves that the meaning of the expected
   values (the interpreters below) is what the hand-written models say:
     [istep] on [observe_model]  =  HistConc.tstep   (through the map [pc_of] from (position, locals)
                                                      to HistConc.pc)
     [x_run] on [extract_model]  =  the period swap of Hist.extract_gen, all of it under the write lock
     [newhist_meaning]           =  Hist.newHist
   Definitions only.

   What a statement list means (the interpreter [istep]):
   * a goroutine inside the function is a configuration [cfg]: the statements still to run (its
     position), its locals, the value loaded by a CAS loop that has not yet tried its CAS, the state
     of the read lock, the log of its bucket-counter adds;
   * ONE STEP = ONE sync/atomic primitive (or the plain store into the ring buffer): the atomic add,
     the load of a CAS loop, the compare-and-swap of a CAS loop, the store;
   * everything else (lock calls, pure assignments, ifs on locals, return) takes no step of its own:
     it is run right after the step before it ([settle]); lock calls are RECORDED in [k_lock];
   * [SOther] (something the translator did not recognise) stops the goroutine with the lock state
     [LBad]. *)
From Coq Require Import String.
From Rend Require Import base.Bytes gen.Consts_gen metrics.Lzcnt metrics.Bucket metrics.Hist metrics.HistConc.
Open Scope N_scope.

(* ---------- syntax ---------- *)
(* the memory cell an atomic primitive is applied to (h is the local bound by h := &hists[id]) *)
Inductive cell :=
| CTotal | CMax | CMin | CCount | CKept      (* &h.dat.total / max / min / count / kept *)
| CBucket (x : nat)                           (* &bhists[id].buckets[x], x a local *)
| CCounter                                    (* &counters[id] *)
| CCellOther (s : string).

Inductive cmpop := OpLt | OpGt | OpLe | OpGe | OpEq | OpNe.

(* pure uint64 expressions *)
Inductive hexpr :=
| EArg                          (* the uint64 parameter (ObserveHist: value, IncCounterBy: amount) *)
| EVar (x : nat)                (* a local; locals are numbered in the order of their definition *)
| EConst (n : N)                (* a literal, or a constant of gen/Consts_gen.v *)
| EAnd (a b : hexpr)
| ESub (a b : hexpr)
| EAdd (a b : hexpr)
| EGetBucket (a : hexpr)        (* getBucket(a) *)
| EOther (s : string).

Inductive hcond :=
| CSampled                      (* hSampled[id] *)
| CCmp (op : cmpop) (a b : hexpr)
| CAnd (a b : hcond)
| CCondOther (s : string).

Inductive hstmt :=
| SHistRef                                      (* h := &hists[id] *)
| SRLock | SRUnlock                             (* h.lock.RLock() / h.lock.RUnlock() *)
| SAtomicAdd (c : cell) (e : hexpr)             (* atomic.AddUint64(&c, e) *)
| SAddBind (x : nat) (c : cell) (e : hexpr)     (* x := atomic.AddUint64(&c, e) *)
| SLoadBind (x : nat) (c : cell)                (* x := atomic.LoadUint64(&c) *)
| SAtomicStore (c : cell) (e : hexpr)           (* atomic.StoreUint64(&c, e) *)
| SCasLoop (c : cell) (op : cmpop)              (* for { x := atomic.LoadUint64(&c)
                                                         if ARG op x || atomic.CompareAndSwapUint64(&c, x, ARG) { break } } *)
| SLet (x : nat) (e : hexpr)                    (* x := e, e pure *)
| SStoreBuf (i e : hexpr)                       (* h.dat.buf[i] = e *)
| SIf (c : hcond) (body : list hstmt)           (* if c { body }   (no else) *)
| SReturn
| SOther (s : string).

(* ---------- meaning ---------- *)
Inductive lockst := LFree | LHeld | LBad.

Record cfg := mkCfg {
  k_val : N;                       (* the uint64 argument *)
  k_rest : list hstmt;             (* what is still to run: the position *)
  k_env : list (nat * N);          (* locals *)
  k_loaded : option N;             (* inside a CAS loop: the value loaded, CAS not yet tried *)
  k_lock : lockst;                 (* the goroutine's read lock on h.lock *)
  k_bucket : list (N * N)          (* atomic adds made on bucket counters: (bucket, amount) *)
}.

Definition with_rest (c : cfg) r := mkCfg (k_val c) r (k_env c) (k_loaded c) (k_lock c) (k_bucket c).
Definition with_env (c : cfg) e := mkCfg (k_val c) (k_rest c) e (k_loaded c) (k_lock c) (k_bucket c).
Definition with_loaded (c : cfg) l := mkCfg (k_val c) (k_rest c) (k_env c) l (k_lock c) (k_bucket c).
Definition with_lock (c : cfg) l := mkCfg (k_val c) (k_rest c) (k_env c) (k_loaded c) l (k_bucket c).
Definition with_bucket (c : cfg) b := mkCfg (k_val c) (k_rest c) (k_env c) (k_loaded c) (k_lock c) b.

Fixpoint lookup (env : list (nat * N)) (x : nat) : N :=
  match env with
  | [] => 0
  | (y, v) :: r => if Nat.eqb x y then v else lookup r x
  end.

Fixpoint eval (v : N) (env : list (nat * N)) (e : hexpr) : N :=
  match e with
  | EArg => v
  | EVar x => lookup env x
  | EConst n => n
  | EAnd a b => N.land (eval v env a) (eval v env b)
  | ESub a b => sub64 (eval v env a) (eval v env b)
  | EAdd a b => add64 (eval v env a) (eval v env b)
  | EGetBucket a => getBucket (eval v env a)
  | EOther _ => 0
  end.

(* a op b on uint64 *)
Definition cmp_holds (op : cmpop) (a b : N) : bool :=
  match op with
  | OpLt => a <? b | OpGt => b <? a | OpLe => a <=? b | OpGe => b <=? a
  | OpEq => a =? b | OpNe => negb (a =? b)
  end.

Fixpoint evalc (sampled : bool) (v : N) (env : list (nat * N)) (c : hcond) : bool :=
  match c with
  | CSampled => sampled
  | CCmp op a b => cmp_holds op (eval v env a) (eval v env b)
  | CAnd a b => evalc sampled v env a && evalc sampled v env b
  | CCondOther _ => false
  end.

(* the cells of one histogram's period data; bucket counters and plain counters live elsewhere *)
Definition cell_get (c : cell) (d : hdat) : N :=
  match c with
  | CTotal => h_total d | CMax => h_max d | CMin => h_min d | CCount => h_count d | CKept => h_kept d
  | _ => 0
  end.
Definition cell_set (c : cell) (d : hdat) (x : N) : hdat :=
  match c with
  | CTotal => set_total d x | CMax => set_max d x | CMin => set_min d x
  | CCount => set_count d x | CKept => set_kept d x
  | _ => d
  end.
Definition log_bucket (c : cell) (cf : cfg) (amount : N) : cfg :=
  match c with
  | CBucket x => with_bucket cf (k_bucket cf ++ [(lookup (k_env cf) x, amount)])
  | _ => cf
  end.

Definition rlock (l : lockst) := match l with LFree => LHeld | _ => LBad end.
Definition runlock (l : lockst) := match l with LHeld => LFree | _ => LBad end.

(* size, the fuel of [settle] *)
Fixpoint ssize (s : hstmt) : nat :=
  match s with
  | SIf _ body => S ((fix go (l : list hstmt) : nat := match l with [] => O | x :: r => (ssize x + go r)%nat end) body)
  | _ => 1%nat
  end.
Fixpoint lsize (l : list hstmt) : nat := match l with [] => O | x :: r => (ssize x + lsize r)%nat end.

(* run the statements that take no step, up to the next atomic primitive or the end *)
Fixpoint settle_fuel (fuel : nat) (sampled : bool) (c : cfg) : cfg :=
  match fuel with
  | O => c
  | S f =>
    match k_rest c with
    | [] => c
    | s :: r =>
      match s with
      | SHistRef => settle_fuel f sampled (with_rest c r)
      | SRLock => settle_fuel f sampled (with_lock (with_rest c r) (rlock (k_lock c)))
      | SRUnlock => settle_fuel f sampled (with_lock (with_rest c r) (runlock (k_lock c)))
      | SLet x e => settle_fuel f sampled (with_env (with_rest c r) ((x, eval (k_val c) (k_env c) e) :: k_env c))
      | SIf cnd body =>
          if evalc sampled (k_val c) (k_env c) cnd
          then settle_fuel f sampled (with_rest c (body ++ r))
          else settle_fuel f sampled (with_rest c r)
      | SReturn => with_rest c []
      | SOther _ => with_lock (with_rest c []) LBad
      | _ => c
      end
    end
  end.
Definition settle (sampled : bool) (c : cfg) : cfg := settle_fuel (S (lsize (k_rest c))) sampled c.

(* a goroutine entering the function with argument v *)
Definition enter (prog : list hstmt) (sampled : bool) (v : N) : cfg :=
  settle sampled (mkCfg v prog [] None LFree []).

Definition cfg_done (c : cfg) : bool := match k_rest c with [] => true | _ => false end.

(* the next step of a goroutine on the histogram's period data *)
Definition istep (sampled : bool) (d : hdat) (c : cfg) : hdat * cfg :=
  let v := k_val c in
  let env := k_env c in
  match k_rest c with
  | [] => (d, c)
  | s :: r =>
    let next (c' : cfg) := settle sampled (with_rest c' r) in
    match s with
    | SAtomicAdd cl e =>
        let a := eval v env e in
        (cell_set cl d (add64 (cell_get cl d) a), next (log_bucket cl c a))
    | SAddBind x cl e =>
        let a := eval v env e in
        let n := add64 (cell_get cl d) a in
        (cell_set cl d n, next (with_env (log_bucket cl c a) ((x, n) :: env)))
    | SLoadBind x cl => (d, next (with_env c ((x, cell_get cl d) :: env)))
    | SAtomicStore cl e => (cell_set cl d (eval v env e), next c)
    | SCasLoop cl op =>
        match k_loaded c with
        | None => let m := cell_get cl d in
                  if cmp_holds op v m then (d, next c) else (d, with_loaded c (Some m))
        | Some m => if cell_get cl d =? m then (cell_set cl d v, next (with_loaded c None))
                    else (d, with_loaded c None)
        end
    | SStoreBuf i e => (set_buf d (bset (h_buf d) (eval v env i) (eval v env e)), next c)
    | _ => (d, settle sampled c)
    end
  end.

(* several goroutines: some goroutine that has not returned takes its next step *)
Inductive src_step (sampled : bool) : hdat * list cfg -> hdat * list cfg -> Prop :=
| src_step_intro : forall d l1 c l2 d' c',
    cfg_done c = false -> istep sampled d c = (d', c') ->
    src_step sampled (d, l1 ++ c :: l2) (d', l1 ++ c' :: l2).
Inductive src_run (sampled : bool) : hdat * list cfg -> hdat * list cfg -> Prop :=
| src_run_refl : forall s, src_run sampled s s
| src_run_step : forall s1 s2 s3, src_step sampled s1 s2 -> src_run sampled s2 s3 -> src_run sampled s1 s3.

Definition enter_all (prog : list hstmt) (sampled : bool) (vs : list N) : list cfg := map (enter prog sampled) vs.

(* the configurations one goroutine can be in, whatever the others do to the shared data between
   its steps *)
Inductive reach (prog : list hstmt) (sampled : bool) (v : N) : cfg -> Prop :=
| reach_enter : reach prog sampled v (enter prog sampled v)
| reach_step : forall c d, reach prog sampled v c -> reach prog sampled v (snd (istep sampled d c)).

(* ---------- ObserveHist as expected ---------- *)
Definition observe_model : list hstmt := [
  SHistRef;
  SRLock;
  SAtomicAdd CTotal EArg;
  SCasLoop CMax OpLt;
  SCasLoop CMin OpGt;
  SLet 0 (EGetBucket EArg);
  SAtomicAdd (CBucket 0) (EConst 1);
  SAddBind 1 CCount (EConst 1);
  SIf CSampled [SIf (CCmp OpGt (EAnd (EVar 1) (EConst 3)) (EConst 0)) [SRUnlock; SReturn]];
  SAddBind 2 CKept (EConst 1);
  SLet 3 (EAnd (ESub (EVar 2) (EConst 1)) (EConst buflen));
  SStoreBuf (EVar 3) EArg;
  SRUnlock ].

(* (position, locals) -> the pc of HistConc.v *)
Definition pc_of (c : cfg) : pc :=
  match k_rest c with
  | SAtomicAdd CTotal _ :: _ => PTotal
  | SCasLoop CMax _ :: _ => match k_loaded c with None => PLoadMax | Some m => PCasMax m end
  | SCasLoop CMin _ :: _ => match k_loaded c with None => PLoadMin | Some m => PCasMin m end
  | SAtomicAdd (CBucket _) _ :: _ => PBucket
  | SAddBind _ CCount _ :: _ => PCount
  | SAddBind _ CKept _ :: _ => PKept
  | SStoreBuf i _ :: _ => PWrite (eval (k_val c) (k_env c) i)
  | _ => PDone
  end.
Definition thread_of (c : cfg) : thread := mkThread (k_val c) (pc_of c).

(* the positions of observe_model at which a goroutine waits (the statement lists that begin with
   an atomic primitive), and the end *)
Definition observe_points : list (list hstmt) :=
  [skipn 2 observe_model; skipn 3 observe_model; skipn 4 observe_model; skipn 6 observe_model;
   skipn 7 observe_model; skipn 9 observe_model; skipn 11 observe_model; []].

(* what holds of every configuration of a goroutine in observe_model *)
Definition owf (c : cfg) : Prop :=
  In (k_rest c) observe_points /\
  (match k_rest c with
   | SCasLoop _ _ :: _ => True
   | SAtomicAdd (CBucket x) _ :: _ => k_loaded c = None /\ lookup (k_env c) x = getBucket (k_val c)
   | _ => k_loaded c = None
   end) /\
  k_lock c = (if cfg_done c then LFree else LHeld) /\
  k_bucket c = (match pc_of c with
                | PTotal | PLoadMax | PCasMax _ | PLoadMin | PCasMin _ | PBucket => []
                | _ => [(getBucket (k_val c), 1)]
                end).

(* ---------- counters ---------- *)
Definition inccounter_model : list hstmt := [SAtomicAdd CCounter (EConst 1)].
Definition inccounterby_model : list hstmt := [SAtomicAdd CCounter EArg].

(* the atomic adds a straight-line body makes on counters[id], in order; None if it does anything
   else *)
Fixpoint counter_adds (prog : list hstmt) (amount : N) : option (list N) :=
  match prog with
  | [] => Some []
  | SAtomicAdd CCounter e :: r =>
      match counter_adds r amount with Some l => Some (eval amount [] e :: l) | None => None end
  | _ => None
  end.

(* ---------- extractHist: the period swap ---------- *)
Inductive xbuf := XBBak                (* h.bakbuf *)
                | XBSaved              (* ret.buf, ret the saved copy *)
                | XBDat                (* h.dat.buf *)
                | XBOther (s : string).
Inductive xnum := XNMaxU64             (* math.MaxUint64 *)
                | XNConst (n : N)
                | XNOther (s : string).
Inductive hfield := FCount | FKept | FTotal | FMin | FMax.
Inductive xstmt :=
| XLock | XUnlock                                      (* h.lock.Lock() / h.lock.Unlock() *)
| XSave                                                (* ret := h.dat *)
| XReset (b : option xbuf) (nums : list (hfield * xnum))  (* h.dat = hdat{buf: b, f: n, ...}; fields not named are zero *)
| XSetBak (b : xbuf)                                   (* h.bakbuf = b *)
| XReturnSaved                                         (* return ret *)
| XOther (s : string).

Record xstate := mkX {
  x_hist : hist;
  x_saved : option hdat;
  x_lock : lockst;                (* the write lock *)
  x_unlocked_access : bool;       (* h.dat or h.bakbuf was read or written without the write lock *)
  x_ret : option hdat
}.

Definition xb_eval (st : xstate) (b : xbuf) : option buf :=
  match b with
  | XBBak => Some (bakbuf (x_hist st))
  | XBSaved => match x_saved st with Some d => Some (h_buf d) | None => None end
  | XBDat => Some (h_buf (dat (x_hist st)))
  | XBOther _ => None
  end.
Definition xn_eval (n : xnum) : option N :=
  match n with XNMaxU64 => Some maxu64 | XNConst k => Some k | XNOther _ => None end.
Definition hfield_eqb (a b : hfield) : bool :=
  match a, b with
  | FCount, FCount | FKept, FKept | FTotal, FTotal | FMin, FMin | FMax, FMax => true
  | _, _ => false
  end.
(* the value given to field f by a composite literal: zero when f is not named, None when the
   value is not understood or the field is named twice *)
Fixpoint xfield (nums : list (hfield * xnum)) (f : hfield) : option N :=
  match nums with
  | [] => Some 0
  | (g, n) :: r =>
      if hfield_eqb f g
      then (if existsb (fun p => hfield_eqb f (fst p)) r then None else xn_eval n)
      else xfield r f
  end.

Definition x_access (st : xstate) : bool :=
  x_unlocked_access st || negb (match x_lock st with LHeld => true | _ => false end).

Definition xstep (st : xstate) (s : xstmt) : option xstate :=
  match x_ret st with
  | Some _ => None                          (* statements after the return *)
  | None =>
    match s with
    | XLock => Some (mkX (x_hist st) (x_saved st) (rlock (x_lock st)) (x_unlocked_access st) None)
    | XUnlock => Some (mkX (x_hist st) (x_saved st) (runlock (x_lock st)) (x_unlocked_access st) None)
    | XSave => Some (mkX (x_hist st) (Some (dat (x_hist st))) (x_lock st) (x_access st) None)
    | XReset (Some b) nums =>
        match xb_eval st b, xfield nums FCount, xfield nums FKept, xfield nums FTotal, xfield nums FMin, xfield nums FMax with
        | Some bb, Some c, Some k, Some t, Some mi, Some ma =>
            Some (mkX (mkHist (mkHdat c k t mi ma bb) (bakbuf (x_hist st))) (x_saved st) (x_lock st) (x_access st) None)
        | _, _, _, _, _, _ => None
        end
    | XReset None _ => None                 (* a nil buffer: the model has no such histogram *)
    | XSetBak b =>
        match xb_eval st b with
        | Some bb => Some (mkX (mkHist (dat (x_hist st)) bb) (x_saved st) (x_lock st) (x_access st) None)
        | None => None
        end
    | XReturnSaved =>
        match x_saved st with
        | Some d => Some (mkX (x_hist st) (x_saved st) (x_lock st) (x_unlocked_access st) (Some d))
        | None => None
        end
    | XOther _ => None
    end
  end.

Fixpoint xsteps (st : xstate) (l : list xstmt) : option xstate :=
  match l with
  | [] => Some st
  | s :: r => match xstep st s with Some st' => xsteps st' r | None => None end
  end.

(* run the body on histogram h: the returned copy, the histogram left behind, and whether every
   access to h.dat / h.bakbuf happened under the write lock and the lock was released *)
Definition x_run (prog : list xstmt) (h : hist) : option (hdat * hist * bool) :=
  match xsteps (mkX h None LFree false None) prog with
  | Some st =>
      match x_ret st with
      | Some r => Some (r, x_hist st,
                        negb (x_unlocked_access st) && match x_lock st with LFree => true | _ => false end)
      | None => None
      end
  | None => None
  end.

Definition extract_model : list xstmt :=
  [XLock; XSave; XReset (Some XBBak) [(FMin, XNMaxU64)]; XSetBak XBSaved; XUnlock; XReturnSaved].

(* ---------- newHist ---------- *)
(* return hist{lock: &sync.RWMutex{}, dat: hdat{buf: make([]uint64, L1), f: n, ...}, bakbuf: make([]uint64, L2)} *)
Record newhist_shape := mkNewHist {
  nh_lock_fresh : bool;                   (* lock: &sync.RWMutex{} *)
  nh_buf_len : hexpr;                     (* L1 *)
  nh_nums : list (hfield * xnum);
  nh_bak_len : hexpr;                     (* L2 *)
  nh_extra : list string                  (* anything else in the function *)
}.
Definition newhist_model : newhist_shape :=
  mkNewHist true (EAdd (EConst buflen) (EConst 1)) [(FMin, XNMaxU64)] (EAdd (EConst buflen) (EConst 1)) [].

(* the histogram the shape describes: both buffers zero-filled with buf_len slots *)
Definition newhist_meaning (s : newhist_shape) : option hist :=
  if nh_lock_fresh s && (eval 0 [] (nh_buf_len s) =? buf_len) && (eval 0 [] (nh_bak_len s) =? buf_len)
     && match nh_extra s with [] => true | _ => false end
  then match xfield (nh_nums s) FCount, xfield (nh_nums s) FKept, xfield (nh_nums s) FTotal,
             xfield (nh_nums s) FMin, xfield (nh_nums s) FMax with
       | Some c, Some k, Some t, Some mi, Some ma => Some (mkHist (mkHdat c k t mi ma buf0) buf0)
       | _, _, _, _, _ => None
       end
  else None.
