(* Bucket.v — model of getBucket (metrics/histograms.go) over the GENERATED tables
   [bucketValues], [powerOf4Index] (gen/Tables_gen.v) and [numAtlasBuckets] (gen/Consts_gen.v).
   Definitions only; proofs are in BucketProofs.v.

   Go computes in uint64; the wraps are written out ([shl64], [sub64]).  [int(...)] of the offset
   and [uint64(pos + 1)] are conversions of values far below 2^63 (proved: the offset is at most 9,
   see [bucket_safe]) and are the identity.  Array indexing is [nth] with default 0; that the
   indices are in range (no panic) is part of [bucket_safe]. *)
From Rend Require Import base.Bytes gen.Consts_gen gen.Tables_gen metrics.Lzcnt.
From Rend Require Export gen.GoSem.   (* [tab]: indexing of a generated table, shared with gen/Funcs_gen.v *)
Open Scope N_scope.


Section WithLzcnt.
  Variable lz : N -> N.      (* the lzcnt routine linked in: assembly on amd64, portable elsewhere *)

  Definition getBucket_with (n : N) : N :=
    if n <=? 15 then n
    else
      let rshift := sub64 (sub64 64 (lz n)) 1 in
      let lshift := if N.land rshift 1 =? 1 then sub64 rshift 1 else rshift in
      let prevPowerOf4 := shl64 (shr64 n rshift) lshift in
      let delta := prevPowerOf4 / 3 in
      let offset := sub64 n prevPowerOf4 / delta in
      let pos := offset + tab powerOf4Index (lshift / 2) in
      if numAtlasBuckets - 1 <=? pos then numAtlasBuckets - 1 else pos + 1.
End WithLzcnt.

Definition getBucket : N -> N := getBucket_with lzcnt_asm.              (* amd64 build *)
Definition getBucket_portable : N -> N := getBucket_with lzcnt_portable. (* other builds *)

(* upper bound of bucket b *)
Definition bound (b : N) : N := tab bucketValues b.
