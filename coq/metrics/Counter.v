(* Counter.v — model of metrics/counters.go: a counter is a uint64 cell changed only by
   atomic.AddUint64 (IncCounter adds 1, IncCounterBy adds the amount) and read by atomic.LoadUint64.
   An atomic add is ONE indivisible step (trusted: sync/atomic); concurrency is then nothing but the
   order in which the steps of the goroutines are taken.  Definitions only. *)
From Rend Require Import base.Bytes metrics.Lzcnt.
Open Scope N_scope.

Definition counter_add (c amount : N) : N := add64 c amount.          (* atomic.AddUint64(&c, amount) *)
Definition run_adds (c0 : N) (trace : list N) : N := fold_left counter_add trace c0.

(* [interleave threads trace]: trace is one interleaving of the goroutines' add sequences — built
   by repeatedly letting some goroutine that still has steps take its next one *)
Inductive interleave : list (list N) -> list N -> Prop :=
| il_done : forall ts, Forall (fun t => t = []) ts -> interleave ts []
| il_step : forall ts1 a t ts2 tr,
    interleave (ts1 ++ t :: ts2) tr -> interleave (ts1 ++ (a :: t) :: ts2) (a :: tr).

Fixpoint sum_adds (l : list N) : N := match l with [] => 0 | x :: r => x + sum_adds r end.
