(* HistConc.v — ObserveHist run by several goroutines at once: every synchronisation operation
   of the function is ONE step, goroutines take their steps in any order.  Definitions only;
   proofs in HistConcProofs.v.

   Follows the fixed code (ring index as in Hist.v).  What is trusted rather than modelled:
   * each sync/atomic call is indivisible and sequentially consistent;
   * the RWMutex: ObserveHist holds the read lock from its first to its last statement and
     extractHist takes the write lock, so a reporting period consists of COMPLETE ObserveHist calls
     — the theorem is therefore about a set of calls that all start on the period's fresh hdat and
     all run to completion before the reader copies it;
   * the plain store h.dat.buf[idx] = value is taken to be one step.  Two goroutines can hold the
     same idx only when more than buflen+1 kept observations are in flight in one period (the ring
     wrapped within the period); Go's memory model calls that a data race, on amd64 either value
     ends up in the slot, which is what the step model gives.
   The bucket counters (bhists) are separate atomic cells; their final value under any interleaving
   is Counter.v's theorem. *)
From Rend Require Import base.Bytes gen.Consts_gen metrics.Lzcnt metrics.Hist.
Open Scope N_scope.

(* where a goroutine stands inside ObserveHist *)
Inductive pc :=
| PTotal               (* before atomic.AddUint64(&h.dat.total, value) *)
| PLoadMax             (* before max := atomic.LoadUint64(&h.dat.max) *)
| PCasMax (m : N)      (* value >= m was seen; before CompareAndSwapUint64(&h.dat.max, m, value) *)
| PLoadMin
| PCasMin (m : N)
| PBucket              (* before atomic.AddUint64(&bhists[id].buckets[bucket], 1) *)
| PCount               (* before c := atomic.AddUint64(&h.dat.count, 1) *)
| PKept                (* not sampled out; before atomic.AddUint64(&h.dat.kept, 1) *)
| PWrite (idx : N)     (* before h.dat.buf[idx] = value *)
| PDone.

Record thread := mkThread { t_val : N; t_pc : pc }.

Definition set_total (d : hdat) x := mkHdat (h_count d) (h_kept d) x (h_min d) (h_max d) (h_buf d).
Definition set_max (d : hdat) x := mkHdat (h_count d) (h_kept d) (h_total d) (h_min d) x (h_buf d).
Definition set_min (d : hdat) x := mkHdat (h_count d) (h_kept d) (h_total d) x (h_max d) (h_buf d).
Definition set_count (d : hdat) x := mkHdat x (h_kept d) (h_total d) (h_min d) (h_max d) (h_buf d).
Definition set_kept (d : hdat) x := mkHdat (h_count d) x (h_total d) (h_min d) (h_max d) (h_buf d).
Definition set_buf (d : hdat) x := mkHdat (h_count d) (h_kept d) (h_total d) (h_min d) (h_max d) x.

(* the next step of a goroutine on the shared counters *)
Definition tstep (sampled : bool) (d : hdat) (t : thread) : hdat * thread :=
  let v := t_val t in
  match t_pc t with
  | PTotal => (set_total d (add64 (h_total d) v), mkThread v PLoadMax)
  | PLoadMax => let m := h_max d in
                (d, mkThread v (if v <? m then PLoadMin else PCasMax m))
  | PCasMax m => if h_max d =? m then (set_max d v, mkThread v PLoadMin)
                 else (d, mkThread v PLoadMax)
  | PLoadMin => let m := h_min d in
                (d, mkThread v (if m <? v then PBucket else PCasMin m))
  | PCasMin m => if h_min d =? m then (set_min d v, mkThread v PBucket)
                 else (d, mkThread v PLoadMin)
  | PBucket => (d, mkThread v PCount)
  | PCount => let c := add64 (h_count d) 1 in
              (set_count d c, mkThread v (if sampled && (0 <? N.land c 3) then PDone else PKept))
  | PKept => let k := add64 (h_kept d) 1 in
             (set_kept d k, mkThread v (PWrite (ring_index k)))
  | PWrite idx => (set_buf d (bset (h_buf d) idx v), mkThread v PDone)
  | PDone => (d, t)
  end.

Definition is_done (t : thread) : bool := match t_pc t with PDone => true | _ => false end.

(* one step of the system: some goroutine that has not returned takes its next step *)
Inductive sys_step (sampled : bool) : hdat * list thread -> hdat * list thread -> Prop :=
| sys_step_intro : forall d l1 t l2 d' t',
    is_done t = false -> tstep sampled d t = (d', t') ->
    sys_step sampled (d, l1 ++ t :: l2) (d', l1 ++ t' :: l2).

Inductive sys_run (sampled : bool) : hdat * list thread -> hdat * list thread -> Prop :=
| sys_run_refl : forall s, sys_run sampled s s
| sys_run_step : forall s1 s2 s3, sys_step sampled s1 s2 -> sys_run sampled s2 s3 -> sys_run sampled s1 s3.

(* the goroutines that will observe vs, all about to enter *)
Definition start_threads (vs : list N) : list thread := map (fun v => mkThread v PTotal) vs.
