(* Lzcnt.v — models of the two leading-zero-count routines of /repo/metrics.
   Definitions only; proofs are in LzcntProofs.v.

   [lzcnt_portable] follows metrics/lzcnt.go (build tag !amd64) statement by statement; Go's
   uint64 shifts are written with their wrap: [x << k] is [(x * 2^k) mod 2^64], [x >> k] is
   [x / 2^k] ([N.shiftr]).  [lzcnt_asm] follows the four instructions of metrics/lzcnt_amd64.s. *)
From Rend Require Import base.Bytes.
Open Scope N_scope.

Definition two64 : N := 18446744073709551616.      (* 2^64 *)
Definition maxu64 : N := 18446744073709551615.     (* math.MaxUint64 *)
(* truncation to 64 bits: x mod 2^64, written as a mask so that it evaluates in linear time
   (LzcntProofs.wrap64_mod: wrap64 x = x mod two64) *)
Definition wrap64 (x : N) : N := N.land x maxu64.

Definition shl64 (x k : N) : N := wrap64 (N.shiftl x k).   (* uint64 x << k, k < 64 *)
Definition shr64 (x k : N) : N := N.shiftr x k.            (* uint64 x >> k *)
Definition sub64 (a b : N) : N := wrap64 (a + two64 - wrap64 b).   (* uint64 a - b *)
Definition add64 (a b : N) : N := wrap64 (a + b).                  (* uint64 a + b *)

(* one "if (x >> t) == 0 { n = n + k; x = x << k }" statement on the pair (n, x) *)
Definition lz_step (t k : N) (nx : N * N) : N * N :=
  let '(n, x) := nx in
  if shr64 x t =? 0 then (add64 n k, shl64 x k) else (n, x).

(* metrics/lzcnt.go as it stood when this check was written: the body copied from go-bits, which
   has no test for zero (Hacker's Delight's original starts with "if x == 0 return 64").
   It yields 63 at 0 (see metrics/LzcntOld.v). *)
Definition lzcnt_portable_body (x : N) : N :=
  let s0 := (1, x) in
  let s1 := lz_step 32 32 s0 in
  let s2 := lz_step (32 + 16) 16 s1 in
  let s3 := lz_step (32 + 16 + 8) 8 s2 in
  let s4 := lz_step (32 + 16 + 8 + 4) 4 s3 in
  let s5 := lz_step (32 + 16 + 8 + 4 + 2) 2 s4 in
  let '(n, x5) := s5 in
  sub64 n (shr64 x5 63).

(* metrics/lzcnt.go with /verif/fixes/C18-lzcnt-portable-zero.patch:
     if x == 0 { return 64 }  followed by the body above *)
Definition lzcnt_portable (x : N) : N :=
  if x =? 0 then 64 else lzcnt_portable_body x.

(* amd64 BSRQ: index of the highest set bit of a non-zero 64-bit operand (= floor(log2 x));
   ZF is set, and the destination undefined, when the operand is zero.  This reading of the
   instruction is part of the trusted base. *)
Definition bsrq (x : N) : N := N.log2 x.

(* metrics/lzcnt_amd64.s:
     BSRQ x, AX ; JZ zero ; SUBQ $63, AX ; NEGQ AX ; ret AX      zero: ret 64 *)
Definition lzcnt_asm (x : N) : N :=
  if x =? 0 then 64
  else
    let ax := bsrq x in
    let ax := sub64 ax 63 in       (* SUBQ $63, AX *)
    let ax := sub64 0 ax in        (* NEGQ AX *)
    ax.

(* what both are supposed to compute *)
Definition lzcnt_spec (x : N) : N := if x =? 0 then 64 else 63 - N.log2 x.
