(* LzcntOld.v — history: metrics/lzcnt.go before /verif/fixes/C18-lzcnt-portable-zero.patch.
   The portable routine had no test for zero and disagrees with the assembly routine there
   (63 against 64); on every other 64-bit input the two agree. Confirmed on the real code by the
   harness (sub-command c18, case kind "lzcnt", x = 0). *)
From Rend Require Import base.Bytes metrics.Lzcnt metrics.LzcntProofs.
Open Scope N_scope.

Definition lzcnt_portable_old (x : N) : N := lzcnt_portable_body x.

Lemma lzcnt_agree_old_refuted :
  exists x, x < two64 /\ lzcnt_portable_old x <> lzcnt_asm x.
Proof. exists 0. split; [reflexivity|]. vm_compute. discriminate. Qed.

Lemma lzcnt_portable_old_zero : lzcnt_portable_old 0 = 63 /\ lzcnt_asm 0 = 64.
Proof. split; reflexivity. Qed.

Lemma lzcnt_portable_old_nonzero x : 0 < x -> x < two64 -> lzcnt_portable_old x = lzcnt_asm x.
Proof.
  intros H0 Hx. pose proof (lzcnt_portable_spec x Hx) as Hp. rewrite <- (lzcnt_asm_spec x Hx) in Hp.
  unfold lzcnt_portable in Hp. destruct (N.eqb_spec x 0); [lia|exact Hp].
Qed.
