(* HistShapeProofs.v — the meaning (HistShape.v: one atomic primitive = one step) of the EXPECTED
   statement lists is what the hand-written models say:
   * [observe_step]: on every configuration a goroutine can be in, one step of the interpreter on
     observe_model IS HistConc.tstep (same new shared data, and the new (position, locals) maps to
     the new pc under [thread_of]); [observe_enter], [owf_onto]: the map starts at PTotal and reaches
     every pc — so the two step functions are the same function seen through [thread_of];
   * [src_run_sim] / [sys_step_back]: interleaved runs of the interpreter are exactly the runs of
     HistConc.sys_step; [src_concurrent]: c18_hist_concurrent holds of the interpreter's runs;
   * [observe_locked]: whatever the other goroutines do, the read lock is held at every atomic step
     (from the first to the last, also on the sampling return) and released exactly when the
     function has returned;
   * counters: the bodies make exactly one atomic add;
   * extractHist: the period swap of Hist.extract_gen, every access under the write lock;
   * newHist: Hist.newHist. *)
From Coq Require Import String.
From Rend Require Import base.Bytes gen.Consts_gen metrics.Lzcnt metrics.Bucket metrics.Hist metrics.HistProofs
  metrics.HistConc metrics.HistConcProofs metrics.Counter metrics.CounterProofs metrics.HistShape.
Open Scope N_scope.

Ltac red_shape :=
  cbn [tstep istep pc_of thread_of cfg_done settle settle_fuel lsize ssize with_rest with_env with_loaded with_lock
       with_bucket k_val k_rest k_env k_loaded k_lock k_bucket t_val t_pc log_bucket cell_get cell_set eval evalc
       lookup cmp_holds rlock runlock app Nat.eqb Nat.add Init.Nat.add fst snd andb].
Ltac red_shape_in H :=
  cbn [tstep istep pc_of thread_of cfg_done settle settle_fuel lsize ssize with_rest with_env with_loaded with_lock
       with_bucket k_val k_rest k_env k_loaded k_lock k_bucket t_val t_pc log_bucket cell_get cell_set eval evalc
       lookup cmp_holds rlock runlock app Nat.eqb Nat.add Init.Nat.add fst snd andb] in H.
Ltac in_points := unfold observe_points, observe_model; cbn [skipn In]; repeat (first [left; reflexivity | right]).
Ltac fin := red_shape; (split; [reflexivity|]); (split; [in_points|]); repeat split.

(* ---------- ObserveHist: the interpreter's step is tstep ---------- *)
(* entering the function: h := &hists[id] and RLock are done, the goroutine stands before the
   add on total with the read lock held *)
Lemma enter_observe sampled v :
  enter observe_model sampled v = mkCfg v (skipn 2 observe_model) [] None LHeld [].
Proof. reflexivity. Qed.

Lemma observe_enter sampled v :
  owf (enter observe_model sampled v) /\ thread_of (enter observe_model sampled v) = mkThread v PTotal.
Proof. rewrite enter_observe. split; [|reflexivity]. unfold owf. split; [in_points|]. repeat split. Qed.

Lemma observe_step sampled d c : owf c ->
  tstep sampled d (thread_of c) = (fst (istep sampled d c), thread_of (snd (istep sampled d c))) /\
  owf (snd (istep sampled d c)).
Proof.
  destruct c as [v rest env loaded lock blog]. unfold owf.
  intros (Hin & Hl & Hlock & Hb). cbn [k_rest] in Hin.
  unfold observe_points, observe_model in Hin. cbn [skipn In] in Hin.
  destruct Hin as [H|[H|[H|[H|[H|[H|[H|[H|[]]]]]]]]]; subst rest; red_shape_in Hl; red_shape_in Hlock; subst lock.
  - subst loaded. red_shape_in Hb. subst blog. fin.
  - destruct loaded as [m|]; red_shape_in Hb; subst blog; red_shape.
    + destruct (h_max d =? m); fin.
    + destruct (v <? h_max d); fin.
  - destruct loaded as [m|]; red_shape_in Hb; subst blog; red_shape.
    + destruct (h_min d =? m); fin.
    + destruct (h_min d <? v); fin.
  - destruct Hl as [Hl Hbk]. subst loaded. red_shape_in Hb. subst blog. red_shape. rewrite Hbk. fin.
  - subst loaded. red_shape_in Hb. subst blog. red_shape.
    destruct sampled; [destruct (0 <? N.land (add64 (h_count d) 1) 3)|]; fin.
  - subst loaded. red_shape_in Hb. subst blog. fin.
  - subst loaded. red_shape_in Hb. subst blog. fin.
  - subst loaded. red_shape_in Hb. subst blog. fin.
Qed.

(* every pc of HistConc.v is the image of a configuration: nothing of tstep is left uncovered *)
Lemma owf_onto v p : exists c, owf c /\ thread_of c = mkThread v p.
Proof.
  destruct p as [| |m| |m| | | |idx|].
  - exists (mkCfg v (skipn 2 observe_model) [] None LHeld []). split; [|reflexivity]. unfold owf. split; [in_points|]. repeat split.
  - exists (mkCfg v (skipn 3 observe_model) [] None LHeld []). split; [|reflexivity]. unfold owf. split; [in_points|]. repeat split.
  - exists (mkCfg v (skipn 3 observe_model) [] (Some m) LHeld []). split; [|reflexivity]. unfold owf. split; [in_points|]. repeat split.
  - exists (mkCfg v (skipn 4 observe_model) [] None LHeld []). split; [|reflexivity]. unfold owf. split; [in_points|]. repeat split.
  - exists (mkCfg v (skipn 4 observe_model) [] (Some m) LHeld []). split; [|reflexivity]. unfold owf. split; [in_points|]. repeat split.
  - exists (mkCfg v (skipn 6 observe_model) [(0%nat, getBucket v)] None LHeld []). split; [|reflexivity]. unfold owf. split; [in_points|]. repeat split.
  - exists (mkCfg v (skipn 7 observe_model) [] None LHeld [(getBucket v, 1)]). split; [|reflexivity]. unfold owf. split; [in_points|]. repeat split.
  - exists (mkCfg v (skipn 9 observe_model) [] None LHeld [(getBucket v, 1)]). split; [|reflexivity]. unfold owf. split; [in_points|]. repeat split.
  - exists (mkCfg v (skipn 11 observe_model) [(3%nat, idx)] None LHeld [(getBucket v, 1)]). split; [|reflexivity]. unfold owf. split; [in_points|]. repeat split.
  - exists (mkCfg v [] [] None LFree [(getBucket v, 1)]). split; [|reflexivity]. unfold owf. split; [in_points|]. repeat split.
Qed.

Lemma owf_done c : owf c -> is_done (thread_of c) = cfg_done c.
Proof.
  destruct c as [v rest env loaded lock blog]. unfold owf. intros (Hin & _). cbn [k_rest] in Hin.
  unfold observe_points, observe_model in Hin. cbn [skipn In] in Hin.
  destruct Hin as [H|[H|[H|[H|[H|[H|[H|[H|[]]]]]]]]]; subst rest; try reflexivity;
    destruct loaded; reflexivity.
Qed.

Lemma owf_val sampled d c : owf c -> k_val (snd (istep sampled d c)) = k_val c.
Proof.
  intros Hw. destruct (observe_step sampled d c Hw) as [He _].
  unfold thread_of in He at 1. destruct (k_rest c) eqn:Hr.
  - unfold istep. rewrite Hr. reflexivity.
  - assert (Ht : t_val (snd (tstep sampled d (mkThread (k_val c) (pc_of c)))) = k_val c).
    { unfold tstep. cbn [t_val t_pc]. destruct (pc_of c); cbn [snd t_val]; try reflexivity.
      - destruct (h_max d =? m); reflexivity.
      - destruct (h_min d =? m); reflexivity. }
    rewrite He in Ht. exact Ht.
Qed.

(* ---------- several goroutines ---------- *)
Lemma src_step_sim sampled d cs d' cs' :
  src_step sampled (d, cs) (d', cs') -> Forall owf cs ->
  sys_step sampled (d, map thread_of cs) (d', map thread_of cs') /\ Forall owf cs'.
Proof.
  intros Hs Hw. inversion Hs as [d0 l1 c l2 d1 c' Hnd Hst]; subst.
  assert (Hc : owf c) by (eapply Forall_elt; exact Hw).
  destruct (observe_step sampled d c Hc) as [He Hw']. rewrite Hst in He, Hw'. cbn [fst snd] in He, Hw'.
  split.
  - rewrite !map_app. cbn [map]. apply sys_step_intro.
    + rewrite owf_done by exact Hc. exact Hnd.
    + exact He.
  - apply Forall_app in Hw. destruct Hw as [H1 H2]. inversion H2; subst.
    apply Forall_app. split; [exact H1|]. constructor; assumption.
Qed.

Lemma src_run_sim sampled s s' :
  src_run sampled s s' -> Forall owf (snd s) ->
  sys_run sampled (fst s, map thread_of (snd s)) (fst s', map thread_of (snd s')) /\ Forall owf (snd s').
Proof.
  induction 1 as [s|s1 s2 s3 Hs _ IH]; intros Hw.
  - split; [apply sys_run_refl|exact Hw].
  - destruct s1 as [d1 c1], s2 as [d2 c2]. cbn [fst snd] in *.
    destruct (src_step_sim _ _ _ _ _ Hs Hw) as [H1 H2]. destruct (IH H2) as [H3 H4].
    split; [eapply sys_run_step; eassumption|exact H4].
Qed.

(* ... and back: a step of HistConc's system from the image of cs is the image of a step of the
   interpreter *)
Lemma sys_step_back sampled d cs s' :
  Forall owf cs -> sys_step sampled (d, map thread_of cs) s' ->
  exists d' cs', s' = (d', map thread_of cs') /\ src_step sampled (d, cs) (d', cs').
Proof.
  intros Hw Hs. remember (d, map thread_of cs) as s eqn:Es.
  destruct Hs as [d0 l1 t l2 d' t' Hnd Hst]. inversion Es as [[Ed H0]]. subst d0. clear Es.
  symmetry in H0. apply map_eq_app in H0. destruct H0 as (c1 & cr & -> & <- & Hr).
  apply map_eq_cons in Hr. destruct Hr as (c & c2 & -> & <- & <-).
  assert (Hc : owf c) by (eapply Forall_elt; exact Hw).
  destruct (observe_step sampled d c Hc) as [He _]. rewrite Hst in He. inversion He; subst.
  exists (fst (istep sampled d c)), (c1 ++ snd (istep sampled d c) :: c2). split.
  - rewrite !map_app. reflexivity.
  - apply src_step_intro; [rewrite <- owf_done by exact Hc; exact Hnd|apply surjective_pairing].
Qed.

Lemma enter_all_owf sampled vs : Forall owf (enter_all observe_model sampled vs).
Proof. unfold enter_all. apply Forall_forall. intros c Hc. apply in_map_iff in Hc. destruct Hc as (v & <- & _). apply observe_enter. Qed.

Lemma enter_all_threads sampled vs : map thread_of (enter_all observe_model sampled vs) = start_threads vs.
Proof. unfold enter_all, start_threads. rewrite map_map. apply map_ext. intros v. apply observe_enter. Qed.

Lemma forallb_done cs : Forall owf cs -> forallb is_done (map thread_of cs) = forallb cfg_done cs.
Proof.
  induction 1 as [|c cs Hc _ IH]; [reflexivity|]. cbn [map forallb]. rewrite IH, owf_done by exact Hc. reflexivity.
Qed.

Lemma owf_returned c : owf c -> cfg_done c = true ->
  k_lock c = LFree /\ k_bucket c = [(getBucket (k_val c), 1)].
Proof.
  destruct c as [v rest env loaded lock blog]. unfold owf, cfg_done. cbn [k_rest k_lock k_bucket k_val].
  intros (_ & _ & Hl & Hb) Hd. destruct rest; [|discriminate]. split; assumption.
Qed.

(* c18_hist_concurrent for the runs of the interpreter: any number of goroutines enter the body on
   the period's fresh counters, their atomic steps interleave in any order; when all have returned
   the report is good, every goroutine has released its read lock and has made exactly one atomic
   add of 1 on the counter of the bucket getBucket(value) *)
Lemma src_concurrent sampled vs b d cs :
  obs_ok vs ->
  src_run sampled (fresh_dat b, enter_all observe_model sampled vs) (d, cs) -> forallb cfg_done cs = true ->
  good_report sampled vs (report_of d) /\
  Forall (fun c => k_lock c = LFree /\ k_bucket c = [(getBucket (k_val c), 1)]) cs /\
  map k_val cs = vs.
Proof.
  intros Ho Hr Hd.
  destruct (src_run_sim _ _ _ Hr (enter_all_owf sampled vs)) as [Hs Hw]. cbn [fst snd] in Hs, Hw.
  rewrite enter_all_threads in Hs. split; [|split].
  - eapply conc_report_good; [exact Ho|exact Hs|]. rewrite forallb_done by exact Hw. exact Hd.
  - rewrite forallb_forall in Hd. rewrite Forall_forall in Hw |- *. intros c Hc. apply owf_returned; auto.
  - clear Ho Hd Hs Hw.
    assert (G : forall s s', src_run sampled s s' -> Forall owf (snd s) -> map k_val (snd s') = map k_val (snd s)).
    { induction 1 as [s|s1 s2 s3 Hst _ IH]; intros Hw; [reflexivity|].
      destruct s1 as [d1 c1], s2 as [d2 c2].
      destruct (src_step_sim _ _ _ _ _ Hst Hw) as [_ Hw2]. rewrite IH by exact Hw2. cbn [snd].
      inversion Hst as [d0 l1 c l2 d' c' Hnd He]; subst. rewrite !map_app. cbn [map]. do 2 f_equal.
      cbn [snd] in Hw. assert (Hc : owf c) by (eapply Forall_elt; exact Hw).
      pose proof (owf_val sampled d1 c Hc) as Hv. rewrite He in Hv. exact Hv. }
    pose proof (G _ _ Hr (enter_all_owf sampled vs)) as Hg. cbn [snd] in Hg. rewrite Hg. unfold enter_all. rewrite map_map.
    rewrite <- (map_id vs) at 2. apply map_ext. intros v. reflexivity.
Qed.

(* ---------- the read lock ---------- *)
Lemma reach_owf sampled v c : reach observe_model sampled v c -> owf c.
Proof. induction 1 as [|c d _ IH]; [apply observe_enter|apply observe_step; exact IH]. Qed.

(* whatever the shared data is at each of its steps (i.e. whatever the other goroutines and the
   reader do in between): a goroutine that still has an atomic step to take holds the read lock, a
   goroutine that has returned has released it — on the normal path and on the sampling return *)
Lemma observe_locked sampled v c : reach observe_model sampled v c ->
  k_lock c = (if cfg_done c then LFree else LHeld).
Proof. intros Hr. apply reach_owf in Hr. apply Hr. Qed.

(* both ends exist: the sampled-out call returns after the count, the kept one after the store *)
Lemma observe_paths v d :
  N.land (add64 (h_count d) 1) 3 <> 0 ->
  cfg_done (snd (istep true d (mkCfg v (skipn 7 observe_model) [] None LHeld [(getBucket v, 1)]))) = true /\
  cfg_done (snd (istep false d (mkCfg v (skipn 7 observe_model) [] None LHeld [(getBucket v, 1)]))) = false.
Proof.
  intros Hn. unfold observe_model. cbn [skipn]. red_shape. destruct (N.ltb_spec 0 (N.land (add64 (h_count d) 1) 3)); [split; reflexivity|lia].
Qed.

(* ---------- counters ---------- *)
Lemma inccounterby_adds amount : counter_adds inccounterby_model amount = Some [amount].
Proof. reflexivity. Qed.
Lemma inccounter_adds amount : counter_adds inccounter_model amount = Some [1].
Proof. reflexivity. Qed.

(* the adds a goroutine makes by calling the body once for each amount of the list *)
Definition calls_adds (prog : list hstmt) (amounts : list N) : list N :=
  flat_map (fun a => match counter_adds prog a with Some l => l | None => [] end) amounts.

Lemma calls_adds_by amounts : calls_adds inccounterby_model amounts = amounts.
Proof. unfold calls_adds. induction amounts as [|a r IH]; [reflexivity|]. cbn [flat_map]. rewrite IH. reflexivity. Qed.
Lemma calls_adds_one amounts : calls_adds inccounter_model amounts = map (fun _ => 1) amounts.
Proof. unfold calls_adds. induction amounts as [|a r IH]; [reflexivity|]. cbn [flat_map map]. rewrite IH. reflexivity. Qed.

(* c18_counter for the bodies: goroutines calling IncCounterBy with the amounts of their lists,
   their atomic adds interleaved in any order *)
Lemma src_counter threads trace c0 : c0 < two64 ->
  interleave (map (calls_adds inccounterby_model) threads) trace ->
  run_adds c0 trace = (c0 + sum_adds (concat threads)) mod two64.
Proof.
  intros Hc Hi. rewrite (map_ext _ (fun l => l) calls_adds_by), map_id in Hi.
  apply counter_interleave; assumption.
Qed.

Lemma sum_adds_ones (l : list N) : sum_adds (map (fun _ => 1) l) = len l.
Proof. induction l as [|a r IH]; [reflexivity|]. cbn [map sum_adds]. rewrite IH. unfold len. cbn [length]. lia. Qed.

Lemma src_counter_one threads trace c0 : c0 < two64 ->
  interleave (map (calls_adds inccounter_model) threads) trace ->
  run_adds c0 trace = (c0 + len (concat threads)) mod two64.
Proof.
  intros Hc Hi. rewrite (counter_interleave _ _ _ Hc Hi). f_equal. f_equal.
  rewrite (map_ext _ _ calls_adds_one). rewrite <- concat_map. apply sum_adds_ones.
Qed.

(* ---------- extractHist ---------- *)
(* the copy returned is the period's data, the histogram starts the next period on the old backup
   buffer with min = MaxUint64 and everything else zero, the returned buffer becomes the backup;
   every access to h.dat / h.bakbuf is made under the write lock, which is released at the end *)
Lemma extract_run h :
  x_run extract_model h = Some (dat h, mkHist (fresh_dat (bakbuf h)) (h_buf (dat h)), true).
Proof. reflexivity. Qed.

(* Hist.extract (extractHist followed by getAllHistograms' use of the copy) is that swap; when
   percentiles are printed the sort has been done in place in the returned buffer, i.e. in the
   new backup buffer *)
Lemma extract_run_model h r h' : x_run extract_model h = Some (r, h', true) ->
  r = dat h /\ fst (extract h) = report_of r /\ dat (snd (extract h)) = dat h' /\
  bakbuf (snd (extract h)) = (if prints r then snd (hdatPercentiles r) else bakbuf h').
Proof.
  rewrite extract_run. intros He. inversion He; subst. split; [reflexivity|]. split; [apply extract_report|].
  unfold extract, extract_gen. destruct (prints (dat h)).
  - destruct (hdatPercentiles (dat h)) as [p b]. split; reflexivity.
  - split; reflexivity.
Qed.

(* ---------- newHist ---------- *)
Lemma newhist_is_model : newhist_meaning newhist_model = Some newHist.
Proof. reflexivity. Qed.

(* ---------- runs of the interpreter exist: an executable scheduler (non-vacuity examples) ---------- *)
Fixpoint run_src_sched (sampled : bool) (s : hdat * list cfg) (sched : list nat) : hdat * list cfg :=
  match sched with
  | [] => s
  | i :: r =>
      let '(d, cs) := s in
      match nth_error cs i with
      | Some c => if cfg_done c then run_src_sched sampled s r
                  else let '(d', c') := istep sampled d c in
                       run_src_sched sampled (d', firstn i cs ++ c' :: skipn (S i) cs) r
      | None => run_src_sched sampled s r
      end
  end.

Lemma run_src_sched_sound sampled : forall sched s, src_run sampled s (run_src_sched sampled s sched).
Proof.
  induction sched as [|i r IH]; intros [d cs]; cbn [run_src_sched]; [constructor|].
  destruct (nth_error cs i) as [c|] eqn:Hn; [|apply IH].
  destruct (cfg_done c) eqn:Hd; [apply IH|].
  destruct (istep sampled d c) as [d' c'] eqn:Hs.
  eapply src_run_step; [|apply IH].
  rewrite (split_nth cs i c Hn) at 1. constructor; assumption.
Qed.
