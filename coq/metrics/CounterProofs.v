(* CounterProofs.v — any interleaving (indeed any permutation) of a multiset of atomic adds ends
   with initial + sum, modulo 2^64. *)
From Coq Require Import Sorting.Permutation.
From Rend Require Import base.Bytes metrics.Lzcnt metrics.LzcntProofs metrics.Counter.
Open Scope N_scope.

Lemma sum_adds_app a b : sum_adds (a ++ b) = sum_adds a + sum_adds b.
Proof. induction a as [|x a IH]; cbn [sum_adds app]; [reflexivity|rewrite IH; lia]. Qed.

Lemma two64_nz : two64 <> 0. Proof. discriminate. Qed.

Lemma run_adds_sum : forall tr c0, c0 < two64 -> run_adds c0 tr = (c0 + sum_adds tr) mod two64.
Proof.
  induction tr as [|a tr IH]; intros c0 Hc; cbn [run_adds fold_left sum_adds].
  - rewrite N.add_0_r. symmetry. apply N.mod_small. exact Hc.
  - fold (run_adds (counter_add c0 a) tr). rewrite IH.
    + unfold counter_add, add64. rewrite !wrap64_mod. rewrite N.add_mod_idemp_l by exact two64_nz.
      f_equal. lia.
    + unfold counter_add, add64. rewrite wrap64_mod. apply N.mod_lt. exact two64_nz.
Qed.

Lemma sum_adds_perm l l' : Permutation l l' -> sum_adds l = sum_adds l'.
Proof. induction 1; cbn [sum_adds]; lia. Qed.

Lemma concat_all_nil (ts : list (list N)) : Forall (fun t => t = []) ts -> concat ts = [].
Proof. induction 1 as [|t ts Ht _ IH]; cbn [concat]; [reflexivity|rewrite Ht, IH; reflexivity]. Qed.

Lemma interleave_perm ts tr : interleave ts tr -> Permutation (concat ts) tr.
Proof.
  induction 1 as [ts Hnil|ts1 a t ts2 tr _ IH].
  - rewrite concat_all_nil by exact Hnil. constructor.
  - rewrite concat_app in *. cbn [concat] in *. cbn [app].
    apply Permutation_sym. apply Permutation_cons_app. apply Permutation_sym. exact IH.
Qed.

(* any order of the same adds *)
Lemma counter_perm adds trace c0 : c0 < two64 -> Permutation adds trace ->
  run_adds c0 trace = (c0 + sum_adds adds) mod two64.
Proof. intros Hc Hp. rewrite run_adds_sum by exact Hc. rewrite (sum_adds_perm _ _ Hp). reflexivity. Qed.

(* any interleaving of the goroutines' add sequences *)
Lemma counter_interleave threads trace c0 : c0 < two64 -> interleave threads trace ->
  run_adds c0 trace = (c0 + sum_adds (concat threads)) mod two64.
Proof. intros Hc Hi. apply counter_perm; [exact Hc|apply interleave_perm; exact Hi]. Qed.

(* non-vacuity: interleavings exist, e.g. round-robin of two goroutines *)
Example interleave_example : interleave [[1; 2]; [10]] [1; 10; 2].
Proof.
  apply (il_step [] 1 [2] [[10]]). apply (il_step [[2]] 10 [] []). apply (il_step [] 2 [] [[]]).
  apply il_done. repeat constructor.
Qed.
