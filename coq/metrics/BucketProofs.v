(* BucketProofs.v — getBucket: upper bound, monotonicity, range, absence of panics.
   Shape: a value n >= 16 with floor(log2 n) = r lands in bucket [bucket_of_offset r j] for an offset
   j between [jmin r] and [jmax r] (at most 9); everything about the tables is then a finite sweep
   over r = 4..63 and those offsets, evaluated by vm_compute on the GENERATED tables and lifted to
   all n by division lemmas. *)
From Rend Require Import base.Bytes gen.Consts_gen gen.Tables_gen metrics.Lzcnt metrics.LzcntProofs metrics.Bucket.
Open Scope N_scope.

(* ---------- the routine in terms of r = floor(log2 n) ---------- *)
Definition lsh (r : N) : N := if N.odd r then r - 1 else r.
Definition prev (r : N) : N := 2 ^ lsh r.
Definition delta (r : N) : N := prev r / 3.
Definition off (r n : N) : N := (n - prev r) / delta r.
Definition bucket_of_offset (r j : N) : N :=
  let pos := j + tab powerOf4Index (lsh r / 2) in
  if numAtlasBuckets - 1 <=? pos then numAtlasBuckets - 1 else pos + 1.
Definition getBucket_log2 (n : N) : N :=
  if n <=? 15 then n else let r := N.log2 n in bucket_of_offset r (off r n).

Definition jmin (r : N) : N := (2 ^ r - prev r) / delta r.
Definition jmax (r : N) : N := (2 ^ (r + 1) - 1 - prev r) / delta r.
Definition bmin (r : N) : N := bucket_of_offset r (jmin r).
Definition bmax (r : N) : N := bucket_of_offset r (jmax r).

Definition upto (a k : nat) : list N := map N.of_nat (seq a k).
Lemma in_upto x a k : N.of_nat a <= x -> x < N.of_nat (a + k) -> In x (upto a k).
Proof. intros H1 H2. apply in_map_iff. exists (N.to_nat x). split; [lia|]. apply in_seq. lia. Qed.

Definition all_r63 : list N := upto 4 59.   (* 4..62 : values 16 .. 2^63-1 *)
Definition all_r64 : list N := upto 4 60.   (* 4..63 : values 16 .. 2^64-1 *)

Lemma shiftr_log2 n r : 2 ^ r <= n < 2 ^ (r + 1) -> N.shiftr n r = 1.
Proof.
  intros [H1 H2]. rewrite N.shiftr_div_pow2.
  replace (r + 1) with (N.succ r) in H2 by lia. rewrite N.pow_succ_r' in H2.
  pose proof (pow2_pos r). symmetry. apply N.div_unique with (n - 2 ^ r); lia.
Qed.

Lemma log2_bounds n : 16 <= n -> n < two64 ->
  let r := N.log2 n in 4 <= r /\ r < 64 /\ 2 ^ r <= n < 2 ^ (r + 1).
Proof.
  intros H16 H64. cbv zeta. pose proof (N.log2_spec n ltac:(lia)) as Hl.
  replace (N.succ (N.log2 n)) with (N.log2 n + 1) in Hl by lia.
  split; [|split; [|exact Hl]].
  - apply N.log2_le_mono in H16. change (N.log2 16) with 4 in H16. exact H16.
  - apply log2_lt_64; lia.
Qed.

Lemma lsh_le r : lsh r <= r.
Proof. unfold lsh. destruct (N.odd r); lia. Qed.

Lemma lsh_odd_pos r : N.odd r = true -> 1 <= r.
Proof. intros H. destruct r; [discriminate|lia]. Qed.

Lemma prev_le r : prev r <= 2 ^ r.
Proof. unfold prev. apply N.pow_le_mono_r; [lia|apply lsh_le]. Qed.

(* the Go routine, with either lzcnt, is getBucket_log2 *)
Lemma getBucket_with_log2 lz n :
  n < two64 -> (15 < n -> lz n = 63 - N.log2 n) -> getBucket_with lz n = getBucket_log2 n.
Proof.
  intros H64 Hlz. unfold getBucket_with, getBucket_log2.
  destruct (N.leb_spec n 15) as [|Hn]; [reflexivity|].
  rewrite (Hlz Hn). destruct (log2_bounds n ltac:(lia) H64) as (Hr4 & Hr64 & Hr).
  set (r := N.log2 n) in *.
  assert (Hrs : sub64 (sub64 64 (63 - r)) 1 = r).
  { rewrite (sub64_small 64) by (unfold two64; lia). rewrite sub64_small by (unfold two64; lia). lia. }
  rewrite Hrs.
  assert (Hls : (if N.land r 1 =? 1 then sub64 r 1 else r) = lsh r).
  { unfold lsh. change 1 with (N.ones 1) at 1. rewrite N.land_ones. change (2 ^ 1) with 2.
    rewrite <- N.bit0_eqb, N.bit0_odd. destruct (N.odd r) eqn:Ho; [|reflexivity].
    apply lsh_odd_pos in Ho. apply sub64_small; unfold two64; lia. }
  rewrite Hls.
  assert (Hprev : shl64 (shr64 n r) (lsh r) = prev r).
  { unfold shr64, shl64. rewrite (shiftr_log2 n r Hr). rewrite N.shiftl_1_l. apply wrap64_small.
    rewrite two64_pow. apply N.pow_lt_mono_r; [lia|]. pose proof (lsh_le r). lia. }
  rewrite Hprev.
  pose proof (prev_le r).
  rewrite (sub64_small n (prev r)) by lia.
  reflexivity.
Qed.

Lemma getBucket_is_log2 n : n < two64 -> getBucket n = getBucket_log2 n.
Proof.
  intros H. apply getBucket_with_log2; [exact H|]. intros Hn. rewrite lzcnt_asm_spec by exact H.
  unfold lzcnt_spec. destruct (N.eqb_spec n 0); [lia|reflexivity].
Qed.

Lemma getBucket_portable_same n : n < two64 -> getBucket_portable n = getBucket n.
Proof.
  intros H. rewrite getBucket_is_log2 by exact H. apply getBucket_with_log2; [exact H|].
  intros Hn. rewrite lzcnt_portable_spec by exact H.
  unfold lzcnt_spec. destruct (N.eqb_spec n 0); [lia|reflexivity].
Qed.

(* ---------- offsets ---------- *)
Lemma off_bounds r n : 2 ^ r <= n < 2 ^ (r + 1) -> 0 < delta r -> jmin r <= off r n <= jmax r.
Proof.
  intros [H1 H2] Hd. unfold jmin, jmax, off. pose proof (prev_le r).
  split; apply N.div_le_mono; lia.
Qed.

Lemma boo_mono r j j' : j <= j' -> bucket_of_offset r j <= bucket_of_offset r j'.
Proof.
  intros H. unfold bucket_of_offset.
  destruct (N.leb_spec (numAtlasBuckets - 1) (j + tab powerOf4Index (lsh r / 2)));
  destruct (N.leb_spec (numAtlasBuckets - 1) (j' + tab powerOf4Index (lsh r / 2))); lia.
Qed.

(* ---------- sweeps over the generated tables ---------- *)
Definition check_j (r j : N) : bool :=
  N.min (2 ^ (r + 1) - 1) (prev r + (j + 1) * delta r - 1) <=? bound (bucket_of_offset r j).
Definition check_r (r : N) : bool :=
  (0 <? delta r) && forallb (check_j r) (upto 0 (S (N.to_nat (jmax r)))).
Lemma upper_checked : forallb check_r all_r63 = true.
Proof. vm_compute. reflexivity. Qed.

Definition check_pair (r1 r2 : N) : bool := implb (r1 <? r2) (bmax r1 <=? bmin r2).
Definition check_mono_r (r : N) : bool :=
  (0 <? delta r) && (15 <=? bmin r) && forallb (check_pair r) all_r64.
Lemma mono_checked : forallb check_mono_r all_r64 = true.
Proof. vm_compute. reflexivity. Qed.

Lemma small_checked : forallb (fun n => n <=? bound n) (upto 0 16) = true.
Proof. vm_compute. reflexivity. Qed.

Lemma tables_checked :
  len bucketValues = numAtlasBuckets /\ len powerOf4Index = 32 /\ 15 < numAtlasBuckets.
Proof. vm_compute. repeat split. Qed.

Lemma in_all_r64 n : 16 <= n -> n < two64 -> In (N.log2 n) all_r64.
Proof.
  intros H1 H2. destruct (log2_bounds n H1 H2) as (Ha & Hb & _). apply in_upto; lia.
Qed.

Lemma mono_r_facts r : In r all_r64 ->
  0 < delta r /\ 15 <= bmin r /\ forall r2, In r2 all_r64 -> r < r2 -> bmax r <= bmin r2.
Proof.
  intros Hin. pose proof mono_checked as H. rewrite forallb_forall in H. specialize (H r Hin).
  unfold check_mono_r in H. apply andb_true_iff in H. destruct H as [H Hp].
  apply andb_true_iff in H. destruct H as [Hd Hb].
  split; [lia|split; [lia|]]. intros r2 Hin2 Hlt.
  rewrite forallb_forall in Hp. specialize (Hp r2 Hin2). unfold check_pair in Hp.
  destruct (N.ltb_spec r r2); [|lia]. cbn [implb] in Hp. lia.
Qed.

(* ---------- upper bound ---------- *)
Lemma upper_r n r : 16 <= n -> 2 ^ r <= n < 2 ^ (r + 1) -> check_r r = true ->
  n <= bound (bucket_of_offset r (off r n)).
Proof.
  intros Hn Hr Hc. unfold check_r in Hc. apply andb_true_iff in Hc. destruct Hc as [Hd Hc].
  apply N.ltb_lt in Hd. destruct (off_bounds r n Hr Hd) as [_ Hj].
  rewrite forallb_forall in Hc. specialize (Hc (off r n)).
  assert (Hin : In (off r n) (upto 0 (S (N.to_nat (jmax r))))) by (apply in_upto; lia).
  specialize (Hc Hin). unfold check_j in Hc. apply N.leb_le in Hc.
  pose proof (prev_le r) as Hp.
  assert (n <= prev r + (off r n + 1) * delta r - 1).
  { unfold off. pose proof (N.div_mod (n - prev r) (delta r) ltac:(lia)).
    pose proof (N.mod_lt (n - prev r) (delta r) ltac:(lia)). nia. }
  lia.
Qed.

Lemma bucket_upper n : n < 2 ^ 63 -> n <= bound (getBucket n).
Proof.
  intros Hn. assert (H64 : n < two64) by (rewrite two64_pow; change (2 ^ 64) with (2 * 2 ^ 63); lia).
  rewrite getBucket_is_log2 by exact H64. unfold getBucket_log2.
  destruct (N.leb_spec n 15) as [Hs|Hs].
  - pose proof small_checked as H. rewrite forallb_forall in H.
    specialize (H n ltac:(apply in_upto; lia)). lia.
  - destruct (log2_bounds n ltac:(lia) H64) as (H4 & _ & Hr). set (r := N.log2 n) in *.
    assert (r < 63).
    { destruct (N.ltb_spec r 63); [assumption|].
      assert (2 ^ 63 <= 2 ^ r) by (apply N.pow_le_mono_r; lia). lia. }
    apply upper_r; [lia|exact Hr|].
    pose proof upper_checked as Ha. rewrite forallb_forall in Ha. apply Ha. apply in_upto; lia.
Qed.

(* ---------- monotonicity (on all 64-bit values) ---------- *)
Lemma gb_between n : 16 <= n -> n < two64 ->
  bmin (N.log2 n) <= getBucket_log2 n <= bmax (N.log2 n).
Proof.
  intros H1 H2. unfold getBucket_log2. destruct (N.leb_spec n 15); [lia|].
  destruct (log2_bounds n H1 H2) as (_ & _ & Hr).
  destruct (mono_r_facts _ (in_all_r64 n H1 H2)) as (Hd & _ & _).
  destruct (off_bounds _ n Hr Hd). split; apply boo_mono; assumption.
Qed.

Lemma bucket_mono64 n m : n <= m -> m < two64 -> getBucket n <= getBucket m.
Proof.
  intros Hnm Hm. rewrite !getBucket_is_log2 by lia.
  destruct (N.le_gt_cases m 15) as [Hm15|Hm15].
  - unfold getBucket_log2. destruct (N.leb_spec n 15); destruct (N.leb_spec m 15); lia.
  - destruct (gb_between m ltac:(lia) Hm) as [Hlo _].
    destruct (mono_r_facts _ (in_all_r64 m ltac:(lia) Hm)) as (_ & H15 & _).
    destruct (N.le_gt_cases n 15) as [Hn15|Hn15].
    + unfold getBucket_log2 at 1. destruct (N.leb_spec n 15); lia.
    + destruct (gb_between n ltac:(lia) ltac:(lia)) as [_ Hhi].
      assert (Hrr : N.log2 n <= N.log2 m) by (apply N.log2_le_mono; exact Hnm).
      destruct (N.eq_dec (N.log2 n) (N.log2 m)) as [Heq|Hne].
      * unfold getBucket_log2. destruct (N.leb_spec n 15); [lia|]. destruct (N.leb_spec m 15); [lia|].
        rewrite Heq. apply boo_mono. unfold off. apply N.div_le_mono; [|lia].
        destruct (mono_r_facts _ (in_all_r64 m ltac:(lia) Hm)) as (Hd & _ & _). lia.
      * destruct (mono_r_facts _ (in_all_r64 n ltac:(lia) ltac:(lia))) as (_ & _ & Hp).
        specialize (Hp _ (in_all_r64 m ltac:(lia) Hm) ltac:(lia)). lia.
Qed.

Lemma bucket_mono n m : n <= m < 2 ^ 63 -> getBucket n <= getBucket m.
Proof.
  intros [H1 H2]. apply bucket_mono64; [exact H1|].
  rewrite two64_pow. change (2 ^ 64) with (2 * 2 ^ 63). lia.
Qed.

(* ---------- range, no panic ---------- *)
Lemma bucket_range n : n < two64 -> getBucket n < numAtlasBuckets.
Proof.
  intros H. rewrite getBucket_is_log2 by exact H. unfold getBucket_log2.
  destruct tables_checked as (_ & _ & H15).
  destruct (N.leb_spec n 15); [lia|]. unfold bucket_of_offset.
  destruct (N.leb_spec (numAtlasBuckets - 1) (off (N.log2 n) n + tab powerOf4Index (lsh (N.log2 n) / 2))); lia.
Qed.

(* for 15 < n < 2^64 the division is by a non-zero delta, the index into powerOf4Index is within
   the table, and the result indexes bucketValues / the counter array *)
Lemma bucket_safe n : 15 < n -> n < two64 ->
  let r := N.log2 n in
  0 < delta r /\ lsh r / 2 < len powerOf4Index /\ off r n <= 9 /\ getBucket n < len bucketValues.
Proof.
  intros H1 H2. cbv zeta.
  destruct (log2_bounds n ltac:(lia) H2) as (H4 & H64 & Hr).
  pose proof (in_all_r64 n ltac:(lia) H2) as Hin.
  destruct (mono_r_facts _ Hin) as (Hd & _ & _).
  destruct tables_checked as (Hlb & Hlp & _).
  split; [exact Hd|split; [|split]].
  - rewrite Hlp. pose proof (lsh_le (N.log2 n)). lia.
  - destruct (off_bounds _ n Hr Hd) as [_ Hj].
    assert (Hall : forallb (fun r => jmax r <=? 9) all_r64 = true) by (vm_compute; reflexivity).
    rewrite forallb_forall in Hall. specialize (Hall _ Hin). lia.
  - rewrite Hlb. apply bucket_range. exact H2.
Qed.
