(* Hist.v — model of one latency histogram of /repo/metrics/histograms.go: ObserveHist's
   per-period state, extractHist (end of a reporting period, buffer swap), hdatPercentiles, and
   the decision of getAllHistograms whether percentiles are printed.  Definitions only; proofs are
   in HistProofs.v.

   THIS FILE FOLLOWS THE CODE WITH TWO FIXES APPLIED (see /verif/fixes):
     C18-hist-ring-index.patch      idx := (atomic.AddUint64(&h.dat.kept, 1) - 1) & buflen
     C18-hist-sampled-empty.patch   getAllHistograms prints only the count when dat.kept == 0
   The behaviour of the unfixed code is kept in HistOld.v (same generic definitions below,
   instantiated with the old ring index and the old printing condition) together with the
   refutations that were replayed against the real code.

   Representation choices (all visible in the correspondence check):
   * a []uint64 of buflen+1 slots is a finite map from slot number to value, absent = 0
     ([make] zero-fills); slot numbers are produced only by [& buflen];
   * sort.Sort(uint64slice) is modelled by the stdlib merge sort on N: any correct sort of
     unsigned integers yields the same slice;
   * math.Floor(float64(len) * 99.9 / 100.0) is modelled as (len * 999) / 1000 — the float64
     expression is NOT modelled; the harness compares the two through the real code for the
     lengths it explores (quick: a sample including every multiple of 1000; thorough: every
     length 1..buflen+1);
   * uint64 counters wrap ([add64]); Go [int] arithmetic on lengths (<= buflen+1) cannot overflow. *)
From Coq Require Import FMapPositive Sorting.Mergesort Orders.
From Rend Require Import base.Bytes gen.Consts_gen metrics.Lzcnt.
Open Scope N_scope.

(* ---------- buffers ---------- *)
Definition buf := PositiveMap.t N.
Definition slot (i : N) : positive := N.succ_pos i.
Definition bget (b : buf) (i : N) : N :=
  match PositiveMap.find (slot i) b with Some v => v | None => 0 end.
Definition bset (b : buf) (i v : N) : buf := PositiveMap.add (slot i) v b.
Definition buf0 : buf := PositiveMap.empty N.            (* make([]uint64, buflen+1) *)
Definition buf_len : N := buflen + 1.                     (* len(buf) *)

Fixpoint iota (k : nat) (start : N) : list N :=
  match k with O => [] | S k' => start :: iota k' (start + 1) end.
(* buf[:n] *)
Definition bprefix (b : buf) (n : N) : list N := map (bget b) (iota (N.to_nat n) 0).
(* copy l into b from slot i on (the in-place sort writes the sorted prefix back) *)
Fixpoint bwrite (b : buf) (i : N) (l : list N) : buf :=
  match l with [] => b | v :: r => bwrite (bset b i v) (i + 1) r end.

Module NLe <: TotalLeBool.
  Definition t := N.
  Definition leb := N.leb.
  Theorem leb_total : forall a b, leb a b = true \/ leb b a = true.
  Proof. intros a b. unfold leb. destruct (N.leb_spec a b); [left; reflexivity|right; apply N.leb_le; lia]. Qed.
End NLe.
Module NSort := Sort NLe.
Definition sort64 (l : list N) : list N := NSort.sort l.

(* ---------- state ---------- *)
Record hdat := mkHdat { h_count : N; h_kept : N; h_total : N; h_min : N; h_max : N; h_buf : buf }.
Record hist := mkHist { dat : hdat; bakbuf : buf }.

(* hdat{buf: b, min: math.MaxUint64} — how newHist and extractHist start a period *)
Definition fresh_dat (b : buf) : hdat := mkHdat 0 0 0 maxu64 0 b.
Definition newHist : hist := mkHist (fresh_dat buf0) buf0.

(* ---------- ObserveHist ---------- *)
Section Generic.
  (* ring slot as a function of the value returned by atomic.AddUint64(&h.dat.kept, 1) *)
  Variable ring_index : N -> N.
  (* getAllHistograms: are percentiles (and average, kept) printed for this period? *)
  Variable prints : hdat -> bool.

  Definition observe_gen (sampled : bool) (d : hdat) (value : N) : hdat :=
    let total := add64 (h_total d) value in                       (* atomic.AddUint64(&total, value) *)
    let max := if value <? h_max d then h_max d else value in     (* CAS loop, run alone *)
    let min := if h_min d <? value then h_min d else value in     (* CAS loop, run alone *)
    let c := add64 (h_count d) 1 in                               (* c := atomic.AddUint64(&count, 1) *)
    if sampled && (0 <? N.land c 3) then                          (* hSampled[id] && (c & 0x3) > 0 *)
      mkHdat c (h_kept d) total min max (h_buf d)
    else
      let k := add64 (h_kept d) 1 in                              (* atomic.AddUint64(&kept, 1) *)
      let idx := ring_index k in
      mkHdat c k total min max (bset (h_buf d) idx value).        (* h.dat.buf[idx] = value *)

  Definition observe_all_gen (sampled : bool) (d : hdat) (obs : list N) : hdat :=
    fold_left (observe_gen sampled) obs d.

  (* ---------- hdatPercentiles ---------- *)
  Definition zeros23 : list N := repeat 0 23.

  (* returns the 23 percentiles and the buffer as the in-place sort leaves it *)
  Definition hdatPercentiles (d : hdat) : list N * buf :=
    if h_kept d =? 0 then (zeros23, h_buf d)
    else
      let n := if h_kept d <? buf_len then h_kept d else buf_len in   (* buf = buf[:kept] *)
      let s := sort64 (bprefix (h_buf d) n) in                        (* sort.Sort(uint64slice(buf)) *)
      let at_ (i : N) := nth (N.to_nat i) s 0 in
      let mid := map (fun i => at_ (n * i / 20)) (iota 19 1) in       (* pctls[i] = buf[len*i/20], i = 1..19 *)
      let p99 := at_ (n * 99 / 100) in
      let p999 := at_ ((n * 999) / 1000) in        (* int(math.Floor(float64(len) * 99.9 / 100.0)) — see header *)
      ([h_min d] ++ mid ++ [h_max d; p99; p999], bwrite (h_buf d) 0 s).

  (* ---------- one reporting period as /metrics sees it ---------- *)
  Record report := mkReport {
    r_count : N; r_kept : N; r_total : N; r_min : N; r_max : N;
    r_printed : bool;            (* percentile lines present in the output *)
    r_pctls : list N             (* the 23 values (all 0 when not printed) *)
  }.

  (* extractHist followed by what getAllHistograms does with the result *)
  Definition extract_gen (h : hist) : report * hist :=
    let d := dat h in
    let nd := fresh_dat (bakbuf h) in                 (* h.dat = hdat{buf: h.bakbuf, min: MaxUint64} *)
    if prints d then
      let '(p, b) := hdatPercentiles d in
      (mkReport (h_count d) (h_kept d) (h_total d) (h_min d) (h_max d) true p, mkHist nd b)
    else
      (mkReport (h_count d) (h_kept d) (h_total d) (h_min d) (h_max d) false zeros23, mkHist nd (h_buf d)).

  Definition period_gen (sampled : bool) (h : hist) (obs : list N) : report * hist :=
    extract_gen (mkHist (observe_all_gen sampled (dat h) obs) (bakbuf h)).

  (* consecutive periods on one histogram *)
  Fixpoint periods_gen (sampled : bool) (h : hist) (ps : list (list N)) : list report :=
    match ps with
    | [] => []
    | obs :: r => let '(rep, h') := period_gen sampled h obs in rep :: periods_gen sampled h' r
    end.
End Generic.

(* ---------- the fixed code ---------- *)
(* idx := (atomic.AddUint64(&h.dat.kept, 1) - 1) & buflen *)
Definition ring_index (k : N) : N := N.land (sub64 k 1) buflen.
(* if dat.kept == 0 { only the count is printed } *)
Definition prints (d : hdat) : bool := negb (h_kept d =? 0).

Definition observe := observe_gen ring_index.
Definition observe_all := observe_all_gen ring_index.
Definition extract := extract_gen prints.
Definition period := period_gen ring_index prints.
Definition periods := periods_gen ring_index prints.
