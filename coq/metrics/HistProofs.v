(* HistProofs.v — the histogram report of a period (fixed code, Hist.v): count, min/max and
   membership of every percentile, for every list of observations, any length (ring wrap-around
   included), sampled or not, from any buffer contents left by earlier periods. *)
From Coq Require Import FMapPositive Sorting.Mergesort Sorting.Permutation.
From Rend Require Import base.Bytes gen.Consts_gen metrics.Lzcnt metrics.LzcntProofs metrics.Hist.
Open Scope N_scope.

(* ---------- buffers ---------- *)
Lemma slot_inj i j : slot i = slot j -> i = j.
Proof.
  unfold slot. intros H. assert (H' : N.pos (N.succ_pos i) = N.pos (N.succ_pos j)) by (rewrite H; reflexivity).
  rewrite !N.succ_pos_spec in H'. lia.
Qed.

Lemma bget_bset_same b i v : bget (bset b i v) i = v.
Proof. unfold bget, bset. rewrite PositiveMap.gss. reflexivity. Qed.

Lemma bget_bset_other b i j v : i <> j -> bget (bset b j v) i = bget b i.
Proof.
  intros H. unfold bget, bset. rewrite PositiveMap.gso; [reflexivity|].
  intros Hs. apply H. apply slot_inj. exact Hs.
Qed.

Lemma in_iota k : forall s x, In x (iota k s) <-> s <= x < s + N.of_nat k.
Proof.
  induction k as [|k IH]; intros s x; cbn [iota In].
  - lia.
  - rewrite IH. lia.
Qed.

Lemma length_iota k : forall s, length (iota k s) = k.
Proof. induction k as [|k IH]; intros s; cbn [iota length]; [reflexivity|rewrite IH; reflexivity]. Qed.

Lemma in_bprefix b n v : In v (bprefix b n) -> exists i, i < n /\ v = bget b i.
Proof.
  unfold bprefix. rewrite in_map_iff. intros (i & Hv & Hi). apply in_iota in Hi.
  exists i. split; [lia|symmetry; exact Hv].
Qed.

Lemma length_bprefix b n : length (bprefix b n) = N.to_nat n.
Proof. unfold bprefix. rewrite map_length, length_iota. reflexivity. Qed.

(* ---------- arithmetic of the ring ---------- *)
Lemma buf_len_pow : buf_len = 2 ^ 15.
Proof. unfold buf_len. rewrite buflen_val. reflexivity. Qed.

Lemma ring_index_spec k : 1 <= k -> k < two64 -> ring_index k = (k - 1) mod buf_len.
Proof.
  intros H1 H2. unfold ring_index. rewrite sub64_small by lia.
  rewrite buf_len_pow, buflen_val. change 32767 with (N.ones 15). apply N.land_ones.
Qed.

Lemma ring_index_lt k : 1 <= k -> k < two64 -> ring_index k < buf_len.
Proof.
  intros H1 H2. rewrite ring_index_spec by assumption. apply N.mod_lt. rewrite buf_len_pow. discriminate.
Qed.

Lemma land3 c : N.land c 3 = c mod 4.
Proof. change 3 with (N.ones 2). rewrite N.land_ones. reflexivity. Qed.

(* ---------- the invariant of a period ---------- *)
Fixpoint sumN (l : list N) : N := match l with [] => 0 | x :: r => x + sumN r end.

Lemma sumN_app a b : sumN (a ++ b) = sumN a + sumN b.
Proof. induction a as [|x a IH]; cbn [sumN app]; [reflexivity|rewrite IH; lia]. Qed.

Lemma len_app {A} (a b : list A) : len (a ++ b) = len a + len b.
Proof. unfold len. rewrite app_length. lia. Qed.

Definition kept_of (sampled : bool) (n : N) : N := if sampled then n / 4 else n.

Definition hinv (sampled : bool) (seen : list N) (d : hdat) : Prop :=
  h_count d = len seen /\
  h_kept d = kept_of sampled (len seen) /\
  h_total d = sumN seen mod two64 /\
  (forall v, In v seen -> h_min d <= v <= h_max d) /\
  (seen = [] -> h_min d = maxu64 /\ h_max d = 0) /\
  (seen <> [] -> In (h_min d) seen /\ In (h_max d) seen) /\
  (forall i, i < h_kept d -> i < buf_len -> In (bget (h_buf d) i) seen).

Lemma hinv_fresh sampled b : hinv sampled [] (fresh_dat b).
Proof.
  unfold hinv, fresh_dat, kept_of. cbn [h_count h_kept h_total h_min h_max h_buf len length sumN].
  repeat split; try (destruct sampled; reflexivity); try contradiction; try lia; try congruence.
  all: destruct sampled; cbn in *; lia.
Qed.

Lemma hinv_step sampled seen d v :
  hinv sampled seen d -> v < two64 -> len seen + 1 < two64 ->
  hinv sampled (seen ++ [v]) (observe sampled d v).
Proof.
  intros (Hc & Hk & Ht & Hmm & Hnil & Hin & Hb) Hv Hlen.
  assert (Hlen' : len (seen ++ [v]) = len seen + 1) by (rewrite len_app; reflexivity).
  assert (Hc' : add64 (h_count d) 1 = len seen + 1).
  { unfold add64. rewrite Hc. apply wrap64_small. exact Hlen. }
  assert (Htot : add64 (h_total d) v = sumN (seen ++ [v]) mod two64).
  { unfold add64. rewrite wrap64_mod. rewrite Ht, sumN_app. cbn [sumN]. rewrite N.add_0_r.
    rewrite N.add_mod_idemp_l by (unfold two64; lia). reflexivity. }
  (* min and max *)
  set (mx := if v <? h_max d then h_max d else v).
  set (mn := if h_min d <? v then h_min d else v).
  assert (Hmm' : forall w, In w (seen ++ [v]) -> mn <= w <= mx).
  { intros w Hw. apply in_app_or in Hw. unfold mn, mx. destruct Hw as [Hw|[<-|[]]].
    - specialize (Hmm w Hw). destruct (N.ltb_spec v (h_max d)); destruct (N.ltb_spec (h_min d) v); lia.
    - destruct (N.ltb_spec v (h_max d)); destruct (N.ltb_spec (h_min d) v); lia. }
  assert (Hin' : In mn (seen ++ [v]) /\ In mx (seen ++ [v])).
  { unfold mn, mx. destruct seen as [|s0 seen'].
    - destruct (Hnil eq_refl) as [Hmin Hmax]. rewrite Hmin, Hmax.
      assert (Hm : maxu64 <? v = false) by (apply N.ltb_ge; unfold maxu64, two64 in *; lia).
      rewrite Hm. destruct (N.ltb_spec v 0); [lia|]. cbn. tauto.
    - destruct (Hin ltac:(discriminate)) as [Hi1 Hi2].
      split.
      + destruct (N.ltb_spec (h_min d) v); apply in_or_app; [left; exact Hi1|right; left; reflexivity].
      + destruct (N.ltb_spec v (h_max d)); apply in_or_app; [left; exact Hi2|right; left; reflexivity]. }
  assert (Hne : seen ++ [v] <> []) by (destruct seen; discriminate).
  unfold observe, observe_gen. fold mx. fold mn. rewrite Hc'.
  destruct (sampled && (0 <? N.land (len seen + 1) 3)) eqn:Hs.
  - (* sampled, not kept *)
    apply andb_true_iff in Hs. destruct Hs as [Hsm Hl]. subst sampled.
    rewrite land3 in Hl. apply N.ltb_lt in Hl.
    unfold hinv. cbn [h_count h_kept h_total h_min h_max h_buf].
    split; [lia|]. split.
    { rewrite Hk, Hlen'. unfold kept_of. lia. }
    split; [exact Htot|]. split; [exact Hmm'|]. split; [intros He; contradiction|].
    split; [intros _; exact Hin'|].
    intros i Hi1 Hi2. apply in_or_app. left. apply Hb; assumption.
  - (* kept *)
    assert (Hkl : h_kept d <= len seen) by (rewrite Hk; unfold kept_of; destruct sampled; lia).
    assert (Hk' : add64 (h_kept d) 1 = h_kept d + 1) by (unfold add64; apply wrap64_small; lia).
    rewrite Hk'.
    assert (Hkept : h_kept d + 1 = kept_of sampled (len (seen ++ [v]))).
    { rewrite Hlen', Hk. unfold kept_of. destruct sampled; [|reflexivity].
      cbn [andb] in Hs. apply N.ltb_ge in Hs. rewrite land3 in Hs. lia. }
    unfold hinv. cbn [h_count h_kept h_total h_min h_max h_buf].
    split; [lia|]. split; [exact Hkept|].
    split; [exact Htot|]. split; [exact Hmm'|]. split; [intros He; contradiction|].
    split; [intros _; exact Hin'|].
    intros i Hi1 Hi2.
    pose proof (ring_index_spec (h_kept d + 1) ltac:(lia) ltac:(lia)) as Hri.
    replace (h_kept d + 1 - 1) with (h_kept d) in Hri by lia.
    destruct (N.eq_dec i (ring_index (h_kept d + 1))) as [->|Hne'].
    + rewrite bget_bset_same. apply in_or_app. right. left. reflexivity.
    + rewrite bget_bset_other by exact Hne'. apply in_or_app. left. apply Hb; [|exact Hi2].
      (* i <= kept and i <> kept mod len: if i = kept then kept < len and kept mod len = kept *)
      destruct (N.eq_dec i (h_kept d)) as [->|?]; [|lia].
      exfalso. apply Hne'. rewrite Hri. symmetry. apply N.mod_small. exact Hi2.
Qed.

Lemma hinv_fold sampled : forall rest seen d,
  hinv sampled seen d -> Forall (fun v => v < two64) rest -> len seen + len rest < two64 ->
  hinv sampled (seen ++ rest) (observe_all sampled d rest).
Proof.
  induction rest as [|v rest IH]; intros seen d Hi Hf Hl.
  - rewrite app_nil_r. exact Hi.
  - inversion Hf as [|? ? Hv Hf']; subst.
    assert (Hl' : len (v :: rest) = 1 + len rest) by (unfold len; cbn [length]; lia).
    change (observe_all sampled d (v :: rest)) with (observe_all sampled (observe sampled d v) rest).
    replace (seen ++ v :: rest) with ((seen ++ [v]) ++ rest) by (rewrite <- app_assoc; reflexivity).
    apply IH; [apply hinv_step; [exact Hi|exact Hv|lia]|exact Hf'|rewrite len_app; unfold len in *; cbn [length] in *; lia].
Qed.

(* ---------- statements ---------- *)
(* a period starts with the hdat that newHist / extractHist install, on whatever buffer *)
Definition period_start (h : hist) : Prop := exists b, dat h = fresh_dat b.
(* observations are uint64 values and a period has fewer than 2^64 of them *)
Definition obs_ok (obs : list N) : Prop := Forall (fun v => v < two64) obs /\ len obs < two64.

Lemma period_hinv sampled h obs : period_start h -> obs_ok obs ->
  hinv sampled obs (observe_all sampled (dat h) obs).
Proof.
  intros [b Hb] [Hf Hl]. rewrite Hb. apply (hinv_fold sampled obs [] (fresh_dat b)).
  - apply hinv_fresh.
  - exact Hf.
  - unfold len at 1. cbn [length]. lia.
Qed.

(* what /metrics shows for a period whose final counters are d *)
Definition report_of (d : hdat) : report :=
  mkReport (h_count d) (h_kept d) (h_total d) (h_min d) (h_max d) (prints d)
           (if prints d then fst (hdatPercentiles d) else zeros23).

Lemma extract_report h : fst (extract h) = report_of (dat h).
Proof.
  unfold extract, extract_gen, report_of. destruct (prints (dat h)); [|reflexivity].
  destruct (hdatPercentiles (dat h)) as [p b]. reflexivity.
Qed.

Lemma period_report sampled h obs :
  fst (period sampled h obs) = report_of (observe_all sampled (dat h) obs).
Proof. unfold period, period_gen. fold extract. rewrite extract_report. reflexivity. Qed.

(* every entry of hdatPercentiles, when something was kept, is min, max or a slot < min(kept,len) *)
Lemma pctls_from d (P : N -> Prop) :
  h_kept d <> 0 -> P (h_min d) -> P (h_max d) ->
  (forall i, i < h_kept d -> i < buf_len -> P (bget (h_buf d) i)) ->
  Forall P (fst (hdatPercentiles d)).
Proof.
  intros Hk Pmin Pmax Pslot. unfold hdatPercentiles.
  destruct (N.eqb_spec (h_kept d) 0) as [?|_]; [contradiction|]. cbn [fst].
  set (n := if h_kept d <? buf_len then h_kept d else buf_len).
  assert (Hn : 0 < n /\ n <= h_kept d /\ n <= buf_len).
  { unfold n. destruct (N.ltb_spec (h_kept d) buf_len); rewrite buf_len_pow in *; lia. }
  set (s := sort64 (bprefix (h_buf d) n)).
  assert (Hperm : Permutation (bprefix (h_buf d) n) s) by (apply NSort.Permuted_sort).
  assert (Hlen : length s = N.to_nat n).
  { rewrite <- (Permutation_length Hperm). apply length_bprefix. }
  assert (Hat : forall i, i < n -> P (nth (N.to_nat i) s 0)).
  { intros i Hi. assert (Hin : In (nth (N.to_nat i) s 0) s) by (apply nth_In; lia).
    apply (Permutation_in _ (Permutation_sym Hperm)) in Hin.
    apply in_bprefix in Hin. destruct Hin as (j & Hj & ->). apply Pslot; lia. }
  apply Forall_app. split; [repeat constructor; exact Pmin|].
  apply Forall_app. split.
  - apply Forall_forall. intros p Hp. apply in_map_iff in Hp. destruct Hp as (i & <- & Hi).
    apply in_iota in Hi. apply Hat. apply N.div_lt_upper_bound; [lia|]. nia.
  - repeat constructor; [exact Pmax|apply Hat; lia|apply Hat; lia].
Qed.

(* ---------- the report of a period, from the invariant alone ----------
   (used for the sequential model below and for the interleaved model in HistConcProofs.v) *)
Lemma report_count sampled obs d : hinv sampled obs d ->
  let r := report_of d in
  r_count r = len obs /\ r_kept r = (if sampled then len obs / 4 else len obs) /\
  r_total r = sumN obs mod two64 /\ r_printed r = negb (r_kept r =? 0) /\
  (r_printed r = false -> r_pctls r = zeros23) /\ length (r_pctls r) = 23%nat.
Proof.
  intros (Hc & Hk & Ht & _). cbv zeta. unfold report_of. cbn [r_count r_kept r_total r_printed r_pctls].
  split; [exact Hc|]. split; [exact Hk|]. split; [exact Ht|]. split; [reflexivity|].
  split.
  - intros Hp. rewrite Hp. reflexivity.
  - destruct (prints _); [|reflexivity]. unfold hdatPercentiles.
    destruct (h_kept _ =? 0); [reflexivity|]. cbn [fst]. rewrite !app_length, map_length, length_iota. reflexivity.
Qed.

Lemma hinv_printed_nonempty sampled obs d : hinv sampled obs d -> prints d = true ->
  h_kept d <> 0 /\ obs <> [].
Proof.
  intros (Hc & Hk & _) Hp. unfold prints in Hp. apply negb_true_iff in Hp. apply N.eqb_neq in Hp.
  split; [exact Hp|]. intros ->. rewrite Hk in Hp. unfold kept_of, len in Hp. cbn in Hp.
  destruct sampled; cbn in Hp; lia.
Qed.

Lemma report_member sampled obs d : hinv sampled obs d ->
  let r := report_of d in
  r_printed r = true -> Forall (fun p => In p obs) (r_pctls r).
Proof.
  intros Hi. cbv zeta. unfold report_of. cbn [r_printed r_pctls]. intros Hp. rewrite Hp.
  destruct (hinv_printed_nonempty sampled obs d Hi Hp) as [Hk0 Hne].
  destruct Hi as (Hc & Hk & Ht & Hmm & Hnil & Hin & Hb).
  destruct (Hin Hne) as [Hi1 Hi2].
  apply pctls_from; assumption.
Qed.

Lemma report_minmax sampled obs d : hinv sampled obs d ->
  let r := report_of d in
  r_printed r = true ->
  (forall v, In v obs -> r_min r <= v <= r_max r) /\ In (r_min r) obs /\ In (r_max r) obs /\
  Forall (fun p => r_min r <= p <= r_max r) (r_pctls r) /\
  nth 0 (r_pctls r) 0 = r_min r /\ nth 20 (r_pctls r) 0 = r_max r.
Proof.
  intros Hi. cbv zeta. unfold report_of. cbn [r_printed r_pctls r_min r_max]. intros Hp. rewrite Hp.
  destruct (hinv_printed_nonempty sampled obs d Hi Hp) as [Hk0 Hne].
  destruct Hi as (Hc & Hk & Ht & Hmm & Hnil & Hin & Hb).
  destruct (Hin Hne) as [Hi1 Hi2].
  split; [exact Hmm|]. split; [exact Hi1|]. split; [exact Hi2|]. split.
  - apply pctls_from; [exact Hk0|specialize (Hmm _ Hi1); lia|specialize (Hmm _ Hi2); lia|].
    intros i H1 H2. apply Hmm. apply Hb; assumption.
  - unfold hdatPercentiles. destruct (N.eqb_spec (h_kept d) 0); [contradiction|].
    cbn [fst]. split; reflexivity.
Qed.

(* ---------- one goroutine ---------- *)
Lemma hist_count sampled h obs : period_start h -> obs_ok obs ->
  let r := fst (period sampled h obs) in
  r_count r = len obs /\ r_kept r = (if sampled then len obs / 4 else len obs) /\
  r_total r = sumN obs mod two64 /\ r_printed r = negb (r_kept r =? 0) /\
  (r_printed r = false -> r_pctls r = zeros23) /\ length (r_pctls r) = 23%nat.
Proof.
  intros Hs Ho. rewrite period_report. apply (report_count sampled). apply period_hinv; assumption.
Qed.

Lemma hist_member sampled h obs : period_start h -> obs_ok obs ->
  let r := fst (period sampled h obs) in
  r_printed r = true -> Forall (fun p => In p obs) (r_pctls r).
Proof.
  intros Hs Ho. rewrite period_report. apply (report_member sampled). apply period_hinv; assumption.
Qed.

Lemma hist_minmax sampled h obs : period_start h -> obs_ok obs ->
  let r := fst (period sampled h obs) in
  r_printed r = true ->
  (forall v, In v obs -> r_min r <= v <= r_max r) /\ In (r_min r) obs /\ In (r_max r) obs /\
  Forall (fun p => r_min r <= p <= r_max r) (r_pctls r) /\
  nth 0 (r_pctls r) 0 = r_min r /\ nth 20 (r_pctls r) 0 = r_max r.
Proof.
  intros Hs Ho. rewrite period_report. apply (report_minmax sampled). apply period_hinv; assumption.
Qed.

(* the next period starts fresh again (on the other buffer) *)
Lemma period_next sampled h obs : period_start (snd (period sampled h obs)).
Proof.
  unfold period, period_gen, extract_gen. cbn [dat bakbuf]. destruct (prints _).
  - destruct (hdatPercentiles _) as [p b]. cbn [snd dat]. eexists. reflexivity.
  - cbn [snd dat]. eexists. reflexivity.
Qed.

Lemma newHist_start : period_start newHist.
Proof. exists buf0. reflexivity. Qed.

(* the same for every period of any sequence of periods on one histogram *)
Definition good_report (sampled : bool) (obs : list N) (r : report) : Prop :=
  r_count r = len obs /\
  r_printed r = negb ((if sampled then len obs / 4 else len obs) =? 0) /\
  (r_printed r = false -> r_pctls r = zeros23) /\
  (r_printed r = true ->
     Forall (fun p => In p obs /\ r_min r <= p <= r_max r) (r_pctls r) /\
     (forall v, In v obs -> r_min r <= v <= r_max r)).

Lemma period_good sampled h obs : period_start h -> obs_ok obs ->
  good_report sampled obs (fst (period sampled h obs)).
Proof.
  intros Hs Ho. destruct (hist_count sampled h obs Hs Ho) as (Hc & Hk & _ & Hp & Hz & _).
  unfold good_report. split; [exact Hc|]. split; [rewrite Hp, Hk; reflexivity|]. split; [exact Hz|].
  intros Hpr. pose proof (hist_member sampled h obs Hs Ho Hpr) as Hm.
  destruct (hist_minmax sampled h obs Hs Ho Hpr) as (Hall & _ & _ & Hmm & _).
  split; [|exact Hall].
  rewrite Forall_forall in *. intros p Hin. split; [apply Hm|apply Hmm]; exact Hin.
Qed.

Lemma periods_cons sampled h obs ps :
  periods sampled h (obs :: ps) =
  fst (period sampled h obs) :: periods sampled (snd (period sampled h obs)) ps.
Proof.
  unfold periods, period. cbn [periods_gen]. destruct (period_gen _ _ _ _ _) as [rep h']. reflexivity.
Qed.

Lemma periods_good sampled : forall ps h, period_start h -> Forall obs_ok ps ->
  Forall2 (good_report sampled) ps (periods sampled h ps).
Proof.
  induction ps as [|obs ps IH]; intros h Hs Hf.
  - constructor.
  - inversion Hf as [|? ? Ho Hf']; subst. rewrite periods_cons.
    constructor; [apply period_good; assumption|apply IH; [apply period_next|assumption]].
Qed.

Lemma periods_good_newHist sampled ps : Forall obs_ok ps ->
  Forall2 (good_report sampled) ps (periods sampled newHist ps).
Proof. apply periods_good. apply newHist_start. Qed.
