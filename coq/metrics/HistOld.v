(* HistOld.v — history: the histogram code of /repo/metrics/histograms.go BEFORE the two fixes in
   /verif/fixes, modelled faithfully, and the refutations of the C18 statements for it.  Every
   witness below was replayed against the real code by the harness (sub-command c18); the check
   reports them as violations on the unfixed tree.

   Defect 1 (C18-hist-ring-index.patch):
       idx := atomic.AddUint64(&h.dat.kept, 1) & buflen
     The first kept observation of a period goes to buf[1]; buf[0] is never written until the ring
     wraps.  hdatPercentiles reads buf[:kept], i.e. the stale buf[0] (zero, or a value of an older
     period: the two buffers are swapped, never cleared) and NOT the newest observation.
   Defect 2 (C18-hist-sampled-empty.patch):
       getAllHistograms skips the percentiles only when dat.count == 0.  A sampled histogram with
       1..3 observations in the period has kept == 0, hdatPercentiles returns 23 zeros, and those
       zeros are printed as percentile0..percentile99.9 (and min/max as 0). *)
From Rend Require Import base.Bytes gen.Consts_gen metrics.Lzcnt metrics.Hist.
Open Scope N_scope.

Definition ring_index_old (k : N) : N := N.land k buflen.
Definition prints_old (d : hdat) : bool := negb (h_count d =? 0).

Definition observe_old := observe_gen ring_index_old.
Definition observe_all_old := observe_all_gen ring_index_old.
Definition extract_old := extract_gen prints_old.
Definition period_old := period_gen ring_index_old prints_old.
Definition periods_old := periods_gen ring_index_old prints_old.

Definition p50 (r : report) : N := nth 10 (r_pctls r) 0.

(* one observation of 100 on a new unsampled histogram: the median is reported as 0 *)
Lemma hist_member_old_refuted :
  exists obs, let r := fst (period_old false newHist obs) in
    r_printed r = true /\ ~ Forall (fun p => In p obs) (r_pctls r).
Proof.
  exists [100]. cbv zeta. split; [vm_compute; reflexivity|].
  intros H. rewrite Forall_forall in H. specialize (H 0).
  assert (Hin : In 0 (r_pctls (fst (period_old false newHist [100])))) by (vm_compute; tauto).
  specialize (H Hin). cbn in H. destruct H as [H|[]]. discriminate H.
Qed.

Lemma hist_p50_single_old : p50 (fst (period_old false newHist [100])) = 0.
Proof. vm_compute. reflexivity. Qed.

(* min <= percentile fails as well: min = 100 but p5..p95 = 0 *)
Lemma hist_minmax_old_refuted :
  exists obs, let r := fst (period_old false newHist obs) in
    ~ Forall (fun p => r_min r <= p <= r_max r) (r_pctls r).
Proof.
  exists [100]. cbv zeta. intros H. rewrite Forall_forall in H. specialize (H 0).
  assert (Hin : In 0 (r_pctls (fst (period_old false newHist [100])))) by (vm_compute; tauto).
  specialize (H Hin). vm_compute in H. destruct H as [H _]. apply H. reflexivity.
Qed.

(* the newest observation is dropped: 1,2,3 then 1000 — the median of four values is reported as 2
   and 1000 appears only as max *)
Lemma hist_newest_dropped_old :
  r_pctls (fst (period_old false newHist [1; 2; 3; 1000])) =
  [1; 0; 0; 0; 0; 1; 1; 1; 1; 1; 2; 2; 2; 2; 2; 3; 3; 3; 3; 3; 1000; 3; 3].
Proof. vm_compute. reflexivity. Qed.

(* a value of an OLDER period is reported.  Slot 0 is written only when the ring wraps (kept =
   buflen+1); period one does that with the value 9.  Period two runs on the other buffer; period
   three runs on the first buffer again, observes 500, 600, 700 (slots 1..3) and reports
   buf[:3] = [9; 500; 600]: percentile5 = 9, a value of period one, below the period's min 500. *)
Definition p5 (r : report) : N := nth 1 (r_pctls r) 0.
Lemma hist_stale_period_old :
  let rs := periods_old false newHist [repeat 9 (N.to_nat (buflen + 1)); [1]; [500; 600; 700]] in
  map r_count rs = [buflen + 1; 1; 3] /\ map p5 rs = [9; 0; 9] /\ map r_min rs = [9; 1; 500] /\
  map p50 rs = [9; 0; 500].
Proof. vm_compute. repeat split. Qed.

(* defect 2: sampled histogram, one observation: percentiles printed, all zero *)
Lemma hist_sampled_empty_old_refuted :
  let r := fst (period_old true newHist [100]) in
  r_count r = 1 /\ r_kept r = 0 /\ r_printed r = true /\ r_pctls r = zeros23 /\ ~ In 0 [100].
Proof. vm_compute. repeat split. intros [H|[]]. discriminate H. Qed.
