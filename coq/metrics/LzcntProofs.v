(* LzcntProofs.v — both leading-zero-count routines equal 63 - floor(log2 x) (64 at 0) on every
   64-bit input. *)
From Rend Require Import base.Bytes metrics.Lzcnt.
Open Scope N_scope.

Lemma two64_pow : two64 = 2 ^ 64. Proof. reflexivity. Qed.

Lemma pow2_pos k : 0 < 2 ^ k.
Proof. apply N.neq_0_lt_0. apply N.pow_nonzero. lia. Qed.

Lemma wrap64_mod x : wrap64 x = x mod two64.
Proof. unfold wrap64. change maxu64 with (N.ones 64). rewrite N.land_ones. reflexivity. Qed.

Lemma wrap64_small x : x < two64 -> wrap64 x = x.
Proof. intros H. rewrite wrap64_mod. apply N.mod_small. exact H. Qed.

Lemma sub64_small a b : b <= a -> a < two64 -> sub64 a b = a - b.
Proof.
  intros Hb Ha. unfold sub64. rewrite (wrap64_small b) by lia.
  rewrite wrap64_mod. replace (a + two64 - b) with ((a - b) + 1 * two64) by lia.
  rewrite N.mod_add by (unfold two64; lia). apply N.mod_small. lia.
Qed.

(* invariant of the portable routine: x is the input shifted left without loss, n - 1 is the
   shift distance so far, and x has reached the threshold 2^lo *)
Definition lz_inv (x0 lo : N) (nx : N * N) : Prop :=
  let '(n, x) := nx in
  2 ^ lo <= x /\ x < two64 /\ n + N.log2 x0 = 1 + N.log2 x.

Lemma log2_lt_64 x : 0 < x -> x < two64 -> N.log2 x < 64.
Proof.
  intros H0 H. apply N.log2_lt_pow2; [lia|]. rewrite <- two64_pow. exact H.
Qed.

Lemma lz_step_inv x0 lo t k nx :
  lo + k = t -> t + k = 64 -> lz_inv x0 lo nx -> lz_inv x0 t (lz_step t k nx).
Proof.
  intros Hlo Ht. destruct nx as [n x]. unfold lz_inv, lz_step. intros (Hlow & Hhi & Hn).
  pose proof (pow2_pos lo) as Hplo. pose proof (pow2_pos t) as Hpt. pose proof (pow2_pos k) as Hpk.
  assert (Hx0 : 0 < x) by lia.
  pose proof (log2_lt_64 x Hx0 Hhi) as Hl64.
  unfold shr64. rewrite N.shiftr_div_pow2.
  destruct (N.eqb_spec (x / 2 ^ t) 0) as [Hz|Hnz].
  - assert (Hxt : x < 2 ^ t).
    { destruct (N.lt_ge_cases x (2 ^ t)) as [?|Hge]; [assumption|].
      apply (N.div_le_mono _ _ (2 ^ t)) in Hge; [|lia].
      rewrite N.div_same in Hge by lia. lia. }
    assert (Hprod : x * 2 ^ k < two64).
    { rewrite two64_pow. rewrite <- Ht. rewrite N.pow_add_r. apply N.mul_lt_mono_pos_r; assumption. }
    unfold shl64, add64. rewrite N.shiftl_mul_pow2. rewrite (wrap64_small (x * 2 ^ k)) by exact Hprod.
    rewrite wrap64_small by (unfold two64; lia).
    split; [|split].
    + rewrite <- Hlo. rewrite N.pow_add_r. apply N.mul_le_mono_r. exact Hlow.
    + exact Hprod.
    + rewrite N.log2_mul_pow2 by lia. lia.
  - assert (Hxt : 2 ^ t <= x).
    { destruct (N.lt_ge_cases x (2 ^ t)) as [Hlt|?]; [|assumption].
      apply N.div_small in Hlt. contradiction. }
    split; [|split]; assumption.
Qed.

Lemma lzcnt_portable_spec x : x < two64 -> lzcnt_portable x = lzcnt_spec x.
Proof.
  intros Hx. unfold lzcnt_spec. destruct (N.eqb_spec x 0) as [->|Hnz].
  - reflexivity.
  - unfold lzcnt_portable. destruct (N.eqb_spec x 0) as [?|_]; [contradiction|].
    assert (H0 : lz_inv x 0 (1, x)).
    { unfold lz_inv. split; [|split]; [change (2 ^ 0) with 1; lia | exact Hx | lia]. }
    apply (lz_step_inv x 0 32 32) in H0; [|reflexivity|reflexivity].
    apply (lz_step_inv x 32 (32 + 16) 16) in H0; [|reflexivity|reflexivity].
    apply (lz_step_inv x (32 + 16) (32 + 16 + 8) 8) in H0; [|reflexivity|reflexivity].
    apply (lz_step_inv x (32 + 16 + 8) (32 + 16 + 8 + 4) 4) in H0; [|reflexivity|reflexivity].
    apply (lz_step_inv x (32 + 16 + 8 + 4) (32 + 16 + 8 + 4 + 2) 2) in H0; [|reflexivity|reflexivity].
    unfold lzcnt_portable_body.
    destruct (lz_step (32 + 16 + 8 + 4 + 2) 2 _) as [n x5].
    unfold lz_inv in H0. destruct H0 as (Hlow & Hhi & Hn).
    change (32 + 16 + 8 + 4 + 2) with 62 in Hlow.
    assert (Hx0 : 0 < x) by lia.
    pose proof (log2_lt_64 x Hx0 Hx) as Hl.
    unfold shr64. rewrite N.shiftr_div_pow2.
    destruct (N.lt_ge_cases x5 (2 ^ 63)) as [Hlt|Hge].
    + rewrite (N.div_small x5 (2 ^ 63)) by exact Hlt.
      assert (Hl5 : N.log2 x5 = 62) by (apply N.log2_unique; [lia|split; [exact Hlow|exact Hlt]]).
      rewrite sub64_small by (unfold two64; lia). lia.
    + assert (Hq : x5 / 2 ^ 63 = 1).
      { symmetry. apply (N.div_unique x5 (2 ^ 63) 1 (x5 - 2 ^ 63)); [|lia].
        rewrite two64_pow in Hhi. change (2 ^ 64) with (2 * 2 ^ 63) in Hhi. lia. }
      rewrite Hq.
      assert (Hl5 : N.log2 x5 = 63).
      { apply N.log2_unique; [lia|]. split; [exact Hge|]. rewrite two64_pow in Hhi. exact Hhi. }
      rewrite sub64_small by (unfold two64; lia). lia.
Qed.

Lemma lzcnt_asm_spec x : x < two64 -> lzcnt_asm x = lzcnt_spec x.
Proof.
  intros Hx. unfold lzcnt_asm, lzcnt_spec, bsrq. destruct (N.eqb_spec x 0) as [->|Hnz]; [reflexivity|].
  assert (Hx0 : 0 < x) by lia.
  pose proof (log2_lt_64 x Hx0 Hx) as Hl.
  set (l := N.log2 x) in *.
  (* SUBQ $63: l - 63 wraps to 2^64 - (63 - l) unless l = 63; NEGQ undoes it *)
  unfold sub64 at 2. rewrite (wrap64_small 63) by (unfold two64; lia).
  destruct (N.eq_dec l 63) as [->|Hne].
  - vm_compute. reflexivity.
  - replace (l + two64 - 63) with (two64 - (63 - l)) by lia.
    rewrite (wrap64_small (two64 - (63 - l))) by (unfold two64; lia).
    unfold sub64. rewrite (wrap64_small (two64 - (63 - l))) by (unfold two64; lia).
    replace (0 + two64 - (two64 - (63 - l))) with (63 - l) by (unfold two64; lia).
    apply wrap64_small. unfold two64. lia.
Qed.

Lemma lzcnt_agree x : x < two64 ->
  lzcnt_portable x = lzcnt_asm x /\ lzcnt_asm x = (if x =? 0 then 64 else 63 - N.log2 x).
Proof.
  intros Hx. rewrite lzcnt_portable_spec, lzcnt_asm_spec by exact Hx. split; reflexivity.
Qed.
