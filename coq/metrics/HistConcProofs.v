(* HistConcProofs.v — any interleaving of the atomic steps of any number of ObserveHist calls that
   all start on a period's fresh hdat and all complete leaves counters that satisfy the same
   invariant [hinv] as a sequential run over the same values (in any order); the report theorems
   of HistProofs.v then apply unchanged. *)
From Coq Require Import FMapPositive Sorting.Permutation.
From Rend Require Import base.Bytes gen.Consts_gen metrics.Lzcnt metrics.LzcntProofs metrics.Hist metrics.HistProofs metrics.HistConc.
Open Scope N_scope.

Definition rank (p : pc) : N :=
  match p with
  | PTotal => 0 | PLoadMax => 1 | PCasMax _ => 1 | PLoadMin => 2 | PCasMin _ => 2
  | PBucket => 3 | PCount => 4 | PKept => 5 | PWrite _ => 6 | PDone => 7
  end.

Definition f_count (t : thread) : N := if 4 <? rank (t_pc t) then 1 else 0.
Definition f_total (t : thread) : N := if 0 <? rank (t_pc t) then t_val t else 0.
Definition f_kpend (t : thread) : N := match t_pc t with PKept => 1 | _ => 0 end.

(* what a goroutine knows about the shared extremes at its position *)
Definition tinv (d : hdat) (t : thread) : Prop :=
  match t_pc t with
  | PCasMax m => m <= h_max d /\ m <= t_val t
  | PCasMin m => h_min d <= m /\ t_val t <= m
  | _ => True
  end /\
  (2 <= rank (t_pc t) -> t_val t <= h_max d) /\
  (3 <= rank (t_pc t) -> h_min d <= t_val t).

Definition cinv (sampled : bool) (vs : list N) (s : hdat * list thread) : Prop :=
  let '(d, ts) := s in
  map t_val ts = vs /\
  h_count d = sumN (map f_count ts) /\
  h_total d = sumN (map f_total ts) mod two64 /\
  h_kept d + sumN (map f_kpend ts) = kept_of sampled (h_count d) /\
  (h_max d = 0 \/ In (h_max d) vs) /\
  (h_min d = maxu64 \/ In (h_min d) vs) /\
  Forall (tinv d) ts /\
  (forall i, i < h_kept d -> i < buf_len ->
     In (bget (h_buf d) i) vs \/ exists t, In t ts /\ t_pc t = PWrite i).

(* ---------- list bookkeeping ---------- *)
Lemma sum_upd (f : thread -> N) l1 t l2 :
  sumN (map f (l1 ++ t :: l2)) = sumN (map f l1) + f t + sumN (map f l2).
Proof. rewrite map_app, sumN_app. cbn [map sumN]. lia. Qed.

Lemma sum_le_len (f : thread -> N) l : (forall t, f t <= 1) -> sumN (map f l) <= len l.
Proof.
  intros Hf. induction l as [|t l IH]; cbn [map sumN]; [unfold len; cbn; lia|].
  specialize (Hf t). unfold len in *. cbn [length]. lia.
Qed.

Lemma f_count_le1 t : f_count t <= 1.
Proof. unfold f_count. destruct (4 <? rank (t_pc t)); lia. Qed.

Lemma len_upd {A} (l1 : list A) t l2 : len (l1 ++ t :: l2) = len l1 + 1 + len l2.
Proof. unfold len. rewrite app_length. cbn [length]. lia. Qed.

Lemma in_upd {A} (x t t' : A) l1 l2 : In x (l1 ++ t :: l2) -> In x (l1 ++ t' :: l2) \/ x = t.
Proof.
  intros H. apply in_app_or in H. destruct H as [H|[H|H]].
  - left. apply in_or_app. left. exact H.
  - right. symmetry. exact H.
  - left. apply in_or_app. right. right. exact H.
Qed.

Lemma in_new {A} (t' : A) l1 l2 : In t' (l1 ++ t' :: l2).
Proof. apply in_or_app. right. left. reflexivity. Qed.

Lemma map_val_upd l1 t t' l2 : t_val t' = t_val t ->
  map t_val (l1 ++ t' :: l2) = map t_val (l1 ++ t :: l2).
Proof. intros H. rewrite !map_app. cbn [map]. rewrite H. reflexivity. Qed.

Lemma forall_upd (P : thread -> Prop) l1 t t' l2 :
  Forall P (l1 ++ t :: l2) -> P t' -> Forall P (l1 ++ t' :: l2).
Proof.
  intros H Ht. apply Forall_app in H. destruct H as [H1 H2]. inversion H2; subst.
  apply Forall_app. split; [assumption|constructor; assumption].
Qed.

Lemma forall_elt (P : thread -> Prop) l1 t l2 : Forall P (l1 ++ t :: l2) -> P t.
Proof. intros H. apply Forall_app in H. destruct H as [_ H2]. inversion H2; assumption. Qed.

Lemma tinv_mono d d' t :
  h_max d <= h_max d' -> h_min d' <= h_min d -> tinv d t -> tinv d' t.
Proof.
  intros Hx Hn (Hp & H2 & H3). unfold tinv. split; [|split].
  - destruct (t_pc t); try exact I; lia.
  - intros H. specialize (H2 H). lia.
  - intros H. specialize (H3 H). lia.
Qed.

Lemma forall_tinv_mono d d' ts :
  h_max d <= h_max d' -> h_min d' <= h_min d -> Forall (tinv d) ts -> Forall (tinv d') ts.
Proof. intros Hx Hn H. eapply Forall_impl; [|exact H]. intros t. apply tinv_mono; assumption. Qed.

Lemma pending_upd l1 t t' l2 i :
  (exists t0, In t0 (l1 ++ t :: l2) /\ t_pc t0 = PWrite i) ->
  t_pc t <> PWrite i ->
  exists t0, In t0 (l1 ++ t' :: l2) /\ t_pc t0 = PWrite i.
Proof.
  intros (t0 & Hin & Hpc) Hne. destruct (in_upd t0 t t' l1 l2 Hin) as [H| ->].
  - exists t0. split; assumption.
  - contradiction.
Qed.

(* ---------- one step preserves the invariant ---------- *)
Section Step.
  Variable sampled : bool.
  Variable vs : list N.
  Hypothesis Hvs : Forall (fun v => v < two64) vs.
  Hypothesis Hlen : len vs < two64.

  Lemma val_lt l1 t l2 : map t_val (l1 ++ t :: l2) = vs -> t_val t < two64.
  Proof.
    intros Hm. rewrite Forall_forall in Hvs. apply Hvs. rewrite <- Hm.
    apply in_map. apply in_new.
  Qed.

  Lemma val_in l1 t l2 : map t_val (l1 ++ t :: l2) = vs -> In (t_val t) vs.
  Proof. intros Hm. rewrite <- Hm. apply in_map. apply in_new. Qed.

  Lemma cinv_step s s' : sys_step sampled s s' -> cinv sampled vs s -> cinv sampled vs s'.
  Proof.
    intros Hstep. destruct Hstep as [d l1 t l2 d' t' Hnd Hts].
    unfold cinv. intros (Hmap & Hc & Ht & Hk & Hmx & Hmn & Hall & Hb).
    pose proof (forall_elt _ _ _ _ Hall) as Htinv.
    pose proof (val_lt l1 t l2 Hmap) as Hv64.
    pose proof (val_in l1 t l2 Hmap) as Hvin.
    assert (Hlents : len (l1 ++ t :: l2) = len vs).
    { rewrite <- Hmap. unfold len. rewrite map_length. reflexivity. }
    rewrite len_upd in Hlents.
    rewrite sum_upd in Hc, Ht, Hk.
    pose proof (sum_le_len f_count l1 f_count_le1) as Hc1.
    pose proof (sum_le_len f_count l2 f_count_le1) as Hc2.
    destruct t as [v p]. unfold tstep in Hts. cbn [t_val t_pc] in *.
    destruct p as [| |m| |m| | | |idx|]; cbn [is_done t_pc] in Hnd; try discriminate Hnd.
    - (* PTotal *)
      inversion Hts; subst d' t'; clear Hts.
      rewrite !sum_upd. unfold f_count, f_total, f_kpend in *. cbn [t_pc t_val rank] in *.
      cbn [h_count h_kept h_total h_min h_max h_buf set_total].
      split; [rewrite <- Hmap; apply map_val_upd; reflexivity|].
      split; [exact Hc|]. split.
      { unfold add64. rewrite wrap64_mod. rewrite Ht.
        change (0 <? 0) with false. change (0 <? 1) with true. cbv iota.
        rewrite N.add_mod_idemp_l by discriminate. f_equal. lia. }
      split; [exact Hk|]. split; [exact Hmx|]. split; [exact Hmn|]. split.
      { apply (forall_upd _ _ _ _ _ Hall). unfold tinv. cbn [t_pc t_val rank]. repeat split; lia. }
      intros i Hi1 Hi2. destruct (Hb i Hi1 Hi2) as [H|H]; [left; exact H|right].
      apply (pending_upd _ _ _ _ _ H). cbn. discriminate.
    - (* PLoadMax *)
      inversion Hts; subst d' t'; clear Hts.
      rewrite !sum_upd.
      split; [rewrite <- Hmap; apply map_val_upd; reflexivity|].
      assert (Hpc : forall q, q = PLoadMin \/ q = PCasMax (h_max d) ->
                f_count (mkThread v q) = f_count (mkThread v PLoadMax) /\
                f_total (mkThread v q) = f_total (mkThread v PLoadMax) /\
                f_kpend (mkThread v q) = f_kpend (mkThread v PLoadMax)).
      { intros q [->| ->]; repeat split. }
      destruct (Hpc (if v <? h_max d then PLoadMin else PCasMax (h_max d))) as (E1 & E2 & E3).
      { destruct (v <? h_max d); [left|right]; reflexivity. }
      rewrite E1, E2, E3.
      split; [exact Hc|]. split; [exact Ht|]. split; [exact Hk|]. split; [exact Hmx|]. split; [exact Hmn|].
      split.
      { apply (forall_upd _ _ _ _ _ Hall). unfold tinv. cbn [t_pc t_val].
        destruct (N.ltb_spec v (h_max d)); cbn [rank]; repeat split; lia. }
      intros i Hi1 Hi2. destruct (Hb i Hi1 Hi2) as [H|H]; [left; exact H|right].
      apply (pending_upd _ _ _ _ _ H). cbn. discriminate.
    - (* PCasMax m *)
      destruct Htinv as ((Hm1 & Hm2) & _ & _). cbn [t_pc t_val] in *.
      destruct (N.eqb_spec (h_max d) m) as [Heq|Hne]; inversion Hts; subst d' t'; clear Hts.
      + rewrite !sum_upd. unfold f_count, f_total, f_kpend in *. cbn [t_pc t_val rank] in *.
        cbn [h_count h_kept h_total h_min h_max h_buf set_max].
        split; [rewrite <- Hmap; apply map_val_upd; reflexivity|].
        split; [exact Hc|]. split; [exact Ht|]. split; [exact Hk|].
        split; [right; exact Hvin|]. split; [exact Hmn|]. split.
        { apply forall_upd with (t := mkThread v (PCasMax m)).
          - apply (forall_tinv_mono d); cbn [h_max h_min set_max]; [lia|lia|exact Hall].
          - unfold tinv. cbn [t_pc t_val rank h_max h_min set_max]. repeat split; lia. }
        intros i Hi1 Hi2. destruct (Hb i Hi1 Hi2) as [H|H]; [left; exact H|right].
        apply (pending_upd _ _ _ _ _ H). cbn. discriminate.
      + rewrite !sum_upd. unfold f_count, f_total, f_kpend in *. cbn [t_pc t_val rank] in *.
        split; [rewrite <- Hmap; apply map_val_upd; reflexivity|].
        split; [exact Hc|]. split; [exact Ht|]. split; [exact Hk|]. split; [exact Hmx|]. split; [exact Hmn|].
        split.
        { apply (forall_upd _ _ _ _ _ Hall). unfold tinv. cbn [t_pc t_val rank]. repeat split; lia. }
        intros i Hi1 Hi2. destruct (Hb i Hi1 Hi2) as [H|H]; [left; exact H|right].
        apply (pending_upd _ _ _ _ _ H). cbn. discriminate.
    - (* PLoadMin *)
      destruct Htinv as (_ & Hge2 & _). cbn [t_pc t_val rank] in Hge2. specialize (Hge2 ltac:(lia)).
      inversion Hts; subst d' t'; clear Hts.
      rewrite !sum_upd.
      split; [rewrite <- Hmap; apply map_val_upd; reflexivity|].
      assert (Hpc : forall q, q = PBucket \/ q = PCasMin (h_min d) ->
                f_count (mkThread v q) = f_count (mkThread v PLoadMin) /\
                f_total (mkThread v q) = f_total (mkThread v PLoadMin) /\
                f_kpend (mkThread v q) = f_kpend (mkThread v PLoadMin)).
      { intros q [->| ->]; repeat split. }
      destruct (Hpc (if h_min d <? v then PBucket else PCasMin (h_min d))) as (E1 & E2 & E3).
      { destruct (h_min d <? v); [left|right]; reflexivity. }
      rewrite E1, E2, E3.
      split; [exact Hc|]. split; [exact Ht|]. split; [exact Hk|]. split; [exact Hmx|]. split; [exact Hmn|].
      split.
      { apply (forall_upd _ _ _ _ _ Hall). unfold tinv. cbn [t_pc t_val].
        destruct (N.ltb_spec (h_min d) v); cbn [rank]; repeat split; lia. }
      intros i Hi1 Hi2. destruct (Hb i Hi1 Hi2) as [H|H]; [left; exact H|right].
      apply (pending_upd _ _ _ _ _ H). cbn. discriminate.
    - (* PCasMin m *)
      destruct Htinv as ((Hm1 & Hm2) & Hge2 & _). cbn [t_pc t_val rank] in *. specialize (Hge2 ltac:(lia)).
      destruct (N.eqb_spec (h_min d) m) as [Heq|Hne]; inversion Hts; subst d' t'; clear Hts.
      + rewrite !sum_upd. unfold f_count, f_total, f_kpend in *. cbn [t_pc t_val rank] in *.
        cbn [h_count h_kept h_total h_min h_max h_buf set_min].
        split; [rewrite <- Hmap; apply map_val_upd; reflexivity|].
        split; [exact Hc|]. split; [exact Ht|]. split; [exact Hk|].
        split; [exact Hmx|]. split; [right; exact Hvin|]. split.
        { apply forall_upd with (t := mkThread v (PCasMin m)).
          - apply (forall_tinv_mono d); cbn [h_max h_min set_min]; [lia|lia|exact Hall].
          - unfold tinv. cbn [t_pc t_val rank h_max h_min set_min]. repeat split; lia. }
        intros i Hi1 Hi2. destruct (Hb i Hi1 Hi2) as [H|H]; [left; exact H|right].
        apply (pending_upd _ _ _ _ _ H). cbn. discriminate.
      + rewrite !sum_upd. unfold f_count, f_total, f_kpend in *. cbn [t_pc t_val rank] in *.
        split; [rewrite <- Hmap; apply map_val_upd; reflexivity|].
        split; [exact Hc|]. split; [exact Ht|]. split; [exact Hk|]. split; [exact Hmx|]. split; [exact Hmn|].
        split.
        { apply (forall_upd _ _ _ _ _ Hall). unfold tinv. cbn [t_pc t_val rank]. repeat split; lia. }
        intros i Hi1 Hi2. destruct (Hb i Hi1 Hi2) as [H|H]; [left; exact H|right].
        apply (pending_upd _ _ _ _ _ H). cbn. discriminate.
    - (* PBucket *)
      destruct Htinv as (_ & Hge2 & Hge3). cbn [t_pc t_val rank] in *.
      specialize (Hge2 ltac:(lia)). specialize (Hge3 ltac:(lia)).
      inversion Hts; subst d' t'; clear Hts.
      rewrite !sum_upd. unfold f_count, f_total, f_kpend in *. cbn [t_pc t_val rank] in *.
      split; [rewrite <- Hmap; apply map_val_upd; reflexivity|].
      split; [exact Hc|]. split; [exact Ht|]. split; [exact Hk|]. split; [exact Hmx|]. split; [exact Hmn|].
      split.
      { apply (forall_upd _ _ _ _ _ Hall). unfold tinv. cbn [t_pc t_val rank]. repeat split; lia. }
      intros i Hi1 Hi2. destruct (Hb i Hi1 Hi2) as [H|H]; [left; exact H|right].
      apply (pending_upd _ _ _ _ _ H). cbn. discriminate.
    - (* PCount *)
      destruct Htinv as (_ & Hge2 & Hge3). cbn [t_pc t_val rank] in *.
      specialize (Hge2 ltac:(lia)). specialize (Hge3 ltac:(lia)).
      inversion Hts; subst d' t'; clear Hts.
      change (f_count {| t_val := v; t_pc := PCount |}) with 0 in Hc.
      change (f_total {| t_val := v; t_pc := PCount |}) with v in Ht.
      change (f_kpend {| t_val := v; t_pc := PCount |}) with 0 in Hk.
      assert (Hc' : add64 (h_count d) 1 = h_count d + 1).
      { unfold add64. apply wrap64_small. lia. }
      rewrite Hc'. rewrite !sum_upd.
      cbn [h_count h_kept h_total h_min h_max h_buf set_count].
      split; [rewrite <- Hmap; apply map_val_upd; reflexivity|].
      set (q := if sampled && (0 <? N.land (h_count d + 1) 3) then PDone else PKept).
      assert (Hq : f_count (mkThread v q) = 1 /\ f_total (mkThread v q) = v).
      { unfold q. destruct (sampled && _); split; reflexivity. }
      destruct Hq as [Hq1 Hq2]. rewrite Hq1, Hq2.
      split; [lia|]. split.
      { rewrite Ht. reflexivity. }
      split.
      { assert (Hq3 : f_kpend (mkThread v q) = (if sampled && (0 <? N.land (h_count d + 1) 3) then 0 else 1)).
        { unfold q. destruct (sampled && _); reflexivity. }
        rewrite Hq3. unfold kept_of in *. destruct sampled; cbn [andb].
        - rewrite land3. destruct (N.ltb_spec 0 ((h_count d + 1) mod 4)); lia.
        - lia. }
      split; [exact Hmx|]. split; [exact Hmn|]. split.
      { apply forall_upd with (t := mkThread v PCount).
        - apply (forall_tinv_mono d); cbn [h_max h_min set_count set_kept set_buf]; [lia|lia|exact Hall].
        - unfold tinv, q. cbn [t_val h_max h_min set_count].
          destruct (sampled && _); cbn [t_pc rank]; repeat split; lia. }
      intros i Hi1 Hi2. destruct (Hb i Hi1 Hi2) as [H|H]; [left; exact H|right].
      apply (pending_upd _ _ _ _ _ H). cbn. discriminate.
    - (* PKept *)
      destruct Htinv as (_ & Hge2 & Hge3). cbn [t_pc t_val rank] in *.
      specialize (Hge2 ltac:(lia)). specialize (Hge3 ltac:(lia)).
      inversion Hts; subst d' t'; clear Hts.
      change (f_count {| t_val := v; t_pc := PKept |}) with 1 in Hc.
      change (f_total {| t_val := v; t_pc := PKept |}) with v in Ht.
      change (f_kpend {| t_val := v; t_pc := PKept |}) with 1 in Hk.
      assert (Hkc : kept_of sampled (h_count d) <= h_count d) by (unfold kept_of; destruct sampled; lia).
      assert (Hk' : add64 (h_kept d) 1 = h_kept d + 1).
      { unfold add64. apply wrap64_small. lia. }
      rewrite Hk'. rewrite !sum_upd.
      change (f_count {| t_val := v; t_pc := PWrite (ring_index (h_kept d + 1)) |}) with 1.
      change (f_total {| t_val := v; t_pc := PWrite (ring_index (h_kept d + 1)) |}) with v.
      change (f_kpend {| t_val := v; t_pc := PWrite (ring_index (h_kept d + 1)) |}) with 0.
      cbn [h_count h_kept h_total h_min h_max h_buf set_kept].
      split; [rewrite <- Hmap; apply map_val_upd; reflexivity|].
      split; [exact Hc|].
      split; [exact Ht|]. split; [lia|]. split; [exact Hmx|]. split; [exact Hmn|]. split.
      { apply forall_upd with (t := mkThread v PKept).
        - apply (forall_tinv_mono d); cbn [h_max h_min set_count set_kept set_buf]; [lia|lia|exact Hall].
        - unfold tinv. cbn [t_pc t_val rank h_max h_min set_count set_kept set_buf]. repeat split; lia. }
      intros i Hi1 Hi2.
      destruct (N.eq_dec i (h_kept d)) as [->|Hne].
      + right. exists (mkThread v (PWrite (ring_index (h_kept d + 1)))). split; [apply in_new|].
        cbn [t_pc]. f_equal. rewrite ring_index_spec by lia.
        replace (h_kept d + 1 - 1) with (h_kept d) by lia. apply N.mod_small. exact Hi2.
      + destruct (Hb i ltac:(lia) Hi2) as [H|H]; [left; exact H|right].
        apply (pending_upd _ _ _ _ _ H). cbn. discriminate.
    - (* PWrite idx *)
      destruct Htinv as (_ & Hge2 & Hge3). cbn [t_pc t_val rank] in *.
      specialize (Hge2 ltac:(lia)). specialize (Hge3 ltac:(lia)).
      inversion Hts; subst d' t'; clear Hts.
      rewrite !sum_upd. unfold f_count, f_total, f_kpend in *. cbn [t_pc t_val rank] in *.
      cbn [h_count h_kept h_total h_min h_max h_buf set_buf].
      split; [rewrite <- Hmap; apply map_val_upd; reflexivity|].
      split; [exact Hc|]. split; [exact Ht|]. split; [exact Hk|]. split; [exact Hmx|]. split; [exact Hmn|].
      split.
      { apply forall_upd with (t := mkThread v (PWrite idx)).
        - apply (forall_tinv_mono d); cbn [h_max h_min set_count set_kept set_buf]; [lia|lia|exact Hall].
        - unfold tinv. cbn [t_pc t_val rank h_max h_min set_count set_kept set_buf]. repeat split; lia. }
      intros i Hi1 Hi2.
      destruct (N.eq_dec i idx) as [->|Hne].
      + left. rewrite bget_bset_same. exact Hvin.
      + rewrite bget_bset_other by exact Hne.
        destruct (Hb i Hi1 Hi2) as [H|H]; [left; exact H|right].
        apply (pending_upd _ _ _ _ _ H). cbn. intros E. inversion E. congruence.
  Qed.

  Lemma cinv_run s s' : sys_run sampled s s' -> cinv sampled vs s -> cinv sampled vs s'.
  Proof. induction 1 as [|s1 s2 s3 Hs _ IH]; [tauto|]. intros H. apply IH. apply (cinv_step _ _ Hs H). Qed.

  Lemma cinv_start b : cinv sampled vs (fresh_dat b, start_threads vs).
  Proof.
    unfold cinv, start_threads, fresh_dat. cbn [h_count h_kept h_total h_min h_max h_buf].
    assert (Hz : forall f, (forall v, f (mkThread v PTotal) = 0) ->
               sumN (map f (map (fun v => mkThread v PTotal) vs)) = 0).
    { intros f Hf. induction vs as [|v l IH]; cbn [map sumN]; [reflexivity|].
      rewrite Hf. rewrite IH; [reflexivity| | ].
      - inversion Hvs; assumption.
      - unfold len in *. cbn [length] in Hlen. lia. }
    split; [rewrite map_map; cbn [t_val]; apply map_id|].
    rewrite !Hz by (intros v; reflexivity).
    split; [reflexivity|]. split; [reflexivity|].
    split; [unfold kept_of; destruct sampled; reflexivity|].
    split; [left; reflexivity|]. split; [left; reflexivity|]. split.
    - apply Forall_forall. intros t Hin. apply in_map_iff in Hin. destruct Hin as (v & <- & _).
      unfold tinv. cbn [t_pc t_val rank]. repeat split; lia.
    - intros i Hi. lia.
  Qed.

  (* when every goroutine has returned, the counters satisfy the sequential invariant for vs *)
  Lemma cinv_done d ts : cinv sampled vs (d, ts) -> forallb is_done ts = true -> hinv sampled vs d.
  Proof.
    unfold cinv. intros (Hmap & Hc & Ht & Hk & Hmx & Hmn & Hall & Hb) Hdone.
    rewrite forallb_forall in Hdone.
    assert (Hpc : forall t, In t ts -> t_pc t = PDone).
    { intros t Hin. specialize (Hdone t Hin). unfold is_done in Hdone. destruct (t_pc t); try discriminate. reflexivity. }
    assert (Hs1 : sumN (map f_count ts) = len ts /\ sumN (map f_total ts) = sumN (map t_val ts) /\
                  sumN (map f_kpend ts) = 0).
    { clear -Hpc. induction ts as [|t l IH]; cbn [map sumN]; [unfold len; cbn; repeat split|].
      destruct IH as (I1 & I2 & I3); [intros x Hx; apply Hpc; right; exact Hx|].
      pose proof (Hpc t (or_introl eq_refl)) as Ht.
      assert (E : f_count t = 1 /\ f_total t = t_val t /\ f_kpend t = 0).
      { unfold f_count, f_total, f_kpend. rewrite Ht. repeat split. }
      destruct E as (E1 & E2 & E3). rewrite E1, E2, E3.
      rewrite I1, I2, I3. unfold len. cbn [length]. repeat split; lia. }
    destruct Hs1 as (S1 & S2 & S3).
    assert (Hl : len ts = len vs) by (rewrite <- Hmap; unfold len; rewrite map_length; reflexivity).
    assert (Hext : forall v, In v vs -> h_min d <= v <= h_max d).
    { intros v Hv. rewrite <- Hmap in Hv. apply in_map_iff in Hv. destruct Hv as (t & <- & Hin).
      rewrite Forall_forall in Hall. destruct (Hall t Hin) as (_ & H2 & H3).
      rewrite (Hpc t Hin) in H2, H3. cbn [rank] in H2, H3. split; [apply H3|apply H2]; lia. }
    unfold hinv.
    split; [rewrite Hc, S1; exact Hl|].
    split; [rewrite S3, N.add_0_r in Hk; rewrite Hk, Hc, S1, Hl; reflexivity|].
    split; [rewrite Ht, S2, Hmap; reflexivity|].
    split; [exact Hext|].
    split.
    { intros ->. destruct Hmx as [?|[]]. destruct Hmn as [?|[]]. split; assumption. }
    split.
    { intros Hne. destruct vs as [|v0 vs'] eqn:Evs; [contradiction|]. rewrite <- Evs in *.
      assert (Hv0 : In v0 vs) by (rewrite Evs; left; reflexivity).
      pose proof (Hext v0 Hv0) as Hb0.
      assert (Hv064 : v0 < two64) by (rewrite Forall_forall in Hvs; apply Hvs; exact Hv0).
      split.
      - destruct Hmn as [Hm|Hm]; [|exact Hm].
        replace (h_min d) with v0; [exact Hv0|]. unfold maxu64, two64 in *. lia.
      - destruct Hmx as [Hm|Hm]; [|exact Hm].
        replace (h_max d) with v0; [exact Hv0|]. lia. }
    intros i Hi1 Hi2. destruct (Hb i Hi1 Hi2) as [H|(t & Hin & Hp)]; [exact H|].
    rewrite (Hpc t Hin) in Hp. discriminate Hp.
  Qed.
End Step.

(* ---------- the theorem ---------- *)
Lemma conc_hinv sampled vs b d ts :
  obs_ok vs ->
  sys_run sampled (fresh_dat b, start_threads vs) (d, ts) -> forallb is_done ts = true ->
  hinv sampled vs d.
Proof.
  intros [Hf Hl] Hrun Hdone.
  apply (cinv_done sampled vs Hf Hl d ts); [|exact Hdone].
  apply (cinv_run sampled vs Hf Hl _ _ Hrun). apply cinv_start; assumption.
Qed.

Lemma report_good sampled obs d : hinv sampled obs d -> good_report sampled obs (report_of d).
Proof.
  intros Hi. destruct (report_count sampled obs d Hi) as (Hc & Hk & _ & Hp & Hz & _).
  unfold good_report. split; [exact Hc|]. split; [rewrite Hp, Hk; reflexivity|]. split; [exact Hz|].
  intros Hpr. pose proof (report_member sampled obs d Hi Hpr) as Hm.
  destruct (report_minmax sampled obs d Hi Hpr) as (Hall & _ & _ & Hmm & _).
  split; [|exact Hall].
  rewrite Forall_forall in *. intros p Hin. split; [apply Hm|apply Hmm]; exact Hin.
Qed.

(* any number of goroutines, any interleaving of their atomic steps, any stale buffer: the report
   the reader builds once they have all returned is a good report for the multiset of values *)
Lemma conc_report_good sampled vs b d ts :
  obs_ok vs ->
  sys_run sampled (fresh_dat b, start_threads vs) (d, ts) -> forallb is_done ts = true ->
  good_report sampled vs (report_of d).
Proof. intros Ho Hr Hd. apply report_good. eapply conc_hinv; eassumption. Qed.

(* ---------- runs exist: an executable scheduler, used for the non-vacuity example ---------- *)
Fixpoint run_sched (sampled : bool) (s : hdat * list thread) (sched : list nat) : hdat * list thread :=
  match sched with
  | [] => s
  | i :: r =>
      let '(d, ts) := s in
      match nth_error ts i with
      | Some t => if is_done t then run_sched sampled s r
                  else let '(d', t') := tstep sampled d t in
                       run_sched sampled (d', firstn i ts ++ t' :: skipn (S i) ts) r
      | None => run_sched sampled s r
      end
  end.

Lemma split_nth {A} (l : list A) i t : nth_error l i = Some t ->
  l = firstn i l ++ t :: skipn (S i) l.
Proof.
  revert i. induction l as [|x l IH]; intros [|i] H; cbn in H; try discriminate.
  - inversion H; subst. reflexivity.
  - cbn [firstn skipn app]. f_equal. apply IH. exact H.
Qed.

Lemma run_sched_sound sampled : forall sched s, sys_run sampled s (run_sched sampled s sched).
Proof.
  induction sched as [|i r IH]; intros [d ts]; cbn [run_sched]; [constructor|].
  destruct (nth_error ts i) as [t|] eqn:Hn; [|apply IH].
  destruct (is_done t) eqn:Hd; [apply IH|].
  destruct (tstep sampled d t) as [d' t'] eqn:Hs.
  eapply sys_run_step; [|apply IH].
  rewrite (split_nth ts i t Hn) at 1. constructor; assumption.
Qed.
