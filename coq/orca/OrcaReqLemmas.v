(* OrcaReqLemmas.v — every request other than a get, through the two-tier orchestrators:
   the replies and the returned error are literally those of the one-tier orchestrator on L2,
   L2 ends up literally as the one-tier store, and the invariant is kept. *)
From Rend Require Import base.Bytes gen.Consts_gen spec.MapSpec orca.Types handlers.Std orca.Orcas
  proto.Resp orca.OrcaSpec orca.OrcaLemmas.
Open Scope N_scope.

Ltac stdrw :=
  repeat (cbn [run g_miss];
   first [ rewrite std_set_set
         | erewrite std_add_hit by eassumption
         | rewrite std_add_miss by assumption
         | erewrite std_rep_hit by eassumption
         | rewrite std_rep_miss by assumption
         | erewrite std_cat_hit by eassumption
         | rewrite std_cat_miss by assumption
         | erewrite std_del_hit by eassumption
         | rewrite std_del_miss by assumption
         | erewrite std_touch_hit by eassumption
         | rewrite std_touch_miss by assumption
         | erewrite std_gat_hit by eassumption
         | rewrite std_gat_miss by assumption
         | rewrite N.eqb_refl; cbn [orb]
         | rewrite Bool.orb_true_r ]); cbn [run g_miss].

Section TwoTier.
Variables (b : bool) (now : N) (l1 l2 : store).
Hypothesis H : pinv b now l1 l2.

Ltac open3 k :=
  destruct (live now l1 k) as [e1|] eqn:E1;
  [ destruct (pinv_hit _ _ _ _ _ _ H E1) as (e2 & E2 & Hd & Hf & Hle & Heq)
  | destruct (live now l2 k) as [e2|] eqn:E2 ].

Ltac fin := eexists; split; [reflexivity|].

Lemma okdl_l2 k e2 : live now l2 k = Some e2 -> b = true -> okdl now (e_dl e2).
Proof. intros E B. eapply pinv_okdl; eauto. Qed.

Definition goal (k : orcakind) (r : req) (x : store) : Prop :=
  let '(s', _, cs0, e0) := run std_exec std_exec (l1only r) l2 x now in
  exists l1', run std_exec std_exec (base_orca k r) l1 l2 now = (l1', s', cs0, e0) /\ pinv b now l1' s'.

Lemma two_set k m key d f ttl o q x : k <> KL1Only -> (b = true -> ttl <= 2 * now) ->
  goal k (RSet m key d f ttl o q) x.
Proof.
  intros Hk Ht. unfold goal.
  assert (R : rel b now (Some (mkE d f (norm now ttl))) (Some (mkE d f (norm now ttl)))).
  { apply rel_same. intros B. apply okdl_norm; auto. }
  assert (R2 : forall o1, olive now o1 = None -> rel b now o1 (Some (mkE d f (norm now ttl)))).
  { intros o1 E. apply rel_dead_some; auto. intros B. apply okdl_norm; auto. }
  destruct k; [contradiction| |]; destruct m; cbn [base_orca l1l2 l1l2batch l1only rtype]; open3 key; stdrw; fin;
    unfold gb_put; auto using pinv_upd, pinv_upd2.
  all: exfalso; rewrite (pinv_l2miss _ _ _ _ _ H E2) in E1; discriminate.
Qed.

Lemma two_cat k fr key d o q x : k <> KL1Only -> goal k (RCat fr key d o q) x.
Proof.
  intros Hk. unfold goal.
  destruct k; [contradiction| |]; cbn [base_orca l1l2 l1l2batch l1only rtype]; open3 key; stdrw; fin; auto.
  all: try (apply pinv_upd; auto; apply rel_pair; cbn [e_data e_flags e_dl]; eauto using okdl_l2; destruct fr; congruence).
  all: apply pinv_upd2; auto; apply rel_dead_some; cbn [e_dl]; eauto using okdl_l2.
Qed.

Lemma two_delete k key o x : k <> KL1Only -> goal k (RDelete key o) x.
Proof.
  intros Hk. unfold goal.
  destruct k; [contradiction| |]; cbn [base_orca l1l2 l1l2batch l1only rtype]; open3 key; stdrw; fin; auto.
  all: try (apply pinv_upd; auto; apply rel_any_none; reflexivity).
  all: apply pinv_upd2; auto; apply rel_any_none; auto.
Qed.

Lemma two_touch k key ttl o x : k <> KL1Only -> (b = true -> ttl <= 2 * now) -> goal k (RTouch key ttl o) x.
Proof.
  intros Hk Ht. unfold goal.
  destruct k; [contradiction| |]; cbn [base_orca l1l2 l1l2batch l1only rtype]; open3 key; stdrw; fin; auto.
  all: try (apply pinv_upd; auto; apply rel_copy; cbn [e_data e_flags e_dl]; auto; intros; apply okdl_norm; auto).
  all: apply pinv_upd2; auto; apply rel_dead_some; cbn [e_dl]; auto; intros; apply okdl_norm; auto.
Qed.

Lemma two_gat k key ttl o x : k <> KL1Only -> (b = true -> ttl <= 2 * now) -> goal k (RGat key ttl o) x.
Proof.
  intros Hk Ht. unfold goal.
  destruct k; [contradiction| |]; cbn [base_orca l1l2 l1l2batch l1only rtype]; open3 key; stdrw;
    try rewrite Hd, Hf; fin; auto.
  all: try (unfold gb_put; apply pinv_upd; auto; apply rel_copy; cbn [e_data e_flags e_dl]; auto; intros; apply okdl_norm; auto).
  all: apply pinv_upd2; auto; apply rel_dead_some; cbn [e_dl]; auto; intros; apply okdl_norm; auto.
Qed.

Lemma two_nonget k r x : k <> KL1Only -> is_get r = false -> (b = true -> req_ttl r <= 2 * now) -> goal k r x.
Proof.
  intros Hk Hg Ht. destruct r; try discriminate Hg; cbn [req_ttl] in Ht.
  - apply two_set; auto.
  - apply two_cat; auto.
  - apply two_delete; auto.
  - apply two_touch; auto.
  - apply two_gat; auto.
  - unfold goal. destruct k; [contradiction| |]; cbn; eauto.
  - unfold goal. destruct k; [contradiction| |]; cbn; eauto.
  - unfold goal. destruct k; [contradiction| |]; cbn; eauto.
  - unfold goal. destruct k; [contradiction| |]; cbn; eauto.
  - unfold goal. destruct k; [contradiction| |]; cbn; eauto.
Qed.
End TwoTier.
