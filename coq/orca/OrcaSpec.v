(* OrcaSpec.v — what "behaves like a single map" means for the orchestrators, as
   definitions (no proofs here). The reference behaviour of a request on one map [s] is the
   one-tier orchestrator over one backend: [ref_run]. MapSpec.spec_step is tied to it by
   [outcome_of] (lemma ref_is_mapspec in OrcaProofs.v, theorem c01_ref_is_mapspec). *)
From Rend Require Import base.Bytes gen.Consts_gen spec.MapSpec orca.Types handlers.Std orca.Orcas proto.Resp.
From Coq Require Import Permutation.
Open Scope N_scope.

(* ---- deployments ---- *)
Inductive orcakind := KL1Only | KL1L2 | KL1L2Batch.
Definition base_orca (k : orcakind) : req -> prog :=
  match k with KL1Only => l1only | KL1L2 => l1l2 | KL1L2Batch => l1l2batch end.
Definition orca_cfg (k : orcakind) (lck : bool) : req -> prog :=
  if lck then locked (base_orca k) else base_orca k.

(* the backend tier that is authoritative: L1 for L1Only, L2 otherwise *)
Definition auth (k : orcakind) (l1 l2 : store) : store :=
  match k with KL1Only => l1 | _ => l2 end.

(* ---- the invariant: whatever L1 can serve, L2 serves with the same value and flags, and
   the L1 copy does not outlive the L2 copy ---- *)
Definition dl_le (d1 d2 : deadline) : Prop :=
  match d2 with
  | Never => True
  | At t2 => match d1 with Never => False | At t1 => t1 <= t2 end
  end.
Definition sub_live (now : N) (l1 l2 : store) : Prop :=
  forall k e1, live now l1 k = Some e1 ->
    exists e2, live now l2 k = Some e2 /\ e_data e1 = e_data e2 /\ e_flags e1 = e_flags e2 /\ dl_le (e_dl e1) (e_dl e2).
Definition inv (k : orcakind) (now : N) (l1 l2 : store) : Prop :=
  match k with KL1Only => True | _ => sub_live now l1 l2 end.

(* C09: the L1 copy has exactly L2's deadline *)
Definition same_deadlines (now : N) (l1 l2 : store) : Prop :=
  forall k e1 e2, live now l1 k = Some e1 -> live now l2 k = Some e2 -> e_dl e1 = e_dl e2.

(* pointwise equality of what two stores can serve *)
Definition same_live (now : N) (a b : store) : Prop := forall k, live now a k = live now b k.
Definition store_eq (a b : store) : Prop := forall k, a k = b k.

(* ---- reference behaviour of one request on one map ---- *)
Definition ref_run (s : store) (now : N) (r : req) : store * list rcall * option N :=
  let '(s', _, cs, e) := run std_exec std_exec (l1only r) s empty_store now in (s', cs, e).

(* requests in scope: the nine data commands, gets, and the backend-free ones.
   GetE is in scope only for L1Only (the two-tier orchestrators answer it "unknown command"). *)
Definition in_scope (k : orcakind) (r : req) : bool :=
  match r with
  | RGetE _ _ _ => match k with KL1Only => true | _ => false end
  | RUnknown => true
  | _ => true
  end.

(* ---- reply equivalence ---- *)
(* the non-empty frames a list of responder calls puts on the wire *)
Definition frames (p : proto) (cs : list rcall) : list bytes :=
  filter (fun f => match f with [] => false | _ => true end) (map (render p) cs).

Definition is_get (r : req) : bool :=
  match r with RGet _ _ _ | RGetE _ _ _ => true | _ => false end.
Definition get_term (p : proto) (r : req) : list bytes :=
  match r with
  | RGet _ no ne | RGetE _ no ne => frames p [PGetEnd no ne]
  | _ => []
  end.

(* [cs] (what the deployment said) is equivalent to [cs0] (what the single map says):
   identical frames for everything but gets; for a get the same value/miss frames in any
   order followed by the same terminator *)
Definition reply_equiv (p : proto) (r : req) (cs cs0 : list rcall) : Prop :=
  if is_get r then
    exists body body0, frames p cs = body ++ get_term p r /\ frames p cs0 = body0 ++ get_term p r /\
                       Permutation body body0
  else frames p cs = frames p cs0.

(* the one combination for which the property is known to fail: locking wrapper + text
   protocol + a get of more than one key (one END per key). Also excluded: a get without any
   key through the locking wrapper (LockedOrca.Get loops over the keys, so it writes nothing,
   not even the terminator; neither parser produces such a request). *)
Definition combo_ok (p : proto) (lck : bool) (r : req) : bool :=
  match p, lck, r with
  | _, true, RGet [] _ _ | _, true, RGetE [] _ _ => false
  | Text, true, RGet items _ _ => (length items <=? 1)%nat
  | Text, _, RGat _ _ _ | Text, _, RGetE _ _ _ => false     (* not expressible in the text protocol *)
  | _, _, _ => true
  end.

(* ---- MapSpec outcome of a reference run (ties ref_run to spec_step) ---- *)
Definition gview (g : gres) : option (bytes * N) := if g_miss g then None else Some (g_data g, g_flags g).
Definition outcome_of (r : req) (cs : list rcall) (e : option N) : outcome :=
  match r with
  | RGet _ _ _ | RGetE _ _ _ | RGat _ _ _ =>
      OVals (flat_map (fun c => match c with PGet g | PGetE g | PGat g => [gview g] | _ => [] end) cs)
  | _ => match e with
         | None => OOk
         | Some x => if x =? EKeyExists then OExists else OMiss
         end
  end.
Definition cmd_of (r : req) : option cmd :=
  match r with
  | RSet m k d f ttl _ _ => Some (CSet m k d f ttl)
  | RCat fr k d _ _ => Some (CCat fr k d)
  | RDelete k _ => Some (CDelete k)
  | RTouch k ttl _ => Some (CTouch k ttl)
  | RGat k ttl _ => Some (CGat k ttl)
  | RGet items _ _ | RGetE items _ _ => Some (CGet (map gi_key items))
  | _ => None
  end.

(* ---- histories: requests on the main or the batch port, L1 evictions in between ---- *)
Inductive port := PMain | PBatch.
Record hstep := mkH { h_port : port; h_now : N; h_evict : list bytes; h_req : req }.

Definition evict (l1 : store) (ks : list bytes) : store := fold_left (fun s k => upd s k None) ks l1.

(* [two] = an L2 is deployed; the batch port exists only then *)
Definition kind_of (two : bool) (pt : port) : orcakind :=
  if two then match pt with PMain => KL1L2 | PBatch => KL1L2Batch end else KL1Only.

Fixpoint run_hist (two lck : bool) (h : list hstep) (l1 l2 : store)
  : list (list rcall * conn_state) * store * store :=
  match h with
  | [] => ([], l1, l2)
  | st :: rest =>
      let '(l1', l2', cs, c) :=
        serve1 std_exec std_exec (orca_cfg (kind_of two (h_port st)) lck) (h_req st)
               (evict l1 (h_evict st)) l2 (h_now st) in
      let '(out, a, b) := run_hist two lck rest l1' l2' in ((cs, c) :: out, a, b)
  end.

(* the same history on one map (one-tier, unlocked, no evictions to speak of) *)
Fixpoint ref_hist (h : list hstep) (s : store) : list (list rcall * conn_state) * store :=
  match h with
  | [] => ([], s)
  | st :: rest =>
      let '(s', _, cs, c) := serve1 std_exec std_exec l1only (h_req st) s empty_store (h_now st) in
      let '(out, a) := ref_hist rest s' in ((cs, c) :: out, a)
  end.

Fixpoint nondecreasing (l : list N) : Prop :=
  match l with a :: ((b :: _) as r) => a <= b /\ nondecreasing r | _ => True end.

Definition hist_ok (p : proto) (two lck : bool) (h : list hstep) : Prop :=
  nondecreasing (map h_now h) /\
  Forall (fun st => in_scope (kind_of two (h_port st)) (h_req st) = true /\
                    combo_ok p lck (h_req st) = true /\
                    (h_port st = PBatch -> two = true) /\
                    (* without an L2 the L1 is the map itself: evicting from it is observable *)
                    (two = false -> h_evict st = [])) h.

(* TTL carried by a request, if any *)
Definition req_ttl (r : req) : N :=
  match r with RSet _ _ _ _ ttl _ _ | RTouch _ ttl _ | RGat _ ttl _ => ttl | _ => 0 end.
(* C09's deadline equality needs: no absolute expiry further away than the clock value itself
   (ttl <= 2*now, i.e. before the year ~2077 at today's clock). Beyond that, the remaining TTL
   that L1L2Orca.Get passes to the L1 back-fill exceeds 30 days AND, read as an absolute
   time, still lies in the future, so the L1 copy gets a shorter life than L2's (finding). *)
Definition ttl_sane (st : hstep) : Prop := req_ttl (h_req st) <= 2 * h_now st.
(* the same condition on what a store already holds at time [now]: every deadline that is still
   in the future is at most 30 days away or at most 2*now (entries written under [ttl_sane]
   satisfy it from then on; the empty store satisfies it) *)
Definition deadlines_sane (now : N) (s : store) : Prop :=
  forall k e t, live now s k = Some e -> e_dl e = At t -> t <= now + realTimeMaxDelta \/ t <= 2 * now.
