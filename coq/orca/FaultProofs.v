(* FaultProofs.v — the lemmas behind props/C10.v.
   FaultLemmas1: contained (any plan, any state), by over-approximating handler results.
   FaultLemmas2: reads (any plan): every emitted value is a value of the authoritative tier.
   FaultLemmas3: writes: one walk through the shape all two-tier writes share; gat; the two
                 theorems no_stale_after_ack and after_fault.
   Here: the statements in the form props/C10.v uses, the refutations and the examples. *)
From Rend Require Import base.Bytes gen.Consts_gen spec.MapSpec orca.Types handlers.Std orca.Orcas
  proto.Resp orca.OrcaSpec orca.Faults orca.OrcaProofs.
From Rend Require Export orca.FaultLemmas1 orca.FaultLemmas2 orca.FaultLemmas3 orca.FaultOld.
Open Scope N_scope.

Lemma contained : forall pl k lck r st now,
  in_scope k r = true -> combo_ok Bin lck r = true ->
  let '(_, cs, c) := serve1_f pl (orca_cfg k lck) r st now in
  c = Closed \/ (answered r cs = true /\ get_keys_answered r cs = true).
Proof. intros pl k lck r st now _ Hc. apply contained_core. exact Hc. Qed.

(* holds for any plan; the single-fault hypothesis of the statement is not used *)
Lemma read_sound : forall pl k lck now l1 l2 items no ne g,
  amo pl -> inv k now l1 l2 ->
  let '(_, cs, _) := serve1_f pl (orca_cfg k lck) (RGet items no ne) (fs0 l1 l2) now in
  In (PGet g) cs -> g_miss g = false ->
  exists e, live now (auth k l1 l2) (g_key g) = Some e /\ g_data g = e_data e /\ g_flags g = e_flags e.
Proof. intros pl k lck now l1 l2 items no ne g _ Hinv. apply read_sound_any. exact Hinv. Qed.

(* ---------------- why the statements carry their side conditions ---------------- *)
Definition plan1 (t : tier) (i : nat) (f : fault) : plan :=
  fun t' n => match t, t' with
              | L1, L1 | L2, L2 => if Nat.eqb n i then Some f else None
              | _, _ => None
              end.
Lemma plan1_amo t i f : amo (plan1 t i f).
Proof.
  intros a n b m Ha Hb. unfold plan1 in *.
  destruct t, a; try congruence; destruct b; try congruence;
    destruct (Nat.eqb n i) eqn:E1; try congruence; destruct (Nat.eqb m i) eqn:E2; try congruence;
    apply Nat.eqb_eq in E1, E2; subst; auto.
Qed.

(* a get without keys through the locking wrapper: nothing is written, the connection stays open *)
Lemma locked_empty_get_unanswered :
  let '(_, cs, c) := serve1_f no_faults (orca_cfg KL1L2 true) (RGet [] 0 false) (fs0 empty_store empty_store) 0 in
  c = Open /\ cs = [] /\ in_scope KL1L2 (RGet [] 0 false) = true.
Proof. vm_compute. auto. Qed.

(* a status DecodeError does not know (7) is taken for success: one such reply to the L2 set
   and the set is acknowledged, L1 holds the new value, L2 (before and after) and nothing *)
Lemma unknown_status_taken_for_success :
  let pl := plan1 L2 0 (FStatus 7) in
  let r := RSet MSet [1] [7] 0 0 1 false in
  amo pl /\ ~ errst pl /\ inv KL1L2 5 empty_store empty_store /\
  let '(st', cs, c) := serve1_f pl (orca_cfg KL1L2 false) r (fs0 empty_store empty_store) 5 in
  c = Open /\ existsb (is_ack r) cs = true /\
  live 5 (t_store (f2 st')) [1] = None /\
  (exists e, live 5 (t_store (f1 st')) [1] = Some e /\ e_data e = [7]) /\
  let '(s1, _, _) := ref_run empty_store 5 r in exists e, live 5 s1 [1] = Some e /\ e_data e = [7].
Proof.
  cbn zeta. split; [apply plan1_amo|]. split.
  - intros H. apply (H L2 0%nat 7); reflexivity.
  - split; [intros k e E; discriminate E|]. vm_compute. repeat split; eauto.
Qed.

(* ---------------- the behaviour before the fix of L1L2Orca.Get ---------------- *)
Lemma old_get_refuted : old_l1l2_get_leaves_key_unanswered.
Proof.
  exists (plan1 L1 1 (FBreak false)), empty_store, (upd empty_store [1] (Some (mkE [9] 0 Never))), 5,
         [mkGI [1] 1 true; mkGI [2] 2 true; mkGI [1] 3 false], 0, false.
  split; [apply plan1_amo|]. vm_compute. auto.
Qed.
(* ... and the same run through the fixed get ends the request with an error instead *)
Lemma new_get_same_run :
  let '(_, cs, c) := serve1_f (plan1 L1 1 (FBreak false)) (orca_cfg KL1L2 false)
                       (RGet [mkGI [1] 1 true; mkGI [2] 2 true; mkGI [1] 3 false] 0 false)
                       (fs0 empty_store (upd empty_store [1] (Some (mkE [9] 0 Never)))) 5 in
  c = Closed.
Proof. vm_compute. reflexivity. Qed.

Lemma c10_example :
  let pl : plan := fun t n => match t, n with L1, 1%nat => Some (FBreak false) | _, _ => None end in
  amo pl /\ errst pl /\ inv KL1L2 5 empty_store (upd empty_store [1] (Some (mkE [9] 0 Never))) /\
  in_scope KL1L2 (RGet [mkGI [1] 1 true; mkGI [2] 2 true; mkGI [1] 3 false] 0 false) = true /\
  combo_ok Bin true (RGet [mkGI [1] 1 true; mkGI [2] 2 true; mkGI [1] 3 false] 0 false) = true.
Proof.
  cbn zeta. split; [|split; [|split; [|split; reflexivity]]].
  - intros t n t' n' H H'. destruct t, t'; destruct n as [|[|n]], n' as [|[|n']]; try congruence; auto.
  - intros t n st H. destruct t; destruct n as [|[|n]]; discriminate H.
  - intros k e E. discriminate E.
Qed.
