(* FaultLemmas3.v — C10, writes under faults. Every two-tier write (set/add/replace/append/
   prepend/delete/touch on the main and on the batch port) is an instance of one program shape
   [wprog]: the L2 request, then the L1 request, whose error is tolerated, or compensated by an
   L1 delete, or returned. One walk through that shape gives
   - [shapeA] (any number of faults): L1 ends, key by key, with what it had, with nothing, or
     with the fault-free result of the L1 request (and then L2 was written);
   - [shapeB] (at most one fault, acknowledged): L2 was written and L1 holds for the key
     nothing or the fault-free result.
   Injected statuses must be error statuses ([errst]): binprot.DecodeError maps every status
   it does not know to "no error", so a backend answering such a status without applying the
   request is taken for success (known finding; the counterexample is in props/C10.v). *)
From Rend Require Import base.Bytes gen.Consts_gen spec.MapSpec orca.Types handlers.Std orca.Orcas
  proto.Resp orca.OrcaSpec orca.Faults orca.OrcaProofs orca.FaultLemmas1 orca.FaultLemmas2.
Open Scope N_scope.

Definition fs0 (l1 l2 : store) : fstate := mkFS (mkTS l1 false 0) (mkTS l2 false 0).
Definition amo (pl : plan) : Prop :=
  forall t n t' n', pl t n <> None -> pl t' n' <> None -> t = t' /\ n = n'.
Definition errst (pl : plan) : Prop :=
  forall t n st, pl t n = Some (FStatus st) -> decode_error st <> None.

(* ---------------- the write requests ---------------- *)
Definition is_write (r : req) : bool :=
  match r with RSet _ _ _ _ _ _ _ | RCat _ _ _ _ _ | RDelete _ _ | RTouch _ _ _ => true | _ => false end.
Definition wkey (r : req) : bytes :=
  match r with RSet _ k _ _ _ _ _ | RCat _ k _ _ _ | RDelete k _ | RTouch k _ _ => k | _ => [] end.
Definition wop (r : req) : hreq :=
  match r with
  | RSet m k d f ttl _ _ => HSet m k d f ttl
  | RCat fr k d _ _ => HCat fr k d
  | RDelete k _ => HDelete k
  | RTouch k ttl _ => HTouch k ttl
  | _ => HDelete []
  end.
Definition wop1 (k : orcakind) (r : req) : hreq :=
  match k, r with
  | KL1L2Batch, RSet _ key d f ttl _ _ => HSet MReplace key d f ttl
  | _, _ => wop r
  end.
Definition wack (r : req) : rcall :=
  match r with
  | RSet _ _ _ _ _ o q | RCat _ _ _ o q => PStored (rtype r) o q
  | RDelete _ o => PDelete o
  | RTouch _ _ o => PTouch o
  | _ => PNoop 0
  end.
Definition wtol (k : orcakind) (r : req) : N -> bool :=
  match k, r with
  | KL1L2Batch, RSet _ _ _ _ _ _ _ => fun e => e =? EKeyNotFound
  | _, RSet MReplace _ _ _ _ _ _ => fun e => e =? EKeyNotFound
  | _, RSet _ _ _ _ _ _ _ => fun _ => false
  | _, RCat _ _ _ _ _ => fun e => (e =? EItemNotStored) || (e =? EKeyNotFound)
  | _, _ => fun e => e =? EKeyNotFound
  end.
Definition wcomp (r : req) : bool := match r with RSet MSet _ _ _ _ _ _ => true | _ => false end.

Definition wq (q : hreq) : bool :=
  match q with HSet _ _ _ _ _ | HCat _ _ _ | HDelete _ | HTouch _ _ => true | _ => false end.

Definition wprog (q2 q1 : hreq) (key : bytes) (ack : rcall) (tol : N -> bool) (comp : bool) : prog :=
  Call L2 q2 (fun h => match h with
    | HDone => Call L1 q1 (fun h1 => match h1 with
        | HDone => Emit ack (Ret None)
        | HErr e => if tol e then Emit ack (Ret None)
                    else if comp then Call L1 (HDelete key) (fun _ => Emit ack (Ret None)) else Ret (Some e)
        | HVals _ _ => if comp then Call L1 (HDelete key) (fun _ => Emit ack (Ret None)) else Ret (Some EIO)
        end)
    | HErr e => Ret (Some e)
    | HVals _ _ => Ret (Some EIO)
    end).
Definition w1prog (q : hreq) (ack : rcall) : prog :=
  Call L1 q (fun h => match h with
    | HDone => Emit ack (Ret None) | HErr e => Ret (Some e) | HVals _ _ => Ret (Some EIO) end).

Lemma wprog_eq k r : k <> KL1Only -> is_write r = true ->
  base_orca k r = wprog (wop r) (wop1 k r) (wkey r) (wack r) (wtol k r) (wcomp r).
Proof.
  intros Hk Hw. destruct k; [congruence| |];
    destruct r as [m ? ? ? ? ? ?|fr ? ? ? ?| | | | | | | | | |]; try discriminate Hw; try destruct m; reflexivity.
Qed.
Lemma w1prog_eq r : is_write r = true -> l1only r = w1prog (wop r) (wack r).
Proof. intros Hw. destruct r; try discriminate Hw; reflexivity. Qed.

Lemma write_not_get r : is_write r = true -> is_get r = false.
Proof. destruct r; try discriminate; reflexivity. Qed.
Lemma wq_wop r : is_write r = true -> wq (wop r) = true.
Proof. destruct r; try discriminate; reflexivity. Qed.
Lemma wq_wop1 k r : is_write r = true -> wq (wop1 k r) = true.
Proof. destruct r, k; try discriminate; reflexivity. Qed.
Lemma key_wop1 k r : is_write r = true -> hreq_key (wop1 k r) = wkey r.
Proof. destruct r, k; try discriminate; reflexivity. Qed.
Lemma wtol_ok k r e : wtol k r e = true -> e = EKeyNotFound \/ e = EItemNotStored.
Proof.
  destruct k, r as [m ? ? ? ? ? ?|? ? ? ? ?| | | | | | | | | |]; try destruct m; cbn [wtol]; intros H;
    try discriminate H; try (apply orb_true_iff in H; destruct H as [H|H]); apply N.eqb_eq in H; auto.
Qed.
Lemma wcomp_set k r : wcomp r = true -> is_setfamily (wop1 k r) = true.
Proof. destruct r as [m ? ? ? ? ? ?|? ? ? ? ?| | | | | | | | | |]; try discriminate. destruct m, k; try discriminate; reflexivity. Qed.

Lemma exec_f_wq pl ts now q : wq q = true -> exec_f pl ts now q = exec1 pl ts now q.
Proof. destruct q; try discriminate; reflexivity. Qed.

(* ---------------- statuses ---------------- *)
Lemma decode_knf st : decode_error st = Some EKeyNotFound -> st = statusKeyEnoent.
Proof.
  unfold decode_error, decodeError_tab. cbn [assocN].
  repeat (match goal with |- context [?a =? st] => destruct (a =? st) eqn:? end;
          [intros X; first [discriminate X | unfold statusKeyEnoent; lia]|]).
  discriminate.
Qed.
Lemma decode_ins st : decode_error st = Some EItemNotStored -> st = statusNotStored.
Proof.
  unfold decode_error, decodeError_tab. cbn [assocN].
  repeat (match goal with |- context [?a =? st] => destruct (a =? st) eqn:? end;
          [intros X; first [discriminate X | unfold statusNotStored; lia]|]).
  discriminate.
Qed.
Lemma status_evicts s st e k : decode_error st = Some e -> e = EKeyNotFound \/ e = EItemNotStored ->
  status_store s st k = upd s k None.
Proof. intros D [->| ->]; [apply decode_knf in D|apply decode_ins in D]; subst; reflexivity. Qed.
Lemma status_pt s st k x : status_store s st k x = s x \/ status_store s st k x = None.
Proof. unfold status_store. destruct (_ || _); [|auto]. unfold upd. destruct (bytes_eqb x k); auto. Qed.

Lemma del_pt s now k x : fst (std_exec s now (HDelete k)) x = s x \/ fst (std_exec s now (HDelete k)) x = None.
Proof.
  cbn [std_exec]. unfold gb_delete. destruct (live now s k); cbn [fst]; [|auto].
  unfold upd. destruct (bytes_eqb x k); auto.
Qed.
Lemma del_live s now k : live now (fst (std_exec s now (HDelete k))) k = None.
Proof.
  cbn [std_exec]. unfold gb_delete. destruct (live now s k) eqn:E; cbn [fst]; [|exact E].
  rewrite live_upd_same. reflexivity.
Qed.

(* ---------------- one backend request on a live connection ---------------- *)
Lemma exec1_spec pl ts now q t' o :
  (forall st, pl (t_seen ts) = Some (FStatus st) -> decode_error st <> None) ->
  t_dead ts = false -> wq q = true -> exec1 pl ts now q = (t', o) ->
  ((pl (t_seen ts) = None /\ t_dead t' = false \/ pl (t_seen ts) = Some FBreakAfterReply) /\
   t_store t' = fst (std_exec (t_store ts) now q) /\ o = HRes (snd (std_exec (t_store ts) now q)) /\
   t_seen t' = S (t_seen ts)) \/
  (exists st e, pl (t_seen ts) = Some (FStatus st) /\ decode_error st = Some e /\
     t' = mkTS (status_store (t_store ts) st (hreq_key q)) false (S (t_seen ts)) /\ o = HRes (HErr e)) \/
  (exists ap, pl (t_seen ts) = Some (FBreak ap) /\
     (t_store t' = t_store ts \/ t_store t' = fst (std_exec (t_store ts) now q)) /\
     o = if is_setfamily q then HPanic else HRes (HErr EIO)).
Proof.
  intros He Hd Hq. unfold exec1. rewrite Hd. destruct (pl (t_seen ts)) as [[st|ap|]|] eqn:P.
  - destruct (decode_error st) as [e|] eqn:D; [|exfalso; eapply He; eauto].
    intros X. inversion X; subst. right; left. exists st, e. repeat split; auto.
    destruct q; try discriminate Hq; reflexivity.
  - intros X. inversion X; subst. right; right. exists ap. split; [reflexivity|]. split; [|reflexivity].
    cbn [t_store]. destruct ap; auto.
  - destruct (std_exec (t_store ts) now q) as [s' r]. intros X. inversion X; subst. left. cbn [fst snd t_store t_seen]. auto.
  - destruct (std_exec (t_store ts) now q) as [s' r]. intros X. inversion X; subst. left. cbn [fst snd t_store t_seen t_dead]. auto.
Qed.

Lemma amo_next pl t n m : amo pl -> pl t n <> None -> n <> m -> pl t m = None.
Proof.
  intros A H N. destruct (pl t m) eqn:E; [|reflexivity]. exfalso.
  destruct (A t n t m H) as [_ X]; [rewrite E; discriminate|]. exact (N X).
Qed.

(* ---------------- the walk ---------------- *)
Section Walk.
Variables (pl : plan) (now : N) (q2 q1 : hreq) (key : bytes) (ack : rcall) (tol : N -> bool) (comp : bool)
          (l1 l2 : store).
Hypothesis Herr : errst pl.
Hypothesis W2 : wq q2 = true.
Hypothesis W1 : wq q1 = true.
Hypothesis K1 : hreq_key q1 = key.
Hypothesis Tol : forall e, tol e = true -> e = EKeyNotFound \/ e = EItemNotStored.
Hypothesis Comp : comp = true -> is_setfamily q1 = true.

Definition applied2 (st' : fstate) : Prop :=
  t_store (f2 st') = fst (std_exec l2 now q2) /\ snd (std_exec l2 now q2) = HDone.
Definition shapeA (st' : fstate) : Prop :=
  forall x, t_store (f1 st') x = l1 x \/ t_store (f1 st') x = None \/
            (t_store (f1 st') x = fst (std_exec l1 now q1) x /\ applied2 st').
Definition shapeB (st' : fstate) : Prop :=
  applied2 st' /\
  (live now (t_store (f1 st')) key = None \/ t_store (f1 st') key = fst (std_exec l1 now q1) key).

(* the compensating delete *)
Lemma del_run t1 t2 st' cs e :
  run_f pl (Call L1 (HDelete key) (fun _ => Emit ack (Ret None))) (mkFS t1 t2) now = (st', cs, e) ->
  exists t1', st' = mkFS t1' t2 /\
    (forall x, t_store t1' x = t_store t1 x \/ t_store t1' x = None) /\
    (e <> FRet None -> cs = []) /\
    (t_dead t1 = false -> pl L1 (t_seen t1) = None -> live now (t_store t1') key = None).
Proof.
  cbn [run_f exec_f f1 f2]. destruct (exec1 (pl L1) t1 now (HDelete key)) as [t1' o] eqn:X. intros H.
  exists t1'. split; [destruct o; inversion H; reflexivity|]. split; [|split].
  - intros x. apply exec1_store in X. cbn [hreq_key] in X. destruct X as [->|[->| ->]]; [auto|apply del_pt|].
    unfold upd. destruct (bytes_eqb x key); auto.
  - destruct o; inversion H; subst; [congruence|reflexivity].
  - clear K1. intros D P. unfold exec1 in X. rewrite D, P in X.
    destruct (std_exec (t_store t1) now (HDelete key)) as [s' r] eqn:E. inversion X; subst. cbn [t_store].
    replace s' with (fst (std_exec (t_store t1) now (HDelete key))) by (rewrite E; reflexivity). apply del_live.
Qed.

Lemma ack_run st st' cs e : run_f pl (Emit ack (Ret None)) st now = (st', cs, e) -> st' = st /\ e = FRet None.
Proof. cbn [run_f]. intros H. inversion H; auto. Qed.
Lemma ret_run x st st' cs e : run_f pl (Ret (Some x)) st now = (st', cs, e) -> st' = st /\ cs = [] /\ e <> FRet None.
Proof. cbn [run_f]. intros H. inversion H; subst. repeat split. discriminate. Qed.

Lemma tol_eio : tol EIO = false.
Proof. destruct (tol EIO) eqn:T; [|reflexivity]. destruct (Tol _ T) as [C|C]; discriminate C. Qed.

Lemma wprog_walk st' cs e :
  run_f pl (wprog q2 q1 key ack tol comp) (fs0 l1 l2) now = (st', cs, e) ->
  shapeA st' /\ (e <> FRet None -> cs = []) /\ (amo pl -> e = FRet None -> shapeB st').
Proof.
  intros H. unfold wprog, fs0 in H. cbn [run_f f1 f2] in H. rewrite (exec_f_wq _ _ _ _ W2) in H.
  destruct (exec1 (pl L2) (mkTS l2 false 0) now q2) as [t2 o2] eqn:X2.
  (* whenever L1 was not called *)
  assert (Early : forall x t2', run_f pl (Ret (Some x)) (mkFS (mkTS l1 false 0) t2') now = (st', cs, e) ->
            shapeA st' /\ (e <> FRet None -> cs = []) /\ (amo pl -> e = FRet None -> shapeB st')).
  { intros x t2' R. apply ret_run in R. destruct R as (-> & -> & N). split; [intros y; left; reflexivity|].
    split; [reflexivity|]. intros _ E. contradiction. }
  apply exec1_spec in X2; [|intros st; apply Herr|reflexivity|exact W2]. cbn [t_store t_seen] in X2.
  destruct X2 as [(P2 & S2 & -> & N2)|[(st & e0 & P2 & D2 & -> & ->)|(ap & P2 & S2 & ->)]].
  2: { eapply Early; eauto. }
  2: { destruct (is_setfamily q2); [|eapply Early; eauto]. inversion H; subst.
       split; [intros y; left; reflexivity|]. split; [reflexivity|]. intros _ E. discriminate E. }
  destruct (snd (std_exec l2 now q2)) as [e2| |rs2 er2] eqn:R2; [eapply Early; eauto| |eapply Early; eauto].
  (* L2 written *)
  assert (A2 : forall t1, applied2 (mkFS t1 t2)) by (intros t1; split; [exact S2|exact R2]).
  cbn [run_f f1 f2] in H. rewrite (exec_f_wq _ _ _ _ W1) in H.
  destruct (exec1 (pl L1) (mkTS l1 false 0) now q1) as [t1 o1] eqn:X1.
  apply exec1_spec in X1; [|intros st; apply Herr|reflexivity|exact W1]. cbn [t_store t_seen] in X1.
  (* L1 ends as the fault-free result *)
  assert (Full : forall t1', t_store t1' = fst (std_exec l1 now q1) -> st' = mkFS t1' t2 ->
            shapeA st' /\ (amo pl -> e = FRet None -> shapeB st')).
  { intros t1' S -> . split.
    - intros y. right; right. cbn [f1]. rewrite S. auto.
    - intros _ _. split; [apply A2|]. right. cbn [f1]. rewrite S. reflexivity. }
  (* ... followed by the compensating delete *)
  assert (Del : forall t1', (forall x, t_store t1' x = l1 x \/ t_store t1' x = None \/ t_store t1' x = fst (std_exec l1 now q1) x) ->
            (t_store t1' key = fst (std_exec l1 now q1) key \/ (t_dead t1' = false /\ (amo pl -> pl L1 (t_seen t1') = None))) ->
            run_f pl (Call L1 (HDelete key) (fun _ => Emit ack (Ret None))) (mkFS t1' t2) now = (st', cs, e) ->
            shapeA st' /\ (e <> FRet None -> cs = []) /\ (amo pl -> e = FRet None -> shapeB st')).
  { intros t1' Pt Kk R. apply del_run in R. destruct R as (t1'' & -> & Pt' & C & L). split; [|split; [exact C|]].
    - intros y. cbn [f1]. destruct (Pt' y) as [Y|Y]; [|auto]. rewrite Y.
      destruct (Pt y) as [Z|[Z|Z]]; auto.
    - intros Am _. split; [apply A2|]. cbn [f1]. destruct Kk as [Kk|[Dd Pn]].
      + destruct (Pt' key) as [Y|Y]; [right; congruence|left]. rewrite live_olive, Y. reflexivity.
      + left. apply L; auto. }
  destruct X1 as [(P1 & S1 & -> & N1)|[(st & e0 & P1 & D1 & -> & ->)|(ap & P1 & S1 & ->)]].
  - (* the L1 request went through *)
    assert (Pt : forall x, t_store t1 x = l1 x \/ t_store t1 x = None \/ t_store t1 x = fst (std_exec l1 now q1) x)
      by (intros x; rewrite S1; auto).
    destruct (snd (std_exec l1 now q1)) as [e1| |rs1 er1].
    + destruct (tol e1).
      * apply ack_run in H. destruct H as [-> ->]. destruct (Full t1 S1 eq_refl) as [A B].
        split; [exact A|]. split; [congruence|exact B].
      * destruct comp.
        -- apply (Del t1); [exact Pt|left; rewrite S1; reflexivity|exact H].
        -- apply ret_run in H. destruct H as (-> & -> & N). destruct (Full t1 S1 eq_refl) as [A B].
           split; [exact A|]. split; [reflexivity|exact B].
    + apply ack_run in H. destruct H as [-> ->]. destruct (Full t1 S1 eq_refl) as [A B].
      split; [exact A|]. split; [congruence|exact B].
    + destruct comp.
      * apply (Del t1); [exact Pt|left; rewrite S1; reflexivity|exact H].
      * apply ret_run in H. destruct H as (-> & -> & N). destruct (Full t1 S1 eq_refl) as [A B].
        split; [exact A|]. split; [reflexivity|exact B].
  - (* an error status instead *)
    assert (Pt : forall x, status_store l1 st (hreq_key q1) x = l1 x \/ status_store l1 st (hreq_key q1) x = None \/
                           status_store l1 st (hreq_key q1) x = fst (std_exec l1 now q1) x).
    { intros x. destruct (status_pt l1 st (hreq_key q1) x); auto. }
    destruct (tol e0) eqn:T.
    + apply ack_run in H. destruct H as [-> ->]. split; [|split; [congruence|]].
      * intros y. cbn [f1 t_store]. destruct (status_pt l1 st (hreq_key q1) y); auto.
      * intros _ _. split; [apply A2|]. left. cbn [f1 t_store].
        rewrite (status_evicts _ _ _ _ D1 (Tol _ T)), K1, live_upd_same. reflexivity.
    + destruct comp.
      * apply (Del (mkTS (status_store l1 st (hreq_key q1)) false 1)); [exact Pt| |exact H]. right. cbn [t_dead t_seen]. split; [reflexivity|].
        intros Am. eapply amo_next; [exact Am| |]; [rewrite P1; discriminate|discriminate].
      * apply ret_run in H. destruct H as (-> & -> & N). split; [|split; [reflexivity|intros _ E; contradiction]].
        intros y. cbn [f1 t_store]. destruct (status_pt l1 st (hreq_key q1) y); auto.
  - (* the connection broke *)
    destruct (is_setfamily q1) eqn:SF.
    + inversion H; subst. split; [|split; [reflexivity|intros _ E; discriminate E]].
      intros y. cbn [f1]. destruct S1 as [-> | ->]; auto.
    + rewrite tol_eio in H. destruct comp; [pose proof (Comp eq_refl) as CC; congruence|].
      apply ret_run in H. destruct H as (-> & -> & N). split; [|split; [reflexivity|intros _ E; contradiction]].
      intros y. cbn [f1]. destruct S1 as [-> | ->]; auto.
Qed.

(* one tier *)
Lemma w1prog_walk st' cs e :
  run_f pl (w1prog q1 ack) (fs0 l1 l2) now = (st', cs, e) ->
  (e <> FRet None -> cs = []) /\ (e = FRet None -> t_store (f1 st') = fst (std_exec l1 now q1)).
Proof.
  clear W2 K1 Tol Comp.
  intros H. unfold w1prog, fs0 in H. cbn [run_f f1 f2] in H. rewrite (exec_f_wq _ _ _ _ W1) in H.
  destruct (exec1 (pl L1) (mkTS l1 false 0) now q1) as [t1 o1] eqn:X1.
  apply exec1_spec in X1; [|intros st; apply Herr|reflexivity|exact W1]. cbn [t_store t_seen] in X1.
  destruct X1 as [(P1 & S1 & -> & N1)|[(st & e0 & P1 & D1 & -> & ->)|(ap & P1 & S1 & ->)]].
  - destruct (snd (std_exec l1 now q1)) as [e1| |rs1 er1].
    + apply ret_run in H. destruct H as (-> & -> & N). split; [reflexivity|intros E; contradiction].
    + apply ack_run in H. destruct H as [-> ->]. split; [congruence|]. intros _. exact S1.
    + apply ret_run in H. destruct H as (-> & -> & N). split; [reflexivity|intros E; contradiction].
  - apply ret_run in H. destruct H as (-> & -> & N). split; [reflexivity|intros E; contradiction].
  - destruct (is_setfamily q1).
    + inversion H; subst. split; [reflexivity|intros E; discriminate E].
    + apply ret_run in H. destruct H as (-> & -> & N). split; [reflexivity|intros E; contradiction].
Qed.
End Walk.

(* ---------------- the fault-free pair of writes keeps the invariant ---------------- *)
Section Pair.
Variables (now : N) (l1 l2 : store).
Hypothesis H : pinv false now l1 l2.

Ltac open3 k :=
  destruct (live now l1 k) as [e1|] eqn:E1;
  [ destruct (pinv_hit _ _ _ _ _ _ H E1) as (e2 & E2 & Hd & Hf & Hle & Heq)
  | destruct (live now l2 k) as [e2|] eqn:E2 ].

Lemma apply_pair k r : k <> KL1Only -> is_write r = true ->
  snd (std_exec l2 now (wop r)) = HDone ->
  pinv false now (fst (std_exec l1 now (wop1 k r))) (fst (std_exec l2 now (wop r))).
Proof.
  intros Hk Hw.
  assert (F : forall P : Prop, false = true -> P) by (intros P X; discriminate X).
  destruct k; [congruence| |];
    destruct r as [m key d f ttl ? ?|fr key d ? ?|key ?|key ttl ?| | | | | | | |]; try discriminate Hw;
    try destruct m; cbn [wop wop1 std_exec]; unfold gb_set, gb_put, gb_cat, gb_delete, gb_touch;
    open3 key; rewrite ?E2; cbn [fst snd]; rewrite ?st_ok, ?st_exists, ?st_enoent, ?st_notstored; intros R; try discriminate R;
    try exact H;
    try (exfalso; rewrite (pinv_l2miss _ _ _ _ _ H E2) in E1; discriminate E1).
  all: try (apply pinv_upd; [exact H|]; first
         [ apply rel_same; apply F
         | apply rel_any_none; reflexivity
         | apply rel_pair; cbn [e_data e_flags e_dl]; auto; destruct fr; congruence
         | apply rel_copy; cbn [e_data e_flags e_dl]; auto ]).
  all: try (apply pinv_upd2; [exact H|]; first
         [ apply rel_dead_some; [rewrite <- live_olive; exact E1|apply F]
         | apply rel_any_none; rewrite <- live_olive; exact E1 ]).
  all: apply F.
Qed.
End Pair.

(* ---------------- gat: nothing new can enter L1 ---------------- *)
Lemma exec1_gat_hit pl ts now k ttl o t' g :
  exec1 pl ts now (HGat k ttl o) = (t', HRes (HVals [g] None)) -> g_miss g = false ->
  exists e, live now (t_store ts) k = Some e /\ g_data g = e_data e /\ g_flags g = e_flags e.
Proof.
  unfold exec1. destruct (t_dead ts); [intros X; discriminate X|].
  assert (Nm : forall tx, (let '(s', r) := std_exec (t_store ts) now (HGat k ttl o) in (tx s', HRes r)) = (t', HRes (HVals [g] None)) ->
            g_miss g = false -> exists e, live now (t_store ts) k = Some e /\ g_data g = e_data e /\ g_flags g = e_flags e).
  { intros tx. cbn [std_exec]. unfold gb_gat, gb_touch. destruct (live now (t_store ts) k) as [e|]; cbn [fst];
      intros X M; inversion X; subst; [eauto|discriminate M]. }
  destruct (pl (t_seen ts)) as [[st|ap|]|].
  - destruct (decode_error st) as [e|]; [|intros X; discriminate X].
    destruct (e =? EKeyNotFound); intros X M; inversion X; subst. discriminate M.
  - intros X; discriminate X.
  - apply (Nm (fun s' => mkTS s' true (S (t_seen ts)))).
  - apply (Nm (fun s' => mkTS s' false (S (t_seen ts)))).
Qed.

Ltac leaves H S :=
  repeat match type of H with
         | run_f _ (match ?x with _ => _ end) _ _ = _ => destruct x eqn:?
         end;
  cbn [run_f] in H; inversion H; subst; cbn [f1]; exact S.

Lemma l1l2_gat_l1 pl now key ttl o l1 l2 st' cs e : sub_df now l1 l2 ->
  run_f pl (l1l2 (RGat key ttl o)) (fs0 l1 l2) now = (st', cs, e) -> sub_df now (t_store (f1 st')) l2.
Proof.
  intros H0 H. unfold fs0 in H. cbn [l1l2 run_f exec_f f1 f2] in H.
  destruct (exec1 (pl L1) (mkTS l1 false 0) now (HGat key ttl o)) as [t1 o1] eqn:X1.
  assert (S1 : sub_df now (t_store t1) l2) by (eapply exec1_nonew; [| |exact X1]; [reflexivity|exact H0]).
  destruct o1 as [h1|]; [|inversion H; subst; exact S1].
  destruct h1 as [x| |rs er]; try (leaves H S1).
  destruct rs as [|g [|g' rs']]; try (leaves H S1).
  destruct er; try (leaves H S1).
  destruct (g_miss g).
  - cbn [run_f exec_f f1 f2] in H.
    destruct (exec1 (pl L2) (mkTS l2 false 0) now (HGat key ttl o)) as [t2 o2] eqn:X2.
    destruct o2 as [h2|]; [|inversion H; subst; exact S1].
    destruct h2 as [x| |rs2 er2]; try (leaves H S1).
    destruct rs2 as [|g2 [|g2' rs2']]; try (leaves H S1).
    destruct er2; try (leaves H S1).
    destruct (g_miss g2) eqn:M2; try (leaves H S1).
    cbn [run_f exec_f f1 f2] in H.
    destruct (exec1 (pl L1) t1 now (HSet MAdd key (g_data g2) (g_flags g2) ttl)) as [t3 o3] eqn:X3.
    assert (S3 : sub_df now (t_store t3) l2).
    { eapply exec1_setval; [exact S1| |exact X3]. destruct (exec1_gat_hit _ _ _ _ _ _ _ _ X2 M2) as (e0 & A & C & D).
      cbn [t_store] in A. eauto. }
    destruct o3 as [h3|]; [|inversion H; subst; exact S3].
    leaves H S3.
  - cbn [run_f exec_f f1 f2] in H.
    destruct (exec1 (pl L2) (mkTS l2 false 0) now (HTouch key ttl)) as [t2 o2] eqn:X2.
    destruct o2 as [h2|]; [|inversion H; subst; exact S1].
    leaves H S1.
Qed.

Lemma l1l2batch_gat_l1 pl now key ttl o l1 l2 st' cs e : sub_df now l1 l2 ->
  run_f pl (l1l2batch (RGat key ttl o)) (fs0 l1 l2) now = (st', cs, e) -> sub_df now (t_store (f1 st')) l2.
Proof.
  intros H0 H. unfold fs0 in H. cbn [l1l2batch run_f exec_f f1 f2] in H.
  destruct (exec1 (pl L2) (mkTS l2 false 0) now (HGat key ttl o)) as [t2 o2] eqn:X2.
  destruct o2 as [h2|]; [|inversion H; subst; exact H0].
  destruct h2 as [x| |rs er]; try (leaves H H0).
  destruct rs as [|g [|g' rs']]; try (leaves H H0).
  destruct er; try (leaves H H0).
  destruct (g_miss g); try (leaves H H0).
  cbn [run_f exec_f f1 f2] in H.
  destruct (exec1 (pl L1) (mkTS l1 false 0) now (HTouch key ttl)) as [t1 o1] eqn:X1.
  assert (S1 : sub_df now (t_store t1) l2) by (eapply exec1_nonew; [| |exact X1]; [reflexivity|exact H0]).
  destruct o1 as [h1|]; [|inversion H; subst; exact S1].
  leaves H S1.
Qed.

(* every request that is not a write leaves in L1 only values of the L2 it started with *)
Lemma nowrite_l1 pl k lck r now l1 l2 st' cs e : k <> KL1Only -> is_write r = false -> in_scope k r = true ->
  sub_df now l1 l2 ->
  run_f pl (orca_cfg k lck r) (fs0 l1 l2) now = (st', cs, e) -> sub_df now (t_store (f1 st')) l2.
Proof.
  intros Hk Hw Hs H0 H. destruct (is_get r) eqn:Hg.
  - assert (G : exists gete items no ne, r = mkget gete items no ne).
    { destruct r; try discriminate Hg; [exists false|exists true]; eauto. }
    destruct G as (gete & items & no & ne & ->).
    apply (cfg_get_sound pl now l2) in H; [destruct H as [[A _] _]; exact A|].
    split; cbn [fs0 f1 f2 t_store]; [exact H0|intros _; apply sub_df_refl].
  - rewrite (nonget_cfg k lck r Hg) in H.
    destruct r; try discriminate Hw; try discriminate Hg.
    + destruct k; [congruence| |]; cbn [base_orca] in H; [eapply l1l2_gat_l1|eapply l1l2batch_gat_l1]; eauto.
    + destruct k; [congruence| |]; cbn in H; inversion H; subst; exact H0.
    + destruct k; [congruence| |]; cbn in H; inversion H; subst; exact H0.
    + destruct k; [congruence| |]; cbn in H; inversion H; subst; exact H0.
    + destruct k; [congruence| |]; cbn in H; inversion H; subst; exact H0.
    + destruct k; [congruence| |]; cbn in H; inversion H; subst; exact H0.
Qed.

(* ---------------- the two theorems about writes ---------------- *)
Lemma is_ack_err r o rt e q : is_ack r (PError o rt e q) = false.
Proof. destruct r; reflexivity. Qed.

Lemma ref_run_store s now r : is_write r = true ->
  fst (fst (ref_run s now r)) = fst (std_exec s now (wop r)).
Proof.
  intros Hw. unfold ref_run. rewrite (w1prog_eq r Hw). unfold w1prog. cbn [run].
  destruct (std_exec s now (wop r)) as [s' h]. destruct h; reflexivity.
Qed.

Lemma no_stale_after_ack : forall pl k lck r now l1 l2 key,
  amo pl -> errst pl -> inv k now l1 l2 -> in_scope k r = true ->
  (match r with RSet _ x _ _ _ _ _ | RCat _ x _ _ _ | RDelete x _ | RTouch x _ _ => x = key | _ => False end) ->
  let '(st', cs, c) := serve1_f pl (orca_cfg k lck) r (fs0 l1 l2) now in
  c = Open -> existsb (is_ack r) cs = true ->
  let '(s1, _, _) := ref_run (auth k l1 l2) now r in
  live now (auth k (t_store (f1 st')) (t_store (f2 st'))) key = live now s1 key /\
  (k <> KL1Only -> forall e1, live now (t_store (f1 st')) key = Some e1 ->
     exists e2, live now (t_store (f2 st')) key = Some e2 /\ e_data e1 = e_data e2 /\ e_flags e1 = e_flags e2).
Proof.
  intros pl k lck r now l1 l2 key Am Er Hinv _ Hr.
  assert (Hw : is_write r = true /\ wkey r = key) by (destruct r; try contradiction; auto).
  destruct Hw as [Hw Hk]. clear Hr.
  pose proof (serve1_f_inv pl (orca_cfg k lck) r (fs0 l1 l2) now) as S.
  destruct (serve1_f pl (orca_cfg k lck) r (fs0 l1 l2) now) as [[st' cs] c].
  destruct (run_f pl (orca_cfg k lck r) (fs0 l1 l2) now) as [[st0 cs0] e0] eqn:R.
  destruct S as (-> & _ & S). intros Hc Hack. specialize (S Hc).
  rewrite (nonget_cfg k lck r (write_not_get r Hw)) in R.
  pose proof (ref_run_store (auth k l1 l2) now r Hw) as RS.
  destruct (ref_run (auth k l1 l2) now r) as [[s1 x] y]. cbn [fst] in RS. subst s1.
  assert (NoAck : e0 <> FRet None -> cs0 = [] -> False).
  { intros N E. destruct S as [S|(err & _ & S)]; [contradiction|]. subst. cbn [app existsb] in Hack.
    rewrite is_ack_err in Hack. discriminate Hack. }
  assert (K : k = KL1Only \/ k <> KL1Only) by (destruct k; [left; reflexivity|right; discriminate|right; discriminate]).
  destruct K as [->|Kn].
  - cbn [base_orca auth] in *. rewrite (w1prog_eq r Hw) in R.
    apply (w1prog_walk pl now (wop r) (wack r) l1 l2 Er (wq_wop r Hw)) in R. destruct R as [C F].
    assert (E : e0 = FRet None).
    { destruct e0 as [[z|]|]; try reflexivity; exfalso; apply NoAck; try discriminate; apply C; discriminate. }
    split; [rewrite (F E); reflexivity|]. intros X; congruence.
  - assert (Ha : forall a c, auth k a c = c) by (destruct k; [congruence|reflexivity|reflexivity]).
    rewrite !Ha. rewrite (wprog_eq k r Kn Hw) in R.
    apply (wprog_walk pl now (wop r) (wop1 k r) (wkey r) (wack r) (wtol k r) (wcomp r) l1 l2 Er
             (wq_wop r Hw) (wq_wop1 k r Hw) (key_wop1 k r Hw) (wtol_ok k r) (wcomp_set k r)) in R.
    destruct R as (_ & C & B).
    assert (E : e0 = FRet None).
    { destruct e0 as [[z|]|]; try reflexivity; exfalso; apply NoAck; try discriminate; apply C; discriminate. }
    destruct (B Am E) as [[A2 R2] L]. rewrite Hk in L. rewrite A2.
    split; [reflexivity|]. intros _ e1 E1.
    destruct L as [L|L]; [congruence|].
    pose proof (apply_pair now l1 l2 (inv_pinv _ _ _ _ Hinv Kn) k r Kn Hw R2) as P.
    rewrite live_olive, L, <- live_olive in E1.
    destruct (pinv_hit _ _ _ _ _ _ P E1) as (e2 & E2 & D & F & _). eauto.
Qed.

(* holds for any number of faults *)
Lemma after_fault_any : forall pl k lck r now l1 l2 key e1,
  errst pl -> sub_live now l1 l2 -> k <> KL1Only -> in_scope k r = true ->
  let '(st', _, _) := serve1_f pl (orca_cfg k lck) r (fs0 l1 l2) now in
  live now (t_store (f1 st')) key = Some e1 ->
  (exists e, live now l2 key = Some e /\ e_data e1 = e_data e /\ e_flags e1 = e_flags e) \/
  (exists e, live now (t_store (f2 st')) key = Some e /\ e_data e1 = e_data e /\ e_flags e1 = e_flags e).
Proof.
  intros pl k lck r now l1 l2 key e1 Er Hinv Kn Hs.
  pose proof (serve1_f_inv pl (orca_cfg k lck) r (fs0 l1 l2) now) as S.
  destruct (serve1_f pl (orca_cfg k lck) r (fs0 l1 l2) now) as [[st' cs] c].
  destruct (run_f pl (orca_cfg k lck r) (fs0 l1 l2) now) as [[st0 cs0] e0] eqn:R.
  destruct S as (-> & _). intros E1.
  destruct (is_write r) eqn:Hw.
  - rewrite (nonget_cfg k lck r (write_not_get r Hw)), (wprog_eq k r Kn Hw) in R.
    apply (wprog_walk pl now (wop r) (wop1 k r) (wkey r) (wack r) (wtol k r) (wcomp r) l1 l2 Er
             (wq_wop r Hw) (wq_wop1 k r Hw) (key_wop1 k r Hw) (wtol_ok k r) (wcomp_set k r)) in R.
    destruct R as (A & _). rewrite live_olive in E1. destruct (A key) as [X|[X|[X [A2 R2]]]]; rewrite X in E1.
    + left. rewrite <- live_olive in E1. destruct (Hinv _ _ E1) as (e2 & E2 & D & F & _). eauto.
    + discriminate E1.
    + right. rewrite <- live_olive in E1.
      pose proof (apply_pair now l1 l2 (sub_live_pinv _ _ _ Hinv) k r Kn Hw R2) as P.
      destruct (pinv_hit _ _ _ _ _ _ P E1) as (e2 & E2 & D & F & _). rewrite A2. eauto.
  - left. apply (nowrite_l1 pl k lck r now l1 l2 st0 cs0 e0 Kn Hw Hs (sub_live_df _ _ _ Hinv) R). exact E1.
Qed.

Lemma after_fault : forall pl k lck r now l1 l2 key e1,
  amo pl -> errst pl -> sub_live now l1 l2 -> k <> KL1Only -> in_scope k r = true ->
  let '(st', _, _) := serve1_f pl (orca_cfg k lck) r (fs0 l1 l2) now in
  live now (t_store (f1 st')) key = Some e1 ->
  (exists e, live now l2 key = Some e /\ e_data e1 = e_data e /\ e_flags e1 = e_flags e) \/
  (exists e, live now (t_store (f2 st')) key = Some e /\ e_data e1 = e_data e /\ e_flags e1 = e_flags e).
Proof. intros pl k lck r now l1 l2 key e1 _. apply after_fault_any. Qed.
