(* Faults.v — the orchestrators under backend faults (direct handlers). An adversary may answer
   any single backend request, on L1 or on L2, with a memcached error status, or break the
   connection at that request (before or after the backend applied it, or right after the
   reply). The std handler's error paths are mirrored literally (handlers/memcached/std):
   - an error status is drained and mapped through binprot.DecodeError;
   - a connection that breaks while the handler waits for the reply makes
       set/add/replace/append/prepend dereference a nil header: a PANIC, which the server loop
       recovers by closing the client connection (handleSetCommon uses resHeader after
       readResponseHeader returned nil, err);
       get/gat/delete/touch return the I/O error;
   - once broken, every later call on that tier fails at Flush with an I/O error. *)
From Rend Require Import base.Bytes gen.Consts_gen spec.MapSpec orca.Types handlers.Std orca.Orcas.
Open Scope N_scope.

Inductive fault :=
| FStatus (st : N)            (* reply with this error status; the request is not applied. A "not found" /
                                 "not stored" status is made truthful: the key vanishes from that tier at
                                 that moment (eviction racing with the request) *)
| FBreak (applied : bool)     (* the connection breaks instead of a reply *)
| FBreakAfterReply.           (* normal reply, then the connection breaks *)

(* per tier: the store, whether its connection is broken, how many backend requests it saw *)
Record tstate := mkTS { t_store : store; t_dead : bool; t_seen : nat }.
Record fstate := mkFS { f1 : tstate; f2 : tstate }.

(* the fault plan: which request (by per-tier index) is hit *)
Definition plan := tier -> nat -> option fault.
Definition no_faults : plan := fun _ _ => None.

Inductive hout := HRes (r : hres) | HPanic.

Definition hreq_key (q : hreq) : bytes :=
  match q with
  | HSet _ k _ _ _ | HCat _ k _ | HDelete k | HTouch k _ | HGat k _ _ => k
  | HGet (it :: _) | HGetE (it :: _) => gi_key it
  | _ => []
  end.
(* the store after an injected status reply *)
Definition status_store (s : store) (st : N) (k : bytes) : store :=
  if (st =? statusKeyEnoent) || (st =? statusNotStored) then upd s k None else s.

Definition is_setfamily (q : hreq) : bool := match q with HSet _ _ _ _ _ | HCat _ _ _ => true | _ => false end.

(* one backend request of a single-request handler call *)
Definition exec1 (pl : nat -> option fault) (ts : tstate) (now : N) (q : hreq) : tstate * hout :=
  if t_dead ts then (ts, HRes (match q with HGet _ | HGetE _ => HVals [] (Some EIO) | _ => HErr EIO end))
  else
    let n := t_seen ts in
    match pl n with
    | None => let '(s', r) := std_exec (t_store ts) now q in (mkTS s' false (S n), HRes r)
    | Some (FStatus st) =>
        (mkTS (status_store (t_store ts) st (hreq_key q)) false (S n),
         HRes (match decode_error st with
               | Some e => match q with
                           | HGat k _ o => if e =? EKeyNotFound then HVals [mkGR k [] 0 0 o false true] None else HErr e
                           | _ => HErr e end
               | None => HDone end))
    | Some (FBreak applied) =>
        let s' := if applied then fst (std_exec (t_store ts) now q) else t_store ts in
        (mkTS s' true (S n), if is_setfamily q then HPanic else HRes (HErr EIO))
    | Some FBreakAfterReply =>
        let '(s', r) := std_exec (t_store ts) now q in (mkTS s' true (S n), HRes r)
    end.

(* a multi-key get is one backend request per key, stopping at the first error *)
Fixpoint exec_get (pl : nat -> option fault) (gete : bool) (ts : tstate) (now : N) (items : list gitem) (acc : list gres)
  : tstate * hout :=
  match items with
  | [] => (ts, HRes (HVals (rev acc) None))
  | it :: rest =>
      if t_dead ts then (ts, HRes (HVals (rev acc) (Some EIO)))
      else
        let n := t_seen ts in
        let normal := std_get1 (t_store ts) now gete it in
        match pl n with
        | None => exec_get pl gete (mkTS (t_store ts) false (S n)) now rest (normal :: acc)
        | Some (FStatus st) =>
            let s' := status_store (t_store ts) st (gi_key it) in
            match decode_error st with
            | Some e => if e =? EKeyNotFound
                        then exec_get pl gete (mkTS s' false (S n)) now rest (miss_res it :: acc)
                        else (mkTS s' false (S n), HRes (HVals (rev acc) (Some e)))
            | None => exec_get pl gete (mkTS s' false (S n)) now rest (normal :: acc)
            end
        | Some (FBreak _) => (mkTS (t_store ts) true (S n), HRes (HVals (rev acc) (Some EIO)))
        | Some FBreakAfterReply => exec_get pl gete (mkTS (t_store ts) true (S n)) now rest (normal :: acc)
        end
  end.

Definition exec_f (pl : nat -> option fault) (ts : tstate) (now : N) (q : hreq) : tstate * hout :=
  match q with
  | HGet items => exec_get pl false ts now items []
  | HGetE items => exec_get pl true ts now items []
  | _ => exec1 pl ts now q
  end.

(* orchestrator program under faults; None as the returned error slot = the program panicked *)
Inductive fres := FRet (e : option N) | FPanicked.

Fixpoint run_f (pl : plan) (p : prog) (st : fstate) (now : N) : fstate * list rcall * fres :=
  match p with
  | Ret e => (st, [], FRet e)
  | Call L1 q k =>
      let '(t', o) := exec_f (pl L1) (f1 st) now q in
      match o with
      | HRes r => run_f pl (k r) (mkFS t' (f2 st)) now
      | HPanic => (mkFS t' (f2 st), [], FPanicked)
      end
  | Call L2 q k =>
      let '(t', o) := exec_f (pl L2) (f2 st) now q in
      match o with
      | HRes r => run_f pl (k r) (mkFS (f1 st) t') now
      | HPanic => (mkFS (f1 st) t', [], FPanicked)
      end
  | Emit c p' => let '(s', cs, e) := run_f pl p' st now in (s', c :: cs, e)
  end.

(* the server loop: a panic or a non-application error closes the connection *)
Definition serve1_f (pl : plan) (orca : req -> prog) (r : req) (st : fstate) (now : N)
  : fstate * list rcall * conn_state :=
  let '(st', cs, e) := run_f pl (orca r) st now in
  match e with
  | FPanicked => (st', cs, Closed)
  | FRet e' =>
      match r with
      | RQuit _ _ => (st', cs, Closed)
      | _ => match e' with
             | None => (st', cs, Open)
             | Some err => if is_app_error err
                           then (st', cs ++ [PError (req_opaque r) (rtype r) err (req_quiet r)], Open)
                           else (st', cs, Closed)
             end
      end
  end.

(* what the client must have seen for its request to count as answered *)
Definition is_ack (r : req) (c : rcall) : bool :=
  match r, c with
  | RSet _ _ _ _ _ _ _, PStored _ _ _ | RCat _ _ _ _ _, PStored _ _ _ => true
  | RDelete _ _, PDelete _ => true
  | RTouch _ _ _, PTouch _ => true
  | RGat _ _ _, PGat _ => true
  | RGet _ _ _, PGetEnd _ _ | RGetE _ _ _, PGetEnd _ _ => true
  | RNoop _, PNoop _ | RVersion _, PVersion _ | RStat _, PStat _ | RQuit _ _, PQuit _ _ => true
  | _, _ => false
  end.
Definition is_errreply (c : rcall) : bool := match c with PError _ _ _ _ => true | _ => false end.
(* the reply stream ends with the request's own completion (ack / terminator) or an error reply *)
Definition answered (r : req) (cs : list rcall) : bool :=
  match rev cs with
  | c :: _ => is_ack r c || is_errreply c
  | [] => false
  end.
(* every non-quiet key of a get got its own reply (a value or a not-found) unless an error
   reply ended the request *)
Definition get_keys_answered (r : req) (cs : list rcall) : bool :=
  match r with
  | RGet items _ _ | RGetE items _ _ =>
      existsb is_errreply cs ||
      forallb (fun it => gi_quiet it ||
                 existsb (fun c => match c with
                                   | PGet g | PGetE g => (g_opaque g =? gi_opaque it) && bytes_eqb (g_key g) (gi_key it)
                                   | _ => false end) cs) items
  | _ => true
  end.
