(* OrcaProofs.v — the lemmas behind props/C01.v, C02.v, C09.v.
   Structure: [request_core] (one request, any configuration, against the one-tier reference
   started from a pointwise-equal store, with the invariant [pinv b]) and [history_core]
   (induction over a history) carry everything; b = false gives C01/C02, b = true gives C09. *)
From Rend Require Import base.Bytes gen.Consts_gen spec.MapSpec orca.Types handlers.Std orca.Orcas
  proto.Resp orca.OrcaSpec.
From Rend Require Export orca.OrcaLemmas orca.OrcaReqLemmas orca.OrcaGetLemmas.
From Coq Require Import Permutation.
Open Scope N_scope.

(* ---------------- one request ---------------- *)
Lemma combo_items p gete items no ne : combo_ok p true (mkget gete items no ne) = true -> items <> [].
Proof. intros H E. subst. destruct p, gete; discriminate H. Qed.

Lemma get_cfg p b k lck gete now l1 l2 items no ne :
  (k <> KL1Only -> pinv b now l1 l2) -> in_scope k (mkget gete items no ne) = true ->
  combo_ok p lck (mkget gete items no ne) = true ->
  exists l1' cs body,
    run std_exec std_exec (orca_cfg k lck (mkget gete items no ne)) l1 l2 now = (l1', l2, cs, None) /\
    auth k l1' l2 = auth k l1 l2 /\ (k <> KL1Only -> pinv b now l1' l2) /\
    frames p cs = body ++ frames p [PGetEnd no ne] /\
    Permutation body (frames p (map (pg gete) (map (std_get1 (auth k l1 l2) now gete) items))).
Proof.
  intros H Hs Hc.
  assert (Hg : gete = true -> k = KL1Only).
  { intros ->. destruct k; [reflexivity|discriminate Hs|discriminate Hs]. }
  destruct lck; cbn [orca_cfg]; [|apply get_unlocked; auto].
  assert (L : locked (base_orca k) (mkget gete items no ne) = locked_gets (base_orca k) gete items no ne)
    by (destruct gete; reflexivity).
  rewrite L. pose proof (combo_items _ _ _ _ _ Hc) as Hne.
  destruct p.
  - destruct (get_locked b k gete now l2 items no ne Hg Hne l1 H) as (l1' & cs & R & A & P & F).
    exists l1', cs, (frames Bin (map (pg gete) (map (std_get1 (auth k l1 l2) now gete) items))).
    repeat (split; [assumption|]). apply Permutation_refl.
  - destruct gete; [destruct items; discriminate Hc|].
    destruct items as [|it [|it2 rest]]; [congruence| |discriminate Hc].
    change (locked_gets (base_orca k) false [it] no ne) with (base_orca k (mkget false [it] no ne)).
    apply get_unlocked; auto.
Qed.

Lemma nonget_cfg k lck r : is_get r = false -> orca_cfg k lck r = base_orca k r.
Proof. intros H. destruct lck; [|reflexivity]. destruct r; try reflexivity; discriminate H. Qed.

Lemma nonget_run b k now l1 l2 r s :
  (k <> KL1Only -> pinv b now l1 l2) -> (b = true -> req_ttl r <= 2 * now) -> is_get r = false ->
  store_eq (auth k l1 l2) s ->
  exists l1' l2' cs e s',
    run std_exec std_exec (base_orca k r) l1 l2 now = (l1', l2', cs, e) /\
    run std_exec std_exec (l1only r) s empty_store now = (s', empty_store, cs, e) /\
    store_eq (auth k l1' l2') s' /\ (k <> KL1Only -> pinv b now l1' l2').
Proof.
  intros H Ht Hg Hs.
  assert (K : k = KL1Only \/ k <> KL1Only) by (destruct k; [left; reflexivity|right; discriminate|right; discriminate]).
  destruct K as [->|Hk].
  - cbn [base_orca auth] in *.
    pose proof (run_congr (l1only r) (noL2_l1only r) l1 s l2 empty_store now Hs) as C.
    destruct (run std_exec std_exec (l1only r) l1 l2 now) as [[[a x] cs] e].
    destruct (run std_exec std_exec (l1only r) s empty_store now) as [[[a' y] cs'] e'].
    destruct C as (A & -> & -> & -> & ->). exists a, l2, cs', e', a'. split; [reflexivity|]. split; [reflexivity|]. split; [exact A|]. intros C; congruence.
  - assert (Ha : forall a c, auth k a c = c) by (destruct k; [congruence|reflexivity|reflexivity]).
    rewrite Ha in Hs.
    pose proof (two_nonget b now l1 l2 (H Hk) k r l2 Hk Hg Ht) as G. unfold goal in G.
    pose proof (run_congr (l1only r) (noL2_l1only r) l2 s l2 empty_store now Hs) as C.
    destruct (run std_exec std_exec (l1only r) l2 l2 now) as [[[a x] cs] e].
    destruct (run std_exec std_exec (l1only r) s empty_store now) as [[[a' y] cs'] e'].
    destruct C as (A & -> & -> & -> & ->). destruct G as (l1' & R & P).
    exists l1', a, cs', e', a'. rewrite Ha. split; [exact R|]. split; [reflexivity|]. split; [exact A|]. intros _; exact P.
Qed.

Lemma request_core p b k lck now l1 l2 r s :
  (k <> KL1Only -> pinv b now l1 l2) -> (b = true -> req_ttl r <= 2 * now) ->
  in_scope k r = true -> combo_ok p lck r = true -> store_eq (auth k l1 l2) s ->
  let '(l1', l2', cs, c) := serve1 std_exec std_exec (orca_cfg k lck) r l1 l2 now in
  let '(s', _, cs0, c0) := serve1 std_exec std_exec l1only r s empty_store now in
  reply_equiv p r cs cs0 /\ c = c0 /\ store_eq (auth k l1' l2') s' /\ (k <> KL1Only -> pinv b now l1' l2').
Proof.
  intros H Ht Hsc Hc Hs. destruct (is_get r) eqn:Hg.
  - assert (G : exists gete items no ne, r = mkget gete items no ne).
    { destruct r; try discriminate Hg; [exists false|exists true]; eauto. }
    destruct G as (gete & items & no & ne & ->).
    destruct (get_cfg p b k lck gete now l1 l2 items no ne H Hsc Hc) as (l1' & cs & body & R & A & P & F & Pm).
    unfold serve1. rewrite R, l1only_get_run.
    assert (X : reply_equiv p (mkget gete items no ne) cs
                  (map (pg gete) (map (std_get1 s now gete) items) ++ [PGetEnd no ne])).
    { unfold reply_equiv. rewrite Hg.
      exists body, (frames p (map (pg gete) (map (std_get1 s now gete) items))).
      assert (T : get_term p (mkget gete items no ne) = frames p [PGetEnd no ne]) by (destruct gete; reflexivity).
      rewrite T. split; [exact F|]. split; [apply frames_app|].
      rewrite (map_ext (std_get1 s now gete) (std_get1 (auth k l1 l2) now gete)); [exact Pm|].
      intros it. apply std_get1_ext. apply store_eq_sym. exact Hs. }
    destruct gete; cbn [mkget] in *; (split; [exact X|]); (split; [reflexivity|]); (split; [rewrite A; exact Hs|exact P]).
  - destruct (nonget_run b k now l1 l2 r s H Ht Hg Hs) as (l1' & l2' & cs & e & s' & R & R0 & A & P).
    unfold serve1. rewrite (nonget_cfg k lck r Hg), R, R0.
    assert (X : forall cs, reply_equiv p r cs cs) by (intros; unfold reply_equiv; rewrite Hg; reflexivity).
    destruct r; try discriminate Hg; destruct e as [x|]; try destruct (is_app_error x); auto.
Qed.

Lemma inv_pinv k now l1 l2 : inv k now l1 l2 -> k <> KL1Only -> pinv false now l1 l2.
Proof. destruct k; [congruence| |]; intros H _; apply sub_live_pinv; exact H. Qed.
Lemma pinv_inv b k now l1 l2 : (k <> KL1Only -> pinv b now l1 l2) -> inv k now l1 l2.
Proof. destruct k; cbn [inv]; [auto| |]; intros H; eapply pinv_sub_live; apply H; discriminate. Qed.

Lemma request_refines : forall p k lck now l1 l2 r,
  inv k now l1 l2 -> in_scope k r = true -> combo_ok p lck r = true ->
  let '(l1', l2', cs, c) := serve1 std_exec std_exec (orca_cfg k lck) r l1 l2 now in
  let '(s', _, cs0, c0) := serve1 std_exec std_exec l1only r (auth k l1 l2) empty_store now in
  reply_equiv p r cs cs0 /\ c = c0 /\ store_eq (auth k l1' l2') s' /\ inv k now l1' l2'.
Proof.
  intros p k lck now l1 l2 r H Hs Hc.
  pose proof (request_core p false k lck now l1 l2 r (auth k l1 l2) (inv_pinv _ _ _ _ H)
                ltac:(discriminate) Hs Hc (store_eq_refl _)) as C.
  destruct (serve1 std_exec std_exec (orca_cfg k lck) r l1 l2 now) as [[[l1' l2'] cs] c].
  destruct (serve1 std_exec std_exec l1only r (auth k l1 l2) empty_store now) as [[[s' x] cs0] c0].
  destruct C as (A & B & C & D). split; [exact A|]. split; [exact B|]. split; [exact C|]. eapply pinv_inv; eauto.
Qed.

(* ---------------- histories ---------------- *)
Definition step_ok (p : proto) (two lck : bool) (st : hstep) : Prop :=
  in_scope (kind_of two (h_port st)) (h_req st) = true /\
  combo_ok p lck (h_req st) = true /\
  (h_port st = PBatch -> two = true) /\
  (two = false -> h_evict st = []).

Definition step_rel (p : proto) (x : hstep * (list rcall * conn_state)) (y : list rcall * conn_state) : Prop :=
  reply_equiv p (h_req (fst x)) (fst (snd x)) (fst y) /\ snd (snd x) = snd y.

Lemma last_cons {A} (a : A) l d : last (a :: l) d = last l a.
Proof.
  revert a d. induction l as [|b l IH]; intros a d; [reflexivity|].
  change (last (a :: b :: l) d) with (last (b :: l) d). rewrite !IH. reflexivity.
Qed.

Lemma history_core p b two lck : forall h l1 l2 s t0,
  nondecreasing (t0 :: map h_now h) -> Forall (step_ok p two lck) h -> (b = true -> Forall ttl_sane h) ->
  (two = true -> pinv b t0 l1 l2) -> store_eq (if two then l2 else l1) s ->
  let '(out, l1', l2') := run_hist two lck h l1 l2 in
  let '(out0, s') := ref_hist h s in
  Forall2 (step_rel p) (combine h out) out0 /\ length out = length h /\
  store_eq (if two then l2' else l1') s' /\
  (two = true -> pinv b (last (map h_now h) t0) l1' l2').
Proof.
  induction h as [|st rest IH]; intros l1 l2 s t0 Hn Hf Ht Hp Hs.
  - cbn. split; [constructor|]. split; [reflexivity|]. split; [exact Hs|exact Hp].
  - cbn [run_hist ref_hist map]. rewrite last_cons.
    inversion Hf as [|? ? (Hsc & Hc & Hpt & Hev) Hf']; subst.
    cbn [map nondecreasing] in Hn. destruct Hn as [Hle Hn].
    set (k := kind_of two (h_port st)) in *.
    assert (Hk : k <> KL1Only -> two = true).
    { unfold k, kind_of. destruct two; [reflexivity|congruence]. }
    assert (Ha : forall a c, auth k a c = if two then c else a).
    { intros a c. unfold k, kind_of. destruct two; [destruct (h_port st); reflexivity|reflexivity]. }
    assert (P1 : k <> KL1Only -> pinv b (h_now st) (evict l1 (h_evict st)) l2).
    { intros Hk'. apply pinv_evict. eapply pinv_mono; eauto. }
    assert (S1 : store_eq (auth k (evict l1 (h_evict st)) l2) s).
    { rewrite Ha. destruct two; [exact Hs|]. rewrite (Hev eq_refl). exact Hs. }
    assert (T1 : b = true -> req_ttl (h_req st) <= 2 * h_now st).
    { intros B. specialize (Ht B). inversion Ht; subst. assumption. }
    pose proof (request_core p b k lck (h_now st) (evict l1 (h_evict st)) l2 (h_req st) s P1 T1 Hsc Hc S1) as C.
    destruct (serve1 std_exec std_exec (orca_cfg k lck) (h_req st) (evict l1 (h_evict st)) l2 (h_now st))
      as [[[l1a l2a] cs] c].
    destruct (serve1 std_exec std_exec l1only (h_req st) s empty_store (h_now st)) as [[[s1 x] cs0] c0].
    destruct C as (C1 & C2 & C3 & C4). rewrite Ha in C3.
    assert (T2 : b = true -> Forall ttl_sane rest).
    { intros B. specialize (Ht B). inversion Ht; subst. assumption. }
    assert (P2 : two = true -> pinv b (h_now st) l1a l2a).
    { intros T. apply C4. unfold k, kind_of. rewrite T. destruct (h_port st); discriminate. }
    specialize (IH l1a l2a s1 (h_now st) Hn Hf' T2 P2 C3).
    destruct (run_hist two lck rest l1a l2a) as [[out l1' ] l2'].
    destruct (ref_hist rest s1) as [out0 s'].
    destruct IH as (I1 & I2 & I3 & I4).
    cbn [combine length]. split; [constructor; [split; assumption|exact I1]|].
    split; [rewrite I2; reflexivity|]. split; [exact I3|exact I4].
Qed.

Lemma nondec_cons0 l : nondecreasing l -> nondecreasing (0 :: l).
Proof. destruct l; cbn [nondecreasing]; [auto|]. intros; split; [lia|assumption]. Qed.
Lemma nondec_hd l : nondecreasing l -> nondecreasing (hd 0 l :: l).
Proof. destruct l; cbn [nondecreasing hd]; [auto|]. intros; split; [lia|assumption]. Qed.

Lemma hist_ok_steps p two lck h : hist_ok p two lck h -> Forall (step_ok p two lck) h.
Proof. intros [_ H]. exact H. Qed.

Lemma history_refines : forall p two lck h l1 l2,
  hist_ok p two lck h ->
  (forall now, inv (kind_of two PMain) now l1 l2) ->
  let '(out, l1', l2') := run_hist two lck h l1 l2 in
  let '(out0, s') := ref_hist h (if two then l2 else l1) in
  Forall2 (fun x y => reply_equiv p (h_req (fst x)) (fst (snd x)) (fst y) /\ snd (snd x) = snd y)
          (combine h out) out0 /\
  store_eq (if two then l2' else l1') s'.
Proof.
  intros p two lck h l1 l2 Hok Hinv.
  assert (P : two = true -> pinv false 0 l1 l2).
  { intros ->. apply sub_live_pinv. exact (Hinv 0). }
  pose proof (history_core p false two lck h l1 l2 (if two then l2 else l1) 0
                (nondec_cons0 _ (proj1 Hok)) (hist_ok_steps _ _ _ _ Hok) ltac:(discriminate) P (store_eq_refl _)) as C.
  destruct (run_hist two lck h l1 l2) as [[out l1'] l2'].
  destruct (ref_hist h (if two then l2 else l1)) as [out0 s'].
  destruct C as (A & _ & B & _). split; assumption.
Qed.

Lemma l1_subset_l2_always : forall p lck h l1 l2,
  hist_ok p true lck h -> (forall now, sub_live now l1 l2) ->
  let '(_, l1', l2') := run_hist true lck h l1 l2 in
  forall now, last (map h_now h) 0 <= now -> sub_live now l1' l2'.
Proof.
  intros p lck h l1 l2 Hok Hinv.
  pose proof (history_core p false true lck h l1 l2 l2 0
                (nondec_cons0 _ (proj1 Hok)) (hist_ok_steps _ _ _ _ Hok) ltac:(discriminate)
                (fun _ => sub_live_pinv _ _ _ (Hinv 0)) (store_eq_refl _)) as C.
  destruct (run_hist true lck h l1 l2) as [[out l1'] l2'].
  destruct (ref_hist h l2) as [out0 s'].
  destruct C as (_ & _ & _ & D). intros now L.
  eapply pinv_sub_live. eapply pinv_mono; [exact L|]. apply D. reflexivity.
Qed.

Lemma evict_preserves : forall now l1 l2 ks, sub_live now l1 l2 -> sub_live now (evict l1 ks) l2.
Proof. intros. eapply pinv_sub_live. apply pinv_evict. apply sub_live_pinv. assumption. Qed.

(* the reference history depends only on the requests and their times *)
Lemma ref_hist_proj : forall h h' s,
  map (fun st => (h_port st, h_now st, h_req st)) h = map (fun st => (h_port st, h_now st, h_req st)) h' ->
  ref_hist h s = ref_hist h' s.
Proof.
  induction h as [|st h IH]; intros [|st' h'] s E; try discriminate E; [reflexivity|].
  cbn [map] in E. inversion E as [[E1 E2 E3 E4]]. cbn [ref_hist]. rewrite E2, E3.
  destruct (serve1 std_exec std_exec l1only (h_req st') s empty_store (h_now st')) as [[[s1 x] cs] c].
  rewrite (IH h' s1 E4). reflexivity.
Qed.

Lemma forall2_join p : forall h h' out out' out0,
  map h_req h = map h_req h' -> length out = length h -> length out' = length h' ->
  Forall2 (step_rel p) (combine h out) out0 -> Forall2 (step_rel p) (combine h' out') out0 ->
  Forall2 (fun x y => (exists cs0, reply_equiv p (h_req (fst x)) (fst (snd x)) cs0 /\
                                   reply_equiv p (h_req (fst x)) (fst y) cs0) /\ snd (snd x) = snd y)
          (combine h out) out'.
Proof.
  induction h as [|st h IH]; intros [|st' h'] [|o out] [|o' out'] out0 E L L' F F'; try discriminate; cbn [combine] in *.
  - constructor.
  - inversion F as [|x z a b0 Fx Fr]; subst. inversion F' as [|x' z' a' b' Fx' Fr']; subst.
    cbn [map] in E. inversion E as [[E1 E2]].
    constructor.
    + destruct Fx as [X1 X2], Fx' as [Y1 Y2]. cbn [fst snd] in *. split; [|congruence].
      exists (fst z). rewrite E1. split; [rewrite <- E1|]; assumption.
    + eapply IH; eauto.
Qed.

Lemma evictions_invisible : forall p lck h h' l1 l1' l2,
  map (fun st => (h_port st, h_now st, h_req st)) h = map (fun st => (h_port st, h_now st, h_req st)) h' ->
  hist_ok p true lck h -> hist_ok p true lck h' ->
  (forall now, sub_live now l1 l2) -> (forall now, sub_live now l1' l2) ->
  let '(out, _, m2) := run_hist true lck h l1 l2 in
  let '(out', _, m2') := run_hist true lck h' l1' l2 in
  Forall2 (fun x y => (exists cs0, reply_equiv p (h_req (fst x)) (fst (snd x)) cs0 /\
                                   reply_equiv p (h_req (fst x)) (fst y) cs0) /\ snd (snd x) = snd y)
          (combine h out) out' /\
  store_eq m2 m2'.
Proof.
  intros p lck h h' l1 l1' l2 E Hok Hok' Hi Hi'.
  pose proof (history_core p false true lck h l1 l2 l2 0
                (nondec_cons0 _ (proj1 Hok)) (hist_ok_steps _ _ _ _ Hok) ltac:(discriminate)
                (fun _ => sub_live_pinv _ _ _ (Hi 0)) (store_eq_refl _)) as C.
  pose proof (history_core p false true lck h' l1' l2 l2 0
                (nondec_cons0 _ (proj1 Hok')) (hist_ok_steps _ _ _ _ Hok') ltac:(discriminate)
                (fun _ => sub_live_pinv _ _ _ (Hi' 0)) (store_eq_refl _)) as C'.
  rewrite <- (ref_hist_proj h h' l2 E) in C'.
  destruct (run_hist true lck h l1 l2) as [[out a] m2].
  destruct (run_hist true lck h' l1' l2) as [[out' a'] m2'].
  destruct (ref_hist h l2) as [out0 s'].
  destruct C as (F & L & S & _). destruct C' as (F' & L' & S' & _).
  split.
  - assert (Em : forall l : list hstep, map h_req l = map (fun x => snd x) (map (fun st => (h_port st, h_now st, h_req st)) l)).
    { intros l. rewrite map_map. reflexivity. }
    assert (Er : map h_req h = map h_req h') by (rewrite !Em, E; reflexivity).
    exact (forall2_join p h h' out out' out0 Er L L' F F').
  - eapply store_eq_trans; [exact S|]. apply store_eq_sym. exact S'.
Qed.

(* ---------------- C09 ---------------- *)
Lemma ttl_fidelity : forall p lck h l1 l2,
  hist_ok p true lck h -> Forall ttl_sane h ->
  (forall now, sub_live now l1 l2) -> (forall now, same_deadlines now l1 l2) ->
  deadlines_sane (hd 0 (map h_now h)) l2 ->
  let '(_, l1', l2') := run_hist true lck h l1 l2 in
  let '(_, s') := ref_hist h l2 in
  forall now, last (map h_now h) 0 <= now ->
    store_eq l2' s' /\
    (forall k e1, live now l1' k = Some e1 -> exists e0, live now s' k = Some e0 /\ e_dl e1 = e_dl e0).
Proof.
  intros p lck h l1 l2 Hok Hs Hi Hd Hds.
  pose proof (history_core p true true lck h l1 l2 l2 (hd 0 (map h_now h))
                (nondec_hd _ (proj1 Hok)) (hist_ok_steps _ _ _ _ Hok) (fun _ => Hs)
                (fun _ => pinv_true_intro _ _ _ (Hi _) (Hd _) Hds) (store_eq_refl _)) as C.
  destruct (run_hist true lck h l1 l2) as [[out l1'] l2'].
  destruct (ref_hist h l2) as [out0 s'].
  destruct C as (_ & _ & S & D). intros now L. split; [exact S|].
  intros k e1 E.
  assert (L' : last (map h_now h) (hd 0 (map h_now h)) <= now).
  { destruct h as [|st h]; [exact L|]. cbn [map hd] in *. rewrite last_cons in *. exact L. }
  pose proof (pinv_mono _ _ _ _ _ L' (D eq_refl)) as D'.
  destruct (pinv_hit _ _ _ _ _ _ D' E) as (e2 & E2 & _ & _ & _ & Q).
  exists e2. split; [|auto]. rewrite <- (store_eq_live now l2' s' k S). exact E2.
Qed.

Lemma backfill_deadline : forall now t, now < t -> t - now <= 2592000 -> norm now (remaining now (At t)) = At t.
Proof.
  intros now t H1 H2. rewrite norm_rule. cbn [remaining].
  destruct (t - now =? 0) eqn:A; [lia|]. destruct (t - now <=? 2592000) eqn:B; [|lia]. f_equal. lia.
Qed.
Lemma backfill_never : forall now, norm now (remaining now Never) = Never.
Proof. reflexivity. Qed.
Lemma backfill_over_30d_refuted : exists now t, now < t /\ norm now (remaining now (At t)) <> At t.
Proof. exists 1, 2592002. split; [lia|]. vm_compute. discriminate. Qed.

Lemma served_iff : forall s now k e, s k = Some e ->
  (b_get s now k = Some e <-> match e_dl e with Never => True | At t => now < t end).
Proof.
  intros s now k e H. unfold gb_get, live, alive. rewrite H. destruct (e_dl e) as [|t]; [tauto|].
  destruct (now <? t) eqn:A; split; intros; try reflexivity; try discriminate; lia.
Qed.

Lemma spec_deadlines : forall s now c,
  let s' := fst (spec_step s now c) in
  match c with
  | CSet m k d f ttl => forall e', live now s' k = Some e' -> snd (spec_step s now c) = OOk -> e_dl e' = norm now ttl
  | CTouch k ttl | CGat k ttl => forall e', live now s' k = Some e' -> live now s k <> None -> e_dl e' = norm now ttl
  | CCat _ k _ => forall e e', live now s k = Some e -> live now s' k = Some e' -> e_dl e' = e_dl e
  | CGet _ | CDelete _ => forall k e', live now s' k = Some e' -> live now s k = Some e'
  end.
Proof.
  intros s now c s'. subst s'.
  assert (U : forall k e0 e', live now (upd s k (Some e0)) k = Some e' -> e' = e0).
  { intros k e0 e' E. rewrite live_olive, upd_same in E. apply olive_some in E. destruct E as [E _]. congruence. }
  destruct c as [m k d f ttl|fr k d|k|k ttl|ks|k ttl]; cbn [gspec_step].
  - unfold gb_set, gb_put. destruct m; destruct (live now s k) eqn:E; cbn [fst snd]; intros e' E' Ho;
      try (vm_compute in Ho; discriminate Ho); apply U in E'; subst e'; reflexivity.
  - unfold gb_cat. intros e e' E. rewrite E. cbn [fst]. intros E'. apply U in E'. subst e'. reflexivity.
  - unfold gb_delete. destruct (live now s k) eqn:E; cbn [fst]; intros k0 e' E'; [|exact E'].
    rewrite live_olive in E'. unfold upd in E'. destruct (bytes_eqb k0 k); [discriminate E'|exact E'].
  - unfold gb_touch. destruct (live now s k) eqn:E; cbn [fst]; intros e' E' Hn; [|congruence].
    apply U in E'. subst e'. reflexivity.
  - cbn [fst]. auto.
  - unfold gb_gat, gb_touch. destruct (live now s k) eqn:E; cbn [fst]; intros e' E' Hn; [|congruence].
    apply U in E'. subst e'. reflexivity.
Qed.

(* ---------------- the reference run is MapSpec ---------------- *)
Lemma outcome_get gete s now items no ne :
  outcome_of (mkget gete items no ne)
             (map (pg gete) (map (std_get1 s now gete) items) ++ [PGetEnd no ne]) None =
  OVals (map (fun k => view (gb_get s now k)) (map gi_key items)).
Proof.
  assert (G : forall w it, gview (std_get1 s now w it) = view (gb_get s now (gi_key it))).
  { intros. unfold std_get1. destruct (gb_get s now (gi_key it)); reflexivity. }
  destruct gete; cbn [mkget outcome_of pg]; f_equal;
    induction items as [|it items IH]; cbn [map app flat_map]; try reflexivity; rewrite IH, G; reflexivity.
Qed.

Lemma ref_is_mapspec : forall s now r c,
  cmd_of r = Some c ->
  let '(s', cs, e) := ref_run s now r in
  let '(s0, o) := spec_step s now c in
  store_eq s' s0 /\ outcome_of r cs e = o.
Proof.
  intros s now r c H. unfold ref_run.
  destruct r; cbn [cmd_of] in H; inversion H; subst; clear H; cbn [gspec_step].
  - unfold gb_set. destruct m; destruct (live now s k) eqn:E; cbn [l1only rtype]; stdrw;
      (split; [apply store_eq_refl|reflexivity]).
  - unfold gb_cat. destruct (live now s k) eqn:E; cbn [l1only rtype]; stdrw;
      (split; [apply store_eq_refl|reflexivity]).
  - unfold gb_delete. destruct (live now s k) eqn:E; cbn [l1only rtype]; stdrw;
      (split; [apply store_eq_refl|reflexivity]).
  - unfold gb_touch. destruct (live now s k) eqn:E; cbn [l1only rtype]; stdrw;
      (split; [apply store_eq_refl|reflexivity]).
  - unfold gb_gat, gb_touch. destruct (live now s k) eqn:E; cbn [l1only rtype]; stdrw; cbn [fst];
      (split; [apply store_eq_refl|reflexivity]).
  - change (RGet items noopOpaque noopEnd) with (mkget false items noopOpaque noopEnd).
    rewrite l1only_get_run. split; [apply store_eq_refl|apply outcome_get].
  - change (RGetE items noopOpaque noopEnd) with (mkget true items noopOpaque noopEnd).
    rewrite l1only_get_run. split; [apply store_eq_refl|apply outcome_get].
Qed.

(* ---------------- refutation and non-vacuity ---------------- *)
Lemma locked_text_multiget_refuted :
  exists r, combo_ok Text true r = false /\
    let '(_, _, cs, _) := serve1 std_exec std_exec (orca_cfg KL1L2 true) r empty_store empty_store 0 in
    let '(_, _, cs0, _) := serve1 std_exec std_exec l1only r empty_store empty_store 0 in
    frames Text cs <> frames Text cs0.
Proof.
  exists (RGet [mkGI [1] 0 false; mkGI [2] 0 false] 0 false). split; [reflexivity|].
  vm_compute. intros H. discriminate H.
Qed.

Lemma c01_example :
  let h := [mkH PMain 100 [] (RSet MSet [1] [2;3] 5 0 7 false);
            mkH PBatch 101 [[1]] (RGet [mkGI [1] 1 true; mkGI [9] 2 false] 0 false);
            mkH PMain 102 [] (RSet MAdd [1] [4] 0 10 8 false)] in
  hist_ok Bin true true h /\ (forall now, inv (kind_of true PMain) now empty_store empty_store).
Proof.
  cbn zeta. split.
  - split; [cbn [map h_now nondecreasing]; lia|]. repeat constructor; intros; discriminate.
  - intros now k e1 E. discriminate E.
Qed.

Lemma c02_example :
  let h := [mkH PMain 100 [] (RSet MSet [1] [2;3] 5 0 7 false); mkH PMain 101 [] (RGet [mkGI [1] 1 false] 0 false)] in
  let h' := [mkH PMain 100 [] (RSet MSet [1] [2;3] 5 0 7 false); mkH PMain 101 [[1]] (RGet [mkGI [1] 1 false] 0 false)] in
  map (fun st => (h_port st, h_now st, h_req st)) h = map (fun st => (h_port st, h_now st, h_req st)) h' /\
  hist_ok Bin true false h /\ hist_ok Bin true false h'.
Proof.
  cbn zeta. split; [reflexivity|]. split.
  - split; [cbn [map h_now nondecreasing]; lia|]. repeat constructor; intros; discriminate.
  - split; [cbn [map h_now nondecreasing]; lia|]. repeat constructor; intros; discriminate.
Qed.

Lemma c09_example :
  let h := [mkH PMain 1000 [] (RSet MSet [1] [2] 0 50 0 false); mkH PBatch 1001 [[1]] (RGat [1] 900 3);
            mkH PMain 1002 [[1]] (RGet [mkGI [1] 1 false] 0 false)] in
  hist_ok Bin true false h /\ Forall ttl_sane h.
Proof.
  cbn zeta. split.
  - split; [cbn [map h_now nondecreasing]; lia|]. repeat constructor; intros; discriminate.
  - repeat (constructor; [unfold ttl_sane; cbn [req_ttl h_req h_now]; lia|]). constructor.
Qed.
