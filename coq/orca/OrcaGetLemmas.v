(* OrcaGetLemmas.v — gets: the one-tier form, the two-tier gets (L1 hits first, then the L2
   results; L1L2 back-fills L1), and the locking wrapper's one-sub-get-per-key loop. *)
From Rend Require Import base.Bytes gen.Consts_gen spec.MapSpec orca.Types handlers.Std orca.Orcas
  proto.Resp orca.OrcaSpec orca.OrcaLemmas.
From Coq Require Import Permutation.
Open Scope N_scope.

Definition mkget (gete : bool) (items : list gitem) (no : N) (ne : bool) : req :=
  if gete then RGetE items no ne else RGet items no ne.
Definition pg (gete : bool) : gres -> rcall := if gete then PGetE else PGet.

Lemma l1only_get_run gete s x now items no ne :
  run std_exec std_exec (l1only (mkget gete items no ne)) s x now =
  (s, x, map (pg gete) (map (std_get1 s now gete) items) ++ [PGetEnd no ne], None).
Proof.
  destruct gete; cbn [mkget l1only run pg]; rewrite ?std_get_eq, ?std_gete_eq; cbn [run];
    rewrite run_emits; reflexivity.
Qed.

Lemma get1_cases s now w it :
  (exists e, live now s (gi_key it) = Some e /\
             std_get1 s now w it = hit_res it e (if w then remaining now (e_dl e) else 0)) \/
  (live now s (gi_key it) = None /\ std_get1 s now w it = miss_res it).
Proof.
  unfold std_get1, gb_get. destruct (live now s (gi_key it)) as [e|]; [left; eauto | right; auto].
Qed.

Lemma render_pget_eq p g g' :
  g_key g = g_key g' -> g_data g = g_data g' -> g_flags g = g_flags g' -> g_opaque g = g_opaque g' ->
  g_quiet g = g_quiet g' -> g_miss g = g_miss g' -> render p (PGet g) = render p (PGet g').
Proof.
  destruct g as [a1 a2 a3 a4 a5 a6 a7], g' as [c1 c2 c3 c4 c5 c6 c7];
    cbn [g_key g_data g_flags g_opaque g_quiet g_miss]; intros; subst. destruct p; reflexivity.
Qed.
Lemma frames_one_eq p c c' : render p c = render p c' -> frames p [c] = frames p [c'].
Proof. intros H. unfold frames. cbn [map]. rewrite H. reflexivity. Qed.

Lemma items_of_cons_miss it rs : items_of (miss_res it :: rs) = it :: items_of rs.
Proof. destruct it. reflexivity. Qed.

Lemma get_perm p b now l1 l2 w items : pinv b now l1 l2 ->
  Permutation
    (frames p (map PGet (filter (fun g => negb (g_miss g)) (map (std_get1 l1 now false) items))) ++
     frames p (map PGet (map (std_get1 l2 now w) (items_of (filter g_miss (map (std_get1 l1 now false) items))))))
    (frames p (map PGet (map (std_get1 l2 now false) items))).
Proof.
  intros H. induction items as [|it items IH]; [apply Permutation_refl|].
  cbn [map filter].
  destruct (get1_cases l1 now false it) as [(e1 & E1 & ->)|(E1 & ->)]; cbn [hit_res miss_res g_miss negb map].
  - destruct (pinv_hit _ _ _ _ _ _ H E1) as (e2 & E2 & Hd & Hf & _).
    rewrite (frames_cons p (PGet _)), (frames_cons p (PGet (std_get1 l2 now false it))), <- app_assoc.
    rewrite (frames_one_eq p (PGet (hit_res it e1 0)) (PGet (std_get1 l2 now false it))).
    + apply Permutation_app_head. exact IH.
    + unfold std_get1, gb_get. rewrite E2. apply render_pget_eq; cbn; auto.
  - rewrite items_of_cons_miss. cbn [map].
    rewrite (frames_cons p (PGet _)), (frames_cons p (PGet (std_get1 l2 now false it))).
    rewrite (frames_one_eq p (PGet (std_get1 l2 now w it)) (PGet (std_get1 l2 now false it))).
    + eapply Permutation_trans; [apply Permutation_app_swap_app|]. apply Permutation_app_head. exact IH.
    + unfold std_get1. destruct (gb_get l2 now (gi_key it)); apply render_pget_eq; reflexivity.
Qed.

(* ---------------- L1L2 ---------------- *)
Lemma backfill_run b now l2 no ne its : forall l1, pinv b now l1 l2 ->
  exists l1', pinv b now l1' l2 /\
    run std_exec std_exec (l1l2_backfill (map (std_get1 l2 now true) its) (l1l2_get_tail no ne None)) l1 l2 now =
    (l1', l2, map PGet (map (std_get1 l2 now true) its) ++ [PGetEnd no ne], None).
Proof.
  induction its as [|it its IH]; intros l1 H.
  - exists l1. split; [exact H|reflexivity].
  - cbn [map l1l2_backfill].
    destruct (get1_cases l2 now true it) as [(e & E & ->)|(E & ->)];
      cbn [hit_res miss_res g_miss g_key g_data g_flags g_exp run].
    + rewrite std_set_set. cbn [run].
      assert (H' : pinv b now (b_put l1 now (gi_key it) (e_data e) (e_flags e) (remaining now (e_dl e))) l2).
      { unfold gb_put. apply pinv_upd1; [exact H|]. apply rel_backfill; [exact E|].
        intros B. eapply pinv_okdl; eauto. }
      destruct (IH _ H') as (l1' & P & R). rewrite R. exists l1'. split; [exact P|reflexivity].
    + destruct (IH _ H) as (l1' & P & R). rewrite R. exists l1'. split; [exact P|reflexivity].
Qed.

Lemma l1l2_get_run b now l1 l2 items no ne : pinv b now l1 l2 ->
  exists l1', pinv b now l1' l2 /\
    run std_exec std_exec (l1l2_get items no ne) l1 l2 now =
    (l1', l2,
     map PGet (filter (fun g => negb (g_miss g)) (map (std_get1 l1 now false) items)) ++
     map PGet (map (std_get1 l2 now true) (items_of (filter g_miss (map (std_get1 l1 now false) items)))) ++
     [PGetEnd no ne], None).
Proof.
  intros H. unfold l1l2_get. cbn [run]. rewrite std_get_eq. cbn [run]. rewrite run_emits.
  destruct (filter g_miss (map (std_get1 l1 now false) items)) as [|g ms] eqn:Em.
  - exists l1. split; [exact H|reflexivity].
  - cbn [run]. rewrite std_gete_eq. cbn [run].
    destruct (backfill_run b now l2 no ne (items_of (g :: ms)) l1 H) as (l1' & P & R).
    exists l1'. split; [exact P|].
    destruct (existsb (fun g0 => negb (g_miss g0)) (map (std_get1 l2 now true) (items_of (g :: ms))));
      rewrite R; reflexivity.
Qed.

Lemma l1l2batch_get_run now l1 l2 items no ne :
  run std_exec std_exec (l1l2batch_get items no ne) l1 l2 now =
  (l1, l2,
   map PGet (filter (fun g => negb (g_miss g)) (map (std_get1 l1 now false) items)) ++
   map PGet (map (std_get1 l2 now false) (items_of (filter g_miss (map (std_get1 l1 now false) items)))) ++
   [PGetEnd no ne], None).
Proof.
  unfold l1l2batch_get. cbn [run]. rewrite std_get_eq. cbn [run]. rewrite run_emits.
  destruct (filter g_miss (map (std_get1 l1 now false) items)) as [|g ms] eqn:Em.
  - reflexivity.
  - cbn [run]. rewrite std_get_eq. cbn [run]. rewrite run_emits. reflexivity.
Qed.

(* ---------------- any base orchestrator, unlocked ---------------- *)
Lemma get_unlocked p b k gete now l1 l2 items no ne :
  (k <> KL1Only -> pinv b now l1 l2) -> (gete = true -> k = KL1Only) ->
  exists l1' cs body,
    run std_exec std_exec (base_orca k (mkget gete items no ne)) l1 l2 now = (l1', l2, cs, None) /\
    auth k l1' l2 = auth k l1 l2 /\ (k <> KL1Only -> pinv b now l1' l2) /\
    frames p cs = body ++ frames p [PGetEnd no ne] /\
    Permutation body (frames p (map (pg gete) (map (std_get1 (auth k l1 l2) now gete) items))).
Proof.
  intros H Hg. destruct k.
  - cbn [base_orca auth]. rewrite l1only_get_run.
    exists l1, (map (pg gete) (map (std_get1 l1 now gete) items) ++ [PGetEnd no ne]),
           (frames p (map (pg gete) (map (std_get1 l1 now gete) items))).
    split; [reflexivity|]. split; [reflexivity|]. split; [exact H|]. split; [apply frames_app|apply Permutation_refl].
  - destruct gete; [specialize (Hg eq_refl); discriminate|]. assert (H' := H ltac:(discriminate)).
    cbn [mkget base_orca l1l2 auth pg].
    destruct (l1l2_get_run b now l1 l2 items no ne H') as (l1' & P & R). rewrite R.
    eexists l1', _, _. split; [reflexivity|]. split; [reflexivity|]. split; [intros _; exact P|].
    split; [rewrite app_assoc, frames_app, frames_app; reflexivity|]. apply (get_perm p b now l1 l2 true items H').
  - destruct gete; [specialize (Hg eq_refl); discriminate|]. assert (H' := H ltac:(discriminate)).
    cbn [mkget base_orca l1l2batch auth pg]. rewrite l1l2batch_get_run.
    eexists l1, _, _. split; [reflexivity|]. split; [reflexivity|]. split; [intros _; exact H'|].
    split; [rewrite app_assoc, frames_app, frames_app; reflexivity|]. apply (get_perm p b now l1 l2 false items H').
Qed.

(* ---------------- the locking wrapper, binary protocol ---------------- *)
Lemma frames_end0 : frames Bin [PGetEnd 0 false] = [].
Proof. reflexivity. Qed.
Lemma get_locked b k gete now l2 items no ne : (gete = true -> k = KL1Only) -> items <> [] -> forall l1,
  (k <> KL1Only -> pinv b now l1 l2) ->
  exists l1' cs,
    run std_exec std_exec (locked_gets (base_orca k) gete items no ne) l1 l2 now = (l1', l2, cs, None) /\
    auth k l1' l2 = auth k l1 l2 /\ (k <> KL1Only -> pinv b now l1' l2) /\
    frames Bin cs = frames Bin (map (pg gete) (map (std_get1 (auth k l1 l2) now gete) items)) ++
                    frames Bin [PGetEnd no ne].
Proof.
  intros Hg. induction items as [|it rest IH]; [congruence|]. intros _ l1 H.
  destruct rest as [|it2 rest].
  - cbn [locked_gets]. change (if gete then RGetE [it] no ne else RGet [it] no ne) with (mkget gete [it] no ne).
    destruct (get_unlocked Bin b k gete now l1 l2 [it] no ne H Hg) as (l1' & cs & body & R & A & P & F & Pm).
    exists l1', cs. repeat (split; [assumption|]).
    cbn [map] in Pm |- *. apply perm_small in Pm; [|apply frames_one_len]. subst body. exact F.
  - change (locked_gets (base_orca k) gete (it :: it2 :: rest) no ne)
      with (thenp (base_orca k (mkget gete [it] 0 false)) (locked_gets (base_orca k) gete (it2 :: rest) no ne)).
    rewrite run_thenp.
    destruct (get_unlocked Bin b k gete now l1 l2 [it] 0 false H Hg) as (l1a & cs1 & body & R & A & P & F & Pm).
    rewrite R. cbn [fst].
    destruct (IH ltac:(discriminate) l1a P) as (l1' & cs2 & R2 & A2 & P2 & F2). rewrite R2.
    exists l1', (cs1 ++ cs2). split; [reflexivity|]. split; [congruence|]. split; [exact P2|].
    rewrite frames_app, F, F2, A.
    cbn [map] in Pm. apply perm_small in Pm; [|apply frames_one_len]. subst body.
    rewrite frames_end0, app_nil_r.
    change (map (pg gete) (map (std_get1 (auth k l1 l2) now gete) (it :: it2 :: rest)))
      with (pg gete (std_get1 (auth k l1 l2) now gete it) ::
            map (pg gete) (map (std_get1 (auth k l1 l2) now gete) (it2 :: rest))).
    rewrite (frames_cons Bin _ (map (pg gete) _)).
    rewrite <- app_assoc. reflexivity.
Qed.
