(* DrainLemmas.v — what the channel-draining loop [OrcaSem.drain_res] computes, for the two kinds
   of loop body the orchestrators have; used by gen/OrcasGetLink.v. Generic in the relation [R]
   between programs (instantiated with ProgEq.peq_on and ProgEqX.peqx_on), so nothing here depends on
   the generated code. *)
From Rend Require Import base.Bytes gen.Consts_gen spec.MapSpec orca.Types handlers.Std orca.Orcas orca.Faults orca.OrcaSem orca.ProgEq.
Open Scope N_scope.

Section Drain.
  Variable R : prog -> prog -> Prop.
  Variable S : Type.
  Variable body : gres -> S -> (S -> prog) -> prog.

  (* a body that leaves the loop state alone: whatever it does for one response in front of the
     rest ([step]) is done for each response in turn *)
  Lemma drain_res_steps : forall (step : gres -> prog -> prog),
    (forall g s cont p, R (cont s) p -> R (body g s cont) (step g p)) ->
    forall rs s k p, R (k s) p -> R (drain_res body rs s k) (fold_right step p rs).
  Proof.
    intros step H rs. induction rs as [|g rs IH]; intros s k p Hk; cbn [drain_res fold_right].
    - exact Hk.
    - apply H. apply IH. exact Hk.
  Qed.

  (* a body that reports the hits and collects the misses in the loop state *)
  Lemma drain_res_part : forall (upd : S -> gres -> S),
    (forall g s cont p, g_miss g = true -> R (cont (upd s g)) p -> R (body g s cont) p) ->
    (forall g s cont p, g_miss g = false -> R (cont s) p -> R (body g s cont) (Emit (PGet g) p)) ->
    forall rs s k p, R (k (fold_left upd (filter g_miss rs) s)) p ->
      R (drain_res body rs s k) (emits (map PGet (filter (fun g => negb (g_miss g)) rs)) p).
  Proof.
    intros upd Hm Hh rs. induction rs as [|g rs IH]; intros s k p Hk; cbn [drain_res filter map emits fold_left] in *.
    - exact Hk.
    - destruct (g_miss g) eqn:E; cbn [negb filter map emits fold_left] in *.
      + apply Hm; [exact E|]. apply IH. exact Hk.
      + apply Hh; [exact E|]. apply IH. exact Hk.
  Qed.
End Drain.

(* the model's programs as folds *)
Lemma emits_map_fold : forall (f : gres -> rcall) rs p,
  emits (map f rs) p = fold_right (fun g p => Emit (f g) p) p rs.
Proof. intros f rs p. induction rs as [|g rs IH]; cbn [map emits fold_right]; [reflexivity|]. rewrite IH. reflexivity. Qed.

Lemma backfill_fold : forall rs p,
  l1l2_backfill rs p = fold_right (fun g p => l1l2_backfill [g] p) p rs.
Proof.
  intros rs p. induction rs as [|g rs IH]; [reflexivity|].
  cbn [fold_right]. rewrite <- IH. reflexivity.
Qed.

(* a common.GetRequest's three slices and the model's item list *)
Lemma gitems_of_items : forall items,
  gitems (map gi_key items) (map gi_opaque items) (map gi_quiet items) = items.
Proof. induction items as [|[k o q] r IH]; cbn [map gitems gi_key gi_opaque gi_quiet]; [reflexivity|]. rewrite IH. reflexivity. Qed.

Lemma gitems_of_res : forall rs,
  gitems (map g_key rs) (map g_opaque rs) (map g_quiet rs) = items_of rs.
Proof. unfold items_of. induction rs as [|g r IH]; cbn [map gitems]; [reflexivity|]. rewrite IH. reflexivity. Qed.

(* the slices the first loop of L1L2Orca.Get / L1L2BatchOrca.Get builds with append *)
Definition l2_collect (s : option N * list bytes * list N * list bool) (g : gres) :=
  let '(err, ks, os, qs) := s in (err, ks ++ [g_key g], os ++ [g_opaque g], qs ++ [g_quiet g]).

Lemma l2_collect_fold : forall ms err ks os qs,
  fold_left l2_collect ms (err, ks, os, qs) =
  (err, ks ++ map g_key ms, os ++ map g_opaque ms, qs ++ map g_quiet ms).
Proof.
  induction ms as [|g ms IH]; intros err ks os qs; cbn [fold_left map l2_collect].
  - rewrite !app_nil_r. reflexivity.
  - rewrite IH. rewrite <- !app_assoc. reflexivity.
Qed.

(* ---------------- the hand-written two-tier gets, opened at their handler calls ---------------- *)
(* what [Orcas.l1l2_get] does with the L1 result (responses [rs], error [e1]) ... *)
Definition l1l2_get_l2 (no : N) (ne : bool) (e1 : option N) (rs2 : list gres) (e2 : option N) : prog :=
  l1l2_backfill rs2 (l1l2_get_tail no ne (match e2 with Some e => Some e | None => e1 end)).
Definition l1l2_get_l1 (no : N) (ne : bool) (rs : list gres) (e1 : option N) : prog :=
  emits (map PGet (filter (fun g => negb (g_miss g)) rs))
    (match filter g_miss rs with
     | [] => l1l2_get_tail no ne e1
     | _ => Call L2 (HGetE (items_of (filter g_miss rs))) (fun h2 =>
              l1l2_get_l2 no ne e1 (fst (hvals h2)) (snd (hvals h2)))
     end).
(* ... and [Orcas.l1l2batch_get] *)
Definition l1l2batch_get_l2 (no : N) (ne : bool) (e1 : option N) (rs2 : list gres) (e2 : option N) : prog :=
  emits (map PGet rs2) (l1l2_get_tail no ne (match e2 with Some e => Some e | None => e1 end)).
Definition l1l2batch_get_l1 (no : N) (ne : bool) (rs : list gres) (e1 : option N) : prog :=
  emits (map PGet (filter (fun g => negb (g_miss g)) rs))
    (match filter g_miss rs with
     | [] => l1l2_get_tail no ne e1
     | _ => Call L2 (HGet (items_of (filter g_miss rs))) (fun h2 =>
              l1l2batch_get_l2 no ne e1 (fst (hvals h2)) (snd (hvals h2)))
     end).

Lemma l1l2_get_open : forall items no ne,
  peq_all (l1l2_get items no ne)
          (Call L1 (HGet items) (fun h => l1l2_get_l1 no ne (fst (hvals h)) (snd (hvals h)))).
Proof.
  intros items no ne. unfold l1l2_get. apply PeCall. intros h _.
  assert (E : forall (rs : list gres) (e1 : option N), peq_all
     (emits (map PGet (filter (fun g => negb (g_miss g)) rs))
        match filter g_miss rs with
        | [] => l1l2_get_tail no ne e1
        | _ :: _ => Call L2 (HGetE (items_of (filter g_miss rs))) (fun h2 =>
             let '(rs2, e2) := match h2 with HVals rs e => (rs, e) | HErr e => ([], Some e) | HDone => ([], Some EIO) end in
             let err := match e2 with Some e => Some e | None => e1 end in
             l1l2_backfill rs2 (l1l2_get_tail no ne err))
        end) (l1l2_get_l1 no ne rs e1)).
  { intros rs e1. unfold l1l2_get_l1. generalize (map PGet (filter (fun g => negb (g_miss g)) rs)). intro cs.
    induction cs as [|c cs IH]; cbn [emits]; [|apply PeEmit, IH].
    destruct (filter g_miss rs); [apply peq_all_refl|]. apply PeCall. intros h2 _. destruct h2; apply peq_all_refl. }
  destruct h as [e| |rs e1]; cbn [hvals fst snd]; apply E.
Qed.

Lemma l1l2batch_get_open : forall items no ne,
  peq_all (l1l2batch_get items no ne)
          (Call L1 (HGet items) (fun h => l1l2batch_get_l1 no ne (fst (hvals h)) (snd (hvals h)))).
Proof.
  intros items no ne. unfold l1l2batch_get. apply PeCall. intros h _.
  assert (E : forall (rs : list gres) (e1 : option N), peq_all
     (emits (map PGet (filter (fun g => negb (g_miss g)) rs))
        match filter g_miss rs with
        | [] => l1l2_get_tail no ne e1
        | _ :: _ => Call L2 (HGet (items_of (filter g_miss rs))) (fun h2 =>
             let '(rs2, e2) := match h2 with HVals rs e => (rs, e) | HErr e => ([], Some e) | HDone => ([], Some EIO) end in
             let err := match e2 with Some e => Some e | None => e1 end in
             emits (map PGet rs2) (l1l2_get_tail no ne err))
        end) (l1l2batch_get_l1 no ne rs e1)).
  { intros rs e1. unfold l1l2batch_get_l1. generalize (map PGet (filter (fun g => negb (g_miss g)) rs)). intro cs.
    induction cs as [|c cs IH]; cbn [emits]; [|apply PeEmit, IH].
    destruct (filter g_miss rs); [apply peq_all_refl|]. apply PeCall. intros h2 _. destruct h2; apply peq_all_refl. }
  destruct h as [e| |rs e1]; cbn [hvals fst snd]; apply E.
Qed.
