(* ProgEq.v — equivalence of orchestrator programs (orca/Types.v [prog]) up to handler results
   that cannot occur. [hres] is one type for every handler call, so a continuation also receives
   shapes its call never produces (a set answered with values, a GAT answered with two values);
   two programs are equivalent when they agree on the results that are well-typed for each call.

   peq_on ok   the relation, relative to a predicate [ok q r] on (handler request, result)
   peq         ok := res_ok    (the well-typed results)           — what gen/OrcasLink.v states
   peq_all     ok := anything  (agreement on every result)        — implies peq_on ok for every ok

   Transfer: equivalent programs run identically, for the sequential interpreter [run] under any
   handler semantics producing only ok results ([std_exec] does: hexec_ok_std), and for the
   faulty interpreter [run_f] of orca/Faults.v. *)
From Rend Require Import base.Bytes gen.Consts_gen spec.MapSpec orca.Types handlers.Std orca.Orcas orca.Faults.
Open Scope N_scope.

(* ---------------- well-typed handler results ---------------- *)
Definition res_ok (q : hreq) (r : hres) : Prop :=
  match q with
  | HSet _ _ _ _ _ | HCat _ _ _ | HDelete _ | HTouch _ _ =>
      match r with HDone | HErr _ => True | HVals _ _ => False end
  | HGat _ _ _ =>
      match r with HVals [_] None | HErr _ => True | _ => False end
  | HGet _ | HGetE _ =>
      match r with HVals _ _ | HErr _ => True | HDone => False end
  end.

(* ---------------- the equivalence ---------------- *)
Inductive peq_on (ok : hreq -> hres -> Prop) : prog -> prog -> Prop :=
| PeRet : forall e, peq_on ok (Ret e) (Ret e)
| PeEmit : forall c p p', peq_on ok p p' -> peq_on ok (Emit c p) (Emit c p')
| PeCall : forall t q k k', (forall r, ok q r -> peq_on ok (k r) (k' r)) -> peq_on ok (Call t q k) (Call t q k').

Definition peq : prog -> prog -> Prop := peq_on res_ok.
Definition peq_all : prog -> prog -> Prop := peq_on (fun _ _ => True).

Section Equivalence.
  Variable ok : hreq -> hres -> Prop.

  Lemma peq_on_refl : forall p, peq_on ok p p.
  Proof. induction p; constructor; auto. Qed.

  Lemma peq_on_sym : forall p p', peq_on ok p p' -> peq_on ok p' p.
  Proof. induction 1; constructor; auto. Qed.

  Lemma peq_on_trans : forall p1 p2 p3, peq_on ok p1 p2 -> peq_on ok p2 p3 -> peq_on ok p1 p3.
  Proof.
    intros p1 p2 p3 H. revert p3.
    induction H as [e | c p p' H IH | t q k k' H IH]; intros p3 H23; inversion H23; subst; constructor; auto.
  Qed.

  (* a weaker predicate gives a stronger relation *)
  Lemma peq_on_weaken : forall (ok' : hreq -> hres -> Prop),
    (forall q r, ok' q r -> ok q r) -> forall p p', peq_on ok p p' -> peq_on ok' p p'.
  Proof. intros ok' Hw p p' H. induction H; constructor; auto. Qed.
End Equivalence.

Lemma peq_refl : forall p, peq p p.
Proof. exact (peq_on_refl res_ok). Qed.
Lemma peq_sym : forall p p', peq p p' -> peq p' p.
Proof. exact (peq_on_sym res_ok). Qed.
Lemma peq_trans : forall p1 p2 p3, peq p1 p2 -> peq p2 p3 -> peq p1 p3.
Proof. exact (peq_on_trans res_ok). Qed.

Lemma peq_all_refl : forall p, peq_all p p.
Proof. exact (peq_on_refl _). Qed.
Lemma peq_all_sym : forall p p', peq_all p p' -> peq_all p' p.
Proof. exact (peq_on_sym _). Qed.
Lemma peq_all_trans : forall p1 p2 p3, peq_all p1 p2 -> peq_all p2 p3 -> peq_all p1 p3.
Proof. exact (peq_on_trans _). Qed.

(* agreement on every result is agreement on the well-typed ones (and on any other subset) *)
Lemma peq_all_on : forall ok p p', peq_all p p' -> peq_on ok p p'.
Proof. intros ok p p' H. eapply peq_on_weaken; [|exact H]. intros q r _. exact I. Qed.
Lemma peq_all_peq : forall p p', peq_all p p' -> peq p p'.
Proof. exact (peq_all_on res_ok). Qed.

(* ---------------- transfer to the sequential interpreter ---------------- *)
(* a handler semantics all of whose results satisfy [ok] *)
Definition hexec_sat (ok : hreq -> hres -> Prop) (h : hexec) : Prop :=
  forall s now q, ok q (snd (h s now q)).
Definition hexec_ok : hexec -> Prop := hexec_sat res_ok.

Lemma peq_on_run : forall ok h1 h2, hexec_sat ok h1 -> hexec_sat ok h2 ->
  forall p p', peq_on ok p p' -> forall l1 l2 now, run h1 h2 p l1 l2 now = run h1 h2 p' l1 l2 now.
Proof.
  intros ok h1 h2 H1 H2 p p' H.
  induction H as [e | c p p' H IH | t q k k' H IH]; intros l1 l2 now.
  - reflexivity.
  - cbn [run]. rewrite IH. reflexivity.
  - destruct t; cbn [run].
    + pose proof (H1 l1 now q) as Hok. destruct (h1 l1 now q) as [l1' r]. apply IH. exact Hok.
    + pose proof (H2 l2 now q) as Hok. destruct (h2 l2 now q) as [l2' r]. apply IH. exact Hok.
Qed.

Lemma peq_run : forall h1 h2, hexec_ok h1 -> hexec_ok h2 ->
  forall p p', peq p p' -> forall l1 l2 now, run h1 h2 p l1 l2 now = run h1 h2 p' l1 l2 now.
Proof. exact (peq_on_run res_ok). Qed.

Lemma st_to_hres_shape : forall st, match st_to_hres st with HDone | HErr _ => True | HVals _ _ => False end.
Proof. intro st. unfold st_to_hres. destruct (decode_error st); exact I. Qed.

(* the direct (memcached/std) handler only produces well-typed results *)
Lemma hexec_ok_std : hexec_ok std_exec.
Proof.
  intros s now q. destruct q as [m k d f ttl | fr k d | k | k ttl | items | items | k ttl o]; cbn [std_exec res_ok].
  - destruct (b_set m s now k d f ttl) as [s' st]. apply st_to_hres_shape.
  - destruct (b_cat fr s now k d) as [s' st]. apply st_to_hres_shape.
  - destruct (b_delete s now k) as [s' st]. apply st_to_hres_shape.
  - destruct (b_touch s now k ttl) as [s' st]. apply st_to_hres_shape.
  - exact I.
  - exact I.
  - destruct (b_gat s now k ttl) as [s' o']. exact I.
Qed.

Lemma peq_run_std : forall p p', peq p p' ->
  forall l1 l2 now, run std_exec std_exec p l1 l2 now = run std_exec std_exec p' l1 l2 now.
Proof. exact (peq_run std_exec std_exec hexec_ok_std hexec_ok_std). Qed.

(* ---------------- transfer to the faulty interpreter ---------------- *)
(* every result the faulty handler semantics hands to a continuation satisfies [ok] *)
Definition fexec_sat (ok : hreq -> hres -> Prop) : Prop :=
  forall pl ts now q ts' r, exec_f pl ts now q = (ts', HRes r) -> ok q r.

Lemma peq_on_run_f : forall ok, fexec_sat ok ->
  forall p p', peq_on ok p p' -> forall pl st now, run_f pl p st now = run_f pl p' st now.
Proof.
  intros ok Hf p p' H.
  induction H as [e | c p p' H IH | t q k k' H IH]; intros pl st now.
  - reflexivity.
  - cbn [run_f]. rewrite IH. reflexivity.
  - destruct t; cbn [run_f].
    + destruct (exec_f (pl L1) (f1 st) now q) as [t' o] eqn:E. destruct o as [r|]; [|reflexivity].
      apply IH. exact (Hf _ _ _ _ _ _ E).
    + destruct (exec_f (pl L2) (f2 st) now q) as [t' o] eqn:E. destruct o as [r|]; [|reflexivity].
      apply IH. exact (Hf _ _ _ _ _ _ E).
Qed.

(* programs that agree on every result run identically under every fault plan *)
Lemma peq_all_run_f : forall p p', peq_all p p' ->
  forall pl st now, run_f pl p st now = run_f pl p' st now.
Proof. apply peq_on_run_f. intros pl ts now q ts' r _. exact I. Qed.

(* The faulty semantics is NOT well-typed in the sense of [res_ok]: a GAT answered with an injected
   status that binprot.DecodeError does not know (FStatus st, decode_error st = None) is reported
   as HDone (Faults.exec1). Everything else is: [res_ok_f] adds exactly that case. *)
Definition res_ok_f (q : hreq) (r : hres) : Prop :=
  res_ok q r \/ (match q with HGat _ _ _ => r = HDone | _ => False end).

Lemma std_exec_ok : forall s now q s' r, std_exec s now q = (s', r) -> res_ok q r.
Proof. intros s now q s' r E. pose proof (hexec_ok_std s now q) as H. rewrite E in H. exact H. Qed.

Lemma exec1_ok_f : forall pl ts now q ts' r,
  (match q with HGet _ | HGetE _ => False | _ => True end) ->
  exec1 pl ts now q = (ts', HRes r) -> res_ok_f q r.
Proof.
  intros pl ts now q ts' r Hq E. unfold exec1 in E.
  destruct (t_dead ts).
  { inversion E; subst. left. destruct q; try exact I; contradiction. }
  destruct (pl (t_seen ts)) as [[st | applied | ]|].
  - inversion E; subst. clear E. destruct (decode_error st) as [e|].
    + left. destruct q; try exact I; try contradiction. cbn. destruct (e =? EKeyNotFound); exact I.
    + destruct q; try contradiction; try (left; exact I). right. reflexivity.
  - destruct (is_setfamily q) eqn:Hs; inversion E; subst. left.
    destruct q; try exact I; try contradiction; discriminate Hs.
  - destruct (std_exec (t_store ts) now q) as [s' r'] eqn:Es. inversion E; subst.
    left. eapply std_exec_ok; eauto.
  - destruct (std_exec (t_store ts) now q) as [s' r'] eqn:Es. inversion E; subst.
    left. eapply std_exec_ok; eauto.
Qed.

Lemma exec_get_shape : forall pl gete items ts now acc ts' r,
  exec_get pl gete ts now items acc = (ts', HRes r) -> exists rs eo, r = HVals rs eo.
Proof.
  induction items as [|it rest IH]; intros ts now acc ts' r E; cbn [exec_get] in E.
  - inversion E; eauto.
  - destruct (t_dead ts). { inversion E; eauto. }
    destruct (pl (t_seen ts)) as [[st | applied | ]|].
    + destruct (decode_error st) as [e|].
      * destruct (e =? EKeyNotFound). { eapply IH; eauto. } inversion E; eauto.
      * eapply IH; eauto.
    + inversion E; eauto.
    + eapply IH; eauto.
    + eapply IH; eauto.
Qed.

Lemma fexec_sat_f : fexec_sat res_ok_f.
Proof.
  intros pl ts now q ts' r E. destruct q; cbn [exec_f] in E;
    try (eapply exec1_ok_f; [|exact E]; exact I).
  - left. apply exec_get_shape in E. destruct E as (rs & eo & ->). exact I.
  - left. apply exec_get_shape in E. destruct E as (rs & eo & ->). exact I.
Qed.

Lemma peq_f_run_f : forall p p', peq_on res_ok_f p p' ->
  forall pl st now, run_f pl p st now = run_f pl p' st now.
Proof. exact (peq_on_run_f res_ok_f fexec_sat_f). Qed.
