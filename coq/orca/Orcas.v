(* Orcas.v — orcas/l1only.go, l1l2.go, l1l2batch.go, locked.go as interaction programs,
   call for call. Responder write errors (a failing client socket) are not modelled here. *)
From Rend Require Import base.Bytes gen.Consts_gen spec.MapSpec orca.Types.
Open Scope N_scope.

Definition items_of (rs : list gres) : list gitem :=
  map (fun r => mkGI (g_key r) (g_opaque r) (g_quiet r)) rs.

Fixpoint emits (cs : list rcall) (p : prog) : prog :=
  match cs with [] => p | c :: r => Emit c (emits r p) end.

(* what every orchestrator does with the requests that touch no backend *)
Definition orca_misc (r : req) : prog :=
  match r with
  | RNoop o => Emit (PNoop o) (Ret None)
  | RQuit o q => Emit (PQuit o q) (Ret None)
  | RVersion o => Emit (PVersion o) (Ret None)
  | RStat o => Emit (PStat o) (Ret None)
  | _ => Ret (Some EUnknownCmd)
  end.

(* ---------------- L1Only ---------------- *)
Definition l1only (r : req) : prog :=
  match r with
  | RSet m k d f ttl o q =>
      Call L1 (HSet m k d f ttl) (fun h => match h with
        | HDone => Emit (PStored (rtype r) o q) (Ret None)
        | HErr e => Ret (Some e) | HVals _ _ => Ret (Some EIO) end)
  | RCat fr k d o q =>
      Call L1 (HCat fr k d) (fun h => match h with
        | HDone => Emit (PStored (rtype r) o q) (Ret None)
        | HErr e => Ret (Some e) | HVals _ _ => Ret (Some EIO) end)
  | RDelete k o =>
      Call L1 (HDelete k) (fun h => match h with
        | HDone => Emit (PDelete o) (Ret None)
        | HErr e => Ret (Some e) | HVals _ _ => Ret (Some EIO) end)
  | RTouch k ttl o =>
      Call L1 (HTouch k ttl) (fun h => match h with
        | HDone => Emit (PTouch o) (Ret None)
        | HErr e => Ret (Some e) | HVals _ _ => Ret (Some EIO) end)
  | RGet items no ne =>
      Call L1 (HGet items) (fun h => match h with
        | HVals rs None => emits (map PGet rs) (Emit (PGetEnd no ne) (Ret None))
        | HVals rs (Some e) => emits (map PGet rs) (Ret (Some e))
        | HErr e => Ret (Some e) | HDone => Ret (Some EIO) end)
  | RGetE items no ne =>
      Call L1 (HGetE items) (fun h => match h with
        | HVals rs None => emits (map PGetE rs) (Emit (PGetEnd no ne) (Ret None))
        | HVals rs (Some e) => emits (map PGetE rs) (Ret (Some e))
        | HErr e => Ret (Some e) | HDone => Ret (Some EIO) end)
  | RGat k ttl o =>
      Call L1 (HGat k ttl o) (fun h => match h with
        | HVals [g] None => Emit (PGat g) (Ret None)
        | HErr e => Ret (Some e) | _ => Ret (Some EIO) end)
  | _ => orca_misc r
  end.

(* ---------------- L1L2 ---------------- *)

(* second half of L1L2Orca.Get: every L2 result is reported; a hit is first written to L1
   with the remaining TTL GetE returned (a failing L1 set is compensated by a delete and
   forgotten). *)
Fixpoint l1l2_backfill (rs : list gres) (k : prog) : prog :=
  match rs with
  | [] => k
  | g :: rest =>
      if g_miss g then Emit (PGet g) (l1l2_backfill rest k)
      else Call L1 (HSet MSet (g_key g) (g_data g) (g_flags g) (g_exp g)) (fun h =>
             match h with
             | HDone => Emit (PGet g) (l1l2_backfill rest k)
             | _ => Call L1 (HDelete (g_key g)) (fun _ => Emit (PGet g) (l1l2_backfill rest k))
             end)
  end.

Definition l1l2_get_tail (no : N) (ne : bool) (err : option N) : prog :=
  match err with None => Emit (PGetEnd no ne) (Ret None) | Some e => Ret (Some e) end.

Definition l1l2_get (items : list gitem) (no : N) (ne : bool) : prog :=
  Call L1 (HGet items) (fun h =>
    let '(rs, e1) := match h with HVals rs e => (rs, e) | HErr e => ([], Some e) | HDone => ([], Some EIO) end in
    let hits := filter (fun g => negb (g_miss g)) rs in
    let misses := filter g_miss rs in
    emits (map PGet hits)
      (match misses with
       | [] => l1l2_get_tail no ne e1
       | _ => Call L2 (HGetE (items_of misses)) (fun h2 =>
                let '(rs2, e2) := match h2 with HVals rs e => (rs, e) | HErr e => ([], Some e) | HDone => ([], Some EIO) end in
                (* err: an L2 error wins, otherwise the L1 error (the back-fill has its own variables) *)
                let err := match e2 with Some e => Some e | None => e1 end in
                l1l2_backfill rs2 (l1l2_get_tail no ne err))
       end)).

Definition l1l2 (r : req) : prog :=
  match r with
  | RSet MSet k d f ttl o q =>
      Call L2 (HSet MSet k d f ttl) (fun h => match h with
        | HDone => Call L1 (HSet MSet k d f ttl) (fun h1 => match h1 with
            | HDone => Emit (PStored RtSet o q) (Ret None)
            | _ => Call L1 (HDelete k) (fun _ => Emit (PStored RtSet o q) (Ret None)) end)
        | HErr e => Ret (Some e) | HVals _ _ => Ret (Some EIO) end)
  | RSet MAdd k d f ttl o q =>
      Call L2 (HSet MAdd k d f ttl) (fun h => match h with
        | HDone => Call L1 (HSet MAdd k d f ttl) (fun h1 => match h1 with
            | HDone => Emit (PStored RtAdd o q) (Ret None)
            | HErr e => Ret (Some e) | HVals _ _ => Ret (Some EIO) end)
        | HErr e => Ret (Some e) | HVals _ _ => Ret (Some EIO) end)
  | RSet MReplace k d f ttl o q =>
      Call L2 (HSet MReplace k d f ttl) (fun h => match h with
        | HDone => Call L1 (HSet MReplace k d f ttl) (fun h1 => match h1 with
            | HDone => Emit (PStored RtReplace o q) (Ret None)
            | HErr e => if e =? EKeyNotFound then Emit (PStored RtReplace o q) (Ret None) else Ret (Some e)
            | HVals _ _ => Ret (Some EIO) end)
        | HErr e => Ret (Some e) | HVals _ _ => Ret (Some EIO) end)
  | RCat fr k d o q =>
      Call L2 (HCat fr k d) (fun h => match h with
        | HDone => Call L1 (HCat fr k d) (fun h1 => match h1 with
            | HDone => Emit (PStored (rtype r) o q) (Ret None)
            | HErr e => if (e =? EItemNotStored) || (e =? EKeyNotFound)
                        then Emit (PStored (rtype r) o q) (Ret None) else Ret (Some e)
            | HVals _ _ => Ret (Some EIO) end)
        | HErr e => Ret (Some e) | HVals _ _ => Ret (Some EIO) end)
  | RDelete k o =>
      Call L2 (HDelete k) (fun h => match h with
        | HDone => Call L1 (HDelete k) (fun h1 => match h1 with
            | HDone => Emit (PDelete o) (Ret None)
            | HErr e => if e =? EKeyNotFound then Emit (PDelete o) (Ret None) else Ret (Some e)
            | HVals _ _ => Ret (Some EIO) end)
        | HErr e => Ret (Some e) | HVals _ _ => Ret (Some EIO) end)
  | RTouch k ttl o =>
      Call L2 (HTouch k ttl) (fun h => match h with
        | HDone => Call L1 (HTouch k ttl) (fun h1 => match h1 with
            | HDone => Emit (PTouch o) (Ret None)
            | HErr e => if e =? EKeyNotFound then Emit (PTouch o) (Ret None) else Ret (Some e)
            | HVals _ _ => Ret (Some EIO) end)
        | HErr e => Ret (Some e) | HVals _ _ => Ret (Some EIO) end)
  | RGet items no ne => l1l2_get items no ne
  | RGetE _ _ _ => Ret (Some EUnknownCmd)
  | RGat k ttl o =>
      Call L1 (HGat k ttl o) (fun h => match h with
        | HVals [g] None =>
            if g_miss g then
              Call L2 (HGat k ttl o) (fun h2 => match h2 with
                | HVals [g2] None =>
                    if g_miss g2 then Emit (PGat g2) (Ret None)
                    else Call L1 (HSet MAdd k (g_data g2) (g_flags g2) ttl) (fun h3 => match h3 with
                           | HDone => Emit (PGat g2) (Ret None)
                           | HErr e => if e =? EKeyExists then Emit (PGat g2) (Ret None) else Ret (Some e)
                           | HVals _ _ => Ret (Some EIO) end)
                | HErr e => Ret (Some e) | _ => Ret (Some EIO) end)
            else
              Call L2 (HTouch k ttl) (fun h2 => match h2 with
                | HDone => Emit (PGat g) (Ret None)
                | HErr e => Ret (Some e) | HVals _ _ => Ret (Some EIO) end)
        | HErr e => Ret (Some e) | _ => Ret (Some EIO) end)
  | _ => orca_misc r
  end.

(* ---------------- L1L2Batch ---------------- *)
Definition l1l2batch_get (items : list gitem) (no : N) (ne : bool) : prog :=
  Call L1 (HGet items) (fun h =>
    let '(rs, e1) := match h with HVals rs e => (rs, e) | HErr e => ([], Some e) | HDone => ([], Some EIO) end in
    let hits := filter (fun g => negb (g_miss g)) rs in
    let misses := filter g_miss rs in
    emits (map PGet hits)
      (match misses with
       | [] => l1l2_get_tail no ne e1
       | _ => Call L2 (HGet (items_of misses)) (fun h2 =>
                let '(rs2, e2) := match h2 with HVals rs e => (rs, e) | HErr e => ([], Some e) | HDone => ([], Some EIO) end in
                let err := match e2 with Some e => Some e | None => e1 end in
                emits (map PGet rs2) (l1l2_get_tail no ne err))
       end)).

(* [gat_l1_ttl] is the Exptime of the TouchRequest that L1L2BatchOrca.Gat sends to L1 *)
Definition l1l2batch (r : req) : prog :=
  match r with
  | RSet MSet k d f ttl o q =>
      Call L2 (HSet MSet k d f ttl) (fun h => match h with
        | HDone => Call L1 (HSet MReplace k d f ttl) (fun h1 => match h1 with
            | HDone => Emit (PStored RtSet o q) (Ret None)
            | HErr e => if e =? EKeyNotFound then Emit (PStored RtSet o q) (Ret None)
                        else Call L1 (HDelete k) (fun _ => Emit (PStored RtSet o q) (Ret None))
            | HVals _ _ => Call L1 (HDelete k) (fun _ => Emit (PStored RtSet o q) (Ret None)) end)
        | HErr e => Ret (Some e) | HVals _ _ => Ret (Some EIO) end)
  | RSet m k d f ttl o q =>   (* add, replace: L2 with the same mode, then replace in L1 *)
      Call L2 (HSet m k d f ttl) (fun h => match h with
        | HDone => Call L1 (HSet MReplace k d f ttl) (fun h1 => match h1 with
            | HDone => Emit (PStored (rtype r) o q) (Ret None)
            | HErr e => if e =? EKeyNotFound then Emit (PStored (rtype r) o q) (Ret None) else Ret (Some e)
            | HVals _ _ => Ret (Some EIO) end)
        | HErr e => Ret (Some e) | HVals _ _ => Ret (Some EIO) end)
  | RCat fr k d o q =>
      Call L2 (HCat fr k d) (fun h => match h with
        | HDone => Call L1 (HCat fr k d) (fun h1 => match h1 with
            | HDone => Emit (PStored (rtype r) o q) (Ret None)
            | HErr e => if (e =? EItemNotStored) || (e =? EKeyNotFound)
                        then Emit (PStored (rtype r) o q) (Ret None) else Ret (Some e)
            | HVals _ _ => Ret (Some EIO) end)
        | HErr e => Ret (Some e) | HVals _ _ => Ret (Some EIO) end)
  | RDelete k o =>
      Call L2 (HDelete k) (fun h => match h with
        | HDone => Call L1 (HDelete k) (fun h1 => match h1 with
            | HDone => Emit (PDelete o) (Ret None)
            | HErr e => if e =? EKeyNotFound then Emit (PDelete o) (Ret None) else Ret (Some e)
            | HVals _ _ => Ret (Some EIO) end)
        | HErr e => Ret (Some e) | HVals _ _ => Ret (Some EIO) end)
  | RTouch k ttl o =>
      Call L2 (HTouch k ttl) (fun h => match h with
        | HDone => Call L1 (HTouch k ttl) (fun h1 => match h1 with
            | HDone => Emit (PTouch o) (Ret None)
            | HErr e => if e =? EKeyNotFound then Emit (PTouch o) (Ret None) else Ret (Some e)
            | HVals _ _ => Ret (Some EIO) end)
        | HErr e => Ret (Some e) | HVals _ _ => Ret (Some EIO) end)
  | RGet items no ne => l1l2batch_get items no ne
  | RGetE _ _ _ => Ret (Some EUnknownCmd)
  | RGat k ttl o =>
      Call L2 (HGat k ttl o) (fun h => match h with
        | HVals [g] None =>
            if g_miss g then Emit (PGat g) (Ret None)
            else Call L1 (HTouch k ttl) (fun h1 => match h1 with
                   | HDone => Emit (PGat g) (Ret None)
                   | HErr e => if e =? EKeyNotFound then Emit (PGat g) (Ret None) else Ret (Some e)
                   | HVals _ _ => Ret (Some EIO) end)
        | HErr e => Ret (Some e) | _ => Ret (Some EIO) end)
  | _ => orca_misc r
  end.

(* ---------------- LockedOrca, sequential view ---------------- *)
(* sequencing: run p, and if it returned no error continue with k *)
Fixpoint thenp (p : prog) (k : prog) : prog :=
  match p with
  | Ret None => k
  | Ret (Some e) => Ret (Some e)
  | Call t q f => Call t q (fun h => thenp (f h) k)
  | Emit c p' => Emit c (thenp p' k)
  end.

(* LockedOrca.Get / GetE: one single-key sub-request per key; only the last carries the
   batch's NoopOpaque/NoopEnd; stop at the first error *)
Fixpoint locked_gets (wrapped : req -> prog) (gete : bool) (items : list gitem) (no : N) (ne : bool) : prog :=
  match items with
  | [] => Ret None
  | [it] => wrapped (if gete then RGetE [it] no ne else RGet [it] no ne)
  | it :: rest => thenp (wrapped (if gete then RGetE [it] 0 false else RGet [it] 0 false))
                        (locked_gets wrapped gete rest no ne)
  end.

Definition locked (wrapped : req -> prog) (r : req) : prog :=
  match r with
  | RGet items no ne => locked_gets wrapped false items no ne
  | RGetE items no ne => locked_gets wrapped true items no ne
  | _ => wrapped r
  end.

(* ---------------- server loop: one request ---------------- *)
Inductive conn_state := Open | Closed.

(* DefaultServer.Loop for one parsed request: dispatch, then app error -> Error reply,
   other error -> abort. Returns the responder calls and the connection state. *)
Definition serve1 (h1 h2 : hexec) (orca : req -> prog) (r : req) (l1 l2 : store) (now : N)
  : store * store * list rcall * conn_state :=
  let '(l1', l2', cs, e) := run h1 h2 (orca r) l1 l2 now in
  match r with
  | RQuit _ _ => (l1', l2', cs, Closed)
  | _ => match e with
         | None => (l1', l2', cs, Open)
         | Some err => if is_app_error err
                       then (l1', l2', cs ++ [PError (req_opaque r) (rtype r) err (req_quiet r)], Open)
                       else (l1', l2', cs, Closed)
         end
  end.
