(* FaultLemmas1.v — C10 "contained": whatever the backends answer (any fault plan, any state),
   a request ends with the connection closed or with its own completion / an error reply, and
   every key of a get answered. The argument does not look at plans or stores at all: [outs]
   over-approximates the reply streams of a program under ANY handler results that have the
   shape the std handler can produce (get results = results for a prefix of the keys, complete
   when no error is reported: [get_result_ok], an invariant of [exec_get]). *)
From Rend Require Import base.Bytes gen.Consts_gen spec.MapSpec orca.Types handlers.Std orca.Orcas
  proto.Resp orca.OrcaSpec orca.Faults orca.OrcaProofs.
Open Scope N_scope.

(* ---------------- what a handler can return ---------------- *)
Definition get_result_ok (items : list gitem) (rs : list gres) (e : option N) : Prop :=
  items_of rs = firstn (length rs) items /\ (e = None -> length rs = length items).

Definition res_ok (q : hreq) (h : hres) : Prop :=
  match q with
  | HGet items | HGetE items => exists rs e, h = HVals rs e /\ get_result_ok items rs e
  | _ => True
  end.

Lemma item_of_std s now w it :
  mkGI (g_key (std_get1 s now w it)) (g_opaque (std_get1 s now w it)) (g_quiet (std_get1 s now w it)) = it.
Proof. destruct it as [k o q]. unfold std_get1. destruct (gb_get s now _); reflexivity. Qed.
Lemma item_of_miss it : mkGI (g_key (miss_res it)) (g_opaque (miss_res it)) (g_quiet (miss_res it)) = it.
Proof. destruct it; reflexivity. Qed.

Lemma gro_cons it rest x rs e :
  mkGI (g_key x) (g_opaque x) (g_quiet x) = it -> get_result_ok rest rs e -> get_result_ok (it :: rest) (x :: rs) e.
Proof.
  intros E [A B]. split.
  - cbn [items_of map length firstn]. fold (items_of rs). rewrite E, A. reflexivity.
  - intros H. cbn [length]. rewrite (B H). reflexivity.
Qed.
Lemma gro_nil_err items e : get_result_ok items [] (Some e).
Proof. split; [reflexivity|discriminate]. Qed.

Lemma exec_get_ok pl gete now : forall items ts acc t' o,
  exec_get pl gete ts now items acc = (t', o) ->
  exists rs e, o = HRes (HVals (rev acc ++ rs) e) /\ get_result_ok items rs e.
Proof.
  induction items as [|it rest IH]; intros ts acc t' o H; cbn [exec_get] in H.
  - inversion H; subst. exists [], None. rewrite app_nil_r. split; [reflexivity|]. split; reflexivity.
  - assert (R : forall x ts0, mkGI (g_key x) (g_opaque x) (g_quiet x) = it ->
                exec_get pl gete ts0 now rest (x :: acc) = (t', o) ->
                exists rs e, o = HRes (HVals (rev acc ++ rs) e) /\ get_result_ok (it :: rest) rs e).
    { intros x ts0 Ex E. apply IH in E. destruct E as (rs & e & -> & G).
      exists (x :: rs), e. split; [cbn [rev]; rewrite <- app_assoc; reflexivity|]. apply gro_cons; assumption. }
    assert (S : forall tx e, (tx, HRes (HVals (rev acc) (Some e))) = (t', o) ->
                exists rs e, o = HRes (HVals (rev acc ++ rs) e) /\ get_result_ok (it :: rest) rs e).
    { intros tx e E. inversion E; subst. exists [], (Some e). rewrite app_nil_r. split; [reflexivity|apply gro_nil_err]. }
    destruct (t_dead ts); [eapply S; eauto|].
    destruct (pl (t_seen ts)) as [[st|ap|]|].
    + destruct (decode_error st) as [e|].
      * destruct (e =? EKeyNotFound); [eapply R; eauto using item_of_miss | eapply S; eauto].
      * eapply R; eauto using item_of_std.
    + eapply S; eauto.
    + eapply R; eauto using item_of_std.
    + eapply R; eauto using item_of_std.
Qed.

Lemma exec_f_ok pl ts now q t' h : exec_f pl ts now q = (t', HRes h) -> res_ok q h.
Proof.
  intros H. destruct q; cbn [res_ok]; auto; cbn [exec_f] in H;
    apply exec_get_ok in H; destruct H as (rs & e & E & G); inversion E; subst; cbn [rev app]; eauto.
Qed.

(* ---------------- possible reply streams ---------------- *)
Inductive outs : prog -> list rcall -> option N -> Prop :=
| o_ret e : outs (Ret e) [] e
| o_call t q k h cs e : res_ok q h -> outs (k h) cs e -> outs (Call t q k) cs e
| o_emit c p cs e : outs p cs e -> outs (Emit c p) (c :: cs) e.

Lemma run_f_outs pl now : forall p st st' cs e, run_f pl p st now = (st', cs, FRet e) -> outs p cs e.
Proof.
  induction p as [e0|t q k IH|c p IH]; intros st st' cs e H.
  - cbn [run_f] in H. inversion H; subst. constructor.
  - destruct t; cbn [run_f] in H.
    + destruct (exec_f (pl L1) (f1 st) now q) as [t' o] eqn:E. destruct o as [h|]; [|discriminate H].
      eapply o_call; [eapply exec_f_ok; eauto | eapply IH; eauto].
    + destruct (exec_f (pl L2) (f2 st) now q) as [t' o] eqn:E. destruct o as [h|]; [|discriminate H].
      eapply o_call; [eapply exec_f_ok; eauto | eapply IH; eauto].
  - cbn [run_f] in H. destruct (run_f pl p st now) as [[s' cs'] e'] eqn:E. inversion H; subst.
    constructor. eapply IH; eauto.
Qed.

Lemma outs_emits l p cs e : outs (emits l p) cs e -> exists cs', cs = l ++ cs' /\ outs p cs' e.
Proof.
  revert cs. induction l as [|c l IH]; intros cs H; cbn [emits] in H.
  - exists cs. auto.
  - inversion H; subst. destruct (IH _ H4) as (cs' & -> & O). exists cs'. auto.
Qed.

Lemma outs_thenp k e : forall p cs, outs (thenp p k) cs e ->
  (exists x, e = Some x /\ outs p cs (Some x)) \/
  (exists cs1 cs2, outs p cs1 None /\ outs k cs2 e /\ cs = cs1 ++ cs2).
Proof.
  induction p as [e0|t q f IH|c p IH]; intros cs H.
  - destruct e0 as [x|]; cbn [thenp] in H.
    + inversion H; subst. left. exists x. split; [reflexivity|constructor].
    + right. exists [], cs. split; [constructor|]. auto.
  - cbn [thenp] in H. inversion H; subst. cbv beta in *.
    destruct (IH _ _ H6) as [(x & -> & O)|(cs1 & cs2 & O1 & O2 & ->)].
    + left. exists x. split; [reflexivity|]. econstructor; eauto.
    + right. exists cs1, cs2. split; [econstructor; eauto|]. auto.
  - cbn [thenp] in H. inversion H; subst.
    destruct (IH _ H4) as [(x & -> & O)|(cs1 & cs2 & O1 & O2 & ->)].
    + left. exists x. split; [reflexivity|]. constructor; auto.
    + right. exists (c :: cs1), cs2. split; [constructor; auto|]. auto.
Qed.

Lemma outs_backfill k e : forall rs cs, outs (l1l2_backfill rs k) cs e ->
  exists cs', cs = map PGet rs ++ cs' /\ outs k cs' e.
Proof.
  induction rs as [|g rest IH]; intros cs H; cbn [l1l2_backfill] in H.
  - exists cs. auto.
  - assert (E : forall cs0, outs (Emit (PGet g) (l1l2_backfill rest k)) cs0 e ->
                exists cs', cs0 = map PGet (g :: rest) ++ cs' /\ outs k cs' e).
    { intros cs0 H0. inversion H0; subst. destruct (IH _ H5) as (cs' & -> & O). exists cs'. auto. }
    destruct (g_miss g); [apply E; exact H|].
    inversion H; subst. cbv beta in *. destruct h; [|apply E; assumption|];
      (match goal with X : outs (Call _ _ _) _ _ |- _ => inversion X; subst end; apply E; assumption).
Qed.

(* ---------------- gets: every key answered ---------------- *)
Definition covered (it : gitem) (cs : list rcall) : Prop :=
  exists g, (In (PGet g) cs \/ In (PGetE g) cs) /\ g_key g = gi_key it /\ g_opaque g = gi_opaque it.

Lemma covered_app_l it a b : covered it a -> covered it (a ++ b).
Proof. intros (g & [I|I] & K); exists g; (split; [|exact K]); [left|right]; apply in_or_app; auto. Qed.
Lemma covered_app_r it a b : covered it b -> covered it (a ++ b).
Proof. intros (g & [I|I] & K); exists g; (split; [|exact K]); [left|right]; apply in_or_app; auto. Qed.

Lemma items_of_in it rs : In it (items_of rs) ->
  exists g, In g rs /\ g_key g = gi_key it /\ g_opaque g = gi_opaque it.
Proof.
  unfold items_of. intros H. apply in_map_iff in H. destruct H as (g & <- & I). exists g. auto.
Qed.
Lemma in_items_of g rs : In g rs -> In (mkGI (g_key g) (g_opaque g) (g_quiet g)) (items_of rs).
Proof. intros H. unfold items_of. apply in_map_iff. exists g. auto. Qed.

Lemma full_items items rs : get_result_ok items rs None -> items_of rs = items.
Proof. intros [A B]. rewrite A, (B eq_refl). apply firstn_all. Qed.

Definition getspec (items : list gitem) (no : N) (ne : bool) (cs : list rcall) : Prop :=
  exists body, cs = body ++ [PGetEnd no ne] /\ forall it, In it items -> covered it body.

Lemma outs_tail no ne err cs : outs (l1l2_get_tail no ne err) cs None -> err = None /\ cs = [PGetEnd no ne].
Proof.
  destruct err as [x|]; cbn [l1l2_get_tail]; intros H; inversion H; subst.
  inversion H4; subst. auto.
Qed.

Lemma l1only_get_outs gete items no ne cs :
  outs (l1only (mkget gete items no ne)) cs None -> getspec items no ne cs.
Proof.
  intros H.
  assert (G : forall (P : gres -> rcall), (forall g, P g = PGet g) \/ (forall g, P g = PGetE g) ->
     forall h, (exists rs e, h = HVals rs e /\ get_result_ok items rs e) ->
     outs (match h with
           | HVals rs None => emits (map P rs) (Emit (PGetEnd no ne) (Ret None))
           | HVals rs (Some e) => emits (map P rs) (Ret (Some e))
           | HErr e => Ret (Some e) | HDone => Ret (Some EIO) end) cs None -> getspec items no ne cs).
  { intros P HP h (rs & e & -> & G) O. destruct e as [x|].
    - apply outs_emits in O. destruct O as (cs' & _ & O). inversion O.
    - apply outs_emits in O. destruct O as (cs' & -> & O). inversion O; subst. inversion H4; subst.
      exists (map P rs). split; [reflexivity|]. intros it I. rewrite <- (full_items _ _ G) in I.
      apply items_of_in in I. destruct I as (g & I & K). exists g. split; [|exact K].
      destruct HP as [HP|HP]; [left|right]; rewrite <- HP; apply in_map; exact I. }
  destruct gete; cbn [mkget l1only] in H; inversion H; subst; cbv beta in *.
  - eapply (G PGetE); eauto.
  - eapply (G PGet); eauto.
Qed.

(* the two-tier gets share everything but how the L2 results are emitted *)
Lemma two_tier_get_outs items no ne cs (wrap : list gres -> prog -> prog) q2 :
  (forall rs k cs e, outs (wrap rs k) cs e -> exists cs', cs = map PGet rs ++ cs' /\ outs k cs' e) ->
  (forall its, res_ok (q2 its) = res_ok (HGet its)) ->
  outs (Call L1 (HGet items) (fun h =>
    let '(rs, e1) := match h with HVals rs e => (rs, e) | HErr e => ([], Some e) | HDone => ([], Some EIO) end in
    let hits := filter (fun g => negb (g_miss g)) rs in
    let misses := filter g_miss rs in
    emits (map PGet hits)
      (match misses with
       | [] => l1l2_get_tail no ne e1
       | _ => Call L2 (q2 (items_of misses)) (fun h2 =>
                let '(rs2, e2) := match h2 with HVals rs e => (rs, e) | HErr e => ([], Some e) | HDone => ([], Some EIO) end in
                let err := match e2 with Some e => Some e | None => e1 end in
                wrap rs2 (l1l2_get_tail no ne err))
       end))) cs None -> getspec items no ne cs.
Proof.
  intros W Q H. inversion H; subst. clear H. destruct H5 as (rs & e1 & -> & G1). cbv beta iota zeta in H6.
  apply outs_emits in H6. destruct H6 as (cs' & -> & O).
  destruct (filter g_miss rs) as [|m ms] eqn:Em.
  - apply outs_tail in O. destruct O as [-> ->].
    exists (map PGet (filter (fun g => negb (g_miss g)) rs)). split; [reflexivity|].
    intros it I. rewrite <- (full_items _ _ G1) in I. apply items_of_in in I. destruct I as (g & I & K).
    exists g. split; [|exact K]. left. apply in_map. apply filter_In. split; [exact I|].
    destruct (g_miss g) eqn:M; [|reflexivity].
    assert (X : In g (filter g_miss rs)) by (apply filter_In; auto). rewrite Em in X. destruct X.
  - inversion O; subst. clear O. rewrite Q in H4. destruct H4 as (rs2 & e2 & -> & G2). cbv beta iota zeta in H5.
    apply W in H5. destruct H5 as (cs'' & -> & O). apply outs_tail in O. destruct O as [E ->].
    destruct e2 as [x|]; [discriminate E|]. subst e1.
    exists (map PGet (filter (fun g => negb (g_miss g)) rs) ++ map PGet rs2).
    split; [rewrite <- app_assoc; reflexivity|].
    intros it I. rewrite <- (full_items _ _ G1) in I. apply items_of_in in I. destruct I as (g & I & K & K').
    destruct (g_miss g) eqn:M.
    + apply covered_app_r.
      assert (X : In g (m :: ms)) by (rewrite <- Em; apply filter_In; auto).
      apply in_items_of in X.
      assert (X2 : In (mkGI (g_key g) (g_opaque g) (g_quiet g)) (items_of rs2))
        by (rewrite (full_items _ _ G2); exact X).
      clear X. rename X2 into X. apply items_of_in in X.
      destruct X as (g2 & I2 & K2 & K2'). cbn [gi_key gi_opaque] in K2, K2'.
      exists g2. split; [left; apply in_map; exact I2|]. split; congruence.
    + apply covered_app_l. exists g. split; [|auto]. left. apply in_map. apply filter_In. rewrite M. auto.
Qed.

Lemma l1l2_get_outs items no ne cs : outs (l1l2_get items no ne) cs None -> getspec items no ne cs.
Proof.
  intros H. apply (two_tier_get_outs items no ne cs l1l2_backfill HGetE); [|reflexivity|exact H].
  intros rs k cs0 e O. apply outs_backfill. exact O.
Qed.
Lemma l1l2batch_get_outs items no ne cs : outs (l1l2batch_get items no ne) cs None -> getspec items no ne cs.
Proof.
  intros H. apply (two_tier_get_outs items no ne cs (fun rs k => emits (map PGet rs) k) HGet); [|reflexivity|exact H].
  intros rs k cs0 e O. apply outs_emits. exact O.
Qed.

Lemma base_get_outs k gete items no ne cs :
  outs (base_orca k (mkget gete items no ne)) cs None -> getspec items no ne cs.
Proof.
  destruct k; cbn [base_orca].
  - apply l1only_get_outs.
  - destruct gete; cbn [mkget l1l2]; [intros H; inversion H | apply l1l2_get_outs].
  - destruct gete; cbn [mkget l1l2batch]; [intros H; inversion H | apply l1l2batch_get_outs].
Qed.

Lemma locked_gets_outs k gete : forall items no ne cs, items <> [] ->
  outs (locked_gets (base_orca k) gete items no ne) cs None -> getspec items no ne cs.
Proof.
  induction items as [|it rest IH]; intros no ne cs Hne H; [congruence|].
  destruct rest as [|it2 rest].
  - cbn [locked_gets] in H. change (if gete then RGetE [it] no ne else RGet [it] no ne) with (mkget gete [it] no ne) in H.
    apply base_get_outs in H. exact H.
  - change (locked_gets (base_orca k) gete (it :: it2 :: rest) no ne)
      with (thenp (base_orca k (mkget gete [it] 0 false)) (locked_gets (base_orca k) gete (it2 :: rest) no ne)) in H.
    apply outs_thenp in H. destruct H as [(x & E & _)|(cs1 & cs2 & O1 & O2 & ->)]; [discriminate E|].
    apply base_get_outs in O1. destruct O1 as (b1 & -> & C1).
    apply IH in O2; [|discriminate]. destruct O2 as (b2 & -> & C2).
    exists ((b1 ++ [PGetEnd 0 false]) ++ b2). split; [rewrite app_assoc; reflexivity|].
    intros x [<-|I].
    + apply covered_app_l, covered_app_l. apply C1. left. reflexivity.
    + apply covered_app_r. apply C2. exact I.
Qed.

Lemma covered_gka items cs :
  (forall it, In it items -> covered it cs) ->
  forallb (fun it => gi_quiet it ||
     existsb (fun c => match c with
                       | PGet g | PGetE g => (g_opaque g =? gi_opaque it) && bytes_eqb (g_key g) (gi_key it)
                       | _ => false end) cs) items = true.
Proof.
  intros H. apply forallb_forall. intros it I. destruct (H it I) as (g & J & K & O).
  apply orb_true_iff. right. apply existsb_exists.
  destruct J as [J|J]; [exists (PGet g)|exists (PGetE g)]; (split; [exact J|]);
    rewrite O, K, N.eqb_refl, bytes_eqb_refl; reflexivity.
Qed.

Lemma getspec_post gete items no ne cs : getspec items no ne cs ->
  answered (mkget gete items no ne) cs = true /\ get_keys_answered (mkget gete items no ne) cs = true.
Proof.
  intros (body & -> & C). split.
  - unfold answered. rewrite rev_unit. destruct gete; reflexivity.
  - assert (X := covered_gka items (body ++ [PGetEnd no ne]) (fun it I => covered_app_l _ _ _ (C it I))).
    destruct gete; cbn [mkget get_keys_answered]; rewrite X; apply orb_true_r.
Qed.

(* ---------------- everything that is not a get ---------------- *)
Ltac inv_outs :=
  repeat match goal with
  | H : outs (Ret _) _ _ |- _ => inversion H; subst; clear H
  | H : outs (Emit _ _) _ _ |- _ => inversion H; subst; clear H
  | H : outs (Call _ _ _) _ _ |- _ => inversion H; subst; clear H
  | H : outs ((fun _ => _) _) _ _ |- _ => cbv beta in H
  | H : outs (match ?x with _ => _ end) _ _ |- _ => destruct x
  end.

Lemma nonget_outs k r cs : is_get r = false -> outs (base_orca k r) cs None ->
  answered r cs = true /\ get_keys_answered r cs = true.
Proof.
  intros Hg H.
  destruct r as [m ? ? ? ? ? ?|fr ? ? ? ?| | | | | | | | | |]; try discriminate Hg; try destruct m;
    destruct k; cbn [base_orca l1only l1l2 l1l2batch orca_misc rtype] in H; inv_outs; split; reflexivity.
Qed.

Lemma outs_post k lck r cs : combo_ok Bin lck r = true -> outs (orca_cfg k lck r) cs None ->
  answered r cs = true /\ get_keys_answered r cs = true.
Proof.
  intros Hc H. destruct (is_get r) eqn:Hg.
  - assert (G : exists gete items no ne, r = mkget gete items no ne).
    { destruct r; try discriminate Hg; [exists false|exists true]; eauto. }
    destruct G as (gete & items & no & ne & ->). apply getspec_post.
    destruct lck; cbn [orca_cfg] in H.
    + assert (L : locked (base_orca k) (mkget gete items no ne) = locked_gets (base_orca k) gete items no ne)
        by (destruct gete; reflexivity).
      rewrite L in H. eapply locked_gets_outs; eauto. eapply combo_items; eauto.
    + eapply base_get_outs; eauto.
  - rewrite (nonget_cfg k lck r Hg) in H. apply (nonget_outs k); assumption.
Qed.

Lemma answered_err r cs o rt e q : answered r (cs ++ [PError o rt e q]) = true.
Proof. unfold answered. rewrite rev_unit. cbn [is_errreply]. apply orb_true_r. Qed.
Lemma gka_err r cs o rt e q : get_keys_answered r (cs ++ [PError o rt e q]) = true.
Proof.
  destruct r; try reflexivity; cbn [get_keys_answered]; rewrite existsb_app; cbn [existsb is_errreply];
    rewrite orb_true_r; reflexivity.
Qed.

(* Contained. In-scope is not needed; the one exclusion is the get without any key through
   the locking wrapper (which writes nothing at all: [combo_ok Bin]). *)
Lemma contained_core pl k lck r st now : combo_ok Bin lck r = true ->
  let '(_, cs, c) := serve1_f pl (orca_cfg k lck) r st now in
  c = Closed \/ (answered r cs = true /\ get_keys_answered r cs = true).
Proof.
  intros Hc. unfold serve1_f. destruct (run_f pl (orca_cfg k lck r) st now) as [[st' cs] e] eqn:R.
  destruct e as [e'|]; [|left; reflexivity]. apply run_f_outs in R.
  assert (Q : (exists o q, r = RQuit o q) \/
              (forall (x y : fstate * list rcall * conn_state), match r with RQuit _ _ => x | _ => y end = y)).
  { destruct r; try (right; reflexivity). left; eauto. }
  destruct Q as [(o & q & ->)|Q]; [left; reflexivity|]. rewrite Q.
  destruct e' as [err|].
  - destruct (is_app_error err); [right|left; reflexivity]. split; [apply answered_err|apply gka_err].
  - right. eapply (outs_post k lck); eauto.
Qed.
