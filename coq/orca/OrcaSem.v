(* OrcaSem.v — the few helpers the orchestrator methods translated from /repo's source
   (gen/Orcas_gen.v, written by `rendharness orctrans`) are made of. Definitions only.

   A Go `error` variable is an [option N] (None = nil, Some e = the error numbered e in
   gen/Consts_gen.v, EIO for anything that is not one of the common.ErrXxx values). A handler call that returns
   an error binds it; GAT binds a common.GetResponse and an error. A handler result of the wrong
   shape for the call (hres is one type for all calls) is read as an I/O error: the generated
   programs are total, and gen/OrcasLink.v only needs them on well-shaped results. *)
From Rend Require Import base.Bytes gen.Consts_gen spec.MapSpec orca.Types.
Open Scope N_scope.

(* err == nil, err != nil, err == common.ErrX *)
Definition err_nil (e : option N) : bool := match e with None => true | Some _ => false end.
Definition err_nonnil (e : option N) : bool := negb (err_nil e).
Definition err_is (e : option N) (c : N) : bool := match e with Some x => x =? c | None => false end.

(* the zero value of common.GetResponse (what GAT returns next to a non-nil error) *)
Definition gres_zero : gres := mkGR [] [] 0 0 0 false false.

(* `err := l.lN.Set(req)` and the other calls that return just an error *)
Definition herr (h : hres) : option N :=
  match h with HDone => None | HErr e => Some e | HVals _ _ => Some EIO end.
(* `res, err := l.lN.GAT(req)` *)
Definition hgat (h : hres) : gres * option N :=
  match h with
  | HVals [g] None => (g, None)
  | HErr e => (gres_zero, Some e)
  | _ => (gres_zero, Some EIO)
  end.

Definition call_err (t : tier) (q : hreq) (k : option N -> prog) : prog :=
  Call t q (fun h => k (herr h)).
Definition call_gat (t : tier) (q : hreq) (k : gres -> option N -> prog) : prog :=
  Call t q (fun h => k (fst (hgat h)) (snd (hgat h))).
(* `err = l.res.Set(...)`: the responder call happens; its own (socket write) error is not
   modelled, so the variable becomes nil *)
Definition emit_err (c : rcall) (k : option N -> prog) : prog := Emit c (k None).

(* ---------------- Get / GetE: the channel-draining loop ----------------
   `resChan, errChan := l.lN.Get(req)` followed by

       for {
         select {
         case res, ok := <-resChan:    if !ok { resChan = nil } else { BODY }
         case getErr, ok := <-errChan: if !ok { errChan = nil } else { ONERR }
         }
         if resChan == nil && errChan == nil { break }
       }

   THE HANDLER CONTRACT (handlers/types.go, restated in the comment above each of these loops): the
   handler sends its responses in order on the first channel, then at most one error on the second,
   after which no more responses come, and closes both. That is exactly the shape of the model's
   handler result [HVals rs eo]. Under the contract the loop is: BODY for each response in order,
   then ONERR if there is an error — [drain]. The contract is a hypothesis, not a consequence of
   Go's channel semantics: the two channels are independent, and with a buffered response channel
   (handlers/inmem) a `select` may take a pending error before responses that were sent earlier;
   the assumed receive order is: every response, in the order of [rs], before the error. (The
   discovery that a channel is closed only sets the channel variable to nil and can come in any
   order.) A result that is not a list of values is read like everywhere else: an error return is no values and that error,
   anything else no values and an I/O error.

   The loop's state [S] is the tuple of the variables declared outside the loop that BODY or ONERR
   assign; BODY and ONERR are in continuation-passing form like everything else (they may make
   handler calls: the back-fill of L1L2Orca.Get). *)
Definition hvals (h : hres) : list gres * option N :=
  match h with HVals rs e => (rs, e) | HErr e => ([], Some e) | HDone => ([], Some EIO) end.

Fixpoint drain_res {S : Type} (body : gres -> S -> (S -> prog) -> prog) (rs : list gres) (s : S)
    (k : S -> prog) : prog :=
  match rs with
  | [] => k s
  | g :: rest => body g s (fun s' => drain_res body rest s' k)
  end.

Definition drain_end {S : Type} (onerr : option N -> S -> (S -> prog) -> prog) (eo : option N) (s : S)
    (k : S -> prog) : prog :=
  match eo with None => k s | Some e => onerr (Some e) s k end.

Definition drain {S : Type} (t : tier) (q : hreq) (s0 : S)
    (body : gres -> S -> (S -> prog) -> prog) (onerr : option N -> S -> (S -> prog) -> prog)
    (k : S -> prog) : prog :=
  Call t q (fun h => drain_res body (fst (hvals h)) s0 (fun s => drain_end onerr (snd (hvals h)) s k)).

(* common.GetRequest: three parallel slices Keys / Opaques / Quiet. The handlers index all three by
   the position of the key (a shorter Opaques or Quiet slice is an index-out-of-range panic there;
   here the list is cut at the shortest: the link lemmas only meet slices of equal length). *)
Fixpoint gitems (ks : list bytes) (os : list N) (qs : list bool) : list gitem :=
  match ks, os, qs with
  | k :: ks', o :: os', q :: qs' => mkGI k o q :: gitems ks' os' qs'
  | _, _, _ => []
  end.

(* len(x) == 0 *)
Definition is_empty {A : Type} (l : list A) : bool := match l with [] => true | _ => false end.
