(* OrcaSem.v — the few helpers the orchestrator methods translated from /repo's source
   (gen/Orcas_gen.v, written by `rendharness orctrans`) are made of. Definitions only.

   A Go `error` variable is an [option N] (None = nil, Some e = the error numbered e in
   gen/Consts_gen.v, EIO for anything that is not one of the common.ErrXxx values). A handler call that returns
   an error binds it; GAT binds a common.GetResponse and an error. A handler result of the wrong
   shape for the call (hres is one type for all calls) is read as an I/O error: the generated
   programs are total, and gen/OrcasLink.v only needs them on well-shaped results. *)
From Rend Require Import base.Bytes gen.Consts_gen spec.MapSpec orca.Types.
Open Scope N_scope.

(* err == nil, err != nil, err == common.ErrX *)
Definition err_nil (e : option N) : bool := match e with None => true | Some _ => false end.
Definition err_nonnil (e : option N) : bool := negb (err_nil e).
Definition err_is (e : option N) (c : N) : bool := match e with Some x => x =? c | None => false end.

(* the zero value of common.GetResponse (what GAT returns next to a non-nil error) *)
Definition gres_zero : gres := mkGR [] [] 0 0 0 false false.

(* `err := l.lN.Set(req)` and the other calls that return just an error *)
Definition herr (h : hres) : option N :=
  match h with HDone => None | HErr e => Some e | HVals _ _ => Some EIO end.
(* `res, err := l.lN.GAT(req)` *)
Definition hgat (h : hres) : gres * option N :=
  match h with
  | HVals [g] None => (g, None)
  | HErr e => (gres_zero, Some e)
  | _ => (gres_zero, Some EIO)
  end.

Definition call_err (t : tier) (q : hreq) (k : option N -> prog) : prog :=
  Call t q (fun h => k (herr h)).
Definition call_gat (t : tier) (q : hreq) (k : gres -> option N -> prog) : prog :=
  Call t q (fun h => k (fst (hgat h)) (snd (hgat h))).
(* `err = l.res.Set(...)`: the responder call happens; its own (socket write) error is not
   modelled, so the variable becomes nil *)
Definition emit_err (c : rcall) (k : option N -> prog) : prog := Emit c (k None).
