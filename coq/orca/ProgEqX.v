(* ProgEqX.v — program equivalence up to the one field of the model's get result that the Go type
   handed to the responder does not have.

   The model has ONE record [gres] for common.GetResponse and common.GetEResponse; only the latter
   has an Exptime ([g_exp]). protocol.Responder.Get and .GAT take a common.GetResponse, so the
   [g_exp] inside a [PGet g] / [PGat g] stands for nothing in the implementation (and no renderer
   looks at it: [render_erase]). The hand-written L1L2 get hands the whole L2 GetE result to [PGet];
   L1L2Orca.Get builds a common.GetResponse from its fields — the translated program emits
   [PGet (mkGR .. 0 ..)]. The two are the same responder call; [rc_erase] says so, [peqx_on] is
   [ProgEq.peq_on] with "the same responder call" read through it.

   Definitions, the equivalence laws and the transfer lemmas to [run] and [run_f] (results equal up
   to [rc_erase], hence equal bytes on the wire in both protocols). Like orca/ProgEq.v this file
   holds the relation together with its (generic) lemmas; nothing here depends on generated code. *)
From Rend Require Import base.Bytes gen.Consts_gen spec.MapSpec orca.Types handlers.Std orca.Orcas orca.Faults
  orca.OrcaSem orca.ProgEq proto.Resp.
Open Scope N_scope.

(* forget the Exptime of a value handed to Responder.Get / Responder.GAT *)
Definition g_noexp (g : gres) : gres :=
  mkGR (g_key g) (g_data g) (g_flags g) 0 (g_opaque g) (g_quiet g) (g_miss g).
Definition rc_erase (c : rcall) : rcall :=
  match c with PGet g => PGet (g_noexp g) | PGat g => PGat (g_noexp g) | _ => c end.

Inductive peqx_on (ok : hreq -> hres -> Prop) : prog -> prog -> Prop :=
| PxRet : forall e, peqx_on ok (Ret e) (Ret e)
| PxEmit : forall c c' p p', rc_erase c = rc_erase c' -> peqx_on ok p p' -> peqx_on ok (Emit c p) (Emit c' p')
| PxCall : forall t q k k', (forall r, ok q r -> peqx_on ok (k r) (k' r)) -> peqx_on ok (Call t q k) (Call t q k').

Definition peqx : prog -> prog -> Prop := peqx_on res_ok.
Definition peqx_all : prog -> prog -> Prop := peqx_on (fun _ _ => True).

Lemma peq_on_peqx_on : forall ok p p', peq_on ok p p' -> peqx_on ok p p'.
Proof. intros ok p p' H. induction H; constructor; auto. Qed.

Lemma peq_all_peqx_all : forall p p', peq_all p p' -> peqx_all p p'.
Proof. exact (peq_on_peqx_on _). Qed.

Section Equivalence.
  Variable ok : hreq -> hres -> Prop.

  Lemma peqx_on_refl : forall p, peqx_on ok p p.
  Proof. induction p; constructor; auto. Qed.

  Lemma peqx_on_sym : forall p p', peqx_on ok p p' -> peqx_on ok p' p.
  Proof. induction 1; constructor; auto. Qed.

  Lemma peqx_on_trans : forall p1 p2 p3, peqx_on ok p1 p2 -> peqx_on ok p2 p3 -> peqx_on ok p1 p3.
  Proof.
    intros p1 p2 p3 H. revert p3.
    induction H as [e | c c' p p' Hc H IH | t q k k' H IH]; intros p3 H23; inversion H23; subst; constructor; auto.
    congruence.
  Qed.

  Lemma peqx_on_weaken : forall (ok' : hreq -> hres -> Prop),
    (forall q r, ok' q r -> ok q r) -> forall p p', peqx_on ok p p' -> peqx_on ok' p p'.
  Proof. intros ok' Hw p p' H. induction H; constructor; auto. Qed.

  (* responder calls in front *)
  Lemma peqx_on_emits : forall cs p p', peqx_on ok p p' -> peqx_on ok (emits cs p) (emits cs p').
  Proof. induction cs as [|c cs IH]; intros p p' H; cbn [emits]; [exact H|]. constructor; auto. Qed.
End Equivalence.

Lemma peqx_all_on : forall ok p p', peqx_all p p' -> peqx_on ok p p'.
Proof. intros ok p p' H. eapply peqx_on_weaken; [|exact H]. intros q r _. exact I. Qed.
Lemma peqx_all_peqx : forall p p', peqx_all p p' -> peqx p p'.
Proof. exact (peqx_all_on res_ok). Qed.

(* ---------------- no renderer sees the difference ---------------- *)
Lemma render_erase : forall pr c, render pr (rc_erase c) = render pr c.
Proof. intros [|] [] ; reflexivity. Qed.

Lemma render_all_erase : forall pr cs, render_all pr (map rc_erase cs) = render_all pr cs.
Proof.
  intros pr cs. unfold render_all. rewrite map_map. f_equal. apply map_ext. intro c. apply render_erase.
Qed.

Lemma erase_eq_render_all : forall pr cs cs', map rc_erase cs = map rc_erase cs' -> render_all pr cs = render_all pr cs'.
Proof. intros pr cs cs' H. rewrite <- (render_all_erase pr cs), <- (render_all_erase pr cs'), H. reflexivity. Qed.

(* ---------------- transfer to the interpreters ---------------- *)
Definition obs_erase (x : store * store * list rcall * option N) : store * store * list rcall * option N :=
  let '(a, b, cs, e) := x in (a, b, map rc_erase cs, e).
Definition obs_erase_f (x : fstate * list rcall * fres) : fstate * list rcall * fres :=
  let '(s, cs, e) := x in (s, map rc_erase cs, e).

Lemma peqx_on_run : forall ok h1 h2, hexec_sat ok h1 -> hexec_sat ok h2 ->
  forall p p', peqx_on ok p p' -> forall l1 l2 now,
    obs_erase (run h1 h2 p l1 l2 now) = obs_erase (run h1 h2 p' l1 l2 now).
Proof.
  intros ok h1 h2 H1 H2 p p' H.
  induction H as [e | c c' p p' Hc H IH | t q k k' H IH]; intros l1 l2 now.
  - reflexivity.
  - cbn [run]. specialize (IH l1 l2 now).
    destruct (run h1 h2 p l1 l2 now) as [[[a b] cs] e]. destruct (run h1 h2 p' l1 l2 now) as [[[a' b'] cs'] e'].
    cbn [obs_erase map] in *. inversion IH; subst. rewrite Hc. reflexivity.
  - destruct t; cbn [run].
    + pose proof (H1 l1 now q) as Hok. destruct (h1 l1 now q) as [l1' r]. apply IH. exact Hok.
    + pose proof (H2 l2 now q) as Hok. destruct (h2 l2 now q) as [l2' r]. apply IH. exact Hok.
Qed.

Lemma peqx_run_std : forall p p', peqx p p' -> forall l1 l2 now,
  obs_erase (run std_exec std_exec p l1 l2 now) = obs_erase (run std_exec std_exec p' l1 l2 now).
Proof. exact (peqx_on_run res_ok std_exec std_exec hexec_ok_std hexec_ok_std). Qed.

Lemma peqx_on_run_f : forall ok, fexec_sat ok ->
  forall p p', peqx_on ok p p' -> forall pl st now,
    obs_erase_f (run_f pl p st now) = obs_erase_f (run_f pl p' st now).
Proof.
  intros ok Hf p p' H.
  induction H as [e | c c' p p' Hc H IH | t q k k' H IH]; intros pl st now.
  - reflexivity.
  - cbn [run_f]. specialize (IH pl st now).
    destruct (run_f pl p st now) as [[s cs] e]. destruct (run_f pl p' st now) as [[s' cs'] e'].
    cbn [obs_erase_f map] in *. inversion IH; subst. rewrite Hc. reflexivity.
  - destruct t; cbn [run_f].
    + destruct (exec_f (pl L1) (f1 st) now q) as [t' o] eqn:E. destruct o as [r|]; [|reflexivity].
      apply IH. exact (Hf _ _ _ _ _ _ E).
    + destruct (exec_f (pl L2) (f2 st) now q) as [t' o] eqn:E. destruct o as [r|]; [|reflexivity].
      apply IH. exact (Hf _ _ _ _ _ _ E).
Qed.

Lemma peqx_all_run_f : forall p p', peqx_all p p' -> forall pl st now,
  obs_erase_f (run_f pl p st now) = obs_erase_f (run_f pl p' st now).
Proof. apply peqx_on_run_f. intros pl ts now q ts' r _. exact I. Qed.

(* what a client sees: equal stores, equal returned error, equal bytes in either protocol *)
Lemma obs_erase_bytes : forall x y pr, obs_erase x = obs_erase y ->
  fst (fst (fst x)) = fst (fst (fst y)) /\ snd (fst (fst x)) = snd (fst (fst y)) /\
  render_all pr (snd (fst x)) = render_all pr (snd (fst y)) /\ snd x = snd y.
Proof.
  intros [[[a b] cs] e] [[[a' b'] cs'] e'] pr H. cbn [obs_erase] in H. inversion H; subst. cbn [fst snd].
  repeat split. apply erase_eq_render_all. assumption.
Qed.

Lemma obs_erase_f_bytes : forall x y pr, obs_erase_f x = obs_erase_f y ->
  fst (fst x) = fst (fst y) /\ render_all pr (snd (fst x)) = render_all pr (snd (fst y)) /\ snd x = snd y.
Proof.
  intros [[s cs] e] [[s' cs'] e'] pr H. cbn [obs_erase_f] in H. inversion H; subst. cbn [fst snd].
  repeat split. apply erase_eq_render_all. assumption.
Qed.

