(* Types.v — the protocol-agnostic middle of rend: request structs (common/datatypes.go),
   Responder calls (protocol/types.go), the handler interface (handlers/types.go) and
   orchestrators as interaction programs over handler calls. *)
From Rend Require Import base.Bytes gen.Consts_gen spec.MapSpec.
Open Scope N_scope.

(* one key of a get request: key, opaque, quiet *)
Record gitem := mkGI { gi_key : bytes; gi_opaque : N; gi_quiet : bool }.

Inductive req :=
| RSet (m : smode) (k d : bytes) (flags ttl opaque : N) (quiet : bool)
| RCat (front : bool) (k d : bytes) (opaque : N) (quiet : bool)
| RDelete (k : bytes) (opaque : N)
| RTouch (k : bytes) (ttl opaque : N)
| RGat (k : bytes) (ttl opaque : N)
| RGet (items : list gitem) (noopOpaque : N) (noopEnd : bool)
| RGetE (items : list gitem) (noopOpaque : N) (noopEnd : bool)
| RNoop (opaque : N)
| RQuit (opaque : N) (quiet : bool)
| RVersion (opaque : N)
| RStat (opaque : N)
| RUnknown.

(* common.RequestType of a request *)
Definition rtype (r : req) : N :=
  match r with
  | RSet MSet _ _ _ _ _ _ => RtSet | RSet MAdd _ _ _ _ _ _ => RtAdd | RSet MReplace _ _ _ _ _ _ => RtReplace
  | RCat false _ _ _ _ => RtAppend | RCat true _ _ _ _ => RtPrepend
  | RDelete _ _ => RtDelete | RTouch _ _ _ => RtTouch | RGat _ _ _ => RtGat
  | RGet _ _ _ => RtGet | RGetE _ _ _ => RtGetE | RNoop _ => RtNoop | RQuit _ _ => RtQuit
  | RVersion _ => RtVersion | RStat _ => RtStat | RUnknown => RtUnknown
  end.
(* Request.GetOpaque / IsQuiet as the Error path of the orchestrators uses them *)
Definition req_opaque (r : req) : N :=
  match r with
  | RSet _ _ _ _ _ o _ | RCat _ _ _ o _ | RDelete _ o | RTouch _ _ o | RGat _ _ o
  | RNoop o | RQuit o _ | RVersion o | RStat o => o
  | RGet _ _ _ | RGetE _ _ _ | RUnknown => 0
  end.
Definition req_quiet (r : req) : bool :=
  match r with RSet _ _ _ _ _ _ q | RCat _ _ _ _ q | RQuit _ q => q | _ => false end.

(* a get result travelling from handler to orchestrator to responder *)
Record gres := mkGR { g_key : bytes; g_data : bytes; g_flags : N; g_exp : N;
                      g_opaque : N; g_quiet : bool; g_miss : bool }.

(* Responder calls *)
Inductive rcall :=
| PStored (rt : N) (opaque : N) (quiet : bool)     (* Set/Add/Replace/Append/Prepend *)
| PGet (r : gres)
| PGetE (r : gres)
| PGat (r : gres)
| PGetEnd (opaque : N) (noopEnd : bool)
| PDelete (opaque : N)
| PTouch (opaque : N)
| PNoop (opaque : N)
| PQuit (opaque : N) (quiet : bool)
| PVersion (opaque : N)
| PStat (opaque : N)
| PError (opaque rt e : N) (quiet : bool).

(* handler calls *)
Inductive hreq :=
| HSet (m : smode) (k d : bytes) (f ttl : N)
| HCat (front : bool) (k d : bytes)
| HDelete (k : bytes)
| HTouch (k : bytes) (ttl : N)
| HGet (items : list gitem)
| HGetE (items : list gitem)
| HGat (k : bytes) (ttl opaque : N).

(* handler results: an error (index in the generated error numbering, EIO for any
   non-application error), plain success, or get results optionally ended by an error *)
Inductive hres :=
| HErr (e : N)
| HDone
| HVals (rs : list gres) (e : option N).

Inductive tier := L1 | L2.

(* an orchestrator method: handler calls and responder calls, ending with the returned error *)
Inductive prog :=
| Ret (e : option N)
| Call (t : tier) (q : hreq) (k : hres -> prog)
| Emit (c : rcall) (p : prog).

(* a handler's sequential semantics *)
Definition hexec := store -> N -> hreq -> store * hres.

Record ostate := mkOS { os_l1 : store; os_l2 : store }.

Fixpoint run (h1 h2 : hexec) (p : prog) (l1 l2 : store) (now : N) : store * store * list rcall * option N :=
  match p with
  | Ret e => (l1, l2, [], e)
  | Call L1 q k => let '(l1', r) := h1 l1 now q in run h1 h2 (k r) l1' l2 now
  | Call L2 q k => let '(l2', r) := h2 l2 now q in run h1 h2 (k r) l1 l2' now
  | Emit c p' => let '(a, b, cs, e) := run h1 h2 p' l1 l2 now in (a, b, c :: cs, e)
  end.

(* table lookups over the generated association lists *)
Fixpoint assocN {B} (l : list (N * B)) (x : N) : option B :=
  match l with [] => None | (a, b) :: r => if a =? x then Some b else assocN r x end.
(* binprot.DecodeError *)
Definition decode_error (st : N) : option N := assocN decodeError_tab st.
(* common.IsAppError *)
Definition is_app_error (e : N) : bool := match assocN isAppError_tab e with Some b => b | None => false end.
