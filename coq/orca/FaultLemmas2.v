(* FaultLemmas2.v — C10, reads under faults (ANY plan): every value a get emits is the value
   (data, flags) the authoritative tier held when the request started, and everything L1 holds
   after a get / gat / backend-free request is still a value of that store. The invariant is
   [sub_df now s B]: whatever [s] serves, [B] serves with the same data and flags. *)
From Rend Require Import base.Bytes gen.Consts_gen spec.MapSpec orca.Types handlers.Std orca.Orcas
  proto.Resp orca.OrcaSpec orca.Faults orca.OrcaProofs orca.FaultLemmas1.
Open Scope N_scope.

Definition sub_df (now : N) (a b : store) : Prop :=
  forall k e1, live now a k = Some e1 ->
    exists e2, live now b k = Some e2 /\ e_data e1 = e_data e2 /\ e_flags e1 = e_flags e2.

Lemma sub_df_refl now s : sub_df now s s.
Proof. intros k e H. exists e. auto. Qed.
Lemma sub_df_trans now a b c : sub_df now a b -> sub_df now b c -> sub_df now a c.
Proof.
  intros H1 H2 k e E. destruct (H1 k e E) as (e2 & E2 & A & B). destruct (H2 k e2 E2) as (e3 & E3 & C & D).
  exists e3. split; [exact E3|]. split; congruence.
Qed.
Lemma sub_live_df now a b : sub_live now a b -> sub_df now a b.
Proof. intros H k e E. destruct (H k e E) as (e2 & A & B & C & _). eauto. Qed.

Lemma live_upd_same now s k v : live now (upd s k v) k = olive now v.
Proof. rewrite live_olive, upd_same. reflexivity. Qed.
Lemma live_upd_other now s k v k' : k' <> k -> live now (upd s k v) k' = live now s k'.
Proof. intros H. rewrite !live_olive, upd_other by exact H. reflexivity. Qed.

Lemma sub_df_evict now a B k : sub_df now a B -> sub_df now (upd a k None) B.
Proof.
  intros H k' e E. destruct (key_eq_dec k' k) as [->|N].
  - rewrite live_upd_same in E. discriminate E.
  - rewrite live_upd_other in E by exact N. apply H. exact E.
Qed.
Lemma sub_df_put now a B k e :
  sub_df now a B ->
  (alive now e = true -> exists e2, live now B k = Some e2 /\ e_data e = e_data e2 /\ e_flags e = e_flags e2) ->
  sub_df now (upd a k (Some e)) B.
Proof.
  intros H P k' e' E. destruct (key_eq_dec k' k) as [->|N].
  - rewrite live_upd_same in E. apply olive_some in E. destruct E as [E A]. inversion E; subst. apply P. exact A.
  - rewrite live_upd_other in E by exact N. apply H. exact E.
Qed.
Lemma sub_df_status now a B st k : sub_df now a B -> sub_df now (status_store a st k) B.
Proof. intros H. unfold status_store. destruct (_ || _); [apply sub_df_evict|]; exact H. Qed.

(* ---------------- get results ---------------- *)
Definition hit_ok (now : N) (B : store) (g : gres) : Prop :=
  g_miss g = false -> exists e, live now B (g_key g) = Some e /\ g_data g = e_data e /\ g_flags g = e_flags e.
Definition cs_ok (now : N) (B : store) (c : rcall) : Prop :=
  match c with PGet g | PGetE g => hit_ok now B g | _ => True end.

Lemma hit_ok_std now B s w it : sub_df now s B -> hit_ok now B (std_get1 s now w it).
Proof.
  intros H. unfold std_get1, gb_get. destruct (live now s (gi_key it)) as [e|] eqn:E.
  - intros _. destruct (H _ _ E) as (e2 & E2 & A & C). exists e2. cbn [hit_res g_key g_data g_flags]. auto.
  - intros M. discriminate M.
Qed.
Lemma hit_ok_miss now B it : hit_ok now B (miss_res it).
Proof. intros M. discriminate M. Qed.

Lemma exec_get_sound pl gete now B : forall items ts acc t' o,
  sub_df now (t_store ts) B -> Forall (hit_ok now B) acc ->
  exec_get pl gete ts now items acc = (t', o) ->
  sub_df now (t_store t') B /\ exists rs e, o = HRes (HVals rs e) /\ Forall (hit_ok now B) rs.
Proof.
  induction items as [|it rest IH]; intros ts acc t' o HS HA H; cbn [exec_get] in H.
  - inversion H; subst. split; [exact HS|]. exists (rev acc), None. split; [reflexivity|]. apply Forall_rev. exact HA.
  - assert (S : forall s d n e, sub_df now s B -> (mkTS s d n, HRes (HVals (rev acc) (Some e))) = (t', o) ->
                sub_df now (t_store t') B /\ exists rs e, o = HRes (HVals rs e) /\ Forall (hit_ok now B) rs).
    { intros s d n e Hs E. inversion E; subst. split; [exact Hs|]. eexists _, _. split; [reflexivity|].
      apply Forall_rev. exact HA. }
    assert (N1 : hit_ok now B (std_get1 (t_store ts) now gete it)) by (apply hit_ok_std; exact HS).
    destruct (t_dead ts).
    { destruct ts as [s d n]. eapply S; eauto. }
    destruct (pl (t_seen ts)) as [[st|ap|]|].
    + pose proof (sub_df_status now _ B st (gi_key it) HS) as HS'.
      destruct (decode_error st) as [e|].
      * destruct (e =? EKeyNotFound); [|eapply S; eauto].
        eapply IH; [| |exact H]; [exact HS'|]. constructor; [apply hit_ok_miss|exact HA].
      * eapply IH; [| |exact H]; [exact HS'|]. constructor; assumption.
    + eapply S; eauto.
    + eapply IH; [| |exact H]; [exact HS|]. constructor; assumption.
    + eapply IH; [| |exact H]; [exact HS|]. constructor; assumption.
Qed.

Lemma hits_cs_ok now B (P : gres -> rcall) rs :
  (forall g, P g = PGet g) \/ (forall g, P g = PGetE g) ->
  Forall (hit_ok now B) rs -> Forall (cs_ok now B) (map P rs).
Proof.
  intros HP H. apply Forall_forall. intros c I. apply in_map_iff in I. destruct I as (g & <- & I).
  rewrite Forall_forall in H. destruct HP as [HP|HP]; rewrite HP; apply H; exact I.
Qed.
Lemma forall_filter {A} (P : A -> Prop) f l : Forall P l -> Forall P (filter f l).
Proof. rewrite !Forall_forall. intros H x I. apply filter_In in I. apply H. tauto. Qed.

(* ---------------- one backend request: where the store can go ---------------- *)
Lemma exec1_store pl ts now q t' o : exec1 pl ts now q = (t', o) ->
  t_store t' = t_store ts \/ t_store t' = fst (std_exec (t_store ts) now q) \/
  t_store t' = upd (t_store ts) (hreq_key q) None.
Proof.
  unfold exec1. destruct (t_dead ts); [intros H; inversion H; auto|].
  destruct (pl (t_seen ts)) as [[st|ap|]|].
  - intros H. inversion H; subst. cbn [t_store]. unfold status_store. destruct (_ || _); auto.
  - intros H. inversion H; subst. cbn [t_store]. destruct ap; auto.
  - destruct (std_exec (t_store ts) now q) as [s' r] eqn:E. intros H. inversion H; subst. cbn [t_store fst]. auto.
  - destruct (std_exec (t_store ts) now q) as [s' r] eqn:E. intros H. inversion H; subst. cbn [t_store fst]. auto.
Qed.

(* requests that bring no new data *)
Definition nonew (q : hreq) : bool :=
  match q with HDelete _ | HTouch _ _ | HGat _ _ _ | HGet _ | HGetE _ => true | _ => false end.
Lemma std_nonew now s q : nonew q = true -> sub_df now (fst (std_exec s now q)) s.
Proof.
  intros H. destruct q as [m k d f ttl|fr k d|k|k ttl|items|items|k ttl o]; try discriminate H; cbn [std_exec].
  - unfold gb_delete. destruct (live now s k); cbn [fst]; [apply sub_df_evict|]; apply sub_df_refl.
  - unfold gb_touch. destruct (live now s k) as [e|] eqn:E; cbn [fst]; [|apply sub_df_refl].
    apply sub_df_put; [apply sub_df_refl|]. intros _. exists e. auto.
  - apply sub_df_refl.
  - apply sub_df_refl.
  - unfold gb_gat, gb_touch. destruct (live now s k) as [e|] eqn:E; cbn [fst]; [|apply sub_df_refl].
    apply sub_df_put; [apply sub_df_refl|]. intros _. exists e. auto.
Qed.
Lemma exec1_nonew pl ts now q t' o B : nonew q = true -> sub_df now (t_store ts) B ->
  exec1 pl ts now q = (t', o) -> sub_df now (t_store t') B.
Proof.
  intros N H E. apply exec1_store in E. destruct E as [->| [->| ->]].
  - exact H.
  - eapply sub_df_trans; [apply std_nonew; exact N|exact H].
  - apply sub_df_evict. exact H.
Qed.
(* a write of a value that B holds *)
Lemma exec1_setval pl ts now m k d f ttl t' o B :
  sub_df now (t_store ts) B ->
  (exists e, live now B k = Some e /\ d = e_data e /\ f = e_flags e) ->
  exec1 pl ts now (HSet m k d f ttl) = (t', o) -> sub_df now (t_store t') B.
Proof.
  intros H (e & E & -> & ->) X. apply exec1_store in X. cbn [hreq_key] in X. destruct X as [->| [->| ->]].
  - exact H.
  - cbn [std_exec]. unfold gb_set, gb_put.
    assert (P : sub_df now (upd (t_store ts) k (Some (mkE (e_data e) (e_flags e) (norm now ttl)))) B).
    { apply sub_df_put; [exact H|]. intros _. exists e. auto. }
    destruct m, (live now (t_store ts) k); cbn [fst]; assumption.
  - apply sub_df_evict. exact H.
Qed.

(* ---------------- run_f: generic facts ---------------- *)
Lemma run_f_emits pl now l p st :
  run_f pl (emits l p) st now = let '(s, cs, e) := run_f pl p st now in (s, l ++ cs, e).
Proof.
  induction l as [|c l IH]; cbn [emits run_f app].
  - destruct (run_f pl p st now) as [[s cs] e]. reflexivity.
  - rewrite IH. destruct (run_f pl p st now) as [[s cs] e]. reflexivity.
Qed.

Lemma run_f_thenp pl now q : forall p st,
  run_f pl (thenp p q) st now =
  let '(s1, cs1, e1) := run_f pl p st now in
  match e1 with
  | FRet None => let '(s2, cs2, e2) := run_f pl q s1 now in (s2, cs1 ++ cs2, e2)
  | _ => (s1, cs1, e1)
  end.
Proof.
  induction p as [e|t hq k IH|c p IH]; intros st.
  - destruct e as [x|]; cbn [thenp run_f]; [reflexivity|].
    destruct (run_f pl q st now) as [[s2 cs2] e2]. reflexivity.
  - destruct t; cbn [thenp run_f].
    + destruct (exec_f (pl L1) (f1 st) now hq) as [t' o]. destruct o; [apply IH|reflexivity].
    + destruct (exec_f (pl L2) (f2 st) now hq) as [t' o]. destruct o; [apply IH|reflexivity].
  - cbn [thenp run_f]. rewrite IH. destruct (run_f pl p st now) as [[s1 cs1] e1].
    destruct e1 as [[x|]|]; try reflexivity. destruct (run_f pl q s1 now) as [[s2 cs2] e2]. reflexivity.
Qed.

(* what serve1_f adds to run_f *)
Lemma serve1_f_inv pl orca r st now :
  let '(st', cs, c) := serve1_f pl orca r st now in
  let '(st0, cs0, e0) := run_f pl (orca r) st now in
  st' = st0 /\
  (cs = cs0 \/ exists err, e0 = FRet (Some err) /\ cs = cs0 ++ [PError (req_opaque r) (rtype r) err (req_quiet r)]) /\
  (c = Open -> e0 = FRet None \/ exists err, e0 = FRet (Some err) /\ cs = cs0 ++ [PError (req_opaque r) (rtype r) err (req_quiet r)]).
Proof.
  unfold serve1_f. destruct (run_f pl (orca r) st now) as [[st0 cs0] e0].
  destruct e0 as [e'|]; [|split; [reflexivity|split; [auto|discriminate]]].
  assert (Q : (exists o q, r = RQuit o q) \/
              (forall (x y : fstate * list rcall * conn_state), match r with RQuit _ _ => x | _ => y end = y)).
  { destruct r; try (right; reflexivity). left; eauto. }
  destruct Q as [(o & q & ->)|Q]; [split; [reflexivity|split; [auto|discriminate]]|]. rewrite Q.
  destruct e' as [err|]; [|split; [reflexivity|split; auto]].
  destruct (is_app_error err); (split; [reflexivity|split; [eauto|]]); [eauto|discriminate].
Qed.

(* ---------------- the get programs ---------------- *)
Section Reads.
Variables (pl : plan) (now : N) (B : store).

Definition I1 (st : fstate) : Prop := sub_df now (t_store (f1 st)) B.
Definition I2 (st : fstate) : Prop := sub_df now (t_store (f1 st)) B /\ sub_df now (t_store (f2 st)) B.

Lemma tail_run no ne err st :
  exists cs e, run_f pl (l1l2_get_tail no ne err) st now = (st, cs, e) /\ Forall (cs_ok now B) cs.
Proof.
  destruct err as [x|]; cbn [l1l2_get_tail run_f]; eexists _, _; (split; [reflexivity|]); repeat constructor.
Qed.

Lemma backfill_sound no ne err : forall rs st st' cs e,
  Forall (hit_ok now B) rs -> I1 st ->
  run_f pl (l1l2_backfill rs (l1l2_get_tail no ne err)) st now = (st', cs, e) ->
  I1 st' /\ f2 st' = f2 st /\ Forall (cs_ok now B) cs.
Proof.
  induction rs as [|g rest IH]; intros st st' cs e HR HI H; cbn [l1l2_backfill] in H.
  - destruct (tail_run no ne err st) as (cs0 & e0 & R & F). rewrite R in H. inversion H; subst. auto.
  - inversion HR as [|? ? Hg HR']; subst.
    assert (E : forall s0, I1 s0 -> f2 s0 = f2 st ->
                run_f pl (Emit (PGet g) (l1l2_backfill rest (l1l2_get_tail no ne err))) s0 now = (st', cs, e) ->
                I1 st' /\ f2 st' = f2 st /\ Forall (cs_ok now B) cs).
    { intros s0 HI0 F0 H0. cbn [run_f] in H0.
      destruct (run_f pl (l1l2_backfill rest (l1l2_get_tail no ne err)) s0 now) as [[s1 cs1] e1] eqn:R.
      inversion H0; subst. destruct (IH _ _ _ _ HR' HI0 R) as (A & C & D). split; [exact A|].
      split; [congruence|]. constructor; [exact Hg|exact D]. }
    destruct (g_miss g) eqn:M; [apply (E st); auto|].
    cbn [run_f exec_f] in H.
    destruct (exec1 (pl L1) (f1 st) now (HSet MSet (g_key g) (g_data g) (g_flags g) (g_exp g))) as [t1 o1] eqn:X1.
    assert (S1 : sub_df now (t_store t1) B).
    { eapply exec1_setval; [exact HI| |exact X1]. destruct (Hg M) as (e0 & A & C & D). eauto. }
    destruct o1 as [h|]; [|inversion H; subst; cbn [f1 f2]; split; [exact S1|split; [reflexivity|constructor]]].
    assert (D : forall s0, I1 s0 -> f2 s0 = f2 st ->
                run_f pl (Call L1 (HDelete (g_key g)) (fun _ => Emit (PGet g) (l1l2_backfill rest (l1l2_get_tail no ne err)))) s0 now
                  = (st', cs, e) -> I1 st' /\ f2 st' = f2 st /\ Forall (cs_ok now B) cs).
    { intros s0 HI0 F0 H0. cbn [run_f exec_f] in H0.
      destruct (exec1 (pl L1) (f1 s0) now (HDelete (g_key g))) as [t2 o2] eqn:X2.
      assert (S2 : sub_df now (t_store t2) B) by (eapply exec1_nonew; [|exact HI0|exact X2]; reflexivity).
      destruct o2 as [h2|]; [|inversion H0; subst; cbn [f1 f2]; split; [exact S2|split; [exact F0|constructor]]].
      eapply (E (mkFS t2 (f2 s0))); [exact S2|exact F0|exact H0]. }
    destruct h; [eapply (D (mkFS t1 (f2 st))); eauto | eapply (E (mkFS t1 (f2 st))); eauto | eapply (D (mkFS t1 (f2 st))); eauto].
Qed.

Lemma l1only_get_sound gete items no ne st st' cs e : I1 st ->
  run_f pl (l1only (mkget gete items no ne)) st now = (st', cs, e) ->
  I1 st' /\ f2 st' = f2 st /\ Forall (cs_ok now B) cs.
Proof.
  intros HI H.
  assert (G : forall (P : gres -> rcall), (forall g, P g = PGet g) \/ (forall g, P g = PGetE g) ->
     forall t1 rs e1, sub_df now (t_store t1) B -> Forall (hit_ok now B) rs ->
     run_f pl (match HVals rs e1 with
           | HVals rs None => emits (map P rs) (Emit (PGetEnd no ne) (Ret None))
           | HVals rs (Some e) => emits (map P rs) (Ret (Some e))
           | HErr e => Ret (Some e) | HDone => Ret (Some EIO) end) (mkFS t1 (f2 st)) now = (st', cs, e) ->
     I1 st' /\ f2 st' = f2 st /\ Forall (cs_ok now B) cs).
  { intros P HP t1 rs e1 S1 F R. destruct e1 as [x|]; rewrite run_f_emits in R; cbn [run_f] in R; inversion R; subst;
      (split; [exact S1|]); (split; [reflexivity|]).
    - rewrite app_nil_r. apply hits_cs_ok; assumption.
    - apply Forall_app. split; [apply hits_cs_ok; assumption|repeat constructor]. }
  destruct gete; cbn [mkget l1only run_f exec_f] in H.
  - destruct (exec_get (pl L1) true (f1 st) now items []) as [t1 o1] eqn:X.
    apply (exec_get_sound _ _ now B) in X; [|exact HI|constructor]. destruct X as (S1 & rs & e1 & -> & F).
    eapply (G PGetE); eauto.
  - destruct (exec_get (pl L1) false (f1 st) now items []) as [t1 o1] eqn:X.
    apply (exec_get_sound _ _ now B) in X; [|exact HI|constructor]. destruct X as (S1 & rs & e1 & -> & F).
    eapply (G PGet); eauto.
Qed.

Lemma l1l2_get_sound items no ne st st' cs e : I2 st ->
  run_f pl (l1l2_get items no ne) st now = (st', cs, e) -> I2 st' /\ Forall (cs_ok now B) cs.
Proof.
  intros [H1 H2] H. unfold l1l2_get in H. cbn [run_f exec_f] in H.
  destruct (exec_get (pl L1) false (f1 st) now items []) as [t1 o1] eqn:X.
  apply (exec_get_sound _ _ now B) in X; [|exact H1|constructor]. destruct X as (S1 & rs & e1 & -> & F).
  cbv beta iota zeta in H. rewrite run_f_emits in H.
  assert (FH : Forall (cs_ok now B) (map PGet (filter (fun g => negb (g_miss g)) rs))).
  { apply hits_cs_ok; [left; reflexivity|]. apply forall_filter. exact F. }
  destruct (filter g_miss rs) as [|m ms].
  - destruct (tail_run no ne e1 (mkFS t1 (f2 st))) as (cs0 & e0 & R & F0). rewrite R in H. inversion H; subst.
    split; [split; assumption|]. apply Forall_app. auto.
  - cbn [run_f exec_f f1 f2] in H.
    destruct (exec_get (pl L2) true (f2 st) now (items_of (m :: ms)) []) as [t2 o2] eqn:X2.
    apply (exec_get_sound _ _ now B) in X2; [|exact H2|constructor]. destruct X2 as (S2 & rs2 & e2 & -> & F2).
    cbv beta iota zeta in H.
    match type of H with context [run_f ?a ?b ?c ?d] => destruct (run_f a b c d) as [[s cs1] e3] eqn:R' end.
    apply backfill_sound in R'; [|exact F2|exact S1]. destruct R' as (A & C & D). inversion H; subst.
    split; [split; [exact A|rewrite C; exact S2]|]. apply Forall_app. auto.
Qed.

Lemma l1l2batch_get_sound items no ne st st' cs e : I2 st ->
  run_f pl (l1l2batch_get items no ne) st now = (st', cs, e) -> I2 st' /\ Forall (cs_ok now B) cs.
Proof.
  intros [H1 H2] H. unfold l1l2batch_get in H. cbn [run_f exec_f] in H.
  destruct (exec_get (pl L1) false (f1 st) now items []) as [t1 o1] eqn:X.
  apply (exec_get_sound _ _ now B) in X; [|exact H1|constructor]. destruct X as (S1 & rs & e1 & -> & F).
  cbv beta iota zeta in H. rewrite run_f_emits in H.
  assert (FH : Forall (cs_ok now B) (map PGet (filter (fun g => negb (g_miss g)) rs))).
  { apply hits_cs_ok; [left; reflexivity|]. apply forall_filter. exact F. }
  destruct (filter g_miss rs) as [|m ms].
  - destruct (tail_run no ne e1 (mkFS t1 (f2 st))) as (cs0 & e0 & R & F0). rewrite R in H. inversion H; subst.
    split; [split; assumption|]. apply Forall_app. auto.
  - cbn [run_f exec_f f1 f2] in H.
    destruct (exec_get (pl L2) false (f2 st) now (items_of (m :: ms)) []) as [t2 o2] eqn:X2.
    apply (exec_get_sound _ _ now B) in X2; [|exact H2|constructor]. destruct X2 as (S2 & rs2 & e2 & -> & F2).
    cbv beta iota zeta in H. rewrite run_f_emits in H.
    destruct (tail_run no ne (match e2 with Some e4 => Some e4 | None => e1 end) (mkFS t1 t2)) as (cs0 & e0 & R' & F0).
    rewrite R' in H. inversion H; subst.
    split; [split; assumption|]. apply Forall_app. split; [exact FH|]. apply Forall_app. split; [|exact F0].
    apply hits_cs_ok; [left; reflexivity|exact F2].
Qed.

(* the invariant of a deployment: L1 always, L2 when there is one *)
Definition II (k : orcakind) (st : fstate) : Prop :=
  sub_df now (t_store (f1 st)) B /\ (k <> KL1Only -> sub_df now (t_store (f2 st)) B).

Lemma base_get_sound k gete items no ne st st' cs e : II k st ->
  run_f pl (base_orca k (mkget gete items no ne)) st now = (st', cs, e) -> II k st' /\ Forall (cs_ok now B) cs.
Proof.
  intros [H1 H2] H. destruct k; cbn [base_orca] in H.
  - apply l1only_get_sound in H; [|exact H1]. destruct H as (A & _ & C). split; [split; [exact A|congruence]|exact C].
  - destruct gete; cbn [mkget l1l2] in H.
    + cbn [run_f] in H. inversion H; subst. split; [split; assumption|constructor].
    + apply l1l2_get_sound in H; [|split; [exact H1|apply H2; discriminate]].
      destruct H as ([A C] & D). split; [split; auto|exact D].
  - destruct gete; cbn [mkget l1l2batch] in H.
    + cbn [run_f] in H. inversion H; subst. split; [split; assumption|constructor].
    + apply l1l2batch_get_sound in H; [|split; [exact H1|apply H2; discriminate]].
      destruct H as ([A C] & D). split; [split; auto|exact D].
Qed.

Lemma locked_gets_sound k gete : forall items no ne st st' cs e, II k st ->
  run_f pl (locked_gets (base_orca k) gete items no ne) st now = (st', cs, e) -> II k st' /\ Forall (cs_ok now B) cs.
Proof.
  induction items as [|it rest IH]; intros no ne st st' cs e HI H.
  - cbn [locked_gets run_f] in H. inversion H; subst. split; [exact HI|constructor].
  - destruct rest as [|it2 rest].
    + cbn [locked_gets] in H. change (if gete then RGetE [it] no ne else RGet [it] no ne) with (mkget gete [it] no ne) in H.
      eapply base_get_sound; eauto.
    + change (locked_gets (base_orca k) gete (it :: it2 :: rest) no ne)
        with (thenp (base_orca k (mkget gete [it] 0 false)) (locked_gets (base_orca k) gete (it2 :: rest) no ne)) in H.
      rewrite run_f_thenp in H.
      destruct (run_f pl (base_orca k (mkget gete [it] 0 false)) st now) as [[s1 cs1] e1] eqn:R1.
      apply base_get_sound in R1; [|exact HI]. destruct R1 as [A C].
      destruct e1 as [[x|]|]; try (inversion H; subst; split; assumption).
      destruct (run_f pl (locked_gets (base_orca k) gete (it2 :: rest) no ne) s1 now) as [[s2 cs2] e2] eqn:R2.
      apply IH in R2; [|exact A]. destruct R2 as [A2 C2]. inversion H; subst. split; [exact A2|].
      apply Forall_app. auto.
Qed.

Lemma cfg_get_sound k lck gete items no ne st st' cs e : II k st ->
  run_f pl (orca_cfg k lck (mkget gete items no ne)) st now = (st', cs, e) -> II k st' /\ Forall (cs_ok now B) cs.
Proof.
  intros HI H. destruct lck; cbn [orca_cfg] in H.
  - assert (L : locked (base_orca k) (mkget gete items no ne) = locked_gets (base_orca k) gete items no ne)
      by (destruct gete; reflexivity).
    rewrite L in H. eapply locked_gets_sound; eauto.
  - eapply base_get_sound; eauto.
Qed.
End Reads.

(* ---------------- read soundness, for any plan ---------------- *)
Lemma read_sound_any pl k lck now l1 l2 items no ne g :
  inv k now l1 l2 ->
  let '(_, cs, _) := serve1_f pl (orca_cfg k lck) (RGet items no ne) (mkFS (mkTS l1 false 0) (mkTS l2 false 0)) now in
  In (PGet g) cs -> g_miss g = false ->
  exists e, live now (auth k l1 l2) (g_key g) = Some e /\ g_data g = e_data e /\ g_flags g = e_flags e.
Proof.
  intros Hinv.
  pose proof (serve1_f_inv pl (orca_cfg k lck) (RGet items no ne) (mkFS (mkTS l1 false 0) (mkTS l2 false 0)) now) as S.
  destruct (serve1_f pl (orca_cfg k lck) (RGet items no ne) (mkFS (mkTS l1 false 0) (mkTS l2 false 0)) now) as [[st' cs] c].
  destruct (run_f pl (orca_cfg k lck (RGet items no ne)) (mkFS (mkTS l1 false 0) (mkTS l2 false 0)) now) as [[st0 cs0] e0] eqn:R.
  destruct S as (_ & S & _).
  change (RGet items no ne) with (mkget false items no ne) in R.
  apply (cfg_get_sound pl now (auth k l1 l2)) in R.
  - destruct R as [_ F]. intros I M.
    assert (I0 : In (PGet g) cs0).
    { destruct S as [->|(err & _ & ->)]; [exact I|]. apply in_app_or in I. destruct I as [I|[I|[]]]; [exact I|discriminate I]. }
    rewrite Forall_forall in F. apply (F _ I0). exact M.
  - split; cbn [f1 f2 t_store].
    + destruct k; cbn [auth inv] in *; [apply sub_df_refl|apply sub_live_df; exact Hinv|apply sub_live_df; exact Hinv].
    + intros Hk. destruct k; [congruence| |]; apply sub_df_refl.
Qed.
