(* FaultOld.v — L1L2Orca.Get as it was before the fix (fixes/…): the loop that writes L2 hits
   back to L1 assigned its result to the same `err` variable that held the L1 error, so one
   successful back-fill erased an L1 error that had cut the L1 read short. Definitions only;
   the refutation is proved in orca/FaultProofs.v. *)
From Rend Require Import base.Bytes gen.Consts_gen spec.MapSpec orca.Types handlers.Std orca.Orcas orca.Faults.
Open Scope N_scope.

Definition old_l1l2_get (items : list gitem) (no : N) (ne : bool) : prog :=
  Call L1 (HGet items) (fun h =>
    let '(rs, e1) := match h with HVals rs e => (rs, e) | HErr e => ([], Some e) | HDone => ([], Some EIO) end in
    let hits := filter (fun g => negb (g_miss g)) rs in
    let misses := filter g_miss rs in
    emits (map PGet hits)
      (match misses with
       | [] => l1l2_get_tail no ne e1
       | _ => Call L2 (HGetE (items_of misses)) (fun h2 =>
                let '(rs2, e2) := match h2 with HVals rs e => (rs, e) | HErr e => ([], Some e) | HDone => ([], Some EIO) end in
                (* the L1 error survives only if no L2 hit was written back *)
                let err1 := if existsb (fun g => negb (g_miss g)) rs2 then None else e1 in
                let err := match e2 with Some e => Some e | None => err1 end in
                l1l2_backfill rs2 (l1l2_get_tail no ne err))
       end)).

(* one fault, the connection stays open with a normal end of the request, and a non-quiet key
   never got a reply *)
Definition old_l1l2_get_leaves_key_unanswered : Prop :=
  exists (pl : plan) (l1 l2 : store) (now : N) (items : list gitem) (no : N) (ne : bool),
    (forall t n t' n', pl t n <> None -> pl t' n' <> None -> t = t' /\ n = n') /\
    let '(_, cs, e) := run_f pl (old_l1l2_get items no ne) (mkFS (mkTS l1 false 0) (mkTS l2 false 0)) now in
    e = FRet None /\ get_keys_answered (RGet items no ne) cs = false.
