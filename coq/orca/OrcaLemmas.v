(* OrcaLemmas.v — basic facts used by the C01/C02/C09 proofs: function stores, the pointwise
   invariant [pinv] (sub_live, optionally strengthened by same_deadlines and deadlines_sane),
   the fault-free semantics of std_exec case by case, and generic facts about [run]. *)
From Rend Require Import base.Bytes gen.Consts_gen spec.MapSpec orca.Types handlers.Std orca.Orcas
  proto.Resp orca.OrcaSpec.
From Coq Require Import Permutation.
Open Scope N_scope.

(* ---------------- stores ---------------- *)
Lemma upd_same s k v : upd s k v k = v.
Proof. unfold upd. rewrite bytes_eqb_refl. reflexivity. Qed.
Lemma upd_other s k v k' : k' <> k -> upd s k v k' = s k'.
Proof. intros H. unfold upd. apply bytes_eqb_neq in H. rewrite H. reflexivity. Qed.

Definition olive (now : N) (o : option entry) : option entry :=
  match o with Some e => if alive now e then Some e else None | None => None end.
Lemma live_olive now s k : live now s k = olive now (s k).
Proof. reflexivity. Qed.

Lemma olive_some now o e : olive now o = Some e -> o = Some e /\ alive now e = true.
Proof. destruct o as [e'|]; cbn [olive]; [|discriminate]. destruct (alive now e') eqn:A; [|discriminate].
  intros H; inversion H; subst; auto. Qed.
Lemma live_some now s k e : live now s k = Some e -> s k = Some e /\ alive now e = true.
Proof. apply olive_some. Qed.
Lemma olive_alive now e : alive now e = true -> olive now (Some e) = Some e.
Proof. intros H. cbn [olive]. rewrite H. reflexivity. Qed.
Lemma olive_dead now e : alive now e = false -> olive now (Some e) = None.
Proof. intros H. cbn [olive]. rewrite H. reflexivity. Qed.

Lemma alive_mono now now' e : now <= now' -> alive now' e = true -> alive now e = true.
Proof. unfold alive. destruct (e_dl e); [auto|]. intros. lia. Qed.
Lemma olive_mono now now' o e : now <= now' -> olive now' o = Some e -> olive now o = Some e.
Proof. intros L H. apply olive_some in H. destruct H as [-> A]. apply olive_alive. eapply alive_mono; eauto. Qed.

Lemma store_eq_refl s : store_eq s s. Proof. intros k; reflexivity. Qed.
Lemma store_eq_sym s t : store_eq s t -> store_eq t s. Proof. intros H k; symmetry; apply H. Qed.
Lemma store_eq_trans s t u : store_eq s t -> store_eq t u -> store_eq s u.
Proof. intros H1 H2 k. rewrite H1. apply H2. Qed.
Lemma store_eq_upd s t k v : store_eq s t -> store_eq (upd s k v) (upd t k v).
Proof. intros H k'. unfold upd. destruct (bytes_eqb k' k); auto. Qed.
Lemma store_eq_live now s t k : store_eq s t -> live now s k = live now t k.
Proof. intros H. unfold live. rewrite H. reflexivity. Qed.

(* ---------------- the pointwise invariant ---------------- *)
Lemma dl_le_refl d : dl_le d d.
Proof. destruct d; cbn; [exact I | lia]. Qed.

Definition okdl (now : N) (d : deadline) : Prop :=
  match d with Never => True | At t => t <= now + realTimeMaxDelta \/ t <= 2 * now end.

(* [b = false]: sub_live only. [b = true]: also equal deadlines and sane L2 deadlines. *)
Definition rel (b : bool) (now : N) (o1 o2 : option entry) : Prop :=
  (forall e1, olive now o1 = Some e1 ->
     exists e2, olive now o2 = Some e2 /\ e_data e1 = e_data e2 /\ e_flags e1 = e_flags e2 /\
                dl_le (e_dl e1) (e_dl e2) /\ (b = true -> e_dl e1 = e_dl e2)) /\
  (b = true -> forall e2, olive now o2 = Some e2 -> okdl now (e_dl e2)).
Definition pinv (b : bool) (now : N) (l1 l2 : store) : Prop := forall k, rel b now (l1 k) (l2 k).

Lemma pinv_sub_live b now l1 l2 : pinv b now l1 l2 -> sub_live now l1 l2.
Proof. intros H k e1 E. destruct (H k) as [H1 _]. destruct (H1 e1 E) as (e2 & A & B & C & D & _). eauto. Qed.
Lemma sub_live_pinv now l1 l2 : sub_live now l1 l2 -> pinv false now l1 l2.
Proof. intros H k. split; [|discriminate]. intros e1 E. destruct (H k e1 E) as (e2 & A & B & C & D).
  exists e2. repeat split; auto. discriminate. Qed.
Lemma pinv_same_deadlines now l1 l2 : pinv true now l1 l2 -> same_deadlines now l1 l2.
Proof. intros H k e1 e2 E1 E2. destruct (H k) as [H1 _]. destruct (H1 e1 E1) as (e2' & A & _ & _ & _ & D).
  rewrite live_olive in E2. rewrite E2 in A. inversion A; subst. auto. Qed.
Lemma pinv_true_intro now l1 l2 :
  sub_live now l1 l2 -> same_deadlines now l1 l2 -> deadlines_sane now l2 -> pinv true now l1 l2.
Proof.
  intros H S D k. split.
  - intros e1 E. destruct (H k e1 E) as (e2 & A & B & C & D'). exists e2. repeat split; auto.
    intros _. eapply S; eauto.
  - intros _ e2 E. unfold okdl. destruct (e_dl e2) eqn:Ed; [exact I|]. eapply D; eauto.
Qed.

Lemma pinv_hit b now l1 l2 k e1 : pinv b now l1 l2 -> live now l1 k = Some e1 ->
  exists e2, live now l2 k = Some e2 /\ e_data e1 = e_data e2 /\ e_flags e1 = e_flags e2 /\
             dl_le (e_dl e1) (e_dl e2) /\ (b = true -> e_dl e1 = e_dl e2).
Proof. intros H E. destruct (H k) as [H1 _]. exact (H1 e1 E). Qed.
Lemma pinv_l2miss b now l1 l2 k : pinv b now l1 l2 -> live now l2 k = None -> live now l1 k = None.
Proof. intros H E. destruct (live now l1 k) eqn:E1; [|reflexivity].
  destruct (pinv_hit _ _ _ _ _ _ H E1) as (e2 & A & _). congruence. Qed.
Lemma pinv_okdl b now l1 l2 k e2 : pinv b now l1 l2 -> b = true -> live now l2 k = Some e2 -> okdl now (e_dl e2).
Proof. intros H B E. destruct (H k) as [_ H2]. exact (H2 B e2 E). Qed.

Lemma dl_le_alive now e1 e2 : dl_le (e_dl e1) (e_dl e2) -> alive now e1 = true -> alive now e2 = true.
Proof. unfold alive, dl_le. destruct (e_dl e2); [auto|]. destruct (e_dl e1); [tauto|]. intros. lia. Qed.
Lemma okdl_mono now now' d : now <= now' -> okdl now d -> okdl now' d.
Proof. unfold okdl. destruct d; [auto|]. intros. lia. Qed.

Lemma rel_mono b now now' o1 o2 : now <= now' -> rel b now o1 o2 -> rel b now' o1 o2.
Proof.
  intros L [H1 H2]. split.
  - intros e1 E. pose proof (olive_some _ _ _ E) as [-> A1].
    destruct (H1 e1 (olive_mono _ _ _ _ L E)) as (e2 & A & B & C & D & F).
    exists e2. apply olive_some in A. destruct A as [-> A2]. repeat split; auto.
    apply olive_alive. eapply dl_le_alive; eauto.
  - intros B e2 E. eapply okdl_mono; eauto. apply (H2 B). eapply olive_mono; eauto.
Qed.
Lemma pinv_mono b now now' l1 l2 : now <= now' -> pinv b now l1 l2 -> pinv b now' l1 l2.
Proof. intros L H k. eapply rel_mono; eauto. Qed.

Lemma rel_dead b now o1 o1' o2 : olive now o1' = None -> rel b now o1 o2 -> rel b now o1' o2.
Proof. intros E [_ H2]. split; [|exact H2]. intros e1 E1. congruence. Qed.

Lemma pinv_upd b now l1 l2 k o1 o2 :
  pinv b now l1 l2 -> rel b now o1 o2 -> pinv b now (upd l1 k o1) (upd l2 k o2).
Proof. intros H R k'. unfold upd. destruct (bytes_eqb k' k); auto. Qed.
Lemma pinv_upd1 b now l1 l2 k o1 :
  pinv b now l1 l2 -> rel b now o1 (l2 k) -> pinv b now (upd l1 k o1) l2.
Proof. intros H R k'. unfold upd. destruct (bytes_eqb k' k) eqn:E; auto. apply bytes_eqb_eq in E. subst. auto. Qed.
Lemma pinv_upd2 b now l1 l2 k o2 :
  pinv b now l1 l2 -> rel b now (l1 k) o2 -> pinv b now l1 (upd l2 k o2).
Proof. intros H R k'. unfold upd. destruct (bytes_eqb k' k) eqn:E; auto. apply bytes_eqb_eq in E. subst. auto. Qed.

Lemma pinv_evict b now l1 l2 ks : pinv b now l1 l2 -> pinv b now (evict l1 ks) l2.
Proof.
  unfold evict. revert l1. induction ks as [|k ks IH]; intros l1 H; cbn [fold_left]; [exact H|].
  apply IH. apply pinv_upd1; [exact H|]. eapply rel_dead; [reflexivity | apply (H k)].
Qed.

(* building [rel] facts *)
Lemma rel_copy b now e1 e2 :
  e_data e1 = e_data e2 -> e_flags e1 = e_flags e2 -> e_dl e1 = e_dl e2 ->
  (b = true -> okdl now (e_dl e2)) -> rel b now (Some e1) (Some e2).
Proof.
  intros Hd Hf Hl Hok. split.
  - intros e E. apply olive_some in E. destruct E as [E A]. inversion E; subst e.
    exists e2. repeat split; auto.
    + apply olive_alive. unfold alive in *. rewrite <- Hl. exact A.
    + rewrite Hl. apply dl_le_refl.
  - intros B e E. apply olive_some in E. destruct E as [E _]. inversion E; subst. auto.
Qed.
Lemma rel_pair b now e1 e2 :
  e_data e1 = e_data e2 -> e_flags e1 = e_flags e2 -> dl_le (e_dl e1) (e_dl e2) ->
  (b = true -> e_dl e1 = e_dl e2) -> (b = true -> okdl now (e_dl e2)) -> rel b now (Some e1) (Some e2).
Proof.
  intros Hd Hf Hl Heq Hok. split.
  - intros e E. apply olive_some in E. destruct E as [E A]. inversion E; subst e.
    exists e2. repeat split; auto. apply olive_alive. eapply dl_le_alive; eauto.
  - intros B e E. apply olive_some in E. destruct E as [E _]. inversion E; subst. auto.
Qed.
Lemma rel_same b now e : (b = true -> okdl now (e_dl e)) -> rel b now (Some e) (Some e).
Proof. intros. apply rel_copy; auto. Qed.
Lemma rel_dead_some b now o1 e2 :
  olive now o1 = None -> (b = true -> okdl now (e_dl e2)) -> rel b now o1 (Some e2).
Proof. intros E Hok. split; [intros e1 E1; congruence|].
  intros B e E'. apply olive_some in E'. destruct E' as [E' _]. inversion E'; subst. auto. Qed.
Lemma rel_any_none b now o1 : olive now o1 = None -> rel b now o1 None.
Proof. intros E. split; [intros e1 E1; congruence|]. intros _ e E'. discriminate. Qed.

Lemma norm_rule now ttl :
  norm now ttl = if ttl =? 0 then Never else if ttl <=? 2592000 then At (now + ttl) else At ttl.
Proof.
  unfold norm, realTimeMaxDelta. destruct (ttl =? 0); [reflexivity|].
  destruct (2592000 <? ttl) eqn:A, (ttl <=? 2592000) eqn:B; try reflexivity; lia.
Qed.
Lemma okdl_norm now ttl : ttl <= 2 * now -> okdl now (norm now ttl).
Proof.
  intros H. rewrite norm_rule. unfold okdl, realTimeMaxDelta. destruct (ttl =? 0); [exact I|].
  destruct (ttl <=? 2592000) eqn:A; lia.
Qed.

(* the L1 back-fill of L1L2Orca.Get: written with the remaining TTL that GetE reported *)
Lemma rel_backfill b now o2 e2 :
  olive now o2 = Some e2 -> (b = true -> okdl now (e_dl e2)) ->
  rel b now (Some (mkE (e_data e2) (e_flags e2) (norm now (remaining now (e_dl e2))))) o2.
Proof.
  intros E Hok. pose proof (olive_some _ _ _ E) as [-> A]. split.
  - intros e1 E1. apply olive_some in E1. destruct E1 as [E1 A1]. inversion E1; subst e1. clear E1.
    exists e2. split; [exact E|]. cbn [e_data e_flags e_dl]. split; [reflexivity|]. split; [reflexivity|].
    unfold alive in A, A1. cbn [e_dl] in A1. rewrite norm_rule in *. unfold remaining in *.
    destruct (e_dl e2) as [|t] eqn:Ed.
    + cbn. auto.
    + destruct (t - now =? 0) eqn:Z; [lia|]. destruct (t - now <=? 2592000) eqn:Y.
      * replace (now + (t - now)) with t by lia. split; [cbn; lia | auto].
      * split; [cbn; lia|]. intros B. specialize (Hok B). unfold okdl, realTimeMaxDelta in Hok. lia.
  - intros B e E'. rewrite E in E'. inversion E'; subst. auto.
Qed.

(* ---------------- std_exec, case by case ---------------- *)
Lemma st_ok : st_to_hres statusSuccess = HDone. Proof. reflexivity. Qed.
Lemma st_exists : st_to_hres statusKeyExists = HErr EKeyExists. Proof. reflexivity. Qed.
Lemma st_enoent : st_to_hres statusKeyEnoent = HErr EKeyNotFound. Proof. reflexivity. Qed.
Lemma st_notstored : st_to_hres statusNotStored = HErr EItemNotStored. Proof. reflexivity. Qed.

Section StdCases.
Variables (s : store) (now : N) (k : bytes).

Lemma std_set_set d f ttl : std_exec s now (HSet MSet k d f ttl) = (b_put s now k d f ttl, HDone).
Proof. reflexivity. Qed.
Lemma std_add_hit e d f ttl : live now s k = Some e ->
  std_exec s now (HSet MAdd k d f ttl) = (s, HErr EKeyExists).
Proof. intros H. cbn [std_exec]. unfold gb_set. rewrite H. reflexivity. Qed.
Lemma std_add_miss d f ttl : live now s k = None ->
  std_exec s now (HSet MAdd k d f ttl) = (b_put s now k d f ttl, HDone).
Proof. intros H. cbn [std_exec]. unfold gb_set. rewrite H. reflexivity. Qed.
Lemma std_rep_hit e d f ttl : live now s k = Some e ->
  std_exec s now (HSet MReplace k d f ttl) = (b_put s now k d f ttl, HDone).
Proof. intros H. cbn [std_exec]. unfold gb_set. rewrite H. reflexivity. Qed.
Lemma std_rep_miss d f ttl : live now s k = None ->
  std_exec s now (HSet MReplace k d f ttl) = (s, HErr EKeyNotFound).
Proof. intros H. cbn [std_exec]. unfold gb_set. rewrite H. reflexivity. Qed.
Lemma std_cat_hit e fr d : live now s k = Some e ->
  std_exec s now (HCat fr k d) =
  (upd s k (Some (mkE (if fr then d ++ e_data e else e_data e ++ d) (e_flags e) (e_dl e))), HDone).
Proof. intros H. cbn [std_exec]. unfold gb_cat. rewrite H. reflexivity. Qed.
Lemma std_cat_miss fr d : live now s k = None ->
  std_exec s now (HCat fr k d) = (s, HErr EItemNotStored).
Proof. intros H. cbn [std_exec]. unfold gb_cat. rewrite H. reflexivity. Qed.
Lemma std_del_hit e : live now s k = Some e -> std_exec s now (HDelete k) = (upd s k None, HDone).
Proof. intros H. cbn [std_exec]. unfold gb_delete. rewrite H. reflexivity. Qed.
Lemma std_del_miss : live now s k = None -> std_exec s now (HDelete k) = (s, HErr EKeyNotFound).
Proof. intros H. cbn [std_exec]. unfold gb_delete. rewrite H. reflexivity. Qed.
Lemma std_touch_hit e ttl : live now s k = Some e ->
  std_exec s now (HTouch k ttl) = (upd s k (Some (mkE (e_data e) (e_flags e) (norm now ttl))), HDone).
Proof. intros H. cbn [std_exec]. unfold gb_touch. rewrite H. reflexivity. Qed.
Lemma std_touch_miss ttl : live now s k = None -> std_exec s now (HTouch k ttl) = (s, HErr EKeyNotFound).
Proof. intros H. cbn [std_exec]. unfold gb_touch. rewrite H. reflexivity. Qed.
Lemma std_gat_hit e ttl o : live now s k = Some e ->
  std_exec s now (HGat k ttl o) =
  (upd s k (Some (mkE (e_data e) (e_flags e) (norm now ttl))),
   HVals [mkGR k (e_data e) (e_flags e) 0 o false false] None).
Proof. intros H. cbn [std_exec]. unfold gb_gat, gb_touch. rewrite H. reflexivity. Qed.
Lemma std_gat_miss ttl o : live now s k = None ->
  std_exec s now (HGat k ttl o) = (s, HVals [mkGR k [] 0 0 o false true] None).
Proof. intros H. cbn [std_exec]. unfold gb_gat, gb_touch. rewrite H. reflexivity. Qed.
End StdCases.

Lemma std_get_eq s now items :
  std_exec s now (HGet items) = (s, HVals (map (std_get1 s now false) items) None).
Proof. reflexivity. Qed.
Lemma std_gete_eq s now items :
  std_exec s now (HGetE items) = (s, HVals (map (std_get1 s now true) items) None).
Proof. reflexivity. Qed.

(* std_exec respects pointwise equality of stores *)
Lemma std_get1_ext now s t w it : store_eq s t -> std_get1 s now w it = std_get1 t now w it.
Proof. intros H. unfold std_get1, gb_get. rewrite (store_eq_live now s t _ H). reflexivity. Qed.

Lemma std_exec_ext s t now q : store_eq s t ->
  store_eq (fst (std_exec s now q)) (fst (std_exec t now q)) /\ snd (std_exec s now q) = snd (std_exec t now q).
Proof.
  intros H. destruct q as [m k d f ttl|fr k d|k|k ttl|items|items|k ttl o]; cbn [std_exec].
  - unfold gb_set, gb_put. rewrite (store_eq_live now s t k H).
    destruct m, (live now t k); cbn [fst snd]; split; auto using store_eq_upd.
  - unfold gb_cat. rewrite (store_eq_live now s t k H).
    destruct (live now t k); cbn [fst snd]; split; auto using store_eq_upd.
  - unfold gb_delete. rewrite (store_eq_live now s t k H).
    destruct (live now t k); cbn [fst snd]; split; auto using store_eq_upd.
  - unfold gb_touch. rewrite (store_eq_live now s t k H).
    destruct (live now t k); cbn [fst snd]; split; auto using store_eq_upd.
  - cbn [fst snd]. split; [exact H|]. f_equal. apply map_ext. intros it. apply std_get1_ext; auto.
  - cbn [fst snd]. split; [exact H|]. f_equal. apply map_ext. intros it. apply std_get1_ext; auto.
  - unfold gb_gat, gb_touch. rewrite (store_eq_live now s t k H).
    destruct (live now t k); cbn [fst snd]; split; auto using store_eq_upd.
Qed.

(* ---------------- run ---------------- *)
Lemma run_emits h1 h2 cs p l1 l2 now :
  run h1 h2 (emits cs p) l1 l2 now =
  let '(a, b, cs', e) := run h1 h2 p l1 l2 now in (a, b, cs ++ cs', e).
Proof.
  induction cs as [|c cs IH]; cbn [emits run app].
  - destruct (run h1 h2 p l1 l2 now) as [[[a b] cs'] e]. reflexivity.
  - rewrite IH. destruct (run h1 h2 p l1 l2 now) as [[[a b] cs'] e]. reflexivity.
Qed.

Lemma run_thenp h1 h2 p q now : forall l1 l2,
  run h1 h2 (thenp p q) l1 l2 now =
  let '(a, b, cs, e) := run h1 h2 p l1 l2 now in
  match e with
  | None => let '(a', b', cs', e') := run h1 h2 q a b now in (a', b', cs ++ cs', e')
  | Some x => (a, b, cs, Some x)
  end.
Proof.
  induction p as [e|t hq k IH|c p IH]; intros l1 l2.
  - destruct e as [x|]; cbn [thenp run].
    + reflexivity.
    + destruct (run h1 h2 q l1 l2 now) as [[[a b] cs'] e']. reflexivity.
  - destruct t; cbn [thenp run].
    + destruct (h1 l1 now hq) as [l1' r]. apply IH.
    + destruct (h2 l2 now hq) as [l2' r]. apply IH.
  - cbn [thenp run]. rewrite IH. destruct (run h1 h2 p l1 l2 now) as [[[a b] cs] e].
    destruct e as [x|]; [reflexivity|]. destruct (run h1 h2 q a b now) as [[[a' b'] cs'] e']. reflexivity.
Qed.

(* programs that never call L2 *)
Fixpoint noL2 (p : prog) : Prop :=
  match p with
  | Ret _ => True
  | Call L1 _ k => forall h, noL2 (k h)
  | Call L2 _ _ => False
  | Emit _ p' => noL2 p'
  end.
Lemma noL2_emits cs p : noL2 p -> noL2 (emits cs p).
Proof. induction cs; cbn [emits noL2]; auto. Qed.
Lemma noL2_l1only r : noL2 (l1only r).
Proof.
  destruct r; cbn [l1only orca_misc noL2]; auto; intros h; destruct h as [e| |rs e]; cbn [noL2]; auto.
  - destruct rs as [|g [|g' rs]]; cbn [noL2]; auto. destruct e; cbn [noL2]; auto.
  - destruct e; apply noL2_emits; cbn [noL2]; auto.
  - destruct e; apply noL2_emits; cbn [noL2]; auto.
Qed.

Lemma run_congr p : noL2 p -> forall s t x y now, store_eq s t ->
  let '(s', x', cs, e) := run std_exec std_exec p s x now in
  let '(t', y', cs', e') := run std_exec std_exec p t y now in
  store_eq s' t' /\ x' = x /\ y' = y /\ cs = cs' /\ e = e'.
Proof.
  induction p as [e|tr q k IH|c p IH]; intros N s t x y now H.
  - cbn [run]. auto.
  - destruct tr; [|destruct N]. cbn [run noL2] in *.
    destruct (std_exec_ext s t now q H) as [A B].
    destruct (std_exec s now q) as [s1 r1], (std_exec t now q) as [t1 r2]. cbn [fst snd] in A, B. subst r2.
    apply IH; auto.
  - cbn [run noL2] in *. specialize (IH N s t x y now H).
    destruct (run std_exec std_exec p s x now) as [[[a b'] cs] e].
    destruct (run std_exec std_exec p t y now) as [[[a' b''] cs'] e'].
    destruct IH as (A & B & C & D & E). subst. auto.
Qed.

(* ---------------- frames ---------------- *)
Lemma frames_app p a b : frames p (a ++ b) = frames p a ++ frames p b.
Proof. unfold frames. rewrite map_app, filter_app. reflexivity. Qed.
Lemma frames_cons p c cs : frames p (c :: cs) = frames p [c] ++ frames p cs.
Proof. apply (frames_app p [c] cs). Qed.
Lemma frames_nil p : frames p [] = []. Proof. reflexivity. Qed.
Lemma frames_one_len p c : (length (frames p [c]) <= 1)%nat.
Proof. unfold frames. cbn [map filter]. destruct (render p c); cbn [length]; lia. Qed.

Lemma perm_small {A} (l l' : list A) : (length l <= 1)%nat -> Permutation l' l -> l' = l.
Proof.
  destruct l as [|a [|b l]]; cbn [length]; intros L P.
  - apply Permutation_sym in P. apply Permutation_nil in P. exact P.
  - apply Permutation_sym in P. apply Permutation_length_1_inv in P. exact P.
  - lia.
Qed.
