(* MapSpec.v — the reference: one memcached-style key-value map with expiry.
   Meant to be read in five minutes. The b_* operations are the semantics of one backend
   (what memcached does; what the harness's fake backend implements and is compared with);
   spec_step is the single-map behaviour that properties C01, C02, C04, C09, C17 refer to. *)
From Rend Require Import base.Bytes gen.Consts_gen.
Open Scope N_scope.

Inductive deadline := Never | At (t : N).
Record entry := mkE { e_data : bytes; e_flags : N; e_dl : deadline }.

(* stores are total functions, compared pointwise *)
Definition store := bytes -> option entry.
Definition empty_store : store := fun _ => None.
Definition upd (s : store) (k : bytes) (v : option entry) : store :=
  fun k' => if bytes_eqb k' k then v else s k'.

(* memcached: an item is expired iff exptime <> 0 and exptime <= current_time *)
Definition alive (now : N) (e : entry) : bool :=
  match e_dl e with Never => true | At t => now <? t end.
Definition live (now : N) (s : store) (k : bytes) : option entry :=
  match s k with Some e => if alive now e then Some e else None | None => None end.

(* TTL -> deadline: 0 never; above 30 days an absolute time; otherwise relative to now *)
Definition norm (now ttl : N) : deadline :=
  if ttl =? 0 then Never else if realTimeMaxDelta <? ttl then At ttl else At (now + ttl).
(* what `gete` reports: remaining lifetime in seconds, 0 for never *)
Definition remaining (now : N) (d : deadline) : N :=
  match d with Never => 0 | At t => t - now end.

Inductive smode := MSet | MAdd | MReplace.

(* The operations are generic in the TTL rule [nrm] (memcached's is [norm]; the in-memory
   debug backend has its own), so that "the reference map" is one definition. *)
Section Generic.
Variable nrm : N -> N -> deadline.

(* ---- backend operations: store -> now -> ... -> store * wire status ---- *)
Definition gb_put (s : store) (now : N) (k d : bytes) (f ttl : N) : store :=
  upd s k (Some (mkE d f (nrm now ttl))).

Definition gb_set (m : smode) (s : store) (now : N) (k d : bytes) (f ttl : N) : store * N :=
  match m, live now s k with
  | MSet, _ => (gb_put s now k d f ttl, statusSuccess)
  | MAdd, Some _ => (s, statusKeyExists)
  | MAdd, None => (gb_put s now k d f ttl, statusSuccess)
  | MReplace, Some _ => (gb_put s now k d f ttl, statusSuccess)
  | MReplace, None => (s, statusKeyEnoent)
  end.

(* append (front = false) / prepend (front = true): flags and deadline unchanged *)
Definition gb_cat (front : bool) (s : store) (now : N) (k d : bytes) : store * N :=
  match live now s k with
  | Some e => (upd s k (Some (mkE (if front then d ++ e_data e else e_data e ++ d) (e_flags e) (e_dl e))),
               statusSuccess)
  | None => (s, statusNotStored)
  end.

Definition gb_delete (s : store) (now : N) (k : bytes) : store * N :=
  match live now s k with
  | Some _ => (upd s k None, statusSuccess)
  | None => (s, statusKeyEnoent)
  end.

Definition gb_touch (s : store) (now : N) (k : bytes) (ttl : N) : store * N :=
  match live now s k with
  | Some e => (upd s k (Some (mkE (e_data e) (e_flags e) (nrm now ttl))), statusSuccess)
  | None => (s, statusKeyEnoent)
  end.

Definition gb_get (s : store) (now : N) (k : bytes) : option entry := live now s k.

(* get-and-touch: the value as it was, deadline replaced *)
Definition gb_gat (s : store) (now : N) (k : bytes) (ttl : N) : store * option entry :=
  (fst (gb_touch s now k ttl), live now s k).

(* ---- client-level commands and outcomes ---- *)
Inductive cmd :=
| CSet (m : smode) (k d : bytes) (f ttl : N)
| CCat (front : bool) (k d : bytes)
| CDelete (k : bytes)
| CTouch (k : bytes) (ttl : N)
| CGet (ks : list bytes)
| CGat (k : bytes) (ttl : N).

(* outcome classes: what the property text fixes. Values carry data and flags. *)
Inductive outcome :=
| OOk                                       (* stored / deleted / touched *)
| OMiss                                     (* not found / not stored because absent *)
| OExists                                   (* add on a live key *)
| OVals (vs : list (option (bytes * N))).    (* per requested key: Some (data, flags) or None *)

Definition classify (st : N) : outcome :=
  if st =? statusSuccess then OOk else if st =? statusKeyExists then OExists else OMiss.

Definition view (o : option entry) : option (bytes * N) :=
  match o with Some e => Some (e_data e, e_flags e) | None => None end.

Definition gspec_step (s : store) (now : N) (c : cmd) : store * outcome :=
  match c with
  | CSet m k d f ttl => let '(s', st) := gb_set m s now k d f ttl in (s', classify st)
  | CCat front k d => let '(s', st) := gb_cat front s now k d in (s', classify st)
  | CDelete k => let '(s', st) := gb_delete s now k in (s', classify st)
  | CTouch k ttl => let '(s', st) := gb_touch s now k ttl in (s', classify st)
  | CGet ks => (s, OVals (map (fun k => view (gb_get s now k)) ks))
  | CGat k ttl => let '(s', o) := gb_gat s now k ttl in (s', OVals [view o])
  end.

(* a history: commands with their (non-decreasing) clock readings *)
Fixpoint gspec_run (s : store) (h : list (N * cmd)) : store * list outcome :=
  match h with
  | [] => (s, [])
  | (now, c) :: r => let '(s1, o) := gspec_step s now c in
                     let '(s2, os) := gspec_run s1 r in (s2, o :: os)
  end.

End Generic.

(* the memcached instances *)
Notation b_put := (gb_put norm).
Notation b_set := (gb_set norm).
Notation b_cat := gb_cat.
Notation b_delete := gb_delete.
Notation b_touch := (gb_touch norm).
Notation b_get := gb_get.
Notation b_gat := (gb_gat norm).
Notation spec_step := (gspec_step norm).
Notation spec_run := (gspec_run norm).

(* ---- helpers for executable comparison with dumps ---- *)
Definition dl_eqb (a b : deadline) : bool :=
  match a, b with Never, Never => true | At x, At y => x =? y | _, _ => false end.
Definition entry_eqb (a b : entry) : bool :=
  bytes_eqb (e_data a) (e_data b) && (e_flags a =? e_flags b) && dl_eqb (e_dl a) (e_dl b).
Definition oentry_eqb (a b : option entry) : bool :=
  match a, b with Some x, Some y => entry_eqb x y | None, None => true | _, _ => false end.
(* a dumped store: association list; later bindings are shadowed by earlier ones *)
Fixpoint of_dump (l : list (bytes * entry)) : store :=
  match l with [] => empty_store | (k, e) :: r => upd (of_dump r) k (Some e) end.
Definition stores_agree (now : N) (keys : list bytes) (a b : store) : bool :=
  forallb (fun k => oentry_eqb (live now a k) (live now b k)) keys.
