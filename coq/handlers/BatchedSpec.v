(* BatchedSpec.v — definitions used by the statements of C06 / C13 (no proofs here). *)
From Coq Require Import Permutation.
From Rend Require Import base.Bytes gen.Consts_gen spec.MapSpec orca.Types handlers.Std handlers.Batched.
Open Scope N_scope.

Definition store_eq (a b : store) : Prop := forall k, a k = b k.

Definition total_expected (reqs : list qreq) : nat := fold_right (fun r a => (expected (q_req r) + a)%nat) 0%nat reqs.

(* a batch as conn.batcher builds it: random base from rand.Int31() (< 2^31), one response
   channel per request, fewer than 2^31 replies expected *)
Definition wf_batch (base : N) (reqs : list qreq) : Prop :=
  base < 2147483648 /\ NoDup (map q_chan reqs) /\ N.of_nat (total_expected reqs) + N.of_nat (length reqs) < 2147483648.

Fixpoint assoc_chan (hs : list (nat * hres)) (c : nat) : option hres :=
  match hs with [] => None | (c', h) :: r => if Nat.eqb c' c then Some h else assoc_chan r c end.

(* the pre-fix retry request: only ONE of the outstanding non-quiet items was kept *)
Definition old_retry_request (pending : list gitem) : list gitem :=
  filter gi_quiet pending ++ match rev (filter (fun it => negb (gi_quiet it)) pending) with [] => [] | x :: _ => [x] end.
