(* ChunkedFaultsLater.v — what a LATER fault-free read returns after a call under faults
   (set / delete), and append / prepend under any fault plan. *)
From Coq Require Import String.
From Rend Require Import base.Bytes gen.Consts_gen spec.MapSpec orca.Types handlers.ChunkFmt
  handlers.ChunkFmtProofs handlers.Chunked handlers.ChunkedSpec handlers.ChunkedProofs
  handlers.ChunkedRefBase handlers.ChunkedRefCmds handlers.ChunkedFaults handlers.ChunkedFaultsProofs
  handlers.ChunkedFaultsRead handlers.ChunkedFaultsWrite handlers.ChunkedFaultsSpec handlers.ChunkedFaultsAfter.
Open Scope N_scope.

Lemma c_exptime_small now e : now < 2147483648 -> e < 4294967296 -> fst (c_exptime now e) < 4294967296.
Proof.
  intros Hn He. unfold c_exptime. destruct (e =? 0); [cbn [fst]; lia|].
  destruct (realTimeMaxDelta <? e) eqn:E; cbn [fst]; [lia|]. apply N.ltb_ge in E. rewrite realTimeMaxDelta_val in E. lia.
Qed.

Section Small.
Variables (now : N) (tok k d : bytes) (f ttl : N).
Hypothesis Hk : 1 <= len k <= 250.
Hypothesis Htok : len tok = tokenSize.
Hypothesis Hd : len d < 4294967296.
Hypothesis Hf : f < 4294967296.
Hypothesis Hnow : now < 4294967296.
Hypothesis Hexpb : fst (c_exptime now ttl) < 4294967296.
Local Notation ME := (mkE (enc_meta (set_meta tok now k d f ttl)) f (norm now ttl)).

Lemma new_meta_small st : st (meta_key k) = Some ME -> meta_small st now k.
Proof.
  intros H me Hm. apply live_some in Hm. destruct Hm as [Hm _]. rewrite H in Hm. inversion Hm; subst me. cbn [e_data].
  rewrite (set_meta_rt now tok k d f ttl Hk Htok Hd Hf Hnow Hexpb). unfold set_meta. cbn [m_nchunks].
  pose proof (ds_bounds k Hk). apply nchunks_bound; [lia|exact Hd].
Qed.

Lemma meta_cases_small s st : meta_small s now k ->
  st (meta_key k) = s (meta_key k) \/ st (meta_key k) = None \/ st (meta_key k) = Some ME -> meta_small st now k.
Proof.
  intros Hs [H|[H|H]].
  - intros me Hm. apply Hs. rewrite live_lv, <- H, <- live_lv. exact Hm.
  - intros me Hm. rewrite (live_none_of_none now st _ H) in Hm. discriminate.
  - apply new_meta_small. exact H.
Qed.
End Small.

(* ================= set ================= *)
Lemma set_acked_written pl tok now s m k d f ttl s' :
  plan_ok pl -> 1 <= len k <= 250 -> len d < 4294967296 -> snd (c_exptime now ttl) = false ->
  chunked_exec_f pl tok now s now (HSet m k d f ttl) = (s', CRes HDone) ->
  written s' now tok now k d f ttl.
Proof.
  intros Hpl Hk Hd Hexp H. unfold chunked_exec_f in H. cbn [chunked_prog_f chunked_prog] in H.
  apply (set_done_nofault pl _ _ _ _ _ _ _ _ _ _ _ Hpl) in H.
  assert (Hp : set_passes m s now k).
  { destruct m; cbn [set_passes]; [exact I| |].
    - destruct (live now s (meta_key k)) as [me|] eqn:Hm; [|reflexivity].
      rewrite (set_add_exists s now tok now k d f ttl me Hexp Hm) in H. inversion H.
    - destruct (live now s (meta_key k)) as [me|] eqn:Hm; [discriminate|].
      rewrite (set_replace_missing s now tok now k d f ttl Hexp Hm) in H. inversion H. }
  destruct (set_run s now tok now m k d f ttl Hk Hd Hexp Hp) as [_ HW]. rewrite H in HW. exact HW.
Qed.

(* ---- c10_chunked_set_acked_read ---- *)
Lemma set_acked_read pl tok now s m k d f ttl s' :
  plan_ok pl -> 1 <= len k <= 250 -> len tok = tokenSize -> len d < 4294967296 -> f < 4294967296 ->
  now < 4294967296 -> ttl < 4294967296 -> now + ttl < 4294967296 -> snd (c_exptime now ttl) = false ->
  chunked_exec_f pl tok now s now (HSet m k d f ttl) = (s', CRes HDone) ->
  let v := view (lv now (Some (mkE d f (norm now ttl)))) in
  (forall opq qt, reads_as (read_get s' now k opq qt) v) /\ (forall ttl2 opq, reads_as (read_gat s' now k ttl2 opq) v).
Proof.
  intros Hpl Hk Htok Hd Hf Hnow Httl Hsum Hexp H v.
  pose proof (c_exptime_bound now ttl Httl Hsum) as Hexpb.
  pose proof (set_acked_written pl tok now s m k d f ttl s' Hpl Hk Hd Hexp H) as HW.
  assert (Hs : meta_small s' now k) by (apply (new_meta_small now tok k d f ttl); try assumption; apply HW).
  assert (Hv : cview s' now k = v).
  { unfold cview, v. f_equal. apply (set_acked_f pl tok now s m k d f ttl s'); assumption. }
  rewrite <- Hv. split; intros; [apply get_reads_as|apply gat_reads_as]; exact Hs.
Qed.

(* ---- c10_chunked_set_aon_read ---- *)
Lemma set_aon_read pl s now tok k d f ttl :
  plan_ok pl -> 1 <= len k <= 250 -> len tok = tokenSize -> len d < 4294967296 -> f < 4294967296 ->
  now < 4294967296 -> fst (c_exptime now ttl) < 4294967296 -> fresh_tok s now k tok -> meta_small s now k ->
  forall m, snd (c_exptime now ttl) = false ->
  let st := fst (chunked_exec_f pl tok now s now (HSet m k d f ttl)) in
  exists v, (v = None \/ v = cview s now k \/ v = Some (d, f)) /\
            (forall opq qt, reads_as (read_get st now k opq qt) v) /\
            (forall ttl2 opq, reads_as (read_gat st now k ttl2 opq) v).
Proof.
  intros Hpl Hk Htok Hd Hf Hnow Hexpb Hfresh Hsm m Hexp st.
  destruct (set_aon_run pl s now tok k d f ttl Hpl Hk Htok Hd Hf Hnow Hexpb Hfresh m 0%nat Hexp) as [Hv Hm].
  fold (chunked_exec_f pl tok now s now (HSet m k d f ttl)) in Hv, Hm. fold st in Hv, Hm.
  assert (Hs : meta_small st now k) by (apply (meta_cases_small now tok k d f ttl Hk Htok Hd Hf Hnow Hexpb s st Hsm Hm)).
  exists (cview st now k). split; [exact Hv|]. split; intros; [apply get_reads_as|apply gat_reads_as]; exact Hs.
Qed.

(* ---- c10_chunked_delete_acked_read ---- *)
Lemma delete_acked_read pl tok cnow s now k s' :
  plan_ok pl -> chunked_exec_f pl tok cnow s now (HDelete k) = (s', CRes HDone) ->
  (forall opq qt, read_get s' now k opq qt = HVals [mkGR k [] 0 0 opq qt true] None) /\
  (forall ttl2 opq, read_gat s' now k ttl2 opq = HVals [mkGR k [] 0 0 opq false true] None).
Proof.
  intros Hpl H. pose proof (delete_acked_f pl tok cnow s now k s' Hpl H) as Hl.
  assert (Hs : meta_small s' now k) by (intros me Hm; rewrite Hl in Hm; discriminate).
  split; intros.
  - rewrite (get_is_abs _ _ _ _ _ Hs). unfold owed_item. rewrite (abs_entry_none _ _ _ Hl), Hl. reflexivity.
  - rewrite (gat_is_abs _ _ _ _ _ Hs). unfold owed_item. rewrite (abs_entry_none _ _ _ Hl), Hl. reflexivity.
Qed.

(* ================= append / prepend ================= *)
Lemma set_dead pl tok cnow m k d f ttl s now i :
  frun pl (embed (chunked_set tok cnow m k d f ttl)) s now i true =
  (s, CRes (if snd (c_exptime cnow ttl) then HDone else HErr EIO)).
Proof. unfold chunked_set. destruct (c_exptime cnow ttl) as [e x]. destruct x; reflexivity. Qed.

Lemma set_expired pl tok cnow m k d f ttl s now i dd : snd (c_exptime cnow ttl) = true ->
  frun pl (embed (chunked_set tok cnow m k d f ttl)) s now i dd = (s, CRes HDone).
Proof. unfold chunked_set. destruct (c_exptime cnow ttl) as [e x]. cbn [snd]. intros ->. reflexivity. Qed.

Definition catv (front : bool) (d old : bytes) : bytes := if front then d ++ old else old ++ d.

Section Cat.
Variables (pl : cplan) (s : store) (now : N) (tok k d : bytes) (front : bool).
Hypothesis Hpl : plan_ok pl.
Hypothesis Hk : 1 <= len k <= 250.
Hypothesis W : wf_key s now k.

Local Notation X := (chunked_exec_f pl tok now s now (HCat front k d)).

(* the call ends in an error with only losses / re-deadlining behind it, or goes on to re-store
   exactly the old value extended *)
Lemma cat_cases :
  exists s2, lsub now s s2 /\
    ((exists e, X = (s2, CRes (HErr e))) \/
     (exists me i2 d2, live now s (meta_key k) = Some me /\
        let md := dec_meta (e_data me) in
        exists old, cview s now k = Some (old, m_flags md) /\
        X = frun pl (embed (chunked_set tok now MSet k (catv front d old) (m_flags md) (m_exptime md))) s2 now i2 d2)).
Proof.
  unfold chunked_exec_f. cbn [chunked_prog_f]. unfold chunked_cat_f.
  match goal with |- context [with_meta_f _ ?m ?f (fun md => read_chunks_f k md None _ (@?c md))] =>
    destruct (read_path_f pl now s k (QGet (meta_key k)) None m f c Hpl eq_refl (fun s' => get_reply s' now k) 0%nat)
      as (s2 & i2 & d2 & L2 & [E|[[e E]|(me & d0 & mm & Hm & E & Hd0)]]) end; exists s2; (split; [exact L2|]).
  - left. exists EKeyNotFound. rewrite E. reflexivity.
  - left. exists e. rewrite E. reflexivity.
  - cbv beta iota in E. destruct mm.
    + left. exists EKeyNotFound. rewrite E. reflexivity.
    + right. exists me, i2, d2. split; [exact Hm|]. cbv zeta. exists d0. split.
      * destruct Hd0 as [Hd0|Hd0]; [discriminate|]. rewrite (wf_cview s now k me Hk W Hm), Hd0. reflexivity.
      * rewrite E. unfold catv. reflexivity.
Qed.

Hypothesis Htok : len tok = tokenSize.
Hypothesis Hnow : now < 2147483648.
Hypothesis Hfit : forall old fl, cview s now k = Some (old, fl) -> len old + len d < 4294967296.

Lemma catv_len old : len (catv front d old) = len old + len d.
Proof. unfold catv. destruct front; rewrite len_app; lia. Qed.

(* ---- c10_chunked_cat_aon ---- *)
Lemma cat_aon_f : fresh_tok s now k tok ->
  let st := fst X in
  (cview st now k = None \/ cview st now k = cview s now k \/
   exists old fl, cview s now k = Some (old, fl) /\ cview st now k = Some (catv front d old, fl)) /\
  meta_small st now k.
Proof.
  intros Hfresh st. unfold st.
  pose proof (wf_meta_small s now k Hk W) as Hsm.
  assert (Hlsm : forall s2, lsub now s s2 -> meta_small s2 now k).
  { intros s2 L me Hm. destruct (L _ _ Hm) as (me0 & Hm0 & Hd & _). rewrite Hd. apply Hsm. exact Hm0. }
  destruct cat_cases as (s2 & L2 & [[e E]|(me & i2 & d2 & Hm & C)]).
  - rewrite E. cbn [fst]. split; [|apply Hlsm; exact L2].
    destruct (lsub_cview now s s2 k L2) as [H|H]; [left|right; left]; exact H.
  - cbv zeta in C. destruct C as (old & Hv & E). rewrite E. clear E.
    set (md := dec_meta (e_data me)) in *.
    destruct (W me Hm) as (_ & _ & W3 & _ & _ & W6 & _). fold md in W3, W6.
    assert (Hs2 : cview s2 now k = None \/ cview s2 now k = cview s now k) by (apply lsub_cview; exact L2).
    destruct d2.
    + rewrite set_dead. cbn [fst]. split; [|apply Hlsm; exact L2]. destruct Hs2 as [H|H]; [left|right; left]; exact H.
    + destruct (snd (c_exptime now (m_exptime md))) eqn:Hexp.
      * rewrite set_expired by exact Hexp. cbn [fst]. split; [|apply Hlsm; exact L2].
        destruct Hs2 as [H|H]; [left|right; left]; exact H.
      * assert (Hd' : len (catv front d old) < 4294967296) by (rewrite catv_len; exact (Hfit _ _ Hv)).
        assert (Hexpb : fst (c_exptime now (m_exptime md)) < 4294967296) by (apply c_exptime_small; assumption).
        assert (Hfr2 : fresh_tok s2 now k tok).
        { intros j e Hl. destruct (L2 _ _ Hl) as (e0 & Hl0 & Hd0 & _). rewrite Hd0. exact (Hfresh _ _ Hl0). }
        destruct (set_aon_run pl s2 now tok k (catv front d old) (m_flags md) (m_exptime md) Hpl Hk Htok Hd' W3
                    ltac:(lia) Hexpb Hfr2 MSet i2 Hexp) as [Hview Hmeta].
        split.
        -- destruct Hview as [H|[H|H]]; [left; exact H| |right; right; exists old, (m_flags md); split; [exact Hv|exact H]].
           rewrite H. destruct Hs2 as [H2|H2]; [left|right; left]; exact H2.
        -- apply (meta_cases_small now tok k (catv front d old) (m_flags md) (m_exptime md) Hk Htok Hd' W3 ltac:(lia) Hexpb s2 _ (Hlsm s2 L2) Hmeta).
Qed.

(* ---- c10_chunked_cat_acked ---- *)
Lemma cat_acked_f s' : realTimeMaxDelta < now -> X = (s', CRes HDone) ->
  exists old fl, cview s now k = Some (old, fl) /\ cview s' now k = Some (catv front d old, fl) /\ meta_small s' now k.
Proof.
  intros Hrt HX.
  destruct cat_cases as (s2 & L2 & [[e E]|(me & i2 & d2 & Hm & C)]).
  - rewrite E in HX. inversion HX.
  - cbv zeta in C. destruct C as (old & Hv & E). rewrite E in HX. clear E.
    set (md := dec_meta (e_data me)) in *.
    destruct (W me Hm) as (_ & W2 & W3 & _ & _ & W6 & _). fold md in W2, W3, W6.
    pose proof (live_some _ _ _ _ Hm) as [_ Hal].
    destruct (exptime_reuse now md (e_dl me) W2 Hal Hrt) as [Hnorm Hce].
    assert (Hexp : snd (c_exptime now (m_exptime md)) = false) by (rewrite Hce; reflexivity).
    destruct d2; [rewrite set_dead, Hexp in HX; inversion HX|].
    apply (set_done_nofault pl _ _ _ _ _ _ _ _ _ _ _ Hpl) in HX.
    assert (Hd' : len (catv front d old) < 4294967296) by (rewrite catv_len; exact (Hfit _ _ Hv)).
    destruct (set_run s2 now tok now MSet k (catv front d old) (m_flags md) (m_exptime md) Hk Hd' Hexp I) as [_ HW].
    rewrite HX in HW. cbn [fst] in HW.
    assert (Hexpb : fst (c_exptime now (m_exptime md)) < 4294967296) by (rewrite Hce; exact W6).
    exists old, (m_flags md). split; [exact Hv|]. split.
    + unfold cview. rewrite (written_abs s' now tok k (catv front d old) (m_flags md) (m_exptime md)) by first [assumption|lia].
      rewrite Hnorm. unfold lv. rewrite alive_norm_entry. change (alive now (mkE [] 0 (e_dl me))) with (alive now me). rewrite Hal. reflexivity.
    + apply (new_meta_small now tok k (catv front d old) (m_flags md) (m_exptime md)); first [assumption|lia|apply HW].
Qed.
End Cat.

(* read forms *)
Lemma cat_acked_read pl s now tok k d front s' :
  plan_ok pl -> 1 <= len k <= 250 -> wf_key s now k -> len tok = tokenSize -> now < 2147483648 ->
  (forall old fl, cview s now k = Some (old, fl) -> len old + len d < 4294967296) ->
  realTimeMaxDelta < now -> chunked_exec_f pl tok now s now (HCat front k d) = (s', CRes HDone) ->
  exists old fl, cview s now k = Some (old, fl) /\
    (forall opq qt, reads_as (read_get s' now k opq qt) (Some (catv front d old, fl))) /\
    (forall ttl2 opq, reads_as (read_gat s' now k ttl2 opq) (Some (catv front d old, fl))).
Proof.
  intros Hpl Hk W Htok Hnow Hfit Hrt HX.
  destruct (cat_acked_f pl s now tok k d front Hpl Hk W Htok Hnow Hfit s' Hrt HX) as (old & fl & Hv & Hv' & Hs).
  exists old, fl. split; [exact Hv|]. rewrite <- Hv'. split; intros; [apply get_reads_as|apply gat_reads_as]; exact Hs.
Qed.

Lemma cat_aon_read pl s now tok k d front :
  plan_ok pl -> 1 <= len k <= 250 -> wf_key s now k -> len tok = tokenSize -> now < 2147483648 ->
  (forall old fl, cview s now k = Some (old, fl) -> len old + len d < 4294967296) ->
  fresh_tok s now k tok ->
  let st := fst (chunked_exec_f pl tok now s now (HCat front k d)) in
  exists v, (v = None \/ v = cview s now k \/ exists old fl, cview s now k = Some (old, fl) /\ v = Some (catv front d old, fl)) /\
            (forall opq qt, reads_as (read_get st now k opq qt) v) /\
            (forall ttl2 opq, reads_as (read_gat st now k ttl2 opq) v).
Proof.
  intros Hpl Hk W Htok Hnow Hfit Hfresh st.
  destruct (cat_aon_f pl s now tok k d front Hpl Hk W Htok Hnow Hfit Hfresh) as [Hv Hs]. fold st in Hv, Hs.
  exists (cview st now k). split; [exact Hv|]. split; intros; [apply get_reads_as|apply gat_reads_as]; exact Hs.
Qed.
