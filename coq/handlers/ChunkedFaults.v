(* ChunkedFaults.v — the chunked handler (handlers/memcached/chunked) under backend faults.
   Definitions only; proofs in ChunkedFaultsProofs.v, statements in props/C10chunk.v.

   The adversary may hit ANY backend request of a handler call (any number of them):
   - CFStatus st     the backend answers with error status st and does NOT apply the request; a
                     "not found" / "not stored" status is made truthful as in orca/Faults.v: the
                     request's key vanishes from the backend at that moment;
   - CFBreak false   the connection breaks before the request is applied;
   - CFBreak true    the connection breaks after the request was applied, before its reply.
   Once the connection is broken nothing later reaches the backend.

   What the handler does with a failing request is mirrored from handler.go / localComm.go:
   - an error status is drained and mapped through binprot.DecodeError; the sequential programs
     of Chunked.v already encode what each command does with it (set / touch / delete of the
     metadata return it; "not found" in a pipelined batch of deletes / touches is a miss, any
     other status there is ignored), so they are reused unchanged through [embed];
   - a connection that breaks while the handler waits for the reply to a SET request
     (handleSetCommon: metadata and every chunk; Touch: the rewritten metadata) makes it
     dereference the nil header readResponseHeader returned: a PANIC;
   - any other request whose reply cannot be read yields an I/O error value: getMetadata and the
     metadata delete return it, the pipelined deletes / touches IGNORE it (Delete then reports
     success, Touch goes on to write the metadata on the dead connection and returns that
     Flush error);
   - the read loop of Get / GAT / Append / Prepend (getq* + noop): an I/O error ends the call
     with that error; an application status other than "not found" on a chunk is remembered and
     returned once the noop has arrived (the last one wins); "not found" counts as a missing
     chunk; the status of the noop reply itself is not looked at.
   Termination / containment of a handler call under any plan is by construction: [frun] is a
   structural recursion over a well-founded program, every request is answered or fails. *)
From Coq Require Import String.
From Rend Require Import base.Bytes gen.Consts_gen spec.MapSpec orca.Types handlers.ChunkFmt
  handlers.Chunked handlers.ChunkedSpec.
Open Scope N_scope.

Inductive cfault := CFStatus (st : N) | CFBreak (applied : bool).
(* the fault plan: what happens to the i-th backend request of the call *)
Definition cplan := nat -> option cfault.
Definition no_cfaults : cplan := fun _ => None.
(* injected statuses are error statuses binprot.DecodeError knows (an unknown status is taken for
   success by the handler: finding, DESIGN.md §8-21, not part of this model) *)
Definition plan_ok (pl : cplan) : Prop := forall i st, pl i = Some (CFStatus st) -> err_of_status st <> None.

(* what the handler learns about one request *)
Inductive frep :=
| FRep (r : bres)   (* a reply (possibly an injected status) or, for a quiet get, silence *)
| FBroke            (* the request was written, the connection broke before its reply could be read *)
| FDead.            (* the connection was already broken: the request could not even be written *)

(* result of a handler call: a value or a panic (nil header dereference) *)
Inductive cout := CRes (r : hres) | CPanic.

Inductive fprog (A : Type) :=
| FRet (a : A)
| FReq (q : breq) (k : frep -> fprog A).
Arguments FRet {A} a.
Arguments FReq {A} q k.

(* the backend after an injected status reply to request q *)
Definition status_store (s : store) (st : N) (q : breq) : store :=
  match key_of q with
  | Some k => if (st =? statusKeyEnoent) || (st =? statusNotStored) then upd s k None else s
  | None => s
  end.

(* run from request index i; dead = the connection is already broken *)
Fixpoint frun {A} (pl : cplan) (p : fprog A) (s : store) (now : N) (i : nat) (dead : bool) : store * A :=
  match p with
  | FRet a => (s, a)
  | FReq q k =>
      if dead then frun pl (k FDead) s now (S i) true
      else match pl i with
           | None => let '(s', r) := b_exec s now q in frun pl (k (FRep r)) s' now (S i) false
           | Some (CFStatus st) => frun pl (k (FRep (BStatus st))) (status_store s st q) now (S i) false
           | Some (CFBreak applied) =>
               frun pl (k FBroke) (if applied then fst (b_exec s now q) else s) now (S i) true
           end
  end.

(* the requests that reached the backend *)
Fixpoint ftrace {A} (pl : cplan) (p : fprog A) (s : store) (now : N) (i : nat) (dead : bool) : list breq :=
  match p with
  | FRet _ => []
  | FReq q k =>
      if dead then ftrace pl (k FDead) s now (S i) true
      else q :: match pl i with
                | None => let '(s', r) := b_exec s now q in ftrace pl (k (FRep r)) s' now (S i) false
                | Some (CFStatus st) => ftrace pl (k (FRep (BStatus st))) (status_store s st q) now (S i) false
                | Some (CFBreak applied) =>
                    ftrace pl (k FBroke) (if applied then fst (b_exec s now q) else s) now (S i) true
                end
  end.

Definition is_set (q : breq) : bool := match q with QSet _ _ _ _ _ => true | _ => false end.

(* a sequential program of Chunked.v under faults: a reply that cannot be read is a panic for a
   SET request and "no reply" (BNone) for every other request *)
Fixpoint embed (p : bprog hres) : fprog cout :=
  match p with
  | BRet a => FRet (CRes a)
  | BReq q k => FReq q (fun r => match r with
                                 | FRep x => embed (k x)
                                 | FBroke => if is_set q then FRet CPanic else embed (k BNone)
                                 | FDead => embed (k BNone)
                                 end)
  end.

(* [brun_f]: the faulty interpreter for the sequential programs *)
Definition brun_f (pl : cplan) (p : bprog hres) (s : store) (now : N) : store * cout :=
  frun pl (embed p) s now 0 false.

(* ---- the read paths, which need more than [embed] ---- *)
Fixpoint freqs {A} (qs : list breq) (acc : list frep) (k : list frep -> fprog A) : fprog A :=
  match qs with
  | [] => k (rev acc)
  | q :: r => FReq q (fun x => freqs r (x :: acc) k)
  end.

Definition rep_bres (r : frep) : bres := match r with FRep x => x | _ => BNone end.
Definition io_failed (rs : list frep) : bool :=
  existsb (fun r => match r with FRep _ => false | _ => true end) rs.
(* the last application error other than "not found" among the replies *)
Definition last_app_err (rs : list frep) : option N :=
  fold_left (fun acc r => match r with
                          | FRep (BStatus st) =>
                              match err_of_status st with
                              | Some e => if e =? EKeyNotFound then acc else Some e
                              | None => acc end
                          | _ => acc end) rs None.

Definition with_meta_f {A} (q : breq) (miss : fprog A) (fail : N -> fprog A) (k : meta -> fprog A) : fprog A :=
  FReq q (fun r => match r with
                   | FRep (BVal _ v) => k (dec_meta v)
                   | FRep (BStatus st) => match err_of_status st with
                                          | Some e => if e =? EKeyNotFound then miss else fail e
                                          | None => k (dec_meta []) end
                   | _ => fail EIO end).

Definition read_chunks_f {A} (k : bytes) (md : meta) (touch : option N)
                         (fail : N -> fprog A) (cont : bytes * bool -> fprog A) : fprog A :=
  let qs := map (fun ck => match touch with Some ttl => QGatQ ck ttl | None => QGetQ ck end)
                (chunk_keys k (m_nchunks md)) in
  freqs qs [] (fun rs => FReq QNoop (fun n =>
    if io_failed (rs ++ [n]) then fail EIO
    else match last_app_err rs with
         | Some e => fail e
         | None => cont (read_result md (map rep_bres rs))
         end)).

Fixpoint chunked_get_f (items : list gitem) (acc : list gres) : fprog cout :=
  match items with
  | [] => FRet (CRes (HVals (rev acc) None))
  | it :: r =>
      let k := gi_key it in
      let missr := mkGR k [] 0 0 (gi_opaque it) (gi_quiet it) true in
      let fail := fun e => FRet (CRes (HVals (rev acc) (Some e))) in
      with_meta_f (QGet (meta_key k)) (chunked_get_f r (missr :: acc)) fail
        (fun md => read_chunks_f k md None fail (fun dm =>
           let '(d, miss) := dm in
           chunked_get_f r ((if miss then mkGR k [] (m_flags md) 0 (gi_opaque it) (gi_quiet it) true
                             else mkGR k d (m_flags md) 0 (gi_opaque it) (gi_quiet it) false) :: acc)))
  end.

Definition chunked_gat_f (k : bytes) (ttl opq : N) : fprog cout :=
  let missr := mkGR k [] 0 0 opq false true in
  let fail := fun e => FRet (CRes (HErr e)) in
  with_meta_f (QGat (meta_key k) ttl) (FRet (CRes (HVals [missr] None))) fail
    (fun md => read_chunks_f k md (Some ttl) fail (fun dm =>
       let '(d, miss) := dm in
       FRet (CRes (HVals [if miss then mkGR k [] (m_flags md) 0 opq false true
                          else mkGR k d (m_flags md) 0 opq false false] None)))).

Definition chunked_cat_f (tok : bytes) (cnow : N) (front : bool) (k d : bytes) : fprog cout :=
  let fail := fun e => FRet (CRes (HErr e)) in
  with_meta_f (QGet (meta_key k)) (fail EKeyNotFound) fail
    (fun md => read_chunks_f k md None fail (fun dm =>
       let '(old, miss) := dm in
       if miss then fail EKeyNotFound
       else embed (chunked_set tok cnow MSet k (if front then d ++ old else old ++ d) (m_flags md) (m_exptime md)))).

(* one handler call under faults *)
Definition chunked_prog_f (tok : bytes) (cnow : N) (q : hreq) : fprog cout :=
  match q with
  | HCat front k d => chunked_cat_f tok cnow front k d
  | HGet items => chunked_get_f items []
  | HGat k ttl opq => chunked_gat_f k ttl opq
  | _ => embed (chunked_prog tok cnow q)       (* set / add / replace, delete, touch *)
  end.

Definition chunked_exec_f (pl : cplan) (tok : bytes) (cnow : N) (s : store) (now : N) (q : hreq) : store * cout :=
  frun pl (chunked_prog_f tok cnow q) s now 0 false.
Definition chunked_trace_f (pl : cplan) (tok : bytes) (cnow : N) (s : store) (now : N) (q : hreq) : list breq :=
  ftrace pl (chunked_prog_f tok cnow q) s now 0 false.

(* a plan given as a finite list (request index, fault); the first binding of an index counts *)
Fixpoint plan_of_list (l : list (nat * cfault)) : cplan :=
  match l with
  | [] => no_cfaults
  | (i, f) :: r => fun n => if Nat.eqb n i then Some f else plan_of_list r n
  end.

(* ---- vocabulary of the theorems ---- *)
(* what a client sees of key k in backend store st: data and flags *)
Definition cview (st : store) (now : N) (k : bytes) : option (bytes * N) := view (abs_entry st now k).

(* one read result agrees with a view: a hit carries exactly that data and flags *)
Definition gres_is (g : gres) (v : option (bytes * N)) : Prop :=
  match v with
  | Some (d, f) => g_miss g = false /\ g_data g = d /\ g_flags g = f
  | None => g_miss g = true
  end.

(* no live chunk of k in st carries token tok (tokens are drawn at random, 128 bits) *)
Definition fresh_tok (st : store) (now : N) (k tok : bytes) : Prop :=
  forall i e, live now st (chunk_key k i) = Some e -> take tokenSize (e_data e) <> tok.
