(* ChunkedRefCmds.v — per-command refinement lemmas for the chunked handler on ONE client key:
   result class, abstraction of the key, well-formedness of the key. The frame for the other
   keys and the assembly into the theorems of props/C04b.v is in ChunkedRefProofs.v. *)
From Coq Require Import String.
From Rend Require Import base.Bytes gen.Consts_gen spec.MapSpec orca.Types handlers.ChunkFmt
  handlers.ChunkFmtProofs handlers.Chunked handlers.ChunkedSpec handlers.ChunkedProofs handlers.ChunkedRefBase.
Open Scope N_scope.

(* identical to the definitions in props/C04b.v *)
Definition hcmd (q : hreq) : option cmd :=
  match q with
  | HSet m k d f ttl => Some (CSet m k d f ttl)
  | HCat fr k d => Some (CCat fr k d)
  | HDelete k => Some (CDelete k)
  | HTouch k ttl => Some (CTouch k ttl)
  | HGet items => Some (CGet (map gi_key items))
  | HGat k ttl _ => Some (CGat k ttl)
  | HGetE _ => None
  end.
Definition hres_outcome (q : hreq) (r : hres) : option outcome :=
  match r with
  | HDone => Some OOk
  | HErr e => if e =? EKeyExists then Some OExists
              else if (e =? EKeyNotFound) || (e =? EItemNotStored) then Some OMiss else None
  | HVals rs None => Some (OVals (map (fun g => if g_miss g then None else Some (g_data g, g_flags g)) rs))
  | HVals _ (Some _) => None
  end.

(* what a command on key k has to establish about k *)
Definition key_refines (st : store) (now : N) (q : hreq) (c : cmd) (k : bytes) (X : store * hres) : Prop :=
  hres_outcome q (snd X) = Some (snd (spec_step (abs_store st now) now c)) /\
  abs_entry (fst X) now k = live now (fst (spec_step (abs_store st now) now c)) k.

(* ---------------- metadata lookup ---------------- *)
Lemma with_meta_get_hit {A} s now k me (miss : bprog A) fail K :
  live now s (meta_key k) = Some me ->
  brun (with_meta (QGet (meta_key k)) miss fail K) s now = brun (K (dec_meta (e_data me))) s now.
Proof. intros H. unfold with_meta. rewrite brun_req, b_exec_get, H. reflexivity. Qed.
Lemma with_meta_get_miss {A} s now k (miss : bprog A) fail K :
  live now s (meta_key k) = None ->
  brun (with_meta (QGet (meta_key k)) miss fail K) s now = brun miss s now.
Proof.
  intros H. unfold with_meta. rewrite brun_req, b_exec_get, H. cbn [fst snd].
  rewrite err_enoent, N.eqb_refl. reflexivity.
Qed.

(* plain reads leave the store exactly as it is *)
Lemma read_chunks_get_good {A} st now k md (cont : bytes * bool -> bprog A) :
  (forall i, i < m_nchunks md -> chunk_good st now k (m_token md) i) ->
  brun (read_chunks k md None cont) st now =
  brun (cont (aval md (map (cdata st now k) (idxs (m_nchunks md))), false)) st now.
Proof.
  intros Hg. unfold read_chunks. rewrite brun_breqs. cbn [rev app].
  change (map (fun ck => QGetQ ck) (chunk_keys k (m_nchunks md))) with (map QGetQ (chunk_keys k (m_nchunks md))).
  rewrite bexecs_getq. cbn [fst snd]. rewrite brun_req, b_exec_noop. cbn [fst snd].
  change (map (fun ck => match live now st ck with Some e => BVal (e_flags e) (e_data e) | None => BNone end)
              (chunk_keys k (m_nchunks md)))
    with (map (fun ck => R_getq now (st ck)) (chunk_keys k (m_nchunks md))).
  rewrite (read_result_good st now k md Hg). reflexivity.
Qed.

(* ================= set / add / replace ================= *)
Definition set_meta (tok : bytes) (cnow : N) (k d : bytes) (f ttl : N) : meta :=
  let ds := chunk_data (len k) in
  mkMeta (len d) f (num_chunks (len d) ds) ds cnow (fst (c_exptime cnow ttl)) tok.

(* the backend entries of k after a complete write *)
Definition written (s1 : store) (now : N) (tok : bytes) (cnow : N) (k d : bytes) (f ttl : N) : Prop :=
  let ds := chunk_data (len k) in
  s1 (meta_key k) = Some (mkE (enc_meta (set_meta tok cnow k d f ttl)) f (norm now ttl)) /\
  (forall i, i < num_chunks (len d) ds ->
     s1 (chunk_key k i) = Some (mkE (tok ++ chunk_i ds d i) f (norm now ttl))).

Definition set_passes (m : smode) (s : store) (now : N) (k : bytes) : Prop :=
  match m with
  | MSet => True
  | MAdd => live now s (meta_key k) = None
  | MReplace => live now s (meta_key k) <> None
  end.

Lemma set_run s now tok cnow m k d f ttl :
  1 <= len k <= 250 -> len d < 4294967296 -> snd (c_exptime cnow ttl) = false -> set_passes m s now k ->
  snd (brun (chunked_set tok cnow m k d f ttl) s now) = HDone /\
  written (fst (brun (chunked_set tok cnow m k d f ttl) s now)) now tok cnow k d f ttl.
Proof.
  intros Hk Hd Hexp Hp.
  pose proof (ds_bounds k Hk) as Hds.
  pose proof (nchunks_bound (len d) (chunk_data (len k)) ltac:(lia) Hd) as Hn.
  unfold written, set_meta. cbv zeta. unfold chunked_set.
  destruct (c_exptime cnow ttl) as [exp expired]. cbn [fst snd] in *. subst expired.
  set (ds := chunk_data (len k)) in *.
  set (md := mkMeta (len d) f (num_chunks (len d) ds) ds cnow exp tok).
  rewrite brun_req.
  assert (HB : b_exec s now (QSet m (meta_key k) f ttl (enc_meta md)) =
               (upd s (meta_key k) (Some (mkE (enc_meta md) f (norm now ttl))), BStatus statusSuccess)).
  { cbn [b_exec]. unfold gb_set, gb_put. unfold set_passes in Hp. destruct m.
    - reflexivity.
    - rewrite Hp. reflexivity.
    - destruct (live now s (meta_key k)); [reflexivity|contradiction]. }
  rewrite HB. cbn [fst snd]. rewrite err_success.
  set (s0 := upd s (meta_key k) (Some (mkE (enc_meta md) f (norm now ttl)))).
  unfold chunk_sets. fold ds.
  change (map _ (seq 0 (N.to_nat (num_chunks (len d) ds))))
    with (map (cset k f ttl (fun i => tok ++ chunk_i ds d i)) (seq 0 (N.to_nat (num_chunks (len d) ds)))).
  pose proof (write_chunks_run k f ttl (fun i => tok ++ chunk_i ds d i) now
                (N.to_nat (num_chunks (len d) ds)) 0%nat s0 ltac:(lia)) as Hw.
  cbv zeta in Hw. destruct (brun _ s0 now) as [s1 r1]. cbn [fst snd] in *. destruct Hw as [Hr [Hch Hoth]].
  split; [exact Hr|]. split.
  - rewrite Hoth by (intros i _; apply meta_not_chunk_any). unfold s0. apply upd_same.
  - intros i Hi. specialize (Hch (N.to_nat i) ltac:(lia)). rewrite N2Nat.id in Hch. exact Hch.
Qed.

Lemma set_add_exists s now tok cnow k d f ttl me :
  snd (c_exptime cnow ttl) = false -> live now s (meta_key k) = Some me ->
  brun (chunked_set tok cnow MAdd k d f ttl) s now = (s, HErr EKeyExists).
Proof.
  intros Hexp Hm. unfold chunked_set. destruct (c_exptime cnow ttl) as [exp expired]. cbn [snd] in Hexp. subst.
  rewrite brun_req. cbn [b_exec]. unfold gb_set. rewrite Hm. reflexivity.
Qed.
Lemma set_replace_missing s now tok cnow k d f ttl :
  snd (c_exptime cnow ttl) = false -> live now s (meta_key k) = None ->
  brun (chunked_set tok cnow MReplace k d f ttl) s now = (s, HErr EKeyNotFound).
Proof.
  intros Hexp Hm. unfold chunked_set. destruct (c_exptime cnow ttl) as [exp expired]. cbn [snd] in Hexp. subst.
  rewrite brun_req. cbn [b_exec]. unfold gb_set. rewrite Hm. reflexivity.
Qed.

Section Written.
Variables (s1 : store) (now : N) (tok : bytes) (k d : bytes) (f ttl : N).
Hypothesis Hk : 1 <= len k <= 250.
Hypothesis Htok : len tok = tokenSize.
Hypothesis Hd : len d < 4294967296.
Hypothesis Hf : f < 4294967296.
Hypothesis Hnow : now < 4294967296.
Hypothesis Hexp : fst (c_exptime now ttl) < 4294967296.
Hypothesis HW : written s1 now tok now k d f ttl.

Local Notation ds := (chunk_data (len k)).
Local Notation M := (set_meta tok now k d f ttl).

Lemma set_meta_rt : dec_meta (enc_meta M) = M.
Proof.
  pose proof (ds_bounds k Hk) as Hds.
  pose proof (nchunks_bound (len d) ds ltac:(lia) Hd) as Hn.
  apply meta_roundtrip; unfold set_meta; cbn [m_length m_flags m_nchunks m_csize m_instime m_exptime m_token];
    first [assumption | lia].
Qed.

Lemma written_vals : map (cdata s1 now k) (idxs (num_chunks (len d) ds)) = map (fun c => tok ++ c) (chunks ds d) \/
                     alive now (mkE [] 0 (norm now ttl)) = false.
Proof.
  destruct (alive now (mkE [] 0 (norm now ttl))) eqn:A; [left|right; reflexivity].
  destruct HW as [_ Hc]. unfold idxs, chunks. rewrite !map_map. apply map_ext_in. intros i Hi.
  apply in_seq in Hi. unfold cdata.
  rewrite (live_intro now s1 _ _ (Hc (N.of_nat i) ltac:(lia))) by exact A. reflexivity.
Qed.

Lemma written_abs : abs_entry s1 now k = lv now (Some (mkE d f (norm now ttl))).
Proof.
  pose proof (ds_bounds k Hk) as Hds.
  destruct HW as [Hm Hc]. cbv zeta in Hc.
  destruct (alive now (mkE [] 0 (norm now ttl))) eqn:A.
  - pose proof (live_intro now s1 _ _ Hm A) as Hl.
    pose proof (abs_entry_some s1 now k _ Hl) as HA. cbv zeta in HA. cbn [e_data e_dl] in HA.
    rewrite set_meta_rt in HA.
    change (m_nchunks M) with (num_chunks (len d) ds) in HA. change (m_token M) with tok in HA.
    change (m_flags M) with f in HA.
    rewrite HA.
    + destruct written_vals as [V|V]; [|congruence]. rewrite V.
      replace (aval M (map (fun c => tok ++ c) (chunks ds d))) with d.
      * unfold lv. rewrite alive_norm_entry, A. reflexivity.
      * symmetry. apply (reassemble ds d tok M); [lia|assumption|reflexivity|reflexivity|reflexivity].
    + intros i Hi. exists (mkE (tok ++ chunk_i ds d i) f (norm now ttl)). split.
      * apply live_intro; [apply Hc; exact Hi|exact A].
      * cbn [e_data]. apply take_app_len. exact Htok.
  - rewrite (abs_entry_none s1 now k) by (eapply live_dead; [exact Hm|exact A]).
    unfold lv. rewrite alive_norm_entry, A. reflexivity.
Qed.

Lemma written_wf : wf_key s1 now k.
Proof.
  pose proof (ds_bounds k Hk) as Hds.
  pose proof (nchunks_bound (len d) ds ltac:(lia) Hd) as Hn.
  intros me Hme. pose proof HW as [Hm Hc]. cbv zeta in Hc.
  apply live_some in Hme. destruct Hme as [Hme Ha]. rewrite Hm in Hme. inversion Hme; subst me. clear Hme.
  cbv zeta. cbn [e_data e_dl]. rewrite set_meta_rt.
  assert (A : alive now (mkE [] 0 (norm now ttl)) = true) by exact Ha.
  split; [|split].
  - rewrite written_abs. unfold lv. rewrite alive_norm_entry, A. discriminate.
  - unfold exptime_agrees. change (m_exptime M) with (fst (c_exptime now ttl)). apply c_exptime_agrees.
  - unfold set_meta; cbn [m_length m_flags m_nchunks m_csize m_instime m_exptime m_token].
    repeat (split; [first [assumption|reflexivity|lia]|]).
    intros i e Hi He. apply live_some in He. destruct He as [He _]. rewrite (Hc i Hi) in He.
    inversion He; subst. reflexivity.
Qed.
End Written.

Lemma live_put_same (a : store) now k d f ttl :
  live now (b_put a now k d f ttl) k = lv now (Some (mkE d f (norm now ttl))).
Proof. rewrite live_lv. unfold gb_put. rewrite upd_same. reflexivity. Qed.

Lemma set_key st now tok cnow m k d f ttl :
  wf_key st now k -> call_ok tok cnow now (HSet m k d f ttl) ->
  key_refines st now (HSet m k d f ttl) (CSet m k d f ttl) k (brun (chunked_set tok cnow m k d f ttl) st now) /\
  wf_key (fst (brun (chunked_set tok cnow m k d f ttl) st now)) now k.
Proof.
  intros W (-> & Htok & Hnow & Hk & Hd & Hf & Httl & Hsum & Hexp).
  pose proof (c_exptime_bound now ttl Httl Hsum) as Hexpb.
  assert (Hpass : set_passes m st now k ->
    key_refines st now (HSet m k d f ttl) (CSet m k d f ttl) k (brun (chunked_set tok now m k d f ttl) st now) /\
    wf_key (fst (brun (chunked_set tok now m k d f ttl) st now)) now k).
  { intros Hp. destruct (set_run st now tok now m k d f ttl Hk Hd Hexp Hp) as [Hr HW].
    assert (Hspec : spec_step (abs_store st now) now (CSet m k d f ttl) =
                    (b_put (abs_store st now) now k d f ttl, OOk)).
    { cbn [gspec_step]. unfold gb_set. rewrite live_abs. unfold set_passes in Hp. destruct m.
      - reflexivity.
      - rewrite (abs_entry_none st now k Hp). reflexivity.
      - destruct (live now st (meta_key k)) as [me|] eqn:Hm; [|contradiction].
        destruct (wf_live st now k me Hk W Hm) as (_ & _ & HA). rewrite HA. reflexivity. }
    split; [split|].
    - rewrite Hr, Hspec. reflexivity.
    - rewrite Hspec. cbn [fst]. rewrite live_put_same.
      apply (written_abs _ now tok k d f ttl); first [assumption|lia].
    - apply (written_wf _ now tok k d f ttl); first [assumption|lia]. }
  destruct m.
  - apply Hpass. exact I.
  - destruct (live now st (meta_key k)) as [me|] eqn:Hm; [|apply Hpass; exact Hm].
    rewrite (set_add_exists st now tok now k d f ttl me Hexp Hm). cbn [fst snd].
    destruct (wf_live st now k me Hk W Hm) as (_ & _ & HA).
    split; [split|exact W].
    + cbn [gspec_step]. unfold gb_set. rewrite live_abs, HA. reflexivity.
    + cbn [gspec_step]. unfold gb_set. rewrite live_abs, HA. cbn [fst]. rewrite ?live_abs. first [reflexivity | exact HA | symmetry; exact HA].
  - destruct (live now st (meta_key k)) as [me|] eqn:Hm; [apply Hpass; unfold set_passes; rewrite Hm; discriminate|].
    rewrite (set_replace_missing st now tok now k d f ttl Hexp Hm). cbn [fst snd].
    pose proof (abs_entry_none st now k Hm) as HA.
    split; [split|exact W].
    + cbn [gspec_step]. unfold gb_set. rewrite live_abs, HA. reflexivity.
    + cbn [gspec_step]. unfold gb_set. rewrite live_abs, HA. cbn [fst]. rewrite ?live_abs. first [reflexivity | exact HA | symmetry; exact HA].
Qed.

(* ================= append / prepend ================= *)
Lemma exptime_reuse now md dl :
  exptime_agrees md dl -> alive now (mkE [] 0 dl) = true -> realTimeMaxDelta < now ->
  norm now (m_exptime md) = dl /\ c_exptime now (m_exptime md) = (m_exptime md, false).
Proof.
  intros Ha Hl Hn. unfold exptime_agrees in Ha. destruct dl as [|t].
  - rewrite Ha. split; reflexivity.
  - rewrite Ha. unfold alive in Hl. cbn [e_dl] in Hl. apply N.ltb_lt in Hl.
    unfold norm, c_exptime.
    destruct (N.eqb_spec t 0) as [->|_]; [lia|].
    destruct (N.ltb_spec realTimeMaxDelta t) as [_|?]; [|lia].
    destruct (N.ltb_spec t now) as [?|_]; [lia|]. split; reflexivity.
Qed.

Lemma cat_key st now tok cnow front k d :
  wf_key st now k -> call_ok tok cnow now (HCat front k d) -> cat_fits st now (HCat front k d) ->
  key_refines st now (HCat front k d) (CCat front k d) k (brun (chunked_cat tok cnow front k d) st now) /\
  wf_key (fst (brun (chunked_cat tok cnow front k d) st now)) now k.
Proof.
  intros W (-> & Htok & Hnow & Hk & Hd & Hrt) Hfit. unfold cat_fits in Hfit.
  unfold chunked_cat. destruct (live now st (meta_key k)) as [me|] eqn:Hm.
  - rewrite (with_meta_get_hit st now k me) by exact Hm.
    destruct (wf_live st now k me Hk W Hm) as (Hn & Hg & HA). cbv zeta in Hn, Hg, HA.
    destruct (W me Hm) as (_ & W2 & W3 & W4 & W5 & W6 & W7 & W8 & W9 & W10). cbv zeta in *.
    set (md := dec_meta (e_data me)) in *.
    rewrite (read_chunks_get_good st now k md) by exact Hg. cbv iota beta.
    set (D := aval md (map (cdata st now k) (idxs (m_nchunks md)))) in *.
    specialize (Hfit _ HA). cbn [e_data] in Hfit.
    pose proof (live_some _ _ _ _ Hm) as [_ Hal].
    destruct (exptime_reuse now md (e_dl me) W2 Hal Hrt) as [Hnorm Hce].
    match goal with |- context [chunked_set tok now MSet k ?x _ _] => set (d' := x) in * end.
    assert (Hd' : len d' < 4294967296) by (unfold d'; destruct front; rewrite len_app; lia).
    assert (Hexp : snd (c_exptime now (m_exptime md)) = false) by (rewrite Hce; reflexivity).
    destruct (set_run st now tok now MSet k d' (m_flags md) (m_exptime md) Hk Hd' Hexp I) as [Hr HW].
    assert (Hspec : spec_step (abs_store st now) now (CCat front k d) =
                    (upd (abs_store st now) k (Some (mkE d' (m_flags md) (e_dl me))), OOk)).
    { cbn [gspec_step]. unfold gb_cat. rewrite live_abs, HA. reflexivity. }
    assert (Hfst : fst (c_exptime now (m_exptime md)) < 4294967296) by (rewrite Hce; exact W6).
    split; [split|].
    + rewrite Hr, Hspec. reflexivity.
    + rewrite Hspec. cbn [fst]. rewrite live_lv, upd_same.
      rewrite (written_abs _ now tok k d' (m_flags md) (m_exptime md)) by first [assumption|lia].
      rewrite Hnorm. reflexivity.
    + apply (written_wf _ now tok k d' (m_flags md) (m_exptime md)); first [assumption|lia].
  - rewrite (with_meta_get_miss st now k) by exact Hm. cbn [brun fst snd].
    pose proof (abs_entry_none st now k Hm) as HA.
    split; [split|exact W].
    + cbn [gspec_step]. unfold gb_cat. rewrite live_abs, HA. reflexivity.
    + cbn [gspec_step]. unfold gb_cat. rewrite live_abs, HA. cbn [fst]. rewrite ?live_abs. first [reflexivity | exact HA | symmetry; exact HA].
Qed.

(* ================= delete ================= *)
Lemma wf_key_dead st now k : live now st (meta_key k) = None -> wf_key st now k.
Proof. intros H me Hme. rewrite H in Hme. discriminate. Qed.

Lemma chunk_good_lv st now k tok i : chunk_good st now k tok i -> lv now (st (chunk_key k i)) <> None.
Proof. intros [e [He _]]. rewrite <- live_lv, He. discriminate. Qed.

Lemma delete_key st now k :
  1 <= len k <= 250 -> wf_key st now k ->
  key_refines st now (HDelete k) (CDelete k) k (brun (chunked_delete k) st now) /\
  wf_key (fst (brun (chunked_delete k) st now)) now k.
Proof.
  intros Hk W. unfold chunked_delete. destruct (live now st (meta_key k)) as [me|] eqn:Hm.
  - rewrite (with_meta_get_hit st now k me) by exact Hm.
    destruct (wf_live st now k me Hk W Hm) as (Hn & Hg & HA). cbv zeta in Hn, Hg, HA.
    set (md := dec_meta (e_data me)) in *.
    assert (HD : b_delete st now (meta_key k) = (upd st (meta_key k) None, statusSuccess))
      by (unfold gb_delete; rewrite Hm; reflexivity).
    rewrite brun_req, b_exec_delete, HD. cbn [fst snd]. rewrite err_success.
    rewrite brun_breqs. cbn [rev app].
    set (s1 := upd st (meta_key k) None).
    pose proof (chunk_keys_nodup k (m_nchunks md) ltac:(lia)) as ND.
    destruct (bexecs_local now _ _ _ (local_delete now) (chunk_keys k (m_nchunks md)) s1 ND) as (B1 & _ & B3).
    rewrite B1. rewrite any_notfound_stat.
    2:{ intros ck Hck. apply in_chunk_keys in Hck. destruct Hck as [i [Hi ->]].
        unfold s1. rewrite upd_other by (intros E; symmetry in E; exact (meta_not_chunk_any _ _ _ E)).
        eapply chunk_good_lv. apply Hg. exact Hi. }
    cbn [brun fst snd].
    assert (Hdead : live now (fst (bexecs s1 now (map QDelete (chunk_keys k (m_nchunks md))))) (meta_key k) = None).
    { rewrite live_lv, B3 by apply meta_not_in_chunk_keys. unfold s1. rewrite upd_same. reflexivity. }
    split; [split|].
    + cbn [gspec_step]. unfold gb_delete. rewrite live_abs, HA. reflexivity.
    + cbn [gspec_step]. unfold gb_delete. rewrite live_abs, HA. cbn [fst].
      rewrite live_lv, upd_same. apply abs_entry_none. exact Hdead.
    + apply wf_key_dead. exact Hdead.
  - rewrite (with_meta_get_miss st now k) by exact Hm. cbn [brun fst snd].
    pose proof (abs_entry_none st now k Hm) as HA.
    split; [split|exact W].
    + cbn [gspec_step]. unfold gb_delete. rewrite live_abs, HA. reflexivity.
    + cbn [gspec_step]. unfold gb_delete. rewrite live_abs, HA. cbn [fst]. rewrite ?live_abs. first [reflexivity | exact HA | symmetry; exact HA].
Qed.

(* ================= touch / get-and-touch: every entry of the key gets a new deadline ================= *)
Lemma retimed st st2 now k me me2 ttl :
  live now st (meta_key k) = Some me ->
  let md := dec_meta (e_data me) in
  let md2 := dec_meta (e_data me2) in
  (forall i, i < m_nchunks md -> chunk_good st now k (m_token md) i) ->
  st2 (meta_key k) = Some me2 -> e_dl me2 = norm now ttl ->
  m_nchunks md2 = m_nchunks md -> m_csize md2 = m_csize md -> m_length md2 = m_length md ->
  m_flags md2 = m_flags md -> m_token md2 = m_token md ->
  (forall i, i < m_nchunks md -> st2 (chunk_key k i) = F_touch now ttl (st (chunk_key k i))) ->
  abs_entry st2 now k =
    lv now (Some (mkE (aval md (map (cdata st now k) (idxs (m_nchunks md)))) (m_flags md) (norm now ttl))) /\
  (forall i e, i < m_nchunks md -> live now st2 (chunk_key k i) = Some e -> e_dl e = norm now ttl).
Proof.
  intros Hm md md2 Hg Hm2 Hdl Hn Hcs Hl Hf Ht Hc.
  assert (Hc2 : forall i, i < m_nchunks md -> exists e, live now st (chunk_key k i) = Some e /\
             take tokenSize (e_data e) = m_token md /\
             st2 (chunk_key k i) = Some (mkE (e_data e) (e_flags e) (norm now ttl))).
  { intros i Hi. destruct (Hg i Hi) as [e [He Htk]]. exists e. split; [exact He|]. split; [exact Htk|].
    rewrite (Hc i Hi). unfold F_touch. rewrite <- live_lv, He. reflexivity. }
  split.
  - destruct (alive now (mkE [] 0 (norm now ttl))) eqn:A.
    + assert (Hl2 : live now st2 (meta_key k) = Some me2).
      { apply live_intro; [exact Hm2|]. unfold alive. rewrite Hdl. exact A. }
      pose proof (abs_entry_some st2 now k me2 Hl2) as HA. cbv zeta in HA. fold md2 in HA.
      rewrite Hn, Ht, Hf, Hdl in HA. rewrite HA.
      * unfold lv. rewrite alive_norm_entry, A. f_equal. f_equal.
        rewrite (aval_ext md2 md) by assumption. f_equal.
        apply map_ext_in. intros i Hi. apply in_idxs in Hi.
        destruct (Hc2 i Hi) as (e & He & _ & Hs). unfold cdata. rewrite He.
        rewrite (live_intro now st2 _ _ Hs) by exact A. reflexivity.
      * intros i Hi. destruct (Hc2 i Hi) as (e & He & Htk & Hs).
        exists (mkE (e_data e) (e_flags e) (norm now ttl)). split; [|exact Htk].
        apply live_intro; [exact Hs|exact A].
    + rewrite (abs_entry_none st2 now k).
      * unfold lv. rewrite alive_norm_entry, A. reflexivity.
      * eapply live_dead; [exact Hm2|]. unfold alive. rewrite Hdl. exact A.
  - intros i e Hi He. destruct (Hc2 i Hi) as (e0 & _ & _ & Hs).
    apply live_some in He. destruct He as [He _]. rewrite Hs in He. inversion He; subst. reflexivity.
Qed.

Lemma touch_key st now cnow tok k ttl :
  wf_key st now k -> call_ok tok cnow now (HTouch k ttl) ->
  key_refines st now (HTouch k ttl) (CTouch k ttl) k (brun (chunked_touch cnow k ttl) st now) /\
  wf_key (fst (brun (chunked_touch cnow k ttl) st now)) now k.
Proof.
  intros W (-> & Htok & Hnow & Hk & Httl & Hsum).
  unfold chunked_touch. destruct (live now st (meta_key k)) as [me|] eqn:Hm.
  - rewrite (with_meta_get_hit st now k me) by exact Hm.
    destruct (wf_live st now k me Hk W Hm) as (Hn & Hg & HA). cbv zeta in Hn, Hg, HA.
    destruct (W me Hm) as (_ & W2 & W3 & W4 & W5 & W6 & W7 & W8 & W9 & W10). cbv zeta in *.
    set (md := dec_meta (e_data me)) in *.
    rewrite brun_breqs. cbn [rev app].
    pose proof (chunk_keys_nodup k (m_nchunks md) ltac:(lia)) as ND.
    destruct (bexecs_local now _ _ _ (local_touch now ttl) (chunk_keys k (m_nchunks md)) st ND) as (B1 & B2 & B3).
    rewrite B1. rewrite any_notfound_stat.
    2:{ intros ck Hck. apply in_chunk_keys in Hck. destruct Hck as [i [Hi ->]].
        eapply chunk_good_lv. apply Hg. exact Hi. }
    set (s1 := fst (bexecs st now (map (fun ck => QTouch ck ttl) (chunk_keys k (m_nchunks md))))) in *.
    set (md' := mkMeta (m_length md) (m_flags md) (m_nchunks md) (m_csize md) (m_instime md)
                       (fst (c_exptime now ttl)) (m_token md)).
    rewrite brun_req, b_exec_set. cbn [fst snd]. rewrite err_success. cbn [brun fst snd].
    set (me2 := mkE (enc_meta md') (m_flags md) (norm now ttl)).
    set (s2 := upd s1 (meta_key k) (Some me2)).
    pose proof (c_exptime_bound now ttl Httl Hsum) as Hexpb.
    pose proof (ds_bounds k Hk) as Hds.
    assert (RT : dec_meta (e_data me2) = md').
    { cbn [e_data me2]. apply meta_roundtrip; unfold md';
        cbn [m_length m_flags m_nchunks m_csize m_instime m_exptime m_token]; first [assumption|lia]. }
    assert (Hs2c : forall i, i < m_nchunks md -> s2 (chunk_key k i) = F_touch now ttl (st (chunk_key k i))).
    { intros i Hi. unfold s2. rewrite upd_other by (intros E; symmetry in E; exact (meta_not_chunk_any _ _ _ E)).
      apply B2. apply in_chunk_keys. exists i. split; [exact Hi|reflexivity]. }
    destruct (retimed st s2 now k me me2 ttl Hm) as [R1 R2];
      try (rewrite RT; reflexivity); try reflexivity; try assumption.
    { unfold s2. apply upd_same. }
    fold md in R1, R2.
    assert (Hspec : spec_step (abs_store st now) now (CTouch k ttl) =
      (upd (abs_store st now) k
         (Some (mkE (aval md (map (cdata st now k) (idxs (m_nchunks md)))) (m_flags md) (norm now ttl))), OOk)).
    { cbn [gspec_step]. unfold gb_touch. rewrite live_abs, HA. reflexivity. }
    split; [split|].
    + rewrite Hspec. reflexivity.
    + rewrite Hspec. cbn [fst]. rewrite live_lv, upd_same. exact R1.
    + intros me' Hme'. apply live_some in Hme'. destruct Hme' as [Hme' Ha].
      unfold s2 in Hme'. rewrite upd_same in Hme'. inversion Hme'; subst me'. clear Hme'.
      cbv zeta. rewrite RT. cbn [e_dl me2].
      assert (A : alive now (mkE [] 0 (norm now ttl)) = true) by exact Ha.
      split; [|split].
      * fold s2. rewrite R1. unfold lv. rewrite alive_norm_entry, A. discriminate.
      * unfold exptime_agrees. change (m_exptime md') with (fst (c_exptime now ttl)). apply c_exptime_agrees.
      * unfold md'; cbn [m_length m_flags m_nchunks m_csize m_instime m_exptime m_token].
        repeat (split; [first [assumption|lia]|]).
        fold s2. exact R2.
  - rewrite (with_meta_get_miss st now k) by exact Hm. cbn [brun fst snd].
    pose proof (abs_entry_none st now k Hm) as HA.
    split; [split|exact W].
    + cbn [gspec_step]. unfold gb_touch. rewrite live_abs, HA. reflexivity.
    + cbn [gspec_step]. unfold gb_touch. rewrite live_abs, HA. cbn [fst]. rewrite ?live_abs. first [reflexivity | exact HA | symmetry; exact HA].
Qed.

Lemma gat_key st now cnow tok k ttl opq :
  wf_key st now k -> call_ok tok cnow now (HGat k ttl opq) ->
  key_refines st now (HGat k ttl opq) (CGat k ttl) k (brun (chunked_gat k ttl opq) st now).
Proof.
  intros W (-> & Htok & Hnow & Hk & Httl & Hsum).
  unfold chunked_gat, with_meta. rewrite brun_req, b_exec_gat. cbn [fst snd].
  destruct (live now st (meta_key k)) as [me|] eqn:Hm.
  - destruct (wf_live st now k me Hk W Hm) as (Hn & Hg & HA). cbv zeta in Hn, Hg, HA.
    set (md := dec_meta (e_data me)) in *.
    unfold gb_touch. rewrite Hm. cbn [fst].
    set (me2 := mkE (e_data me) (e_flags me) (norm now ttl)).
    set (s1 := upd st (meta_key k) (Some me2)).
    assert (Hs1c : forall i, s1 (chunk_key k i) = st (chunk_key k i)).
    { intros i. unfold s1. apply upd_other. intros E. symmetry in E. exact (meta_not_chunk_any _ _ _ E). }
    assert (Hg1 : forall i, i < m_nchunks md -> chunk_good s1 now k (m_token md) i).
    { intros i Hi. destruct (Hg i Hi) as [e [He Htk]]. exists e. split; [|exact Htk].
      rewrite live_lv, Hs1c, <- live_lv. exact He. }
    destruct (read_chunks_good s1 now k md (Some ttl)
                (fun dm => let '(d, miss) := dm in
                   BRet (HVals [if miss then mkGR k [] (m_flags md) 0 opq false true
                                else mkGR k d (m_flags md) 0 opq false false] None))
                ltac:(lia) Hg1) as (s2 & Hrun & S1 & S2).
    rewrite Hrun. cbn [brun fst snd].
    assert (Hcd : map (cdata s1 now k) (idxs (m_nchunks md)) = map (cdata st now k) (idxs (m_nchunks md))).
    { apply map_ext. intros i. unfold cdata. rewrite !live_lv, Hs1c. reflexivity. }
    rewrite Hcd.
    assert (Hspec : spec_step (abs_store st now) now (CGat k ttl) =
      (upd (abs_store st now) k
         (Some (mkE (aval md (map (cdata st now k) (idxs (m_nchunks md)))) (m_flags md) (norm now ttl))),
       OVals [Some (aval md (map (cdata st now k) (idxs (m_nchunks md))), m_flags md)])).
    { cbn [gspec_step]. unfold gb_gat, gb_touch. rewrite live_abs, HA. reflexivity. }
    split.
    + rewrite Hspec. reflexivity.
    + rewrite Hspec. cbn [fst]. rewrite live_lv, upd_same.
      destruct (retimed st s2 now k me me2 ttl Hm) as [R1 _]; try reflexivity; try assumption.
      * rewrite S2 by apply meta_not_in_chunk_keys. unfold s1. apply upd_same.
      * intros i Hi. rewrite S1 by (apply in_chunk_keys; exists i; split; [exact Hi|reflexivity]).
        rewrite Hs1c. reflexivity.
  - rewrite err_enoent, N.eqb_refl. unfold gb_touch. rewrite Hm. cbn [brun fst snd].
    pose proof (abs_entry_none st now k Hm) as HA.
    split.
    + cbn [gspec_step]. unfold gb_gat, gb_touch. rewrite live_abs, HA. reflexivity.
    + cbn [gspec_step]. unfold gb_gat, gb_touch. rewrite live_abs, HA. cbn [fst]. rewrite ?live_abs. first [reflexivity | exact HA | symmetry; exact HA].
Qed.

(* ================= get ================= *)
Definition gres_of (st : store) (now : N) (it : gitem) : gres :=
  match abs_entry st now (gi_key it) with
  | Some e => mkGR (gi_key it) (e_data e) (e_flags e) 0 (gi_opaque it) (gi_quiet it) false
  | None => mkGR (gi_key it) [] 0 0 (gi_opaque it) (gi_quiet it) true
  end.

Lemma get_run st now : wf_store st now -> forall items acc,
  Forall (fun it => 1 <= len (gi_key it) <= 250) items ->
  brun (chunked_get items acc) st now = (st, HVals (rev acc ++ map (gres_of st now) items) None).
Proof.
  intros W. induction items as [|it r IH]; intros acc HF.
  - cbn [chunked_get brun map]. rewrite app_nil_r. reflexivity.
  - inversion HF as [|x l Hk HF']; subst. cbn [chunked_get map].
    destruct (live now st (meta_key (gi_key it))) as [me|] eqn:Hm.
    + rewrite (with_meta_get_hit st now _ me) by exact Hm.
      destruct (wf_live st now _ me Hk (W _ Hk) Hm) as (Hn & Hg & HA). cbv zeta in Hn, Hg, HA.
      rewrite (read_chunks_get_good st now _ _ _ Hg). cbv iota beta.
      rewrite IH by exact HF'. cbn [rev]. rewrite <- app_assoc. cbn [app].
      unfold gres_of at 2. rewrite HA. reflexivity.
    + rewrite (with_meta_get_miss st now _) by exact Hm.
      rewrite IH by exact HF'. cbn [rev]. rewrite <- app_assoc. cbn [app].
      unfold gres_of at 2. rewrite (abs_entry_none st now _ Hm). reflexivity.
Qed.

Lemma get_outcome st now items :
  hres_outcome (HGet items) (HVals (map (gres_of st now) items) None) =
  Some (snd (spec_step (abs_store st now) now (CGet (map gi_key items)))).
Proof.
  cbn [hres_outcome gspec_step snd]. rewrite !map_map. f_equal. f_equal. apply map_ext. intros it.
  unfold gb_get. rewrite live_abs. unfold gres_of. destruct (abs_entry st now (gi_key it)); reflexivity.
Qed.
