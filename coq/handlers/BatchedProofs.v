(* BatchedProofs.v — proofs of the C06 / C13 statements about handlers/Batched.v.
   Structural lemmas live in BatchedLemmas.v (re-exported). *)
From Coq Require Import Permutation.
From Rend Require Import base.Bytes gen.Consts_gen spec.MapSpec orca.Types handlers.Std handlers.Batched
  handlers.BatchedSpec.
From Rend Require Export handlers.BatchedLemmas.
Open Scope N_scope.

(* ------------------------------------------------------------------ *)
(* one request: its entries executed in order = the std handler         *)

Lemma deliver_get gete ch it s now :
  deliver (fst (gwh gete ch it)) (snd (gwh gete ch it)) (snd (w_exec s now (fst (gwh gete ch it))))
  = RRes (std_get1 s now gete it).
Proof.
  unfold gwh, std_get1. destruct gete; cbn [fst snd w_exec];
    destruct (gb_get s now (gi_key it)) as [e|]; reflexivity.
Qed.

Lemma exec_st_gets gete ch items s now : exec_st (map (gwh gete ch) items) s now = s.
Proof.
  induction items as [|it rest IH]; [reflexivity|].
  cbn [map]. unfold gwh at 1. cbn [exec_st]. destruct gete; cbn [w_exec fst]; exact IH.
Qed.

Lemma exec_ds_gets gete ch items s now :
  exec_ds (map (gwh gete ch) items) s now = map (fun it => (ch, RRes (std_get1 s now gete it))) items.
Proof.
  induction items as [|it rest IH]; [reflexivity|].
  cbn [map]. pose proof (deliver_get gete ch it s now) as Hd.
  unfold gwh at 1. unfold gwh in Hd. cbn [fst snd] in Hd. cbn [exec_ds hd_chan]. rewrite Hd.
  f_equal. destruct gete; cbn [w_exec fst]; exact IH.
Qed.

Lemma get_result_res : forall gs acc, get_result (map RRes gs) acc = HVals (rev acc ++ gs) None.
Proof.
  induction gs as [|g gs IH]; intros acc; cbn [map get_result].
  - rewrite app_nil_r. reflexivity.
  - rewrite IH. cbn [rev]. rewrite <- app_assoc. reflexivity.
Qed.

Lemma req_exec r s now :
  exec_st (req_wh r) s now = fst (std_exec s now (q_req r)) /\
  call_result (q_req r) (map snd (exec_ds (req_wh r) s now)) = snd (std_exec s now (q_req r)).
Proof.
  unfold req_wh. destruct r as [ch q]. cbn [q_req q_chan].
  destruct q; cbn [exec_st exec_ds w_exec std_exec map snd fst call_result].
  - destruct (gb_set _ _ _ _ _ _ _ _) as [s' st]. cbn [fst snd]. split; [reflexivity|].
    unfold deliver, st_to_hres. destruct (decode_error st); reflexivity.
  - destruct (gb_cat _ _ _ _ _) as [s' st]. cbn [fst snd]. split; [reflexivity|].
    unfold deliver, st_to_hres. destruct (decode_error st); reflexivity.
  - destruct (gb_delete _ _ _) as [s' st]. cbn [fst snd]. split; [reflexivity|].
    unfold deliver, st_to_hres. destruct (decode_error st); reflexivity.
  - destruct (gb_touch _ _ _ _ _) as [s' st]. cbn [fst snd]. split; [reflexivity|].
    unfold deliver, st_to_hres. destruct (decode_error st); reflexivity.
  - rewrite exec_st_gets, exec_ds_gets. split; [reflexivity|].
    rewrite map_map. cbn [snd]. rewrite <- (map_map (std_get1 s now false) RRes), get_result_res. reflexivity.
  - rewrite exec_st_gets, exec_ds_gets. split; [reflexivity|].
    rewrite map_map. cbn [snd]. rewrite <- (map_map (std_get1 s now true) RRes), get_result_res. reflexivity.
  - destruct (gb_gat _ _ _ _ _) as [s' o]. cbn [fst snd]. split; [reflexivity|].
    destruct o as [e|]; reflexivity.
Qed.

Lemma exec_ds_length ws s now : length (exec_ds ws s now) = length ws.
Proof. rewrite <- (map_length fst), exec_ds_chans, map_length. reflexivity. Qed.

Lemma req_ds_chan r s now : Forall (fun d => fst d = q_chan r) (exec_ds (req_wh r) s now).
Proof.
  apply Forall_forall. intros d Hd. apply (in_map fst) in Hd. rewrite exec_ds_chans in Hd.
  apply in_map_iff in Hd. destruct Hd as (x & Hx & Hin). rewrite <- Hx.
  pose proof (req_wh_chan r) as Hf. rewrite Forall_forall in Hf. apply Hf. exact Hin.
Qed.

Lemma wchan_flat reqs c : In c (map wchan (flat_map req_wh reqs)) -> In c (map q_chan reqs).
Proof.
  intros H. apply in_map_iff in H. destruct H as (x & Hx & Hin).
  apply in_flat_map in Hin. destruct Hin as (r & Hr & Hxr).
  pose proof (req_wh_chan r) as Hf. rewrite Forall_forall in Hf. rewrite <- Hx, (Hf x Hxr).
  apply in_map. exact Hr.
Qed.

Lemma direct_cons r rest s now :
  direct (r :: rest) s now =
  (fst (direct rest (fst (std_exec s now (q_req r))) now),
   (q_chan r, snd (std_exec s now (q_req r))) :: snd (direct rest (fst (std_exec s now (q_req r))) now)).
Proof.
  cbn [direct]. destruct (std_exec s now (q_req r)) as [s1 h]. cbn [fst snd].
  destruct (direct rest s1 now) as [s2 hs]. reflexivity.
Qed.

Lemma batch_main : forall reqs s now, NoDup (map q_chan reqs) ->
  exec_st (flat_map req_wh reqs) s now = fst (direct reqs s now) /\
  forall r, In r reqs ->
    assoc_chan (snd (direct reqs s now)) (q_chan r)
      = Some (call_result (q_req r) (of_chan (exec_ds (flat_map req_wh reqs) s now) (q_chan r))) /\
    length (of_chan (exec_ds (flat_map req_wh reqs) s now) (q_chan r)) = expected (q_req r).
Proof.
  induction reqs as [|r rest IH]; intros s now Hnd.
  - split; [reflexivity|intros r []].
  - cbn [map] in Hnd. inversion Hnd as [|? ? Hni Hnd']; subst.
    cbn [flat_map]. rewrite exec_st_app, exec_ds_app, direct_cons. cbn [fst snd].
    destruct (req_exec r s now) as (E1 & E2). rewrite E1.
    destruct (IH (fst (std_exec s now (q_req r))) now Hnd') as (I1 & I2).
    split; [exact I1|].
    intros r0 [->|Hin]; rewrite of_chan_app; cbn [assoc_chan].
    + rewrite Nat.eqb_refl.
      rewrite (of_chan_all _ _ (req_ds_chan r0 s now)).
      rewrite (of_chan_none (exec_ds (flat_map req_wh rest) _ now) (q_chan r0)).
      2:{ rewrite exec_ds_chans. intros H. apply wchan_flat in H. contradiction. }
      rewrite app_nil_r, E2. split; [reflexivity|].
      rewrite map_length, exec_ds_length. apply req_wh_length.
    + assert (Hne : q_chan r <> q_chan r0).
      { intros E. apply Hni. rewrite E. apply in_map. exact Hin. }
      apply Nat.eqb_neq in Hne. rewrite Hne.
      rewrite (of_chan_none (exec_ds (req_wh r) s now) (q_chan r0)).
      2:{ rewrite exec_ds_chans. intros H. apply in_map_iff in H. destruct H as (x & Hx & Hxin).
          pose proof (req_wh_chan r) as Hf. rewrite Forall_forall in Hf. rewrite (Hf x Hxin) in Hx.
          apply Nat.eqb_neq in Hne. contradiction. }
      cbn [app]. apply I2. exact Hin.
Qed.

Theorem batched_eq_direct : forall base reqs s now,
  wf_batch base reqs ->
  let '(s', ds) := run_batch base reqs s now None in
  let '(s0, hs) := direct reqs s now in
  store_eq s' s0 /\
  forall r, In r reqs -> assoc_chan hs (q_chan r) = Some (call_result (q_req r) (of_chan ds (q_chan r))).
Proof.
  intros base reqs s now Hwf. rewrite (run_batch_none _ _ _ _ Hwf), strip_batch.
  destruct Hwf as (_ & Hnd & _).
  destruct (batch_main reqs s now Hnd) as (M1 & M2).
  destruct (direct reqs s now) as [s0 hs]. cbn [fst snd] in *. split.
  - rewrite M1. intros k. reflexivity.
  - intros r Hr. apply (M2 r Hr).
Qed.

Theorem routing : forall base reqs s now,
  wf_batch base reqs ->
  let '(_, ds) := run_batch base reqs s now None in
  (forall c, of_chan ds c <> [] -> exists r, In r reqs /\ q_chan r = c) /\
  (forall r, In r reqs -> length (of_chan ds (q_chan r)) = expected (q_req r)).
Proof.
  intros base reqs s now Hwf. rewrite (run_batch_none _ _ _ _ Hwf), strip_batch.
  destruct Hwf as (_ & Hnd & _). split.
  - intros c Hne.
    destruct (in_dec Nat.eq_dec c (map fst (exec_ds (flat_map req_wh reqs) s now))) as [Hin|Hni].
    + rewrite exec_ds_chans in Hin. apply wchan_flat in Hin. apply in_map_iff in Hin.
      destruct Hin as (r & Hr & Hin). exists r. split; assumption.
    + exfalso. apply Hne. apply of_chan_none. exact Hni.
  - intros r Hr. apply (proj2 (batch_main reqs s now Hnd) r Hr).
Qed.

Lemma c06_example :
  let reqs := [mkQ 0 (HSet MAdd [1] [9] 3 0); mkQ 1 (HGet [mkGI [1] 5 true; mkGI [2] 6 false; mkGI [1] 5 true]);
               mkQ 2 (HGat [1] 100 7)] in
  wf_batch 2147483647 reqs.
Proof.
  cbv zeta. unfold wf_batch. split; [reflexivity|]. split; [|reflexivity].
  cbn [map q_chan]. repeat constructor; cbn [In]; intros H; repeat destruct H as [H|H]; try discriminate; exact H.
Qed.

(* ------------------------------------------------------------------ *)
(* C13: a cut connection                                               *)

Theorem cut_outcomes : forall base reqs s now n applied r,
  wf_batch base reqs -> In r reqs ->
  let '(_, full) := run_batch base reqs s now None in
  let '(_, ds) := run_batch base reqs s now (Some (n, applied)) in
  of_chan ds (q_chan r) = of_chan full (q_chan r) \/
  exists pre, of_chan ds (q_chan r) = pre ++ [RErr RETRY] /\
              exists post, of_chan full (q_chan r) = pre ++ post /\ post <> [].
Proof.
  intros base reqs s now n applied r Hwf _.
  rewrite (run_batch_none _ _ _ _ Hwf), (run_batch_some _ _ _ _ _ _ Hwf).
  set (tab := batch_entries base reqs). set (c := q_chan r).
  rewrite map_strip_firstn.
  destruct (chans_of_spec (skipn n tab) [] (NoDup_nil _)) as (Cnd & Cin).
  rewrite <- skipn_map in Cin.
  set (W := map strip tab) in *.
  assert (Hfull : exec_ds W s now
                  = exec_ds (firstn n W) s now ++ exec_ds (skipn n W) (exec_st (firstn n W) s now) now).
  { rewrite <- exec_ds_app, firstn_skipn. reflexivity. }
  rewrite Hfull, !of_chan_app.
  set (s1 := exec_st (firstn n W) s now).
  destruct (in_dec Nat.eq_dec c (chans_of (skipn n tab) [])) as [Hin|Hni].
  - right. exists (of_chan (exec_ds (firstn n W) s now) c). split.
    + rewrite (of_chan_const_in _ _ _ Cnd Hin). reflexivity.
    + exists (of_chan (exec_ds (skipn n W) s1 now) c). split; [reflexivity|].
      apply of_chan_some. rewrite exec_ds_chans. apply Cin in Hin. destruct Hin as [[]|Hin]. exact Hin.
  - left. rewrite (of_chan_const_notin _ _ _ Hni). f_equal. symmetry.
    apply of_chan_none. rewrite exec_ds_chans. intros H. apply Hni. apply Cin. right. exact H.
Qed.

(* ------------------------------------------------------------------ *)
(* C13: one attempt of a multi-key get                                  *)

Definition cut_n (cut : option (nat * nat)) (items : list gitem) : nat :=
  match cut with Some (n, _) => n | None => length items end.

Definition attempt_rs (n : nat) (items : list gitem) (s : store) (now : N) : list resp :=
  map RRes (map (std_get1 s now false) (firstn n items))
  ++ match skipn n items with [] => [] | _ => [RErr RETRY] end.

Lemma apply_silently_gets gete ch now : forall (es : list (N * wreq * handle)) l n s,
  map strip es = map (gwh gete ch) l -> apply_silently es n s now = s.
Proof.
  induction es as [|[[o w] h] es IH]; intros l n s H; destruct n as [|n]; try reflexivity.
  destruct l as [|it l]; [discriminate|]. cbn [map strip fst snd] in H. inversion H as [[Hw Hh Hes]].
  cbn [apply_silently]. unfold gwh. destruct gete; cbn [w_exec fst]; apply (IH l); exact Hes.
Qed.

Lemma get_batch_wf base items :
  base < 2147483648 -> N.of_nat (length items) + 2 < 2147483648 -> wf_batch base [mkQ 0 (HGet items)].
Proof.
  intros Hb Hl. unfold wf_batch. split; [exact Hb|]. split.
  - cbn [map q_chan]. constructor; [intros []|constructor].
  - cbn [total_expected fold_right q_req expected length]. lia.
Qed.

Lemma attempt_spec base items s now cut :
  base < 2147483648 -> N.of_nat (length items) + 2 < 2147483648 ->
  attempt base items s now cut = (s, attempt_rs (cut_n cut items) items s now).
Proof.
  intros Hb Hl. pose proof (get_batch_wf base items Hb Hl) as Hwf.
  assert (HW : map strip (batch_entries base [mkQ 0 (HGet items)]) = map (gwh false 0%nat) items).
  { rewrite strip_batch. cbn [flat_map]. rewrite app_nil_r. reflexivity. }
  unfold attempt, attempt_rs. destruct cut as [[n a]|]; cbn [cut_n].
  - rewrite (run_batch_some _ _ _ _ _ _ Hwf).
    set (tab := batch_entries base [mkQ 0 (HGet items)]) in *.
    assert (HS : map strip (skipn n tab) = map (gwh false 0%nat) (skipn n items)).
    { rewrite <- skipn_map, HW, skipn_map. reflexivity. }
    rewrite map_strip_firstn, HW, firstn_map, exec_st_gets, exec_ds_gets.
    rewrite (apply_silently_gets false 0%nat now _ _ a s HS).
    f_equal. rewrite of_chan_app. f_equal.
    + rewrite of_chan_all.
      * rewrite map_map. cbn [snd]. rewrite map_map. reflexivity.
      * apply Forall_forall. intros d Hd. apply in_map_iff in Hd. destruct Hd as (it & <- & _). reflexivity.
    + destruct (chans_of_spec (skipn n tab) [] (NoDup_nil _)) as (Cnd & Cin).
      destruct (skipn n items) as [|it sk] eqn:Esk.
      * apply map_eq_nil in HS. rewrite HS. reflexivity.
      * apply of_chan_const_in; [exact Cnd|]. apply Cin. right. rewrite HS. left. reflexivity.
  - rewrite (run_batch_none _ _ _ _ Hwf), HW, exec_st_gets, exec_ds_gets.
    rewrite firstn_all, skipn_all, app_nil_r. f_equal.
    rewrite of_chan_all.
    + rewrite map_map. cbn [snd]. rewrite map_map. reflexivity.
    + apply Forall_forall. intros d Hd. apply in_map_iff in Hd. destruct Hd as (it & <- & _). reflexivity.
Qed.

(* ------------------------------------------------------------------ *)
(* C13: the retry loop                                                 *)

Fixpoint fwd (rs : list resp) (pend : list gitem) (sv : list gres) : list gitem * list gres * option N :=
  match rs with
  | [] => (pend, sv, None)
  | RErr e :: _ => (pend, sv, Some e)
  | RRes g :: r => fwd r (remove_item (item_of_res g) pend) (sv ++ [g])
  end.

Lemma get_retry_S t bases cuts pending first s now served :
  get_retry (S t) bases cuts pending first s now served =
  let '(s', rs) := attempt (hd 0 bases) (if first then pending else retry_request pending) s now (hd None cuts) in
  let '(pend', sv', e) := fwd rs pending served in
  match pend' with
  | [] => (s', sv', None)
  | _ => match t with
         | O => (s', sv', match e with Some x => Some (if x =? RETRY then EInternal else x) | None => None end)
         | _ => get_retry t (tl bases) (tl cuts) pend' false s' now sv'
         end
  end.
Proof. reflexivity. Qed.

Lemma fwd_res : forall gs tl pend sv,
  fwd (map RRes gs ++ tl) pend sv = fwd tl (rm_all (map item_of_res gs) pend) (sv ++ gs).
Proof.
  induction gs as [|g gs IH]; intros tl pend sv.
  - cbn [map app rm_all fold_left]. rewrite app_nil_r. reflexivity.
  - cbn [map app fwd]. rewrite IH. unfold rm_all. cbn [fold_left]. rewrite <- app_assoc. reflexivity.
Qed.

Lemma item_of_std_get1 s now w it : item_of_res (std_get1 s now w it) = it.
Proof. unfold std_get1. destruct it as [k o q]. destruct (gb_get s now _); reflexivity. Qed.

Lemma items_of_std_get1 s now w l : map item_of_res (map (std_get1 s now w) l) = l.
Proof.
  rewrite map_map. rewrite (map_ext _ (fun x => x)); [apply map_id|]. intros it. apply item_of_std_get1.
Qed.

Lemma hd_base_ok bases : Forall (fun b => b < 2147483648) bases -> hd 0 bases < 2147483648.
Proof. intros H. destruct bases as [|b bs]; cbn [hd]; [lia|exact (Forall_inv H)]. Qed.
Lemma tl_bases_ok bases : Forall (fun b => b < 2147483648) bases -> Forall (fun b => b < 2147483648) (tl bases).
Proof. intros H. destruct bases as [|b bs]; cbn [tl]; [constructor|exact (Forall_inv_tail H)]. Qed.

Lemma get_retry_inv : forall tries bases cuts pending first s now served s' served',
  Forall (fun b => b < 2147483648) bases -> N.of_nat (length pending) + 2 < 2147483648 ->
  get_retry tries bases cuts pending first s now served = (s', served', None) ->
  (tries > 0)%nat ->
  s' = s /\
  exists new, served' = served ++ new /\ Permutation (map item_of_res new) pending /\
              Forall (fun g => exists it, g = std_get1 s now false it) new.
Proof.
  induction tries as [|t IH]; intros bases cuts pending first s now served s' served' Hb Hl H Ht; [lia|].
  rewrite get_retry_S in H.
  remember (if first then pending else retry_request pending) as items' eqn:Eit.
  assert (Hperm : Permutation items' pending).
  { subst items'. destruct first; [apply Permutation_refl|apply retry_request_complete]. }
  pose proof (Permutation_length Hperm) as Hlen.
  rewrite (attempt_spec (hd 0 bases) items' s now (hd None cuts) (hd_base_ok _ Hb)) in H by lia.
  remember (cut_n (hd None cuts) items') as n eqn:En. unfold attempt_rs in H.
  rewrite fwd_res, items_of_std_get1 in H.
  set (gs := map (std_get1 s now false) (firstn n items')) in *.
  assert (Hgs : map item_of_res gs = firstn n items') by apply items_of_std_get1.
  assert (Hfa : Forall (fun g => exists it, g = std_get1 s now false it) gs).
  { apply Forall_forall. intros g Hg. apply in_map_iff in Hg. destruct Hg as (it & <- & _). exists it. reflexivity. }
  assert (Hrm : Permutation (rm_all (firstn n items') pending) (skipn n items')).
  { apply rm_all_perm. rewrite firstn_skipn. exact Hperm. }
  assert (Hsl : (length (skipn n items') <= length items')%nat) by (rewrite skipn_length; lia).
  pose proof (firstn_skipn n items') as Hfs.
  destruct (skipn n items') as [|x sk] eqn:Esk.
  - apply Permutation_sym, Permutation_nil in Hrm. rewrite Hrm in H. cbn [fwd] in H.
    inversion H; subst s' served'. split; [reflexivity|]. exists gs. split; [reflexivity|]. split; [|exact Hfa].
    rewrite Hgs. rewrite app_nil_r in Hfs. rewrite Hfs. exact Hperm.
  - cbn [fwd] in H.
    destruct (rm_all (firstn n items') pending) as [|p0 pend'] eqn:Erm.
    { exfalso. exact (Permutation_nil_cons Hrm). }
    destruct t as [|t']; [discriminate H|].
    pose proof (Permutation_length Hrm) as Hl2.
    apply IH in H; [|apply tl_bases_ok; exact Hb| lia | lia].
    destruct H as (-> & new' & -> & Hp' & Hf'). split; [reflexivity|].
    exists (gs ++ new'). split; [rewrite app_assoc; reflexivity|]. split.
    + rewrite map_app, Hgs.
      eapply perm_trans; [apply Permutation_app_head; exact Hp'|].
      eapply perm_trans; [apply Permutation_app_head; exact Hrm|].
      rewrite Hfs. exact Hperm.
    + apply Forall_app. split; assumption.
Qed.

Theorem get_complete_or_error : forall tries bases cuts items s now s' served,
  Forall (fun b => b < 2147483648) bases -> N.of_nat (length items) + 2 < 2147483648 ->
  (length bases >= tries)%nat ->
  get_retry tries bases cuts items true s now [] = (s', served, None) ->
  (tries > 0)%nat ->
  Permutation (map item_of_res served) items /\
  (forall g, In g served -> g_miss g = false ->
     exists e, live now s (g_key g) = Some e /\ g_data g = e_data e /\ g_flags g = e_flags e) /\
  store_eq s' s.
Proof.
  intros tries bases cuts items s now s' served Hb Hl _ H Ht.
  destruct (get_retry_inv _ _ _ _ _ _ _ _ _ _ Hb Hl H Ht) as (-> & new & Hs & Hp & Hf).
  cbn [app] in Hs. subst new. split; [exact Hp|]. split; [|intros k; reflexivity].
  intros g Hg Hm. rewrite Forall_forall in Hf. destruct (Hf g Hg) as (it & ->).
  unfold std_get1 in *. unfold gb_get in *. destruct (live now s (gi_key it)) as [e|] eqn:E.
  - exists e. cbn [hit_res g_key g_data g_flags]. split; [exact E|]. split; reflexivity.
  - cbn [miss_res g_miss] in Hm. discriminate.
Qed.

Theorem get_no_cut : forall tries base items s now,
  base < 2147483648 -> N.of_nat (length items) + 2 < 2147483648 -> (tries > 0)%nat ->
  exists served, get_retry tries [base] [None] items true s now [] = (s, served, None) /\
                 map item_of_res served = items.
Proof.
  intros tries base items s now Hb Hl Ht. destruct tries as [|t]; [lia|].
  rewrite get_retry_S. cbn [hd]. rewrite (attempt_spec base items s now None Hb Hl).
  cbn [cut_n]. unfold attempt_rs. rewrite firstn_all, skipn_all, fwd_res, items_of_std_get1.
  assert (Hrm : rm_all items items = []).
  { apply Permutation_nil, Permutation_sym, rm_all_perm. rewrite app_nil_r. apply Permutation_refl. }
  rewrite Hrm. cbn [fwd app].
  exists (map (std_get1 s now false) items). split; [reflexivity|apply items_of_std_get1].
Qed.

Theorem old_retry_refuted : exists pending, ~ Permutation (old_retry_request pending) pending.
Proof.
  exists [mkGI [1] 1 false; mkGI [2] 2 false]. intros H. apply Permutation_length in H. discriminate H.
Qed.

Lemma c13_example :
  let items := [mkGI [1] 1 true; mkGI [2] 2 false; mkGI [3] 3 false] in
  let s := upd empty_store [2] (Some (mkE [7] 0 Never)) in
  exists s' served, get_retry 4 [5; 6; 7; 8] [Some (1%nat, 0%nat); None] items true s 10 [] = (s', served, None) /\
                    length served = 3%nat.
Proof.
  cbv zeta. eexists; eexists; split; [vm_compute; reflexivity | reflexivity].
Qed.
