(* ChunkedFaultsAfter.v — a fault-free read of ANY backend store (well-formed or half-written)
   returns exactly the abstraction abs_entry of the store: this turns the abs_entry statements
   about the state after a faulty call into statements about what a later read returns. *)
From Coq Require Import String.
From Rend Require Import base.Bytes gen.Consts_gen spec.MapSpec orca.Types handlers.ChunkFmt
  handlers.ChunkFmtProofs handlers.Chunked handlers.ChunkedSpec handlers.ChunkedProofs
  handlers.ChunkedRefBase handlers.ChunkedRefCmds handlers.ChunkedFaults handlers.ChunkedFaultsSpec.
Open Scope N_scope.

Definition badtok (md : meta) (v : bytes) : bool := negb (bytes_eqb (take tokenSize v) (m_token md)).

Definition arr (st : store) (now : N) (k : bytes) (l : list N) : list bytes :=
  arrived (map (fun i => R_getq now (st (chunk_key k i))) l).

Lemma miss_iff st now k md : forall l,
  (length (arr st now k l) <= length l)%nat /\
  (forallb (chunk_ok st now k md) l = false ->
   existsb (badtok md) (arr st now k l) = true \/ (length (arr st now k l) < length l)%nat).
Proof.
  induction l as [|i r IH].
  - split; [cbn; lia|]. cbn. discriminate.
  - destruct IH as [IH1 IH2]. unfold arr in *. cbn [map forallb]. unfold R_getq at 1 3 5, chunk_ok at 1. rewrite <- live_lv.
    destruct (live now st (chunk_key k i)) as [e|].
    + rewrite arrived_cons_val. cbn [length existsb]. split; [lia|]. intros H.
      unfold badtok at 1. destruct (bytes_eqb (take tokenSize (e_data e)) (m_token md)).
      * cbn [negb orb andb] in *. destruct (IH2 H) as [X|X]; [left; exact X|right; lia].
      * left. reflexivity.
    + rewrite arrived_cons_none. cbn [length]. split; [lia|]. intros _. right. lia.
Qed.

Lemma read_result_abs st now k md :
  let rs := map (fun ck => R_getq now (st ck)) (chunk_keys k (m_nchunks md)) in
  if forallb (chunk_ok st now k md) (idxs (m_nchunks md))
  then read_result md rs = (aval md (map (cdata st now k) (idxs (m_nchunks md))), false)
  else snd (read_result md rs) = true.
Proof.
  cbv zeta. destruct (forallb _ _) eqn:Hall.
  - apply read_result_good. intros i Hi. apply chunk_ok_good. rewrite forallb_forall in Hall. apply Hall.
    apply in_idxs. exact Hi.
  - rewrite chunk_keys_idxs, map_map. unfold read_result. cbv zeta. cbn [snd].
    destruct (miss_iff st now k md (idxs (m_nchunks md))) as [H1 H2]. unfold arr in H1, H2.
    destruct (H2 Hall) as [X|X].
    + apply orb_true_iff. left. exact X.
    + apply orb_true_iff. right. apply negb_true_iff, N.eqb_neq.
      pose proof (len_idxs (m_nchunks md)) as HL. unfold len in *. lia.
Qed.

Lemma read_chunks_res {A} st now k md touch (cont : bytes * bool -> bprog A) :
  m_nchunks md <= 18446744073709551616 ->
  exists st1, brun (read_chunks k md touch cont) st now =
              brun (cont (read_result md (map (fun ck => R_getq now (st ck)) (chunk_keys k (m_nchunks md))))) st1 now.
Proof.
  intros Hn. unfold read_chunks. rewrite brun_breqs. cbn [rev app].
  rewrite brun_req, b_exec_noop. cbn [fst snd].
  pose proof (chunk_keys_nodup k (m_nchunks md) Hn) as ND.
  destruct touch as [ttl|].
  - destruct (bexecs_local now _ _ _ (local_gatq now ttl) (chunk_keys k (m_nchunks md)) st ND) as (B1 & _ & _).
    eexists. rewrite B1. reflexivity.
  - destruct (bexecs_local now _ _ _ (local_getq now) (chunk_keys k (m_nchunks md)) st ND) as (B1 & _ & _).
    eexists. rewrite B1. reflexivity.
Qed.

(* ---- c10_chunked_read_is_abs ---- *)
Lemma get_is_abs st now k opq qt : meta_small st now k ->
  read_get st now k opq qt = HVals [owed_item st now k opq qt] None.
Proof.
  intros Hs. unfold read_get, owed_item. cbn [chunked_get gi_key gi_opaque gi_quiet].
  destruct (live now st (meta_key k)) as [me|] eqn:Hm.
  - rewrite (with_meta_get_hit st now k me) by exact Hm. specialize (Hs me Hm).
    set (md := dec_meta (e_data me)) in *.
    match goal with |- context [read_chunks k md None ?c] =>
      destruct (read_chunks_res st now k md None c ltac:(lia)) as [st1 E] end.
    rewrite E. clear E. rewrite abs_entry_unfold, Hm. cbv zeta. fold md.
    pose proof (read_result_abs st now k md) as R. cbv zeta in R.
    destruct (forallb (chunk_ok st now k md) (idxs (m_nchunks md))).
    + rewrite R. reflexivity.
    + destruct (read_result md _) as [d m]. cbn [snd] in R. subst m. reflexivity.
  - rewrite (with_meta_get_miss st now k) by exact Hm. rewrite (abs_entry_none st now k Hm). reflexivity.
Qed.

Lemma gat_is_abs st now k ttl opq : meta_small st now k ->
  read_gat st now k ttl opq = HVals [owed_item st now k opq false] None.
Proof.
  intros Hs. unfold read_gat, owed_item, chunked_gat, with_meta. rewrite brun_req, b_exec_gat. cbn [fst snd].
  destruct (live now st (meta_key k)) as [me|] eqn:Hm.
  - specialize (Hs me Hm). set (md := dec_meta (e_data me)) in *.
    set (s1 := fst (b_touch st now (meta_key k) ttl)).
    match goal with |- context [read_chunks k md (Some ttl) ?c] =>
      destruct (read_chunks_res s1 now k md (Some ttl) c ltac:(lia)) as [st1 E] end.
    rewrite E. clear E.
    assert (Hsame : map (fun ck => R_getq now (s1 ck)) (chunk_keys k (m_nchunks md)) =
                    map (fun ck => R_getq now (st ck)) (chunk_keys k (m_nchunks md))).
    { apply map_ext_in. intros ck Hck. unfold s1. rewrite touch_pointwise.
      destruct (bytes_eqb ck (meta_key k)) eqn:Eb; [|reflexivity].
      apply bytes_eqb_true in Eb. subst ck. exfalso. exact (meta_not_in_chunk_keys _ _ _ Hck). }
    rewrite Hsame. rewrite abs_entry_unfold, Hm. cbv zeta. fold md.
    pose proof (read_result_abs st now k md) as R. cbv zeta in R.
    destruct (forallb (chunk_ok st now k md) (idxs (m_nchunks md))).
    + rewrite R. reflexivity.
    + destruct (read_result md _) as [d m]. cbn [snd] in R. subst m. reflexivity.
  - rewrite err_enoent, N.eqb_refl. cbn [brun snd]. rewrite (abs_entry_none st now k Hm). reflexivity.
Qed.

Lemma owed_is_view st now k opq qt : gres_is (owed_item st now k opq qt) (cview st now k).
Proof.
  unfold owed_item, cview. destruct (abs_entry st now k) as [e|]; cbn [view gres_is].
  - repeat split.
  - destruct (live now st (meta_key k)); reflexivity.
Qed.

Lemma get_reads_as st now k opq qt : meta_small st now k -> reads_as (read_get st now k opq qt) (cview st now k).
Proof. intros H. rewrite (get_is_abs _ _ _ _ _ H). eexists. split; [reflexivity|apply owed_is_view]. Qed.
Lemma gat_reads_as st now k ttl opq : meta_small st now k -> reads_as (read_gat st now k ttl opq) (cview st now k).
Proof. intros H. rewrite (gat_is_abs _ _ _ _ _ H). eexists. split; [reflexivity|apply owed_is_view]. Qed.

Lemma wf_meta_small st now k : 1 <= len k <= 250 -> wf_key st now k -> meta_small st now k.
Proof. intros Hk W me Hm. destruct (wf_live st now k me Hk W Hm) as (Hn & _). exact Hn. Qed.

Lemma read_is_abs st now k :
  meta_small st now k ->
  (forall opq qt, read_get st now k opq qt = HVals [owed_item st now k opq qt] None) /\
  (forall ttl opq, read_gat st now k ttl opq = HVals [owed_item st now k opq false] None).
Proof. intros H. split; intros; [apply get_is_abs|apply gat_is_abs]; exact H. Qed.
