(* ChunkedRefBase.v — generic facts for the refinement of the chunked handler to the reference
   map (props/C04b.v): frame (an operation on client key k only changes backend keys derived
   from k), pipelined per-key requests, and the shape of abs_entry on a well-formed key. *)
From Coq Require Import String.
From Rend Require Import base.Bytes gen.Consts_gen spec.MapSpec orca.Types handlers.ChunkFmt
  handlers.ChunkFmtProofs handlers.Chunked handlers.ChunkedSpec handlers.ChunkedProofs.
Open Scope N_scope.

(* ---------------- liveness of an optional entry ---------------- *)
Definition lv (now : N) (o : option entry) : option entry :=
  match o with Some e => if alive now e then Some e else None | None => None end.
Lemma live_lv now s k : live now s k = lv now (s k).
Proof. reflexivity. Qed.
Lemma lv_some now o e : lv now o = Some e -> o = Some e /\ alive now e = true.
Proof.
  unfold lv. destruct o as [e'|]; [|discriminate]. destruct (alive now e') eqn:E; [|discriminate].
  intros H. inversion H; subst. split; [reflexivity|assumption].
Qed.
Lemma lv_intro now e : alive now e = true -> lv now (Some e) = Some e.
Proof. intros H. unfold lv. rewrite H. reflexivity. Qed.
Lemma live_intro now s k e : s k = Some e -> alive now e = true -> live now s k = Some e.
Proof. intros H A. rewrite live_lv, H. apply lv_intro. exact A. Qed.
Lemma live_dead now s k e : s k = Some e -> alive now e = false -> live now s k = None.
Proof. intros H A. rewrite live_lv, H. unfold lv. rewrite A. reflexivity. Qed.

Lemma bytes_eqb_true a b : bytes_eqb a b = true -> a = b.
Proof. apply bytes_eqb_eq. Qed.

(* ---------------- keys ---------------- *)
Lemma chunk_key_same_key k k' i j : chunk_key k i = chunk_key k' j -> k = k'.
Proof.
  intros H. unfold chunk_key in H. apply app_sep_inj in H; [|apply dec_no_dash|apply dec_no_dash].
  tauto.
Qed.

Lemma derived_disjoint k k' bk : derived k bk -> derived k' bk -> k = k'.
Proof.
  intros [->|[i ->]] [H|[j H]].
  - apply meta_key_injective. exact H.
  - exfalso. exact (meta_not_chunk_any _ _ _ H).
  - exfalso. symmetry in H. exact (meta_not_chunk_any _ _ _ H).
  - eapply chunk_key_same_key. exact H.
Qed.

Lemma derived_meta k : derived k (meta_key k).
Proof. left. reflexivity. Qed.
Lemma derived_chunk k i : derived k (chunk_key k i).
Proof. right. exists i. reflexivity. Qed.

Definition idxs (n : N) : list N := map N.of_nat (seq 0 (N.to_nat n)).

Lemma in_idxs i n : In i (idxs n) <-> i < n.
Proof.
  unfold idxs. rewrite in_map_iff. split.
  - intros [j [<- Hj]]. apply in_seq in Hj. lia.
  - intros H. exists (N.to_nat i). split; [lia|]. apply in_seq. lia.
Qed.
Lemma len_idxs n : len (idxs n) = n.
Proof. unfold idxs, len. rewrite map_length, seq_length. lia. Qed.
Lemma chunk_keys_idxs k n : chunk_keys k n = map (chunk_key k) (idxs n).
Proof. unfold chunk_keys, idxs. rewrite map_map. reflexivity. Qed.

Lemma in_chunk_keys k n bk : In bk (chunk_keys k n) <-> exists i, i < n /\ bk = chunk_key k i.
Proof.
  rewrite chunk_keys_idxs, in_map_iff. split.
  - intros [i [<- Hi]]. exists i. split; [apply in_idxs; exact Hi|reflexivity].
  - intros [i [Hi ->]]. exists i. split; [reflexivity|apply in_idxs; exact Hi].
Qed.

Lemma nodup_map_seq {B} (f : nat -> B) : forall m a,
  (forall i j, (a <= i < a + m)%nat -> (a <= j < a + m)%nat -> f i = f j -> i = j) ->
  NoDup (map f (seq a m)).
Proof.
  induction m as [|m IH]; intros a Hinj; cbn [seq map]; constructor.
  - intros Hin. apply in_map_iff in Hin. destruct Hin as [j [E Hj]]. apply in_seq in Hj.
    apply Hinj in E; lia.
  - apply IH. intros i j Hi Hj. apply Hinj; lia.
Qed.

Lemma chunk_keys_nodup k n : n <= 18446744073709551616 -> NoDup (chunk_keys k n).
Proof.
  intros Hn. unfold chunk_keys. apply nodup_map_seq. intros i j Hi Hj E.
  apply chunk_key_injective in E; lia.
Qed.

Lemma meta_not_in_chunk_keys k k' n : ~ In (meta_key k) (chunk_keys k' n).
Proof. intros H. apply in_chunk_keys in H. destruct H as [i [_ H]]. exact (meta_not_chunk_any _ _ _ H). Qed.

(* ---------------- frame ---------------- *)
Lemma b_exec_frame s now q bk : key_of q <> Some bk -> fst (b_exec s now q) bk = s bk.
Proof.
  intros H. destruct q as [k|k|k ttl|k ttl|m k f ttl v|k|k ttl|]; cbn [key_of] in H;
    try (assert (Hne : bk <> k) by congruence); cbn [b_exec]; try reflexivity.
  - unfold gb_gat, gb_touch. destruct (live now s k); cbn [fst]; [apply upd_other; exact Hne|reflexivity].
  - unfold gb_gat, gb_touch. destruct (live now s k); cbn [fst]; [apply upd_other; exact Hne|reflexivity].
  - unfold gb_set, gb_put. destruct m; destruct (live now s k); cbn [fst]; try reflexivity; apply upd_other; exact Hne.
  - unfold gb_delete. destruct (live now s k); cbn [fst]; [apply upd_other; exact Hne|reflexivity].
  - unfold gb_touch. destruct (live now s k); cbn [fst]; [apply upd_other; exact Hne|reflexivity].
Qed.

Lemma allreq_frame {A} (P : breq -> Prop) (p : bprog A) : allreq P p ->
  forall s now bk, (forall q, P q -> key_of q <> Some bk) -> fst (brun p s now) bk = s bk.
Proof.
  induction 1 as [a|q K Hq HK IH]; intros s now bk HP; [reflexivity|].
  rewrite brun_req. rewrite IH by exact HP. apply b_exec_frame. apply HP. exact Hq.
Qed.

(* a handler call leaves alone every backend key derived from a client key it does not name *)
Lemma prog_frame tok cnow q s now k' bk :
  ~ In k' (hreq_keys q) -> derived k' bk -> fst (brun (chunked_prog tok cnow q) s now) bk = s bk.
Proof.
  intros Hn Hd. apply (allreq_frame _ _ (allreq_prog tok cnow q)).
  intros bq Hok E. destruct (Hok bk E) as [k [Hk Hdk]].
  apply Hn. rewrite (derived_disjoint k' k bk Hd Hdk). exact Hk.
Qed.

Lemma forallb_ext_in {A} (f g : A -> bool) l : (forall x, In x l -> f x = g x) -> forallb f l = forallb g l.
Proof.
  induction l as [|a l IH]; intros H; [reflexivity|]. cbn [forallb].
  rewrite (H a) by (left; reflexivity). rewrite IH; [reflexivity|]. intros x Hx. apply H. right. exact Hx.
Qed.

Lemma abs_entry_ext st st' now k :
  (forall bk, derived k bk -> st' bk = st bk) -> abs_entry st' now k = abs_entry st now k.
Proof.
  intros H.
  assert (Hm : live now st' (meta_key k) = live now st (meta_key k))
    by (rewrite !live_lv, (H _ (derived_meta k)); reflexivity).
  assert (Hc : forall i, live now st' (chunk_key k i) = live now st (chunk_key k i))
    by (intros i; rewrite !live_lv, (H _ (derived_chunk k i)); reflexivity).
  unfold abs_entry. rewrite Hm. destruct (live now st (meta_key k)) as [me|]; [|reflexivity].
  rewrite (forallb_ext_in (chunk_ok st' now k (dec_meta (e_data me))) (chunk_ok st now k (dec_meta (e_data me))))
    by (intros i _; unfold chunk_ok; rewrite Hc; reflexivity).
  destruct (forallb _ _); [|reflexivity].
  rewrite (map_ext _ (fun i => match live now st (chunk_key k i) with Some e => e_data e | None => [] end))
    by (intros i; rewrite Hc; reflexivity).
  reflexivity.
Qed.

Lemma wf_key_ext st st' now k :
  (forall bk, derived k bk -> st' bk = st bk) -> wf_key st now k -> wf_key st' now k.
Proof.
  intros H W me Hme.
  assert (Hm : live now st' (meta_key k) = live now st (meta_key k))
    by (rewrite !live_lv, (H _ (derived_meta k)); reflexivity).
  assert (Hc : forall i, live now st' (chunk_key k i) = live now st (chunk_key k i))
    by (intros i; rewrite !live_lv, (H _ (derived_chunk k i)); reflexivity).
  rewrite Hm in Hme. specialize (W me Hme). cbv zeta in *.
  rewrite (abs_entry_ext st st' now k H).
  destruct W as (W1 & W2 & W3 & W4 & W5 & W6 & W7 & W8 & W9 & W10).
  repeat (split; [assumption|]). intros i e Hi He. rewrite Hc in He. exact (W10 i e Hi He).
Qed.

(* ---------------- pipelined requests on distinct keys ---------------- *)
Definition local_op (now : N) (mk : bytes -> breq) (F : option entry -> option entry)
  (R : option entry -> bres) : Prop :=
  forall s ck, snd (b_exec s now (mk ck)) = R (s ck) /\
               forall bk, fst (b_exec s now (mk ck)) bk = if bytes_eqb bk ck then F (s ck) else s bk.

Lemma bexecs_local now mk F R : local_op now mk F R -> forall cks s, NoDup cks ->
  snd (bexecs s now (map mk cks)) = map (fun ck => R (s ck)) cks /\
  (forall bk, In bk cks -> fst (bexecs s now (map mk cks)) bk = F (s bk)) /\
  (forall bk, ~ In bk cks -> fst (bexecs s now (map mk cks)) bk = s bk).
Proof.
  intros L. induction cks as [|ck r IH]; intros s ND.
  - cbn [map bexecs fst snd]. split; [reflexivity|]. split; [intros bk []|reflexivity].
  - cbn [map]. rewrite bexecs_cons. cbn [fst snd]. destruct (L s ck) as [LR LF].
    apply NoDup_cons_iff in ND. destruct ND as [Hnin ND].
    destruct (IH (fst (b_exec s now (mk ck))) ND) as (I1 & I2 & I3).
    split; [|split].
    + rewrite LR, I1. f_equal. apply map_ext_in. intros a Ha. rewrite LF.
      destruct (bytes_eqb a ck) eqn:E; [apply bytes_eqb_true in E; subst; contradiction|reflexivity].
    + intros bk [<-|Hin].
      * rewrite I3 by assumption. rewrite LF, bytes_eqb_refl. reflexivity.
      * rewrite I2 by assumption. rewrite LF.
        destruct (bytes_eqb bk ck) eqn:E; [apply bytes_eqb_true in E; subst; contradiction|reflexivity].
    + intros bk Hn. rewrite I3 by (intros C; apply Hn; right; exact C). rewrite LF.
      destruct (bytes_eqb bk ck) eqn:E; [|reflexivity].
      apply bytes_eqb_true in E; subst. exfalso. apply Hn. left. reflexivity.
Qed.

Definition R_getq (now : N) (o : option entry) : bres :=
  match lv now o with Some e => BVal (e_flags e) (e_data e) | None => BNone end.
Definition R_stat (now : N) (o : option entry) : bres :=
  BStatus (match lv now o with Some _ => statusSuccess | None => statusKeyEnoent end).
Definition F_touch (now ttl : N) (o : option entry) : option entry :=
  match lv now o with Some e => Some (mkE (e_data e) (e_flags e) (norm now ttl)) | None => o end.
Definition F_del (now : N) (o : option entry) : option entry :=
  match lv now o with Some _ => None | None => o end.

Lemma touch_pointwise s now ck ttl bk :
  fst (b_touch s now ck ttl) bk = if bytes_eqb bk ck then F_touch now ttl (s ck) else s bk.
Proof.
  unfold gb_touch, F_touch. rewrite live_lv. destruct (lv now (s ck)); cbn [fst]; unfold upd;
    destruct (bytes_eqb bk ck) eqn:E; try reflexivity.
  apply bytes_eqb_true in E. subst. reflexivity.
Qed.
Lemma delete_pointwise s now ck bk :
  fst (b_delete s now ck) bk = if bytes_eqb bk ck then F_del now (s ck) else s bk.
Proof.
  unfold gb_delete, F_del. rewrite live_lv. destruct (lv now (s ck)); cbn [fst]; unfold upd;
    destruct (bytes_eqb bk ck) eqn:E; try reflexivity.
  apply bytes_eqb_true in E. subst. reflexivity.
Qed.

Lemma local_getq now : local_op now (fun ck => QGetQ ck) (fun o => o) (R_getq now).
Proof.
  intros s ck. split; [reflexivity|]. intros bk. cbn [b_exec fst].
  destruct (bytes_eqb bk ck) eqn:E; [apply bytes_eqb_true in E; subst|]; reflexivity.
Qed.
Lemma local_gatq now ttl : local_op now (fun ck => QGatQ ck ttl) (F_touch now ttl) (R_getq now).
Proof.
  intros s ck. rewrite b_exec_gatq. cbn [fst snd]. split; [reflexivity|]. intros bk. apply touch_pointwise.
Qed.
Lemma local_touch now ttl : local_op now (fun ck => QTouch ck ttl) (F_touch now ttl) (R_stat now).
Proof.
  intros s ck. cbn [b_exec]. destruct (b_touch s now ck ttl) as [s' st] eqn:E. cbn [fst snd]. split.
  - unfold gb_touch in E. rewrite live_lv in E. unfold R_stat. destruct (lv now (s ck)); inversion E; reflexivity.
  - intros bk. replace s' with (fst (b_touch s now ck ttl)) by (rewrite E; reflexivity). apply touch_pointwise.
Qed.
Lemma local_delete now : local_op now QDelete (F_del now) (R_stat now).
Proof.
  intros s ck. rewrite b_exec_delete. cbn [fst snd]. split.
  - unfold gb_delete. rewrite live_lv. unfold R_stat. destruct (lv now (s ck)); reflexivity.
  - intros bk. apply delete_pointwise.
Qed.

Lemma any_notfound_stat now (s : store) cks :
  (forall ck, In ck cks -> lv now (s ck) <> None) ->
  any_notfound (map (fun ck => R_stat now (s ck)) cks) = false.
Proof.
  induction cks as [|ck r IH]; intros H; [reflexivity|].
  cbn [map]. unfold any_notfound in *. cbn [existsb]. rewrite IH by (intros c Hc; apply H; right; exact Hc).
  specialize (H ck (or_introl eq_refl)). unfold R_stat. destruct (lv now (s ck)); [reflexivity|contradiction].
Qed.

(* ---------------- the shape of abs_entry ---------------- *)
Definition cdata (st : store) (now : N) (k : bytes) (i : N) : bytes :=
  match live now st (chunk_key k i) with Some e => e_data e | None => [] end.
Definition aval (md : meta) (vals : list bytes) : bytes :=
  assemble md 0 vals ++ zeros (m_length md - len (assemble md 0 vals)).

Lemma abs_entry_unfold st now k :
  abs_entry st now k =
  match live now st (meta_key k) with
  | None => None
  | Some me => let md := dec_meta (e_data me) in
      if forallb (chunk_ok st now k md) (idxs (m_nchunks md))
      then Some (mkE (aval md (map (cdata st now k) (idxs (m_nchunks md)))) (m_flags md) (e_dl me))
      else None
  end.
Proof. reflexivity. Qed.

(* chunk i of k is live in st and starts with the token *)
Definition chunk_good (st : store) (now : N) (k : bytes) (tok : bytes) (i : N) : Prop :=
  exists e, live now st (chunk_key k i) = Some e /\ take tokenSize (e_data e) = tok.

Lemma chunk_ok_good st now k md i : chunk_ok st now k md i = true <-> chunk_good st now k (m_token md) i.
Proof.
  unfold chunk_ok, chunk_good. destruct (live now st (chunk_key k i)) as [e|]; split.
  - intros H. exists e. split; [reflexivity|apply bytes_eqb_eq; exact H].
  - intros [e' [H1 H2]]. inversion H1; subst. apply bytes_eqb_eq. exact H2.
  - discriminate.
  - intros [e' [H1 _]]. discriminate.
Qed.

Lemma abs_entry_none st now k : live now st (meta_key k) = None -> abs_entry st now k = None.
Proof. intros H. rewrite abs_entry_unfold, H. reflexivity. Qed.

Lemma abs_entry_some st now k me : live now st (meta_key k) = Some me ->
  let md := dec_meta (e_data me) in
  (forall i, i < m_nchunks md -> chunk_good st now k (m_token md) i) ->
  abs_entry st now k = Some (mkE (aval md (map (cdata st now k) (idxs (m_nchunks md)))) (m_flags md) (e_dl me)).
Proof.
  intros Hm md Hc. rewrite abs_entry_unfold, Hm. cbv zeta. fold md.
  replace (forallb (chunk_ok st now k md) (idxs (m_nchunks md))) with true; [reflexivity|].
  symmetry. apply forallb_forall. intros i Hi. apply chunk_ok_good. apply Hc. apply in_idxs. exact Hi.
Qed.

Lemma abs_entry_inv st now k me : live now st (meta_key k) = Some me -> abs_entry st now k <> None ->
  let md := dec_meta (e_data me) in
  forall i, i < m_nchunks md -> chunk_good st now k (m_token md) i.
Proof.
  intros Hm Hne md i Hi. rewrite abs_entry_unfold, Hm in Hne. cbv zeta in Hne. fold md in Hne.
  destruct (forallb (chunk_ok st now k md) (idxs (m_nchunks md))) eqn:E; [|contradiction].
  rewrite forallb_forall in E. apply chunk_ok_good. apply E. apply in_idxs. exact Hi.
Qed.

Lemma abs_entry_meta st now k e : abs_entry st now k = Some e ->
  exists me, live now st (meta_key k) = Some me /\ e_dl e = e_dl me /\
             e_flags e = m_flags (dec_meta (e_data me)).
Proof.
  rewrite abs_entry_unfold. destruct (live now st (meta_key k)) as [me|]; [|discriminate].
  cbv zeta. destruct (forallb _ _); [|discriminate]. intros H. inversion H; subst. exists me. cbn. auto.
Qed.

Lemma abs_entry_alive st now k e : abs_entry st now k = Some e -> alive now e = true.
Proof.
  intros H. apply abs_entry_meta in H. destruct H as (me & Hm & Hd & _).
  apply live_some in Hm. destruct Hm as [_ Ha]. unfold alive in *. rewrite Hd. exact Ha.
Qed.

Lemma live_abs st now k : live now (abs_store st now) k = abs_entry st now k.
Proof.
  unfold live, abs_store. destruct (abs_entry st now k) as [e|] eqn:E; [|reflexivity].
  rewrite (abs_entry_alive st now k e E). reflexivity.
Qed.

(* ---------------- assembling ---------------- *)
Lemma assemble_ext md md' : m_csize md = m_csize md' -> m_length md = m_length md' ->
  forall vals j, assemble md j vals = assemble md' j vals.
Proof.
  intros H1 H2. induction vals as [|v r IH]; intros j; [reflexivity|].
  cbn [assemble]. rewrite IH. unfold piece. rewrite H1, H2. reflexivity.
Qed.
Lemma aval_ext md md' vals : m_csize md = m_csize md' -> m_length md = m_length md' ->
  aval md vals = aval md' vals.
Proof. intros H1 H2. unfold aval. rewrite (assemble_ext md md' H1 H2), H2. reflexivity. Qed.

(* what the pipelined chunk reads return when every announced chunk is good *)
Lemma arrived_good st now k md : forall l,
  (forall i, In i l -> chunk_good st now k (m_token md) i) ->
  arrived (map (fun ck => R_getq now (st ck)) (map (chunk_key k) l)) = map (cdata st now k) l /\
  existsb (fun v => negb (bytes_eqb (take tokenSize v) (m_token md))) (map (cdata st now k) l) = false.
Proof.
  induction l as [|i r IH]; intros H; [split; reflexivity|].
  destruct (IH (fun j Hj => H j (or_intror Hj))) as [I1 I2].
  destruct (H i (or_introl eq_refl)) as [e [He Ht]].
  cbn [map]. unfold R_getq at 1. rewrite <- live_lv, He. rewrite arrived_cons_val. cbn [existsb].
  unfold cdata at 1 3. rewrite He, I1, I2, Ht, bytes_eqb_refl. split; reflexivity.
Qed.

Lemma read_result_good st now k md :
  (forall i, i < m_nchunks md -> chunk_good st now k (m_token md) i) ->
  read_result md (map (fun ck => R_getq now (st ck)) (chunk_keys k (m_nchunks md))) =
  (aval md (map (cdata st now k) (idxs (m_nchunks md))), false).
Proof.
  intros H. rewrite chunk_keys_idxs.
  destruct (arrived_good st now k md (idxs (m_nchunks md))) as [A1 A2].
  { intros i Hi. apply H. apply in_idxs. exact Hi. }
  unfold read_result. rewrite A1, A2. rewrite len_map, len_idxs, N.eqb_refl. reflexivity.
Qed.

(* reading the chunks of a key whose announced chunks are all good; [touch] re-deadlines them *)
Lemma read_chunks_good {A} st now k md touch (cont : bytes * bool -> bprog A) :
  m_nchunks md <= 18446744073709551616 ->
  (forall i, i < m_nchunks md -> chunk_good st now k (m_token md) i) ->
  exists st1,
    brun (read_chunks k md touch cont) st now =
    brun (cont (aval md (map (cdata st now k) (idxs (m_nchunks md))), false)) st1 now /\
    (forall bk, In bk (chunk_keys k (m_nchunks md)) ->
       st1 bk = match touch with Some ttl => F_touch now ttl (st bk) | None => st bk end) /\
    (forall bk, ~ In bk (chunk_keys k (m_nchunks md)) -> st1 bk = st bk).
Proof.
  intros Hn Hg. unfold read_chunks. rewrite brun_breqs. cbn [rev app].
  rewrite brun_req, b_exec_noop. cbn [fst snd].
  pose proof (chunk_keys_nodup k (m_nchunks md) Hn) as ND.
  destruct touch as [ttl|].
  - destruct (bexecs_local now _ _ _ (local_gatq now ttl) (chunk_keys k (m_nchunks md)) st ND) as (B1 & B2 & B3).
    eexists. split; [|split; [exact B2|exact B3]].
    rewrite B1, (read_result_good st now k md Hg). reflexivity.
  - destruct (bexecs_local now _ _ _ (local_getq now) (chunk_keys k (m_nchunks md)) st ND) as (B1 & B2 & B3).
    eexists. split; [|split; [exact B2|exact B3]].
    rewrite B1, (read_result_good st now k md Hg). reflexivity.
Qed.

(* ---------------- what wf_key gives for a key whose metadata is live ---------------- *)
Lemma nchunks_small (k : bytes) md : 1 <= len k <= 250 ->
  m_length md < 4294967296 -> m_csize md = chunk_data (len k) ->
  m_nchunks md = num_chunks (m_length md) (m_csize md) -> m_nchunks md < 4294967296.
Proof.
  intros Hk Hl Hc Hn. rewrite Hn, Hc. pose proof (ds_bounds k Hk). apply nchunks_bound; lia.
Qed.

Lemma wf_live st now k me : 1 <= len k <= 250 -> wf_key st now k -> live now st (meta_key k) = Some me ->
  let md := dec_meta (e_data me) in
  m_nchunks md < 4294967296 /\
  (forall i, i < m_nchunks md -> chunk_good st now k (m_token md) i) /\
  abs_entry st now k = Some (mkE (aval md (map (cdata st now k) (idxs (m_nchunks md)))) (m_flags md) (e_dl me)).
Proof.
  intros Hk W Hm md. destruct (W me Hm) as (W1 & W2 & W3 & W4 & W5 & W6 & W7 & W8 & W9 & W10).
  fold md in W2, W3, W4, W5, W6, W7, W8, W9, W10.
  pose proof (abs_entry_inv st now k me Hm W1) as Hg. cbv zeta in Hg. fold md in Hg.
  split; [apply (nchunks_small k md); assumption|]. split; [exact Hg|].
  apply abs_entry_some; assumption.
Qed.

(* ---------------- TTL arithmetic ---------------- *)
Lemma c_exptime_agrees now ttl :
  match norm now ttl with Never => fst (c_exptime now ttl) = 0 | At t => fst (c_exptime now ttl) = t end.
Proof.
  unfold norm, c_exptime. destruct (ttl =? 0); [reflexivity|].
  destruct (realTimeMaxDelta <? ttl); reflexivity.
Qed.

Lemma alive_norm_entry now d f dl : alive now (mkE d f dl) = alive now (mkE [] 0 dl).
Proof. reflexivity. Qed.
