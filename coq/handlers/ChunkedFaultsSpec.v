(* ChunkedFaultsSpec.v — definitions used by the "what a later read returns" statements of
   props/C10chunk.v (no proofs here). *)
From Coq Require Import String.
From Rend Require Import base.Bytes gen.Consts_gen spec.MapSpec orca.Types handlers.ChunkFmt
  handlers.Chunked handlers.ChunkedSpec handlers.ChunkedFaults.
Open Scope N_scope.

(* the item a fault-free read of key k owes a client, given the backend contents: the abstraction
   of the store — a hit with exactly its data and flags, or a miss (which carries the flags of the
   metadata when only chunks are missing, as the handler's missResponse does) *)
Definition owed_item (st : store) (now : N) (k : bytes) (opq : N) (quiet : bool) : gres :=
  match abs_entry st now k with
  | Some e => mkGR k (e_data e) (e_flags e) 0 opq quiet false
  | None => match live now st (meta_key k) with
            | Some me => mkGR k [] (m_flags (dec_meta (e_data me))) 0 opq quiet true
            | None => mkGR k [] 0 0 opq quiet true end
  end.

(* the chunk count announced by the key's live metadata fits 32 bits (true of everything the
   handler writes; an arbitrary byte string in the backend need not decode to such a count) *)
Definition meta_small (st : store) (now : N) (k : bytes) : Prop :=
  forall me, live now st (meta_key k) = Some me -> m_nchunks (dec_meta (e_data me)) < 4294967296.

(* a later fault-free read of k on store st: single-key get, and get-and-touch *)
Definition read_get (st : store) (now : N) (k : bytes) (opq : N) (quiet : bool) : hres :=
  snd (brun (chunked_get [mkGI k opq quiet] []) st now).
Definition read_gat (st : store) (now : N) (k : bytes) (ttl opq : N) : hres :=
  snd (brun (chunked_gat k ttl opq) st now).

(* a read result is a hit with exactly this data and flags / is a miss *)
Definition reads_as (r : hres) (v : option (bytes * N)) : Prop :=
  exists g, r = HVals [g] None /\ gres_is g v.
