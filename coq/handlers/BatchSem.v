(* BatchSem.v — meaning of the Go constructs that harness `batchtrans` emits when it translates
   conn.batchIntoBuffer (handlers/memcached/batched/conn.go) into gen/Batch_gen.v. Hand-written and
   TRUSTED: definitions only. gen/BatchLink.v proves the translated function equal (through the
   abstraction stated there) to Batched.batch_entries, the function props/C06.v is about.

   Rules (what each emitted name stands for):
   * A Go statement sequence is a chain of `let x := e in ...`: an assignment / `x++` / `m[k] = v` /
     `buf.Write(..)` REBINDS the Go variable's own name. A block (switch case, loop body) yields the
     tuple of the outer variables it assigns, in declaration order, as `Ok (..)`; `bs_bind` passes
     them on. A run-time panic is `Panic`; a statement the translator does not recognise is
     `Untranslatable "text (file:line)"` — the model never has either outcome, so the link fails.
   * uint32: `uint32(e)` = [bs_u32 e]; `x++` on a uint32 variable = [bs_inc32 x] (wraps).
     int: [Z]; `len(e)` as an int = [bs_len_int e]; `uint32(len(e))` = [bs_u32 (len e)].
   * map[K]V: the LOG of the assignments, oldest first ([bs_map_set] appends). Go's lookup finds the
     newest assignment of the key ([bs_map_get]), `delete` removes every assignment of the key
     ([bs_map_delete]), `len` counts the distinct keys ([bs_map_len]). `make(map.., n)` = [].
   * `for _, x := range l` = [bs_for_range]; `for i := range l` = [bs_for_index] (i = 0 .. len l - 1);
     `l[i]` = [bs_index] (Panic when out of range), evaluated before the statement it occurs in, in
     source order.
   * `switch tag { case c: .. }` (no fallthrough, constant cases) = [bs_switch]: the first case whose
     constant equals the tag, else the default (no default clause: the variables unchanged).
   * `x.(T)` = [bs_assert] on the generated `as_T` (Panic when the dynamic type differs).
   * bytes.Buffer: the LOG of what is appended ([bufop]). `batcherPool.Get()` asserted to a bytes.Buffer pointer
     = the translated function's parameter [pooled_buffer] (any log); `buf.Reset()` = [bs_buf_reset];
     `buf.Write(d)` appends [BData d];
     `binprot.WriteXCmd(buf, args..)` appends the [bufop] that the generated definition `WriteXCmd`
     (read from protocol/binprot/commands.go: which helper, which opcode, the arguments passed through
     in order) gives. The helpers' byte layout is the subject of stdtrans / gen/StdLink.v (C01wiresrc),
     not of this file: [BDataCmd] = writeDataCmdCommon, [BCatCmd] = writeAppendPrependCmdCommon,
     [BKeyCmd] = writeKeyCmd, [BKeyExpCmd] = writeKeyExptimeCmd. The error results of these calls are
     ignored by the source (expression statements) and writes to a bytes.Buffer do not fail.
   * `chan response` values are channel identities ([nat]).
   * Dropped by rule: nothing in batchIntoBuffer (it has no metrics/log statements); comments. *)
From Coq Require Import String.
From Rend Require Import base.Bytes.
Open Scope N_scope.

Inductive res (A : Type) : Type :=
| Ok (a : A)
| Panic (why : string)
| Untranslatable (what : string).
Arguments Ok {A} a.
Arguments Panic {A} why.
Arguments Untranslatable {A} what.

Definition bs_bind {A B} (r : res A) (k : A -> res B) : res B :=
  match r with
  | Ok a => k a
  | Panic s => Panic s
  | Untranslatable s => Untranslatable s
  end.

(* ---- integers ---- *)
Definition bs_u32 (x : N) : N := x mod 4294967296.
Definition bs_inc32 (x : N) : N := bs_u32 (x + 1).
Definition bs_add32 (x y : N) : N := bs_u32 (x + y).
Definition bs_len_int {A} (l : list A) : Z := Z.of_N (len l).

(* ---- maps ---- *)
Definition gomap (K V : Type) : Type := list (K * V).
Definition bs_make_map {K V} : gomap K V := [].
Definition bs_map_set {K V} (m : gomap K V) (k : K) (v : V) : gomap K V := m ++ [(k, v)].
Definition bs_map_get {K V} (eqb : K -> K -> bool) (m : gomap K V) (k : K) : option V :=
  match find (fun e => eqb (fst e) k) (rev m) with Some e => Some (snd e) | None => None end.
Definition bs_map_delete {K V} (eqb : K -> K -> bool) (m : gomap K V) (k : K) : gomap K V :=
  filter (fun e => negb (eqb (fst e) k)) m.
Fixpoint bs_map_keys {K V} (eqb : K -> K -> bool) (m : gomap K V) : list K :=
  match m with
  | [] => []
  | (k, _) :: r => let ks := bs_map_keys eqb r in if existsb (eqb k) ks then ks else k :: ks
  end.
Definition bs_map_len {K V} (eqb : K -> K -> bool) (m : gomap K V) : Z :=
  Z.of_nat (length (bs_map_keys eqb m)).

(* ---- loops, indexing, switch, type assertion ---- *)
Fixpoint bs_for_range {A S} (l : list A) (body : A -> S -> res S) (s : S) : res S :=
  match l with
  | [] => Ok s
  | x :: r => bs_bind (body x s) (bs_for_range r body)
  end.

Fixpoint bs_for_upto {S} (n : nat) (i : N) (body : N -> S -> res S) (s : S) : res S :=
  match n with
  | O => Ok s
  | S n' => bs_bind (body i s) (bs_for_upto n' (i + 1) body)
  end.
Definition bs_for_index {A S} (l : list A) (body : N -> S -> res S) (s : S) : res S :=
  bs_for_upto (length l) 0 body s.

Definition bs_index {A B} (l : list A) (i : N) (k : A -> res B) : res B :=
  match nth_error l (N.to_nat i) with
  | Some x => k x
  | None => Panic "index out of range"
  end.

Fixpoint bs_switch {S} (tag : N) (cases : list (N * res S)) (default : res S) : res S :=
  match cases with
  | [] => default
  | (c, r) :: rest => if tag =? c then r else bs_switch tag rest default
  end.

Definition bs_assert {A B} (o : option A) (k : A -> res B) : res B :=
  match o with
  | Some a => k a
  | None => Panic "interface conversion"
  end.

(* ---- the buffer ---- *)
Inductive bufop :=
| BDataCmd (opcode : N) (key : bytes) (flags exptime dataSize opaque : N)
| BCatCmd (opcode : N) (key : bytes) (flags exptime dataSize opaque : N)
| BKeyCmd (opcode : N) (key : bytes) (opaque : N)
| BKeyExpCmd (opcode : N) (key : bytes) (exptime opaque : N)
| BData (d : bytes)
| BOther (what : string).

Definition gobuf : Type := list bufop.
Definition bs_buf_reset (b : gobuf) : gobuf := [].
Definition bs_buf_write (b : gobuf) (o : bufop) : gobuf := b ++ [o].
