(* ChunkedSpec.v — definitions used by the statements of C04 / C05 (no proofs here). *)
From Coq Require Import String.
From Rend Require Import base.Bytes gen.Consts_gen spec.MapSpec orca.Types handlers.ChunkFmt handlers.Chunked.
Open Scope N_scope.

Definition key_of (q : breq) : option bytes :=
  match q with
  | QGet k | QGetQ k | QGat k _ | QGatQ k _ | QSet _ k _ _ _ | QDelete k | QTouch k _ => Some k
  | QNoop => None
  end.

(* backend keys derived from client key k: its metadata key and its numbered chunk keys *)
Definition derived (k bk : bytes) : Prop := bk = meta_key k \/ exists i, bk = chunk_key k i.

Definition hreq_keys (q : hreq) : list bytes :=
  match q with
  | HSet _ k _ _ _ | HCat _ k _ | HDelete k | HTouch k _ | HGat k _ _ => [k]
  | HGet items | HGetE items => map gi_key items
  end.

(* a complete write of one value under client key k, as the set path performs it *)
Record cwrite := mkW { w_tok : bytes; w_cnow : N; w_data : bytes; w_flags : N; w_ttl : N }.
Definition write_reqs (k : bytes) (w : cwrite) : list breq :=
  let ds := chunk_data (len k) in
  let md := mkMeta (len (w_data w)) (w_flags w) (num_chunks (len (w_data w)) ds) ds (w_cnow w)
                   (fst (c_exptime (w_cnow w) (w_ttl w))) (w_tok w) in
  QSet MSet (meta_key k) (w_flags w) (w_ttl w) (enc_meta md) ::
  chunk_sets k (w_flags w) (w_ttl w) (w_tok w) (w_data w).

(* every backend state that can arise from the requests of any of the writes W to key k,
   applied in ANY order, any number of times, interleaved with the loss of ANY entries
   (eviction, expiry, deletes): covers every interleaving of concurrent sets at request
   granularity and every subset of lost entries *)
Inductive reach (k : bytes) (now : N) (W : list cwrite) : store -> Prop :=
| reach_empty : reach k now W empty_store
| reach_req : forall s w q, reach k now W s -> In w W -> In q (write_reqs k w) ->
                            reach k now W (fst (b_exec s now q))
| reach_lose : forall s bk, reach k now W s -> reach k now W (upd s bk None).

Definition write_ok (k : bytes) (w : cwrite) : Prop :=
  len (w_tok w) = tokenSize /\ len (w_data w) < 4294967296 /\ w_flags w < 4294967296 /\
  w_cnow w < 4294967296 /\ w_ttl w < 4294967296 /\ w_cnow w + w_ttl w < 4294967296.

(* a readable key: metadata present and every announced chunk present with the metadata's token *)
Definition readable (st : store) (now : N) (k : bytes) : Prop := abs_entry st now k <> None.
