(* ChunkedSpec.v — definitions used by the statements of C04 / C05 (no proofs here). *)
From Coq Require Import String.
From Rend Require Import base.Bytes gen.Consts_gen spec.MapSpec orca.Types handlers.ChunkFmt handlers.Chunked.
Open Scope N_scope.

Definition key_of (q : breq) : option bytes :=
  match q with
  | QGet k | QGetQ k | QGat k _ | QGatQ k _ | QSet _ k _ _ _ | QDelete k | QTouch k _ => Some k
  | QNoop => None
  end.

(* backend keys derived from client key k: its metadata key and its numbered chunk keys *)
Definition derived (k bk : bytes) : Prop := bk = meta_key k \/ exists i, bk = chunk_key k i.

Definition hreq_keys (q : hreq) : list bytes :=
  match q with
  | HSet _ k _ _ _ | HCat _ k _ | HDelete k | HTouch k _ | HGat k _ _ => [k]
  | HGet items | HGetE items => map gi_key items
  end.

(* a complete write of one value under client key k, as the set path performs it *)
Record cwrite := mkW { w_tok : bytes; w_cnow : N; w_data : bytes; w_flags : N; w_ttl : N }.
Definition write_reqs (k : bytes) (w : cwrite) : list breq :=
  let ds := chunk_data (len k) in
  let md := mkMeta (len (w_data w)) (w_flags w) (num_chunks (len (w_data w)) ds) ds (w_cnow w)
                   (fst (c_exptime (w_cnow w) (w_ttl w))) (w_tok w) in
  QSet MSet (meta_key k) (w_flags w) (w_ttl w) (enc_meta md) ::
  chunk_sets k (w_flags w) (w_ttl w) (w_tok w) (w_data w).

(* every backend state that can arise from the requests of any of the writes W to key k,
   applied in ANY order, any number of times, interleaved with the loss of ANY entries
   (eviction, expiry, deletes): covers every interleaving of concurrent sets at request
   granularity and every subset of lost entries *)
Inductive reach (k : bytes) (now : N) (W : list cwrite) : store -> Prop :=
| reach_empty : reach k now W empty_store
| reach_req : forall s w q, reach k now W s -> In w W -> In q (write_reqs k w) ->
                            reach k now W (fst (b_exec s now q))
| reach_lose : forall s bk, reach k now W s -> reach k now W (upd s bk None).

Definition write_ok (k : bytes) (w : cwrite) : Prop :=
  len (w_tok w) = tokenSize /\ len (w_data w) < 4294967296 /\ w_flags w < 4294967296 /\
  w_cnow w < 4294967296 /\ w_ttl w < 4294967296 /\ w_cnow w + w_ttl w < 4294967296.

(* a readable key: metadata present and every announced chunk present with the metadata's token *)
Definition readable (st : store) (now : N) (k : bytes) : Prop := abs_entry st now k <> None.

(* ---- refinement of every chunked command to the reference map (C04, C09) ---- *)
(* the client-visible map stored in backend store st *)
Definition abs_store (st : store) (now : N) : store := fun k => abs_entry st now k.

(* a backend store as the handler leaves it when nothing was lost: whenever the metadata of a
   key is live, the value is readable (all announced chunks live with the metadata's token),
   every backend entry of the key carries the metadata entry's deadline, and the expiry
   recorded INSIDE the metadata agrees with that deadline *)
Definition exptime_agrees (md : meta) (d : deadline) : Prop :=
  match d with Never => m_exptime md = 0 | At t => m_exptime md = t end.
Definition wf_key (st : store) (now : N) (k : bytes) : Prop :=
  forall me, live now st (meta_key k) = Some me ->
    let md := dec_meta (e_data me) in
    abs_entry st now k <> None /\
    exptime_agrees md (e_dl me) /\
    m_flags md < 4294967296 /\ m_length md < 4294967296 /\
    m_instime md < 4294967296 /\ m_exptime md < 4294967296 /\
    m_csize md = chunk_data (len k) /\ m_nchunks md = num_chunks (m_length md) (m_csize md) /\
    len (m_token md) = tokenSize /\
    forall i e, i < m_nchunks md -> live now st (chunk_key k i) = Some e -> e_dl e = e_dl me.
Definition wf_store (st : store) (now : N) : Prop := forall k, 1 <= len k <= 250 -> wf_key st now k.

(* the handler's clock agrees with the backend's, and the call is one the theorems cover *)
Definition call_ok (tok : bytes) (cnow now : N) (q : hreq) : Prop :=
  cnow = now /\ len tok = tokenSize /\ now < 2147483648 /\
  match q with
  | HSet _ k d f ttl => 1 <= len k <= 250 /\ len d < 4294967296 /\ f < 4294967296 /\ ttl < 4294967296 /\
                        cnow + ttl < 4294967296 /\ snd (c_exptime cnow ttl) = false   (* not an absolute-past TTL: known finding *)
  | HCat _ k d => 1 <= len k <= 250 /\ len d < 2147483648 /\
                  realTimeMaxDelta < now   (* the recorded absolute expiry is re-used as a TTL: only an absolute one above 30 days *)
  | HDelete k => 1 <= len k <= 250
  | HTouch k ttl | HGat k ttl _ => 1 <= len k <= 250 /\ ttl < 4294967296 /\ cnow + ttl < 4294967296
  | HGet items => Forall (fun it => 1 <= len (gi_key it) <= 250) items
  | HGetE _ => False
  end.

(* append/prepend: the concatenated value still fits the metadata's 32-bit length field *)
Definition cat_fits (st : store) (now : N) (q : hreq) : Prop :=
  match q with
  | HCat _ k d => forall e, abs_entry st now k = Some e -> len (e_data e) + len d < 4294967296
  | _ => True
  end.
