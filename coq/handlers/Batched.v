(* Batched.v — handlers/memcached/batched: what is delivered to whom. The goroutine/channel
   mechanics (blocking sends, the batch timer, reconnect back-off) are runtime behaviour and
   are not modelled; the model covers the logic: conn.batchIntoBuffer (opaque numbering and
   the routing table), the backend answering the batch in order, conn.reader routing each
   reply by its opaque and mapping statuses, the recovery path after a cut connection
   (conn.recoveryMonitor), and the callers' retry loops (Handler.doRequest, realHandleGet with
   its tracker map). *)
From Rend Require Import base.Bytes gen.Consts_gen spec.MapSpec orca.Types handlers.Std.
Open Scope N_scope.

(* one backend request of a batch; all of them are non-quiet: each gets exactly one reply *)
Inductive wreq :=
| WSet (m : smode) (k d : bytes) (f ttl : N)
| WCat (front : bool) (k d : bytes)
| WDelete (k : bytes)
| WTouch (k : bytes) (ttl : N)
| WGat (k : bytes) (ttl : N)
| WGet (k : bytes)
| WGetE (k : bytes).

(* reshandle: how the reader routes and labels one reply *)
Record handle := mkHd { hd_key : bytes; hd_opaque : N; hd_quiet : bool; hd_chan : nat }.

(* a queued request: the caller's response channel and the handler call *)
Record qreq := mkQ { q_chan : nat; q_req : hreq }.

Definition u32 (x : N) : N := x mod 4294967296.

(* conn.batchIntoBuffer: opaque starts at the random base; it is incremented before every
   request, and once more after every key of a get *)
Fixpoint get_entries (gete : bool) (o : N) (ch : nat) (items : list gitem) : list (N * wreq * handle) * N :=
  match items with
  | [] => ([], o)
  | it :: rest =>
      let '(es, o') := get_entries gete (u32 (o + 1)) ch rest in
      ((o, (if gete then WGetE (gi_key it) else WGet (gi_key it)),
        mkHd (gi_key it) (gi_opaque it) (gi_quiet it) ch) :: es, o')
  end.

Fixpoint batch_entries (opq : N) (reqs : list qreq) : list (N * wreq * handle) :=
  match reqs with
  | [] => []
  | r :: rest =>
      let o := u32 (opq + 1) in
      let ch := q_chan r in
      let single := fun w k => (o, w, mkHd k 0 false ch) :: batch_entries o rest in
      match q_req r with
      | HSet m k d f ttl => single (WSet m k d f ttl) k
      | HCat fr k d => single (WCat fr k d) k
      | HDelete k => single (WDelete k) k
      | HTouch k ttl => single (WTouch k ttl) k
      | HGat k ttl opq' => (o, WGat k ttl, mkHd k opq' false ch) :: batch_entries o rest
      | HGet items => let '(es, o') := get_entries false o ch items in es ++ batch_entries o' rest
      | HGetE items => let '(es, o') := get_entries true o ch items in es ++ batch_entries o' rest
      end
  end.

(* number of replies each request expects *)
Definition expected (q : hreq) : nat :=
  match q with HGet items | HGetE items => length items | _ => 1%nat end.

(* ---- the backend answers the batch in order ---- *)
Inductive wres := WStatus (st : N) | WVal (flags exp : N) (data : bytes).

Definition w_exec (s : store) (now : N) (w : wreq) : store * wres :=
  match w with
  | WSet m k d f ttl => let '(s', st) := b_set m s now k d f ttl in (s', WStatus st)
  | WCat fr k d => let '(s', st) := b_cat fr s now k d in (s', WStatus st)
  | WDelete k => let '(s', st) := b_delete s now k in (s', WStatus st)
  | WTouch k ttl => let '(s', st) := b_touch s now k ttl in (s', WStatus st)
  | WGat k ttl => let '(s', o) := b_gat s now k ttl in
                  (s', match o with Some e => WVal (e_flags e) 0 (e_data e) | None => WStatus statusKeyEnoent end)
  | WGet k => (s, match b_get s now k with Some e => WVal (e_flags e) 0 (e_data e) | None => WStatus statusKeyEnoent end)
  | WGetE k => (s, match b_get s now k with
                   | Some e => WVal (e_flags e) (remaining now (e_dl e)) (e_data e)
                   | None => WStatus statusKeyEnoent end)
  end.

Definition is_get_like (w : wreq) : bool := match w with WGat _ _ | WGet _ | WGetE _ => true | _ => false end.

(* ---- conn.reader: one reply -> what is sent on the handle's channel ---- *)
(* response{err, gr}: an error, or a GetEResponse (a superset of every other response) *)
Inductive resp := RErr (e : N) | RRes (g : gres).

(* a miss is reported as a response only for get-type replies; any other error status is the
   call's error (for add/replace/append/delete/touch that is how "exists"/"not found"/"not
   stored" reach the caller, exactly as over a direct connection) *)
Definition deliver (w : wreq) (h : handle) (r : wres) : resp :=
  match r with
  | WStatus st =>
      match decode_error st with
      | Some e => if is_get_like w && (e =? EKeyNotFound)
                  then RRes (mkGR (hd_key h) [] 0 0 (hd_opaque h) (hd_quiet h) true)
                  else RErr e
      | None => RRes (mkGR [] [] 0 0 0 false false)          (* a plain success: empty response *)
      end
  | WVal f x d => RRes (mkGR (hd_key h) d f x (hd_opaque h) (hd_quiet h) false)
  end.

(* routing: the reader looks the reply's opaque up in the batch's table *)
Fixpoint lookup_entry (tab : list (N * wreq * handle)) (o : N) : option (wreq * handle) :=
  match tab with
  | [] => None
  | (o', w, h) :: r => if o' =? o then Some (w, h) else lookup_entry r o
  end.

(* run a batch: the backend executes the requests in buffer order and replies with the
   request's opaque; the reader routes by lookup. [cut] = Some n: the connection is cut after
   n replies have been delivered (the backend may have applied later requests or not:
   [applied] of them were). Result: new store, deliveries (channel, response) in order. *)
Fixpoint run_entries (tab es : list (N * wreq * handle)) (s : store) (now : N) (budget : option nat)
  : store * list (nat * resp) * list (N * wreq * handle) :=
  match es with
  | [] => (s, [], [])
  | (o, w, h) :: rest =>
      match budget with
      | Some O => (s, [], es)                        (* cut: these never got a reply *)
      | _ =>
          let '(s', r) := w_exec s now w in
          let d := match lookup_entry tab o with
                   | Some (w', h') => (hd_chan h', deliver w' h' r)
                   | None => (hd_chan h, RErr EIO)      (* "FATAL ERROR: Batch out of sync" *)
                   end in
          let '(s'', ds, lft) := run_entries tab rest s' now (match budget with Some (S n) => Some n | _ => None end) in
          (s'', d :: ds, lft)
      end
  end.

(* the backend may still have applied a prefix of the unanswered requests before the cut *)
Fixpoint apply_silently (es : list (N * wreq * handle)) (n : nat) (s : store) (now : N) : store :=
  match n, es with
  | S n', (_, w, _) :: rest => apply_silently rest n' (fst (w_exec s now w)) now
  | _, _ => s
  end.

Definition RETRY : N := 1000000.   (* errRetryRequestBecauseOfConnectionFailure, not a common.Err* *)

(* recoveryMonitor: every channel that still expects replies gets the retry error, once *)
Fixpoint chans_of (es : list (N * wreq * handle)) (acc : list nat) : list nat :=
  match es with
  | [] => rev acc
  | (_, _, h) :: r => if existsb (Nat.eqb (hd_chan h)) acc then chans_of r acc else chans_of r (hd_chan h :: acc)
  end.

Definition run_batch (base : N) (reqs : list qreq) (s : store) (now : N) (cut : option (nat * nat))
  : store * list (nat * resp) :=
  let tab := batch_entries base reqs in
  let '(s', ds, lft) := run_entries tab tab s now (match cut with Some (n, _) => Some n | None => None end) in
  let s'' := match cut with Some (_, applied) => apply_silently lft applied s' now | None => s' end in
  (s'', ds ++ map (fun c => (c, RErr RETRY)) (chans_of lft [])).

(* ---- what the callers make of the deliveries ---- *)
Definition of_chan (ds : list (nat * resp)) (c : nat) : list resp :=
  flat_map (fun d => if Nat.eqb (fst d) c then [snd d] else []) ds.

(* Handler.doRequest + the method wrappers: one response *)
Definition single_result (q : hreq) (rs : list resp) : hres :=
  match rs with
  | RErr e :: _ => HErr e
  | RRes g :: _ => match q with
                   | HGat _ _ _ => HVals [g] None
                   | _ => HDone
                   end
  | [] => HErr EIO
  end.
(* realHandleGet/GetE: responses until the first error *)
Fixpoint get_result (rs : list resp) (acc : list gres) : hres :=
  match rs with
  | [] => HVals (rev acc) None
  | RErr e :: _ => HVals (rev acc) (Some e)
  | RRes g :: r => get_result r (g :: acc)
  end.
Definition call_result (q : hreq) (rs : list resp) : hres :=
  match q with HGet _ | HGetE _ => get_result rs [] | _ => single_result q rs end.

(* the same requests over direct connections, one after the other in batch order *)
Fixpoint direct (reqs : list qreq) (s : store) (now : N) : store * list (nat * hres) :=
  match reqs with
  | [] => (s, [])
  | r :: rest => let '(s', h) := std_exec s now (q_req r) in
                 let '(s'', hs) := direct rest s' now in (s'', (q_chan r, h) :: hs)
  end.

(* ---- retry of a multi-key get (realHandleGet) ---- *)
(* the tracker: requested (key, opaque, quiet) triples not yet served, as a multiset *)
Definition same_item (a b : gitem) : bool :=
  bytes_eqb (gi_key a) (gi_key b) && (gi_opaque a =? gi_opaque b) && Bool.eqb (gi_quiet a) (gi_quiet b).
Fixpoint remove_item (x : gitem) (l : list gitem) : list gitem :=
  match l with
  | [] => []
  | y :: r => if same_item x y then r else y :: remove_item x r
  end.
Definition item_of_res (g : gres) : gitem := mkGI (g_key g) (g_opaque g) (g_quiet g).

(* trackerMapToGetRequest: quiet ones first, the non-quiet ones at the end (map order is
   otherwise arbitrary: any such arrangement is a possible retry request) *)
Definition retry_request (pending : list gitem) : list gitem :=
  filter gi_quiet pending ++ filter (fun it => negb (gi_quiet it)) pending.

(* one attempt: submit [items] alone in a batch on a store; cut as given *)
Definition attempt (base : N) (items : list gitem) (s : store) (now : N) (cut : option (nat * nat))
  : store * list resp :=
  let '(s', ds) := run_batch base [mkQ 0 (HGet items)] s now cut in (s', of_chan ds 0%nat).

(* realHandleGet: up to [tries] attempts; each attempt's served results are forwarded and
   removed from the tracker; an attempt that ended with an error is retried with the pending
   items unless it was the last one. Returns served results and the final error. *)
Fixpoint get_retry (tries : nat) (bases : list N) (cuts : list (option (nat * nat))) (pending : list gitem)
                   (first : bool) (s : store) (now : N) (served : list gres) : store * list gres * option N :=
  match tries with
  | O => (s, served, None)
  | S t =>
      let items := if first then pending else retry_request pending in
      let base := hd 0 bases in
      let cut := hd None cuts in
      let '(s', rs) := attempt base items s now cut in
      (* forward until the first error *)
      let fix fwd (rs : list resp) (pend : list gitem) (sv : list gres) : list gitem * list gres * option N :=
        match rs with
        | [] => (pend, sv, None)
        | RErr e :: _ => (pend, sv, Some e)
        | RRes g :: r => fwd r (remove_item (item_of_res g) pend) (sv ++ [g])
        end in
      let '(pend', sv', e) := fwd rs pending served in
      match pend' with
      | [] => (s', sv', None)                                   (* everything served: done *)
      | _ => match t with
             | O => (s', sv', match e with
                              | Some x => Some (if x =? RETRY then EInternal else x)
                              | None => None end)            (* last go-round: report the error *)
             | _ => get_retry t (tl bases) (tl cuts) pend' false s' now sv'
             end
      end
  end.
