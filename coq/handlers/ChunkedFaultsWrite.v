(* ChunkedFaultsWrite.v — writes and deletes of the chunked handler under backend faults: what an
   acknowledgement promises, and all-or-nothing after a failed write. *)
From Coq Require Import String.
From Rend Require Import base.Bytes gen.Consts_gen spec.MapSpec orca.Types handlers.ChunkFmt
  handlers.ChunkFmtProofs handlers.Chunked handlers.ChunkedSpec handlers.ChunkedProofs
  handlers.ChunkedRefBase handlers.ChunkedRefCmds handlers.ChunkedFaults handlers.ChunkedFaultsProofs
  handlers.ChunkedFaultsRead.
Open Scope N_scope.

(* one step of a sequential program under a plan *)
Lemma frun_embed_req pl q K s now i :
  frun pl (embed (BReq q K)) s now i false =
  match pl i with
  | None => frun pl (embed (K (snd (b_exec s now q)))) (fst (b_exec s now q)) now (S i) false
  | Some (CFStatus st) => frun pl (embed (K (BStatus st))) (status_store s st q) now (S i) false
  | Some (CFBreak ap) => frun pl (if is_set q then FRet CPanic else embed (K BNone))
                              (if ap then fst (b_exec s now q) else s) now (S i) true
  end.
Proof.
  cbn [embed frun]. destruct (pl i) as [[st|ap]|]; try reflexivity.
  destruct (b_exec s now q) as [s1 x]. reflexivity.
Qed.

Lemma frun_dead_store {A} pl (p : fprog A) : forall s now i, fst (frun pl p s now i true) = s.
Proof. induction p as [a|q K IH]; intros s now i; [reflexivity|]. cbn [frun]. apply IH. Qed.

(* ================= an acknowledged set met no fault ================= *)
Lemma write_chunks_done pl now : plan_ok pl -> forall qs s i s',
  Forall (fun q => is_set q = true) qs ->
  frun pl (embed (write_chunks qs)) s now i false = (s', CRes HDone) ->
  brun (write_chunks qs) s now = (s', HDone).
Proof.
  intros Hpl. induction qs as [|q r IH]; intros s i s' HF H.
  - cbn in H. inversion H. reflexivity.
  - inversion HF as [|? ? Hq HF']; subst. cbn [write_chunks] in *. rewrite frun_embed_req in H. rewrite brun_req.
    destruct (pl i) as [[st|ap]|] eqn:Ep.
    + destruct (err_of_status st) as [e|] eqn:Ee; [|exfalso; exact (Hpl i st Ep Ee)].
      cbn in H. inversion H.
    + rewrite Hq in H. cbn in H. inversion H.
    + destruct (b_exec s now q) as [s1 x]. cbn [fst snd] in *.
      destruct x as [|st|f v]; try (cbn in H; inversion H; fail).
      destruct (err_of_status st); [cbn in H; inversion H|]. apply (IH _ _ _ HF' H).
Qed.

Lemma chunk_sets_are_sets k f ttl tok d : Forall (fun q => is_set q = true) (chunk_sets k f ttl tok d).
Proof. unfold chunk_sets. apply Forall_forall. intros q Hq. apply in_map_iff in Hq. destruct Hq as [i [<- _]]. reflexivity. Qed.

Lemma set_done_nofault pl s now tok cnow m k d f ttl s' i :
  plan_ok pl ->
  frun pl (embed (chunked_set tok cnow m k d f ttl)) s now i false = (s', CRes HDone) ->
  brun (chunked_set tok cnow m k d f ttl) s now = (s', HDone).
Proof.
  intros Hpl H. unfold chunked_set in *. destruct (c_exptime cnow ttl) as [exp expired].
  destruct expired; [cbn in H; inversion H; reflexivity|].
  rewrite frun_embed_req in H. rewrite brun_req.
  destruct (pl i) as [[st|ap]|] eqn:Ep.
  - destruct (err_of_status st) as [e|] eqn:Ee; [|exfalso; exact (Hpl i st Ep Ee)]. cbn in H. inversion H.
  - cbn in H. inversion H.
  - destruct (b_exec s now _) as [s1 x]. cbn [fst snd] in *.
    destruct x as [|st|f' v]; try (cbn in H; inversion H; fail).
    destruct (err_of_status st); [cbn in H; inversion H|].
    apply (write_chunks_done pl now Hpl _ _ _ _ (chunk_sets_are_sets _ _ _ _ _) H).
Qed.

(* ---- c10_chunked_set_acked ---- *)
Lemma set_acked_f pl tok now s m k d f ttl s' :
  plan_ok pl -> 1 <= len k <= 250 -> len tok = tokenSize -> len d < 4294967296 -> f < 4294967296 ->
  now < 4294967296 -> ttl < 4294967296 -> now + ttl < 4294967296 -> snd (c_exptime now ttl) = false ->
  chunked_exec_f pl tok now s now (HSet m k d f ttl) = (s', CRes HDone) ->
  abs_entry s' now k = lv now (Some (mkE d f (norm now ttl))).
Proof.
  intros Hpl Hk Htok Hd Hf Hnow Httl Hsum Hexp H. unfold chunked_exec_f in H. cbn [chunked_prog_f chunked_prog] in H.
  apply (set_done_nofault pl _ _ _ _ _ _ _ _ _ _ _ Hpl) in H.
  pose proof (c_exptime_bound now ttl Httl Hsum) as Hexpb.
  assert (Hp : set_passes m s now k).
  { destruct m; cbn [set_passes]; [exact I| |].
    - destruct (live now s (meta_key k)) as [me|] eqn:Hm; [|reflexivity].
      rewrite (set_add_exists s now tok now k d f ttl me Hexp Hm) in H. inversion H.
    - destruct (live now s (meta_key k)) as [me|] eqn:Hm; [discriminate|].
      rewrite (set_replace_missing s now tok now k d f ttl Hexp Hm) in H. inversion H. }
  destruct (set_run s now tok now m k d f ttl Hk Hd Hexp Hp) as [_ HW]. rewrite H in HW. cbn [fst] in HW.
  apply (written_abs _ now tok k d f ttl); first [assumption|lia].
Qed.

(* ================= delete ================= *)
Lemma delete_notset k : allreq notset (chunked_delete k).
Proof.
  unfold chunked_delete. apply allreq_with_meta; [reflexivity|constructor|intros; constructor|].
  intros md. constructor; [reflexivity|]. intros [|st|f v]; try constructor.
  destruct (err_of_status st); [constructor|]. apply allreq_breqs; [|intros; constructor].
  apply Forall_forall. intros q Hq. apply in_map_iff in Hq. destruct Hq as [ck [<- _]]. reflexivity.
Qed.

(* ---- c10_chunked_delete_aon: whatever a delete returns, the key reads as nothing or as before ---- *)
Lemma delete_aon_f pl tok cnow s now k :
  lsub now s (fst (chunked_exec_f pl tok cnow s now (HDelete k))).
Proof.
  unfold chunked_exec_f. cbn [chunked_prog_f chunked_prog].
  apply allreq_f_lsub; [|apply lsub_refl]. apply allreq_f_embed. apply delete_notset.
Qed.

(* ---- c10_chunked_delete_acked ---- *)
Lemma delete_acked_f pl tok cnow s now k s' :
  plan_ok pl -> chunked_exec_f pl tok cnow s now (HDelete k) = (s', CRes HDone) ->
  live now s' (meta_key k) = None.
Proof.
  intros Hpl H. unfold chunked_exec_f in H. cbn [chunked_prog_f chunked_prog] in H.
  unfold chunked_delete, with_meta in H. rewrite frun_embed_req in H.
  destruct (pl 0%nat) as [[st|ap]|] eqn:E0.
  - destruct (err_of_status st) as [e|] eqn:Ee; [|exfalso; exact (Hpl _ st E0 Ee)].
    destruct (e =? EKeyNotFound); cbn in H; inversion H.
  - cbn in H. inversion H.
  - rewrite b_exec_get in H. cbn [fst snd] in H.
    destruct (live now s (meta_key k)) as [me|] eqn:Hm.
    2:{ rewrite err_enoent, N.eqb_refl in H. cbn in H. inversion H. }
    rewrite frun_embed_req in H.
    destruct (pl 1%nat) as [[st|ap]|] eqn:E1.
    + destruct (err_of_status st) as [e|] eqn:Ee; [|exfalso; exact (Hpl _ st E1 Ee)]. cbn in H. inversion H.
    + cbn in H. inversion H.
    + rewrite b_exec_delete in H. unfold gb_delete in H. rewrite Hm in H. cbn [fst snd] in H.
      rewrite err_success in H.
      match type of H with frun _ (embed ?p) ?s1 _ _ _ = _ =>
        assert (Hfr : fst (frun pl (embed p) s1 now 2%nat false) (meta_key k) = s1 (meta_key k)) end.
      { apply (allreq_f_frame (fun q => key_of q <> Some (meta_key k))); [|intros q Hq; exact Hq].
        apply allreq_f_embed. apply allreq_breqs; [|intros; constructor].
        apply Forall_forall. intros q Hq. apply in_map_iff in Hq. destruct Hq as [ck [<- Hck]].
        cbn [key_of]. intros E. inversion E. subst ck. exact (meta_not_in_chunk_keys _ _ _ Hck). }
      rewrite H in Hfr. cbn [fst] in Hfr. rewrite upd_same in Hfr. apply live_none_of_none. exact Hfr.
Qed.

(* ================= all-or-nothing after a set, acknowledged or not ================= *)
Section SetAon.
Variables (pl : cplan) (s : store) (now : N) (tok : bytes) (k d : bytes) (f ttl : N).
Hypothesis Hpl : plan_ok pl.
Hypothesis Hk : 1 <= len k <= 250.
Hypothesis Htok : len tok = tokenSize.
Hypothesis Hd : len d < 4294967296.
Hypothesis Hf : f < 4294967296.
Hypothesis Hnow : now < 4294967296.
Hypothesis Hexpb : fst (c_exptime now ttl) < 4294967296.
Hypothesis Hfresh : fresh_tok s now k tok.

Local Notation ds := (chunk_data (len k)).
Local Notation n := (N.to_nat (num_chunks (len d) ds)).
Local Notation M := (set_meta tok now k d f ttl).
Local Notation ME := (mkE (enc_meta M) f (norm now ttl)).
Local Notation val := (fun i : N => tok ++ chunk_i ds d i).
Local Notation CE i := (mkE (tok ++ chunk_i ds d (N.of_nat i)) f (norm now ttl)).

(* the new metadata and the first a chunks are in place; the others are as in s or gone *)
Definition partial (a : nat) (st : store) : Prop :=
  st (meta_key k) = Some ME /\
  (forall i, (i < a)%nat -> st (chunk_key k (N.of_nat i)) = Some (CE i)) /\
  (forall i, (a <= i < n)%nat -> st (chunk_key k (N.of_nat i)) = None \/
                                 st (chunk_key k (N.of_nat i)) = s (chunk_key k (N.of_nat i))).

Lemma n_small : N.of_nat n < 4294967296.
Proof. pose proof (ds_bounds k Hk). pose proof (nchunks_bound (len d) ds ltac:(lia) Hd). lia. Qed.

Lemma ck_ne i j : (i < n)%nat -> (j < n)%nat -> i <> j -> chunk_key k (N.of_nat i) <> chunk_key k (N.of_nat j).
Proof. pose proof n_small. intros Hi Hj Hne E. apply chunk_key_injective in E; lia. Qed.

Lemma partial_put a st : (a < n)%nat -> partial a st ->
  partial (S a) (upd st (chunk_key k (N.of_nat a)) (Some (CE a))).
Proof.
  intros Ha (P1 & P2 & P3). split; [|split].
  - rewrite upd_other by apply meta_not_chunk_any. exact P1.
  - intros i Hi. destruct (Nat.eq_dec i a) as [->|Hne]; [apply upd_same|].
    rewrite upd_other by (apply ck_ne; lia). apply P2. lia.
  - intros i Hi. rewrite upd_other by (apply ck_ne; lia). apply P3. lia.
Qed.

Lemma partial_lose a st : (a < n)%nat -> partial a st ->
  partial a (upd st (chunk_key k (N.of_nat a)) None).
Proof.
  intros Ha (P1 & P2 & P3). split; [|split].
  - rewrite upd_other by apply meta_not_chunk_any. exact P1.
  - intros i Hi. rewrite upd_other by (apply ck_ne; lia). apply P2. lia.
  - intros i Hi. destruct (Nat.eq_dec i a) as [->|Hne]; [left; apply upd_same|].
    rewrite upd_other by (apply ck_ne; lia). apply P3. lia.
Qed.

Lemma write_chunks_partial : forall m a st i,
  (a + m = n)%nat -> partial a st ->
  exists b, (b <= n)%nat /\
    partial b (fst (frun pl (embed (write_chunks (map (cset k f ttl val) (seq a m)))) st now i false)).
Proof.
  induction m as [|m IH]; intros a st i Ham P.
  - exists a. split; [lia|exact P].
  - cbn [seq map write_chunks]. rewrite frun_embed_req. unfold cset at 1 2 3 4 5.
    destruct (pl i) as [[sx|ap]|] eqn:Ep.
    + destruct (err_of_status sx) as [e|] eqn:Ee; [|exfalso; exact (Hpl i sx Ep Ee)].
      cbn [embed frun fst]. exists a. split; [lia|].
      unfold status_store. cbn [key_of]. destruct (_ || _); [apply partial_lose; [lia|exact P]|exact P].
    + cbn [is_set frun fst]. destruct ap.
      * exists (S a). split; [lia|]. rewrite b_exec_set. cbn [fst]. apply partial_put; [lia|exact P].
      * exists a. split; [lia|exact P].
    + rewrite b_exec_set. cbn [fst snd]. rewrite err_success.
      apply IH; [lia|]. apply partial_put; [lia|exact P].
Qed.

Lemma partial_view a st : (a <= n)%nat -> partial a st ->
  cview st now k = None \/ cview st now k = Some (d, f).
Proof.
  intros Ha (P1 & P2 & P3). pose proof n_small as Hn.
  destruct (Nat.eq_dec a n) as [->|Hne].
  - assert (HW : written st now tok now k d f ttl).
    { split; [exact P1|]. intros i Hi. specialize (P2 (N.to_nat i) ltac:(lia)). rewrite N2Nat.id in P2. exact P2. }
    unfold cview. rewrite (written_abs st now tok k d f ttl Hk Htok Hd Hf Hnow Hexpb HW).
    unfold lv. destruct (alive now _); [right|left]; reflexivity.
  - left. unfold cview. replace (abs_entry st now k) with (@None entry); [reflexivity|]. symmetry.
    rewrite abs_entry_unfold. destruct (live now st (meta_key k)) as [me|] eqn:Hm; [|reflexivity].
    apply live_some in Hm. destruct Hm as [Hm _]. rewrite P1 in Hm. inversion Hm; subst me. cbv zeta. cbn [e_data].
    rewrite (set_meta_rt now tok k d f ttl Hk Htok Hd Hf Hnow Hexpb).
    destruct (forallb _ _) eqn:Hall; [exfalso|reflexivity].
    rewrite forallb_forall in Hall.
    assert (Hin : In (N.of_nat a) (idxs (m_nchunks M))).
    { apply in_idxs. unfold set_meta. cbn [m_nchunks]. lia. }
    specialize (Hall _ Hin). unfold chunk_ok in Hall.
    destruct (live now st (chunk_key k (N.of_nat a))) as [e|] eqn:Hc; [|discriminate].
    destruct (P3 a ltac:(lia)) as [Hnone|Hsame].
    + rewrite (live_none_of_none now st _ Hnone) in Hc. discriminate.
    + assert (Hs : live now s (chunk_key k (N.of_nat a)) = Some e) by (rewrite live_lv, <- Hsame, <- live_lv; exact Hc).
      apply bytes_eqb_true in Hall. exact (Hfresh _ _ Hs Hall).
Qed.

(* ---- c10_chunked_set_aon ---- *)
Lemma set_aon_run m i :
  snd (c_exptime now ttl) = false ->
  let st := fst (frun pl (embed (chunked_set tok now m k d f ttl)) s now i false) in
  (cview st now k = None \/ cview st now k = cview s now k \/ cview st now k = Some (d, f)) /\
  (st (meta_key k) = s (meta_key k) \/ st (meta_key k) = None \/ st (meta_key k) = Some ME).
Proof.
  intros Hexp st. unfold st. unfold chunked_set.
  rewrite (surjective_pairing (c_exptime now ttl)). cbv beta iota. rewrite Hexp. cbv beta iota.
  change (mkMeta (len d) f (num_chunks (len d) ds) ds now (fst (c_exptime now ttl)) tok) with M.
  rewrite frun_embed_req.
  assert (P0 : partial 0 (upd s (meta_key k) (Some ME))).
  { split; [apply upd_same|]. split; [intros; lia|]. intros j Hj. right. apply upd_other.
    intros E. symmetry in E. exact (meta_not_chunk_any _ _ _ E). }
  assert (Hput : forall i0,
            let st1 := fst (frun pl (embed (write_chunks (chunk_sets k f ttl tok d))) (upd s (meta_key k) (Some ME)) now i0 false) in
            (cview st1 now k = None \/ cview st1 now k = Some (d, f)) /\ st1 (meta_key k) = Some ME).
  { intros i0 st1.
    destruct (write_chunks_partial n 0%nat _ i0 ltac:(lia) P0) as (b & Hb & Pb).
    split; [apply (partial_view b _ Hb); exact Pb|]. destruct Pb as [Pm _]. exact Pm. }
  assert (Hexec : forall m0, (exists sx, b_exec s now (QSet m0 (meta_key k) f ttl (enc_meta M)) = (s, BStatus sx) /\ err_of_status sx <> None) \/
                             b_exec s now (QSet m0 (meta_key k) f ttl (enc_meta M)) = (upd s (meta_key k) (Some ME), BStatus statusSuccess)).
  { intros m0. cbn [b_exec]. unfold gb_set, gb_put. destruct m0; destruct (live now s (meta_key k)); auto.
    - left. eexists. split; [reflexivity|]. intros HH. vm_compute in HH. discriminate HH.
    - left. eexists. split; [reflexivity|]. intros HH. vm_compute in HH. discriminate HH. }
  assert (Hpart0 : cview (upd s (meta_key k) (Some ME)) now k = None \/ cview (upd s (meta_key k) (Some ME)) now k = Some (d, f)).
  { apply (partial_view 0%nat); [lia|exact P0]. }
  destruct (pl i) as [[sx|ap]|] eqn:Ep.
  - destruct (err_of_status sx) as [e|] eqn:Ee; [|exfalso; exact (Hpl _ sx Ep Ee)].
    cbn [embed frun fst]. unfold status_store. cbn [key_of]. destruct (_ || _); [|split; [right; left; reflexivity|left; reflexivity]].
    split; [|right; left; apply upd_same].
    left. unfold cview. rewrite abs_entry_none; [reflexivity|]. apply live_none_of_none. apply upd_same.
  - cbn [is_set frun fst]. destruct ap; [|split; [right; left; reflexivity|left; reflexivity]].
    destruct (Hexec m) as [(sx & E & _)|E]; rewrite E; cbn [fst]; [split; [right; left; reflexivity|left; reflexivity]|].
    split; [|right; right; apply upd_same].
    destruct Hpart0 as [H|H]; [left|right; right]; exact H.
  - destruct (Hexec m) as [(sx & E & Hne)|E]; rewrite E; cbn [fst snd].
    + (* add on a live key / replace of a missing one: refused, nothing written *)
      destruct (err_of_status sx); [|contradiction]. cbn [embed frun fst]. split; [right; left; reflexivity|left; reflexivity].
    + rewrite err_success.
      destruct (Hput (S i)) as [[H|H] Hm]; (split; [|right; right; exact Hm]); [left|right; right]; exact H.
Qed.

Lemma set_aon_f m :
  snd (c_exptime now ttl) = false ->
  let st := fst (chunked_exec_f pl tok now s now (HSet m k d f ttl)) in
  cview st now k = None \/ cview st now k = cview s now k \/ cview st now k = Some (d, f).
Proof. intros Hexp. exact (proj1 (set_aon_run m 0%nat Hexp)). Qed.
End SetAon.

Lemma delete_acked_abs pl tok cnow s now k s' :
  plan_ok pl -> chunked_exec_f pl tok cnow s now (HDelete k) = (s', CRes HDone) ->
  abs_entry s' now k = None.
Proof. intros. apply abs_entry_none. eapply delete_acked_f; eassumption. Qed.

Lemma delete_aon_view pl tok cnow s now k :
  let st := fst (chunked_exec_f pl tok cnow s now (HDelete k)) in
  cview st now k = None \/ cview st now k = cview s now k.
Proof. intros. apply lsub_cview. apply delete_aon_f. Qed.
