(* ChunkFmt.v — the pure, size-related part of handlers/memcached/chunked:
   chunkSize (handler.go), metaKey/chunkKey/chunkSliceIndices (keys.go), the metadata
   record (types.go), the chunk iterator with zero padding (chunkedLimitedReader.go) and
   reassembly by arrival order (localComm.go getLocalIntoBuf). Constants come from
   gen/Consts_gen.v, regenerated from /repo on every run. *)
From Coq Require Import String.
From Rend Require Import base.Bytes gen.Consts_gen.
Open Scope N_scope.

(* chunkSize(keylen): fullSize = chunkMaxSize - chunkOverhead - keylen (uint32 of an int;
   no wrap for the key lengths the property covers), dataSize = fullSize - tokenSize *)
Definition chunk_full (klen : N) : N := chunkMaxSize - chunkOverhead - klen.
Definition chunk_data (klen : N) : N := chunk_full klen - tokenSize.

(* math.Ceil(float64(len)/float64(dataSize)) *)
Definition num_chunks (dlen ds : N) : N := (dlen + ds - 1) / ds.

Definition meta_key (k : bytes) : bytes := k ++ asc "-meta".
Definition chunk_key (k : bytes) (i : N) : bytes := k ++ [45] ++ dec i.

(* chunk i of data: ds bytes starting at i*ds, zero padded to ds *)
Definition chunk_i (ds : N) (d : bytes) (i : N) : bytes :=
  let c := take ds (drop (i * ds) d) in c ++ zeros (ds - len c).
Definition chunks (ds : N) (d : bytes) : list bytes :=
  map (fun i => chunk_i ds d (N.of_nat i)) (seq 0 (N.to_nat (num_chunks (len d) ds))).

(* metadata record, 24 bytes of big-endian fields followed by the token *)
Record meta := mkMeta {
  m_length : N; m_flags : N; m_nchunks : N; m_csize : N; m_instime : N; m_exptime : N;
  m_token : bytes }.
Definition enc_meta (m : meta) : bytes :=
  u32be (m_length m) ++ u32be (m_flags m) ++ u32be (m_nchunks m) ++ u32be (m_csize m) ++
  u32be (m_instime m) ++ u32be (m_exptime m) ++ m_token m.
Definition dec_meta (b : bytes) : meta :=
  mkMeta (rd32 b) (rd32 (drop 4 b)) (rd32 (drop 8 b)) (rd32 (drop 12 b)) (rd32 (drop 16 b))
         (rd32 (drop 20 b)) (take tokenSize (drop 24 b)).

(* chunkSliceIndices *)
Definition slice_start (cs i : N) : N := cs * i.
Definition slice_end (cs i total : N) : N := N.min (cs * i + cs) total.

(* ---------------- facts ---------------- *)

Lemma take_len_le {A} n (l : list A) : len (take n l) <= n.
Proof. unfold take, len. rewrite firstn_length. lia. Qed.
Lemma take_len {A} n (l : list A) : len (take n l) = N.min n (len l).
Proof. unfold take, len. rewrite firstn_length. lia. Qed.
Lemma drop_len {A} n (l : list A) : len (drop n l) = len l - n.
Proof. unfold drop, len. rewrite skipn_length. lia. Qed.
Lemma zeros_len n : len (zeros n) = n.
Proof. unfold zeros, len. rewrite repeat_length. lia. Qed.

Lemma chunk_i_len ds d i : len (chunk_i ds d i) = ds.
Proof.
  unfold chunk_i. rewrite len_app, zeros_len. pose proof (take_len_le ds (drop (i * ds) d)). lia.
Qed.

Lemma chunks_length ds d : len (chunks ds d) = num_chunks (len d) ds.
Proof. unfold chunks, len at 1. rewrite map_length, seq_length. lia. Qed.

Lemma chunks_all_len ds d : Forall (fun c => len c = ds) (chunks ds d).
Proof.
  unfold chunks. apply Forall_forall. intros c Hc. apply in_map_iff in Hc.
  destruct Hc as [i [<- _]]. apply chunk_i_len.
Qed.

(* num_chunks is the integer ceiling *)
Lemma num_chunks_ceil dlen ds : 0 < ds ->
  let n := num_chunks dlen ds in dlen <= n * ds /\ (0 < dlen -> (n - 1) * ds < dlen) /\ (dlen = 0 -> n = 0).
Proof.
  intros Hds n. unfold n, num_chunks. repeat split.
  - nia.
  - intros Hd. nia.
  - intros ->. apply N.div_small. lia.
Qed.

Lemma dec_fuel_len_le fuel n acc : (length (dec_fuel fuel n acc) <= fuel + length acc)%nat.
Proof.
  revert n acc; induction fuel as [|f IH]; intros n acc; cbn [dec_fuel]; [lia|].
  destruct (n <? 10); cbn [length]; [lia|]. specialize (IH (n / 10) ((48 + n mod 10) :: acc)).
  cbn [length] in IH. lia.
Qed.

Lemma dec_fuel_lt f n acc : n < 10 -> dec_fuel (S f) n acc = (48 + n mod 10) :: acc.
Proof. intros H. cbn [dec_fuel]. destruct (N.ltb_spec n 10); [reflexivity|lia]. Qed.
Lemma dec_fuel_ge f n acc : 10 <= n -> dec_fuel (S f) n acc = dec_fuel f (n / 10) ((48 + n mod 10) :: acc).
Proof. intros H. cbn [dec_fuel]. destruct (N.ltb_spec n 10); [lia|reflexivity]. Qed.

(* number of decimal digits, bounded cases used by the budget theorem *)
Lemma dec_len_small i : i < 1000 -> len (dec i) <= 3.
Proof.
  intros H. unfold dec, len.
  destruct (N.ltb_spec i 10) as [H1|H1].
  - rewrite dec_fuel_lt by assumption. cbn [length]. lia.
  - rewrite dec_fuel_ge by assumption. destruct (N.ltb_spec (i / 10) 10) as [H2|H2].
    + rewrite dec_fuel_lt by assumption. cbn [length]. lia.
    + rewrite dec_fuel_ge by assumption. rewrite dec_fuel_lt by lia. cbn [length]. lia.
Qed.

Lemma chunk_key_len k i : len (chunk_key k i) = len k + 1 + len (dec i).
Proof. unfold chunk_key. rewrite !len_app, len_cons, len_nil. lia. Qed.

Lemma enc_meta_len m : len (m_token m) = tokenSize -> len (enc_meta m) = 24 + tokenSize.
Proof. intros H. unfold enc_meta. rewrite !len_app, H. unfold len. rewrite !u32be_len. lia. Qed.
