(* InmemSem.v — the meaning of the Go statements and calls that `rendharness inmemtrans` recognises in
   /repo/handlers/inmem/inmem.go. HAND-WRITTEN AND TRUSTED; definitions only. gen/Inmem_gen.v
   (generated from the source on every run) is written in this vocabulary; gen/InmemLink.v proves each
   generated method equal to the [step] of the model handlers/Inmem.v and proves the lock discipline
   on the generated terms.

   A method of *Handler becomes a program in the monad [M]: a function of the state [ist] of ONE call
   returning the new state and a value, a panic, or "outside this semantics" ([Undef]).

   State. [is_map] is the Go map `h.data` as Inmem.v's [cstate] (key -> option raw; raw = the Go
   `entry`). [is_ev] is the TRACE of the call: every call on h.mutex and every access to h.data, in
   program order. [is_out] is what has been sent on the response channel; [is_dch] / [is_ech] are the
   two channels of Get/GetE (THE CHANNEL CONTRACT below).

   Rules (all by the Go specification / package documentation):
     h.mutex.Lock() / Unlock() / RLock() / RUnlock()
                                  [m_lock] ...: the event is appended to the trace, nothing else. This
                                  is a SINGLE-CALL semantics: there is no other goroutine, so a lock never
                                  blocks; what is recorded is what the call does with the mutex, so that
                                  the discipline ([disciplined]) can be stated on it. Unlocking a mutex
                                  that is not held is a fatal error in Go: [disciplined] is false for such
                                  a trace.
     `defer h.mutex.Unlock()` / `defer h.mutex.RUnlock()`
                                  the translator emits the unlock before every later `return` of the
                                  function, after the result expressions are evaluated (Go: deferred calls
                                  run after the result values are set). Any other `defer` is untranslatable.
     e, ok := h.data[string(k)]   [m_map_get k]: event [EvRead k]; the entry and true, or the zero entry
                                  (mkRaw 0 0 []) and false.
     h.data[string(k)] = e        [m_map_put k e]: event [EvOp (MPut k e)], the map updated (Inmem.apply_op).
     delete(h.data, string(k))    [m_map_del k]: event [EvOp (MDel k)], executed also when k is absent.
     string(b) as a map key       the byte string itself (the model's keys are byte strings).
     time.Now().Unix()            the parameter [now] of the generated function. CONTRACT (that of
                                  Inmem.v): every clock reading during one call yields the same second.
     uint32(x), a + b at uint32   GoSem.conv32, GoSem.add32 (explicit wrap).
     len(x), a + b at int         [len], plain +: int expressions here are sums of slice lengths.
     make([]byte, n, c)           [sl_make n c] = n zero bytes (the capacity has no meaning for values).
     append(a, b...)              a ++ b. SLICES ARE VALUES here (as in Inmem.v): aliasing of backing
                                  arrays is outside this semantics; the translator accepts `append` only
                                  in the form x = append(x, y...).
     entry{f: v, ..}              [mkRaw] (absent fields: zero); e.f = v on a local entry: [raw_set_*].
     common.GetResponse{..} / common.GetEResponse{..}
                                  [mkGR key data flags exptime opaque quiet miss], absent fields zero.
     a[i]                         [m_index] (out of range: panic).
     common.ErrXxx                Some EXxx (numbering of gen/Consts_gen.v); nil: None.
   Dropped by rule: metrics.* and log.* statements (none in the file today).

   THE CHANNEL CONTRACT (Get/GetE). `dataOut := make(chan T, n)`, `errorOut := make(chan error)`,
   sends `dataOut <- v` INLINE (no goroutine), `close(dataOut)`, `close(errorOut)`,
   `return dataOut, errorOut`. Nobody receives before the method returns, hence
     - a send on a channel whose buffer is full (len sent = capacity), or on the unbuffered error
       channel, blocks forever: [Undef];
     - a send on a closed channel, or a second close, panics;
     - the caller (handlers/types.go; the orchestrators' drain loops, orca/OrcaSem.v [drain],
       gen/OrcasGetLink.v) drains both channels until they are closed: the method's result is
       [HVals rs None] with rs the values sent, in order, PROVIDED both returned channels are the two
       made here and both are closed ([run_get]); otherwise the caller would hang: no result.
   This is the same contract as handlers/StdSem.v and orca/OrcaSem.v; it is a hypothesis about the
   caller, not derived from Go's channel semantics. *)
From Coq Require Import String.
From Rend Require Import base.Bytes gen.Consts_gen spec.MapSpec orca.Types handlers.Std gen.GoSem
  handlers.Inmem.
Open Scope N_scope.
Open Scope list_scope.

(* ---------------- the trace ---------------- *)
Inductive ev :=
| EvLock | EvUnlock | EvRLock | EvRUnlock
| EvRead (k : bytes)
| EvOp (o : mop).

Record chst := mkCh { ch_made : bool; ch_cap : N; ch_closed : bool }.
Definition ch0 : chst := mkCh false 0 false.
Inductive chan := ChData | ChErr.

Record ist := mkIS { is_map : cstate; is_ev : list ev; is_out : list gres; is_dch : chst; is_ech : chst }.

Inductive res (A : Type) := Val (a : A) | Panic | Undef.
Arguments Val {A} a. Arguments Panic {A}. Arguments Undef {A}.
Definition M (A : Type) := ist -> ist * res A.

Definition m_ret {A} (a : A) : M A := fun s => (s, Val a).
Definition m_bind {A B} (m : M A) (k : A -> M B) : M B :=
  fun s => let '(s1, r) := m s in
           match r with Val a => k a s1 | Panic => (s1, Panic) | Undef => (s1, Undef) end.
Definition m_panic {A} : M A := fun s => (s, Panic).
Definition m_undef {A} : M A := fun s => (s, Undef).
(* what `inmemtrans` could not translate: outside this semantics *)
Definition m_untranslatable {A} (what : string) : M A := m_undef.
(* a[i] *)
Definition m_index {A B} (l : list A) (i : N) (k : A -> M B) : M B :=
  match nth_error l (N.to_nat i) with Some v => k v | None => m_panic end.

Definition add_ev (s : ist) (e : ev) : ist :=
  mkIS (is_map s) (is_ev s ++ [e]) (is_out s) (is_dch s) (is_ech s).
Definition m_lock : M unit := fun s => (add_ev s EvLock, Val tt).
Definition m_unlock : M unit := fun s => (add_ev s EvUnlock, Val tt).
Definition m_rlock : M unit := fun s => (add_ev s EvRLock, Val tt).
Definition m_runlock : M unit := fun s => (add_ev s EvRUnlock, Val tt).

Definition raw_zero : raw := mkRaw 0 0 [].
Definition m_map_get (k : bytes) : M (raw * bool) :=
  fun s => (add_ev s (EvRead k),
            Val (match is_map s k with Some e => (e, true) | None => (raw_zero, false) end)).
Definition do_op (s : ist) (o : mop) : ist :=
  mkIS (apply_op (is_map s) o) (is_ev s ++ [EvOp o]) (is_out s) (is_dch s) (is_ech s).
Definition m_map_put (k : bytes) (e : raw) : M unit := fun s => (do_op s (MPut k e), Val tt).
Definition m_map_del (k : bytes) : M unit := fun s => (do_op s (MDel k), Val tt).

(* e.f = v on a local variable of type entry *)
Definition raw_set_exptime (v : N) (e : raw) : raw := mkRaw v (r_flags e) (r_data e).
Definition raw_set_flags (v : N) (e : raw) : raw := mkRaw (r_exp e) v (r_data e).
Definition raw_set_data (v : bytes) (e : raw) : raw := mkRaw (r_exp e) (r_flags e) v.

(* make([]byte, n, c) *)
Definition sl_make (n c : N) : bytes := zeros n.

(* ---------------- channels ---------------- *)
Definition set_dch (s : ist) (c : chst) : ist := mkIS (is_map s) (is_ev s) (is_out s) c (is_ech s).
Definition set_ech (s : ist) (c : chst) : ist := mkIS (is_map s) (is_ev s) (is_out s) (is_dch s) c.
(* dataOut := make(chan T, n): once per call *)
Definition m_make_data (n : N) : M chan :=
  fun s => if ch_made (is_dch s) then (s, Undef) else (set_dch s (mkCh true n false), Val ChData).
(* errorOut := make(chan error) *)
Definition m_make_err : M chan :=
  fun s => if ch_made (is_ech s) then (s, Undef) else (set_ech s (mkCh true 0 false), Val ChErr).
(* ch <- v, v a response *)
Definition m_send (c : chan) (g : gres) : M unit :=
  fun s => match c with
           | ChErr => (s, Undef)
           | ChData =>
               if negb (ch_made (is_dch s)) then (s, Undef)
               else if ch_closed (is_dch s) then (s, Panic)
               else if len (is_out s) <? ch_cap (is_dch s)
                    then (mkIS (is_map s) (is_ev s) (is_out s ++ [g]) (is_dch s) (is_ech s), Val tt)
                    else (s, Undef)
           end.
Definition close_ch (c : chst) : option chst :=
  if ch_made c && negb (ch_closed c) then Some (mkCh true (ch_cap c) true) else None.
(* close(ch) *)
Definition m_close (c : chan) : M unit :=
  fun s => match c with
           | ChData => match close_ch (is_dch s) with Some c' => (set_dch s c', Val tt) | None => (s, Panic) end
           | ChErr => match close_ch (is_ech s) with Some c' => (set_ech s c', Val tt) | None => (s, Panic) end
           end.

(* ---------------- loops ---------------- *)
(* for idx, x := range l { body }, body without `return` / `break` and assigning no variable declared
   outside; `continue` is the end of the body *)
Fixpoint m_range_from {A : Type} (i : N) (l : list A) (body : N -> A -> M unit) : M unit :=
  match l with
  | [] => m_ret tt
  | x :: r => m_bind (body i x) (fun _ => m_range_from (i + 1) r body)
  end.
Definition m_range {A : Type} (l : list A) (body : N -> A -> M unit) : M unit := m_range_from 0 l body.

(* ---------------- errors ---------------- *)
Definition hres_of_err (e : option N) : hres := match e with None => HDone | Some x => HErr x end.
Definition hres_of_gat (x : gres * option N) : hres :=
  match snd x with None => HVals [fst x] None | Some e => HErr e end.

(* ---------------- reading a trace ---------------- *)
(* the lock discipline: the mutex is free at the start; Lock/RLock only when free (a second Lock or
   an RLock under Lock by the same goroutine deadlocks; a recursive RLock may deadlock with a waiting
   writer — sync.RWMutex documentation); Unlock only of the write lock, RUnlock only of the read lock;
   a map read only while holding a lock; a map write only while holding the WRITE lock; free at the end *)
Inductive held := HFree | HRead | HWrite.
Fixpoint disc_from (h : held) (t : list ev) : bool :=
  match t with
  | [] => match h with HFree => true | _ => false end
  | e :: r =>
      match e, h with
      | EvLock, HFree => disc_from HWrite r
      | EvRLock, HFree => disc_from HRead r
      | EvUnlock, HWrite => disc_from HFree r
      | EvRUnlock, HRead => disc_from HFree r
      | EvRead _, HRead => disc_from HRead r
      | EvRead _, HWrite => disc_from HWrite r
      | EvOp _, HWrite => disc_from HWrite r
      | _, _ => false
      end
  end.
Definition disciplined (t : list ev) : bool := disc_from HFree t.

(* the lock acquisitions of a trace, and its map statements, in order *)
Fixpoint acquires (t : list ev) : list lockk :=
  match t with
  | [] => []
  | EvLock :: r => LWrite :: acquires r
  | EvRLock :: r => LRead :: acquires r
  | _ :: r => acquires r
  end.
Fixpoint ops_of (t : list ev) : list mop :=
  match t with
  | [] => []
  | EvOp o :: r => o :: ops_of r
  | _ :: r => ops_of r
  end.
(* a call is ONE step of the model iff it acquires the mutex exactly once *)
Definition step_of (t : list ev) (r : hres) : option step :=
  match acquires t with
  | [l] => Some (mkStep l (ops_of t) r)
  | _ => None
  end.

(* ---------------- a handler call ---------------- *)
Definition is0 (st : cstate) : ist := mkIS st [] [] ch0 ch0.

(* what a call is observed to do: the model's step (lock mode, map statements, result), the map
   afterwards and the whole trace; None: panic / outside the semantics / not one critical section *)
Definition observe (s : ist) (r : res hres) : option (step * cstate * list ev) :=
  match r with
  | Val h => match step_of (is_ev s) h with
             | Some sp => Some (sp, is_map s, is_ev s)
             | None => None
             end
  | _ => None
  end.
Definition res_map {A B} (f : A -> B) (r : res A) : res B :=
  match r with Val a => Val (f a) | Panic => Panic | Undef => Undef end.
Definition res_bind {A B} (r : res A) (f : A -> res B) : res B :=
  match r with Val a => f a | Panic => Panic | Undef => Undef end.

(* methods returning error *)
Definition run_err (m : M (option N)) (st : cstate) : option (step * cstate * list ev) :=
  let '(s, r) := m (is0 st) in observe s (res_map hres_of_err r).
(* GAT: (common.GetResponse, error) *)
Definition run_gat (m : M (gres * option N)) (st : cstate) : option (step * cstate * list ev) :=
  let '(s, r) := m (is0 st) in observe s (res_map hres_of_gat r).
(* Get / GetE: the two channels (THE CHANNEL CONTRACT) *)
Definition chans_done (s : ist) (x : chan * chan) : bool :=
  match x with
  | (ChData, ChErr) => ch_made (is_dch s) && ch_closed (is_dch s) && ch_made (is_ech s) && ch_closed (is_ech s)
  | _ => false
  end.
Definition run_get (m : M (chan * chan)) (st : cstate) : option (step * cstate * list ev) :=
  let '(s, r) := m (is0 st) in
  observe s (res_bind r (fun x => if chans_done s x then Val (HVals (is_out s) None) else Undef)).

(* the model's call in the same vocabulary *)
Definition model_call (st : cstate) (now : N) (q : hreq) : step * cstate :=
  let sp := inmem_step st now q in (sp, apply_ops st (s_ops sp)).
Definition obs_step (o : option (step * cstate * list ev)) : option (step * cstate) :=
  match o with Some (sp, m, _) => Some (sp, m) | None => None end.
Definition obs_trace (o : option (step * cstate * list ev)) : list ev :=
  match o with Some (_, _, t) => t | None => [] end.

(* ---------------- New / the struct ---------------- *)
(* what `inmemtrans` reads off the declarations: the fields of `entry` and of `Handler` (name, type
   text), the initialiser of the package-level variable New returns, and New's return statement *)
Inductive newshape :=
| NewReturnsVar (v : string)        (* return v, nil : the same package-level value on every call *)
| NewOther (what : string).
Record handler_decl := mkHD {
  hd_entry : list (string * string);
  hd_handler : list (string * string);
  hd_var : string;                       (* the package-level variable *)
  hd_var_init : list (string * string);  (* var v = &Handler{f: init, ..} *)
  hd_new : newshape }.
