(* InmemOld.v — history: handlers/inmem/inmem.go BEFORE /verif/fixes/C17-inmem.patch, and the
   three statements of C17 it violates, each with a concrete witness evaluated by vm_compute.
   Every witness was confirmed on the real code by the harness (sub-command c17; the same
   inputs are the corpus cases "corpus/add-existing", "corpus/delete-missing",
   "corpus/expired-add-delete-get" and the concurrent tier, see harness/cmd/rendharness/c17.go).
   checks/Check17Old.v evaluates the harness's observations of the UNFIXED code against this
   model: on 2026-09-23 (seed 1, quick) all 412 cases agreed with it exactly (368 of them with
   the reference-map oracle failing, i.e. code 3) except the two aliasing cases below.

   Differences from Inmem.v (everything else is shared):
   - Add:    `if ok || e.isExpired() { delete(h.data, key); return ErrKeyExists }`
             — a present key (live OR expired) is deleted and the add fails;
   - Delete: `delete(h.data, key); return nil` — never reports not-found;
   - Get/GetE: `if !ok || e.isExpired() { delete(h.data, bk); ... }` while holding only the
             read lock — a map write under RLock (with two connections the Go runtime ends the
             process with `fatal error: concurrent map read and map write`).
   Not expressible here (slices are values in the model): Append did
   `append(e.data, cmd.Data...)`, Prepend `append(cmd.Data, e.data...)`, both of which write into
   spare capacity of a slice that another entry / the caller may share; observed by the harness
   (corpus case "corpus/append-alias"). *)
From Coq Require Import String.
From Rend Require Import base.Bytes gen.Consts_gen spec.MapSpec orca.Types handlers.Std handlers.Inmem.
Open Scope N_scope.

Definition old_add (st : cstate) (now : N) (k d : bytes) (f ttl : N) : step :=
  match st k with
  | Some _ => mkStep LWrite [MDel k] (HErr EKeyExists)       (* ok = true *)
  | None => mkStep LWrite [MPut k (mkRaw (new_exp now ttl) f d)] HDone   (* zero entry is never expired *)
  end.

Definition old_delete (st : cstate) (now : N) (k : bytes) : step := mkStep LWrite [MDel k] HDone.

(* the delete statements a Get/GetE executes: one per missing or expired key, in order *)
Definition old_get_ops (st : cstate) (now : N) (items : list gitem) : list mop :=
  flat_map (fun it => match lookup st now (gi_key it) with
                      | Some _ => []
                      | None => [MDel (gi_key it)]
                      end) items.
(* results are computed key by key against the map as modified so far; deleting a key that is
   missing or expired does not change any later lookup, so the results are those of Inmem.im_get1 *)
Definition old_get (st : cstate) (now : N) (withexp : bool) (items : list gitem) : step :=
  mkStep LRead (old_get_ops st now items) (HVals (map (im_get1 st now withexp) items) None).

Definition inmem_old_step (st : cstate) (now : N) (q : hreq) : step :=
  match q with
  | HSet MAdd k d f ttl => old_add st now k d f ttl
  | HDelete k => old_delete st now k
  | HGet items => old_get st now false items
  | HGetE items => old_get st now true items
  | _ => inmem_step st now q
  end.
Definition inmem_old_exec (st : cstate) (now : N) (q : hreq) : cstate * hres :=
  let s := inmem_old_step st now q in (apply_ops st (s_ops s), s_res s).

(* ---- the property fails on the old code ---- *)
Definition st_a : cstate := apply_ops cempty [MPut (asc "a") (mkRaw 0 7 (asc "x"))].

(* "an add on an existing key fails and leaves it untouched": it fails, and deletes the key *)
Lemma old_add_existing_refuted :
  exists st now k d f ttl e,
    st k = Some e /\ expired now e = false /\
    snd (inmem_old_exec st now (HSet MAdd k d f ttl)) = HErr EKeyExists /\
    fst (inmem_old_exec st now (HSet MAdd k d f ttl)) k = None.
Proof.
  exists st_a, 1000, (asc "a"), (asc "y"), 0, 0, (mkRaw 0 7 (asc "x")).
  vm_compute. repeat split.
Qed.

(* ... and an add on an EXPIRED key (absent for the reference, so it must store) fails too *)
Lemma old_add_expired_refuted :
  exists st now k d f ttl e,
    st k = Some e /\ expired now e = true /\
    snd (inmem_old_exec st now (HSet MAdd k d f ttl)) = HErr EKeyExists.
Proof.
  exists (apply_ops cempty [MPut (asc "a") (mkRaw 999 7 (asc "x"))]), 1000, (asc "a"), (asc "y"), 0, 0,
         (mkRaw 999 7 (asc "x")).
  vm_compute. repeat split.
Qed.

(* "a delete of a missing key reports not-found": it reports success *)
Lemma old_delete_missing_refuted :
  exists st now k, lookup st now k = None /\ snd (inmem_old_exec st now (HDelete k)) = HDone.
Proof. exists cempty, 1000, (asc "a"). vm_compute. split; reflexivity. Qed.

(* "reads are read-only": a get of a missing key executes a map delete under the read lock *)
Lemma old_reads_readonly_refuted :
  exists st now items,
    wrote (inmem_old_step st now (HGet items)) = true /\
    s_lock (inmem_old_step st now (HGet items)) = LRead /\
    wrote (inmem_old_step st now (HGetE items)) = true /\
    s_lock (inmem_old_step st now (HGetE items)) = LRead.
Proof.
  exists st_a, 1000, [mkGI (asc "missing") 0 false]. vm_compute. repeat split.
Qed.

(* the refinement itself fails: the two-command history set a; add a; get a *)
Definition old_run (h : list (N * hreq)) : cstate * list hres :=
  fold_left (fun acc nq => let '(st, rs) := acc in
                           let '(st', r) := inmem_old_exec st (fst nq) (snd nq) in (st', rs ++ [r]))
            h (cempty, []).
Lemma old_refinement_refuted :
  exists h, hist_ok 0 h /\
    map outcome_of (snd (old_run h)) <> snd (gspec_run inmem_norm empty_store (hist_cmds h)).
Proof.
  exists [(1000, HSet MSet (asc "a") (asc "x") 7 0);
          (1000, HSet MAdd (asc "a") (asc "y") 0 0);
          (1000, HGet [mkGI (asc "a") 0 false])].
  split; [cbn; unfold two32; lia|]. vm_compute. discriminate.
Qed.
