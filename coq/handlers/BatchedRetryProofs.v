(* BatchedRetryProofs.v — at-most-once for append/prepend through the batching pool. *)
From Rend Require Import base.Bytes gen.Consts_gen spec.MapSpec orca.Types handlers.Std handlers.Batched
  handlers.BatchedSpec handlers.BatchedRetry proto.FramesLemmas.
Open Scope N_scope.

Lemma decode_not_retry st e : decode_error st = Some e -> (e =? RETRY) = false.
Proof.
  unfold decode_error. intros H. apply assocN_in in H.
  assert (F : Forall (fun x => (x =? RETRY) = false) (map snd decodeError_tab)) by (vm_compute; repeat constructor).
  rewrite Forall_forall in F. apply F, H.
Qed.

(* the three things that can happen to a lone append/prepend in one submission *)
Lemma attempt1_cat base fr k d s now cut :
  let '(sc, st) := b_cat fr s now k d in
  attempt1 base (HCat fr k d) s now cut =
    match cut with
    | None | Some (S _, _) => (sc, [deliver (WCat fr k d) (mkHd k 0 false 0%nat) (WStatus st)])
    | Some (O, O) => (s, [RErr RETRY])
    | Some (O, S _) => (sc, [RErr RETRY])
    end.
Proof.
  destruct (b_cat fr s now k d) as [sc st] eqn:E.
  unfold attempt1, run_batch. cbn [batch_entries q_req q_chan].
  destruct cut as [[[|n] [|a]]|]; cbn [run_entries apply_silently lookup_entry w_exec fst snd];
    rewrite ?N.eqb_refl, ?E; cbn [hd_chan chans_of existsb rev app map of_chan flat_map fst snd Nat.eqb apply_silently w_exec];
    rewrite ?E; try reflexivity; destruct a; reflexivity.
Qed.

Lemma deliver_cat_not_retry fr k d h st e : deliver (WCat fr k d) h (WStatus st) = RErr e -> (e =? RETRY) = false.
Proof.
  unfold deliver. destruct (decode_error st) as [x|] eqn:D; [|discriminate].
  cbn [is_get_like andb]. intros H. inversion H; subst. exact (decode_not_retry _ _ D).
Qed.

Theorem cat_at_most_once tries bases cuts fr k d s now s' r :
  do_request false tries bases cuts (HCat fr k d) s now = (s', r) ->
  s' = s \/ s' = fst (b_cat fr s now k d).
Proof.
  destruct tries as [|t]; cbn [do_request]; [intros H; inversion H; auto|].
  pose proof (attempt1_cat (hd 0 bases) fr k d s now (hd None cuts)) as A.
  destruct (b_cat fr s now k d) as [sc st]. cbn [fst]. rewrite A. clear A.
  destruct (hd None cuts) as [[[|n] [|a]]|]; cbn [is_cat andb negb];
    try (rewrite N.eqb_refl; intros H; inversion H; auto; fail);
    destruct (deliver (WCat fr k d) (mkHd k 0 false 0%nat) (WStatus st)) as [e|g] eqn:D;
    try (rewrite (deliver_cat_not_retry _ _ _ _ _ _ D));
    intros H; inversion H; auto.
Qed.

(* an acknowledged append/prepend was applied exactly once, and the backend said "stored" *)
Theorem cat_ack_applied_once tries bases cuts fr k d s now s' :
  do_request false tries bases cuts (HCat fr k d) s now = (s', HDone) ->
  s' = fst (b_cat fr s now k d) /\ decode_error (snd (b_cat fr s now k d)) = None.
Proof.
  destruct tries as [|t]; cbn [do_request]; [intros H; inversion H|].
  pose proof (attempt1_cat (hd 0 bases) fr k d s now (hd None cuts)) as A.
  destruct (b_cat fr s now k d) as [sc st]. cbn [fst snd]. rewrite A. clear A.
  destruct (hd None cuts) as [[[|n] [|a]]|]; cbn [is_cat andb negb];
    try (rewrite N.eqb_refl; intros H; inversion H; fail);
    unfold deliver; destruct (decode_error st) as [x|] eqn:D; cbn [is_get_like andb];
    try (rewrite (decode_not_retry _ _ D)); cbn [single_result]; intros H; inversion H; auto.
Qed.

(* the loop as it stood: one cut after the backend applied the request, then a clean
   submission - acknowledged once, applied twice *)
Definition old_store : store := upd empty_store [107] (Some (mkE [79; 76; 68] 0 Never)).
Theorem old_resend_applies_twice :
  let '(s', r) := do_request true 2 [0; 0] [Some (0%nat, 1%nat); None] (HCat true [107] [43]) old_store 10 in
  r = HDone /\ option_map e_data (s' [107]) = Some [43; 43; 79; 76; 68].
Proof. vm_compute. split; reflexivity. Qed.
Theorem new_no_resend :
  let '(s', r) := do_request false 2 [0; 0] [Some (0%nat, 1%nat); None] (HCat true [107] [43]) old_store 10 in
  r = HErr EInternal /\ option_map e_data (s' [107]) = Some [43; 79; 76; 68].
Proof. vm_compute. split; reflexivity. Qed.

(* ---- an unconditional set may be resubmitted: whatever the cuts, the backend ends up holding
   what it held or what ONE set leaves (a set applied twice is a set applied once), and an
   acknowledged set was applied ---- *)
Lemma put_ext a b now k d f ttl : store_eq a b -> store_eq (b_put a now k d f ttl) (b_put b now k d f ttl).
Proof. intros H x. unfold gb_put, upd. destruct (bytes_eqb x k); [reflexivity | apply H]. Qed.
Lemma put_idem a now k d f ttl : store_eq (b_put (b_put a now k d f ttl) now k d f ttl) (b_put a now k d f ttl).
Proof. intros x. unfold gb_put, upd. destruct (bytes_eqb x k); reflexivity. Qed.

Lemma attempt1_set base k d f ttl s now cut :
  attempt1 base (HSet MSet k d f ttl) s now cut =
    match cut with
    | None | Some (S _, _) => (b_put s now k d f ttl, [RRes (mkGR [] [] 0 0 0 false false)])
    | Some (O, O) => (s, [RErr RETRY])
    | Some (O, S _) => (b_put s now k d f ttl, [RErr RETRY])
    end.
Proof.
  unfold attempt1, run_batch. cbn [batch_entries q_req q_chan].
  destruct cut as [[[|n] [|a]]|]; cbn [run_entries apply_silently lookup_entry w_exec gb_set fst snd];
    rewrite ?N.eqb_refl; cbn [hd_chan chans_of existsb rev app map of_chan flat_map fst snd Nat.eqb apply_silently w_exec gb_set deliver];
    try reflexivity; destruct a; reflexivity.
Qed.

Theorem set_retry_exact rc : forall tries bases cuts k d f ttl s0 s now s' r,
  store_eq s0 s \/ store_eq s0 (b_put s now k d f ttl) ->
  do_request rc tries bases cuts (HSet MSet k d f ttl) s0 now = (s', r) ->
  (store_eq s' s \/ store_eq s' (b_put s now k d f ttl)) /\
  (r = HDone -> store_eq s' (b_put s now k d f ttl)).
Proof.
  induction tries as [|t IH]; intros bases cuts k d f ttl s0 s now s' r H0 H; cbn [do_request] in H.
  - inversion H; subst. split; [exact H0 | discriminate].
  - rewrite attempt1_set in H.
    assert (P : store_eq (b_put s0 now k d f ttl) (b_put s now k d f ttl)).
    { destruct H0 as [E|E].
      - apply put_ext, E.
      - intros x. rewrite (put_ext _ _ now k d f ttl E x). apply put_idem. }
    destruct (hd None cuts) as [[[|n] [|a]]|]; cbn [is_cat andb single_result] in H;
      rewrite ?N.eqb_refl in H;
      try (inversion H; subst; split; [right; exact P | intros _; exact P]; fail).
    + (* cut before the backend applied it: resubmitted on the same store *)
      eapply IH; [exact H0 | exact H].
    + (* cut after the backend applied it: resubmitted on the store holding the new value *)
      eapply IH; [right; exact P | exact H].
Qed.
