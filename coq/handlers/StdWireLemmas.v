(* StdWireLemmas.v — building blocks for handlers/StdWireProofs.v: what the model server
   makes of each frame the handler writes, and what each consumer path makes of each reply
   frame the model server can send. *)
From Rend Require Import base.Bytes gen.Consts_gen spec.MapSpec orca.Types proto.Resp proto.ReqCommon
  proto.ReqCommonProofs proto.BinReq proto.BinReqProofs handlers.Std orca.Orcas orca.Faults handlers.StdWire.
Open Scope N_scope.

(* ---------------- lists ---------------- *)
Lemma take_len_app {A} (a b : list A) : take (len a) (a ++ b) = a.
Proof.
  unfold take, len. rewrite Nat2N.id. rewrite firstn_app, Nat.sub_diag, firstn_all. cbn [firstn]. apply app_nil_r.
Qed.
Lemma drop_len_app {A} (a b : list A) : drop (len a) (a ++ b) = b.
Proof.
  unfold drop, len. rewrite Nat2N.id. rewrite skipn_app, Nat.sub_diag, skipn_all. reflexivity.
Qed.
Lemma take_n_app {A} n (a b : list A) : len a = n -> take n (a ++ b) = a.
Proof. intros <-. apply take_len_app. Qed.
Lemma drop_n_app {A} n (a b : list A) : len a = n -> drop n (a ++ b) = b.
Proof. intros <-. apply drop_len_app. Qed.
Lemma read_n_all a : read_n a (len a) = Some (a, []).
Proof. pose proof (read_n_app a []) as H. rewrite app_nil_r in H. exact H. Qed.
Lemma read_n_exact n a r : len a = n -> read_n (a ++ r) n = Some (a, r).
Proof. intros <-. apply read_n_app. Qed.
Lemma read_n_all' n a : len a = n -> read_n a n = Some (a, []).
Proof. intros <-. apply read_n_all. Qed.
Lemma len_u32be x : len (u32be x) = 4. Proof. reflexivity. Qed.

(* ---------------- request frames, as the server parses them ---------------- *)
Lemma rd64_cas_zero op k e t body : rd64 (drop 16 (enc_hdr op k e t 0 ++ body)) = 0.
Proof.
  unfold enc_hdr, u16be, u32be, zeros, drop.
  change (N.to_nat 16) with 16%nat. change (N.to_nat 8) with 8%nat.
  cbn [app repeat skipn]. unfold rd64, rd32, drop. change (N.to_nat 4) with 4%nat. cbn [skipn]. reflexivity.
Qed.

Lemma srv_parse_enc op ext k val :
  len k < 65536 -> len ext < 256 -> len ext + len k + len val < two32 ->
  srv_parse (enc_hdr op (len k) (len ext) (len ext + len k + len val) 0 ++ ext ++ k ++ val)
  = Some (mkSF op 0 0 ext k val, []).
Proof.
  intros Hk He Ht. unfold two32 in Ht. unfold srv_parse.
  rewrite rd64_cas_zero.
  rewrite read_hdr_enc by lia. cbn [h_total h_klen h_elen h_op h_opaque].
  destruct (len ext + len k + len val <? len k + len ext) eqn:G; [lia|].
  rewrite (read_n_all' (len ext + len k + len val) (ext ++ k ++ val)).
  2:{ rewrite !len_app. lia. }
  - rewrite take_len_app, drop_len_app, take_len_app.
    rewrite app_assoc.
    rewrite (drop_n_app (len ext + len k) (ext ++ k) val) by (rewrite len_app; reflexivity).
    reflexivity.
Qed.

(* the read_n above needs the frame to end exactly there *)
Lemma srv_parse_enc' op ext k val t :
  len k < 65536 -> len ext < 256 -> len ext + len k + len val < two32 ->
  t = len ext + len k + len val ->
  srv_parse (enc_hdr op (len k) (len ext) t 0 ++ ext ++ k ++ val) = Some (mkSF op 0 0 ext k val, []).
Proof. intros Hk He Ht ->. apply srv_parse_enc; assumption. Qed.

Lemma dsize32_small d : len d < two32 -> dsize32 d = len d.
Proof. unfold dsize32, two32. intros H. apply N.mod_small. exact H. Qed.

Lemma srv_parse_data op k d f ttl :
  len k < 65536 -> len k + 8 + len d < two32 ->
  srv_parse (w_data_cmd op k f ttl (dsize32 d) ++ d) = Some (mkSF op 0 0 (u32be f ++ u32be ttl) k d, []).
Proof.
  intros Hk Ht. unfold w_data_cmd. rewrite dsize32_small by (unfold two32 in *; lia).
  rewrite <- !app_assoc.
  pose proof (srv_parse_enc' op (u32be f ++ u32be ttl) k d (len k + 8 + len d)) as P.
  change (len (u32be f ++ u32be ttl)) with 8 in P. rewrite <- !app_assoc in P.
  apply P; unfold two32 in *; lia.
Qed.
Lemma srv_parse_cat op k d :
  len k < 65536 -> len k + len d < two32 ->
  srv_parse (w_cat_cmd op k (dsize32 d) ++ d) = Some (mkSF op 0 0 [] k d, []).
Proof.
  intros Hk Ht. unfold w_cat_cmd. rewrite dsize32_small by (unfold two32 in *; lia).
  rewrite <- !app_assoc.
  pose proof (srv_parse_enc' op [] k d (len k + len d)) as P.
  change (len (@nil N)) with 0 in P. cbn [app] in P.
  apply P; unfold two32 in *; lia.
Qed.
Lemma srv_parse_key op k :
  len k < 65536 -> srv_parse (w_key_cmd op k) = Some (mkSF op 0 0 [] k [], []).
Proof.
  intros Hk. unfold w_key_cmd.
  pose proof (srv_parse_enc' op [] k [] (len k)) as P.
  change (len (@nil N)) with 0 in P. cbn [app] in P. rewrite app_nil_r in P.
  apply P; unfold two32 in *; lia.
Qed.
Lemma srv_parse_keyexp op k ttl :
  len k < 65536 -> srv_parse (w_keyexp_cmd op k ttl) = Some (mkSF op 0 0 (u32be ttl) k [], []).
Proof.
  intros Hk. unfold w_keyexp_cmd.
  pose proof (srv_parse_enc' op (u32be ttl) k [] (len k + 4)) as P.
  change (len (u32be ttl)) with 4 in P. change (len (@nil N)) with 0 in P.
  rewrite app_nil_r in P.
  apply P; unfold two32 in *; lia.
Qed.

Lemma srv_parse_nil : srv_parse [] = None.
Proof. reflexivity. Qed.

(* ---------------- one frame through the server ---------------- *)
Lemma srv_run_one ebody s now pl bs fr :
  srv_parse bs = Some (fr, []) ->
  srv_run ebody (S (length bs)) s now pl bs =
  (fst (srv_exec ebody s now (hd senv0 pl) fr), tl pl, snd (srv_exec ebody s now (hd senv0 pl) fr), []).
Proof.
  intros P. cbn [srv_run]. rewrite P.
  destruct (srv_exec ebody s now (hd senv0 pl) fr) as [s1 rep]. cbn [fst snd].
  destruct (length bs); cbn [srv_run]; [|rewrite srv_parse_nil]; rewrite app_nil_r; reflexivity.
Qed.

Lemma w_send_one ebody s pl wl rl now bs fr :
  srv_parse bs = Some (fr, []) ->
  w_send ebody (mkWC s pl [] [] false wl rl) now bs =
  mkWC (fst (srv_exec ebody s now (hd senv0 pl) fr)) (tl pl) []
       (snd (srv_exec ebody s now (hd senv0 pl) fr)) false (wl ++ bs)
       (rl ++ snd (srv_exec ebody s now (hd senv0 pl) fr)).
Proof.
  intros P. unfold w_send. cbn [wc_pend wc_store wc_plan wc_in wc_starved wc_wlog wc_rlog app].
  rewrite (srv_run_one ebody s now pl bs fr P). reflexivity.
Qed.

(* the server's answer to a frame with CAS 0 *)
Lemma srv_exec_clean ebody s now e op ext k val kd :
  se_fault e = None -> srv_opkind op = Some kd ->
  srv_exec ebody s now e (mkSF op 0 0 ext k val) = srv_apply ebody kd s now e (mkSF op 0 0 ext k val).
Proof.
  intros F K. unfold srv_exec. rewrite F. cbn [sf_op sf_cas]. rewrite K. reflexivity.
Qed.
Lemma srv_exec_fault ebody s now e op ext k val st body :
  se_fault e = Some (st, body) ->
  srv_exec ebody s now e (mkSF op 0 0 ext k val) = (status_store s st k, resp_frame op st 0 (se_cas e) [] body).
Proof. intros F. unfold srv_exec. rewrite F. reflexivity. Qed.

(* ---------------- reply frames, as the handler reads them ---------------- *)
Lemma resp_hdr_len op st opq cas elen total : len (resp_hdr op st opq cas elen total) = 24.
Proof. reflexivity. Qed.

Lemma rh_of_bytes_explicit m op k1 k2 e x5 s1 s2 t1 t2 t3 t4 o1 o2 o3 o4 c1 c2 c3 c4 c5 c6 c7 c8 :
  rh_of_bytes [m; op; k1; k2; e; x5; s1; s2; t1; t2; t3; t4; o1; o2; o3; o4; c1; c2; c3; c4; c5; c6; c7; c8]
  = mkRH op (k1 * 256 + k2) e (s1 * 256 + s2) (t1 * 16777216 + t2 * 65536 + t3 * 256 + t4)
         (o1 * 16777216 + o2 * 65536 + o3 * 256 + o4).
Proof. reflexivity. Qed.

Lemma rh_of_bytes_resp op st opq cas elen total :
  st < 65536 -> total < two32 -> opq < two32 ->
  rh_of_bytes (resp_hdr op st opq cas elen total) = mkRH op 0 elen st total opq.
Proof.
  unfold two32. intros Hs Ht Ho. unfold resp_hdr, u16be, u32be, u64be, u32be. cbn [app].
  rewrite rh_of_bytes_explicit. f_equal; lia.
Qed.

Lemma w_take_app s pl pend a r wl rl :
  w_take (mkWC s pl pend (a ++ r) false wl rl) (len a) = (mkWC s pl pend r false wl rl, Some a).
Proof. unfold w_take. cbn [wc_in]. rewrite read_n_app. reflexivity. Qed.
Lemma w_take_exact s pl pend a r wl rl n : len a = n ->
  w_take (mkWC s pl pend (a ++ r) false wl rl) n = (mkWC s pl pend r false wl rl, Some a).
Proof. intros <-. apply w_take_app. Qed.
Lemma w_take_all s pl pend a wl rl n : len a = n ->
  w_take (mkWC s pl pend a false wl rl) n = (mkWC s pl pend [] false wl rl, Some a).
Proof. intros H. pose proof (w_take_exact s pl pend a [] wl rl n H) as T. rewrite app_nil_r in T. exact T. Qed.

Lemma w_read_rhdr_resp s pl pend wl rl op st opq cas elen total body :
  st < 65536 -> total < two32 -> opq < two32 ->
  w_read_rhdr (mkWC s pl pend (resp_hdr op st opq cas elen total ++ body) false wl rl)
  = (mkWC s pl pend body false wl rl, RHOk (mkRH op 0 elen st total opq)).
Proof.
  intros Hs Ht Ho. unfold w_read_rhdr.
  rewrite (w_take_exact s pl pend (resp_hdr op st opq cas elen total) body wl rl reqHeaderLen) by reflexivity.
  rewrite rh_of_bytes_resp by assumption. reflexivity.
Qed.

Section Consumer.
Variables (s : store) (pl : list senv) (pend wl rl : bytes).
Notation C x := (mkWC s pl pend x false wl rl).

Lemma w_simple_resp op st opq cas ext val :
  st < 65536 -> len ext + len val < two32 -> opq < two32 ->
  w_simple (C (resp_frame op st opq cas ext val)) = (C [], HRes (st_to_hres st)).
Proof.
  intros Hs Ht Ho. unfold w_simple, resp_frame. rewrite w_read_rhdr_resp by assumption.
  cbn [rh_total rh_status]. unfold w_discard.
  rewrite w_take_all by (rewrite len_app; reflexivity). reflexivity.
Qed.

Lemma w_set_common_err op st opq cas body e :
  st < 65536 -> len body < two32 -> opq < two32 -> decode_error st = Some e ->
  w_set_common (C (resp_frame op st opq cas [] body)) = (C [], HRes (HErr e)).
Proof.
  intros Hs Ht Ho D. unfold w_set_common, resp_frame. cbn [app]. change (len (@nil N)) with 0.
  rewrite w_read_rhdr_resp by (try assumption; unfold two32 in *; lia).
  cbn [rh_total rh_status]. rewrite D. unfold w_discard.
  rewrite w_take_all by lia. reflexivity.
Qed.
Lemma w_set_common_ok op opq cas :
  opq < two32 ->
  w_set_common (C (resp_frame op statusSuccess opq cas [] [])) = (C [], HRes HDone).
Proof.
  intros Ho. unfold w_set_common, resp_frame. cbn [app]. change (len (@nil N)) with 0.
  rewrite w_read_rhdr_resp by (try assumption; unfold two32, statusSuccess in *; lia).
  reflexivity.
Qed.

Lemma w_get_local_err rx op st opq cas body e :
  st < 65536 -> len body < two32 -> opq < two32 -> decode_error st = Some e ->
  w_get_local rx (C (resp_frame op st opq cas [] body)) = (C [], inr e).
Proof.
  intros Hs Ht Ho D. unfold w_get_local, resp_frame. cbn [app]. change (len (@nil N)) with 0.
  rewrite w_read_rhdr_resp by (try assumption; unfold two32 in *; lia).
  cbn [rh_total rh_status]. rewrite D. unfold w_discard.
  rewrite w_take_all by lia. reflexivity.
Qed.

Lemma w_get_local_hit op opq cas fl val :
  fl < two32 -> 4 + len val < two32 -> opq < two32 ->
  w_get_local false (C (resp_frame op statusSuccess opq cas (u32be fl) val)) = (C [], inl (val, fl, 0)).
Proof.
  intros Hf Ht Ho. unfold w_get_local, resp_frame. change (len (u32be fl)) with 4.
  rewrite w_read_rhdr_resp by (try assumption; unfold two32, statusSuccess in *; lia).
  cbn [rh_total rh_status rh_klen rh_elen].
  change (decode_error statusSuccess) with (@None N).
  unfold w_u32. rewrite (w_take_exact s pl pend (u32be fl) val wl rl 4) by reflexivity.
  rewrite rd32_u32be' by (unfold two32 in Hf; exact Hf).
  replace ((4 + len val + two32 - 0 - 4) mod two32) with (len val) by (unfold two32 in *; lia).
  rewrite w_take_all by reflexivity. reflexivity.
Qed.

Lemma w_get_local_hit_e op opq cas fl ex val :
  fl < two32 -> ex < two32 -> 8 + len val < two32 -> opq < two32 ->
  w_get_local true (C (resp_frame op statusSuccess opq cas (u32be fl ++ u32be ex) val)) = (C [], inl (val, fl, ex)).
Proof.
  intros Hf He Ht Ho. unfold w_get_local, resp_frame. change (len (u32be fl ++ u32be ex)) with 8.
  rewrite w_read_rhdr_resp by (try assumption; unfold two32, statusSuccess in *; lia).
  cbn [rh_total rh_status rh_klen rh_elen].
  change (decode_error statusSuccess) with (@None N).
  unfold w_u32. rewrite <- !app_assoc.
  rewrite (w_take_exact s pl pend (u32be fl) (u32be ex ++ val) wl rl 4) by reflexivity.
  rewrite (w_take_exact s pl pend (u32be ex) val wl rl 4) by reflexivity.
  rewrite !rd32_u32be' by (unfold two32 in *; assumption).
  replace ((8 + len val + two32 - 0 - 8) mod two32) with (len val) by (unfold two32 in *; lia).
  rewrite w_take_all by reflexivity. reflexivity.
Qed.

End Consumer.
