(* ChunkSem.v — the meaning of the Go statements and calls that `rendharness chunktrans` recognises in
   handlers/memcached/chunked/{handler,localComm}.go. HAND-WRITTEN AND TRUSTED; definitions only.
   gen/Chunked_gen.v (generated from the source) is written in this vocabulary; gen/ChunkedLink.v proves the
   generated programs equivalent to the hand-written model handlers/Chunked.v.

   LEVEL. A translated Go function is a program in continuation-passing form over the state [cst] of the
   handler's ONE backend connection; what it finally is, is an interaction program [bprog] of
   handlers/Chunked.v over whole backend commands. The connection is seen at the level of COMMANDS, not
   bytes (the byte level of the same commands is handlers/StdWire.v / gen/StdLink.v for the std handler):

     binprot.WriteXCmd(w, key, .., n, 0)   [c_cmd q need]: command q is begun; a set announces n body
                                           bytes that the following data writes must supply exactly. The opaque
                                           argument must be the literal 0. The returned error is nil (a
                                           bufio.Writer fails only after an earlier failed flush; not modelled).
     rw.Write(b) / writeMetadata(rw, md) / io.Copy(rw.Writer, limChunkReader)
                                           [c_data]: bytes of the body of the set command under construction;
                                           too many, or none under construction: outside the semantics.
     rw.Flush()                            [c_flush]: every command written goes to the server, in order; a
                                           set whose body is incomplete: outside the semantics (memcached
                                           waits for the rest, the handler for the reply).
     binprot.ReadResponseHeader(r)         [c_read_hdr]: the reply to the OLDEST flushed command that has not
                                           been answered. THIS IS WHERE THE COMMAND TAKES EFFECT ([BReq]): the
                                           model runs a pipelined batch one command after the other, and a
                                           command whose reply is never read is never run — so every
                                           function must end with nothing outstanding ([c_finish]). A quiet
                                           get that misses ([BNone]) produces no reply: the read moves on to
                                           the next command. [BNone] for any other command: the reply never
                                           comes, an I/O error. The previous reply must have been consumed
                                           completely (else the "header" would be body bytes: outside).
                                           Nothing flushed and unanswered: the read blocks: outside.
     a header is the pair (command, reply):  .Opcode == binprot.OpcodeNoop  [hdr_is_noop];
                                           binprot.DecodeError(h)           [hdr_err];
                                           .TotalBodyLength                 [hdr_total] = length of [body_of].
     the body of a reply [body_of]:        a hit: 4 bytes of flags, then the value; an error status: a
                                           non-empty text [err_text] (never read, only discarded; its length is
                                           a representative); otherwise empty.
     rw.Discard(n)                         [c_discard]: n bytes of the current body; more than there is: the
                                           call blocks: outside the semantics.
     readMetadata(rw)                      [c_read_meta]: the REST of the current body, decoded by
                                           ChunkFmt.dec_meta. ASSUMPTION: the value stored under a metadata key is
                                           exactly metadataSize bytes long (only writeMetadata writes there), so
                                           "the rest" and "metadataSize bytes" are the same thing. (types.go
                                           readMetadata returns (emptyMeta, nil) on a short read; not modelled.)
     h.reset()                             [c_reset]: bufio Reader.Reset / Writer.Reset: unflushed commands and
                                           the unread part of the current body are forgotten.
     limChunkReader (chunkedLimitedReader.go, not translated: ChunkFmt.chunk_i is its specification,
                    tied to the code by harness c16) [clr]: newChunkLimitedReader(bytes.NewBuffer(d), cs, total),
                    More(), NextChunk(), io.Copy(w, r) = the current chunk, zero padded, once.
     <-tokens                              the parameter tok_;  time.Now().Unix()  the parameter cnow_ (ONE
                                           reading per call: the two readings of handleSetCommon are taken equal).
     exptime / chunkSize / metaKey / chunkKey / math.Ceil(float64(a)/float64(b))
                                           Chunked.c_exptime / chunk_size / ChunkFmt.meta_key / chunk_key /
                                           num_chunks (gen/FuncsLink.v ties the integer helpers to their source).
     uint32(x), int(x), int64(x), uint64(x) the identity: lengths and counts here are far below 2^32.
   Dropped by rule: statements that only call metrics.*; binprot.PutResponseHeader(x) and `defer` of it; an
   `if` whose branches are empty after that.

   A Go `error` is an [option N] as in orca/OrcaSem.v. A *binprot.ResponseHeader is an [option hdr]; a field
   access through it is [c_deref] (nil: panic).

   Outcomes: [SVal r] the handler call returns r; [SPanic]; [SUndef] outside this semantics (also everything
   `chunktrans` could not translate). The model has only the first. *)
From Coq Require Import String.
From Rend Require Import base.Bytes gen.Consts_gen spec.MapSpec orca.Types orca.OrcaSem handlers.ChunkFmt
  handlers.Chunked.
Open Scope N_scope.
Open Scope list_scope.

Inductive sres := SVal (r : hres) | SPanic | SUndef.
Definition cprog := bprog sres.

Definition hdr := (breq * bres)%type.
Record cst := mkCS { cs_buf : list breq;            (* complete commands written, not flushed *)
                     cs_cur : option (breq * N);    (* the set under construction, bytes still owed *)
                     cs_sent : list breq;           (* flushed, not yet answered *)
                     cs_body : bytes }.             (* unread rest of the reply being read *)
Definition cs0 : cst := mkCS [] None [] [].

Definition c_undef : cprog := BRet SUndef.
Definition c_panic : cprog := BRet SPanic.
Definition c_untranslatable (what : string) : cprog := BRet SUndef.

Definition c_deref {A} (p : option A) (k : A -> cprog) : cprog :=
  match p with Some v => k v | None => c_panic end.

(* ---- writing ---- *)
Definition c_cmd (q : breq) (need : N) (c : cst) (k : option N -> cst -> cprog) : cprog :=
  match cs_cur c with
  | Some _ => c_undef
  | None => if need =? 0 then k None (mkCS (cs_buf c ++ [q]) None (cs_sent c) (cs_body c))
            else k None (mkCS (cs_buf c) (Some (q, need)) (cs_sent c) (cs_body c))
  end.
Definition c_data (b : bytes) (c : cst) (k : N * option N -> cst -> cprog) : cprog :=
  match cs_cur c with
  | Some (QSet m key f t v, need) =>
      if len b <? need then k (len b, None) (mkCS (cs_buf c) (Some (QSet m key f t (v ++ b), need - len b)) (cs_sent c) (cs_body c))
      else if len b =? need then k (len b, None) (mkCS (cs_buf c ++ [QSet m key f t (v ++ b)]) None (cs_sent c) (cs_body c))
      else c_undef
  | _ => c_undef
  end.
Definition c_write_meta (md : meta) (c : cst) (k : option N -> cst -> cprog) : cprog :=
  c_data (enc_meta md) c (fun r c' => k (snd r) c').
Definition c_flush (c : cst) (k : option N -> cst -> cprog) : cprog :=
  match cs_cur c with
  | Some _ => c_undef
  | None => k None (mkCS [] None (cs_sent c ++ cs_buf c) (cs_body c))
  end.
Definition c_reset (c : cst) (k : unit -> cst -> cprog) : cprog :=
  k tt (mkCS [] None (cs_sent c) []).

(* ---- reading ---- *)
Definition quiet_req (q : breq) : bool := match q with QGetQ _ | QGatQ _ _ => true | _ => false end.
Definition err_text : bytes := asc "E".
Definition body_of (x : bres) : bytes :=
  match x with
  | BVal f v => u32be f ++ v
  | BStatus st => match err_of_status st with Some _ => err_text | None => [] end
  | BNone => []
  end.
Fixpoint next_reply (sent : list breq) (k : option hdr * option N -> list breq -> bytes -> cprog) : cprog :=
  match sent with
  | [] => c_undef
  | q :: r => BReq q (fun x => match x with
                               | BNone => if quiet_req q then next_reply r k else k (None, Some EIO) r []
                               | _ => k (Some (q, x), None) r (body_of x)
                               end)
  end.
Definition c_read_hdr (c : cst) (k : option hdr * option N -> cst -> cprog) : cprog :=
  match cs_body c with
  | [] => next_reply (cs_sent c) (fun r s b => k r (mkCS (cs_buf c) (cs_cur c) s b))
  | _ => c_undef
  end.
Definition hdr_is_noop (h : hdr) : bool := match fst h with QNoop => true | _ => false end.
Definition hdr_err (h : hdr) : option N :=
  match snd h with BStatus st => err_of_status st | _ => None end.
Definition hdr_total (h : hdr) : N := len (body_of (snd h)).

Definition c_discard (n : N) (c : cst) (k : N * option N -> cst -> cprog) : cprog :=
  if n <=? len (cs_body c) then k (n, None) (mkCS (cs_buf c) (cs_cur c) (cs_sent c) (drop n (cs_body c)))
  else c_undef.
Definition c_read_meta (c : cst) (k : meta * option N -> cst -> cprog) : cprog :=
  k (dec_meta (cs_body c), None) (mkCS (cs_buf c) (cs_cur c) (cs_sent c) []).

(* ---- the end of a handler call: nothing written and unsent, nothing unanswered, nothing unread ---- *)
Definition herr_res (e : option N) : hres := match e with None => HDone | Some x => HErr x end.
Definition c_finish (r : hres) (c : cst) : cprog :=
  match cs_buf c, cs_cur c, cs_sent c, cs_body c with
  | [], None, [], [] => BRet (SVal r)
  | _, _, _, _ => c_undef
  end.

(* ---- pure helpers ---- *)
Definition chunk_size (klen : N) : N * N := (chunk_data klen, chunk_full klen).
Definition meta_zero : meta := mkMeta 0 0 0 0 0 0 (zeros tokenSize).
Definition set_m_exptime (v : N) (m : meta) : meta :=
  mkMeta (m_length m) (m_flags m) (m_nchunks m) (m_csize m) (m_instime m) v (m_token m).

(* chunkedLimitedReader: data, chunk size, number of chunks, chunks done, current chunk already copied *)
Record clr := mkCLR { clr_d : bytes; clr_cs : N; clr_n : N; clr_done : N; clr_used : bool }.
Definition clr_new (d : bytes) (cs total : N) : clr := mkCLR (take total d) cs (num_chunks total cs) 0 false.
Definition clr_more (r : clr) : bool := clr_done r <? clr_n r.
Definition clr_next (r : clr) : clr :=
  if clr_done r <? clr_n r then mkCLR (clr_d r) (clr_cs r) (clr_n r) (clr_done r + 1) false else r.
Definition clr_fuel (r : clr) : nat := N.to_nat (clr_n r - clr_done r).
Definition clr_cur (r : clr) : bytes :=
  if clr_used r || negb (clr_more r) then [] else chunk_i (clr_cs r) (clr_d r) (clr_done r).
Definition c_copy_clr (r : clr) (c : cst) (k : N * option N -> clr -> cst -> cprog) : cprog :=
  c_data (clr_cur r) c (fun res c' => k res (mkCLR (clr_d r) (clr_cs r) (clr_n r) (clr_done r) true) c').

(* ---- loops ---- *)
(* for COND { body }: [fuel] bounds the number of iterations (chunktrans accepts `for r.More()` over a
   chunkedLimitedReader, fuel = chunks left); out of fuel with the condition still true: outside *)
Fixpoint c_while {S : Type} (fuel : nat) (cond : S -> bool)
    (body : S -> cst -> (S -> cst -> cprog) -> cprog) (s : S) (c : cst) (k : S -> cst -> cprog) : cprog :=
  match fuel with
  | O => if cond s then c_undef else k s c
  | Datatypes.S f => if cond s then body s c (fun s' c' => c_while f cond body s' c' k) else k s c
  end.
(* for i := lo; i < hi; i++ { body } without break / continue *)
Fixpoint c_for_n {S : Type} (n : nat) (i : N) (body : N -> S -> cst -> (S -> cst -> cprog) -> cprog)
    (s : S) (c : cst) (k : S -> cst -> cprog) : cprog :=
  match n with
  | O => k s c
  | Datatypes.S n' => body i s c (fun s' c' => c_for_n n' (i + 1) body s' c' k)
  end.
Definition c_for {S : Type} (lo hi : N) (body : N -> S -> cst -> (S -> cst -> cprog) -> cprog)
    (s : S) (c : cst) (k : S -> cst -> cprog) : cprog :=
  c_for_n (N.to_nat (hi - lo)) lo body s c k.
