(* Chunked.v — handlers/memcached/chunked/handler.go as interaction programs over single
   backend requests (so that faults and other connections can be interleaved between any two
   requests). Random tokens and the handler's own clock readings are explicit arguments. *)
From Coq Require Import String.
From Rend Require Import base.Bytes gen.Consts_gen spec.MapSpec orca.Types handlers.ChunkFmt.
Open Scope N_scope.

(* ---- one backend request / reply ---- *)
Inductive breq :=
| QGet (k : bytes) | QGetQ (k : bytes)
| QGat (k : bytes) (ttl : N) | QGatQ (k : bytes) (ttl : N)
| QSet (m : smode) (k : bytes) (f ttl : N) (v : bytes)
| QDelete (k : bytes) | QTouch (k : bytes) (ttl : N) | QNoop.

Inductive bres :=
| BNone                       (* quiet miss: the backend sends nothing *)
| BStatus (st : N)            (* a reply without value: success or an error status *)
| BVal (f : N) (v : bytes).   (* a get/gat hit *)

Definition b_exec (s : store) (now : N) (q : breq) : store * bres :=
  match q with
  | QGet k => (s, match b_get s now k with Some e => BVal (e_flags e) (e_data e) | None => BStatus statusKeyEnoent end)
  | QGetQ k => (s, match b_get s now k with Some e => BVal (e_flags e) (e_data e) | None => BNone end)
  | QGat k ttl => let '(s', o) := b_gat s now k ttl in
                  (s', match o with Some e => BVal (e_flags e) (e_data e) | None => BStatus statusKeyEnoent end)
  | QGatQ k ttl => let '(s', o) := b_gat s now k ttl in
                   (s', match o with Some e => BVal (e_flags e) (e_data e) | None => BNone end)
  | QSet m k f ttl v => let '(s', st) := b_set m s now k v f ttl in (s', BStatus st)
  | QDelete k => let '(s', st) := b_delete s now k in (s', BStatus st)
  | QTouch k ttl => let '(s', st) := b_touch s now k ttl in (s', BStatus st)
  | QNoop => (s, BStatus statusSuccess)
  end.

Inductive bprog (A : Type) :=
| BRet (a : A)
| BReq (q : breq) (k : bres -> bprog A).
Arguments BRet {A} a.
Arguments BReq {A} q k.

Fixpoint brun {A} (p : bprog A) (s : store) (now : N) : store * A :=
  match p with
  | BRet a => (s, a)
  | BReq q k => let '(s', r) := b_exec s now q in brun (k r) s' now
  end.

(* the requests a program issues when run sequentially (for confinement / size checks) *)
Fixpoint btrace {A} (p : bprog A) (s : store) (now : N) : list breq :=
  match p with
  | BRet _ => []
  | BReq q k => let '(s', r) := b_exec s now q in q :: btrace (k r) s' now
  end.

(* issue a list of requests one after the other, collecting the replies *)
Fixpoint breqs {A} (qs : list breq) (acc : list bres) (k : list bres -> bprog A) : bprog A :=
  match qs with
  | [] => k (rev acc)
  | q :: r => BReq q (fun x => breqs r (x :: acc) k)
  end.

(* ---- exptime(ttl): the handler's own TTL arithmetic with its own clock reading ---- *)
Definition c_exptime (cnow ttl : N) : N * bool :=
  if ttl =? 0 then (0, false)
  else if realTimeMaxDelta <? ttl then (ttl, ttl <? cnow)
  else (cnow + ttl, false).

Definition err_of_status (st : N) : option N := decode_error st.

(* ---- set / add / replace ---- *)
Definition chunk_sets (k : bytes) (f ttl : N) (tok d : bytes) : list breq :=
  let ds := chunk_data (len k) in
  map (fun i => QSet MSet (chunk_key k (N.of_nat i)) f ttl (tok ++ chunk_i ds d (N.of_nat i)))
      (seq 0 (N.to_nat (num_chunks (len d) ds))).

(* write the chunk sets one by one, stopping at the first error status *)
Fixpoint write_chunks (qs : list breq) : bprog hres :=
  match qs with
  | [] => BRet HDone
  | q :: r => BReq q (fun x => match x with
                               | BStatus st => match err_of_status st with
                                               | Some e => BRet (HErr e)
                                               | None => write_chunks r end
                               | _ => BRet (HErr EIO) end)
  end.

Definition chunked_set (tok : bytes) (cnow : N) (m : smode) (k d : bytes) (f ttl : N) : bprog hres :=
  let '(exp, expired) := c_exptime cnow ttl in
  if expired then BRet HDone
  else
    let ds := chunk_data (len k) in
    let md := mkMeta (len d) f (num_chunks (len d) ds) ds cnow exp tok in
    BReq (QSet m (meta_key k) f ttl (enc_meta md)) (fun x =>
      match x with
      | BStatus st => match err_of_status st with
                      | Some e => BRet (HErr e)
                      | None => write_chunks (chunk_sets k f ttl tok d) end
      | _ => BRet (HErr EIO) end).

(* ---- reading: metadata, then getq* + noop, reassembly by ARRIVAL order ---- *)
(* piece j of the value, taken from the j-th chunk reply that arrived *)
Definition piece (md : meta) (j : N) (v : bytes) : bytes :=
  take (slice_end (m_csize md) j (m_length md) - slice_start (m_csize md) j) (drop tokenSize v).

Fixpoint assemble (md : meta) (j : N) (vals : list bytes) : bytes :=
  match vals with
  | [] => []
  | v :: r => piece md j v ++ assemble md (j + 1) r
  end.

Definition arrived (rs : list bres) : list bytes :=
  flat_map (fun r => match r with BVal _ v => [v] | _ => [] end) rs.

(* the value and whether the read counts as a miss: a token mismatch in any arrived chunk, or
   fewer chunk replies than the metadata announces *)
Definition read_result (md : meta) (rs : list bres) : bytes * bool :=
  let vals := arrived rs in
  let data := assemble md 0 vals in
  let data := data ++ zeros (m_length md - len data) in
  let badtok := existsb (fun v => negb (bytes_eqb (take tokenSize v) (m_token md))) vals in
  let short := negb (len vals =? m_nchunks md) in
  (data, badtok || short).

Definition chunk_keys (k : bytes) (n : N) : list bytes :=
  map (fun i => chunk_key k (N.of_nat i)) (seq 0 (N.to_nat n)).

(* getMetadata / getAndTouchMetadata; None = not found *)
Definition with_meta {A} (q : breq) (miss : bprog A) (fail : N -> bprog A) (k : meta -> bprog A) : bprog A :=
  BReq q (fun x => match x with
                   | BVal _ v => k (dec_meta v)
                   | BStatus st => match err_of_status st with
                                   | Some e => if e =? EKeyNotFound then miss else fail e
                                   | None => k (dec_meta []) end
                   | BNone => fail EIO end).

(* read all chunks of a key whose metadata is known; touch = Some ttl for get-and-touch *)
Definition read_chunks {A} (k : bytes) (md : meta) (touch : option N) (cont : bytes * bool -> bprog A) : bprog A :=
  let qs := map (fun ck => match touch with Some ttl => QGatQ ck ttl | None => QGetQ ck end)
                (chunk_keys k (m_nchunks md)) in
  breqs qs [] (fun rs => BReq QNoop (fun _ => cont (read_result md rs))).

Definition chunked_get1 (it : gitem) : bprog gres :=
  let k := gi_key it in
  let missr := mkGR k [] 0 0 (gi_opaque it) (gi_quiet it) true in
  with_meta (QGet (meta_key k)) (BRet missr) (fun _ => BRet missr)
    (fun md => read_chunks k md None (fun dm =>
       let '(d, miss) := dm in
       BRet (if miss then mkGR k [] (m_flags md) 0 (gi_opaque it) (gi_quiet it) true
             else mkGR k d (m_flags md) 0 (gi_opaque it) (gi_quiet it) false))).

Fixpoint chunked_get (items : list gitem) (acc : list gres) : bprog hres :=
  match items with
  | [] => BRet (HVals (rev acc) None)
  | it :: r =>
      let k := gi_key it in
      let missr := mkGR k [] 0 0 (gi_opaque it) (gi_quiet it) true in
      with_meta (QGet (meta_key k)) (chunked_get r (missr :: acc)) (fun e => BRet (HVals (rev acc) (Some e)))
        (fun md => read_chunks k md None (fun dm =>
           let '(d, miss) := dm in
           chunked_get r ((if miss then mkGR k [] (m_flags md) 0 (gi_opaque it) (gi_quiet it) true
                           else mkGR k d (m_flags md) 0 (gi_opaque it) (gi_quiet it) false) :: acc)))
  end.

Definition chunked_gat (k : bytes) (ttl opq : N) : bprog hres :=
  let missr := mkGR k [] 0 0 opq false true in
  with_meta (QGat (meta_key k) ttl) (BRet (HVals [missr] None)) (fun e => BRet (HErr e))
    (fun md => read_chunks k md (Some ttl) (fun dm =>
       let '(d, miss) := dm in
       BRet (HVals [if miss then mkGR k [] (m_flags md) 0 opq false true
                    else mkGR k d (m_flags md) 0 opq false false] None))).

(* append / prepend: read, concatenate, set again with the flags and the ABSOLUTE exptime
   recorded in the metadata as the new TTL *)
Definition chunked_cat (tok : bytes) (cnow : N) (front : bool) (k d : bytes) : bprog hres :=
  with_meta (QGet (meta_key k)) (BRet (HErr EKeyNotFound)) (fun e => BRet (HErr e))
    (fun md => read_chunks k md None (fun dm =>
       let '(old, miss) := dm in
       if miss then BRet (HErr EKeyNotFound)
       else chunked_set tok cnow MSet k (if front then d ++ old else old ++ d) (m_flags md) (m_exptime md))).

(* all replies of a pipelined batch of deletes/touches: not-found in any of them is a miss *)
Definition any_notfound (rs : list bres) : bool :=
  existsb (fun r => match r with
                    | BStatus st => match err_of_status st with Some e => e =? EKeyNotFound | None => false end
                    | _ => false end) rs.

Definition chunked_delete (k : bytes) : bprog hres :=
  with_meta (QGet (meta_key k)) (BRet (HErr EKeyNotFound)) (fun e => BRet (HErr e))
    (fun md => BReq (QDelete (meta_key k)) (fun x =>
       match x with
       | BStatus st =>
           match err_of_status st with
           | Some e => BRet (HErr e)
           | None => breqs (map QDelete (chunk_keys k (m_nchunks md))) []
                       (fun rs => BRet (if any_notfound rs then HErr EKeyNotFound else HDone))
           end
       | _ => BRet (HErr EIO) end)).

Definition chunked_touch (cnow : N) (k : bytes) (ttl : N) : bprog hres :=
  with_meta (QGet (meta_key k)) (BRet (HErr EKeyNotFound)) (fun e => BRet (HErr e))
    (fun md => breqs (map (fun ck => QTouch ck ttl) (chunk_keys k (m_nchunks md))) []
       (fun rs => if any_notfound rs then BRet (HErr EKeyNotFound)
                  else
                    let md' := mkMeta (m_length md) (m_flags md) (m_nchunks md) (m_csize md) (m_instime md)
                                      (fst (c_exptime cnow ttl)) (m_token md) in
                    BReq (QSet MSet (meta_key k) (m_flags md) ttl (enc_meta md')) (fun x =>
                      match x with
                      | BStatus st => match err_of_status st with Some e => BRet (HErr e) | None => BRet HDone end
                      | _ => BRet (HErr EIO) end))).

(* one handler call; [tok] and [cnow] are the token drawn and the clock read by this call *)
Definition chunked_prog (tok : bytes) (cnow : N) (q : hreq) : bprog hres :=
  match q with
  | HSet m k d f ttl => chunked_set tok cnow m k d f ttl
  | HCat front k d => chunked_cat tok cnow front k d
  | HDelete k => chunked_delete k
  | HTouch k ttl => chunked_touch cnow k ttl
  | HGet items => chunked_get items []
  | HGetE _ => BRet (HErr EIO)          (* the real handler panics: GetE is not supported *)
  | HGat k ttl opq => chunked_gat k ttl opq
  end.

Definition chunked_exec (tok : bytes) (cnow : N) : hexec :=
  fun s now q => brun (chunked_prog tok cnow q) s now.

(* ---- abstraction: the client-visible entry of key k stored in backend store st ---- *)
Definition chunk_ok (st : store) (now : N) (k : bytes) (md : meta) (i : N) : bool :=
  match live now st (chunk_key k i) with
  | Some e => bytes_eqb (take tokenSize (e_data e)) (m_token md)
  | None => false
  end.
Definition abs_entry (st : store) (now : N) (k : bytes) : option entry :=
  match live now st (meta_key k) with
  | None => None
  | Some me =>
      let md := dec_meta (e_data me) in
      let idx := map N.of_nat (seq 0 (N.to_nat (m_nchunks md))) in
      if forallb (chunk_ok st now k md) idx then
        let vals := map (fun i => match live now st (chunk_key k i) with Some e => e_data e | None => [] end) idx in
        Some (mkE (assemble md 0 vals ++ zeros (m_length md - len (assemble md 0 vals))) (m_flags md) (e_dl me))
      else None
  end.
