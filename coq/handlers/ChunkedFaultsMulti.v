(* ChunkedFaultsMulti.v — multi-key get under any fault plan: every returned item answers the
   request item at its position and is a miss or exactly that key's value before the call. *)
From Coq Require Import String.
From Rend Require Import base.Bytes gen.Consts_gen spec.MapSpec orca.Types handlers.ChunkFmt
  handlers.ChunkFmtProofs handlers.Chunked handlers.ChunkedSpec handlers.ChunkedProofs
  handlers.ChunkedRefBase handlers.ChunkedRefCmds handlers.ChunkedFaults handlers.ChunkedFaultsProofs
  handlers.ChunkedFaultsRead.
Open Scope N_scope.

Lemma lsub_trans now a b c : lsub now a b -> lsub now b c -> lsub now a c.
Proof.
  intros H1 H2 bk e Hc. destruct (H2 _ _ Hc) as (e1 & Hb & Hd & Hf). destruct (H1 _ _ Hb) as (e0 & Ha & Hd0 & Hf0).
  exists e0. split; [exact Ha|]. split; congruence.
Qed.

(* metadata lookup + chunk reads started from a store s that descends from s0, connection alive or not *)
Section ReadPathG.
Context {A : Type}.
Variables (pl : cplan) (now : N) (s0 s : store) (k : bytes).
Variables (miss : fprog A) (fail : N -> fprog A) (cont : meta -> bytes * bool -> fprog A).
Hypothesis Hpl : plan_ok pl.
Hypothesis L : lsub now s0 s.
Local Notation P := (with_meta_f (QGet (meta_key k)) miss fail (fun md => read_chunks_f k md None fail (cont md))).

Lemma read_path_g i dead :
  exists s'' i' dead', lsub now s0 s'' /\
    (frun pl P s now i dead = frun pl miss s'' now i' dead' \/
     (exists e, frun pl P s now i dead = frun pl (fail e) s'' now i' dead') \/
     (exists me d m, live now s0 (meta_key k) = Some me /\
        frun pl P s now i dead = frun pl (cont (dec_meta (e_data me)) (d, m)) s'' now i' dead' /\
        (m = true \/ d = aval (dec_meta (e_data me)) (map (cdata s0 now k) (idxs (m_nchunks (dec_meta (e_data me)))))))).
Proof.
  unfold with_meta_f. cbn [frun]. destruct dead.
  { exists s, (S i), true. split; [exact L|]. right; left. exists EIO. reflexivity. }
  destruct (pl i) as [[st|ap]|] eqn:Ep.
  - exists (status_store s st (QGet (meta_key k))), (S i), false. split; [apply lsub_status_store; exact L|].
    destruct (err_of_status st) as [e|] eqn:Ee; [|exfalso; exact (Hpl i st Ep Ee)].
    destruct (e =? EKeyNotFound); [left; reflexivity|right; left; exists e; reflexivity].
  - eexists _, (S i), true. split; [|right; left; exists EIO; reflexivity].
    destruct ap; [rewrite b_exec_get; exact L|exact L].
  - rewrite b_exec_get.
    destruct (live now s (meta_key k)) as [me|] eqn:Hm.
    + destruct (L _ _ Hm) as (me0 & Hm0 & Hd & _).
      destruct (read_chunks_f_sound pl now s0 k (dec_meta (e_data me)) None fail (cont (dec_meta (e_data me))) s (S i) false L)
        as (s2 & i2 & d2 & L2 & [[e He]|(d & m & He & Hdm)]).
      * exists s2, i2, d2. split; [exact L2|]. right; left. exists e. exact He.
      * exists s2, i2, d2. split; [exact L2|]. right; right. exists me0, d, m. rewrite <- Hd. split; [exact Hm0|]. split; assumption.
    + exists s, (S i), false. split; [exact L|]. left. rewrite err_enoent, N.eqb_refl. reflexivity.
Qed.
End ReadPathG.

(* rs answers a prefix of items, each item soundly w.r.t. store s0 *)
Inductive answers (s0 : store) (now : N) : list gitem -> list gres -> Prop :=
| ans_nil items : answers s0 now items []
| ans_cons it items g rs :
    g_key g = gi_key it -> g_opaque g = gi_opaque it ->
    (g_miss g = true \/ gres_is g (cview s0 now (gi_key it))) ->
    answers s0 now items rs -> answers s0 now (it :: items) (g :: rs).

Lemma get_multi_sound pl now s0 : plan_ok pl ->
  forall items, Forall (fun it => 1 <= len (gi_key it) <= 250 /\ wf_key s0 now (gi_key it)) items ->
  forall acc s i dead, lsub now s0 s ->
  let X := frun pl (chunked_get_f items acc) s now i dead in
  lsub now s0 (fst X) /\
  exists rs eo, snd X = CRes (HVals (rev acc ++ rs) eo) /\ answers s0 now items rs /\
                (eo = None -> length rs = length items).
Proof.
  intros Hpl. induction items as [|it r IH]; intros HF acc s i dead L X; unfold X.
  - cbn [chunked_get_f frun fst snd]. split; [exact L|]. exists [], None. rewrite app_nil_r. repeat split. constructor.
  - inversion HF as [|? ? [Hk W] HF']; subst. cbn [chunked_get_f].
    match goal with |- context [with_meta_f _ ?m ?f (fun md => read_chunks_f _ md None _ (@?c md))] =>
      destruct (read_path_g pl now s0 s (gi_key it) m f c Hpl L i dead)
        as (s2 & i2 & d2 & L2 & [E|[[e E]|(me & d & mm & Hm & E & Hd)]]) end; rewrite E; clear E.
    + destruct (IH HF' (mkGR (gi_key it) [] 0 0 (gi_opaque it) (gi_quiet it) true :: acc) s2 i2 d2 L2) as (LX & rs & eo & HR & HA & HL).
      split; [exact LX|]. eexists (_ :: rs), eo. split; [rewrite HR; cbn [rev]; rewrite <- app_assoc; reflexivity|].
      split; [constructor; [reflexivity|reflexivity|left; reflexivity|exact HA]|]. intros He. cbn [length]. rewrite (HL He). reflexivity.
    + cbn [frun fst snd]. split; [exact L2|]. exists [], (Some e). rewrite app_nil_r. split; [reflexivity|]. split; [constructor|discriminate].
    + cbv beta iota.
      match goal with |- context [chunked_get_f r (?g :: acc)] =>
        destruct (IH HF' (g :: acc) s2 i2 d2 L2) as (LX & rs & eo & HR & HA & HL); set (g0 := g) in * end.
      split; [exact LX|]. exists (g0 :: rs), eo. split; [rewrite HR; cbn [rev]; rewrite <- app_assoc; reflexivity|].
      split; [|intros He; cbn [length]; rewrite (HL He); reflexivity].
      constructor; [unfold g0; destruct mm; reflexivity|unfold g0; destruct mm; reflexivity| |exact HA].
      unfold g0. destruct mm; [left; reflexivity|right].
      rewrite (wf_cview s0 now (gi_key it) me Hk W Hm). cbn [gres_is g_miss g_data g_flags].
      destruct Hd as [Hd|Hd]; [discriminate|]. repeat split. exact Hd.
Qed.

(* ---- c10_chunked_read_sound_multi ---- *)
Lemma get_multi_sound_f pl s now items :
  plan_ok pl -> Forall (fun it => 1 <= len (gi_key it) <= 250 /\ wf_key s now (gi_key it)) items ->
  let X := chunked_exec_f pl [] 0 s now (HGet items) in
  lsub now s (fst X) /\
  exists rs eo, snd X = CRes (HVals rs eo) /\ answers s now items rs /\ (eo = None -> length rs = length items).
Proof.
  intros Hpl HF. exact (get_multi_sound pl now s Hpl items HF [] s 0%nat false (lsub_refl now s)).
Qed.
