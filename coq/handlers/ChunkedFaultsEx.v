(* ChunkedFaultsEx.v — concrete witnesses for props/C10chunk.v. *)
From Coq Require Import String.
From Rend Require Import base.Bytes gen.Consts_gen spec.MapSpec orca.Types handlers.ChunkFmt
  handlers.ChunkFmtProofs handlers.Chunked handlers.ChunkedSpec handlers.ChunkedProofs
  handlers.ChunkedRefBase handlers.ChunkedRefCmds handlers.ChunkedFaults handlers.ChunkedFaultsProofs.
Open Scope N_scope.

Definition ex_k : bytes := [107].
Definition ex_now : N := 3000000.
Definition ex_tok : bytes := repeat 7 16.
Definition ex_old : bytes := repeat 1 1200.          (* two chunks *)
Definition ex_new : bytes := repeat 2 1200.
Definition ex_s : store := fst (brun (chunked_set ex_tok ex_now MSet ex_k ex_old 5 0) empty_store ex_now).

Lemma ex_s_wf : wf_key ex_s ex_now ex_k.
Proof.
  apply (set_key empty_store ex_now ex_tok ex_now MSet ex_k ex_old 5 0).
  - apply wf_key_dead. reflexivity.
  - unfold call_ok. repeat split; try reflexivity; vm_compute; try reflexivity; discriminate.
Qed.

(* the next set draws the SAME token and loses its connection after chunk 0 was applied *)
Definition ex_pl : cplan := plan_of_list [(1%nat, CFBreak true)].
Lemma ex_pl_ok : plan_ok ex_pl.
Proof.
  intros i st H. unfold ex_pl in H. cbn [plan_of_list] in H.
  destruct (Nat.eqb i 1); [discriminate|]. unfold no_cfaults in H. discriminate.
Qed.

Lemma set_aon_stale_token_refuted : exists pl s now tok k d f,
  plan_ok pl /\ wf_key s now k /\
  let st := fst (chunked_exec_f pl tok now s now (HSet MSet k d f 0)) in
  cview st now k <> None /\ cview st now k <> cview s now k /\ cview st now k <> Some (d, f).
Proof.
  exists ex_pl, ex_s, ex_now, ex_tok, ex_k, ex_new, 5. split; [exact ex_pl_ok|]. split; [exact ex_s_wf|].
  cbv zeta. split; [|split].
  - intros H. apply (f_equal (fun o => match o with Some _ => true | None => false end)) in H. vm_compute in H. discriminate H.
  - intros H. apply (f_equal (fun o => match o with Some (x, _) => nth 0 x 0 | None => 0 end)) in H. vm_compute in H. discriminate H.
  - intros H. apply (f_equal (fun o => match o with Some (x, _) => nth 1199 x 0 | None => 0 end)) in H. vm_compute in H. discriminate H.
Qed.

(* set of a three-chunk value over the two-chunk one, fresh token, the connection breaking after
   the second chunk was applied: (result, what the key reads as afterwards) *)
Definition c10chunk_ex_panic : cout * option (bytes * N) :=
  let '(st, r) := chunked_exec_f (plan_of_list [(2%nat, CFBreak true)]) (repeat 9 16) ex_now ex_s ex_now
                                 (HSet MSet ex_k (repeat 3 2500) 6 0) in
  (r, cview st ex_now ex_k).
(* a get whose second chunk read is answered with status 0x85 (busy) *)
Definition c10chunk_ex_busy : cout :=
  snd (chunked_exec_f (plan_of_list [(2%nat, CFStatus 133)]) [] 0 ex_s ex_now (HGet [mkGI ex_k 1 false])).
