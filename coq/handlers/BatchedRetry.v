(* BatchedRetry.v — Handler.doRequest of handlers/memcached/batched: a single (non-get) call
   submitted alone in a batch, the pool's connection possibly cut during each attempt, and the
   caller's retry loop: up to [tries] = 2 * (pooled connections) submissions while the outcome
   is errRetryRequestBecauseOfConnectionFailure; append and prepend are not resubmitted (since
   the fix recorded in KNOWN_FINDINGS.json: the cut may have come after the backend applied the
   request). [resend_cat = true] is the loop as it stood before. Definitions only. *)
From Rend Require Import base.Bytes gen.Consts_gen spec.MapSpec orca.Types handlers.Std handlers.Batched.
Open Scope N_scope.

Definition is_cat (q : hreq) : bool := match q with HCat _ _ _ => true | _ => false end.

(* one submission: the request alone in a batch; what its response channel receives *)
Definition attempt1 (base : N) (q : hreq) (s : store) (now : N) (cut : option (nat * nat)) : store * list resp :=
  let '(s', ds) := run_batch base [mkQ 0 q] s now cut in (s', of_chan ds 0%nat).

Fixpoint do_request (resend_cat : bool) (tries : nat) (bases : list N) (cuts : list (option (nat * nat)))
         (q : hreq) (s : store) (now : N) : store * hres :=
  match tries with
  | O => (s, HErr EInternal)                    (* every submission ended in the retry error *)
  | S t =>
      let '(s', rs) := attempt1 (hd 0 bases) q s now (hd None cuts) in
      match rs with
      | RErr e :: _ =>
          if e =? RETRY then
            if is_cat q && negb resend_cat then (s', HErr EInternal)
            else do_request resend_cat t (tl bases) (tl cuts) q s' now
          else (s', HErr e)
      | _ => (s', single_result q rs)
      end
  end.
