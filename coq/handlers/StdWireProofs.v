(* StdWireProofs.v — the std handler at wire level (handlers/StdWire.v) against its
   abstract model (handlers/Std.v, and orca/Faults.v for injected error statuses):
   same result, same backend store, connection back in sync. Statements: props/C01wire.v. *)
From Rend Require Import base.Bytes gen.Consts_gen spec.MapSpec orca.Types proto.Resp proto.ReqCommon
  proto.ReqCommonProofs proto.BinReq proto.BinReqProofs handlers.Std orca.Orcas orca.Faults
  orca.FaultLemmas1 handlers.StdWire handlers.StdWireLemmas.
Open Scope N_scope.

(* ---------------- statuses a healthy server answers with ---------------- *)
Definition nat_status (st : N) : Prop :=
  st = statusSuccess \/ st = statusKeyEnoent \/ st = statusKeyExists \/ st = statusNotStored.

Lemma nat_status_known st : nat_status st -> st < 65536 /\ (st = statusSuccess \/ decode_error st <> None).
Proof.
  intros [ -> | [ -> | [ -> | -> ] ] ]; (split; [reflexivity|]); [left; reflexivity| right; discriminate ..].
Qed.

Lemma b_set_status m s now k d f ttl : nat_status (snd (b_set m s now k d f ttl)).
Proof. unfold gb_set, nat_status. destruct m, (live now s k); cbn [snd]; tauto. Qed.
Lemma b_cat_status fr s now k d : nat_status (snd (b_cat fr s now k d)).
Proof. unfold gb_cat, nat_status. destruct (live now s k); cbn [snd]; tauto. Qed.
Lemma b_delete_status s now k : nat_status (snd (b_delete s now k)).
Proof. unfold gb_delete, nat_status. destruct (live now s k); cbn [snd]; tauto. Qed.

Lemma srv_opkind_set m : srv_opkind (set_opcode m false) = Some (KSet m).
Proof. destruct m; reflexivity. Qed.
Lemma srv_opkind_cat fr : srv_opkind (cat_opcode fr false) = Some (KCat fr).
Proof. destruct fr; reflexivity. Qed.
Lemma srv_opkind_get gete : srv_opkind (get_opcode gete) = Some (KGet false gete).
Proof. destruct gete; reflexivity. Qed.

Section Paths.
Variable ebody : N -> bytes.
Hypothesis EB : ebody_fits ebody.
Variables (s : store) (pl : list senv) (pend wl rl : bytes).
Notation C x := (mkWC s pl pend x false wl rl).

(* the status-only replies through the two status-only consumers *)
Lemma w_set_common_status op e st :
  st < 65536 -> (st = statusSuccess \/ decode_error st <> None) ->
  w_set_common (C (srv_status ebody (mkSF op 0 0 [] [] []) e st)) = (C [], HRes (st_to_hres st)).
Proof.
  intros Hs [ -> | D ].
  - apply w_set_common_ok. reflexivity.
  - unfold srv_status. destruct (st =? statusSuccess) eqn:E.
    + apply N.eqb_eq in E. subst st. exfalso. apply D. reflexivity.
    + unfold srv_err. cbn [sf_op sf_opaque]. unfold st_to_hres.
      destruct (decode_error st) as [x|] eqn:DE; [|contradiction].
      apply w_set_common_err; try assumption; [apply EB | reflexivity].
Qed.
Lemma w_simple_status op e st :
  st < 65536 ->
  w_simple (C (srv_status ebody (mkSF op 0 0 [] [] []) e st)) = (C [], HRes (st_to_hres st)).
Proof.
  intros Hs. unfold srv_status. destruct (st =? statusSuccess) eqn:E.
  - apply N.eqb_eq in E. subst st. unfold srv_ok. cbn [sf_op sf_opaque].
    apply w_simple_resp; reflexivity.
  - unfold srv_err. cbn [sf_op sf_opaque]. apply w_simple_resp; [assumption | | reflexivity].
    change (len (@nil N)) with 0. pose proof (EB st). lia.
Qed.
End Paths.

(* srv_status only looks at opcode, opaque: the key etc. of the frame do not matter *)
Lemma srv_status_frame ebody op opq cas ext k val e st :
  srv_status ebody (mkSF op opq cas ext k val) e st = srv_status ebody (mkSF op opq 0 [] [] []) e st.
Proof. reflexivity. Qed.

(* ---------------- the first request of a plan ---------------- *)
Definition head_fault (pl : list senv) : option fault :=
  match pl with [] => None | e :: _ => senv_fault e end.

Lemma plan_head_cases pl : plan_fits pl ->
  (se_fault (hd senv0 pl) = None /\ head_fault pl = None) \/
  (exists st body e, se_fault (hd senv0 pl) = Some (st, body) /\ head_fault pl = Some (FStatus st) /\
                     st < 65536 /\ decode_error st = Some e /\ len body < two32).
Proof.
  intros F. destruct pl as [|x pl']; [left; split; reflexivity|].
  inversion F as [|? ? Fx _]; subst. unfold senv_fits in Fx. cbn [hd head_fault]. unfold senv_fault.
  destruct (se_fault x) as [[st body]|]; [|left; split; reflexivity].
  destruct Fx as (A & B & Cc). destruct (decode_error st) as [e|] eqn:D; [|contradiction].
  right. exists st, body, e. repeat split; assumption.
Qed.

Lemma plan_fits_tl pl : plan_fits pl -> plan_fits (tl pl).
Proof. intros F. destruct pl; [exact F | inversion F; assumption]. Qed.

(* ---------------- store_fits ---------------- *)
Lemma live_upd_none s now k k' e : live now (upd s k None) k' = Some e -> live now s k' = Some e.
Proof. unfold live, upd. destruct (bytes_eqb k' k); [discriminate | tauto]. Qed.
Lemma store_fits_status now s st k : store_fits now s -> store_fits now (status_store s st k).
Proof.
  intros F. unfold status_store. destruct ((st =? statusKeyEnoent) || (st =? statusNotStored)); [|exact F].
  intros k' e L. apply live_upd_none in L. exact (F k' e L).
Qed.

(* ---------------- single-frame calls ---------------- *)
Definition single (q : hreq) : Prop := match q with HGet _ | HGetE _ => False | _ => True end.

Lemma srv_parse_std_frame q : single q -> hreq_fits q ->
  exists op ext val, srv_parse (std_frame q) = Some (mkSF op 0 0 ext (hreq_key q) val, []) /\
    match q with
    | HSet m _ d f ttl => op = set_opcode m false /\ ext = u32be f ++ u32be ttl /\ val = d
    | HCat fr _ d => op = cat_opcode fr false /\ ext = [] /\ val = d
    | HDelete _ => op = opDelete /\ ext = [] /\ val = []
    | HTouch _ ttl => op = opTouch /\ ext = u32be ttl /\ val = []
    | HGat _ ttl _ => op = opGat /\ ext = u32be ttl /\ val = []
    | _ => False
    end.
Proof.
  intros S F. destruct q; cbn [single] in S; try contradiction; cbn [hreq_fits] in F; cbn [std_frame hreq_key].
  - destruct F as (A & B & Cc & D). eexists _, _, _. split; [apply srv_parse_data; assumption | auto].
  - destruct F as (A & B). eexists _, _, _. split; [apply srv_parse_cat; assumption | auto].
  - eexists _, _, _. split; [apply srv_parse_key; assumption | auto].
  - destruct F as (A & B). eexists _, _, _. split; [apply srv_parse_keyexp; assumption | auto].
  - destruct F as (A & B). eexists _, _, _. split; [apply srv_parse_keyexp; assumption | auto].
Qed.

Lemma rd32_ext_f f ttl : f < two32 -> rd32 (u32be f ++ u32be ttl) = f.
Proof. unfold two32. intros H. apply rd32_u32be. exact H. Qed.
Lemma rd32_ext_t f ttl : ttl < two32 -> rd32 (drop 4 (u32be f ++ u32be ttl)) = ttl.
Proof.
  unfold two32. intros H. rewrite (drop_n_app 4 (u32be f) (u32be ttl)) by reflexivity.
  apply rd32_u32be'. exact H.
Qed.

Lemma decode_enoent : decode_error statusKeyEnoent = Some EKeyNotFound. Proof. reflexivity. Qed.

Theorem std_wire_single ebody s pl wl rl now q pf n :
  ebody_fits ebody -> single q -> hreq_fits q -> store_fits now s -> plan_fits pl ->
  pf n = head_fault pl ->
  exists rep,
    std_wire ebody (mkWC s pl [] [] false wl rl) now q =
    (mkWC (t_store (fst (exec1 pf (mkTS s false n) now q))) (tl pl) [] [] false (wl ++ std_frame q) (rl ++ rep),
     snd (exec1 pf (mkTS s false n) now q)) /\
    t_seen (fst (exec1 pf (mkTS s false n) now q)) = S n /\ t_dead (fst (exec1 pf (mkTS s false n) now q)) = false.
Proof.
  intros EB S F SF PF HP.
  destruct (srv_parse_std_frame q S F) as (op & ext & val & P & Q).
  unfold exec1. cbn [t_dead t_seen t_store]. rewrite HP.
  destruct (plan_head_cases pl PF) as [[NF HF] | (st & body & e & FA & HF & Hst & DE & HB)]; rewrite HF.
  - (* no fault *)
    destruct q; cbn [single] in S; try contradiction; cbn [hreq_fits] in F; cbn [hreq_key] in P;
      cbn [std_wire]; rewrite (w_send_one ebody s pl wl rl now _ _ P).
    + (* set *)
      destruct Q as (-> & -> & ->). destruct F as (A & B & Cc & D).
      rewrite (srv_exec_clean ebody s now _ _ _ _ _ (KSet m) NF (srv_opkind_set m)).
      cbn [srv_apply sf_key sf_val sf_ext]. rewrite rd32_ext_f, rd32_ext_t by assumption.
      cbn [std_exec]. pose proof (b_set_status m s now k d f ttl) as NS.
      destruct (b_set m s now k d f ttl) as [s' st]. cbn [snd] in NS. cbn [fst snd t_store t_seen t_dead].
      apply nat_status_known in NS. destruct NS as [N1 N2]. rewrite srv_status_frame.
      eexists. rewrite (w_set_common_status ebody EB s' (tl pl) [] (wl ++ _) (rl ++ _) _ _ st N1 N2).
      split; [reflexivity | split; reflexivity].
    + (* append / prepend *)
      destruct Q as (-> & -> & ->). destruct F as (A & B).
      rewrite (srv_exec_clean ebody s now _ _ _ _ _ (KCat front) NF (srv_opkind_cat front)).
      cbn [srv_apply sf_key sf_val sf_ext].
      cbn [std_exec]. pose proof (b_cat_status front s now k d) as NS.
      destruct (b_cat front s now k d) as [s' st]. cbn [snd] in NS. cbn [fst snd t_store t_seen t_dead].
      apply nat_status_known in NS. destruct NS as [N1 N2]. rewrite srv_status_frame.
      eexists. rewrite (w_set_common_status ebody EB s' (tl pl) [] (wl ++ _) (rl ++ _) _ _ st N1 N2).
      split; [reflexivity | split; reflexivity].
    + (* delete *)
      destruct Q as (-> & -> & ->).
      rewrite (srv_exec_clean ebody s now _ opDelete _ _ _ KDelete NF eq_refl).
      cbn [srv_apply sf_key sf_val sf_ext].
      cbn [std_exec]. pose proof (b_delete_status s now k) as NS.
      destruct (b_delete s now k) as [s' st]. cbn [snd] in NS. cbn [fst snd t_store t_seen t_dead].
      apply nat_status_known in NS. destruct NS as [N1 N2]. rewrite srv_status_frame.
      eexists. rewrite (w_simple_status ebody EB s' (tl pl) [] (wl ++ _) (rl ++ _) _ _ st N1).
      split; [reflexivity | split; reflexivity].
    + (* touch *)
      destruct Q as (-> & -> & ->). destruct F as (A & B).
      rewrite (srv_exec_clean ebody s now _ opTouch _ _ _ KTouch NF eq_refl).
      cbn [srv_apply sf_key sf_val sf_ext]. rewrite rd32_u32be' by (unfold two32 in B; exact B).
      cbn [std_exec]. unfold gb_touch. destruct (live now s k) as [en|] eqn:L; cbn [fst snd t_store t_seen t_dead].
      * unfold srv_ok. cbn [sf_op sf_opaque]. eexists.
        rewrite w_simple_resp; [split; [reflexivity | split; reflexivity] | reflexivity | reflexivity | reflexivity].
      * unfold srv_err. cbn [sf_op sf_opaque]. eexists.
        rewrite w_simple_resp; [split; [reflexivity | split; reflexivity] | reflexivity | | reflexivity].
        change (len (@nil N)) with 0. pose proof (EB statusKeyEnoent). lia.
    + (* gat *)
      destruct Q as (-> & -> & ->). destruct F as (A & B).
      rewrite (srv_exec_clean ebody s now _ opGat _ _ _ (KGat false) NF eq_refl).
      cbn [srv_apply sf_key sf_val sf_ext]. rewrite rd32_u32be' by (unfold two32 in B; exact B).
      cbn [std_exec]. unfold gb_gat, gb_touch.
      destruct (live now s k) as [en|] eqn:L; cbn [fst snd t_store t_seen t_dead]; unfold w_gat.
      * destruct (SF k en L) as (F1 & F2 & F3).
        unfold srv_ok. cbn [sf_op sf_opaque]. eexists.
        rewrite w_get_local_hit; [split; [reflexivity | split; reflexivity] | assumption | unfold two32 in *; lia | reflexivity].
      * unfold srv_err. cbn [sf_op sf_opaque]. eexists.
        rewrite (w_get_local_err s (tl pl) [] (wl ++ _) (rl ++ _) false _ _ _ _ _ EKeyNotFound);
          [split; [reflexivity | split; reflexivity] | reflexivity | apply EB | reflexivity | reflexivity].
  - (* injected status *)
    assert (exists o, std_wire ebody (mkWC s pl [] [] false wl rl) now q =
              match q with
              | HSet _ _ _ _ _ | HCat _ _ _ => w_set_common o
              | HDelete _ | HTouch _ _ => w_simple o
              | HGat k _ opq => w_gat o k opq
              | _ => (o, HPanic)
              end /\
              o = mkWC (status_store s st (hreq_key q)) (tl pl) []
                       (resp_frame op st 0 (se_cas (hd senv0 pl)) [] body) false (wl ++ std_frame q)
                       (rl ++ resp_frame op st 0 (se_cas (hd senv0 pl)) [] body)) as (o & E & ->).
    { eexists. split; [|reflexivity].
      destruct q; cbn [single] in S; try contradiction; cbn [std_wire];
        rewrite (w_send_one ebody s pl wl rl now _ _ P), (srv_exec_fault ebody s now _ _ _ _ _ st body FA); reflexivity. }
    rewrite E. rewrite DE. cbn [fst snd t_store t_seen t_dead].
    destruct q; cbn [single] in S; try contradiction; eexists.
    + rewrite (w_set_common_err _ _ _ _ _ _ _ _ _ _ e); [split; [reflexivity | split; reflexivity] | assumption | assumption | reflexivity | assumption].
    + rewrite (w_set_common_err _ _ _ _ _ _ _ _ _ _ e); [split; [reflexivity | split; reflexivity] | assumption | assumption | reflexivity | assumption].
    + rewrite w_simple_resp; [unfold st_to_hres; rewrite DE; split; [reflexivity | split; reflexivity] | assumption | | reflexivity].
      change (len (@nil N)) with 0. lia.
    + rewrite w_simple_resp; [unfold st_to_hres; rewrite DE; split; [reflexivity | split; reflexivity] | assumption | | reflexivity].
      change (len (@nil N)) with 0. lia.
    + unfold w_gat. rewrite (w_get_local_err _ _ _ _ _ false _ _ _ _ _ e); [|assumption | assumption | reflexivity | assumption].
      destruct (e =? EKeyNotFound); split; try reflexivity; split; reflexivity.
Qed.

(* ---------------- multi-key get / gete: one round trip per key ---------------- *)
Lemma plan_fn_0 pl : plan_fn pl 0 = head_fault pl.
Proof. destruct pl; reflexivity. Qed.
Lemma plan_fn_S pl i : plan_fn pl (S i) = plan_fn (tl pl) i.
Proof. destruct pl; [destruct i|]; reflexivity. Qed.
Lemma skipn_S_tl {A} m (l : list A) : skipn (S m) l = skipn m (tl l).
Proof. destruct l; [cbn [tl]; rewrite !skipn_nil|]; reflexivity. Qed.

Lemma srv_parse_get_frame gete it : len (gi_key it) < 65536 ->
  srv_parse (get_frame gete it) = Some (mkSF (get_opcode gete) 0 0 [] (gi_key it) [], []).
Proof. apply srv_parse_key. Qed.

Theorem w_get_refines ebody gete now : ebody_fits ebody ->
  forall items s pl wl rl acc pf n,
  Forall (fun it => len (gi_key it) < 65536) items -> store_fits now s -> plan_fits pl ->
  (forall i, pf (n + i)%nat = plan_fn pl i) ->
  exists m rep,
    w_get ebody gete (mkWC s pl [] [] false wl rl) now items acc =
    (mkWC (t_store (fst (exec_get pf gete (mkTS s false n) now items acc))) (skipn m pl) [] [] false
          (wl ++ concat (map (get_frame gete) (firstn m items))) (rl ++ rep),
     snd (exec_get pf gete (mkTS s false n) now items acc)) /\
    t_seen (fst (exec_get pf gete (mkTS s false n) now items acc)) = (n + m)%nat /\
    t_dead (fst (exec_get pf gete (mkTS s false n) now items acc)) = false /\
    (m <= length items)%nat /\
    (forall rs, snd (exec_get pf gete (mkTS s false n) now items acc) = HRes (HVals rs None) -> m = length items).
Proof.
  intros EB. induction items as [|it rest IH]; intros s pl wl rl acc pf n KF SF PF HP.
  - exists 0%nat, []. cbn [w_get exec_get fst snd t_store t_seen t_dead skipn firstn map concat length].
    rewrite !app_nil_r, Nat.add_0_r. repeat split; auto.
  - inversion KF as [|? ? K1 KR]; subst.
    pose proof (HP 0%nat) as H0. rewrite Nat.add_0_r, plan_fn_0 in H0.
    assert (forall i, pf (S n + i)%nat = plan_fn (tl pl) i) as HP'.
    { intros i. rewrite <- plan_fn_S, <- HP. f_equal. lia. }
    cbn [w_get exec_get t_dead t_seen t_store].
    rewrite (w_send_one ebody s pl wl rl now _ _ (srv_parse_get_frame gete it K1)).
    rewrite H0.
    destruct (plan_head_cases pl PF) as [[NF HF] | (st & body & e & FA & HF & Hst & DE & HB)]; rewrite HF.
    + (* no fault *)
      rewrite (srv_exec_clean ebody s now _ _ _ _ _ (KGet false gete) NF (srv_opkind_get gete)).
      cbn [srv_apply sf_key]. unfold std_get1, gb_get.
      destruct (live now s (gi_key it)) as [en|] eqn:L; cbn [fst snd].
      * destruct (SF _ en L) as (F1 & F2 & F3).
        unfold srv_ok. cbn [sf_op sf_opaque].
        assert (w_get_local gete
                  (mkWC s (tl pl) [] (resp_frame (get_opcode gete) statusSuccess 0 (se_cas (hd senv0 pl))
                           (u32be (e_flags en) ++ (if gete then u32be (remaining now (e_dl en)) else [])) (e_data en))
                        false (wl ++ get_frame gete it)
                        (rl ++ resp_frame (get_opcode gete) statusSuccess 0 (se_cas (hd senv0 pl))
                           (u32be (e_flags en) ++ (if gete then u32be (remaining now (e_dl en)) else [])) (e_data en)))
                = (mkWC s (tl pl) [] [] false (wl ++ get_frame gete it)
                        (rl ++ resp_frame (get_opcode gete) statusSuccess 0 (se_cas (hd senv0 pl))
                           (u32be (e_flags en) ++ (if gete then u32be (remaining now (e_dl en)) else [])) (e_data en)),
                   inl (e_data en, e_flags en, if gete then remaining now (e_dl en) else 0))) as G.
        { destruct gete.
          - apply w_get_local_hit_e; [assumption | assumption | assumption | reflexivity].
          - rewrite app_nil_r. apply w_get_local_hit; [assumption | unfold two32 in *; lia | reflexivity]. }
        rewrite G.
        destruct (IH s (tl pl) (wl ++ get_frame gete it)
                     (rl ++ resp_frame (get_opcode gete) statusSuccess 0 (se_cas (hd senv0 pl))
                           (u32be (e_flags en) ++ (if gete then u32be (remaining now (e_dl en)) else [])) (e_data en))
                     (hit_res it en (if gete then remaining now (e_dl en) else 0) :: acc) pf (S n) KR SF
                     (plan_fits_tl pl PF) HP') as (m & rep & E & TS & TD & ML & MN).
        exists (S m). eexists. unfold hit_res in *. rewrite E.
        rewrite skipn_S_tl. cbn [firstn map concat length]. rewrite <- !app_assoc.
        split; [reflexivity|]. split; [rewrite TS; lia|]. split; [exact TD|]. split; [lia|].
        intros rs R. f_equal. eapply MN. exact R.
      * unfold srv_err. cbn [sf_op sf_opaque].
        rewrite (w_get_local_err s (tl pl) [] (wl ++ _) (rl ++ _) gete _ _ _ _ _ EKeyNotFound);
          [| reflexivity | apply EB | reflexivity | reflexivity].
        change (EKeyNotFound =? EKeyNotFound) with true. cbv iota.
        destruct (IH s (tl pl) (wl ++ get_frame gete it)
                     (rl ++ resp_frame (get_opcode gete) statusKeyEnoent 0 (se_cas (hd senv0 pl)) [] (ebody statusKeyEnoent))
                     (miss_res it :: acc) pf (S n) KR SF (plan_fits_tl pl PF) HP') as (m & rep & E & TS & TD & ML & MN).
        exists (S m). eexists. rewrite E.
        rewrite skipn_S_tl. cbn [firstn map concat length]. rewrite <- !app_assoc.
        split; [reflexivity|]. split; [rewrite TS; lia|]. split; [exact TD|]. split; [lia|].
        intros rs R. f_equal. eapply MN. exact R.
    + (* injected status *)
      rewrite (srv_exec_fault ebody s now _ _ _ _ _ st body FA). cbn [fst snd].
      rewrite (w_get_local_err _ _ _ _ _ gete _ _ _ _ _ e); [|assumption | assumption | reflexivity | assumption].
      rewrite DE. destruct (e =? EKeyNotFound) eqn:EK.
      * destruct (IH (status_store s st (gi_key it)) (tl pl) (wl ++ get_frame gete it)
                     (rl ++ resp_frame (get_opcode gete) st 0 (se_cas (hd senv0 pl)) [] body)
                     (miss_res it :: acc) pf (S n) KR (store_fits_status now s st _ SF) (plan_fits_tl pl PF) HP')
          as (m & rep & E & TS & TD & ML & MN).
        exists (S m). eexists. rewrite E.
        rewrite skipn_S_tl. cbn [firstn map concat length]. rewrite <- !app_assoc.
        split; [reflexivity|]. split; [rewrite TS; lia|]. split; [exact TD|]. split; [lia|].
        intros rs R. f_equal. eapply MN. exact R.
      * exists 1%nat. eexists. cbn [fst snd t_store t_seen t_dead firstn map concat length skipn].
        rewrite app_nil_r.
        split; [destruct pl; reflexivity|]. split; [lia|]. split; [reflexivity|]. split; [lia|].
        intros rs R. discriminate R.
Qed.

(* ---------------- any call, from any synchronised connection ---------------- *)
Lemma skipn_add {A} n : forall m (l : list A), skipn m (skipn n l) = skipn (n + m) l.
Proof.
  induction n as [|n IH]; intros m l; [reflexivity|].
  destruct l; [rewrite !skipn_nil; reflexivity | cbn [skipn Nat.add]; apply IH].
Qed.
Lemma nth_error_skipn {A} n : forall i (l : list A), nth_error (skipn n l) i = nth_error l (n + i).
Proof.
  induction n as [|n IH]; intros i l; [reflexivity|].
  destruct l; [destruct i; reflexivity | cbn [skipn Nat.add nth_error]; apply IH].
Qed.
Lemma plan_fn_skipn pl n i : plan_fn (skipn n pl) i = plan_fn pl (n + i).
Proof. unfold plan_fn. rewrite nth_error_skipn. reflexivity. Qed.
Lemma plan_fits_skipn pl n : plan_fits pl -> plan_fits (skipn n pl).
Proof.
  unfold plan_fits. rewrite !Forall_forall. intros F x I. apply F.
  rewrite <- (firstn_skipn n pl). apply in_or_app. right. exact I.
Qed.

Theorem std_wire_call ebody s pl wl rl now q pf n :
  ebody_fits ebody -> hreq_fits q -> store_fits now s -> plan_fits pl ->
  (forall i, pf (n + i)%nat = plan_fn pl i) ->
  exists m rep,
    std_wire ebody (mkWC s pl [] [] false wl rl) now q =
    (mkWC (t_store (fst (exec_f pf (mkTS s false n) now q))) (skipn m pl) [] [] false
          (wl ++ concat (firstn m (std_frames q))) (rl ++ rep),
     snd (exec_f pf (mkTS s false n) now q)) /\
    t_seen (fst (exec_f pf (mkTS s false n) now q)) = (n + m)%nat /\
    t_dead (fst (exec_f pf (mkTS s false n) now q)) = false /\
    (m <= length (std_frames q))%nat /\
    (match snd (exec_f pf (mkTS s false n) now q) with
     | HRes (HVals _ (Some _)) => True
     | _ => m = length (std_frames q)
     end).
Proof.
  intros EB F SF PF HP.
  assert (pf n = head_fault pl) as H0 by (rewrite <- plan_fn_0, <- HP; f_equal; lia).
  assert (single q ->
            exists m rep,
    std_wire ebody (mkWC s pl [] [] false wl rl) now q =
    (mkWC (t_store (fst (exec1 pf (mkTS s false n) now q))) (skipn m pl) [] [] false
          (wl ++ concat (firstn m (std_frames q))) (rl ++ rep),
     snd (exec1 pf (mkTS s false n) now q)) /\
    t_seen (fst (exec1 pf (mkTS s false n) now q)) = (n + m)%nat /\
    t_dead (fst (exec1 pf (mkTS s false n) now q)) = false /\
    (m <= length (std_frames q))%nat /\ m = length (std_frames q)) as SG.
  { intros S.
    destruct (std_wire_single ebody s pl wl rl now q pf n EB S F SF PF H0) as (rep & E & TS & TD).
    exists 1%nat, rep. rewrite E.
    assert (std_frames q = [std_frame q]) as -> by (destruct q; cbn [single] in S; try contradiction; reflexivity).
    cbn [firstn concat length]. rewrite app_nil_r.
    split; [destruct pl; reflexivity|]. split; [rewrite TS; lia|]. split; [exact TD|]. split; [lia | reflexivity]. }
  destruct q as [m0 k d f ttl|fr k d|k|k ttl|items|items|k ttl opq]; cbn [exec_f];
    try (destruct (SG I) as (m & rep & E & TS & TD & ML & MN); exists m, rep;
         repeat split; try assumption;
         match goal with |- match ?x with _ => _ end => destruct x as [[| |? [|]]|]; auto end).
  - (* get *)
    destruct (w_get_refines ebody false now EB items s pl wl rl [] pf n F SF PF HP) as (m & rep & E & TS & TD & ML & MN).
    exists m, rep. cbn [std_wire std_frames]. rewrite firstn_map, map_length.
    repeat split; try assumption.
    destruct (snd (exec_get pf false (mkTS s false n) now items [])) as [[| |rs [e|]]|] eqn:R;
      auto; try (eapply MN; reflexivity); exfalso.
    all: pose proof (exec_get_ok pf false now items (mkTS s false n) [] _ _ (surjective_pairing _)) as (rs' & e' & X & _);
      rewrite R in X; discriminate X.
  - (* gete *)
    destruct (w_get_refines ebody true now EB items s pl wl rl [] pf n F SF PF HP) as (m & rep & E & TS & TD & ML & MN).
    exists m, rep. cbn [std_wire std_frames]. rewrite firstn_map, map_length.
    repeat split; try assumption.
    destruct (snd (exec_get pf true (mkTS s false n) now items [])) as [[| |rs [e|]]|] eqn:R;
      auto; try (eapply MN; reflexivity); exfalso.
    all: pose proof (exec_get_ok pf true now items (mkTS s false n) [] _ _ (surjective_pairing _)) as (rs' & e' & X & _);
      rewrite R in X; discriminate X.
Qed.

(* ---------------- without faults the abstract model is Std.v ---------------- *)
Lemma plan_fn_clean pl : plan_clean pl -> forall i, plan_fn pl i = None.
Proof.
  intros Cl i. unfold plan_fn. destruct (nth_error pl i) as [e|] eqn:E; [|reflexivity].
  apply nth_error_In in E. unfold plan_clean in Cl. rewrite Forall_forall in Cl.
  unfold senv_fault. rewrite (Cl e E). reflexivity.
Qed.
Lemma plan_clean_fits pl : plan_clean pl -> plan_fits pl.
Proof.
  unfold plan_clean, plan_fits. rewrite !Forall_forall. intros Cl e I. unfold senv_fits. rewrite (Cl e I). exact Logic.I.
Qed.

Lemma exec_get_clean pf gete s now : (forall i, pf i = None) ->
  forall items acc n,
  exec_get pf gete (mkTS s false n) now items acc =
  (mkTS s false (n + length items), HRes (HVals (rev acc ++ map (std_get1 s now gete) items) None)).
Proof.
  intros Cl. induction items as [|it rest IH]; intros acc n; cbn [exec_get t_dead t_seen t_store length map].
  - rewrite app_nil_r, Nat.add_0_r. reflexivity.
  - rewrite Cl, IH. cbn [rev]. rewrite <- app_assoc. cbn [app]. do 2 f_equal. lia.
Qed.

Lemma exec_f_clean pf s now q n : (forall i, pf i = None) ->
  exists n', exec_f pf (mkTS s false n) now q = (mkTS (fst (std_exec s now q)) false n', HRes (snd (std_exec s now q))).
Proof.
  intros Cl.
  assert (exists n', exec1 pf (mkTS s false n) now q = (mkTS (fst (std_exec s now q)) false n', HRes (snd (std_exec s now q)))) as E1.
  { unfold exec1. cbn [t_dead t_seen t_store]. rewrite Cl. destruct (std_exec s now q). eexists. reflexivity. }
  destruct q; cbn [exec_f]; try exact E1; rewrite exec_get_clean by assumption; eexists; reflexivity.
Qed.

(* ---------------- the statements of props/C01wire.v ---------------- *)
Theorem std_wire_refines_faults ebody s now q pl :
  ebody_fits ebody -> hreq_fits q -> store_fits now s -> plan_fits pl ->
  forall c' o, std_wire ebody (conn0 s pl) now q = (c', o) ->
  o = snd (exec_f (plan_fn pl) (mkTS s false 0) now q) /\
  wc_store c' = t_store (fst (exec_f (plan_fn pl) (mkTS s false 0) now q)) /\
  wc_plan c' = skipn (t_seen (fst (exec_f (plan_fn pl) (mkTS s false 0) now q))) pl.
Proof.
  intros EB F SF PF c' o E.
  destruct (std_wire_call ebody s pl [] [] now q (plan_fn pl) 0 EB F SF PF (fun i => eq_refl))
    as (m & rep & E' & TS & _).
  unfold conn0 in E. rewrite E' in E. inversion E; subst. cbn [wc_store wc_plan]. rewrite TS.
  repeat split; reflexivity.
Qed.

Theorem std_wire_in_sync ebody s now q pl :
  ebody_fits ebody -> hreq_fits q -> store_fits now s -> plan_fits pl ->
  forall c' o, std_wire ebody (conn0 s pl) now q = (c', o) ->
  in_sync c' /\
  exists m, (m <= length (std_frames q))%nat /\ wc_wlog c' = concat (firstn m (std_frames q)) /\
            (match o with HRes (HVals _ (Some _)) => True | _ => m = length (std_frames q) end).
Proof.
  intros EB F SF PF c' o E.
  destruct (std_wire_call ebody s pl [] [] now q (plan_fn pl) 0 EB F SF PF (fun i => eq_refl))
    as (m & rep & E' & TS & TD & ML & MN).
  unfold conn0 in E. rewrite E' in E. inversion E; subst.
  split; [repeat split|]. exists m. repeat split; assumption.
Qed.

Theorem std_wire_refines ebody s now q pl :
  ebody_fits ebody -> hreq_fits q -> store_fits now s -> plan_clean pl ->
  forall c' o, std_wire ebody (conn0 s pl) now q = (c', o) ->
  o = HRes (snd (std_exec s now q)) /\ wc_store c' = fst (std_exec s now q) /\ in_sync c' /\
  wc_wlog c' = concat (std_frames q).
Proof.
  intros EB F SF Cl c' o E.
  pose proof (plan_clean_fits pl Cl) as PF.
  destruct (std_wire_refines_faults ebody s now q pl EB F SF PF c' o E) as (R1 & R2 & _).
  destruct (std_wire_in_sync ebody s now q pl EB F SF PF c' o E) as (IS & m & ML & WL & MN).
  destruct (exec_f_clean (plan_fn pl) s now q 0 (plan_fn_clean pl Cl)) as (n' & X).
  rewrite X in R1, R2. cbn [fst snd t_store] in R1, R2. subst o.
  repeat split; try assumption; try apply IS.
  rewrite WL. destruct (snd (std_exec s now q)) as [| |rs [e|]] eqn:R.
  1-2,4: rewrite MN; apply f_equal, firstn_all.
  (* a healthy backend never ends a get with an error *)
  exfalso. destruct q; cbn [std_exec] in R;
    repeat match goal with R : snd (let '(_, _) := ?x in _) = _ |- _ => destruct x end;
    cbn [snd] in R; try discriminate R; unfold st_to_hres in R;
    try (match type of R with match ?d with _ => _ end = _ => destruct d end; discriminate R).
Qed.

(* ---------------- histories ---------------- *)
Theorem std_wire_history_faults ebody : ebody_fits ebody ->
  forall h s pl0 wl rl n,
  plan_fits pl0 -> hist_fits (plan_fn pl0) (mkTS s false n) h ->
  exists wl' rl',
    wire_run ebody (mkWC s (skipn n pl0) [] [] false wl rl) h =
    (mkWC (t_store (fst (std_run_f (plan_fn pl0) (mkTS s false n) h)))
          (skipn (t_seen (fst (std_run_f (plan_fn pl0) (mkTS s false n) h))) pl0) [] [] false wl' rl',
     snd (std_run_f (plan_fn pl0) (mkTS s false n) h)).
Proof.
  intros EB. induction h as [|[now q] r IH]; intros s pl0 wl rl n PF HF.
  - exists wl, rl. reflexivity.
  - cbn [hist_fits t_store] in HF. destruct HF as (F & SF & HR).
    destruct (std_wire_call ebody s (skipn n pl0) wl rl now q (plan_fn pl0) n EB F SF (plan_fits_skipn pl0 n PF)
                (fun i => eq_sym (plan_fn_skipn pl0 n i))) as (m & rep & E & TS & TD & _).
    cbn [wire_run std_run_f]. rewrite E.
    destruct (exec_f (plan_fn pl0) (mkTS s false n) now q) as [[s1 d1 n1] o]. cbn [fst snd t_store t_seen t_dead] in *.
    subst d1 n1. rewrite skipn_add.
    destruct (IH s1 pl0 (wl ++ concat (firstn m (std_frames q))) (rl ++ rep) (n + m)%nat PF HR) as (wl' & rl' & E2).
    rewrite E2. destruct (std_run_f (plan_fn pl0) (mkTS s1 false (n + m)) r) as [ts2 os]. cbn [fst snd].
    exists wl', rl'. reflexivity.
Qed.

Lemma std_run_f_clean pf : (forall i, pf i = None) -> forall h s n,
  exists n', std_run_f pf (mkTS s false n) h = (mkTS (fst (std_run s h)) false n', map HRes (snd (std_run s h))).
Proof.
  intros Cl. induction h as [|[now q] r IH]; intros s n; cbn [std_run_f std_run].
  - eexists. reflexivity.
  - destruct (exec_f_clean pf s now q n Cl) as (n1 & X). rewrite X.
    destruct (std_exec s now q) as [s1 o1]. cbn [fst snd].
    destruct (IH s1 n1) as (n2 & Y). rewrite Y. destruct (std_run s1 r) as [s2 os]. cbn [fst snd map].
    eexists. reflexivity.
Qed.
Lemma hist_fits_clean pf : (forall i, pf i = None) -> forall h s n, hist_fits0 s h -> hist_fits pf (mkTS s false n) h.
Proof.
  intros Cl. induction h as [|[now q] r IH]; intros s n H; [exact Logic.I|].
  cbn [hist_fits0] in H. destruct H as (F & SF & HR). cbn [hist_fits t_store]. split; [exact F|]. split; [exact SF|].
  destruct (exec_f_clean pf s now q n Cl) as (n1 & X). rewrite X. cbn [fst]. apply IH. exact HR.
Qed.

Theorem std_wire_history ebody s pl h :
  ebody_fits ebody -> plan_clean pl -> hist_fits0 s h ->
  forall c' os, wire_run ebody (conn0 s pl) h = (c', os) ->
  os = map HRes (snd (std_run s h)) /\ wc_store c' = fst (std_run s h) /\ in_sync c'.
Proof.
  intros EB Cl HF c' os E.
  pose proof (plan_fn_clean pl Cl) as PC.
  destruct (std_wire_history_faults ebody EB h s pl [] [] 0 (plan_clean_fits pl Cl) (hist_fits_clean _ PC h s 0 HF))
    as (wl' & rl' & E').
  cbn [skipn] in E'. unfold conn0 in E. rewrite E' in E.
  destruct (std_run_f_clean _ PC h s 0) as (n' & X). rewrite X in E. cbn [fst snd t_store t_seen] in E.
  inversion E; subst. repeat split; reflexivity.
Qed.

(* ---------------- the frames written are well-formed requests ---------------- *)
Lemma key_okb_intro k : 1 <= len k -> len k < 65536 -> bytes_ok k -> key_okb k = true.
Proof.
  intros A B Cc. unfold key_okb. apply bytes_okb_ok in Cc. rewrite Cc.
  destruct (1 <=? len k) eqn:E1; [|lia]. destruct (len k <? 65536) eqn:E2; [|lia]. reflexivity.
Qed.
Lemma u32b_intro x : x < two32 -> u32b x = true.
Proof. unfold two32, u32b. intros H. destruct (x <? 4294967296) eqn:E; [reflexivity | lia]. Qed.

Lemma std_frame_enc_bin q : single q -> hreq_fits q ->
  match std_reqs q with [r] => std_frame q = enc_bin r | _ => False end.
Proof.
  intros S F. destruct q; cbn [single] in S; try contradiction; cbn [hreq_fits] in F; cbn [std_reqs std_frame enc_bin].
  - destruct F as (A & B & Cc & D). unfold w_data_cmd. rewrite dsize32_small by (unfold two32 in *; lia).
    rewrite <- !app_assoc. replace (len k + 8 + len d) with (8 + len k + len d) by lia. reflexivity.
  - destruct F as (A & B). unfold w_cat_cmd. rewrite dsize32_small by (unfold two32 in *; lia).
    rewrite <- !app_assoc. reflexivity.
  - reflexivity.
  - unfold w_keyexp_cmd. rewrite <- ?app_assoc. replace (len k + 4) with (4 + len k) by lia. reflexivity.
  - unfold w_keyexp_cmd. rewrite <- ?app_assoc. replace (len k + 4) with (4 + len k) by lia. reflexivity.
Qed.

Lemma get_frame_enc_bin gete it :
  get_frame gete it = enc_bin (if gete then RGetE [mkGI (gi_key it) 0 false] 0 false else RGet [mkGI (gi_key it) 0 false] 0 false).
Proof.
  destruct gete; cbn [enc_bin]; unfold enc_get, enc_get_item, get_frame, w_key_cmd, get_opcode;
    cbn [map concat gi_quiet gi_key gi_opaque]; rewrite !app_nil_r; reflexivity.
Qed.

Lemma frame_decodes_intro fb r fr :
  fb = enc_bin r -> wf_bin r = true -> srv_parse fb = Some (fr, []) -> sf_cas fr = 0 -> sf_opaque fr = 0 ->
  frame_decodes fb r.
Proof.
  intros -> W P Cz Oz. split; [intros rest; apply bin_roundtrip; exact W|]. exists fr. repeat split; assumption.
Qed.

Theorem std_wire_frames_wellformed q :
  hreq_fits q -> hreq_wf q -> Forall2 frame_decodes (std_frames q) (std_reqs q).
Proof.
  intros F W.
  assert (single q -> Forall2 frame_decodes (std_frames q) (std_reqs q)) as SG.
  { intros S. pose proof (std_frame_enc_bin q S F) as E.
    destruct (srv_parse_std_frame q S F) as (op & ext & val & P & _).
    destruct q; cbn [single] in S; try contradiction; cbn [std_reqs std_frames] in *;
      cbn [hreq_fits] in F; cbn [hreq_wf] in W; (apply Forall2_cons; [|apply Forall2_nil]);
      (eapply frame_decodes_intro; [exact E | | exact P | reflexivity | reflexivity]); cbn [wf_bin].
    - destruct F as (A & B & Cc & D). destruct W as (W1 & W2 & W3).
      rewrite key_okb_intro, !u32b_intro by (try assumption; reflexivity).
      apply bytes_okb_ok in W3. rewrite W3. cbn [andb].
      unfold two32 in D. destruct (8 + len k + len d <? 4294967296) eqn:G; [reflexivity | lia].
    - destruct F as (A & B). destruct W as (W1 & W2 & W3).
      rewrite key_okb_intro, !u32b_intro by (try assumption; reflexivity).
      apply bytes_okb_ok in W3. rewrite W3. cbn [andb].
      unfold two32 in B. destruct (len k + len d <? 4294967296) eqn:G; [reflexivity | lia].
    - destruct W as (W1 & W2). rewrite key_okb_intro, !u32b_intro by (try assumption; reflexivity). reflexivity.
    - destruct F as (A & B). destruct W as (W1 & W2).
      rewrite key_okb_intro, !u32b_intro by (try assumption; reflexivity). reflexivity.
    - destruct F as (A & B). destruct W as (W1 & W2).
      rewrite key_okb_intro, !u32b_intro by (try assumption; reflexivity). reflexivity. }
  assert (forall gete items,
            Forall (fun it => len (gi_key it) < 65536) items ->
            Forall (fun it => 1 <= len (gi_key it) /\ bytes_ok (gi_key it)) items ->
            Forall2 frame_decodes (map (get_frame gete) items)
                    (map (fun it => if gete then RGetE [mkGI (gi_key it) 0 false] 0 false
                                    else RGet [mkGI (gi_key it) 0 false] 0 false) items)) as GG.
  { intros gete. induction items as [|it rest IH]; intros F' W'; cbn [map]; constructor.
    - inversion F'; inversion W' as [|? ? [W1 W2]]; subst.
      eapply frame_decodes_intro;
        [apply get_frame_enc_bin | | apply srv_parse_get_frame; assumption | reflexivity | reflexivity].
      destruct gete; cbn [wf_bin]; unfold get_okb; cbn [batch_okb gi_key gi_opaque gi_quiet];
        rewrite key_okb_intro by assumption; reflexivity.
    - inversion F'; inversion W'; subst. apply IH; assumption. }
  destruct q; try (apply SG; exact I).
  - cbn [std_frames std_reqs]. apply (GG false); assumption.
  - cbn [std_frames std_reqs]. apply (GG true); assumption.
Qed.

(* ---------------- helpers for concrete instances ---------------- *)
Lemma store_fits_empty now : store_fits now empty_store.
Proof. intros k e L. discriminate L. Qed.
Lemma store_fits_upd now s k e : store_fits now s -> entry_fits now e -> store_fits now (upd s k (Some e)).
Proof.
  intros F Fe k' e' L. unfold live, upd in L. destruct (bytes_eqb k' k).
  - destruct (alive now e); [inversion L; subst; exact Fe | discriminate L].
  - apply (F k' e'). exact L.
Qed.
