(* ChunkSemLemmas.v — program equivalence for bprog relative to a predicate on replies, lifting of the model's
   programs into the outcome type of ChunkSem.v, and the rewriting rules for the connection primitives. *)
From Coq Require Import String.
From Rend Require Import base.Bytes gen.Consts_gen spec.MapSpec orca.Types orca.OrcaSem handlers.ChunkFmt
  handlers.Chunked handlers.ChunkSem.
Open Scope N_scope.
Open Scope list_scope.

(* replies of the right kind for the command: true of every reply [b_exec] gives *)
Definition shape_w (q : breq) (x : bres) : Prop :=
  match q with
  | QSet _ _ _ _ _ | QDelete _ | QTouch _ _ | QNoop => match x with BStatus _ => True | _ => False end
  | QGet _ | QGat _ _ => match x with
                         | BVal _ _ => True
                         | BStatus st => err_of_status st <> None
                         | BNone => False end
  | QGetQ _ | QGatQ _ _ => match x with BStatus _ => False | _ => True end
  end.
(* ... and, for the non-quiet get / gat (the handler sends them for metadata keys only), a value of
   exactly metadataSize bytes: the ASSUMPTION of ChunkSem.c_read_meta *)
Definition shape_ok (q : breq) (x : bres) : Prop :=
  shape_w q x /\
  match q, x with
  | (QGet _ | QGat _ _), BVal _ v => len v = metadataSize
  | _, _ => True
  end.

Inductive beq_on {A : Type} (P : breq -> bres -> Prop) : bprog A -> bprog A -> Prop :=
| BeRet a : beq_on P (BRet a) (BRet a)
| BeReq q k1 k2 : (forall x, P q x -> beq_on P (k1 x) (k2 x)) -> beq_on P (BReq q k1) (BReq q k2).

Lemma beq_on_mono {A} (P Q : breq -> bres -> Prop) (p1 p2 : bprog A) :
  (forall q x, Q q x -> P q x) -> beq_on P p1 p2 -> beq_on Q p1 p2.
Proof. intros H E. induction E; constructor; auto. Qed.

Lemma b_exec_shape_w s now q : shape_w q (snd (b_exec s now q)).
Proof.
  destruct q; cbn [b_exec shape_w].
  - destruct (b_get s now k); cbn; [exact I | vm_compute; discriminate].
  - destruct (b_get s now k); cbn; exact I.
  - destruct (b_gat s now k ttl) as [s' [e|]]; cbn; [exact I | vm_compute; discriminate].
  - destruct (b_gat s now k ttl) as [s' [e|]]; cbn; exact I.
  - destruct (b_set m s now k v f ttl); cbn; exact I.
  - destruct (b_delete s now k); cbn; exact I.
  - destruct (b_touch s now k ttl); cbn; exact I.
  - exact I.
Qed.

Lemma beq_on_brun {A} (p1 p2 : bprog A) : beq_on shape_w p1 p2 -> forall s now, brun p1 s now = brun p2 s now.
Proof.
  intros E. induction E as [a | q k1 k2 H IH]; intros s now; [reflexivity|].
  cbn [brun]. pose proof (b_exec_shape_w s now q) as Hs. destruct (b_exec s now q) as [s' r]. apply IH, Hs.
Qed.
Lemma beq_on_btrace {A} (p1 p2 : bprog A) : beq_on shape_w p1 p2 -> forall s now, btrace p1 s now = btrace p2 s now.
Proof.
  intros E. induction E as [a | q k1 k2 H IH]; intros s now; [reflexivity|].
  cbn [btrace]. pose proof (b_exec_shape_w s now q) as Hs. destruct (b_exec s now q) as [s' r]. f_equal. apply IH, Hs.
Qed.

(* the model's program with the outcome type of the generated ones *)
Fixpoint blift (p : bprog hres) : cprog :=
  match p with BRet a => BRet (SVal a) | BReq q k => BReq q (fun x => blift (k x)) end.
Lemma brun_blift p : forall s now, brun (blift p) s now = (fst (brun p s now), SVal (snd (brun p s now))).
Proof.
  induction p as [a | q k IH]; intros s now; [reflexivity|].
  cbn [blift brun]. destruct (b_exec s now q) as [s' r]. apply IH.
Qed.
Lemma btrace_blift p : forall s now, btrace (blift p) s now = btrace p s now.
Proof.
  induction p as [a | q k IH]; intros s now; [reflexivity|].
  cbn [blift btrace]. destruct (b_exec s now q) as [s' r]. f_equal. apply IH.
Qed.

(* ---- rewriting rules ---- *)
Lemma c_cmd_0 buf sent body q K :
  c_cmd q 0 (mkCS buf None sent body) K = K None (mkCS (buf ++ [q]) None sent body).
Proof. reflexivity. Qed.
Lemma c_cmd_body buf sent body q need K : need <> 0 ->
  c_cmd q need (mkCS buf None sent body) K = K None (mkCS buf (Some (q, need)) sent body).
Proof. intros H. unfold c_cmd. cbn [cs_cur cs_buf cs_sent cs_body]. destruct (N.eqb_spec need 0); [contradiction|reflexivity]. Qed.
Lemma c_data_part buf sent body m k f t v need b K : len b < need ->
  c_data b (mkCS buf (Some (QSet m k f t v, need)) sent body) K =
  K (len b, None) (mkCS buf (Some (QSet m k f t (v ++ b), need - len b)) sent body).
Proof. intros H. unfold c_data. cbn [cs_cur cs_buf cs_sent cs_body]. destruct (N.ltb_spec (len b) need); [reflexivity|lia]. Qed.
Lemma c_data_fin buf sent body m k f t v need b K : len b = need ->
  c_data b (mkCS buf (Some (QSet m k f t v, need)) sent body) K =
  K (len b, None) (mkCS (buf ++ [QSet m k f t (v ++ b)]) None sent body).
Proof.
  intros H. unfold c_data. cbn [cs_cur cs_buf cs_sent cs_body]. destruct (N.ltb_spec (len b) need); [lia|].
  destruct (N.eqb_spec (len b) need); [reflexivity|contradiction].
Qed.
Lemma drop_all {A} (l : list A) : drop (len l) l = [].
Proof. unfold drop, len. rewrite Nat2N.id. apply skipn_all. Qed.
Lemma take_all {A} (l : list A) : take (len l) l = l.
Proof. unfold take, len. rewrite Nat2N.id. apply firstn_all. Qed.
Lemma c_discard_all buf cur sent body K :
  c_discard (len body) (mkCS buf cur sent body) K = K (len body, None) (mkCS buf cur sent []).
Proof. unfold c_discard. cbn [cs_cur cs_buf cs_sent cs_body]. rewrite N.leb_refl, drop_all. reflexivity. Qed.
Lemma c_discard_flags buf cur sent f v K :
  c_discard 4 (mkCS buf cur sent (u32be f ++ v)) K = K (4, None) (mkCS buf cur sent v).
Proof.
  unfold c_discard. cbn [cs_cur cs_buf cs_sent cs_body].
  assert (H : len (u32be f ++ v) = 4 + len v) by (rewrite len_app; unfold len at 1; rewrite u32be_len; reflexivity).
  rewrite H. destruct (N.leb_spec 4 (4 + len v)); [|lia].
  replace (drop 4 (u32be f ++ v)) with v; [reflexivity|].
  unfold drop. change (N.to_nat 4) with (length (u32be f)). rewrite skipn_app, skipn_all, Nat.sub_diag. reflexivity.
Qed.

(* index lists *)
Fixpoint nrange (i : N) (n : nat) : list N :=
  match n with O => [] | Datatypes.S n' => i :: nrange (i + 1) n' end.
Lemma nrange_seq n : forall a, nrange (N.of_nat a) n = map N.of_nat (seq a n).
Proof.
  induction n as [|n IH]; intros a; [reflexivity|]. cbn [nrange seq map]. f_equal.
  replace (N.of_nat a + 1) with (N.of_nat (Datatypes.S a)) by lia. apply IH.
Qed.
Lemma chunk_keys_nrange k n : chunk_keys k n = map (chunk_key k) (nrange 0 (N.to_nat n)).
Proof. unfold chunk_keys. change 0 with (N.of_nat 0). rewrite nrange_seq, map_map. reflexivity. Qed.

Lemma any_notfound_snoc rs x : any_notfound (rs ++ [x]) = any_notfound rs || any_notfound [x].
Proof. unfold any_notfound. rewrite existsb_app. reflexivity. Qed.
