(* StdWire.v — handlers/memcached/std at the level of the bytes on the backend connection.

   Three parts, definitions only:
   (a) the request frames the handler WRITES: protocol/binprot/commands.go (writeDataCmdCommon,
       writeAppendPrependCmdCommon, writeKeyCmd, writeKeyExptimeCmd) over headers.go
       (makeRequestHeader + writeRequestHeader = [enc_hdr] of proto/BinReq.v: the same layout the
       client side of rend parses, C07), followed by the value for the set family;
   (b) a small memcached SERVER at byte level (what the harness's fake implements): parse one
       request frame, apply the b_* operation of spec/MapSpec.v, answer with a reply frame the way
       memcached does (get hit: 4 bytes of flags extras + value; gete hit: flags + remaining
       lifetime; touch hit: 4 bytes of flags extras, no value; any failure: status + a text body;
       quiet misses: nothing; noop: empty success), or, under an injected fault, with a given
       status and body without applying the request;
   (c) the handler's reply CONSUMER, read call for read call: binprot.ReadResponseHeader
       (24 bytes, magic), binprot.DecodeError on the status (generated table), and how many body
       bytes each path reads or discards (handleSetCommon, simpleCmdLocal, GetLocal, the per-key
       loop of realHandleGet / realHandleGetE, GAT).

   The connection between the two is [wconn]: what the server has not yet parsed, what the
   handler has not yet read, and the log of both directions. A handler call is a function
   wconn -> wconn * hout. The std handler is NOT pipelined: one frame, Flush, one reply per key.

   Reads follow the Go calls on a stream that ends after what the server sent (a read that wants
   more than is there consumes the rest and fails; in the running system it would block: the
   connection is stuck). [wc_starved] records that this happened. *)
From Rend Require Import base.Bytes gen.Consts_gen spec.MapSpec orca.Types proto.Resp proto.ReqCommon
  proto.BinReq handlers.Std orca.Orcas orca.Faults.
Open Scope N_scope.

(* ------------------------------------------------------------------------------------------ *)
(* (a) request frames                                                                          *)
(* ------------------------------------------------------------------------------------------ *)
(* makeRequestHeader(opcode, keyLength, extraLength, totalBodyLength, opaque): the conversions
   uint16(keyLength) / uint32(totalBodyLength) are the truncations u16be / u32be perform.
   Every call in the std handler passes opaque 0; writeRequestHeader zeroes the CAS region. *)
Definition w_data_cmd (op : N) (k : bytes) (f ttl dsize : N) : bytes :=       (* writeDataCmdCommon *)
  enc_hdr op (len k) 8 (len k + 8 + dsize) 0 ++ u32be f ++ u32be ttl ++ k.
Definition w_cat_cmd (op : N) (k : bytes) (dsize : N) : bytes :=              (* writeAppendPrependCmdCommon *)
  enc_hdr op (len k) 0 (len k + dsize) 0 ++ k.
Definition w_key_cmd (op : N) (k : bytes) : bytes :=                          (* writeKeyCmd *)
  enc_hdr op (len k) 0 (len k) 0 ++ k.
Definition w_keyexp_cmd (op : N) (k : bytes) (ttl : N) : bytes :=             (* writeKeyExptimeCmd *)
  enc_hdr op (len k) 4 (len k + 4) 0 ++ u32be ttl ++ k.

(* uint32(len(cmd.Data)) *)
Definition dsize32 (d : bytes) : N := len d mod two32.

Definition get_opcode (withexp : bool) : N := if withexp then opGetE else opGet.

(* everything one handler call writes before its (first) Flush: Write*Cmd, then
   h.Rw.Write(cmd.Data) for the set family *)
Definition std_frame (q : hreq) : bytes :=
  match q with
  | HSet m k d f ttl => w_data_cmd (set_opcode m false) k f ttl (dsize32 d) ++ d
  | HCat fr k d => w_cat_cmd (cat_opcode fr false) k (dsize32 d) ++ d
  | HDelete k => w_key_cmd opDelete k
  | HTouch k ttl => w_keyexp_cmd opTouch k ttl
  | HGat k ttl _ => w_keyexp_cmd opGat k ttl
  | HGet _ | HGetE _ => []
  end.
Definition get_frame (withexp : bool) (it : gitem) : bytes := w_key_cmd (get_opcode withexp) (gi_key it).

(* all frames a call can write, in order (a multi-key get stops at the first error) *)
Definition std_frames (q : hreq) : list bytes :=
  match q with
  | HGet items => map (get_frame false) items
  | HGetE items => map (get_frame true) items
  | _ => [std_frame q]
  end.
(* the same requests in the vocabulary of the client-side decoder (C07): opaque 0, never quiet *)
Definition std_reqs (q : hreq) : list req :=
  match q with
  | HSet m k d f ttl => [RSet m k d f ttl 0 false]
  | HCat fr k d => [RCat fr k d 0 false]
  | HDelete k => [RDelete k 0]
  | HTouch k ttl => [RTouch k ttl 0]
  | HGat k ttl _ => [RGat k ttl 0]
  | HGet items => map (fun it => RGet [mkGI (gi_key it) 0 false] 0 false) items
  | HGetE items => map (fun it => RGetE [mkGI (gi_key it) 0 false] 0 false) items
  end.

(* ------------------------------------------------------------------------------------------ *)
(* (b) the server                                                                              *)
(* ------------------------------------------------------------------------------------------ *)
Record sframe := mkSF { sf_op : N; sf_opaque : N; sf_cas : N; sf_ext : bytes; sf_key : bytes; sf_val : bytes }.

Definition rd64 (l : bytes) : N := rd32 l * two32 + rd32 (drop 4 l).

(* one request frame: 24-byte header (request magic), then TotalBodyLength bytes split into
   extras / key / value. Anything else (short, bad magic, inconsistent lengths): no frame; the
   bytes stay where they are (the server keeps waiting, or closes). *)
Definition srv_parse (s : bytes) : option (sframe * bytes) :=
  match read_hdr s with
  | None => None
  | Some (h, s1) =>
      if h_total h <? h_klen h + h_elen h then None
      else match read_n s1 (h_total h) with
           | None => None
           | Some (body, s2) =>
               Some (mkSF (h_op h) (h_opaque h) (rd64 (drop 16 s))
                          (take (h_elen h) body)
                          (take (h_klen h) (drop (h_elen h) body))
                          (drop (h_elen h + h_klen h) body), s2)
           end
  end.

(* reply header as memcached writes it: key length 0, extras length, status, total body,
   opaque echoed, the item's CAS *)
Definition resp_hdr (op st opaque cas elen total : N) : bytes :=
  [magicResponse; op; 0; 0; elen; 0] ++ u16be st ++ u32be total ++ u32be opaque ++ u64be cas.
Definition resp_frame (op st opaque cas : N) (ext val : bytes) : bytes :=
  resp_hdr op st opaque cas (len ext) (len ext + len val) ++ ext ++ val.

(* What the server is free to choose for one request: an injected fault (answer with this
   status and this body, do not apply the request) and the CAS token it puts in the reply
   (item versions are not modelled; the handler ignores the field). *)
Record senv := mkSE { se_fault : option (N * bytes); se_cas : N }.
Definition senv0 : senv := mkSE None 0.

Inductive opkind :=
| KSet (m : smode) | KCat (front : bool) | KDelete | KTouch
| KGet (quiet withexp : bool) | KGat (quiet : bool) | KNoop.

Definition srv_opkind (op : N) : option opkind :=
  if op =? opSet then Some (KSet MSet) else if op =? opAdd then Some (KSet MAdd)
  else if op =? opReplace then Some (KSet MReplace)
  else if op =? opAppend then Some (KCat false) else if op =? opPrepend then Some (KCat true)
  else if op =? opDelete then Some KDelete else if op =? opTouch then Some KTouch
  else if op =? opGet then Some (KGet false false) else if op =? opGetQ then Some (KGet true false)
  else if op =? opGetE then Some (KGet false true) else if op =? opGetEQ then Some (KGet true true)
  else if op =? opGat then Some (KGat false) else if op =? opGatQ then Some (KGat true)
  else if op =? opNoop then Some KNoop else None.

(* memcached's "unknown command" status (PROTOCOL_BINARY_RESPONSE_UNKNOWN_COMMAND) *)
Definition statusUnknownCommand : N := 129.

(* a non-zero CAS makes these requests conditional on the item's version *)
Definition cas_conditional (kd : opkind) : bool :=
  match kd with KSet MSet | KSet MReplace | KCat _ | KDelete => true | _ => false end.

Section Server.
(* the text a memcached puts into the body of an error reply, per status *)
Variable ebody : N -> bytes.

Definition srv_err (fr : sframe) (e : senv) (st : N) : bytes :=
  resp_frame (sf_op fr) st (sf_opaque fr) (se_cas e) [] (ebody st).
Definition srv_ok (fr : sframe) (e : senv) (ext val : bytes) : bytes :=
  resp_frame (sf_op fr) statusSuccess (sf_opaque fr) (se_cas e) ext val.
(* the reply to a request that carries no data back *)
Definition srv_status (fr : sframe) (e : senv) (st : N) : bytes :=
  if st =? statusSuccess then srv_ok fr e [] [] else srv_err fr e st.

Definition srv_apply (kd : opkind) (s : store) (now : N) (e : senv) (fr : sframe) : store * bytes :=
  let k := sf_key fr in
  match kd with
  | KSet m =>
      let '(s', st) := b_set m s now k (sf_val fr) (rd32 (sf_ext fr)) (rd32 (drop 4 (sf_ext fr))) in
      (s', srv_status fr e st)
  | KCat front => let '(s', st) := b_cat front s now k (sf_val fr) in (s', srv_status fr e st)
  | KDelete => let '(s', st) := b_delete s now k in (s', srv_status fr e st)
  | KTouch =>
      match live now s k with
      | Some en => (fst (b_touch s now k (rd32 (sf_ext fr))), srv_ok fr e (u32be (e_flags en)) [])
      | None => (s, srv_err fr e statusKeyEnoent)
      end
  | KGet quiet withexp =>
      match b_get s now k with
      | Some en => (s, srv_ok fr e (u32be (e_flags en) ++ (if withexp then u32be (remaining now (e_dl en)) else []))
                              (e_data en))
      | None => (s, if quiet then [] else srv_err fr e statusKeyEnoent)
      end
  | KGat quiet =>
      let '(s', o) := b_gat s now k (rd32 (sf_ext fr)) in
      match o with
      | Some en => (s', srv_ok fr e (u32be (e_flags en)) (e_data en))
      | None => (s', if quiet then [] else srv_err fr e statusKeyEnoent)
      end
  | KNoop => (s, srv_ok fr e [] [])
  end.

(* one request *)
Definition srv_exec (s : store) (now : N) (e : senv) (fr : sframe) : store * bytes :=
  match se_fault e with
  | Some (st, body) =>
      (status_store s st (sf_key fr), resp_frame (sf_op fr) st (sf_opaque fr) (se_cas e) [] body)
  | None =>
      match srv_opkind (sf_op fr) with
      | None => (s, srv_err fr e statusUnknownCommand)
      | Some kd =>
          if negb (sf_cas fr =? 0) && cas_conditional kd
          then (* the version of no item: refused *)
               (s, srv_err fr e (match live now s (sf_key fr) with Some _ => statusKeyExists | None => statusKeyEnoent end))
          else srv_apply kd s now e fr
      end
  end.

(* the server reads what has arrived frame by frame; an incomplete frame stays pending *)
Fixpoint srv_run (fuel : nat) (s : store) (now : N) (pl : list senv) (inp : bytes)
  : store * list senv * bytes * bytes :=
  match fuel with
  | O => (s, pl, [], inp)
  | S f =>
      match srv_parse inp with
      | None => (s, pl, [], inp)
      | Some (fr, rest) =>
          let '(s1, rep) := srv_exec s now (hd senv0 pl) fr in
          let '(s2, pl2, out, pend) := srv_run f s1 now (tl pl) rest in
          (s2, pl2, rep ++ out, pend)
      end
  end.

(* ------------------------------------------------------------------------------------------ *)
(* the connection                                                                              *)
(* ------------------------------------------------------------------------------------------ *)
Record wconn := mkWC {
  wc_store : store;        (* the backend's contents *)
  wc_plan : list senv;     (* the server's choices for the requests still to come *)
  wc_pend : bytes;         (* received by the server, not yet a complete frame *)
  wc_in : bytes;           (* sent by the server, not yet read by the handler *)
  wc_starved : bool;       (* some read wanted more bytes than the server had sent *)
  wc_wlog : bytes;         (* everything the handler wrote *)
  wc_rlog : bytes          (* everything the server sent *)
}.
Definition conn0 (s : store) (pl : list senv) : wconn := mkWC s pl [] [] false [] [].

(* the state between two handler calls that every call relies on and must re-establish *)
Definition in_sync (c : wconn) : Prop := wc_in c = [] /\ wc_pend c = [] /\ wc_starved c = false.
Definition in_syncb (c : wconn) : bool :=
  match wc_in c, wc_pend c with [], [] => negb (wc_starved c) | _, _ => false end.

Definition set_in (c : wconn) (x : bytes) (starved : bool) : wconn :=
  mkWC (wc_store c) (wc_plan c) (wc_pend c) x (wc_starved c || starved) (wc_wlog c) (wc_rlog c).

(* Write ... ; Flush: the server processes what it has *)
Definition w_send (c : wconn) (now : N) (bs : bytes) : wconn :=
  let inp := wc_pend c ++ bs in
  let '(s', pl', out, pend') := srv_run (S (length inp)) (wc_store c) now (wc_plan c) inp in
  mkWC s' pl' pend' (wc_in c ++ out) (wc_starved c) (wc_wlog c ++ bs) (wc_rlog c ++ out).

(* ------------------------------------------------------------------------------------------ *)
(* (c) the consumer                                                                            *)
(* ------------------------------------------------------------------------------------------ *)
(* io.ReadAtLeast(r, buf, n) / bufio.Discard(n) / io.ReadFull *)
Definition w_take (c : wconn) (n : N) : wconn * option bytes :=
  match read_n (wc_in c) n with
  | Some (a, rest) => (set_in c rest false, Some a)
  | None => (set_in c [] true, None)
  end.
Definition w_discard (c : wconn) (n : N) : wconn * bool :=
  let '(c1, o) := w_take c n in (c1, match o with Some _ => true | None => false end).
(* binary.Read(rw, binary.BigEndian, &v) with the error ignored: v stays 0 on a short read *)
Definition w_u32 (c : wconn) : wconn * N :=
  let '(c1, o) := w_take c 4 in (c1, match o with Some b => rd32 b | None => 0 end).

Record rhdr := mkRH { rh_op : N; rh_klen : N; rh_elen : N; rh_status : N; rh_total : N; rh_opaque : N }.
Inductive rh_res := RHOk (h : rhdr) | RHBadMagic | RHShort.
Definition rh_of_bytes (b : bytes) : rhdr :=
  mkRH (nth 1 b 0) (rd16 (drop 2 b)) (nth 4 b 0) (rd16 (drop 6 b)) (rd32 (drop 8 b)) (rd32 (drop 12 b)).
(* binprot.ReadResponseHeader: ReadAtLeast resHeaderLen (= 24 = ReqHeaderLen) bytes, magic *)
Definition w_read_rhdr (c : wconn) : wconn * rh_res :=
  let '(c1, o) := w_take c reqHeaderLen in
  match o with
  | None => (c1, RHShort)
  | Some b => (c1, if nth 0 b 0 =? magicResponse then RHOk (rh_of_bytes b) else RHBadMagic)
  end.

(* std.readResponseHeader + handleSetCommon after the Flush. A header that cannot be read leaves
   resHeader nil and the next line dereferences it: panic. A status DecodeError does not know
   is success: nothing more is read. *)
Definition w_set_common (c : wconn) : wconn * hout :=
  let '(c1, r) := w_read_rhdr c in
  match r with
  | RHOk h =>
      match decode_error (rh_status h) with
      | Some e => let '(c2, ok) := w_discard c1 (rh_total h) in (c2, HRes (HErr (if ok then e else EIO)))
      | None => (c1, HRes HDone)
      end
  | _ => (c1, HPanic)
  end.

(* simpleCmdLocal after the Flush: the whole body is discarded on both paths *)
Definition w_simple (c : wconn) : wconn * hout :=
  let '(c1, r) := w_read_rhdr c in
  match r with
  | RHOk h =>
      let '(c2, ok) := w_discard c1 (rh_total h) in
      (c2, HRes (if ok then st_to_hres (rh_status h) else HErr EIO))
  | _ => (c1, HRes (HErr EIO))
  end.

(* GetLocal after the Flush: error status: discard the body; otherwise 4 bytes of flags, 4 more
   of remaining lifetime if asked, then TotalBodyLength - KeyLength - ExtraLength (uint32) bytes *)
Definition w_get_local (readExp : bool) (c : wconn) : wconn * (bytes * N * N + N) :=
  let '(c1, r) := w_read_rhdr c in
  match r with
  | RHOk h =>
      match decode_error (rh_status h) with
      | Some e => let '(c2, ok) := w_discard c1 (rh_total h) in (c2, inr (if ok then e else EIO))
      | None =>
          let '(c2, fl) := w_u32 c1 in
          let '(c3, ex) := if readExp then w_u32 c2 else (c2, 0) in
          let dlen := (rh_total h + two32 - rh_klen h - rh_elen h) mod two32 in
          let '(c4, o) := w_take c3 dlen in
          (c4, match o with Some d => inl (d, fl, ex) | None => inr EIO end)
      end
  | _ => (c1, inr EIO)
  end.

(* realHandleGet / realHandleGetE: per key Write, Flush (in GetLocal), read; a miss goes on,
   any other error ends the call *)
Fixpoint w_get (withexp : bool) (c : wconn) (now : N) (items : list gitem) (acc : list gres) : wconn * hout :=
  match items with
  | [] => (c, HRes (HVals (rev acc) None))
  | it :: rest =>
      let '(c1, r) := w_get_local withexp (w_send c now (get_frame withexp it)) in
      match r with
      | inl (d, fl, ex) =>
          w_get withexp c1 now rest (mkGR (gi_key it) d fl ex (gi_opaque it) (gi_quiet it) false :: acc)
      | inr e =>
          if e =? EKeyNotFound then w_get withexp c1 now rest (miss_res it :: acc)
          else (c1, HRes (HVals (rev acc) (Some e)))
      end
  end.

Definition w_gat (c : wconn) (k : bytes) (opq : N) : wconn * hout :=
  let '(c1, r) := w_get_local false c in
  match r with
  | inl (d, fl, _) => (c1, HRes (HVals [mkGR k d fl 0 opq false false] None))
  | inr e => (c1, HRes (if e =? EKeyNotFound then HVals [mkGR k [] 0 0 opq false true] None else HErr e))
  end.

(* one call of the std handler on its backend connection *)
Definition std_wire (c : wconn) (now : N) (q : hreq) : wconn * hout :=
  match q with
  | HSet _ _ _ _ _ | HCat _ _ _ => w_set_common (w_send c now (std_frame q))
  | HDelete _ | HTouch _ _ => w_simple (w_send c now (std_frame q))
  | HGat k _ opq => w_gat (w_send c now (std_frame q)) k opq
  | HGet items => w_get false c now items []
  | HGetE items => w_get true c now items []
  end.

End Server.

(* ------------------------------------------------------------------------------------------ *)
(* vocabulary of the theorems                                                                  *)
(* ------------------------------------------------------------------------------------------ *)
(* what fits the wire fields: key length in 16 bits (memcached accepts 250), flags / ttl in 32,
   total body in 32 *)
Definition hreq_fits (q : hreq) : Prop :=
  match q with
  | HSet _ k d f ttl => len k < 65536 /\ f < two32 /\ ttl < two32 /\ len k + 8 + len d < two32
  | HCat _ k d => len k < 65536 /\ len k + len d < two32
  | HDelete k => len k < 65536
  | HTouch k ttl | HGat k ttl _ => len k < 65536 /\ ttl < two32
  | HGet items | HGetE items => Forall (fun it => len (gi_key it) < 65536) items
  end.
Definition entry_fits (now : N) (e : entry) : Prop :=
  e_flags e < two32 /\ 8 + len (e_data e) < two32 /\ remaining now (e_dl e) < two32.
(* what the backend can serve fits its reply fields *)
Definition store_fits (now : N) (s : store) : Prop := forall k e, live now s k = Some e -> entry_fits now e.

(* an injected status is one of the error statuses DecodeError knows; its body fits *)
Definition senv_fits (e : senv) : Prop :=
  match se_fault e with
  | Some (st, body) => st < 65536 /\ decode_error st <> None /\ len body < two32
  | None => True
  end.
Definition plan_fits (pl : list senv) : Prop := Forall senv_fits pl.
Definition plan_clean (pl : list senv) : Prop := Forall (fun e => se_fault e = None) pl.
Definition ebody_fits (ebody : N -> bytes) : Prop := forall st, len (ebody st) < two32.

(* the plan in the vocabulary of orca/Faults.v *)
Definition senv_fault (e : senv) : option fault :=
  match se_fault e with Some (st, _) => Some (FStatus st) | None => None end.
Definition plan_fn (pl : list senv) : nat -> option fault :=
  fun n => match nth_error pl n with Some e => senv_fault e | None => None end.

(* a frame as the server and as rend's own binary decoder see it *)
Definition frame_decodes (fb : bytes) (r : req) : Prop :=
  (forall rest, fst (parse_bin (fb ++ rest)) = PDone r rest) /\
  exists fr, srv_parse fb = Some (fr, []) /\ sf_cas fr = 0 /\ sf_opaque fr = 0.

(* the request is one a client-side decoder accepts: non-empty keys of bytes, data of bytes *)
Definition hreq_wf (q : hreq) : Prop :=
  match q with
  | HSet _ k d _ _ | HCat _ k d => 1 <= len k /\ bytes_ok k /\ bytes_ok d
  | HDelete k | HTouch k _ | HGat k _ _ => 1 <= len k /\ bytes_ok k
  | HGet items | HGetE items => Forall (fun it => 1 <= len (gi_key it) /\ bytes_ok (gi_key it)) items
  end.

(* ------------------------------------------------------------------------------------------ *)
(* histories: several calls on the same backend connection                                     *)
(* ------------------------------------------------------------------------------------------ *)
Fixpoint wire_run (ebody : N -> bytes) (c : wconn) (h : list (N * hreq)) : wconn * list hout :=
  match h with
  | [] => (c, [])
  | (now, q) :: r =>
      let '(c1, o) := std_wire ebody c now q in
      let '(c2, os) := wire_run ebody c1 r in (c2, o :: os)
  end.
(* the abstract handler (Std.v; under injected statuses Faults.v) on the same history *)
Fixpoint std_run_f (pf : nat -> option fault) (ts : tstate) (h : list (N * hreq)) : tstate * list hout :=
  match h with
  | [] => (ts, [])
  | (now, q) :: r =>
      let '(ts1, o) := exec_f pf ts now q in
      let '(ts2, os) := std_run_f pf ts1 r in (ts2, o :: os)
  end.
Fixpoint std_run (s : store) (h : list (N * hreq)) : store * list hres :=
  match h with
  | [] => (s, [])
  | (now, q) :: r =>
      let '(s1, o) := std_exec s now q in
      let '(s2, os) := std_run s1 r in (s2, o :: os)
  end.
(* every call and every store the abstract run goes through fit the wire fields *)
Fixpoint hist_fits (pf : nat -> option fault) (ts : tstate) (h : list (N * hreq)) : Prop :=
  match h with
  | [] => True
  | (now, q) :: r => hreq_fits q /\ store_fits now (t_store ts) /\ hist_fits pf (fst (exec_f pf ts now q)) r
  end.
Fixpoint hist_fits0 (s : store) (h : list (N * hreq)) : Prop :=
  match h with
  | [] => True
  | (now, q) :: r => hreq_fits q /\ store_fits now s /\ hist_fits0 (fst (std_exec s now q)) r
  end.
