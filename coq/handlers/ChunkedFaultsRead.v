(* ChunkedFaultsRead.v — reads of the chunked handler under backend faults are sound (the C05
   statement under faults), and requests other than sets never create or alter a value. *)
From Coq Require Import String.
From Rend Require Import base.Bytes gen.Consts_gen spec.MapSpec orca.Types handlers.ChunkFmt
  handlers.ChunkFmtProofs handlers.Chunked handlers.ChunkedSpec handlers.ChunkedProofs
  handlers.ChunkedRefBase handlers.ChunkedRefCmds handlers.ChunkedFaults handlers.ChunkedFaultsProofs.
Open Scope N_scope.

(* every live entry of s' is a live entry of s with the same data and flags (deadlines may differ) *)
Definition lsub (now : N) (s s' : store) : Prop :=
  forall bk e', live now s' bk = Some e' ->
    exists e0, live now s bk = Some e0 /\ e_data e' = e_data e0 /\ e_flags e' = e_flags e0.

Lemma lsub_refl now s : lsub now s s.
Proof. intros bk e H. exists e. auto. Qed.

Lemma lsub_upd_none now s s' bk : lsub now s s' -> lsub now s (upd s' bk None).
Proof.
  intros L b e H. rewrite live_lv in H. unfold upd in H. destruct (bytes_eqb b bk); [discriminate|].
  apply L. rewrite live_lv. exact H.
Qed.

Lemma lsub_touch now s s' ck ttl : lsub now s s' -> lsub now s (fst (b_touch s' now ck ttl)).
Proof.
  intros L b e H. unfold gb_touch in H. destruct (live now s' ck) as [e1|] eqn:E; cbn [fst] in H; [|apply L; exact H].
  rewrite live_lv in H. unfold upd in H. destruct (bytes_eqb b ck) eqn:Eb.
  - apply bytes_eqb_true in Eb. subst b. apply lv_some in H. destruct H as [H _]. inversion H; subst e. cbn [e_data e_flags].
    apply L. exact E.
  - apply L. rewrite live_lv. exact H.
Qed.

Lemma lsub_delete now s s' ck : lsub now s s' -> lsub now s (fst (b_delete s' now ck)).
Proof.
  intros L. unfold gb_delete. destruct (live now s' ck); cbn [fst]; [apply lsub_upd_none|]; exact L.
Qed.

Lemma lsub_status_store now s s' st q : lsub now s s' -> lsub now s (status_store s' st q).
Proof.
  intros L. unfold status_store. destruct (key_of q); [|exact L]. destruct (_ || _); [apply lsub_upd_none|]; exact L.
Qed.

Lemma lsub_b_exec now s s' q : is_set q = false -> lsub now s s' -> lsub now s (fst (b_exec s' now q)).
Proof.
  intros Hq L. destruct q as [k|k|k ttl|k ttl|m k f ttl v|k|k ttl|]; try discriminate; try exact L.
  - rewrite b_exec_gat. cbn [fst]. apply lsub_touch. exact L.
  - rewrite b_exec_gatq. cbn [fst]. apply lsub_touch. exact L.
  - rewrite b_exec_delete. cbn [fst]. apply lsub_delete. exact L.
  - cbn [b_exec]. destruct (b_touch s' now k ttl) as [s1 st] eqn:E.
    change s1 with (fst (s1, st)). rewrite <- E. apply lsub_touch. exact L.
Qed.

(* programs without set requests only lose or re-deadline entries, under any plan *)
Definition notset (q : breq) : Prop := is_set q = false.
Lemma allreq_f_lsub {A} (p : fprog A) : allreq_f notset p ->
  forall pl now s s' i dead, lsub now s s' -> lsub now s (fst (frun pl p s' now i dead)).
Proof.
  induction 1 as [a|q K Hq HK IH]; intros pl now s s' i dead L; [exact L|].
  cbn [frun]. destruct dead; [apply IH; exact L|].
  destruct (pl i) as [[st|ap]|].
  - apply IH. apply lsub_status_store. exact L.
  - apply IH. destruct ap; [apply lsub_b_exec; assumption|exact L].
  - destruct (b_exec s' now q) as [s1 r] eqn:E. apply IH.
    change s1 with (fst (s1, r)). rewrite <- E. apply lsub_b_exec; assumption.
Qed.

(* what can be read of a key after entries were lost / re-deadlined: nothing, or the same value *)
Lemma lsub_abs now s s' k e' : lsub now s s' -> abs_entry s' now k = Some e' ->
  exists e, abs_entry s now k = Some e /\ e_data e' = e_data e /\ e_flags e' = e_flags e.
Proof.
  intros L H. rewrite abs_entry_unfold in H.
  destruct (live now s' (meta_key k)) as [me'|] eqn:Hm'; [|discriminate].
  cbv zeta in H. destruct (forallb _ _) eqn:Hall; [|discriminate]. inversion H; subst e'. clear H. cbn [e_data e_flags].
  destruct (L _ _ Hm') as (me & Hm & Hd & Hf). rewrite Hd in *.
  set (md := dec_meta (e_data me)) in *.
  rewrite forallb_forall in Hall.
  assert (Hc : forall i, In i (idxs (m_nchunks md)) ->
            chunk_ok s now k md i = true /\ cdata s' now k i = cdata s now k i).
  { intros i Hi. specialize (Hall i Hi). unfold chunk_ok in Hall. unfold chunk_ok, cdata.
    destruct (live now s' (chunk_key k i)) as [c'|] eqn:Hc'; [|discriminate].
    destruct (L _ _ Hc') as (c & Hc & Hcd & _). rewrite Hc, <- Hcd. split; [exact Hall|reflexivity]. }
  rewrite abs_entry_unfold, Hm. cbv zeta. fold md.
  replace (forallb (chunk_ok s now k md) (idxs (m_nchunks md))) with true
    by (symmetry; apply forallb_forall; intros i Hi; apply Hc; exact Hi).
  eexists. split; [reflexivity|]. cbn [e_data e_flags]. split; [|reflexivity].
  f_equal. apply map_ext_in. intros i Hi. apply Hc. exact Hi.
Qed.

Lemma lsub_cview now s s' k : lsub now s s' -> cview s' now k = None \/ cview s' now k = cview s now k.
Proof.
  intros L. unfold cview. destruct (abs_entry s' now k) as [e'|] eqn:E; [right|left; reflexivity].
  destruct (lsub_abs now s s' k e' L E) as (e & -> & Hd & Hf). cbn [view]. rewrite Hd, Hf. reflexivity.
Qed.

(* ================= the pipelined chunk reads under a plan ================= *)
Definition Rf (s : store) (now : N) (ck : bytes) (r : frep) : Prop :=
  match r with
  | FRep (BVal _ v) => exists e0, live now s ck = Some e0 /\ v = e_data e0
  | _ => True
  end.

Lemma rq_notset touch ck : is_set (rq touch ck) = false.
Proof. destruct touch; reflexivity. Qed.
Lemma rq_reply s now touch ck :
  snd (b_exec s now (rq touch ck)) = match live now s ck with Some e => BVal (e_flags e) (e_data e) | None => BNone end.
Proof. destruct touch; unfold rq; [rewrite b_exec_gatq|rewrite b_exec_getq]; reflexivity. Qed.

Lemma freqs_run {A} pl now s touch : forall keys acc (K : list frep -> fprog A) s' i dead,
  lsub now s s' ->
  exists rs s'' i' dead',
    frun pl (freqs (map (rq touch) keys) acc K) s' now i dead = frun pl (K (rev acc ++ rs)) s'' now i' dead' /\
    lsub now s s'' /\ Forall2 (Rf s now) keys rs.
Proof.
  induction keys as [|ck r IH]; intros acc K s' i dead L.
  - exists [], s', i, dead. cbn [map freqs]. rewrite app_nil_r. split; [reflexivity|]. split; [exact L|constructor].
  - cbn [map freqs frun].
    assert (Hgen : forall x s1 i1 d1, lsub now s s1 -> Rf s now ck x ->
              exists rs s'' i' dead',
                frun pl (freqs (map (rq touch) r) (x :: acc) K) s1 now i1 d1 = frun pl (K (rev acc ++ rs)) s'' now i' dead' /\
                lsub now s s'' /\ Forall2 (Rf s now) (ck :: r) rs).
    { intros x s1 i1 d1 L1 Hx. destruct (IH (x :: acc) K s1 i1 d1 L1) as (rs & s2 & i2 & d2 & E & L2 & F).
      exists (x :: rs), s2, i2, d2. split; [|split; [exact L2|constructor; assumption]].
      rewrite E. cbn [rev]. rewrite <- app_assoc. reflexivity. }
    destruct dead; [apply Hgen; [exact L|exact I]|].
    destruct (pl i) as [[st|ap]|].
    + apply Hgen; [apply lsub_status_store; exact L|exact I].
    + apply Hgen; [|exact I]. destruct ap; [apply lsub_b_exec; [apply rq_notset|exact L]|exact L].
    + destruct (b_exec s' now (rq touch ck)) as [s1 x] eqn:E. apply Hgen.
      * change s1 with (fst (s1, x)). rewrite <- E. apply lsub_b_exec; [apply rq_notset|exact L].
      * change x with (snd (s1, x)). rewrite <- E, rq_reply.
        destruct (live now s' ck) as [e'|] eqn:El; [|exact I]. cbn [Rf].
        destruct (L _ _ El) as (e0 & H0 & Hd & _). exists e0. split; [exact H0|exact Hd].
Qed.

Lemma arrived_rep_len rs : (length (arrived (map rep_bres rs)) <= length rs)%nat.
Proof. pose proof (arrived_len_le (map rep_bres rs)). rewrite map_length in H. exact H. Qed.

Lemma full_arrival_f s now : forall keys rs, Forall2 (Rf s now) keys rs ->
  length (arrived (map rep_bres rs)) = length keys ->
  arrived (map rep_bres rs) = map (fun ck => match live now s ck with Some e => e_data e | None => [] end) keys.
Proof.
  induction 1 as [|ck r keys rs HR HF IH]; intros Hlen; [reflexivity|].
  pose proof (arrived_rep_len rs) as Hle. pose proof (Forall2_len _ _ _ HF) as HL.
  cbn [map length] in *.
  destruct r as [[|st|f v]| |]; cbn [rep_bres] in *;
    try (change (arrived (BNone :: map rep_bres rs)) with (arrived (map rep_bres rs)) in Hlen; lia);
    try (change (arrived (BStatus st :: map rep_bres rs)) with (arrived (map rep_bres rs)) in Hlen; lia).
  rewrite arrived_cons_val in *. cbn [length] in Hlen. destruct HR as (e0 & H0 & ->). rewrite H0.
  f_equal. apply IH. lia.
Qed.

Lemma noop_step {A} pl (K : frep -> fprog A) s now i dead :
  exists n i' dead', frun pl (FReq QNoop K) s now i dead = frun pl (K n) s now i' dead'.
Proof.
  cbn [frun]. destruct dead; [eexists _, _, _; reflexivity|].
  destruct (pl i) as [[st|ap]|].
  - eexists _, _, _. reflexivity.
  - eexists _, _, _. destruct ap; reflexivity.
  - eexists _, _, _. reflexivity.
Qed.

Lemma len_chunk_keys k n : length (chunk_keys k n) = N.to_nat n.
Proof. unfold chunk_keys. rewrite map_length, seq_length. reflexivity. Qed.

Lemma cdata_keys s now k n :
  map (fun ck => match live now s ck with Some e => e_data e | None => [] end) (chunk_keys k n) =
  map (cdata s now k) (idxs n).
Proof. rewrite chunk_keys_idxs, map_map. reflexivity. Qed.

(* reading the chunks under any plan: an error, or a (value, miss) pair whose value, unless it
   is a miss, is assembled from the chunks of the ORIGINAL store s *)
Lemma read_chunks_f_sound {A} pl now s k md touch fail (cont : bytes * bool -> fprog A) s' i dead :
  lsub now s s' ->
  exists s'' i' dead', lsub now s s'' /\
    ((exists e, frun pl (read_chunks_f k md touch fail cont) s' now i dead = frun pl (fail e) s'' now i' dead') \/
     (exists d m, frun pl (read_chunks_f k md touch fail cont) s' now i dead = frun pl (cont (d, m)) s'' now i' dead' /\
                  (m = true \/ d = aval md (map (cdata s now k) (idxs (m_nchunks md)))))).
Proof.
  intros L. unfold read_chunks_f. cbv zeta. rewrite rq_map.
  match goal with |- context [freqs _ [] ?K0] =>
    destruct (freqs_run pl now s touch (chunk_keys k (m_nchunks md)) [] K0 s' i dead L) as (rs & s1 & i1 & d1 & E & L1 & F) end.
  cbn [rev app] in E.
  match type of E with _ = frun _ (FReq QNoop ?K1) _ _ _ _ => destruct (noop_step pl K1 s1 now i1 d1) as (n & i2 & d2 & E2) end.
  rewrite E2 in E. clear E2. exists s1, i2, d2. split; [exact L1|]. rewrite E.
  destruct (io_failed (rs ++ [n])); [left; exists EIO; reflexivity|].
  destruct (last_app_err rs) as [e|]; [left; exists e; reflexivity|].
  right. destruct (read_result md (map rep_bres rs)) as [d m] eqn:ER. exists d, m. split; [reflexivity|].
  destruct m; [left; reflexivity|right].
  unfold read_result in ER. inversion ER as [[Hd Hm]]. clear ER.
  apply orb_false_iff in Hm. destruct Hm as [_ Hshort]. apply negb_false_iff, N.eqb_eq in Hshort.
  assert (Hlen : length (arrived (map rep_bres rs)) = length (chunk_keys k (m_nchunks md))).
  { rewrite len_chunk_keys. unfold len in Hshort. lia. }
  rewrite (full_arrival_f s now _ _ F Hlen), cdata_keys. reflexivity.
Qed.

(* metadata lookup followed by the chunk reads, under any plan *)
Section ReadPath.
Context {A : Type}.
Variables (pl : cplan) (now : N) (s : store) (k : bytes) (mq : breq) (touch : option N).
Variables (miss : fprog A) (fail : N -> fprog A) (cont : meta -> bytes * bool -> fprog A).
Hypothesis Hpl : plan_ok pl.
Hypothesis Hmq : is_set mq = false.
Hypothesis Hrep : forall s', snd (b_exec s' now mq) =
  match live now s' (meta_key k) with Some e => BVal (e_flags e) (e_data e) | None => BStatus statusKeyEnoent end.

Local Notation P := (with_meta_f mq miss fail (fun md => read_chunks_f k md touch fail (cont md))).

Lemma read_path_f i :
  exists s'' i' dead', lsub now s s'' /\
    (frun pl P s now i false = frun pl miss s'' now i' dead' \/
     (exists e, frun pl P s now i false = frun pl (fail e) s'' now i' dead') \/
     (exists me d m, live now s (meta_key k) = Some me /\
        frun pl P s now i false = frun pl (cont (dec_meta (e_data me)) (d, m)) s'' now i' dead' /\
        (m = true \/ d = aval (dec_meta (e_data me)) (map (cdata s now k) (idxs (m_nchunks (dec_meta (e_data me)))))))).
Proof.
  unfold with_meta_f. cbn [frun]. destruct (pl i) as [[st|ap]|] eqn:Ep.
  - (* injected status *)
    exists (status_store s st mq), (S i), false. split; [apply lsub_status_store; apply lsub_refl|].
    destruct (err_of_status st) as [e|] eqn:Ee; [|exfalso; exact (Hpl i st Ep Ee)].
    destruct (e =? EKeyNotFound); [left; reflexivity|right; left; exists e; reflexivity].
  - eexists _, (S i), true. split; [|right; left; exists EIO; reflexivity].
    destruct ap; [apply lsub_b_exec; [exact Hmq|apply lsub_refl]|apply lsub_refl].
  - destruct (b_exec s now mq) as [s1 x] eqn:E.
    assert (L1 : lsub now s s1).
    { change s1 with (fst (s1, x)). rewrite <- E. apply lsub_b_exec; [exact Hmq|apply lsub_refl]. }
    assert (Hx : x = match live now s (meta_key k) with Some e => BVal (e_flags e) (e_data e) | None => BStatus statusKeyEnoent end).
    { change x with (snd (s1, x)). rewrite <- E. apply Hrep. }
    destruct (live now s (meta_key k)) as [me|] eqn:Hm; subst x.
    + destruct (read_chunks_f_sound pl now s k (dec_meta (e_data me)) touch fail (cont (dec_meta (e_data me))) s1 (S i) false L1)
        as (s2 & i2 & d2 & L2 & [[e He]|(d & m & He & Hdm)]).
      * exists s2, i2, d2. split; [exact L2|]. right; left. exists e. exact He.
      * exists s2, i2, d2. split; [exact L2|]. right; right. exists me, d, m. split; [reflexivity|]. split; assumption.
    + exists s1, (S i), false. split; [exact L1|]. left. rewrite err_enoent, N.eqb_refl. reflexivity.
Qed.
End ReadPath.

Lemma get_reply s' now k :
  snd (b_exec s' now (QGet (meta_key k))) =
  match live now s' (meta_key k) with Some e => BVal (e_flags e) (e_data e) | None => BStatus statusKeyEnoent end.
Proof. rewrite b_exec_get. reflexivity. Qed.
Lemma gat_reply s' now k ttl :
  snd (b_exec s' now (QGat (meta_key k) ttl)) =
  match live now s' (meta_key k) with Some e => BVal (e_flags e) (e_data e) | None => BStatus statusKeyEnoent end.
Proof. rewrite b_exec_gat. reflexivity. Qed.

Lemma wf_cview s now k me : 1 <= len k <= 250 -> wf_key s now k -> live now s (meta_key k) = Some me ->
  cview s now k = Some (aval (dec_meta (e_data me)) (map (cdata s now k) (idxs (m_nchunks (dec_meta (e_data me))))),
                        m_flags (dec_meta (e_data me))).
Proof.
  intros Hk W Hm. destruct (wf_live s now k me Hk W Hm) as (_ & _ & HA). unfold cview. rewrite HA. reflexivity.
Qed.

(* ---- c10_chunked_read_sound ---- *)
Lemma get_sound_f pl s now k opq qt :
  plan_ok pl -> 1 <= len k <= 250 -> wf_key s now k ->
  let X := frun pl (chunked_get_f [mkGI k opq qt] []) s now 0 false in
  lsub now s (fst X) /\
  ((exists e, snd X = CRes (HVals [] (Some e))) \/
   (exists g, snd X = CRes (HVals [g] None) /\ g_key g = k /\ (g_miss g = true \/ gres_is g (cview s now k)))).
Proof.
  intros Hpl Hk W X. unfold X. cbn [chunked_get_f gi_key gi_opaque gi_quiet].
  match goal with |- context [with_meta_f _ ?m ?f (fun md => read_chunks_f k md None _ (@?c md))] =>
    destruct (read_path_f pl now s k (QGet (meta_key k)) None m f c Hpl eq_refl (fun s' => get_reply s' now k) 0%nat)
      as (s2 & i2 & d2 & L2 & [E|[[e E]|(me & d & mm & Hm & E & Hd)]]) end; rewrite E; clear E.
  - cbn [frun fst snd rev app]. split; [exact L2|]. right. eexists. split; [reflexivity|]. split; [reflexivity|left; reflexivity].
  - cbn [frun fst snd rev app]. split; [exact L2|]. left. exists e. reflexivity.
  - cbv beta iota. destruct mm; cbn [frun fst snd rev app]; (split; [exact L2|]); right; (eexists; split; [reflexivity|]; split; [reflexivity|]).
    + left. reflexivity.
    + right. rewrite (wf_cview s now k me Hk W Hm). cbn [gres_is g_miss g_data g_flags].
      destruct Hd as [Hd|Hd]; [discriminate|]. repeat split. exact Hd.
Qed.

Lemma gat_sound_f pl s now k ttl opq :
  plan_ok pl -> 1 <= len k <= 250 -> wf_key s now k ->
  let X := frun pl (chunked_gat_f k ttl opq) s now 0 false in
  lsub now s (fst X) /\
  ((exists e, snd X = CRes (HErr e)) \/
   (exists g, snd X = CRes (HVals [g] None) /\ g_key g = k /\ (g_miss g = true \/ gres_is g (cview s now k)))).
Proof.
  intros Hpl Hk W X. unfold X, chunked_gat_f.
  match goal with |- context [with_meta_f _ ?m ?f (fun md => read_chunks_f k md (Some ttl) _ (@?c md))] =>
    destruct (read_path_f pl now s k (QGat (meta_key k) ttl) (Some ttl) m f c Hpl eq_refl (fun s' => gat_reply s' now k ttl) 0%nat)
      as (s2 & i2 & d2 & L2 & [E|[[e E]|(me & d & mm & Hm & E & Hd)]]) end; rewrite E; clear E.
  - cbn [frun fst snd]. split; [exact L2|]. right. eexists. split; [reflexivity|]. split; [reflexivity|left; reflexivity].
  - cbn [frun fst snd]. split; [exact L2|]. left. exists e. reflexivity.
  - cbv beta iota. destruct mm; cbn [frun fst snd]; (split; [exact L2|]); right; (eexists; split; [reflexivity|]; split; [reflexivity|]).
    + left. reflexivity.
    + right. rewrite (wf_cview s now k me Hk W Hm). cbn [gres_is g_miss g_data g_flags].
      destruct Hd as [Hd|Hd]; [discriminate|]. repeat split. exact Hd.
Qed.
