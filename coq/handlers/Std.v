(* Std.v — handlers/memcached/std: one backend request per handler call, the reply status
   mapped through binprot.DecodeError (generated table). Sequential, fault-free semantics. *)
From Rend Require Import base.Bytes gen.Consts_gen spec.MapSpec orca.Types.
Open Scope N_scope.

(* DecodeError returns nil for statuses it does not know: the handler then sees success *)
Definition st_to_hres (st : N) : hres :=
  match decode_error st with Some e => HErr e | None => HDone end.

Definition miss_res (it : gitem) : gres :=
  mkGR (gi_key it) [] 0 0 (gi_opaque it) (gi_quiet it) true.
Definition hit_res (it : gitem) (e : entry) (exp : N) : gres :=
  mkGR (gi_key it) (e_data e) (e_flags e) exp (gi_opaque it) (gi_quiet it) false.

Definition std_get1 (s : store) (now : N) (withexp : bool) (it : gitem) : gres :=
  match b_get s now (gi_key it) with
  | Some e => hit_res it e (if withexp then remaining now (e_dl e) else 0)
  | None => miss_res it
  end.

Definition std_exec : hexec := fun s now q =>
  match q with
  | HSet m k d f ttl => let '(s', st) := b_set m s now k d f ttl in (s', st_to_hres st)
  | HCat front k d => let '(s', st) := b_cat front s now k d in (s', st_to_hres st)
  | HDelete k => let '(s', st) := b_delete s now k in (s', st_to_hres st)
  | HTouch k ttl => let '(s', st) := b_touch s now k ttl in (s', st_to_hres st)
  | HGet items => (s, HVals (map (std_get1 s now false) items) None)
  | HGetE items => (s, HVals (map (std_get1 s now true) items) None)
  | HGat k ttl opq =>
      let '(s', o) := b_gat s now k ttl in
      (s', HVals [match o with
                  | Some e => mkGR k (e_data e) (e_flags e) 0 opq false false
                  | None => mkGR k [] 0 0 opq false true
                  end] None)
  end.
