(* ChunkedFaultsProofs.v — proofs about the chunked handler under backend faults
   (model: ChunkedFaults.v; statements: props/C10chunk.v). *)
From Coq Require Import String.
From Rend Require Import base.Bytes gen.Consts_gen spec.MapSpec orca.Types handlers.ChunkFmt
  handlers.ChunkFmtProofs handlers.Chunked handlers.ChunkedSpec handlers.ChunkedProofs
  handlers.ChunkedRefBase handlers.ChunkedRefCmds handlers.ChunkedFaults.
Open Scope N_scope.

Definition lift (x : store * hres) : store * cout := (fst x, CRes (snd x)).

(* ================= 1. the empty plan is the sequential semantics ================= *)
Lemma frun_embed_nofault p : forall s now i,
  frun no_cfaults (embed p) s now i false = lift (brun p s now).
Proof.
  induction p as [a|q k IH]; intros s now i; [reflexivity|].
  cbn [embed frun brun]. unfold no_cfaults at 1. destruct (b_exec s now q) as [s' r]. apply IH.
Qed.

Lemma brun_f_no_fault p s now : brun_f no_cfaults p s now = lift (brun p s now).
Proof. apply frun_embed_nofault. Qed.

Lemma frun_freqs_nofault {A} qs : forall acc (K : list frep -> fprog A) s now i,
  frun no_cfaults (freqs qs acc K) s now i false =
  frun no_cfaults (K (rev acc ++ map FRep (snd (bexecs s now qs)))) (fst (bexecs s now qs)) now (i + length qs) false.
Proof.
  induction qs as [|q r IH]; intros acc K s now i.
  - cbn [freqs bexecs fst snd map length]. rewrite app_nil_r, Nat.add_0_r. reflexivity.
  - cbn [freqs frun]. unfold no_cfaults at 1. rewrite bexecs_cons. cbn [fst snd map length].
    destruct (b_exec s now q) as [s1 x]. cbn [fst snd]. rewrite IH. cbn [rev].
    rewrite <- app_assoc. cbn [app]. replace (S i + length r)%nat with (i + S (length r))%nat by lia. reflexivity.
Qed.

Definition not_status (r : bres) : Prop := match r with BStatus _ => False | _ => True end.

Lemma bexecs_rq_nostatus now touch : forall keys s,
  Forall not_status (snd (bexecs s now (map (rq touch) keys))).
Proof.
  induction keys as [|ck r IH]; intros s; [constructor|].
  cbn [map]. rewrite bexecs_cons. cbn [snd]. constructor; [|apply IH].
  destruct touch as [ttl|]; unfold rq.
  - rewrite b_exec_gatq. cbn [snd]. destruct (live now s ck); exact I.
  - rewrite b_exec_getq. cbn [snd]. destruct (live now s ck); exact I.
Qed.

Definition lae_step (acc : option N) (r : frep) : option N :=
  match r with
  | FRep (BStatus st) => match err_of_status st with
                         | Some e => if e =? EKeyNotFound then acc else Some e
                         | None => acc end
  | _ => acc end.
Lemma last_app_err_fold rs : last_app_err rs = fold_left lae_step rs None.
Proof. reflexivity. Qed.

Lemma lae_nostatus rs : Forall not_status rs -> forall acc, fold_left lae_step (map FRep rs) acc = acc.
Proof.
  induction 1 as [|r rs Hr _ IH]; intros acc; [reflexivity|].
  cbn [map fold_left]. rewrite IH. destruct r; try reflexivity. destruct Hr.
Qed.
Lemma io_failed_reps rs n : io_failed (map FRep rs ++ [FRep n]) = false.
Proof. unfold io_failed. induction rs as [|r rs IH]; [reflexivity|]. cbn [map app existsb]. exact IH. Qed.
Lemma map_rep_bres rs : map rep_bres (map FRep rs) = rs.
Proof. rewrite map_map. cbn [rep_bres]. apply map_id. Qed.

Lemma rq_map touch keys :
  map (fun ck => match touch with Some ttl => QGatQ ck ttl | None => QGetQ ck end) keys = map (rq touch) keys.
Proof. reflexivity. Qed.

Lemma read_chunks_f_nofault k md touch fail (contf : bytes * bool -> fprog cout) (cont : bytes * bool -> bprog hres) now :
  (forall dm s i, frun no_cfaults (contf dm) s now i false = lift (brun (cont dm) s now)) ->
  forall s i, frun no_cfaults (read_chunks_f k md touch fail contf) s now i false =
              lift (brun (read_chunks k md touch cont) s now).
Proof.
  intros HC s i. unfold read_chunks_f, read_chunks. rewrite rq_map.
  rewrite frun_freqs_nofault, brun_breqs. cbn [rev app].
  cbn [frun]. unfold no_cfaults at 1. rewrite b_exec_noop. rewrite brun_req, b_exec_noop. cbn [fst snd].
  rewrite io_failed_reps, last_app_err_fold, lae_nostatus by apply bexecs_rq_nostatus.
  rewrite map_rep_bres. apply HC.
Qed.

Lemma with_meta_f_nofault q miss fail K (missb : bprog hres) failb Kb now :
  (forall s i, frun no_cfaults miss s now i false = lift (brun missb s now)) ->
  (forall e s i, frun no_cfaults (fail e) s now i false = lift (brun (failb e) s now)) ->
  (forall md s i, frun no_cfaults (K md) s now i false = lift (brun (Kb md) s now)) ->
  forall s i, frun no_cfaults (with_meta_f q miss fail K) s now i false = lift (brun (with_meta q missb failb Kb) s now).
Proof.
  intros Hm Hf HK s i. unfold with_meta_f, with_meta. cbn [frun]. unfold no_cfaults at 1.
  rewrite brun_req. destruct (b_exec s now q) as [s' r]. cbn [fst snd].
  destruct r as [|st|f v]; [apply Hf| |apply HK].
  destruct (err_of_status st) as [e|]; [|apply HK]. destruct (e =? EKeyNotFound); [apply Hm|apply Hf].
Qed.

Lemma get_f_nofault now : forall items acc s i,
  frun no_cfaults (chunked_get_f items acc) s now i false = lift (brun (chunked_get items acc) s now).
Proof.
  induction items as [|it r IH]; intros acc s i; [reflexivity|].
  cbn [chunked_get_f chunked_get]. apply with_meta_f_nofault.
  - intros. apply IH.
  - intros. reflexivity.
  - intros md s1 i1. apply read_chunks_f_nofault. intros [d miss] s2 i2. apply IH.
Qed.

Lemma prog_f_nofault tok cnow q s now i :
  frun no_cfaults (chunked_prog_f tok cnow q) s now i false = lift (brun (chunked_prog tok cnow q) s now).
Proof.
  destruct q as [m k d f ttl|front k d|k|k ttl|items|items|k ttl opq]; cbn [chunked_prog_f chunked_prog];
    try apply frun_embed_nofault.
  - unfold chunked_cat_f, chunked_cat. apply with_meta_f_nofault; try (intros; reflexivity).
    intros md s1 i1. apply read_chunks_f_nofault. intros [old miss] s2 i2.
    destruct miss; [reflexivity|apply frun_embed_nofault].
  - apply get_f_nofault.
  - unfold chunked_gat_f, chunked_gat. apply with_meta_f_nofault; try (intros; reflexivity).
    intros md s1 i1. apply read_chunks_f_nofault. intros [d miss] s2 i2. reflexivity.
Qed.

Lemma chunked_exec_f_no_fault tok cnow s now q :
  chunked_exec_f no_cfaults tok cnow s now q = lift (chunked_exec tok cnow s now q).
Proof. apply prog_f_nofault. Qed.

(* ================= 2. confinement and frame under any plan ================= *)
Inductive allreq_f {A} (P : breq -> Prop) : fprog A -> Prop :=
| arf_ret a : allreq_f P (FRet a)
| arf_req q K : P q -> (forall r, allreq_f P (K r)) -> allreq_f P (FReq q K).

Lemma allreq_f_ftrace {A} (P : breq -> Prop) (p : fprog A) : allreq_f P p ->
  forall pl s now i dead q, In q (ftrace pl p s now i dead) -> P q.
Proof.
  induction 1 as [a|q0 K Hq HK IH]; intros pl s now i dead q Hin; [destruct Hin|].
  cbn [ftrace] in Hin. destruct dead; [exact (IH _ _ _ _ _ _ _ Hin)|].
  destruct Hin as [<-|Hin]; [assumption|].
  destruct (pl i) as [[st|ap]|].
  - exact (IH _ _ _ _ _ _ _ Hin).
  - exact (IH _ _ _ _ _ _ _ Hin).
  - destruct (b_exec s now q0) as [s1 r]. exact (IH _ _ _ _ _ _ _ Hin).
Qed.

Lemma allreq_f_mono {A} (P Q : breq -> Prop) (p : fprog A) :
  (forall q, P q -> Q q) -> allreq_f P p -> allreq_f Q p.
Proof. intros HPQ. induction 1; constructor; auto. Qed.

Lemma allreq_f_embed (P : breq -> Prop) p : allreq P p -> allreq_f P (embed p).
Proof.
  induction 1 as [a|q K Hq HK IH]; cbn [embed]; constructor; [assumption|].
  intros [x| |]; [apply IH| |apply IH]. destruct (is_set q); [constructor|apply IH].
Qed.

Lemma allreq_f_freqs {A} (P : breq -> Prop) qs : forall acc (K : list frep -> fprog A),
  Forall P qs -> (forall rs, allreq_f P (K rs)) -> allreq_f P (freqs qs acc K).
Proof.
  induction qs as [|q r IH]; intros acc K HF HK; cbn [freqs]; [apply HK|].
  inversion HF; subst. constructor; [assumption|]. intros x. apply IH; assumption.
Qed.

Lemma allreq_f_with_meta {A} (P : breq -> Prop) q (miss : fprog A) fail K :
  P q -> allreq_f P miss -> (forall e, allreq_f P (fail e)) -> (forall md, allreq_f P (K md)) ->
  allreq_f P (with_meta_f q miss fail K).
Proof.
  intros Hq Hm Hf HK. unfold with_meta_f. constructor; [assumption|].
  intros [[|st|f v]| |]; try apply Hf; [|apply HK].
  destruct (err_of_status st) as [e|]; [|apply HK]. destruct (e =? EKeyNotFound); [assumption|apply Hf].
Qed.

Lemma allreq_f_read_chunks {A} ks k md touch fail (cont : bytes * bool -> fprog A) :
  In k ks -> (forall e, allreq_f (okq ks) (fail e)) -> (forall dm, allreq_f (okq ks) (cont dm)) ->
  allreq_f (okq ks) (read_chunks_f k md touch fail cont).
Proof.
  intros Hk Hf Hc. unfold read_chunks_f. apply allreq_f_freqs.
  - apply okq_chunk_keys; [assumption|]. intros ck. destruct touch; reflexivity.
  - intros rs. constructor; [apply okq_noop|]. intros n.
    destruct (io_failed _); [apply Hf|]. destruct (last_app_err rs); [apply Hf|apply Hc].
Qed.

Lemma allreq_f_get : forall items acc, allreq_f (okq (map gi_key items)) (chunked_get_f items acc).
Proof.
  induction items as [|it r IH]; intros acc; cbn [chunked_get_f]; [constructor|].
  assert (Hin : In (gi_key it) (map gi_key (it :: r))) by (left; reflexivity).
  assert (Hmono : forall acc', allreq_f (okq (map gi_key (it :: r))) (chunked_get_f r acc')).
  { intros acc'. eapply allreq_f_mono; [|apply IH]. intros q. apply okq_mono.
    intros x Hx. right. assumption. }
  apply allreq_f_with_meta.
  - apply (okq_meta _ (gi_key it)); [assumption|reflexivity].
  - apply Hmono.
  - intros e. constructor.
  - intros md. apply allreq_f_read_chunks; [assumption|intros; constructor|]. intros [d miss]. apply Hmono.
Qed.

Lemma allreq_f_prog tok cnow q : allreq_f (okq (hreq_keys q)) (chunked_prog_f tok cnow q).
Proof.
  destruct q as [m k d f ttl|front k d|k|k ttl|items|items|k ttl opq]; cbn [chunked_prog_f];
    try (apply allreq_f_embed; apply allreq_prog).
  - cbn [hreq_keys]. unfold chunked_cat_f. apply allreq_f_with_meta; try (intros; constructor).
    + apply (okq_meta _ k); [left; reflexivity|reflexivity].
    + intros md. apply allreq_f_read_chunks; [left; reflexivity|intros; constructor|]. intros [old miss].
      destruct miss; [constructor|]. apply allreq_f_embed. apply allreq_set. left. reflexivity.
  - apply allreq_f_get.
  - cbn [hreq_keys]. unfold chunked_gat_f. apply allreq_f_with_meta; try (intros; constructor).
    + apply (okq_meta _ k); [left; reflexivity|reflexivity].
    + intros md. apply allreq_f_read_chunks; [left; reflexivity|intros; constructor|]. intros [d miss]. constructor.
Qed.

Lemma confinement_f : forall pl tok cnow q s now bq bk,
  In bq (chunked_trace_f pl tok cnow s now q) -> key_of bq = Some bk ->
  exists k, In k (hreq_keys q) /\ derived k bk.
Proof.
  intros pl tok cnow q s now bq bk Hin Hk.
  exact (allreq_f_ftrace _ _ (allreq_f_prog tok cnow q) pl s now 0%nat false bq Hin bk Hk).
Qed.

Lemma status_store_frame s st q bk : key_of q <> Some bk -> status_store s st q bk = s bk.
Proof.
  intros H. unfold status_store. destruct (key_of q) as [k|]; [|reflexivity].
  destruct (_ || _); [|reflexivity]. apply upd_other. congruence.
Qed.

Lemma allreq_f_frame {A} (P : breq -> Prop) (p : fprog A) : allreq_f P p ->
  forall pl s now i dead bk, (forall q, P q -> key_of q <> Some bk) -> fst (frun pl p s now i dead) bk = s bk.
Proof.
  induction 1 as [a|q K Hq HK IH]; intros pl s now i dead bk HP; [reflexivity|].
  cbn [frun]. destruct dead; [apply IH; exact HP|].
  destruct (pl i) as [[st|ap]|].
  - rewrite IH by exact HP. apply status_store_frame. apply HP. exact Hq.
  - rewrite IH by exact HP. destruct ap; [|reflexivity]. apply b_exec_frame. apply HP. exact Hq.
  - destruct (b_exec s now q) as [s1 r] eqn:E. rewrite IH by exact HP.
    change s1 with (fst (s1, r)). rewrite <- E. apply b_exec_frame. apply HP. exact Hq.
Qed.

(* a handler call under any plan leaves alone every backend key derived from a client key it does not name *)
Lemma prog_frame_f pl tok cnow q s now k' bk :
  ~ In k' (hreq_keys q) -> derived k' bk -> fst (chunked_exec_f pl tok cnow s now q) bk = s bk.
Proof.
  intros Hn Hd. apply (allreq_f_frame _ _ (allreq_f_prog tok cnow q)).
  intros bq Hok E. destruct (Hok bk E) as [k [Hk Hdk]].
  apply Hn. rewrite (derived_disjoint k' k bk Hd Hdk). exact Hk.
Qed.

Lemma frame_abs_f pl tok cnow q s now k' :
  ~ In k' (hreq_keys q) ->
  abs_entry (fst (chunked_exec_f pl tok cnow s now q)) now k' = abs_entry s now k'.
Proof. intros Hn. apply abs_entry_ext. intros bk Hd. apply (prog_frame_f pl tok cnow q s now k' bk); assumption. Qed.
