(* Inmem.v — handlers/inmem/inmem.go (the in-process debug backend), AFTER
   /verif/fixes/C17-inmem.patch. The code before the patch is in InmemOld.v.

   The Go handler is one `map[string]entry` (entry = exptime, flags, data) behind one
   sync.RWMutex; it reads the wall clock itself. Model conventions:
   - the concrete state is the map as a function key -> option raw (raw = the Go `entry`);
   - one handler call is one [step]: which lock it takes (RLock / Lock), the list of
     map-mutating statements it executes, in order ([MPut] = `h.data[k] = e`,
     [MDel] = `delete(h.data, k)` — executed even when the key is absent, exactly as the
     code does), and the value it returns; the new state is the old one with these
     statements applied. "This step wrote the map" is "the list is not empty";
   - [now] is the value of time.Now().Unix() during the call (the harness samples the clock
     before and after each call and only keeps runs where it did not change);
   - exptime arithmetic is uint32 arithmetic, as in the code;
   - slices are values: the aliasing the unfixed Append/Prepend could create is outside
     this model (the harness exercises it; the fixed code builds fresh slices). *)
From Rend Require Import base.Bytes gen.Consts_gen spec.MapSpec orca.Types handlers.Std.
Open Scope N_scope.

(* type entry struct { exptime uint32; flags uint32; data []byte } *)
Record raw := mkRaw { r_exp : N; r_flags : N; r_data : bytes }.

Definition cstate := bytes -> option raw.
Definition cempty : cstate := fun _ => None.

(* the two statements that modify the Go map *)
Inductive mop :=
| MPut (k : bytes) (e : raw)       (* h.data[string(k)] = e *)
| MDel (k : bytes).                (* delete(h.data, string(k)) *)

Definition apply_op (st : cstate) (o : mop) : cstate :=
  match o with
  | MPut k e => fun k' => if bytes_eqb k' k then Some e else st k'
  | MDel k => fun k' => if bytes_eqb k' k then None else st k'
  end.
Definition apply_ops (st : cstate) (ops : list mop) : cstate := fold_left apply_op ops st.

Inductive lockk := LRead | LWrite.   (* h.mutex.RLock() / h.mutex.Lock() *)

Record step := mkStep { s_lock : lockk; s_ops : list mop; s_res : hres }.
Definition wrote (s : step) : bool := match s_ops s with [] => false | _ => true end.

Definition two32 : N := 4294967296.
Definition u32 (x : N) : N := x mod two32.

(* func (e entry) isExpired() bool { return e.exptime != 0 && e.exptime < uint32(time.Now().Unix()) } *)
Definition expired (now : N) (e : raw) : bool :=
  negb (r_exp e =? 0) && (r_exp e <? u32 now).

(* var exptime uint32; if cmd.Exptime > 0 { exptime = uint32(time.Now().Unix()) + cmd.Exptime } *)
Definition new_exp (now ttl : N) : N :=
  if 0 <? ttl then u32 (u32 now + ttl) else 0.

(* e, ok := h.data[key]; "ok && !e.isExpired()" *)
Definition lookup (st : cstate) (now : N) (k : bytes) : option raw :=
  match st k with
  | Some e => if expired now e then None else Some e
  | None => None
  end.

(* Set / Add / Replace *)
Definition im_store (m : smode) (st : cstate) (now : N) (k d : bytes) (f ttl : N) : step :=
  let put := MPut k (mkRaw (new_exp now ttl) f d) in
  match m with
  | MSet => mkStep LWrite [put] HDone
  | MAdd =>
      (* if ok && !e.isExpired() { unlock; return ErrKeyExists }  — nothing deleted *)
      match lookup st now k with
      | Some _ => mkStep LWrite [] (HErr EKeyExists)
      | None => mkStep LWrite [put] HDone
      end
  | MReplace =>
      (* if !ok || e.isExpired() { delete(h.data, key); unlock; return ErrKeyNotFound } *)
      match lookup st now k with
      | Some _ => mkStep LWrite [put] HDone
      | None => mkStep LWrite [MDel k] (HErr EKeyNotFound)
      end
  end.

(* Append (front = false) / Prepend (front = true): exptime and flags kept *)
Definition im_cat (front : bool) (st : cstate) (now : N) (k d : bytes) : step :=
  match lookup st now k with
  | Some e =>
      mkStep LWrite [MPut k (mkRaw (r_exp e) (r_flags e) (if front then d ++ r_data e else r_data e ++ d))] HDone
  | None => mkStep LWrite [MDel k] (HErr EKeyNotFound)
  end.

(* Delete (fixed): found := ok && !e.isExpired(); delete(h.data, key); not found -> ErrKeyNotFound *)
Definition im_delete (st : cstate) (now : N) (k : bytes) : step :=
  match lookup st now k with
  | Some _ => mkStep LWrite [MDel k] HDone
  | None => mkStep LWrite [MDel k] (HErr EKeyNotFound)
  end.

(* Touch *)
Definition im_touch (st : cstate) (now : N) (k : bytes) (ttl : N) : step :=
  match lookup st now k with
  | Some e => mkStep LWrite [MPut k (mkRaw (new_exp now ttl) (r_flags e) (r_data e))] HDone
  | None => mkStep LWrite [MDel k] (HErr EKeyNotFound)
  end.

(* one key of Get (withexp = false) / GetE (withexp = true): GetE reports the raw stored
   exptime (absolute second, 0 = never), not a remaining lifetime *)
Definition im_get1 (st : cstate) (now : N) (withexp : bool) (it : gitem) : gres :=
  match lookup st now (gi_key it) with
  | Some e => mkGR (gi_key it) (r_data e) (r_flags e) (if withexp then r_exp e else 0)
                   (gi_opaque it) (gi_quiet it) false
  | None => miss_res it
  end.

(* Get / GetE (fixed): read lock, no map statement at all *)
Definition im_get (st : cstate) (now : N) (withexp : bool) (items : list gitem) : step :=
  mkStep LRead [] (HVals (map (im_get1 st now withexp) items) None).

(* GAT: write lock; Quiet is not set in the response *)
Definition im_gat (st : cstate) (now : N) (k : bytes) (ttl opq : N) : step :=
  match lookup st now k with
  | Some e =>
      mkStep LWrite [MPut k (mkRaw (new_exp now ttl) (r_flags e) (r_data e))]
             (HVals [mkGR k (r_data e) (r_flags e) 0 opq false false] None)
  | None => mkStep LWrite [MDel k] (HVals [mkGR k [] 0 0 opq false true] None)
  end.

Definition inmem_step (st : cstate) (now : N) (q : hreq) : step :=
  match q with
  | HSet m k d f ttl => im_store m st now k d f ttl
  | HCat front k d => im_cat front st now k d
  | HDelete k => im_delete st now k
  | HTouch k ttl => im_touch st now k ttl
  | HGet items => im_get st now false items
  | HGetE items => im_get st now true items
  | HGat k ttl opq => im_gat st now k ttl opq
  end.

(* the handler as a sequential step function over its own state (the shape of [hexec]) *)
Definition inmem_exec (st : cstate) (now : N) (q : hreq) : cstate * hres :=
  let s := inmem_step st now q in (apply_ops st (s_ops s), s_res s).

Fixpoint inmem_run (st : cstate) (h : list (N * hreq)) : cstate * list hres :=
  match h with
  | [] => (st, [])
  | (now, q) :: r => let '(st1, o) := inmem_exec st now q in
                     let '(st2, os) := inmem_run st1 r in (st2, o :: os)
  end.

(* ------------------------------------------------------------------ *)
(* relation to the reference map                                       *)

(* The backend's own TTL rule (NOT memcached's [norm]: TTLs are always relative, there is no
   30-day rule, and an entry is still alive during the second exptime = now):
   exptime e = now + ttl is "alive iff not (e < now)" = "alive iff now < e + 1". *)
Definition inmem_norm (now ttl : N) : deadline :=
  if ttl =? 0 then Never else At (now + ttl + 1).

(* abstraction: raw exptime 0 = never; e = alive until second e inclusive *)
Definition abs_dl (x : N) : deadline := if x =? 0 then Never else At (x + 1).
Definition abs_raw (e : raw) : entry := mkE (r_data e) (r_flags e) (abs_dl (r_exp e)).
Definition abs (st : cstate) : store :=
  fun k => match st k with Some e => Some (abs_raw e) | None => None end.
(* the raw exptime GetE reports, read off a reference deadline *)
Definition dl_raw (d : deadline) : N := match d with Never => 0 | At t => t - 1 end.

(* handler request -> reference command (opaques and quiet flags are transport detail) *)
Definition cmd_of (q : hreq) : cmd :=
  match q with
  | HSet m k d f ttl => CSet m k d f ttl
  | HCat front k d => CCat front k d
  | HDelete k => CDelete k
  | HTouch k ttl => CTouch k ttl
  | HGet items | HGetE items => CGet (map gi_key items)
  | HGat k ttl _ => CGat k ttl
  end.
Definition ttl_of (q : hreq) : N :=
  match q with HSet _ _ _ _ ttl | HTouch _ ttl | HGat _ ttl _ => ttl | _ => 0 end.

(* handler result -> outcome class of the reference map *)
Definition gres_view (r : gres) : option (bytes * N) :=
  if g_miss r then None else Some (g_data r, g_flags r).
Definition outcome_of (r : hres) : outcome :=
  match r with
  | HDone => OOk
  | HErr e => if e =? EKeyExists then OExists else OMiss
  | HVals rs _ => OVals (map gres_view rs)
  end.

(* The complete result the handler must give, computed from the REFERENCE store only:
   the error code this backend uses for each class, and for the get family every field of
   every response (key, opaque, quiet echoed; data, flags of the live reference entry; for
   GetE the raw exptime of its deadline). *)
Definition ref_get1 (s : store) (now : N) (withexp : bool) (it : gitem) : gres :=
  match gb_get s now (gi_key it) with
  | Some e => mkGR (gi_key it) (e_data e) (e_flags e) (if withexp then dl_raw (e_dl e) else 0)
                   (gi_opaque it) (gi_quiet it) false
  | None => miss_res it
  end.
Definition ref_result (s : store) (now : N) (q : hreq) : hres :=
  match q with
  | HGet items => HVals (map (ref_get1 s now false) items) None
  | HGetE items => HVals (map (ref_get1 s now true) items) None
  | HGat k ttl opq => HVals [ref_get1 s now false (mkGI k opq false)] None
  | _ => match snd (gspec_step inmem_norm s now (cmd_of q)) with
         | OOk => HDone
         | OExists => HErr EKeyExists
         | _ => HErr EKeyNotFound
         end
  end.

Fixpoint ref_run (s : store) (h : list (N * hreq)) : store * list hres :=
  match h with
  | [] => (s, [])
  | (now, q) :: r => let '(s1, _) := gspec_step inmem_norm s now (cmd_of q) in
                     let '(s2, os) := ref_run s1 r in (s2, ref_result s now q :: os)
  end.

Definition hist_cmds (h : list (N * hreq)) : list (N * cmd) :=
  map (fun nq => (fst nq, cmd_of (snd nq))) h.

(* histories the theorem talks about: clock readings non-decreasing from [t0] (needed: the code
   physically removes an entry it finds expired, the reference keeps it, so a clock running
   backwards could resurrect it in the reference only) and now + ttl within uint32 *)
Fixpoint hist_ok (t0 : N) (h : list (N * hreq)) : Prop :=
  match h with
  | [] => True
  | (now, q) :: r => t0 <= now /\ now + ttl_of q < two32 /\ hist_ok now r
  end.
Fixpoint last_now (t0 : N) (h : list (N * hreq)) : N :=
  match h with [] => t0 | (now, _) :: r => last_now now r end.

(* two stores are indistinguishable from [now] on: same live entries at every later second *)
Definition live_eq (now : N) (a b : store) : Prop :=
  forall now' k, now <= now' -> live now' a k = live now' b k.
