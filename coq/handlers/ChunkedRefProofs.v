(* ChunkedRefProofs.v — the theorems of props/C04b.v: every chunked command refines the
   reference map on the abstraction of a well-formed backend store and keeps it well-formed
   (get-and-touch: refines, but leaves the expiry recorded in the metadata stale).
   Per-key lemmas: ChunkedRefCmds.v; generic facts: ChunkedRefBase.v. *)
From Coq Require Import String.
From Rend Require Import base.Bytes gen.Consts_gen spec.MapSpec orca.Types handlers.ChunkFmt
  handlers.ChunkFmtProofs handlers.Chunked handlers.ChunkedSpec handlers.ChunkedProofs
  handlers.ChunkedRefBase.
From Rend Require Export handlers.ChunkedRefCmds.
Open Scope N_scope.

(* the reference map changes only at the key of the command *)
Lemma spec_frame a now c k' :
  match c with
  | CSet _ k _ _ _ | CCat _ k _ | CDelete k | CTouch k _ | CGat k _ => k' <> k
  | CGet _ => True
  end -> fst (spec_step a now c) k' = a k'.
Proof.
  destruct c as [m k d f ttl|fr k d|k|k ttl|ks|k ttl]; intros H; cbn [gspec_step].
  - unfold gb_set, gb_put. destruct m; destruct (live now a k); cbn [fst]; try reflexivity; apply upd_other; exact H.
  - unfold gb_cat. destruct (live now a k); cbn [fst]; [apply upd_other; exact H|reflexivity].
  - unfold gb_delete. destruct (live now a k); cbn [fst]; [apply upd_other; exact H|reflexivity].
  - unfold gb_touch. destruct (live now a k); cbn [fst]; [apply upd_other; exact H|reflexivity].
  - reflexivity.
  - unfold gb_gat, gb_touch. destruct (live now a k); cbn [fst]; [apply upd_other; exact H|reflexivity].
Qed.

(* from the key of the command to all keys *)
Lemma single_abs tok cnow now st q c k :
  hreq_keys q = [k] ->
  (forall k', k' <> k -> fst (spec_step (abs_store st now) now c) k' = abs_store st now k') ->
  key_refines st now q c k (brun (chunked_prog tok cnow q) st now) ->
  hres_outcome q (snd (brun (chunked_prog tok cnow q) st now)) = Some (snd (spec_step (abs_store st now) now c)) /\
  (forall k', 1 <= len k' <= 250 ->
     live now (abs_store (fst (brun (chunked_prog tok cnow q) st now)) now) k' =
     live now (fst (spec_step (abs_store st now) now c)) k').
Proof.
  intros Hkeys Hsf [R1 R2]. split; [exact R1|].
  intros k' _. rewrite live_abs. destruct (key_eq_dec k' k) as [->|Hne]; [exact R2|].
  rewrite (abs_entry_ext st _ now k').
  - rewrite (live_lv now (fst _)), (Hsf k' Hne), <- live_lv, live_abs. reflexivity.
  - intros bk Hd. apply prog_frame with (k' := k'); [|exact Hd].
    rewrite Hkeys. intros [E|[]]. apply Hne. symmetry. exact E.
Qed.

Lemma single_wf tok cnow now st q k :
  wf_store st now -> hreq_keys q = [k] ->
  wf_key (fst (brun (chunked_prog tok cnow q) st now)) now k ->
  wf_store (fst (brun (chunked_prog tok cnow q) st now)) now.
Proof.
  intros W Hkeys Wk k' Hk'. destruct (key_eq_dec k' k) as [->|Hne]; [exact Wk|].
  apply (wf_key_ext st); [|apply W; exact Hk'].
  intros bk Hd. apply prog_frame with (k' := k'); [|exact Hd].
  rewrite Hkeys. intros [E|[]]. apply Hne. symmetry. exact E.
Qed.

(* fst/snd form of the main theorem *)
Lemma chunked_refines_fs : forall tok cnow now st q c,
  wf_store st now -> call_ok tok cnow now q -> cat_fits st now q -> hcmd q = Some c ->
  (forall k ttl o, q <> HGat k ttl o) ->
  let X := chunked_exec tok cnow st now q in
  let S := spec_step (abs_store st now) now c in
  hres_outcome q (snd X) = Some (snd S) /\
  (forall k, 1 <= len k <= 250 -> live now (abs_store (fst X) now) k = live now (fst S) k) /\
  wf_store (fst X) now.
Proof.
  intros tok cnow now st q c W Hc Hfit Hq Hng. cbv zeta. unfold chunked_exec.
  destruct q as [m k d f ttl|front k d|k|k ttl|items|items|k ttl opq]; cbn [hcmd] in Hq;
    try (inversion Hq; subst c; clear Hq).
  - (* set / add / replace *)
    pose proof Hc as (_ & _ & _ & Hk & _).
    destruct (set_key st now tok cnow m k d f ttl (W k Hk) Hc) as [KR Wk].
    destruct (single_abs tok cnow now st (HSet m k d f ttl) (CSet m k d f ttl) k eq_refl) as [R1 R2];
      [intros k' Hne; apply spec_frame; exact Hne|exact KR|].
    split; [exact R1|]. split; [exact R2|].
    apply (single_wf tok cnow now st (HSet m k d f ttl) k W eq_refl Wk).
  - (* append / prepend *)
    pose proof Hc as (_ & _ & _ & Hk & _).
    destruct (cat_key st now tok cnow front k d (W k Hk) Hc Hfit) as [KR Wk].
    destruct (single_abs tok cnow now st (HCat front k d) (CCat front k d) k eq_refl) as [R1 R2];
      [intros k' Hne; apply spec_frame; exact Hne|exact KR|].
    split; [exact R1|]. split; [exact R2|].
    apply (single_wf tok cnow now st (HCat front k d) k W eq_refl Wk).
  - (* delete *)
    pose proof Hc as (_ & _ & _ & Hk).
    destruct (delete_key st now k Hk (W k Hk)) as [KR Wk].
    destruct (single_abs tok cnow now st (HDelete k) (CDelete k) k eq_refl) as [R1 R2];
      [intros k' Hne; apply spec_frame; exact Hne|exact KR|].
    split; [exact R1|]. split; [exact R2|].
    apply (single_wf tok cnow now st (HDelete k) k W eq_refl Wk).
  - (* touch *)
    pose proof Hc as (_ & _ & _ & Hk & _).
    destruct (touch_key st now cnow tok k ttl (W k Hk) Hc) as [KR Wk].
    destruct (single_abs tok cnow now st (HTouch k ttl) (CTouch k ttl) k eq_refl) as [R1 R2];
      [intros k' Hne; apply spec_frame; exact Hne|exact KR|].
    split; [exact R1|]. split; [exact R2|].
    apply (single_wf tok cnow now st (HTouch k ttl) k W eq_refl Wk).
  - (* get *)
    destruct Hc as (_ & _ & _ & HF). cbn [chunked_prog].
    rewrite (get_run st now W items [] HF). cbn [rev app fst snd].
    split; [apply get_outcome|]. split; [intros k _; reflexivity|exact W].
  - exfalso. exact (Hng k ttl opq eq_refl).
Qed.

Theorem chunked_refines_spec : forall tok cnow now st q c,
  wf_store st now -> call_ok tok cnow now q -> cat_fits st now q -> hcmd q = Some c ->
  (forall k ttl o, q <> HGat k ttl o) ->
  let '(st', r) := chunked_exec tok cnow st now q in
  let '(a', o) := spec_step (abs_store st now) now c in
  hres_outcome q r = Some o /\
  (forall k, 1 <= len k <= 250 -> live now (abs_store st' now) k = live now a' k) /\
  wf_store st' now.
Proof.
  intros tok cnow now st q c W Hc Hfit Hq Hng.
  pose proof (chunked_refines_fs tok cnow now st q c W Hc Hfit Hq Hng) as H. cbv zeta in H.
  destruct (chunked_exec tok cnow st now q) as [st' r].
  destruct (spec_step (abs_store st now) now c) as [a' o]. exact H.
Qed.

Theorem chunked_gat_refines : forall tok cnow now st k ttl o,
  wf_store st now -> call_ok tok cnow now (HGat k ttl o) ->
  let '(st', r) := chunked_exec tok cnow st now (HGat k ttl o) in
  let '(a', oc) := spec_step (abs_store st now) now (CGat k ttl) in
  hres_outcome (HGat k ttl o) r = Some oc /\
  (forall k', 1 <= len k' <= 250 -> live now (abs_store st' now) k' = live now a' k').
Proof.
  intros tok cnow now st k ttl o W Hc.
  pose proof Hc as (_ & _ & _ & Hk & _).
  pose proof (gat_key st now cnow tok k ttl o (W k Hk) Hc) as KR.
  destruct (single_abs tok cnow now st (HGat k ttl o) (CGat k ttl) k eq_refl) as [R1 R2];
    [intros k' Hne; apply spec_frame; exact Hne|exact KR|].
  unfold chunked_exec. cbn [chunked_prog] in R1, R2 |- *.
  destruct (brun (chunked_gat k ttl o) st now) as [st' r].
  destruct (spec_step (abs_store st now) now (CGat k ttl)) as [a' oc].
  split; [exact R1|exact R2].
Qed.

(* ---------------- concrete instances ---------------- *)
Lemma wf_empty now : wf_store empty_store now.
Proof. intros k _ me H. discriminate H. Qed.

Ltac decide_call := repeat split; first [reflexivity | discriminate | lia | (vm_compute; first [reflexivity | discriminate])].

Definition wit_tok : bytes := repeat 9 16.
Definition wit_k : bytes := [107].
Definition wit_now : N := 3000000.
Definition wit_set : hreq := HSet MSet wit_k [1; 2; 3] 5 100.
Definition wit_st : store := fst (chunked_exec wit_tok wit_now empty_store wit_now wit_set).

Lemma wit_wf : wf_store wit_st wit_now.
Proof.
  assert (Hc : call_ok wit_tok wit_now wit_now wit_set) by decide_call.
  assert (Hng : forall k ttl o, wit_set <> HGat k ttl o) by (intros; discriminate).
  exact (proj2 (proj2 (chunked_refines_fs wit_tok wit_now wit_now empty_store wit_set _
                         (wf_empty wit_now) Hc I eq_refl Hng))).
Qed.

Theorem chunked_gat_breaks_wf : exists tok now st k ttl o,
  wf_store st now /\ call_ok tok now now (HGat k ttl o) /\
  ~ wf_store (fst (chunked_exec tok now st now (HGat k ttl o))) now.
Proof.
  exists wit_tok, wit_now, wit_st, wit_k, 5000, 0.
  split; [exact wit_wf|]. split; [decide_call|].
  intros W2.
  assert (Hk : 1 <= len wit_k <= 250) by decide_call.
  assert (Hme : exists me, live wit_now (fst (chunked_exec wit_tok wit_now wit_st wit_now (HGat wit_k 5000 0)))
                             (meta_key wit_k) = Some me /\
                           ~ exptime_agrees (dec_meta (e_data me)) (e_dl me)).
  { eexists. split; [vm_compute; reflexivity|]. vm_compute. intros H. discriminate H. }
  destruct Hme as (me & Hl & Hno). apply Hno.
  destruct (W2 wit_k Hk me Hl) as (_ & H & _). exact H.
Qed.

Lemma c04b_example :
  let tok := repeat 9 16 in let k := [107; 101; 121] in
  let st := fst (chunked_exec tok 3000000 empty_store 3000000 (HSet MSet k (repeat 7 2500) 5 100)) in
  wf_key st 3000000 k /\ call_ok tok 3000000 3000000 (HCat false k [1; 2; 3]) /\
  cat_fits st 3000000 (HCat false k [1; 2; 3]) /\ abs_entry st 3000000 k <> None.
Proof.
  intros tok k st. split; [|split; [decide_call|split]].
  2:{ intros e He. vm_compute in He. inversion He; subst e. vm_compute. reflexivity. }
  2:{ vm_compute. discriminate. }
  assert (Hc : call_ok tok 3000000 3000000 (HSet MSet k (repeat 7 2500) 5 100)) by decide_call.
  assert (Hng : forall k' ttl o, HSet MSet k (repeat 7 2500) 5 100 <> HGat k' ttl o) by (intros; discriminate).
  apply (proj2 (proj2 (chunked_refines_fs tok 3000000 3000000 empty_store _ _
                         (wf_empty 3000000) Hc I eq_refl Hng))).
  decide_call.
Qed.
